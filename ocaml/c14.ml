(* C14: Hessenberg reduction — extracted float instance *)
open Model
open Svutil

let err_name = function
  | ENonSquareMatrix -> "NonSquareMatrix"
  | _ -> "Other"

let run (line : string) : string =
  let t = toks_of_line line in
  match word t with
  | "hess" ->
    let (h, w, rows) = fmat t in
    (match f_hessenberg_lists (nat_of_int h) (nat_of_int w) rows with
     | Ok (hm, qm) ->
       let flat m = List.concat m in
       String.concat " " (["ok"; string_of_int h] @ List.map hex_of_float (flat hm @ flat qm))
     | Err e -> "err " ^ err_name e
     | Panic _ -> "panic")
  | c -> "badcmd " ^ c

let () = main_loop run
