(* C02: multivariate parser + evaluators (extracted float instance)
     parse CPS                      -> ok NTERMS {COEF NVARS {NAMECPS EXP}} | NVARS {NAMECPS}  or  err K  or  panic
     eval CPS X NB {NAMECPS V}      -> ok mv TOK uv TOK   (TOK = hex, err:K, panic)  or  err K  or  panic
     agree CPS X                    -> s TOK i TOK *)
open Model
open Svutil

let err_name = function
  | EInvalidCoefficient -> "InvalidCoefficient" | EInvalidConstant -> "InvalidConstant"
  | EInvalidExponent -> "InvalidExponent" | EInvalidFractionalExponent -> "InvalidFractionalExponent"
  | EInvalidFraction -> "InvalidFraction" | EInvalidNumber -> "InvalidNumber"
  | EPolynomialSyntaxError -> "PolynomialSyntaxError" | EMissingVariable -> "MissingVariable"
  | ETooManyVariables -> "TooManyVariables" | ETooFewVariables -> "TooFewVariables"
  | EUnexpectedChar -> "UnexpectedChar" | EVariableNotFound -> "VariableNotFound"
  | EUnexpectedToken -> "UnexpectedToken" | EUnexpectedEndOfTokens -> "UnexpectedEndOfTokens"
  | EMaxIterationsReached -> "MaxIterationsReached" | ENoConvergence -> "NoConvergence"
  | EXInitOutOfBounds -> "XInitOutOfBounds" | ENonSquareMatrix -> "NonSquareMatrix"
  | ESingularMatrix -> "SingularMatrix" | EInvalidVector -> "InvalidVector"
  | ENumArgumentsMismatch -> "NumArgumentsMismatch" | EInconsistentRowLengths -> "InconsistentRowLengths"
  | EInvalidReshape -> "InvalidReshape" | EInvalidShape -> "InvalidShape"
  | EInvalidDotShape -> "InvalidDotShape" | EConversionFailed -> "ConversionFailed"

let show_cps (s : n list) : string =
  String.trim (string_of_int (List.length s) ^ " " ^ String.concat " " (List.map (fun c -> string_of_int (int_of_n c)) s))

let show_inter (p : Float64.t ipoly) : string =
  let b = Buffer.create 64 in
  Buffer.add_string b (Printf.sprintf "ok %d" (List.length p.i_terms));
  List.iter (fun t ->
    Buffer.add_string b (Printf.sprintf " %s %d" (hex_of_float t.t_coef) (List.length t.t_vars));
    List.iter (fun (nm, e) -> Buffer.add_string b (Printf.sprintf " %s %s" (show_cps nm) (hex_of_float e))) t.t_vars)
    p.i_terms;
  Buffer.add_string b (Printf.sprintf " | %d" (List.length p.i_vars));
  List.iter (fun nm -> Buffer.add_string b (" " ^ show_cps nm)) p.i_vars;
  Buffer.contents b

let tok = function
  | Ok v -> hex_of_float v
  | Err e -> "err:" ^ err_name e
  | Panic _ -> "panic"

let run (line : string) : string =
  let t = toks_of_line line in
  match word t with
  | "parse" ->
    (match f_parse_inter (cpstr t) with
     | Ok p -> show_inter p | Err e -> "err " ^ err_name e | Panic _ -> "panic")
  | "eval" ->
    let s = cpstr t in
    let x = fl t in
    let nb = int t in
    let env = times nb (fun () -> let nm = cpstr t in let v = fl t in (nm, v)) in
    (match f_parse_inter s with
     | Ok p -> Printf.sprintf "ok mv %s uv %s" (tok (f_eval_multi p env)) (tok (f_eval_uni p x))
     | Err e -> "err " ^ err_name e | Panic _ -> "panic")
  | "agree" ->
    let s = cpstr t in
    let x = fl t in
    let st = (match f_parse_simple s with
      | Ok p -> hex_of_float (f_eval_simple p x) | Err e -> "err:" ^ err_name e | Panic _ -> "panic") in
    let it = (match f_parse_inter s with
      | Ok p -> tok (f_eval_uni p x) | Err e -> "err:" ^ err_name e | Panic _ -> "panic") in
    Printf.sprintf "s %s i %s" st it
  | c -> "badcmd " ^ c

let () = main_loop run
