(* Conversions between the wire format of the correspondence check and the
   extracted Coq data types (nat, positive, Z, N stay inductive). *)
open Model

let rec nat_of_int n = if n <= 0 then O else S (nat_of_int (n - 1))
let rec int_of_nat = function O -> 0 | S n -> 1 + int_of_nat n

let rec pos_of_int n =
  if n <= 1 then XH
  else if n land 1 = 0 then XO (pos_of_int (n lsr 1))
  else XI (pos_of_int (n lsr 1))
let rec int_of_pos = function
  | XH -> 1 | XO p -> 2 * int_of_pos p | XI p -> 2 * int_of_pos p + 1

let z_of_int n = if n = 0 then Z0 else if n > 0 then Zpos (pos_of_int n) else Zneg (pos_of_int (-n))
let int_of_z = function Z0 -> 0 | Zpos p -> int_of_pos p | Zneg p -> - (int_of_pos p)
let n_of_int n = if n <= 0 then N0 else Npos (pos_of_int n)
let int_of_n = function N0 -> 0 | Npos p -> int_of_pos p

(* arbitrary-size decimal strings <-> Z, through the extracted arithmetic *)
let z_of_string (s : string) : z =
  let neg = String.length s > 0 && s.[0] = '-' in
  let start = if neg then 1 else 0 in
  let ten = z_of_int 10 in
  let acc = ref Z0 in
  for i = start to String.length s - 1 do
    acc := Z.add (Z.mul !acc ten) (z_of_int (Char.code s.[i] - 48))
  done;
  if neg then Z.opp !acc else !acc

let string_of_z (v : z) : string =
  let ten = z_of_int 10 in
  let rec go v acc =
    match v with
    | Z0 -> acc
    | _ ->
      let q = Z.div v ten and r = Z.modulo v ten in
      go q (string_of_int (int_of_z r) ^ acc)
  in
  match v with
  | Z0 -> "0"
  | Zpos _ -> go v ""
  | Zneg p -> "-" ^ go (Zpos p) ""

(* Float64.t is abstract over OCaml's float; of_float / to_float are the identity *)
let float_of_hex (s : string) : Float64.t =
  Float64.of_float (if s = "nan" then Float.nan else Int64.float_of_bits (Int64.of_string ("0x" ^ s)))
let hex_of_float (f : Float64.t) : string =
  let f = Float64.to_float f in
  if Float.is_nan f then "nan" else Printf.sprintf "%016Lx" (Int64.bits_of_float f)

(* token stream over one input line *)
type toks = { mutable rest : string list }
let toks_of_line (l : string) : toks =
  { rest = List.filter (fun s -> s <> "") (String.split_on_char ' ' l) }
let word t = match t.rest with
  | [] -> failwith "token expected"
  | x :: r -> t.rest <- r; x
let int t = int_of_string (word t)
let fl t = float_of_hex (word t)
let rec times n f = if n <= 0 then [] else let x = f () in x :: times (n - 1) f
let fvec t = let n = int t in times n (fun () -> fl t)
let zvec t = let n = int t in times n (fun () -> z_of_string (word t))
let fmat t = let h = int t in let w = int t in (h, w, times h (fun () -> times w (fun () -> fl t)))
let zmat t = let h = int t in let w = int t in (h, w, times h (fun () -> times w (fun () -> z_of_string (word t))))
(* string as code points: n c1 .. cn  ->  list N *)
let cpstr t = let n = int t in times n (fun () -> n_of_int (int t))

let hexs (l : Float64.t list) = String.concat " " (List.map hex_of_float l)
let opt_hex = function None -> "nan" | Some f -> hex_of_float f

(* stdin -> one result line per non-empty input line *)
let main_loop (f : string -> string) : unit =
  try
    while true do
      let line = input_line stdin in
      if String.trim line <> "" then begin
        let r = try f line with Failure m -> "driver-failure " ^ m | Stack_overflow -> "driver-stack-overflow" in
        print_string r; print_newline ()
      end
    done
  with End_of_file -> ()
