(* C19: expression lexer / parser / fold / Display — extracted float instance.
   Same protocol as harness/src/bin/c19.rs. *)
open Model
open Svutil

let err_name = function
  | EInvalidNumber -> "InvalidNumber" | EPolynomialSyntaxError -> "PolynomialSyntaxError"
  | EUnexpectedChar -> "UnexpectedChar" | EUnexpectedToken -> "UnexpectedToken"
  | EUnexpectedEndOfTokens -> "UnexpectedEndOfTokens" | _ -> "OtherError"

let op_name = function
  | OAdd -> "Add" | OSub -> "Sub" | ODiv -> "Div" | OMul -> "Mul" | OCDot -> "CDot"
  | ORem -> "Rem" | OCaret -> "Caret" | OFac -> "Fac"
let op_of = function
  | "Add" -> OAdd | "Sub" -> OSub | "Div" -> ODiv | "Mul" -> OMul | "CDot" -> OCDot
  | "Rem" -> ORem | "Caret" -> OCaret | "Fac" -> OFac | s -> failwith ("operator " ^ s)
let fn_name = function
  | FSin -> "Sin" | FCos -> "Cos" | FTan -> "Tan" | FCot -> "Cot" | FLog -> "Log" | FLn -> "Ln"
let fn_of = function
  | "Sin" -> FSin | "Cos" -> FCos | "Tan" -> FTan | "Cot" -> FCot | "Log" -> FLog | "Ln" -> FLn
  | s -> failwith ("function " ^ s)
let const_name = function KPi -> "Pi" | KE -> "E" | KTau -> "Tau" | KPhi -> "Phi"
let const_of = function
  | "Pi" -> KPi | "E" -> KE | "Tau" -> KTau | "Phi" -> KPhi | s -> failwith ("constant " ^ s)

let show_cps (s : n list) : string =
  String.trim (string_of_int (List.length s) ^ " " ^ String.concat " " (List.map (fun c -> string_of_int (int_of_n c)) s))

let show_tok = function
  | TNum x -> "n:" ^ hex_of_float x
  | TVar v -> "v:" ^ String.concat "," (List.map (fun c -> string_of_int (int_of_n c)) v)
  | TOp o -> "o:" ^ op_name o
  | TFun f -> "f:" ^ fn_name f
  | TConst c -> "c:" ^ const_name c
  | TLParen -> "lp"
  | TRParen -> "rp"
let tok_of (s : string) =
  if s = "lp" then TLParen else if s = "rp" then TRParen
  else
    let k = String.sub s 0 2 and v = String.sub s 2 (String.length s - 2) in
    match k with
    | "n:" -> TNum (float_of_hex v)
    | "v:" -> TVar (List.map (fun x -> n_of_int (int_of_string x))
                      (List.filter (fun x -> x <> "") (String.split_on_char ',' v)))
    | "o:" -> TOp (op_of v)
    | "f:" -> TFun (fn_of v)
    | "c:" -> TConst (const_of v)
    | _ -> failwith ("token " ^ s)
let show_toks ts =
  String.concat " " (string_of_int (List.length ts) :: List.map show_tok ts)

let rec show_expr b = function
  | ENum x -> Buffer.add_string b ("N " ^ hex_of_float x)
  | EVar v -> Buffer.add_string b ("V " ^ show_cps v)
  | EConst c -> Buffer.add_string b ("C " ^ const_name c)
  | EFun (f, i) -> Buffer.add_string b ("F " ^ fn_name f ^ " "); show_expr b i
  | EPre (o, v) -> Buffer.add_string b ("P " ^ op_name o ^ " "); show_expr b v
  | EPost (o, v) -> Buffer.add_string b ("Q " ^ op_name o ^ " "); show_expr b v
  | EBin (o, l, r, p) ->
    Buffer.add_string b ("B " ^ op_name o ^ (if p then " 1 " else " 0 "));
    show_expr b l; Buffer.add_char b ' '; show_expr b r
let expr_str e = let b = Buffer.create 64 in show_expr b e; Buffer.contents b

let rec read_expr t =
  match word t with
  | "N" -> ENum (fl t)
  | "V" -> EVar (cpstr t)
  | "C" -> EConst (const_of (word t))
  | "F" -> let f = fn_of (word t) in EFun (f, read_expr t)
  | "P" -> let o = op_of (word t) in EPre (o, read_expr t)
  | "Q" -> let o = op_of (word t) in EPost (o, read_expr t)
  | "B" -> let o = op_of (word t) in let p = int t = 1 in
    let l = read_expr t in let r = read_expr t in EBin (o, l, r, p)
  | w -> failwith ("expr tag " ^ w)

(* a model-side Panic anywhere makes the whole line "panic", as a real panic does *)
exception Model_panic

let reread (text : n list) : string =
  match f_lexer text with
  | Panic _ -> raise Model_panic
  | Err e -> "lexerr " ^ err_name e
  | Ok ts ->
    match f_parse_unfolded ts with
    | Panic _ -> raise Model_panic
    | Err e -> "parseerr " ^ err_name e
    | Ok e ->
      match f_fold e with
      | Ok e' -> "ok " ^ expr_str e'
      | _ -> raise Model_panic

let after_tree (u : Float64.t expr) (toks : Float64.t token list option) (b : Buffer.t) =
  let du = f_display u in
  let folded = match f_fold u with Ok e -> e | _ -> raise Model_panic in
  let df = f_display folded in
  (match toks with
   | Some ts ->
     (match f_parser ts with
      | Ok e when expr_str e = expr_str folded -> ()
      | _ -> Buffer.add_string b " ; INCONSISTENT parser differs from fold of parse_unfolded")
   | None -> ());
  Buffer.add_string b (" ; fold " ^ expr_str folded);
  Buffer.add_string b (" ; du " ^ show_cps du ^ " ; ru " ^ reread du);
  Buffer.add_string b (" ; df " ^ show_cps df ^ " ; rf " ^ reread df)

let with_ref = ref false
let after_tokens ts b =
  (* on the comparison-only copies (ctext / ctoks): the Coq reference reader on the same tokens, compared with
     the oracle's reader (not with the crate) *)
  let finish () =
    if !with_ref then
      Buffer.add_string b (match f_ref_read ts with Some e -> " ; ref " ^ expr_str e | None -> " ; ref none") in
  (fun k -> k (); finish ()) @@ fun () ->
  match f_parse_unfolded ts with
  | Panic _ -> raise Model_panic
  | Err e ->
    (match f_parser ts with
     | Err e2 when e2 = e -> ()
     | _ -> Buffer.add_string b " ; INCONSISTENT parser and parse_unfolded disagree on failure");
    Buffer.add_string b (" ; parse err " ^ err_name e)
  | Ok u ->
    Buffer.add_string b (" ; parse ok " ^ expr_str u);
    after_tree u (Some ts) b

let run (line : string) : string =
  let t = toks_of_line line in
  let b = Buffer.create 256 in
  try
    (let cmd = word t in
     with_ref := (cmd = "ctext" || cmd = "ctoks");
     match cmd with
     | "text" | "ctext" ->
       (match f_lexer (cpstr t) with
        | Panic _ -> raise Model_panic
        | Err e -> Buffer.add_string b ("lex err " ^ err_name e)
        | Ok ts -> Buffer.add_string b ("lex ok " ^ show_toks ts); after_tokens ts b)
     | "toks" | "ctoks" ->
       let n = int t in
       let ts = times n (fun () -> tok_of (word t)) in
       Buffer.add_string b ("lex ok " ^ show_toks ts); after_tokens ts b
     | "tree" | "ctree" ->
       let e = read_expr t in
       Buffer.add_string b ("tree " ^ expr_str e); after_tree e None b
     | c -> Buffer.add_string b ("badcmd " ^ c));
    Buffer.contents b
  with Model_panic -> "panic"

let () = main_loop run
