(* C12: operation sequences on the concrete array model (Z entries) *)
open Model
open Svutil

let err_name = function
  | EInvalidDotShape -> "InvalidDotShape"
  | EInvalidShape -> "InvalidShape"
  | EInvalidReshape -> "InvalidReshape"
  | EInconsistentRowLengths -> "InconsistentRowLengths"
  | EConversionFailed -> "ConversionFailed"
  | _ -> "Other"

let rdz t = z_of_string (word t)
let rdn t = nat_of_int (int t)
let zs t = let n = int t in times n (fun () -> rdz t)

let read_op (t : toks) : op =
  match word t with
  | "fn" -> let k = int t in OFromNested (times k (fun () -> zs t))
  (* TryFrom<&Vec<Vec<T>>> (borrowed): same row check, same result; one model body for both *)
  | "fb" -> let k = int t in OFromNested (times k (fun () -> zs t))
  | "fa" ->
    let h = int t in let w = int t in
    let ents = Array.of_list (times (h * w) (fun () -> rdz t)) in
    OFromArray (nat_of_int h, nat_of_int w, (fun r c -> ents.(int_of_nat r * w + int_of_nat c)))
  | "ff" -> let data = zs t in let d = rdz t in let h = rdn t in let w = rdn t in OFromFlat (data, d, h, w)
  | "fu" -> let v = rdz t in let h = rdn t in let w = rdn t in OFull (v, h, w)
  | "id" -> OIdentity (rdn t)
  | "rs" -> OReshape (rdn t)
  | "tr" -> OTranspose
  | "tm" -> OTransposeMut
  | "sw" -> let a = rdn t in let b = rdn t in OSwapRows (a, b)
  | "s1" -> let r = rdn t in let c = rdn t in let v = rdz t in OSet1 (r, c, v)
  | "s2" -> let r = rdn t in let c = rdn t in let v = rdz t in OSet2 (r, c, v)
  | "sr" -> let r = rdn t in let vs = zs t in OSetRow (r, vs)
  | "rm" -> let p = rdz t in let q = rdz t in ORowsMutMap (c12_rows_fn p q)
  | "mp" -> let p = rdz t in let q = rdz t in OMap (c12_map_fn p q)
  | "cl" -> OClone
  | "tf" -> OTryFromRef
  | c -> failwith ("badop " ^ c)

let elem = function
  | AElem (Ok z) -> string_of_z z
  | _ -> "P"

let rows_text = function
  | ARows (Ok rs) -> String.concat "" (List.map (fun r -> " /" ^ String.concat "" (List.map (fun z -> " " ^ string_of_z z) r)) rs)
  | _ -> " P"

let opt_text = function
  | AOpt (Ok (Some z)) -> string_of_z z
  | AOpt (Ok None) -> "none"
  | _ -> "P"

let eq_text = function
  | AEq (Ok true) -> "1"
  | AEq (Ok false) -> "0"
  | _ -> "P"

let rec bump_last = function
  | [] -> []
  | [x] -> [Z.add x (z_of_int 1)]
  | x :: r -> x :: bump_last r
let rec bump_last_row = function
  | [] -> []
  | [r] -> [bump_last r]
  | r :: rs -> r :: bump_last_row rs

let observe (a : z arr) : string =
  let b = Buffer.create 256 in
  let (h, w) = (match c12_observe a QShape with AShape (h, w) -> (int_of_nat h, int_of_nat w) | _ -> (0, 0)) in
  let n = (match c12_observe a QSize with ANat n -> int_of_nat n | _ -> -1) in
  let e = (match c12_observe a QIsEmpty with ABool true -> 1 | _ -> 0) in
  Buffer.add_string b (Printf.sprintf "s %d %d %d %d g1" h w n e);
  for r = 0 to h do for c = 0 to w do
      Buffer.add_string b (" " ^ elem (c12_observe a (QGet1 (nat_of_int r, nat_of_int c)))) done done;
  Buffer.add_string b " g2";
  for r = 0 to h do for c = 0 to w do
      Buffer.add_string b (" " ^ elem (c12_observe a (QGet2 (nat_of_int r, nat_of_int c)))) done done;
  let rows_ans = c12_observe a QRows in
  Buffer.add_string b (" rw" ^ rows_text rows_ans);
  Buffer.add_string b (" it" ^ rows_text (c12_observe a QIntoIter));
  Buffer.add_string b (" mx " ^ opt_text (c12_observe a QMax));
  Buffer.add_string b (" mn " ^ opt_text (c12_observe a QMin));
  let rows = (match rows_ans with ARows (Ok rs) -> rs | _ -> []) in
  let total = List.fold_left (fun s r -> s + List.length r) 0 rows in
  let c1 = rows in
  let c2 = if total > 0 then bump_last_row rows else rows @ [[]] in
  let c3 = rows @ [[]] in
  let c4 = (match rows with [] -> [[Z0]] | r :: rs -> (r @ [Z0]) :: rs) in
  Buffer.add_string b " eq";
  List.iter (fun c -> Buffer.add_string b (" " ^ eq_text (c12_observe a (QEqNested c)))) [c1; c2; c3; c4];
  (match c12_observe a QDisplay with
   | AText (Ok cps) ->
     Buffer.add_string b (" d " ^ string_of_int (List.length cps));
     List.iter (fun c -> Buffer.add_string b (" " ^ string_of_int (int_of_n c))) cps
   | _ -> Buffer.add_string b " d P");
  Buffer.contents b

let run (line : string) : string =
  let t = toks_of_line line in
  let h = int t in
  let w = int t in
  let ents = times (h * w) (fun () -> rdz t) in
  let a = ref { inner = ents; height = nat_of_int h; width = nat_of_int w } in
  let k = int t in
  let b = Buffer.create 1024 in
  Buffer.add_string b ("start " ^ observe !a);
  for _ = 1 to k do
    let o = read_op t in
    let (a', out) = c12_step !a o in
    a := a';
    let outs = (match out with Ok _ -> "ok" | Err e -> "err " ^ err_name e | Panic _ -> "panic") in
    Buffer.add_string b (" ;; " ^ outs ^ " " ^ observe !a)
  done;
  Buffer.contents b

let () = main_loop run
