(* C04 (copy of c03.ml): derivatives, indefinite integrals, analytical definite integral —
   extracted float instance of Model/Poly.v and Model/Definite.v.
   Same protocol as harness/src/bin/c03.rs (c04.ml is a copy of this file). *)
open Model
open Svutil

exception Stop of string

let kind_of_err = function
  | EInvalidCoefficient -> "InvalidCoefficient" | EInvalidConstant -> "InvalidConstant"
  | EInvalidExponent -> "InvalidExponent" | EInvalidFractionalExponent -> "InvalidFractionalExponent"
  | EInvalidFraction -> "InvalidFraction" | EInvalidNumber -> "InvalidNumber"
  | EPolynomialSyntaxError -> "PolynomialSyntaxError" | EMissingVariable -> "MissingVariable"
  | ETooManyVariables -> "TooManyVariables" | ETooFewVariables -> "TooFewVariables"
  | EUnexpectedChar -> "UnexpectedChar" | EVariableNotFound -> "VariableNotFound"
  | EUnexpectedToken -> "UnexpectedToken" | EUnexpectedEndOfTokens -> "UnexpectedEndOfTokens"
  | EMaxIterationsReached -> "MaxIterationsReached" | _ -> "OtherError"

let cps_out (nm : n list) : string =
  String.concat " " (string_of_int (List.length nm) :: List.map (fun c -> string_of_int (int_of_n c)) nm)

let show_s (p : Float64.t spoly) : string =
  let v = match p.s_var with Some c -> string_of_int (int_of_n c) | None -> "-" in
  String.concat " " (["S"; v; string_of_int (List.length p.s_coefs)] @ List.map hex_of_float p.s_coefs)

let show_i (p : Float64.t ipoly) : string =
  let term t =
    String.concat " "
      ([hex_of_float t.t_coef; string_of_int (List.length t.t_vars)]
       @ List.map (fun (nm, e) -> cps_out nm ^ " " ^ hex_of_float e) t.t_vars) in
  String.concat " "
    (["I"; string_of_int (List.length p.i_terms)] @ List.map term p.i_terms
     @ [string_of_int (List.length p.i_vars)] @ List.map cps_out p.i_vars)

let value = function
  | Ok v -> hex_of_float v
  | Err e -> "err:" ^ kind_of_err e
  | Panic _ -> raise (Stop "panic")

let okerr = function
  | Ok _ -> "ok"
  | Err e -> "err:" ^ kind_of_err e
  | Panic _ -> raise (Stop "panic")

(* the operations of one polynomial type *)
type 'p ops = {
  show : 'p -> string;
  eu : 'p -> Float64.t -> Float64.t res;
  em : 'p -> (n list * Float64.t) list -> Float64.t res;
  du : 'p -> 'p res;
  dm : 'p -> n list -> 'p;
  iu : 'p -> 'p res;
  im : 'p -> n list -> 'p;
  ai : 'p -> Float64.t -> Float64.t -> Float64.t res;
}

let s_ops = { show = show_s; eu = f_s_eval_univariate; em = f_s_eval_multivariate;
              du = f_s_derivate_univariate; dm = f_s_derivate_multivariate;
              iu = f_s_integral_univariate; im = f_s_integral_multivariate;
              ai = f_s_analytical_integral }
(* proved equal to s_ops (fast_model_eq); linear instead of quadratic in the number of coefficients *)
let s_ops_fast = { s_ops with du = f_s_derivate_univariate_fast; dm = f_s_derivate_multivariate_fast;
                   iu = f_s_integral_univariate_fast; im = f_s_integral_multivariate_fast }
let i_ops = { show = show_i; eu = f_i_eval_univariate; em = f_i_eval_multivariate;
              du = f_i_derivate_univariate; dm = f_i_derivate_multivariate;
              iu = f_i_integral_univariate; im = f_i_integral_multivariate;
              ai = f_i_analytical_integral }

let rest (o : 'p ops) (p0 : 'p) (t : toks) : string =
  let p = ref p0 in
  let nops = int t in
  for _ = 1 to nops do
    let r = match word t with
      | "du" -> o.du !p
      | "iu" -> o.iu !p
      | "dm" -> let nm = cpstr t in Ok (o.dm !p nm)
      | "im" -> let nm = cpstr t in Ok (o.im !p nm)
      | w -> raise (Stop ("badop " ^ w)) in
    match r with
    | Ok q -> p := q
    | Err e -> raise (Stop ("err " ^ kind_of_err e))
    | Panic _ -> raise (Stop "panic")
  done;
  let p = !p in
  let half = float_of_hex "3fe0000000000000" in
  let fin = word t in
  (* "np": structure only (the degree-65535 cases: each pass over the coefficients is quadratic in the
     extracted model because the power index is a unary nat converted by Z.of_nat) *)
  let u = if fin = "np" then ["-"; "-"; "-"] else [okerr (o.eu p half); okerr (o.du p); okerr (o.iu p)] in
  let vals = match fin with
    | "none" | "np" -> []
    | "eu" -> List.map (fun x -> value (o.eu p x)) (fvec t)
    | "em" ->
      let k = int t in
      times k (fun () ->
          let nb = int t in
          let b = times nb (fun () -> let nm = cpstr t in let v = fl t in (nm, v)) in
          value (o.em p b))
    | "ai" ->
      let a = fl t in let b = fl t in let c = fl t in
      List.map (fun (lo, hi) -> value (o.ai p lo hi)) [(a, b); (a, c); (c, b); (b, a)]
    | w -> raise (Stop ("badfinal " ^ w)) in
  String.concat " " (["P"; o.show p; "U"] @ u @ ["E"] @ vals)

let run (line : string) : string =
  let t = toks_of_line line in
  try
    match word t with
    | "s" ->
      let v = word t in
      let s_var = if v = "-" then None else Some (n_of_int (int_of_string v)) in
      let s_coefs = fvec t in
      let _src = cpstr t in
      rest (if List.length s_coefs > 2000 then s_ops_fast else s_ops) { s_coefs; s_var } t
    | "i" ->
      let nt = int t in
      let i_terms = times nt (fun () ->
          let t_coef = fl t in
          let nv = int t in
          let t_vars = times nv (fun () -> let nm = cpstr t in let e = fl t in (nm, e)) in
          { t_coef; t_vars }) in
      let nvars = int t in
      let i_vars = times nvars (fun () -> cpstr t) in
      let _src = cpstr t in
      rest i_ops { i_terms; i_vars } t
    | c -> "badcmd " ^ c
  with Stop s -> s

let () = main_loop run
