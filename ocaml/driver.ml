(* model_cli — runs the extracted Coq model on the same case lines the Rust
   harness `spx` reads, printing results in the same canonical text. *)
open Model
open Svutil

let c18 (line : string) : string =
  let t = toks_of_line line in
  match word t with
  | "mean" -> opt_hex (f_arith_mean (fvec t))
  | "geom" -> opt_hex (f_geom_mean (fvec t))
  | "sd" -> let s = int t = 1 in opt_hex (f_std_dev (fvec t) s)
  | c -> "badcmd " ^ c

let () =
  let prop = Sys.argv.(1) in
  let f = match prop with
    | "C18" -> c18
    | _ -> prerr_endline ("unknown property " ^ prop); exit 2 in
  try
    while true do
      let line = input_line stdin in
      if String.trim line <> "" then begin
        let r = try f line with Failure m -> "driver-failure " ^ m in
        print_string r; print_newline ()
      end
    done
  with End_of_file -> ()
