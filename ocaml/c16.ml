(* C16: both parsers (extracted float instance) on arbitrary text *)
open Model
open Svutil

let err_name = function
  | EInvalidCoefficient -> "InvalidCoefficient" | EInvalidConstant -> "InvalidConstant"
  | EInvalidExponent -> "InvalidExponent" | EInvalidFractionalExponent -> "InvalidFractionalExponent"
  | EInvalidFraction -> "InvalidFraction" | EInvalidNumber -> "InvalidNumber"
  | EPolynomialSyntaxError -> "PolynomialSyntaxError" | EMissingVariable -> "MissingVariable"
  | ETooManyVariables -> "TooManyVariables" | ETooFewVariables -> "TooFewVariables"
  | EUnexpectedChar -> "UnexpectedChar" | EVariableNotFound -> "VariableNotFound"
  | EUnexpectedToken -> "UnexpectedToken" | EUnexpectedEndOfTokens -> "UnexpectedEndOfTokens"
  | EMaxIterationsReached -> "MaxIterationsReached" | ENoConvergence -> "NoConvergence"
  | EXInitOutOfBounds -> "XInitOutOfBounds" | ENonSquareMatrix -> "NonSquareMatrix"
  | ESingularMatrix -> "SingularMatrix" | EInvalidVector -> "InvalidVector"
  | ENumArgumentsMismatch -> "NumArgumentsMismatch" | EInconsistentRowLengths -> "InconsistentRowLengths"
  | EInvalidReshape -> "InvalidReshape" | EInvalidShape -> "InvalidShape"
  | EInvalidDotShape -> "InvalidDotShape" | EConversionFailed -> "ConversionFailed"

let show_cps (s : n list) : string =
  String.trim (string_of_int (List.length s) ^ " " ^ String.concat " " (List.map (fun c -> string_of_int (int_of_n c)) s))

let show_simple (p : Float64.t spoly) : string =
  let v = match p.s_var with Some c -> string_of_int (int_of_n c) | None -> "-" in
  String.trim (Printf.sprintf "ok %s %d %s" v (List.length p.s_coefs) (hexs p.s_coefs))

let show_inter (p : Float64.t ipoly) : string =
  let b = Buffer.create 64 in
  Buffer.add_string b (Printf.sprintf "ok %d" (List.length p.i_terms));
  List.iter (fun t ->
    Buffer.add_string b (Printf.sprintf " %s %d" (hex_of_float t.t_coef) (List.length t.t_vars));
    List.iter (fun (nm, e) -> Buffer.add_string b (Printf.sprintf " %s %s" (show_cps nm) (hex_of_float e))) t.t_vars)
    p.i_terms;
  Buffer.add_string b (Printf.sprintf " | %d" (List.length p.i_vars));
  List.iter (fun nm -> Buffer.add_string b (" " ^ show_cps nm)) p.i_vars;
  Buffer.contents b

let run (line : string) : string =
  let t = toks_of_line line in
  match word t with
  | "simple" ->
    (match f_parse_simple (cpstr t) with
     | Ok p -> show_simple p | Err e -> "err " ^ err_name e | Panic _ -> "panic")
  | "inter" ->
    (match f_parse_inter (cpstr t) with
     | Ok p -> show_inter p | Err e -> "err " ^ err_name e | Panic _ -> "panic")
  | "classes" ->
    let s = cpstr t in
    String.concat " " (List.map (fun c ->
      Printf.sprintf "%d%d%d" (Bool.to_int (f_alphabetic c)) (Bool.to_int (f_numeric c)) (Bool.to_int (f_whitespace c))) s)
  | c -> "badcmd " ^ c

let () = main_loop run
