(* C13: power method — extracted float instance.
   pm / pma <es> <h> <w> <entries>      rectangular input
   rag <es> <r> (<len> <entries>)*r     possibly ragged rows
   answer: ok <lambda> <height> <width> <entries> | err <Kind> | panic *)
open Model
open Svutil

let err_name = function
  | ENoConvergence -> "NoConvergence"
  | EInconsistentRowLengths -> "InconsistentRowLengths"
  | ENonSquareMatrix -> "NonSquareMatrix"
  | ESingularMatrix -> "SingularMatrix"
  | EInvalidReshape -> "InvalidReshape"
  | EInvalidShape -> "InvalidShape"
  | EInvalidDotShape -> "InvalidDotShape"
  | EConversionFailed -> "ConversionFailed"
  | _ -> "Other"

let show = function
  | Ok (l, v) ->
    String.trim (Printf.sprintf "ok %s %d %d %s" (hex_of_float l) (int_of_nat v.ah) (int_of_nat v.aw) (hexs v.ad))
  | Err e -> "err " ^ err_name e
  | Panic _ -> "panic"

let run (line : string) : string =
  let t = toks_of_line line in
  match word t with
  | "pm" | "pma" ->
    let es = fl t in
    let (_, _, rows) = fmat t in
    show (f_power_method rows es)
  | "rag" ->
    let es = fl t in
    let r = int t in
    let rows = times r (fun () -> fvec t) in
    show (f_power_method rows es)
  | c -> "badcmd " ^ c

let () = main_loop run
