(* C18: descriptive statistics — extracted float instance *)
open Model
open Svutil

let run (line : string) : string =
  let t = toks_of_line line in
  match word t with
  | "mean" -> opt_hex (f_arith_mean (fvec t))
  | "geom" -> opt_hex (f_geom_mean (fvec t))
  | "sd" -> let s = int t = 1 in opt_hex (f_std_dev (fvec t) s)
  | c -> "badcmd " ^ c

let () = main_loop run
