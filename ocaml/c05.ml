(* C05: Simpson / trapezoid / Romberg quadrature — extracted float instance *)
open Model
open Svutil

let err_name = function
  | EMaxIterationsReached -> "MaxIterationsReached"
  | ETooManyVariables -> "FunctionError TooManyVariables"
  | EVariableNotFound -> "FunctionError VariableNotFound"
  | _ -> "FunctionError other"

let show = function
  | Ok v -> "ok " ^ hex_of_float v
  | Err e -> "err " ^ err_name e
  | Panic _ -> "panic"

(* ipoly = nt terms, each "coef nv" followed by nv "name pow" pairs; then nvars names *)
let ipoly t =
  let nt = int t in
  let terms = times nt (fun () ->
    let c = fl t in
    let nv = int t in
    let vs = times nv (fun () -> let nm = cpstr t in let p = fl t in (nm, p)) in
    f_mk_term c vs) in
  let nvars = int t in
  let vars = times nvars (fun () -> cpstr t) in
  f_mk_ipoly terms vars

let run (line : string) : string =
  let t = toks_of_line line in
  match word t with
  | "ds" ->
    let n = n_of_int (int t) in let a = fl t in let b = fl t in
    let p = f_mk_spoly (fvec t) in
    show (f_definite_s p a b n)
  | "di" ->
    let n = n_of_int (int t) in let a = fl t in let b = fl t in
    let p = ipoly t in
    show (f_definite_i p a b n)
  | "rs" ->
    let cap = n_of_int (int t) in let tol = fl t in let a = fl t in let b = fl t in
    let p = f_mk_spoly (fvec t) in
    show (f_romberg_s p a b cap tol)
  | "ri" ->
    let cap = n_of_int (int t) in let tol = fl t in let a = fl t in let b = fl t in
    let p = ipoly t in
    show (f_romberg_i p a b cap tol)
  | c -> "badcmd " ^ c

let () = main_loop run
