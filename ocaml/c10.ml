(* C10: matrix inverse — extracted float instance.
   case lines:  inv h w e11 .. ehw     ->  ok n <n*n entries of B> | err <Kind> | panic
                inv2 h w e11 .. ehw    ->  ok n <B> <inverse of B> | err1 <Kind> | err2 <Kind> | panic *)
open Model
open Svutil

let err_name = function
  | ENonSquareMatrix -> "NonSquareMatrix"
  | ESingularMatrix -> "SingularMatrix"
  | EConversionFailed -> "ConversionFailed"
  | EInconsistentRowLengths -> "InconsistentRowLengths"
  | _ -> "Other"

let mat_hex n m =
  let nn = nat_of_int n in
  List.map hex_of_float (List.concat (f_lists_of_mat nn nn m))

let run (line : string) : string =
  let t = toks_of_line line in
  match word t with
  | "inv" ->
    let (h, w, rows) = fmat t in
    (match f_inverse (nat_of_int h) (nat_of_int w) (f_mat_of_lists rows) with
     | Ok b -> String.concat " " (("ok " ^ string_of_int h) :: mat_hex h b)
     | Err e -> "err " ^ err_name e
     | Panic _ -> "panic")
  | "inv2" ->
    let (h, w, rows) = fmat t in
    let n = nat_of_int h in
    (match f_inverse n (nat_of_int w) (f_mat_of_lists rows) with
     | Ok b ->
       (match f_inverse n n b with
        | Ok a' -> String.concat " " (("ok " ^ string_of_int h) :: (mat_hex h b @ mat_hex h a'))
        | Err e -> "err2 " ^ err_name e
        | Panic _ -> "panic")
     | Err e -> "err1 " ^ err_name e
     | Panic _ -> "panic")
  | c -> "badcmd " ^ c

let () = main_loop run
