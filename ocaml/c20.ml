(* C20: the extracted parsers on the ORIGINAL and on the ECHOED (re-spaced by rustc) text,
   and the extracted macro model on the echoed text.
     simple k <cps>*k  ->  r1 ## .. ## rk ## x      (ri = parse_simple on text i, x = expansion on text k)
     inter  k <cps>*k  ->  likewise with parse_inter / macro_inter
   ri : ok <payload> | err <Kind> | panic           (same text as harness/src/bin/c20.rs)
   x  : ok <payload> | err <Kind> | unresolved | panic *)
open Model
open Svutil

let err_name = function
  | EInvalidCoefficient -> "InvalidCoefficient" | EInvalidConstant -> "InvalidConstant"
  | EInvalidExponent -> "InvalidExponent" | EInvalidFractionalExponent -> "InvalidFractionalExponent"
  | EInvalidFraction -> "InvalidFraction" | EInvalidNumber -> "InvalidNumber"
  | EPolynomialSyntaxError -> "PolynomialSyntaxError" | EMissingVariable -> "MissingVariable"
  | ETooManyVariables -> "TooManyVariables" | ETooFewVariables -> "TooFewVariables"
  | EUnexpectedChar -> "UnexpectedChar" | EVariableNotFound -> "VariableNotFound"
  | EUnexpectedToken -> "UnexpectedToken" | EUnexpectedEndOfTokens -> "UnexpectedEndOfTokens"
  | EMaxIterationsReached -> "MaxIterationsReached" | ENoConvergence -> "NoConvergence"
  | EXInitOutOfBounds -> "XInitOutOfBounds" | ENonSquareMatrix -> "NonSquareMatrix"
  | ESingularMatrix -> "SingularMatrix" | EInvalidVector -> "InvalidVector"
  | ENumArgumentsMismatch -> "NumArgumentsMismatch" | EInconsistentRowLengths -> "InconsistentRowLengths"
  | EInvalidReshape -> "InvalidReshape" | EInvalidShape -> "InvalidShape"
  | EInvalidDotShape -> "InvalidDotShape" | EConversionFailed -> "ConversionFailed"

let show_cps (s : n list) : string =
  String.trim (string_of_int (List.length s) ^ " " ^ String.concat " " (List.map (fun c -> string_of_int (int_of_n c)) s))

let show_simple (p : Float64.t spoly) : string =
  let v = match p.s_var with Some c -> string_of_int (int_of_n c) | None -> "-" in
  String.trim (Printf.sprintf "ok %s %d %s" v (List.length p.s_coefs) (hexs p.s_coefs))

let show_inter (p : Float64.t ipoly) : string =
  let b = Buffer.create 64 in
  Buffer.add_string b (Printf.sprintf "ok %d" (List.length p.i_terms));
  List.iter (fun t ->
    Buffer.add_string b (Printf.sprintf " %s %d" (hex_of_float t.t_coef) (List.length t.t_vars));
    List.iter (fun (nm, e) -> Buffer.add_string b (Printf.sprintf " %s %s" (show_cps nm) (hex_of_float e))) t.t_vars)
    p.i_terms;
  Buffer.add_string b (Printf.sprintf " | %d" (List.length p.i_vars));
  List.iter (fun nm -> Buffer.add_string b (" " ^ show_cps nm)) p.i_vars;
  Buffer.contents b

let show_res show = function Ok p -> show p | Err e -> "err " ^ err_name e | Panic _ -> "panic"
let show_exp show = function
  | XValue p -> show p | XCompileError e -> "err " ^ err_name e | XUnresolved -> "unresolved" | XMacroPanic _ -> "panic"

let rec last = function [] -> failwith "no text" | [x] -> x | _ :: l -> last l

let run (line : string) : string =
  let t = toks_of_line line in
  let cmd = word t in
  let k = int t in
  let texts = times k (fun () -> cpstr t) in
  match cmd with
  | "simple" ->
    String.concat " ## " (List.map (fun s -> show_res show_simple (f_parse_simple s)) texts
                          @ [show_exp show_simple (f_macro_simple (last texts))])
  | "inter" ->
    String.concat " ## " (List.map (fun s -> show_res show_inter (f_parse_inter s)) texts
                          @ [show_exp show_inter (f_macro_inter (last texts))])
  | c -> "badcmd " ^ c

let () = main_loop run
