(* C09: LU and PLU factorisation — extracted float instance.
   case lines:  lu  h w e11 .. ehw      plu  h w e11 .. ehw        (rectangular array)
                lurag k len1 v.. len2 v..   plurag k len1 v.. ..   (nested vectors, rows may differ in length)
   result:      ok n <n*n entries of L> <n*n of U> [<n*n of P>]  |  err <Kind>  |  panic *)
open Model
open Svutil

let err_name = function
  | ENonSquareMatrix -> "NonSquareMatrix"
  | ESingularMatrix -> "SingularMatrix"
  | EInvalidVector -> "InvalidVector"
  | EInconsistentRowLengths -> "InconsistentRowLengths"
  | EConversionFailed -> "ConversionFailed"
  | _ -> "Other"

let mat_hex n m =
  let nn = nat_of_int n in
  List.map hex_of_float (List.concat (f_lists_of_mat nn nn m))

let show n mats =
  String.concat " " (("ok " ^ string_of_int n) :: List.concat (List.map (mat_hex n) mats))

let out_lu n = function
  | Ok (l, u) -> show n [l; u]
  | Err e -> "err " ^ err_name e
  | Panic _ -> "panic"

let out_plu n = function
  | Ok ((l, u), p) -> show n [l; u; p]
  | Err e -> "err " ^ err_name e
  | Panic _ -> "panic"

let ragged t = let k = int t in times k (fun () -> fvec t)

let run (line : string) : string =
  let t = toks_of_line line in
  match word t with
  | "lu" ->
    let (h, w, rows) = fmat t in
    out_lu h (f_lu (nat_of_int h) (nat_of_int w) (f_mat_of_lists rows))
  | "plu" ->
    let (h, w, rows) = fmat t in
    out_plu h (f_plu (nat_of_int h) (nat_of_int w) (f_mat_of_lists rows))
  | "lurag" ->
    (match f_lu_rows (ragged t) with
     | Ok (n, r) -> out_lu (int_of_nat n) (Ok r)
     | Err e -> "err " ^ err_name e
     | Panic _ -> "panic")
  | "plurag" ->
    (match f_plu_rows (ragged t) with
     | Ok (n, r) -> out_plu (int_of_nat n) (Ok r)
     | Err e -> "err " ^ err_name e
     | Panic _ -> "panic")
  | c -> "badcmd " ^ c

let () = main_loop run
