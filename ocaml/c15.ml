(* C15: regressors — extracted float instance *)
open Model
open Svutil

let show_model (m : Float64.t lmodel) (x0 : Float64.t) : string =
  Printf.sprintf "ok %d %s %s %s %s" (List.length m.coefs) (hexs m.coefs)
    (hex_of_float m.std_err) (hex_of_float m.r2) (hex_of_float (f_predict_coefs m.coefs x0))

let run (line : string) : string =
  let t = toks_of_line line in
  match word t with
  | "ls" ->
    let x0 = fl t in
    let xs = fvec t in
    let ys = fvec t in
    show_model (f_ls_fit xs ys) x0
  | "poly" ->
    let order = int t in
    let x0 = fl t in
    let xs = fvec t in
    let ys = fvec t in
    (match f_poly_fit (nat_of_int order) xs ys with
     | Ok m -> show_model m x0
     | Err _ -> "err"
     | Panic _ -> "panic")
  | "polytol" ->
    let tol = fl t in
    let order = int t in
    let x0 = fl t in
    let xs = fvec t in
    let ys = fvec t in
    (match f_poly_fit_tol tol (nat_of_int order) xs ys with
     | Ok m -> show_model m x0
     | Err _ -> "err"
     | Panic _ -> "panic")
  | "gd" ->
    let steps = int t in
    let alpha = fl t in
    let x0 = fl t in
    let xs = fvec t in
    let ys = fvec t in
    show_model (f_gd_fit (nat_of_int steps) alpha xs ys) x0
  | "predict" ->
    let cs = fvec t in
    let x0 = fl t in
    hex_of_float (f_predict_coefs cs x0)
  | c -> "badcmd " ^ c

let () = main_loop run
