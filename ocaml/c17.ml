(* C17: printers (extracted float instance) and the read-back through the extracted parsers *)
open Model
open Svutil

let err_name = function
  | EInvalidCoefficient -> "InvalidCoefficient" | EInvalidConstant -> "InvalidConstant"
  | EInvalidExponent -> "InvalidExponent" | EInvalidFractionalExponent -> "InvalidFractionalExponent"
  | EInvalidFraction -> "InvalidFraction" | EInvalidNumber -> "InvalidNumber"
  | EPolynomialSyntaxError -> "PolynomialSyntaxError" | EMissingVariable -> "MissingVariable"
  | ETooManyVariables -> "TooManyVariables" | ETooFewVariables -> "TooFewVariables"
  | EUnexpectedChar -> "UnexpectedChar" | EVariableNotFound -> "VariableNotFound"
  | EUnexpectedToken -> "UnexpectedToken" | EUnexpectedEndOfTokens -> "UnexpectedEndOfTokens"
  | EMaxIterationsReached -> "MaxIterationsReached" | ENoConvergence -> "NoConvergence"
  | EXInitOutOfBounds -> "XInitOutOfBounds" | ENonSquareMatrix -> "NonSquareMatrix"
  | ESingularMatrix -> "SingularMatrix" | EInvalidVector -> "InvalidVector"
  | ENumArgumentsMismatch -> "NumArgumentsMismatch" | EInconsistentRowLengths -> "InconsistentRowLengths"
  | EInvalidReshape -> "InvalidReshape" | EInvalidShape -> "InvalidShape"
  | EInvalidDotShape -> "InvalidDotShape" | EConversionFailed -> "ConversionFailed"

let show_cps (s : n list) : string =
  String.trim (string_of_int (List.length s) ^ " " ^ String.concat " " (List.map (fun c -> string_of_int (int_of_n c)) s))

let show_simple (p : Float64.t spoly) : string =
  let v = match p.s_var with Some c -> string_of_int (int_of_n c) | None -> "-" in
  String.trim (Printf.sprintf "%s %d %s" v (List.length p.s_coefs) (hexs p.s_coefs))

let show_inter (p : Float64.t ipoly) : string =
  let b = Buffer.create 64 in
  Buffer.add_string b (Printf.sprintf "%d" (List.length p.i_terms));
  List.iter (fun t ->
    Buffer.add_string b (Printf.sprintf " %s %d" (hex_of_float t.t_coef) (List.length t.t_vars));
    List.iter (fun (nm, e) -> Buffer.add_string b (Printf.sprintf " %s %s" (show_cps nm) (hex_of_float e))) t.t_vars)
    p.i_terms;
  Buffer.add_string b (Printf.sprintf " | %d" (List.length p.i_vars));
  List.iter (fun nm -> Buffer.add_string b (" " ^ show_cps nm)) p.i_vars;
  Buffer.contents b

let back_simple text =
  match f_parse_simple text with
  | Ok p -> show_simple p | Err e -> "err " ^ err_name e | Panic _ -> "panic"
let back_inter text =
  match f_parse_inter text with
  | Ok p -> show_inter p | Err e -> "err " ^ err_name e | Panic _ -> "panic"

let prec t = match word t with "-" -> None | w -> Some (nat_of_int (int_of_string w))

let term t =
  let c = fl t in
  let nv = int t in
  let vs = times nv (fun () -> let n = cpstr t in let e = fl t in (n, e)) in
  { t_coef = c; t_vars = vs }

(* optional "| k (hex cps)*": the strings Rust's `{}` prints for the floats of this case *)
let table t =
  match t.rest with
  | "|" :: _ ->
    ignore (word t);
    let k = int t in
    times k (fun () -> let x = fl t in let s = cpstr t in (x, s))
  | _ -> []

let out text roundtrip back =
  if roundtrip then Printf.sprintf "ok %s ; %s" (show_cps text) (back text)
  else "ok " ^ show_cps text

let run (line : string) : string =
  let t = toks_of_line line in
  let cmd = word t in
  match cmd with
  | "fp" ->
    let p = nat_of_int (int t) in
    let x = fl t in
    "ok " ^ show_cps (f_fmt_prec p x)
  | "ps" | "rs" ->
    let pr = prec t in
    let v = match word t with "-" -> None | w -> Some (n_of_int (int_of_string w)) in
    let cs = fvec t in
    let tab = table t in
    out (f_fmt_simple tab pr { s_coefs = cs; s_var = v }) (cmd = "rs") back_simple
  | "pi" | "ri" ->
    let pr = prec t in
    let n = int t in
    let ts = times n (fun () -> term t) in
    let tab = table t in
    out (f_fmt_inter tab pr { i_terms = ts; i_vars = [] }) (cmd = "ri") back_inter
  | "pt" | "rt" ->
    let tm = term t in
    let tab = table t in
    out (f_fmt_term tab tm) (cmd = "rt") back_inter
  | "pm" | "rm" ->
    let cs = fvec t in
    out (f_to_polynomial_string cs) (cmd = "rm") back_simple
  | c -> "badcmd " ^ c

let () = main_loop run
