(* C08: Gaussian elimination and triangular substitution — extracted float instance *)
open Model
open Svutil

let err_name = function
  | ENonSquareMatrix -> "NonSquareMatrix"
  | ESingularMatrix -> "SingularMatrix"
  | EInvalidVector -> "InvalidVector"
  | ENumArgumentsMismatch -> "NumArgumentsMismatch"
  | _ -> "Other"

let show_vec = function
  | Ok l -> String.trim (Printf.sprintf "ok %d %s" (List.length l) (hexs l))
  | Err e -> "err " ^ err_name e
  | Panic _ -> "panic"

let run (line : string) : string =
  let t = toks_of_line line in
  match word t with
  | "ge" ->
    let tol = fl t in
    let (_, _, rows) = fmat t in
    let rhs = fvec t in
    show_vec (f_ge_lists rows rhs tol)
  | "ragged" ->
    let tol = fl t in
    let h = int t in
    let rows = times h (fun () -> fvec t) in
    let rhs = fvec t in
    show_vec (f_ge_lists rows rhs tol)
  | "bs" ->
    let (_, _, rows) = fmat t in
    let rhs = fvec t in
    show_vec (f_back_subst_lists rows rhs)
  | "fs" ->
    let (_, _, rows) = fmat t in
    let rhs = fvec t in
    show_vec (Ok (f_forward_subst_lists rows rhs))
  | c -> "badcmd " ^ c

let () = main_loop run
