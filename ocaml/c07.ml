(* C07: Newton-Raphson — extracted float instance.
   case:  nr s <n c0..> <x0> <cap> <tol> <mode>
          nr i <nt> {coef nv {name pow}} <nvars> {name} <x0> <cap> <tol> <mode>
   names are code-point strings `n c1 .. cn`; mode 0 = Root, 1 = Extrema *)
open Model
open Svutil

let err_name = function
  | EMaxIterationsReached -> "MaxIterationsReached"
  | ENoConvergence -> "NoConvergence"
  | EXInitOutOfBounds -> "XInitOutOfBounds"
  | ETooManyVariables -> "FunctionError:TooManyVariables"
  | EVariableNotFound -> "FunctionError:VariableNotFound"
  | _ -> "Other"

let show = function
  | Ok x -> "ok " ^ hex_of_float x
  | Err e -> "err " ^ err_name e
  | Panic _ -> "panic"

let spoly t = { s_coefs = fvec t; s_var = Some (n_of_int 120) }
let ipoly t =
  let nt = int t in
  let terms = times nt (fun () ->
    let c = fl t in
    let nv = int t in
    let vs = times nv (fun () -> let nm = cpstr t in let p = fl t in (nm, p)) in
    { t_coef = c; t_vars = vs }) in
  let nvars = int t in
  let vars = times nvars (fun () -> cpstr t) in
  { i_terms = terms; i_vars = vars }

let tail t run =
  let x0 = fl t in let cap = int t in let tol = fl t in let mode = int t = 1 in
  run x0 (nat_of_int cap) tol mode

let run (line : string) : string =
  let t = toks_of_line line in
  match word t with
  | "nr" ->
    (match word t with
     | "s" -> let p = spoly t in show (tail t (fun x0 cap tol m -> f_s_nrm p x0 cap tol m))
     | "i" -> let p = ipoly t in show (tail t (fun x0 cap tol m -> f_i_nrm p x0 cap tol m))
     | c -> "badtype " ^ c)
  | c -> "badcmd " ^ c

let () = main_loop run
