(* C01: univariate parser + evaluator (extracted float instance)
     parse <cps>                 -> ok <var-cp|-> <n> <coef>* | err <Kind> | panic
     eval <cps> <k> <x1..xk>     -> ok <value>*               | err <Kind> | panic
     classes <cps>               -> per code point "<alphabetic><numeric><whitespace>" *)
open Model
open Svutil

let err_name = function
  | EInvalidCoefficient -> "InvalidCoefficient" | EInvalidConstant -> "InvalidConstant"
  | EInvalidExponent -> "InvalidExponent" | EInvalidFractionalExponent -> "InvalidFractionalExponent"
  | EInvalidFraction -> "InvalidFraction" | EInvalidNumber -> "InvalidNumber"
  | EPolynomialSyntaxError -> "PolynomialSyntaxError" | EMissingVariable -> "MissingVariable"
  | ETooManyVariables -> "TooManyVariables" | ETooFewVariables -> "TooFewVariables"
  | EUnexpectedChar -> "UnexpectedChar" | EVariableNotFound -> "VariableNotFound"
  | EUnexpectedToken -> "UnexpectedToken" | EUnexpectedEndOfTokens -> "UnexpectedEndOfTokens"
  | EMaxIterationsReached -> "MaxIterationsReached" | ENoConvergence -> "NoConvergence"
  | EXInitOutOfBounds -> "XInitOutOfBounds" | ENonSquareMatrix -> "NonSquareMatrix"
  | ESingularMatrix -> "SingularMatrix" | EInvalidVector -> "InvalidVector"
  | ENumArgumentsMismatch -> "NumArgumentsMismatch" | EInconsistentRowLengths -> "InconsistentRowLengths"
  | EInvalidReshape -> "InvalidReshape" | EInvalidShape -> "InvalidShape"
  | EInvalidDotShape -> "InvalidDotShape" | EConversionFailed -> "ConversionFailed"

let show_simple (p : Float64.t spoly) : string =
  let v = match p.s_var with Some c -> string_of_int (int_of_n c) | None -> "-" in
  String.trim (Printf.sprintf "ok %s %d %s" v (List.length p.s_coefs) (hexs p.s_coefs))

let run (line : string) : string =
  let t = toks_of_line line in
  match word t with
  | "parse" ->
    (match f_parse_simple (cpstr t) with
     | Ok p -> show_simple p | Err e -> "err " ^ err_name e | Panic _ -> "panic")
  | "eval" ->
    let s = cpstr t in
    let xs = fvec t in
    (match f_parse_simple s with
     | Ok p -> String.trim ("ok " ^ hexs (List.map (fun x -> f_eval_simple p x) xs))
     | Err e -> "err " ^ err_name e | Panic _ -> "panic")
  | "classes" ->
    let s = cpstr t in
    String.concat " " (List.map (fun c ->
      Printf.sprintf "%d%d%d" (Bool.to_int (f_alphabetic c)) (Bool.to_int (f_numeric c)) (Bool.to_int (f_whitespace c))) s)
  | c -> "badcmd " ^ c

let () = main_loop run
