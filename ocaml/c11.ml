(* C11: products — extracted Z and float instances of the Arr2D model *)
open Model
open Svutil

let err_name = function
  | EInvalidDotShape -> "InvalidDotShape"
  | EInvalidShape -> "InvalidShape"
  | EInvalidReshape -> "InvalidReshape"
  | EInconsistentRowLengths -> "InconsistentRowLengths"
  | EConversionFailed -> "ConversionFailed"
  | _ -> "Other"

(* matrix on the wire: h w then h*w entries row-major *)
let arr_of (rd : toks -> 'a) (t : toks) : 'a arr =
  let h = int t in
  let w = int t in
  let l = times (h * w) (fun () -> rd t) in
  { inner = l; height = nat_of_int h; width = nat_of_int w }

let show (pr : 'a -> string) (r : 'a arr res) : string =
  match r with
  | Ok c ->
    String.concat " "
      ("ok" :: string_of_int (int_of_nat c.height) :: string_of_int (int_of_nat c.width)
       :: string_of_int (List.length c.inner) :: List.map pr c.inner)
  | Err e -> "err " ^ err_name e
  | Panic _ -> "panic"

let rdz t = z_of_string (word t)

let run (line : string) : string =
  let t = toks_of_line line in
  let ty = word t in
  let cmd = word t in
  match ty with
  | "z" ->
    let a = arr_of rdz t in
    (match cmd with
     | "tr" -> show string_of_z (z_transpose a)
     | "smul" | "smul_o" -> let k = rdz t in show string_of_z (z_smul a k)
     | "sdiv" | "sdiv_o" -> let k = rdz t in show string_of_z (z_sdiv a k)
     | _ ->
       let b = arr_of rdz t in
       let f = (match cmd with
           | "dot" -> z_dot | "mul_rr" -> z_mul_ref_ref | "mul_oo" -> z_mul_own_own
           | "mul_or" -> z_mul_own_ref | "mul_ro" -> z_mul_ref_own
           | c -> failwith ("badcmd " ^ c)) in
       show string_of_z (f a b))
  | "f" ->
    let a = arr_of fl t in
    (match cmd with
     | "tr" -> show hex_of_float (f_transpose a)
     | "smul" | "smul_o" -> let k = fl t in show hex_of_float (f_smul a k)
     | "sdiv" | "sdiv_o" -> let k = fl t in show hex_of_float (f_sdiv a k)
     | _ ->
       let b = arr_of fl t in
       let f = (match cmd with
           | "dot" -> f_dot | "mul_rr" -> f_mul_ref_ref | "mul_oo" -> f_mul_own_own
           | "mul_or" -> f_mul_own_ref | "mul_ro" -> f_mul_ref_own
           | c -> failwith ("badcmd " ^ c)) in
       show hex_of_float (f a b))
  | c -> "badcmd " ^ c

let () = main_loop run
