#![allow(dead_code)]
// spx — correspondence harness: one sub-command per property, line-oriented
// text protocol on stdin/stdout, every case under catch_unwind.
mod util;
mod c18;

use std::io::{BufRead, Write};

fn main() {
    std::panic::set_hook(Box::new(|_| {}));
    let prop = std::env::args().nth(1).expect("usage: spx <property>");
    let f: fn(&str) -> String = match prop.as_str() {
        "C18" => c18::run,
        _ => {
            eprintln!("unknown property {prop}");
            std::process::exit(2);
        }
    };
    let stdin = std::io::stdin();
    let out = std::io::stdout();
    let mut out = std::io::BufWriter::new(out.lock());
    for line in stdin.lock().lines() {
        let line = line.expect("line");
        if line.trim().is_empty() {
            continue;
        }
        let r = util::guarded(|| f(&line));
        writeln!(out, "{r}").unwrap();
    }
}
