#![allow(dead_code)]
// Shared helpers of the correspondence harness: exact float transport and
// panic classification.
use std::panic::{catch_unwind, AssertUnwindSafe};

pub fn fx(s: &str) -> f64 {
    if s == "nan" {
        return f64::NAN;
    }
    f64::from_bits(u64::from_str_radix(s, 16).expect("hex float"))
}

pub fn xf(v: f64) -> String {
    if v.is_nan() {
        "nan".to_string()
    } else {
        format!("{:016x}", v.to_bits())
    }
}

pub fn xfs(vs: &[f64]) -> String {
    vs.iter().map(|v| xf(*v)).collect::<Vec<_>>().join(" ")
}

/// Run `f`, mapping an unwind to the line "panic".
pub fn guarded<F: FnOnce() -> String>(f: F) -> String {
    match catch_unwind(AssertUnwindSafe(f)) {
        Ok(s) => s,
        Err(_) => "panic".to_string(),
    }
}

pub struct Toks<'a> {
    it: std::str::SplitWhitespace<'a>,
}
impl<'a> Toks<'a> {
    pub fn new(s: &'a str) -> Self {
        Toks { it: s.split_whitespace() }
    }
    pub fn word(&mut self) -> &'a str {
        self.it.next().expect("token")
    }
    pub fn opt_word(&mut self) -> Option<&'a str> {
        self.it.next()
    }
    pub fn usize(&mut self) -> usize {
        self.word().parse().expect("usize")
    }
    pub fn i64(&mut self) -> i64 {
        self.word().parse().expect("i64")
    }
    pub fn f(&mut self) -> f64 {
        fx(self.word())
    }
    pub fn fvec(&mut self) -> Vec<f64> {
        let n = self.usize();
        (0..n).map(|_| self.f()).collect()
    }
    pub fn ivec(&mut self) -> Vec<i64> {
        let n = self.usize();
        (0..n).map(|_| self.i64()).collect()
    }
    /// matrix: h w then h*w entries, row-major
    pub fn fmat(&mut self) -> Vec<Vec<f64>> {
        let h = self.usize();
        let w = self.usize();
        (0..h).map(|_| (0..w).map(|_| self.f()).collect()).collect()
    }
    pub fn imat(&mut self) -> Vec<Vec<i64>> {
        let h = self.usize();
        let w = self.usize();
        (0..h).map(|_| (0..w).map(|_| self.i64()).collect()).collect()
    }
    /// string given as code points: n c1 .. cn
    pub fn string(&mut self) -> String {
        let n = self.usize();
        (0..n)
            .map(|_| char::from_u32(self.word().parse::<u32>().expect("cp")).expect("scalar"))
            .collect()
    }
}

pub fn cps(s: &str) -> String {
    let v: Vec<String> = s.chars().map(|c| (c as u32).to_string()).collect();
    format!("{} {}", v.len(), v.join(" ")).trim_end().to_string()
}

/// stdin -> one result line per non-empty input line, each case under catch_unwind
pub fn main_loop(f: fn(&str) -> String) {
    use std::io::{BufRead, Write};
    std::panic::set_hook(Box::new(|_| {}));
    let stdin = std::io::stdin();
    let out = std::io::stdout();
    let mut out = std::io::BufWriter::new(out.lock());
    for line in stdin.lock().lines() {
        let line = line.expect("line");
        if line.trim().is_empty() {
            continue;
        }
        let r = guarded(|| f(&line));
        writeln!(out, "{r}").unwrap();
        // one result per line, visible at once: the driver falls back to a line-by-line
        // dialogue with a time limit when a case crashes or hangs the process
        out.flush().unwrap();
    }
}
