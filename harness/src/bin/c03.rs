// C03 / C04: symbolic derivatives, indefinite integrals, analytical definite integral.
// (c04.rs includes this file: both properties drive the same entry points.)
//
// case line
//   s <var|-> <n> c1..cn <src> <nops> op* final
//   i <nterms> {coef nv {name exp}*}* <nvars> name* <src> <nops> op* final
//   op    = du | dm <name> | iu | im <name>
//   final = none | np (structure only, no U probes) | eu k x1..xk | em k {nb {name val}*}* | ai a b c
//   (<src>, <name>: strings as code points `n c1 .. cn`; floats as hex bit patterns)
// result line
//   P <structure> U <eu> <du> <iu> E <v>*      (v = hex | err:<Kind>)
//   err <Kind>            an operation of the chain returned Err
//   parse-error <Kind> / parse-mismatch <structure>
#[path = "../util.rs"]
mod util;
use spindalis::integrals::{analytical_integral, IntegralError};
use spindalis::polynomials::{
    IntermediatePolynomial, PolynomialError, PolynomialTraits, SimplePolynomial, Term,
};
use util::*;

fn kind(e: &PolynomialError) -> &'static str {
    match e {
        PolynomialError::InvalidCoefficient { .. } => "InvalidCoefficient",
        PolynomialError::InvalidConstant => "InvalidConstant",
        PolynomialError::InvalidExponent { .. } => "InvalidExponent",
        PolynomialError::InvalidFractionalExponent { .. } => "InvalidFractionalExponent",
        PolynomialError::InvalidFraction { .. } => "InvalidFraction",
        PolynomialError::InvalidNumber { .. } => "InvalidNumber",
        PolynomialError::PolynomialSyntaxError => "PolynomialSyntaxError",
        PolynomialError::MissingVariable => "MissingVariable",
        PolynomialError::TooManyVariables { .. } => "TooManyVariables",
        PolynomialError::TooFewVariables { .. } => "TooFewVariables",
        PolynomialError::UnexpectedChar { .. } => "UnexpectedChar",
        PolynomialError::VariableNotFound { .. } => "VariableNotFound",
        PolynomialError::UnexpectedToken { .. } => "UnexpectedToken",
        PolynomialError::UnexpectedEndOfTokens => "UnexpectedEndOfTokens",
    }
}

fn ikind(e: &IntegralError) -> &'static str {
    match e {
        IntegralError::MaxIterationsReached => "MaxIterationsReached",
        IntegralError::FunctionError(p) => kind(p),
    }
}

trait PolyIo: PolynomialTraits + Sized {
    fn show(&self) -> String;
}

impl PolyIo for SimplePolynomial {
    fn show(&self) -> String {
        let v = match self.variable {
            Some(c) => (c as u32).to_string(),
            None => "-".to_string(),
        };
        format!("S {} {} {}", v, self.coefficients.len(), xfs(&self.coefficients))
            .trim_end()
            .to_string()
    }
}

impl PolyIo for IntermediatePolynomial {
    fn show(&self) -> String {
        let mut s = format!("I {}", self.terms.len());
        for t in &self.terms {
            s.push_str(&format!(" {} {}", xf(t.coefficient), t.variables.len()));
            for (n, e) in &t.variables {
                s.push_str(&format!(" {} {}", cps(n), xf(*e)));
            }
        }
        s.push_str(&format!(" {}", self.variables.len()));
        for n in &self.variables {
            s.push_str(&format!(" {}", cps(n)));
        }
        s
    }
}

fn val(r: Result<f64, PolynomialError>) -> String {
    match r {
        Ok(v) => xf(v),
        Err(e) => format!("err:{}", kind(&e)),
    }
}

fn okerr<T>(r: &Result<T, PolynomialError>) -> String {
    match r {
        Ok(_) => "ok".to_string(),
        Err(e) => format!("err:{}", kind(e)),
    }
}

fn rest<P: PolyIo>(mut p: P, t: &mut Toks) -> String {
    let nops = t.usize();
    for _ in 0..nops {
        let r = match t.word() {
            "du" => p.derivate_univariate(),
            "iu" => p.indefinite_integral_univariate(),
            "dm" => {
                let n = t.string();
                Ok(p.derivate_multivariate(&n))
            }
            "im" => {
                let n = t.string();
                Ok(p.indefinite_integral_multivariate(&n))
            }
            o => return format!("badop {o}"),
        };
        match r {
            Ok(q) => p = q,
            Err(e) => return format!("err {}", kind(&e)),
        }
    }
    let mut out = format!("P {} U", p.show());
    let fin = t.word();
    if fin == "np" {
        // structure only (degree-65535 cases: the extracted model is quadratic per pass)
        out.push_str(" - - -");
    } else {
        out.push_str(&format!(" {}", okerr(&p.eval_univariate(0.5_f64))));
        out.push_str(&format!(" {}", okerr(&p.derivate_univariate())));
        out.push_str(&format!(" {}", okerr(&p.indefinite_integral_univariate())));
    }
    out.push_str(" E");
    match fin {
        "none" | "np" => {}
        "eu" => {
            for x in t.fvec() {
                out.push_str(&format!(" {}", val(p.eval_univariate(x))));
            }
        }
        "em" => {
            let k = t.usize();
            for _ in 0..k {
                let nb = t.usize();
                let mut b: Vec<(String, f64)> = Vec::new();
                for _ in 0..nb {
                    let n = t.string();
                    let v = t.f();
                    b.push((n, v));
                }
                out.push_str(&format!(" {}", val(p.eval_multivariate(&b))));
            }
        }
        "ai" => {
            let a = t.f();
            let b = t.f();
            let c = t.f();
            for (lo, hi) in [(a, b), (a, c), (c, b), (b, a)] {
                let s = match analytical_integral(&p, lo, hi) {
                    Ok(v) => xf(v),
                    Err(e) => format!("err:{}", ikind(&e)),
                };
                out.push_str(&format!(" {s}"));
            }
        }
        o => return format!("badfinal {o}"),
    }
    out
}

fn run(line: &str) -> String {
    let mut t = Toks::new(line);
    match t.word() {
        "s" => {
            let v = t.word();
            let variable = if v == "-" {
                None
            } else {
                Some(char::from_u32(v.parse::<u32>().expect("cp")).expect("scalar"))
            };
            let coefficients = t.fvec();
            let given = SimplePolynomial { coefficients, variable };
            let src = t.string();
            let parsed = match SimplePolynomial::parse(&src) {
                Ok(p) => p,
                Err(e) => return format!("parse-error {}", kind(&e)),
            };
            if parsed.show() != given.show() {
                return format!("parse-mismatch {}", parsed.show());
            }
            rest(parsed, &mut t)
        }
        "i" => {
            let nt = t.usize();
            let mut terms = Vec::new();
            for _ in 0..nt {
                let coefficient = t.f();
                let nv = t.usize();
                let mut variables = Vec::new();
                for _ in 0..nv {
                    let n = t.string();
                    let e = t.f();
                    variables.push((n, e));
                }
                terms.push(Term { coefficient, variables });
            }
            let nvars = t.usize();
            let variables: Vec<String> = (0..nvars).map(|_| t.string()).collect();
            let given = IntermediatePolynomial { terms, variables };
            let src = t.string();
            let parsed = match IntermediatePolynomial::parse(&src) {
                Ok(p) => p,
                Err(e) => return format!("parse-error {}", kind(&e)),
            };
            if parsed.show() != given.show() {
                return format!("parse-mismatch {}", parsed.show());
            }
            rest(parsed, &mut t)
        }
        c => format!("badcmd {c}"),
    }
}

fn main() {
    main_loop(run);
}
