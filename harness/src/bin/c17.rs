// C17: printed polynomials read back as the same polynomial.
//   shortest <n> <hex>*                       -> ok (<cps of format!("{}", v)>)*            (table for the model's fmt_short)
//   fp <prec> <hex>                           -> ok <cps of format!("{:.prec$}", v)>
//   ps <prec|-> <var-cp|-> <n> <coef>* [| table]   print SimplePolynomial        -> ok <cps text>
//   rs ...same...                                  print, then parse_simple_polynomial(text) -> ok <cps text> ; <parsed | err Kind>
//   pi <prec|-> <nterms> (<coef> <nvars> (<name-cps> <exp>)*)* [| table]  IntermediatePolynomial; ri = round trip
//   pt <coef> <nvars> (<name-cps> <exp>)* [| table]   Term::to_string ; rt = round trip through parse_intermediate_polynomial
//   pm <n> <coef>*                            LinearModel::to_polynomial_string ; rm = round trip through parse_simple_polynomial
// Everything after the tokens a command needs (the "| table" part) is ignored on this side.
#[path = "../util.rs"]
mod util;
use spindalis::regressors::LinearModel;
use spindalis_core::polynomials::PolynomialError;
use spindalis_core::polynomials::Term;
use spindalis_core::polynomials::intermediate::parse_intermediate_polynomial;
use spindalis_core::polynomials::simple::parse_simple_polynomial;
use spindalis_core::polynomials::structs::{IntermediatePolynomial, SimplePolynomial};
use util::*;

fn err_kind(e: &PolynomialError) -> &'static str {
    match e {
        PolynomialError::InvalidCoefficient { .. } => "InvalidCoefficient",
        PolynomialError::InvalidConstant => "InvalidConstant",
        PolynomialError::InvalidExponent { .. } => "InvalidExponent",
        PolynomialError::InvalidFractionalExponent { .. } => "InvalidFractionalExponent",
        PolynomialError::InvalidFraction { .. } => "InvalidFraction",
        PolynomialError::InvalidNumber { .. } => "InvalidNumber",
        PolynomialError::PolynomialSyntaxError => "PolynomialSyntaxError",
        PolynomialError::MissingVariable => "MissingVariable",
        PolynomialError::TooManyVariables { .. } => "TooManyVariables",
        PolynomialError::TooFewVariables { .. } => "TooFewVariables",
        PolynomialError::UnexpectedChar { .. } => "UnexpectedChar",
        PolynomialError::VariableNotFound { .. } => "VariableNotFound",
        PolynomialError::UnexpectedToken { .. } => "UnexpectedToken",
        PolynomialError::UnexpectedEndOfTokens => "UnexpectedEndOfTokens",
    }
}

fn show_simple(p: &SimplePolynomial) -> String {
    let v = match p.variable {
        Some(c) => (c as u32).to_string(),
        None => "-".to_string(),
    };
    format!("{} {} {}", v, p.coefficients.len(), xfs(&p.coefficients))
        .trim_end()
        .to_string()
}

fn show_inter(p: &IntermediatePolynomial) -> String {
    let mut s = format!("{}", p.terms.len());
    for t in &p.terms {
        s.push_str(&format!(" {} {}", xf(t.coefficient), t.variables.len()));
        for (n, e) in &t.variables {
            s.push_str(&format!(" {} {}", cps(n), xf(*e)));
        }
    }
    s.push_str(&format!(" | {}", p.variables.len()));
    for n in &p.variables {
        s.push_str(&format!(" {}", cps(n)));
    }
    s
}

fn back_simple(text: &str) -> String {
    match parse_simple_polynomial(text) {
        Ok(p) => show_simple(&p),
        Err(e) => format!("err {}", err_kind(&e)),
    }
}

fn back_inter(text: &str) -> String {
    match parse_intermediate_polynomial(text) {
        Ok(p) => show_inter(&p),
        Err(e) => format!("err {}", err_kind(&e)),
    }
}

fn prec(t: &mut Toks) -> Option<usize> {
    let w = t.word();
    if w == "-" { None } else { Some(w.parse().expect("prec")) }
}

fn term(t: &mut Toks) -> Term {
    let coefficient = t.f();
    let nv = t.usize();
    let variables = (0..nv)
        .map(|_| {
            let n = t.string();
            let e = t.f();
            (n, e)
        })
        .collect();
    Term { coefficient, variables }
}

fn out(text: &str, roundtrip: bool, back: fn(&str) -> String) -> String {
    if roundtrip {
        format!("ok {} ; {}", cps(text), back(text))
    } else {
        format!("ok {}", cps(text))
    }
}

fn run(line: &str) -> String {
    let mut t = Toks::new(line);
    let cmd = t.word();
    match cmd {
        "shortest" => {
            let v = t.fvec();
            let mut s = String::from("ok");
            for x in v {
                s.push(' ');
                s.push_str(&cps(&format!("{}", x)));
            }
            s
        }
        "fp" => {
            let p = t.usize();
            let x = t.f();
            format!("ok {}", cps(&format!("{:.*}", p, x)))
        }
        "ps" | "rs" => {
            let pr = prec(&mut t);
            let vw = t.word();
            let variable = if vw == "-" {
                None
            } else {
                Some(char::from_u32(vw.parse::<u32>().expect("cp")).expect("scalar"))
            };
            let coefficients = t.fvec();
            let p = SimplePolynomial { coefficients, variable };
            let text = match pr {
                Some(k) => format!("{:.*}", k, p),
                None => format!("{}", p),
            };
            out(&text, cmd == "rs", back_simple)
        }
        "pi" | "ri" => {
            let pr = prec(&mut t);
            let n = t.usize();
            let terms: Vec<Term> = (0..n).map(|_| term(&mut t)).collect();
            // the `variables` field is not printed; fill it the way the parser does (sorted, distinct)
            let mut variables: Vec<String> = terms
                .iter()
                .flat_map(|t| t.variables.iter().map(|(n, _)| n.clone()))
                .collect();
            variables.sort();
            variables.dedup();
            let p = IntermediatePolynomial { terms, variables };
            let text = match pr {
                Some(k) => format!("{:.*}", k, p),
                None => format!("{}", p),
            };
            out(&text, cmd == "ri", back_inter)
        }
        "pt" | "rt" => {
            let tm = term(&mut t);
            let text = tm.to_string();
            out(&text, cmd == "rt", back_inter)
        }
        "pm" | "rm" => {
            let coefficients = t.fvec();
            let m = LinearModel { coefficients, std_err: 0.0, r2: 1.0 };
            let text = m.to_polynomial_string();
            out(&text, cmd == "rm", back_simple)
        }
        _ => format!("badcmd {cmd}"),
    }
}

fn main() {
    main_loop(run);
}
