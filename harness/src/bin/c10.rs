// C10: matrix inverse.
// case lines:  inv h w e..   inv2 h w e..
// Integer-valued input is also run as Arr2D<i32>; both element types must give the same text,
// otherwise the line is `container-mismatch ...`.
#[path = "../util.rs"]
mod util;
use spindalis::utils::{Arr2D, Arr2DError};
use util::*;

fn ename(e: &Arr2DError) -> &'static str {
    match e {
        Arr2DError::NoConvergence => "NoConvergence",
        Arr2DError::InconsistentRowLengths => "InconsistentRowLengths",
        Arr2DError::NonSquareMatrix => "NonSquareMatrix",
        Arr2DError::SingularMatrix => "SingularMatrix",
        Arr2DError::InvalidReshape { .. } => "InvalidReshape",
        Arr2DError::InvalidShape { .. } => "InvalidShape",
        Arr2DError::InvalidDotShape { .. } => "InvalidDotShape",
        Arr2DError::ConversionFailed { .. } => "ConversionFailed",
    }
}

fn mat_hex(m: &Arr2D<f64>, out: &mut Vec<String>) {
    for i in 0..m.height {
        for j in 0..m.width {
            out.push(xf(m[i][j]));
        }
    }
}

fn inv1(r: Result<Arr2D<f64>, Arr2DError>) -> String {
    match r {
        Ok(b) => {
            if b.height != b.width {
                return format!("badshape {}x{}", b.height, b.width);
            }
            let mut out = vec![format!("ok {}", b.height)];
            mat_hex(&b, &mut out);
            out.join(" ")
        }
        Err(e) => format!("err {}", ename(&e)),
    }
}

fn inv2(r: Result<Arr2D<f64>, Arr2DError>) -> String {
    match r {
        Ok(b) => match b.inverse() {
            Ok(a2) => {
                if b.height != b.width || a2.height != b.height || a2.width != b.height {
                    return "badshape".to_string();
                }
                let mut out = vec![format!("ok {}", b.height)];
                mat_hex(&b, &mut out);
                mat_hex(&a2, &mut out);
                out.join(" ")
            }
            Err(e) => format!("err2 {}", ename(&e)),
        },
        Err(e) => format!("err1 {}", ename(&e)),
    }
}

fn as_i32(rows: &[Vec<f64>]) -> Option<Vec<Vec<i32>>> {
    let mut out = Vec::new();
    for r in rows {
        let mut o = Vec::new();
        for &x in r {
            if x.fract() != 0.0 || x.abs() > 2147483647.0 || (x == 0.0 && x.is_sign_negative()) {
                return None;
            }
            o.push(x as i32);
        }
        out.push(o);
    }
    Some(out)
}

fn run(line: &str) -> String {
    let mut t = Toks::new(line);
    let cmd = t.word();
    if cmd != "inv" && cmd != "inv2" {
        return format!("badcmd {cmd}");
    }
    let twice = cmd == "inv2";
    let h = t.usize();
    let w = t.usize();
    let rows: Vec<Vec<f64>> = (0..h).map(|_| (0..w).map(|_| t.f()).collect()).collect();
    let mut arr: Arr2D<f64> = Arr2D::full(0.0, h, w);
    for i in 0..h {
        for j in 0..w {
            arr[i][j] = rows[i][j];
        }
    }
    let first = guarded(|| if twice { inv2(arr.inverse()) } else { inv1(arr.inverse()) });
    if let Some(iv) = as_i32(&rows) {
        let mut ia: Arr2D<i32> = Arr2D::full(0, h, w);
        for i in 0..h {
            for j in 0..w {
                ia[i][j] = iv[i][j];
            }
        }
        let second = guarded(|| if twice { inv2(ia.inverse()) } else { inv1(ia.inverse()) });
        if second != first {
            return format!("container-mismatch Arr2D<f64>: {first} | Arr2D<i32>: {second}");
        }
    }
    first
}

fn main() {
    main_loop(run);
}
