// C05: Simpson / trapezoid / Romberg quadrature
#[path = "../util.rs"]
mod util;
use spindalis_core::integrals::{definite_integral, romberg_definite, IntegralError};
use spindalis_core::polynomials::structs::{IntermediatePolynomial, SimplePolynomial};
use spindalis_core::polynomials::Term;
use util::*;

fn show(r: Result<f64, IntegralError>) -> String {
    match r {
        Ok(v) => format!("ok {}", xf(v)),
        Err(IntegralError::MaxIterationsReached) => "err MaxIterationsReached".to_string(),
        Err(IntegralError::FunctionError(e)) => {
            let d = format!("{e:?}");
            let kind: String = d.chars().take_while(|c| c.is_alphanumeric()).collect();
            format!("err FunctionError {kind}")
        }
    }
}

fn spoly(t: &mut Toks) -> SimplePolynomial {
    SimplePolynomial { coefficients: t.fvec(), variable: Some('x') }
}

// nt (coef nv (name pow)*)*  nvars name*
fn ipoly(t: &mut Toks) -> IntermediatePolynomial {
    let nt = t.usize();
    let mut terms = Vec::new();
    for _ in 0..nt {
        let coefficient = t.f();
        let nv = t.usize();
        let mut variables = Vec::new();
        for _ in 0..nv {
            let name = t.string();
            let pow = t.f();
            variables.push((name, pow));
        }
        terms.push(Term { coefficient, variables });
    }
    let nvars = t.usize();
    let variables: Vec<String> = (0..nvars).map(|_| t.string()).collect();
    IntermediatePolynomial { terms, variables }
}

fn run(line: &str) -> String {
    let mut t = Toks::new(line);
    let cmd = t.word();
    match cmd {
        "ds" => {
            let n = t.usize();
            let a = t.f();
            let b = t.f();
            let p = spoly(&mut t);
            show(definite_integral(&p, a, b, n))
        }
        "di" => {
            let n = t.usize();
            let a = t.f();
            let b = t.f();
            let p = ipoly(&mut t);
            show(definite_integral(&p, a, b, n))
        }
        "rs" => {
            let cap: u32 = t.word().parse().expect("u32");
            let tol = t.f();
            let a = t.f();
            let b = t.f();
            let p = spoly(&mut t);
            show(romberg_definite(&p, a, b, cap, tol))
        }
        "ri" => {
            let cap: u32 = t.word().parse().expect("u32");
            let tol = t.f();
            let a = t.f();
            let b = t.f();
            let p = ipoly(&mut t);
            show(romberg_definite(&p, a, b, cap, tol))
        }
        _ => format!("badcmd {cmd}"),
    }
}

fn main() {
    main_loop(run);
}
