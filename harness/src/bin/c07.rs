// C07: Newton-Raphson
//   nr s <n c0..> <x0> <cap> <tol> <mode>
//   nr i <nt> {coef nv {name pow}} <nvars> {name} <x0> <cap> <tol> <mode>
#[path = "../util.rs"]
mod util;
use spindalis::polynomials::{IntermediatePolynomial, PolynomialError, SimplePolynomial, Term};
use spindalis::solvers::{newton_raphson_method, SolveMode, SolverError};
use util::*;

fn perr(e: &PolynomialError) -> &'static str {
    match e {
        PolynomialError::TooManyVariables { .. } => "TooManyVariables",
        PolynomialError::VariableNotFound { .. } => "VariableNotFound",
        _ => "Other",
    }
}

fn show(r: Result<f64, SolverError>) -> String {
    match r {
        Ok(x) => format!("ok {}", xf(x)),
        Err(SolverError::MaxIterationsReached) => "err MaxIterationsReached".into(),
        Err(SolverError::NoConvergence) => "err NoConvergence".into(),
        Err(SolverError::XInitOutOfBounds) => "err XInitOutOfBounds".into(),
        Err(SolverError::FunctionError(e)) => format!("err FunctionError:{}", perr(&e)),
        Err(_) => "err Other".into(),
    }
}

fn spoly(t: &mut Toks) -> SimplePolynomial {
    SimplePolynomial { coefficients: t.fvec(), variable: Some('x') }
}

fn ipoly(t: &mut Toks) -> IntermediatePolynomial {
    let nt = t.usize();
    let mut terms = Vec::new();
    for _ in 0..nt {
        let c = t.f();
        let nv = t.usize();
        let mut vs = Vec::new();
        for _ in 0..nv {
            let nm = t.string();
            let p = t.f();
            vs.push((nm, p));
        }
        terms.push(Term { coefficient: c, variables: vs });
    }
    let nvars = t.usize();
    let variables = (0..nvars).map(|_| t.string()).collect();
    IntermediatePolynomial { terms, variables }
}

fn tail(t: &mut Toks) -> (f64, usize, f64, SolveMode) {
    let x0 = t.f();
    let cap = t.usize();
    let tol = t.f();
    let mode = if t.usize() == 1 { SolveMode::Extrema } else { SolveMode::Root };
    (x0, cap, tol, mode)
}

fn run(line: &str) -> String {
    let mut t = Toks::new(line);
    let cmd = t.word();
    if cmd != "nr" {
        return format!("badcmd {cmd}");
    }
    match t.word() {
        "s" => {
            let p = spoly(&mut t);
            let (x0, cap, tol, mode) = tail(&mut t);
            show(newton_raphson_method(&p, x0, cap, tol, mode))
        }
        "i" => {
            let p = ipoly(&mut t);
            let (x0, cap, tol, mode) = tail(&mut t);
            show(newton_raphson_method(&p, x0, cap, tol, mode))
        }
        c => format!("badtype {c}"),
    }
}

fn main() {
    main_loop(run);
}
