// C08: Gaussian elimination through every accepted container type, and the
// exported triangular substitution routines.
#[path = "../util.rs"]
mod util;
use spindalis::solvers::{gaussian_elimination, SolverError};
use spindalis::utils::{back_substitution, forward_substitution, Arr2D};
use util::*;

fn show(r: Result<Vec<f64>, SolverError>) -> String {
    match r {
        Ok(v) => format!("ok {} {}", v.len(), xfs(&v)).trim_end().to_string(),
        Err(e) => {
            let k = match e {
                SolverError::MaxIterationsReached => "MaxIterationsReached",
                SolverError::NoConvergence => "NoConvergence",
                SolverError::XInitOutOfBounds => "XInitOutOfBounds",
                SolverError::NonSquareMatrix => "NonSquareMatrix",
                SolverError::SingularMatrix => "SingularMatrix",
                SolverError::InvalidVector(_) => "InvalidVector",
                SolverError::FunctionError(_) => "FunctionError",
                SolverError::NumArgumentsMismatch { .. } => "NumArgumentsMismatch",
            };
            format!("err {k}")
        }
    }
}

fn as_i32(v: f64) -> Option<i32> {
    if v.is_finite() && v == v.trunc() && v.abs() <= 1.0e9 && !(v == 0.0 && v.is_sign_negative()) {
        Some(v as i32)
    } else {
        None
    }
}

/// every container type that applies to these numbers; all answers must be the same text
fn all_containers(rows: &Vec<Vec<f64>>, rhs: &Vec<f64>, tol: f64) -> String {
    let mut outs: Vec<(&'static str, String)> = Vec::new();
    outs.push(("Vec<Vec<f64>>", guarded(|| show(gaussian_elimination(rows.clone(), rhs, tol)))));
    outs.push(("&Vec<Vec<f64>>", guarded(|| show(gaussian_elimination(rows, rhs, tol)))));
    let rect = rows.iter().all(|r| r.len() == rows[0].len());
    if rect {
        outs.push(("&Arr2D<f64>", guarded(|| {
            let a: Arr2D<f64> = Arr2D::try_from(rows.clone()).expect("rectangular");
            show(gaussian_elimination(&a, rhs, tol))
        })));
    }
    let irows: Option<Vec<Vec<i32>>> =
        rows.iter().map(|r| r.iter().map(|v| as_i32(*v)).collect::<Option<Vec<i32>>>()).collect();
    let irhs: Option<Vec<i32>> = rhs.iter().map(|v| as_i32(*v)).collect();
    if let Some(ir) = &irows {
        outs.push(("&Vec<Vec<i32>> f64rhs", guarded(|| show(gaussian_elimination(ir, rhs, tol)))));
        if rect {
            outs.push(("&Arr2D<i32> f64rhs", guarded(|| {
                let a: Arr2D<i32> = Arr2D::try_from(ir.clone()).expect("rectangular");
                show(gaussian_elimination(&a, rhs, tol))
            })));
        }
        if let Some(ib) = &irhs {
            outs.push(("&Vec<Vec<i32>> i32rhs", guarded(|| show(gaussian_elimination(ir, ib, tol)))));
            if rect {
                outs.push(("&Arr2D<i32> i32rhs", guarded(|| {
                    let a: Arr2D<i32> = Arr2D::try_from(ir.clone()).expect("rectangular");
                    show(gaussian_elimination(&a, ib, tol))
                })));
            }
        }
    }
    let first = outs[0].1.clone();
    for (name, o) in &outs {
        if *o != first {
            return format!("container-mismatch {name} gives [{o}] but Vec<Vec<f64>> gives [{first}]");
        }
    }
    first
}

fn run(line: &str) -> String {
    let mut t = Toks::new(line);
    let cmd = t.word();
    match cmd {
        "ge" => {
            let tol = t.f();
            let rows = t.fmat();
            let rhs = t.fvec();
            all_containers(&rows, &rhs, tol)
        }
        "ragged" => {
            let tol = t.f();
            let h = t.usize();
            let rows: Vec<Vec<f64>> = (0..h).map(|_| t.fvec()).collect();
            let rhs = t.fvec();
            all_containers(&rows, &rhs, tol)
        }
        "bs" | "fs" => {
            let rows = t.fmat();
            let rhs = t.fvec();
            let n = rows.len();
            let a: Arr2D<f64> = Arr2D::try_from(rows).expect("rectangular");
            let mut sol = vec![0.0; n];
            if cmd == "bs" {
                back_substitution(&a, n, &rhs, &mut sol);
            } else {
                forward_substitution(&a, n, &rhs, &mut sol);
            }
            show(Ok(sol))
        }
        _ => format!("badcmd {cmd}"),
    }
}

fn main() {
    main_loop(run);
}
