// C18: descriptive statistics
#[path = "../util.rs"]
mod util;
use spindalis::utils::{arith_mean, geom_mean, std_dev, StdDevType};
use util::*;

fn run(line: &str) -> String {
    let mut t = Toks::new(line);
    let cmd = t.word();
    match cmd {
        "mean" => {
            let v = t.fvec();
            xf(arith_mean(&v))
        }
        "geom" => {
            let v = t.fvec();
            xf(geom_mean(&v))
        }
        "sd" => {
            let sample = t.usize() == 1;
            let v = t.fvec();
            let k = if sample { StdDevType::Sample } else { StdDevType::Poulation };
            xf(std_dev(&v, k))
        }
        _ => format!("badcmd {cmd}"),
    }
}

fn main() {
    main_loop(run);
}
