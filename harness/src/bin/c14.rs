// C14: Hessenberg reduction
#[path = "../util.rs"]
mod util;
use spindalis::reduction::matrix::hessenberg_reduction;
use spindalis::solvers::SolverError;
use spindalis::utils::Arr2D;
use util::*;

fn build(h: usize, w: usize, rows: Vec<Vec<f64>>) -> Arr2D<f64> {
    if h == 0 || w == 0 {
        // shapes with an empty side cannot be expressed as nested vectors
        return Arr2D::full(0.0, h, w);
    }
    Arr2D::try_from(rows).expect("consistent rows")
}

fn flat(m: &Arr2D<f64>, out: &mut Vec<String>) {
    for i in 0..m.height {
        for j in 0..m.width {
            out.push(xf(m[(i, j)]));
        }
    }
}

fn run(line: &str) -> String {
    let mut t = Toks::new(line);
    let cmd = t.word();
    match cmd {
        "hess" => {
            let mut t2 = Toks::new(line);
            t2.word();
            let h = t2.usize();
            let w = t2.usize();
            let rows = t.fmat();
            let a = build(h, w, rows);
            match hessenberg_reduction(&a) {
                Ok((hm, qm)) => {
                    if hm.height != hm.width || qm.height != qm.width || hm.height != qm.height {
                        return format!(
                            "badshape {} {} {} {}",
                            hm.height, hm.width, qm.height, qm.width
                        );
                    }
                    let mut out = vec!["ok".to_string(), hm.height.to_string()];
                    flat(&hm, &mut out);
                    flat(&qm, &mut out);
                    out.join(" ")
                }
                Err(SolverError::NonSquareMatrix) => "err NonSquareMatrix".to_string(),
                Err(e) => {
                    let s = format!("{e:?}");
                    let name = s.split(|c: char| !c.is_alphanumeric()).next().unwrap_or("");
                    format!("err {name}")
                }
            }
        }
        _ => format!("badcmd {cmd}"),
    }
}

fn main() {
    main_loop(run);
}
