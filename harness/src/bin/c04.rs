// C04: same driver as C03 (derivatives, integrals, analytical_integral share the entry points)
include!("c03.rs");
