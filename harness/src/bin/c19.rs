// C19: general expression parser (lexer, implied multiplication, Pratt parser, folding, Display)
// through the cfg(spindalis_verif) hook `spindalis_core::polynomials::advanced::verif`.
//
//   text <cps>          lex the text, then the whole pipeline
//   toks <n> <tok>*     start from a token vector (no lexer)
//   tree <expr>         start from a tree (fold / display / re-read only)
//
// result (one line; sections separated by " ; "):
//   lex ok <n> <tok>* | lex err <Kind>
//   parse ok <expr>   | parse err <Kind>            (unfolded tree)
//   fold <expr>
//   du <cps> ; ru <reread>                          (Display of the unfolded tree and its re-reading)
//   df <cps> ; rf <reread>                          (Display of the folded tree = verif::parse_display)
//   reread = ok <expr> (lexer, parser, fold of the displayed text) | lexerr <Kind> | parseerr <Kind>
//
// tok  = n:<hex> | v:<cp>[,<cp>]* | o:<Op> | f:<Fn> | c:<Const> | lp | rp
// expr = N <hex> | V <cps> | C <Const> | F <Fn> <expr> | P <Op> <expr> | Q <Op> <expr> | B <Op> <0|1> <expr> <expr>
#[path = "../util.rs"]
mod util;
use spindalis_core::polynomials::PolynomialError;
use spindalis_core::polynomials::advanced::{verif, Constants, Expr, Functions, Operators, Token};
use util::*;

fn err_kind(e: &PolynomialError) -> &'static str {
    match e {
        PolynomialError::InvalidCoefficient { .. } => "InvalidCoefficient",
        PolynomialError::InvalidConstant => "InvalidConstant",
        PolynomialError::InvalidExponent { .. } => "InvalidExponent",
        PolynomialError::InvalidFractionalExponent { .. } => "InvalidFractionalExponent",
        PolynomialError::InvalidFraction { .. } => "InvalidFraction",
        PolynomialError::InvalidNumber { .. } => "InvalidNumber",
        PolynomialError::PolynomialSyntaxError => "PolynomialSyntaxError",
        PolynomialError::MissingVariable => "MissingVariable",
        PolynomialError::TooManyVariables { .. } => "TooManyVariables",
        PolynomialError::TooFewVariables { .. } => "TooFewVariables",
        PolynomialError::UnexpectedChar { .. } => "UnexpectedChar",
        PolynomialError::VariableNotFound { .. } => "VariableNotFound",
        PolynomialError::UnexpectedToken { .. } => "UnexpectedToken",
        PolynomialError::UnexpectedEndOfTokens => "UnexpectedEndOfTokens",
    }
}

fn op_name(o: &Operators) -> &'static str {
    match o {
        Operators::Add => "Add",
        Operators::Sub => "Sub",
        Operators::Div => "Div",
        Operators::Mul => "Mul",
        Operators::CDot => "CDot",
        Operators::Rem => "Rem",
        Operators::Caret => "Caret",
        Operators::Fac => "Fac",
    }
}
fn op_of(s: &str) -> Operators {
    match s {
        "Add" => Operators::Add,
        "Sub" => Operators::Sub,
        "Div" => Operators::Div,
        "Mul" => Operators::Mul,
        "CDot" => Operators::CDot,
        "Rem" => Operators::Rem,
        "Caret" => Operators::Caret,
        "Fac" => Operators::Fac,
        _ => panic!("driver: operator {s}"),
    }
}
fn fn_name(f: &Functions) -> &'static str {
    match f {
        Functions::Sin => "Sin",
        Functions::Cos => "Cos",
        Functions::Tan => "Tan",
        Functions::Cot => "Cot",
        Functions::Log => "Log",
        Functions::Ln => "Ln",
    }
}
fn fn_of(s: &str) -> Functions {
    match s {
        "Sin" => Functions::Sin,
        "Cos" => Functions::Cos,
        "Tan" => Functions::Tan,
        "Cot" => Functions::Cot,
        "Log" => Functions::Log,
        "Ln" => Functions::Ln,
        _ => panic!("driver: function {s}"),
    }
}
fn const_name(c: &Constants) -> &'static str {
    match c {
        Constants::Pi => "Pi",
        Constants::E => "E",
        Constants::Tau => "Tau",
        Constants::Phi => "Phi",
    }
}
fn const_of(s: &str) -> Constants {
    match s {
        "Pi" => Constants::Pi,
        "E" => Constants::E,
        "Tau" => Constants::Tau,
        "Phi" => Constants::Phi,
        _ => panic!("driver: constant {s}"),
    }
}

fn show_tok(t: &Token) -> String {
    match t {
        Token::Number(x) => format!("n:{}", xf(*x)),
        Token::Variable(v) => format!(
            "v:{}",
            v.chars().map(|c| (c as u32).to_string()).collect::<Vec<_>>().join(",")
        ),
        Token::Operator(o) => format!("o:{}", op_name(o)),
        Token::Function(f) => format!("f:{}", fn_name(f)),
        Token::Constant(c) => format!("c:{}", const_name(c)),
        Token::LParen => "lp".to_string(),
        Token::RParen => "rp".to_string(),
    }
}
fn tok_of(s: &str) -> Token {
    if s == "lp" {
        return Token::LParen;
    }
    if s == "rp" {
        return Token::RParen;
    }
    let (k, v) = s.split_at(2);
    match k {
        "n:" => Token::Number(fx(v)),
        "v:" => Token::Variable(
            v.split(',')
                .filter(|x| !x.is_empty())
                .map(|x| char::from_u32(x.parse::<u32>().expect("cp")).expect("scalar"))
                .collect(),
        ),
        "o:" => Token::Operator(op_of(v)),
        "f:" => Token::Function(fn_of(v)),
        "c:" => Token::Constant(const_of(v)),
        _ => panic!("driver: token {s}"),
    }
}
fn show_toks(ts: &[Token]) -> String {
    let mut s = format!("{}", ts.len());
    for t in ts {
        s.push(' ');
        s.push_str(&show_tok(t));
    }
    s
}

fn show_expr(e: &Expr, out: &mut String) {
    match e {
        Expr::Number(x) => {
            out.push_str("N ");
            out.push_str(&xf(*x));
        }
        Expr::Variable(v) => {
            out.push_str("V ");
            out.push_str(&cps(v));
        }
        Expr::Constant(c) => {
            out.push_str("C ");
            out.push_str(const_name(c));
        }
        Expr::Function { func, inner } => {
            out.push_str("F ");
            out.push_str(fn_name(func));
            out.push(' ');
            show_expr(inner, out);
        }
        Expr::UnaryOpPrefix { op, value } => {
            out.push_str("P ");
            out.push_str(op_name(op));
            out.push(' ');
            show_expr(value, out);
        }
        Expr::UnaryOpPostfix { op, value } => {
            out.push_str("Q ");
            out.push_str(op_name(op));
            out.push(' ');
            show_expr(value, out);
        }
        Expr::BinaryOp { op, lhs, rhs, paren } => {
            out.push_str("B ");
            out.push_str(op_name(op));
            out.push_str(if *paren { " 1 " } else { " 0 " });
            show_expr(lhs, out);
            out.push(' ');
            show_expr(rhs, out);
        }
    }
}
fn expr_str(e: &Expr) -> String {
    let mut s = String::new();
    show_expr(e, &mut s);
    s
}
fn read_expr(t: &mut Toks) -> Expr {
    match t.word() {
        "N" => Expr::Number(t.f()),
        "V" => Expr::Variable(t.string()),
        "C" => Expr::Constant(const_of(t.word())),
        "F" => {
            let func = fn_of(t.word());
            Expr::Function { func, inner: Box::new(read_expr(t)) }
        }
        "P" => {
            let op = op_of(t.word());
            Expr::UnaryOpPrefix { op, value: Box::new(read_expr(t)) }
        }
        "Q" => {
            let op = op_of(t.word());
            Expr::UnaryOpPostfix { op, value: Box::new(read_expr(t)) }
        }
        "B" => {
            let op = op_of(t.word());
            let paren = t.usize() == 1;
            let lhs = Box::new(read_expr(t));
            let rhs = Box::new(read_expr(t));
            Expr::BinaryOp { op, lhs, rhs, paren }
        }
        w => panic!("driver: expr tag {w}"),
    }
}

/// lexer, parser (unfolded) and fold of a displayed text
fn reread(text: &str) -> String {
    match verif::lex(text) {
        Err(e) => format!("lexerr {}", err_kind(&e)),
        Ok(ts) => match verif::parse_unfolded(ts) {
            Err(e) => format!("parseerr {}", err_kind(&e)),
            Ok(e) => format!("ok {}", expr_str(&verif::fold(e))),
        },
    }
}

fn after_tree(unfolded: Expr, toks: Option<Vec<Token>>, out: &mut String) {
    let du = format!("{unfolded}");
    let folded = verif::fold(unfolded.clone());
    let df = format!("{folded}");
    if let Some(ts) = toks {
        // the crate's own composition parser -> Polynomial -> Display must agree with fold + Display
        match verif::parse_display(ts) {
            Ok(s) if s == df => {}
            Ok(_) => out.push_str(" ; INCONSISTENT parse_display differs from Display of fold"),
            Err(_) => out.push_str(" ; INCONSISTENT parse_display fails where parse_unfolded succeeds"),
        }
    }
    out.push_str(&format!(" ; fold {}", expr_str(&folded)));
    out.push_str(&format!(" ; du {} ; ru {}", cps(&du), reread(&du)));
    out.push_str(&format!(" ; df {} ; rf {}", cps(&df), reread(&df)));
}

fn after_tokens(ts: Vec<Token>, out: &mut String) {
    match verif::parse_unfolded(ts.clone()) {
        Err(e) => {
            // the folded entry point must fail the same way
            match verif::parse_display(ts) {
                Err(e2) if err_kind(&e2) == err_kind(&e) => {}
                _ => out.push_str(" ; INCONSISTENT parse_display and parse_unfolded disagree on failure"),
            }
            out.push_str(&format!(" ; parse err {}", err_kind(&e)));
        }
        Ok(u) => {
            out.push_str(&format!(" ; parse ok {}", expr_str(&u)));
            after_tree(u, Some(ts), out);
        }
    }
}

fn run(line: &str) -> String {
    let mut t = Toks::new(line);
    let cmd = t.word();
    let mut out = String::new();
    match cmd {
        "text" | "ctext" => {
            let s = t.string();
            match verif::lex(&s) {
                Err(e) => out.push_str(&format!("lex err {}", err_kind(&e))),
                Ok(ts) => {
                    out.push_str(&format!("lex ok {}", show_toks(&ts)));
                    after_tokens(ts, &mut out);
                }
            }
        }
        "toks" | "ctoks" => {
            let n = t.usize();
            let ts: Vec<Token> = (0..n).map(|_| tok_of(t.word())).collect();
            out.push_str(&format!("lex ok {}", show_toks(&ts)));
            after_tokens(ts, &mut out);
        }
        "tree" | "ctree" => {
            let e = read_expr(&mut t);
            out.push_str(&format!("tree {}", expr_str(&e)));
            after_tree(e, None, &mut out);
        }
        _ => return format!("badcmd {cmd}"),
    }
    out
}

fn main() {
    main_loop(run);
}
