// C02: multivariate parser + evaluators
//   parse <cps>                           -> ok <nterms> (<coef> <nvars> (<name-cps> <exp>)*)* | <nvars> <name-cps>*  / err K / panic
//   eval <cps> <x> <nb> (<name-cps> <v>)* -> ok mv <tok> uv <tok>   (tok = hex | err:K)   / err K / panic
//   agree <cps> <x>                       -> s <tok> i <tok>
#[path = "../util.rs"]
mod util;
use spindalis_core::polynomials::PolynomialError;
use spindalis_core::polynomials::intermediate::parse_intermediate_polynomial;
use spindalis_core::polynomials::simple::{eval_simple_polynomial, parse_simple_polynomial};
use spindalis_core::polynomials::structs::{IntermediatePolynomial, PolynomialTraits};
use util::*;

pub fn err_kind(e: &PolynomialError) -> &'static str {
    match e {
        PolynomialError::InvalidCoefficient { .. } => "InvalidCoefficient",
        PolynomialError::InvalidConstant => "InvalidConstant",
        PolynomialError::InvalidExponent { .. } => "InvalidExponent",
        PolynomialError::InvalidFractionalExponent { .. } => "InvalidFractionalExponent",
        PolynomialError::InvalidFraction { .. } => "InvalidFraction",
        PolynomialError::InvalidNumber { .. } => "InvalidNumber",
        PolynomialError::PolynomialSyntaxError => "PolynomialSyntaxError",
        PolynomialError::MissingVariable => "MissingVariable",
        PolynomialError::TooManyVariables { .. } => "TooManyVariables",
        PolynomialError::TooFewVariables { .. } => "TooFewVariables",
        PolynomialError::UnexpectedChar { .. } => "UnexpectedChar",
        PolynomialError::VariableNotFound { .. } => "VariableNotFound",
        PolynomialError::UnexpectedToken { .. } => "UnexpectedToken",
        PolynomialError::UnexpectedEndOfTokens => "UnexpectedEndOfTokens",
    }
}

pub fn show_inter(p: &IntermediatePolynomial) -> String {
    let mut s = format!("ok {}", p.terms.len());
    for t in &p.terms {
        s.push_str(&format!(" {} {}", xf(t.coefficient), t.variables.len()));
        for (n, e) in &t.variables {
            s.push_str(&format!(" {} {}", cps(n), xf(*e)));
        }
    }
    s.push_str(&format!(" | {}", p.variables.len()));
    for n in &p.variables {
        s.push_str(&format!(" {}", cps(n)));
    }
    s
}

fn tok(r: Result<f64, PolynomialError>) -> String {
    match r {
        Ok(v) => xf(v),
        Err(e) => format!("err:{}", err_kind(&e)),
    }
}

fn run(line: &str) -> String {
    let mut t = Toks::new(line);
    match t.word() {
        "parse" => {
            let s = t.string();
            match parse_intermediate_polynomial(&s) {
                Ok(p) => show_inter(&p),
                Err(e) => format!("err {}", err_kind(&e)),
            }
        }
        "eval" => {
            let s = t.string();
            let x = t.f();
            let nb = t.usize();
            let mut env: Vec<(String, f64)> = Vec::new();
            for _ in 0..nb {
                let nm = t.string();
                let v = t.f();
                env.push((nm, v));
            }
            // through the trait entry point
            match <IntermediatePolynomial as PolynomialTraits>::parse(&s) {
                Ok(p) => format!(
                    "ok mv {} uv {}",
                    tok(p.eval_multivariate(&env)),
                    tok(p.eval_univariate(x))
                ),
                Err(e) => format!("err {}", err_kind(&e)),
            }
        }
        "agree" => {
            let s = t.string();
            let x = t.f();
            let st = match parse_simple_polynomial(&s) {
                Ok(p) => xf(eval_simple_polynomial(x, &p)),
                Err(e) => format!("err:{}", err_kind(&e)),
            };
            let it = match parse_intermediate_polynomial(&s) {
                Ok(p) => tok(p.eval_univariate(x)),
                Err(e) => format!("err:{}", err_kind(&e)),
            };
            format!("s {st} i {it}")
        }
        c => format!("badcmd {c}"),
    }
}

fn main() {
    main_loop(run);
}
