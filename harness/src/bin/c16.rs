// C16: both string parsers on arbitrary text (totality, fidelity).
//   simple <cps>   -> ok <var-cp|-> <n> <coef>*      | err <Kind> | panic
//   inter <cps>    -> ok <nterms> (<coef> <nvars> (<name-cp> <exp>)*)* | <nvars> <name-cp>*   | err <Kind> | panic
//   classes <n> <cp>*  -> for each code point "<alphabetic><numeric><whitespace>" bits (measures the UClass table)
#[path = "../util.rs"]
mod util;
use spindalis_core::polynomials::PolynomialError;
use spindalis_core::polynomials::intermediate::parse_intermediate_polynomial;
use spindalis_core::polynomials::simple::parse_simple_polynomial;
use spindalis_core::polynomials::structs::{IntermediatePolynomial, SimplePolynomial};
use util::*;

pub fn err_kind(e: &PolynomialError) -> &'static str {
    match e {
        PolynomialError::InvalidCoefficient { .. } => "InvalidCoefficient",
        PolynomialError::InvalidConstant => "InvalidConstant",
        PolynomialError::InvalidExponent { .. } => "InvalidExponent",
        PolynomialError::InvalidFractionalExponent { .. } => "InvalidFractionalExponent",
        PolynomialError::InvalidFraction { .. } => "InvalidFraction",
        PolynomialError::InvalidNumber { .. } => "InvalidNumber",
        PolynomialError::PolynomialSyntaxError => "PolynomialSyntaxError",
        PolynomialError::MissingVariable => "MissingVariable",
        PolynomialError::TooManyVariables { .. } => "TooManyVariables",
        PolynomialError::TooFewVariables { .. } => "TooFewVariables",
        PolynomialError::UnexpectedChar { .. } => "UnexpectedChar",
        PolynomialError::VariableNotFound { .. } => "VariableNotFound",
        PolynomialError::UnexpectedToken { .. } => "UnexpectedToken",
        PolynomialError::UnexpectedEndOfTokens => "UnexpectedEndOfTokens",
    }
}

pub fn show_simple(p: &SimplePolynomial) -> String {
    let v = match p.variable {
        Some(c) => (c as u32).to_string(),
        None => "-".to_string(),
    };
    format!("ok {} {} {}", v, p.coefficients.len(), xfs(&p.coefficients))
        .trim_end()
        .to_string()
}

pub fn show_inter(p: &IntermediatePolynomial) -> String {
    let mut s = format!("ok {}", p.terms.len());
    for t in &p.terms {
        s.push_str(&format!(" {} {}", xf(t.coefficient), t.variables.len()));
        for (n, e) in &t.variables {
            s.push_str(&format!(" {} {}", cps(n), xf(*e)));
        }
    }
    s.push_str(&format!(" | {}", p.variables.len()));
    for n in &p.variables {
        s.push_str(&format!(" {}", cps(n)));
    }
    s
}

fn run(line: &str) -> String {
    let mut t = Toks::new(line);
    match t.word() {
        "simple" => {
            let s = t.string();
            match parse_simple_polynomial(&s) {
                Ok(p) => show_simple(&p),
                Err(e) => format!("err {}", err_kind(&e)),
            }
        }
        "inter" => {
            let s = t.string();
            match parse_intermediate_polynomial(&s) {
                Ok(p) => show_inter(&p),
                Err(e) => format!("err {}", err_kind(&e)),
            }
        }
        "classes" => {
            let s = t.string();
            s.chars()
                .map(|c| {
                    format!(
                        "{}{}{}",
                        c.is_alphabetic() as u8,
                        c.is_numeric() as u8,
                        c.is_whitespace() as u8
                    )
                })
                .collect::<Vec<_>>()
                .join(" ")
        }
        c => format!("badcmd {c}"),
    }
}

fn main() {
    main_loop(run);
}
