// C12: operation sequences on a real Arr2D<i64>; every operation and every accessor runs
// under its own catch_unwind so that a panic is an observable output and the array is
// observed again afterwards.
#[path = "../util.rs"]
mod util;
use spindalis::utils::{Arr2D, Arr2DError};
use std::panic::{catch_unwind, AssertUnwindSafe};
use util::*;

fn err_name(e: &Arr2DError) -> &'static str {
    match e {
        Arr2DError::NoConvergence => "NoConvergence",
        Arr2DError::InconsistentRowLengths => "InconsistentRowLengths",
        Arr2DError::NonSquareMatrix => "NonSquareMatrix",
        Arr2DError::SingularMatrix => "SingularMatrix",
        Arr2DError::InvalidReshape { .. } => "InvalidReshape",
        Arr2DError::InvalidShape { .. } => "InvalidShape",
        Arr2DError::InvalidDotShape { .. } => "InvalidDotShape",
        Arr2DError::ConversionFailed { .. } => "ConversionFailed",
    }
}

fn guard<R>(f: impl FnOnce() -> R) -> Option<R> {
    catch_unwind(AssertUnwindSafe(f)).ok()
}

fn rows_text(r: Option<Vec<Vec<i64>>>) -> String {
    match r {
        None => " P".to_string(),
        Some(rows) => {
            let mut s = String::new();
            for row in rows {
                s.push_str(" /");
                for v in row {
                    s.push_str(&format!(" {v}"));
                }
            }
            s
        }
    }
}

fn observe(a: &Arr2D<i64>) -> String {
    let (h, w) = a.shape();
    let mut s = format!("s {} {} {} {} g1", h, w, a.size(), if a.is_empty() { 1 } else { 0 });
    for r in 0..=h {
        for c in 0..=w {
            match guard(|| a[(r, c)]) {
                Some(v) => s.push_str(&format!(" {v}")),
                None => s.push_str(" P"),
            }
        }
    }
    s.push_str(" g2");
    for r in 0..=h {
        for c in 0..=w {
            match guard(|| a[r][c]) {
                Some(v) => s.push_str(&format!(" {v}")),
                None => s.push_str(" P"),
            }
        }
    }
    let rows = guard(|| a.rows().map(|r| r.to_vec()).collect::<Vec<Vec<i64>>>());
    s.push_str(" rw");
    s.push_str(&rows_text(rows.clone()));
    let it = guard(|| {
        let mut v: Vec<Vec<i64>> = Vec::new();
        for r in a {
            v.push(r.to_vec());
        }
        v
    });
    s.push_str(" it");
    s.push_str(&rows_text(it));
    let opt = |o: Option<Option<i64>>| match o {
        Some(Some(v)) => v.to_string(),
        Some(None) => "none".to_string(),
        None => "P".to_string(),
    };
    s.push_str(&format!(" mx {}", opt(guard(|| a.max()))));
    s.push_str(&format!(" mn {}", opt(guard(|| a.min()))));
    let rows = rows.unwrap_or_default();
    let total: usize = rows.iter().map(|r| r.len()).sum();
    let c1 = rows.clone();
    let mut c2 = rows.clone();
    if total > 0 {
        let last = c2.last_mut().unwrap();
        *last.last_mut().unwrap() += 1;
    } else {
        c2.push(vec![]);
    }
    let mut c3 = rows.clone();
    c3.push(vec![]);
    let mut c4 = rows.clone();
    if c4.is_empty() {
        c4.push(vec![0]);
    } else {
        c4[0].push(0);
    }
    s.push_str(" eq");
    for (k, c) in [c1, c2, c3, c4].iter().enumerate() {
        // both directions of PartialEq are used
        let r = if k % 2 == 0 { guard(|| a == c) } else { guard(|| c == a) };
        match r {
            Some(true) => s.push_str(" 1"),
            Some(false) => s.push_str(" 0"),
            None => s.push_str(" P"),
        }
    }
    match guard(|| format!("{a}")) {
        Some(txt) => {
            s.push_str(" d ");
            s.push_str(&cps(&txt));
        }
        None => s.push_str(" d P"),
    }
    s
}

// From<&[[T; N]; M]> needs the shape at compile time: shapes 0..4 x 0..4
fn from_arr<const M: usize, const N: usize>(v: &[i64]) -> Arr2D<i64> {
    let mut x = [[0i64; N]; M];
    for r in 0..M {
        for c in 0..N {
            x[r][c] = v[r * N + c];
        }
    }
    Arr2D::from(&x)
}
macro_rules! arr_dispatch {
    ($h:expr, $w:expr, $v:expr, $( ($m:literal, $n:literal) ),* ) => {
        match ($h, $w) {
            $( ($m, $n) => from_arr::<$m, $n>($v), )*
            _ => panic!("fa shape"),
        }
    };
}
fn from_array(h: usize, w: usize, v: &[i64]) -> Arr2D<i64> {
    arr_dispatch!(h, w, v, (0, 0), (0, 1), (0, 2), (0, 3), (0, 4), (1, 0), (1, 1), (1, 2), (1, 3), (1, 4), (2, 0), (2, 1), (2, 2), (2, 3), (2, 4), (3, 0), (3, 1), (3, 2), (3, 3), (3, 4), (4, 0), (4, 1), (4, 2), (4, 3), (4, 4))
}

enum Out {
    Ok,
    Err(&'static str),
}

enum Op {
    FromNested(Vec<Vec<i64>>),
    FromNestedRef(Vec<Vec<i64>>),
    FromArray(usize, usize, Vec<i64>),
    FromFlat(Vec<i64>, i64, usize, usize),
    Full(i64, usize, usize),
    Identity(usize),
    Reshape(usize),
    Transpose,
    TransposeMut,
    SwapRows(usize, usize),
    Set1(usize, usize, i64),
    Set2(usize, usize, i64),
    SetRow(usize, Vec<i64>),
    RowsMutMap(i64, i64),
    Map(i64, i64),
    Clone,
    TryFromRef,
}

fn read_op(t: &mut Toks) -> Op {
    let cmd = t.word();
    match cmd {
        "fn" => {
            let k = t.usize();
            Op::FromNested((0..k).map(|_| t.ivec()).collect())
        }
        "fb" => {
            let k = t.usize();
            Op::FromNestedRef((0..k).map(|_| t.ivec()).collect())
        }
        "fa" => {
            let h = t.usize();
            let w = t.usize();
            let v: Vec<i64> = (0..h * w).map(|_| t.i64()).collect();
            Op::FromArray(h, w, v)
        }
        "ff" => {
            let data = t.ivec();
            let d = t.i64();
            let h = t.usize();
            let w = t.usize();
            Op::FromFlat(data, d, h, w)
        }
        "fu" => {
            let v = t.i64();
            let h = t.usize();
            let w = t.usize();
            Op::Full(v, h, w)
        }
        "id" => Op::Identity(t.usize()),
        "rs" => Op::Reshape(t.usize()),
        "tr" => Op::Transpose,
        "tm" => Op::TransposeMut,
        "sw" => {
            let x = t.usize();
            let y = t.usize();
            Op::SwapRows(x, y)
        }
        "s1" => {
            let r = t.usize();
            let c = t.usize();
            let v = t.i64();
            Op::Set1(r, c, v)
        }
        "s2" => {
            let r = t.usize();
            let c = t.usize();
            let v = t.i64();
            Op::Set2(r, c, v)
        }
        "sr" => {
            let r = t.usize();
            let vs = t.ivec();
            Op::SetRow(r, vs)
        }
        "rm" => {
            let p = t.i64();
            let q = t.i64();
            Op::RowsMutMap(p, q)
        }
        "mp" => {
            let p = t.i64();
            let q = t.i64();
            Op::Map(p, q)
        }
        "cl" => Op::Clone,
        "tf" => Op::TryFromRef,
        _ => panic!("badop"),
    }
}

// applies one operation in place; a panic unwinds to the caller's guard
fn apply(a: &mut Arr2D<i64>, op: &Op) -> Out {
    match op {
        Op::FromNested(rows) => match Arr2D::try_from(rows.clone()) {
            Ok(n) => {
                *a = n;
                Out::Ok
            }
            Err(e) => Out::Err(err_name(&e)),
        },
        // the borrowed conversion TryFrom<&Vec<Vec<T>>> has its own body in the crate
        Op::FromNestedRef(rows) => match Arr2D::<i64>::try_from(rows) {
            Ok(n) => {
                *a = n;
                Out::Ok
            }
            Err(e) => Out::Err(err_name(&e)),
        },
        Op::FromArray(h, w, v) => {
            *a = from_array(*h, *w, v);
            Out::Ok
        }
        Op::FromFlat(data, d, h, w) => match Arr2D::from_flat(data.clone(), *d, *h, *w) {
            Ok(n) => {
                *a = n;
                Out::Ok
            }
            Err(e) => Out::Err(err_name(&e)),
        },
        Op::Full(v, h, w) => {
            *a = Arr2D::full(*v, *h, *w);
            Out::Ok
        }
        Op::Identity(n) => {
            *a = Arr2D::<i64>::identity(*n);
            Out::Ok
        }
        Op::Reshape(h) => match a.reshape(*h) {
            Ok(()) => Out::Ok,
            Err(e) => Out::Err(err_name(&e)),
        },
        Op::Transpose => {
            let n = a.transpose();
            *a = n;
            Out::Ok
        }
        Op::TransposeMut => {
            a.transpose_mut();
            Out::Ok
        }
        Op::SwapRows(x, y) => {
            a.swap_rows(*x, *y);
            Out::Ok
        }
        Op::Set1(r, c, v) => {
            a[(*r, *c)] = *v;
            Out::Ok
        }
        Op::Set2(r, c, v) => {
            a[*r][*c] = *v;
            Out::Ok
        }
        Op::SetRow(r, vs) => {
            a[*r].copy_from_slice(vs);
            Out::Ok
        }
        Op::RowsMutMap(p, q) => {
            // both ways to the mutable row iterator: rows_mut() and IntoIterator for &mut Arr2D
            if q % 2 == 0 {
                for (i, row) in a.rows_mut().enumerate() {
                    for (j, x) in row.iter_mut().enumerate() {
                        *x = (*x * p + q + 3 * (i as i64) + (j as i64)) % 100;
                    }
                }
            } else {
                for (i, row) in (&mut *a).into_iter().enumerate() {
                    for (j, x) in row.iter_mut().enumerate() {
                        *x = (*x * p + q + 3 * (i as i64) + (j as i64)) % 100;
                    }
                }
            }
            Out::Ok
        }
        Op::Map(p, q) => {
            let n = a.map(|x| (*x * p + q) % 100);
            *a = n;
            Out::Ok
        }
        Op::Clone => {
            let n = a.clone();
            *a = n;
            Out::Ok
        }
        Op::TryFromRef => match Arr2D::<i64>::try_from(&*a) {
            Ok(n) => {
                *a = n;
                Out::Ok
            }
            Err(e) => Out::Err(err_name(&e)),
        },
    }
}

fn run(line: &str) -> String {
    let mut t = Toks::new(line);
    let h = t.usize();
    let w = t.usize();
    let mut a = Arr2D::full(0i64, h, w);
    for r in 0..h {
        for c in 0..w {
            a[(r, c)] = t.i64();
        }
    }
    let k = t.usize();
    let ops: Vec<Op> = (0..k).map(|_| read_op(&mut t)).collect();
    let mut s = format!("start {}", observe(&a));
    for op in &ops {
        let out = guard(|| apply(&mut a, op));
        let o = match out {
            Some(Out::Ok) => "ok".to_string(),
            Some(Out::Err(e)) => format!("err {e}"),
            None => "panic".to_string(),
        };
        s.push_str(&format!(" ;; {} {}", o, observe(&a)));
    }
    s
}

fn main() {
    main_loop(run);
}
