// C13: power method (dominant eigenpair), called through the exported path.
//   pm  <es> <h> <w> <h*w entries>        rectangular input, passed as Vec<Vec<f64>>
//   pma <es> <h> <w> <h*w entries>        the same numbers, passed as &Arr2D<f64> (h, w >= 1)
//   rag <es> <r> (<len> <entries>)*r      possibly ragged Vec<Vec<f64>>
// answer: ok <lambda> <height> <width> <entries row-major> | err <Kind> | panic
#[path = "../util.rs"]
mod util;
use spindalis::eigen::power_method;
use spindalis::utils::{Arr2D, Arr2DError};
use util::*;

fn show(r: Result<(f64, Arr2D<f64>), Arr2DError>) -> String {
    match r {
        Ok((l, v)) => {
            let mut s = format!("ok {} {} {}", xf(l), v.height, v.width);
            for i in 0..v.height {
                for j in 0..v.width {
                    s.push(' ');
                    s.push_str(&xf(v[(i, j)]));
                }
            }
            s
        }
        Err(e) => {
            let k = match e {
                Arr2DError::NoConvergence => "NoConvergence",
                Arr2DError::InconsistentRowLengths => "InconsistentRowLengths",
                Arr2DError::NonSquareMatrix => "NonSquareMatrix",
                Arr2DError::SingularMatrix => "SingularMatrix",
                Arr2DError::InvalidReshape { .. } => "InvalidReshape",
                Arr2DError::InvalidShape { .. } => "InvalidShape",
                Arr2DError::InvalidDotShape { .. } => "InvalidDotShape",
                Arr2DError::ConversionFailed { .. } => "ConversionFailed",
            };
            format!("err {k}")
        }
    }
}

fn run(line: &str) -> String {
    let mut t = Toks::new(line);
    let cmd = t.word();
    match cmd {
        "pm" => {
            let es = t.f();
            let rows = t.fmat();
            show(power_method(rows, es))
        }
        "pma" => {
            let es = t.f();
            let rows = t.fmat();
            let a: Arr2D<f64> = Arr2D::try_from(rows).expect("rectangular");
            show(power_method(&a, es))
        }
        "rag" => {
            let es = t.f();
            let r = t.usize();
            let rows: Vec<Vec<f64>> = (0..r).map(|_| t.fvec()).collect();
            show(power_method(rows, es))
        }
        _ => format!("badcmd {cmd}"),
    }
}

fn main() {
    main_loop(run);
}
