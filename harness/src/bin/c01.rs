// C01: univariate parser + evaluator.
//   parse <cps>               -> ok <var-cp|-> <n> <coef>* | err <Kind> | panic
//   eval <cps> <k> <x1..xk>   -> ok <value>*               | err <Kind> | panic
//   classes <cps>             -> per code point "<alphabetic><numeric><whitespace>"
// Both entry points are exercised: the free functions and the PolynomialTraits methods
// (SimplePolynomial::parse / eval_univariate); a disagreement between them prints
// "entrypoint-mismatch".
#[path = "../util.rs"]
mod util;
use spindalis_core::polynomials::simple::{eval_simple_polynomial, parse_simple_polynomial};
use spindalis_core::polynomials::structs::{PolynomialTraits, SimplePolynomial};
use spindalis_core::polynomials::PolynomialError;
use util::*;

pub fn err_kind(e: &PolynomialError) -> &'static str {
    match e {
        PolynomialError::InvalidCoefficient { .. } => "InvalidCoefficient",
        PolynomialError::InvalidConstant => "InvalidConstant",
        PolynomialError::InvalidExponent { .. } => "InvalidExponent",
        PolynomialError::InvalidFractionalExponent { .. } => "InvalidFractionalExponent",
        PolynomialError::InvalidFraction { .. } => "InvalidFraction",
        PolynomialError::InvalidNumber { .. } => "InvalidNumber",
        PolynomialError::PolynomialSyntaxError => "PolynomialSyntaxError",
        PolynomialError::MissingVariable => "MissingVariable",
        PolynomialError::TooManyVariables { .. } => "TooManyVariables",
        PolynomialError::TooFewVariables { .. } => "TooFewVariables",
        PolynomialError::UnexpectedChar { .. } => "UnexpectedChar",
        PolynomialError::VariableNotFound { .. } => "VariableNotFound",
        PolynomialError::UnexpectedToken { .. } => "UnexpectedToken",
        PolynomialError::UnexpectedEndOfTokens => "UnexpectedEndOfTokens",
    }
}

pub fn show_simple(p: &SimplePolynomial) -> String {
    let v = match p.variable {
        Some(c) => (c as u32).to_string(),
        None => "-".to_string(),
    };
    format!("ok {} {} {}", v, p.coefficients.len(), xfs(&p.coefficients))
        .trim_end()
        .to_string()
}

fn show_res(r: &Result<SimplePolynomial, PolynomialError>) -> String {
    match r {
        Ok(p) => show_simple(p),
        Err(e) => format!("err {}", err_kind(e)),
    }
}

fn run(line: &str) -> String {
    let mut t = Toks::new(line);
    match t.word() {
        "parse" => {
            let s = t.string();
            let a = show_res(&parse_simple_polynomial(&s));
            let b = show_res(&<SimplePolynomial as PolynomialTraits>::parse(&s));
            if a != b {
                return format!("entrypoint-mismatch [{a}] [{b}]");
            }
            a
        }
        "eval" => {
            let s = t.string();
            let xs = t.fvec();
            match parse_simple_polynomial(&s) {
                Ok(p) => {
                    let mut out = Vec::new();
                    for &x in &xs {
                        let v = eval_simple_polynomial(x, &p);
                        match p.eval_univariate(x) {
                            Ok(w) if xf(w) == xf(v) => {}
                            _ => return "entrypoint-mismatch eval".to_string(),
                        }
                        out.push(v);
                    }
                    format!("ok {}", xfs(&out)).trim_end().to_string()
                }
                Err(e) => format!("err {}", err_kind(&e)),
            }
        }
        "classes" => {
            let s = t.string();
            s.chars()
                .map(|c| {
                    format!(
                        "{}{}{}",
                        c.is_alphabetic() as u8,
                        c.is_numeric() as u8,
                        c.is_whitespace() as u8
                    )
                })
                .collect::<Vec<_>>()
                .join(" ")
        }
        c => format!("badcmd {c}"),
    }
}

fn main() {
    main_loop(run);
}
