// C15: regressors.  Every fit case also exercises predict and the accessors of the returned model.
#[path = "../util.rs"]
mod util;
use spindalis::regressors::linear::gradient_descent::GradientDescentRegression;
use spindalis::regressors::linear::least_squares::LeastSquaresRegression;
use spindalis::regressors::linear::polynomial::PolynomialRegression;
use spindalis::regressors::linear::{LinearModel, LinearRegressor};
use spindalis::solvers::gaussian_elimination;
use util::*;

fn same(a: f64, b: f64) -> bool {
    a.to_bits() == b.to_bits() || (a.is_nan() && b.is_nan())
}

fn show(m: &LinearModel, x0: f64) -> String {
    let c = &m.coefficients;
    // accessors must be views of the coefficient vector
    let mut acc_ok = same(m.intercept(), c[0]);
    match m.slope() {
        Some(s) => acc_ok &= c.len() == 2 && same(s, c[1]),
        None => acc_ok &= c.len() != 2,
    }
    match m.slopes() {
        Some(s) => acc_ok &= c.len() > 2 && s.len() == c.len() - 1 && s.iter().zip(&c[1..]).all(|(a, b)| same(*a, *b)),
        None => acc_ok &= c.len() <= 2,
    }
    if !acc_ok {
        return "accessor-mismatch".to_string();
    }
    format!("ok {} {} {} {} {}", c.len(), xfs(c), xf(m.std_err), xf(m.r2), xf(m.predict(x0)))
}

fn run(line: &str) -> String {
    let mut t = Toks::new(line);
    let cmd = t.word();
    match cmd {
        "ls" => {
            let x0 = t.f();
            let xs = t.fvec();
            let ys = t.fvec();
            show(&LeastSquaresRegression.fit(&xs, &ys), x0)
        }
        "poly" => {
            let order = t.usize();
            let x0 = t.f();
            let xs = t.fvec();
            let ys = t.fvec();
            show(&PolynomialRegression { order }.fit(&xs, &ys), x0)
        }
        "polytol" => {
            // measurement aid: PolynomialRegression::fit with the literal 1e-5 replaced by `tol`
            // (same statements as polynomial.rs, the solver is the crate's gaussian_elimination)
            let tol = t.f();
            let order = t.usize();
            let x0 = t.f();
            let x = t.fvec();
            let y = t.fvec();
            let mut matrix: Vec<Vec<f64>> = vec![vec![0.0; order + 1]; order + 1];
            let mut rhs: Vec<f64> = vec![0.0; order + 1];
            for i in 0..=order {
                for j in 0..=i {
                    let k = i + j;
                    let poly_sum = x.iter().map(|x_i| x_i.powi(k as i32)).sum::<f64>();
                    matrix[i][j] = poly_sum;
                    matrix[j][i] = poly_sum;
                }
                rhs[i] = y.iter().zip(x.iter()).map(|(y_i, x_i)| y_i * x_i.powi(i as i32)).sum::<f64>();
            }
            let coefficients = match gaussian_elimination(&matrix, &rhs, tol) {
                Ok(c) => c,
                Err(_) => return "panic".to_string(),
            };
            let length = y.len() as f64;
            let y_mean = y.iter().sum::<f64>() / length;
            let sq_total: f64 = y.iter().map(|y_i| (y_i - y_mean).powi(2)).sum();
            let sq_residual: f64 = x
                .iter()
                .zip(y.iter())
                .map(|(&x_i, &y_i)| {
                    let y_pred: f64 = coefficients.iter().enumerate().map(|(pow, &coef)| coef * x_i.powi(pow as i32)).sum();
                    (y_i - y_pred).powi(2)
                })
                .sum();
            let std_err = (sq_residual / (length - 2.0)).sqrt();
            let r2 = (sq_total - sq_residual) / sq_total;
            show(&LinearModel { coefficients, std_err, r2 }, x0)
        }
        "gd" => {
            let steps = t.usize();
            let step_size = t.f();
            let x0 = t.f();
            let xs = t.fvec();
            let ys = t.fvec();
            show(&GradientDescentRegression { steps, step_size }.fit(&xs, &ys), x0)
        }
        "predict" => {
            let coefficients = t.fvec();
            let x0 = t.f();
            xf(LinearModel { coefficients, std_err: 0.0, r2: 0.0 }.predict(x0))
        }
        _ => format!("badcmd {cmd}"),
    }
}

fn main() {
    main_loop(run);
}
