// C20: the runtime parsers, on the text of a macro invocation and on the text the compiler
// printed for it (measured by echo!).  The compile-time side is produced by the crates that
// tools/props/c20.py generates; this binary is the "same text, at run time" side.
//   simple k <cps>*k   -> r1 ## .. ## rk ## x     ri = ok <var-cp|-> <n> <coef>* | err <Kind> | panic
//   inter  k <cps>*k   -> r1 ## .. ## rk ## x     ri = ok <nterms> (<coef> <nvars> (<name-cp> <exp>)*)* | <nvars> <name-cp>* | err <Kind>
//      x = what spindalis_macros does with rk (the runtime result of the LAST text, which is the text the
//      macro saw): rk itself, except that a value with a non-finite float is printed as `inf`/`NaN`, which
//      is not a literal: `unresolved`.  (The same third component as the extracted macro model prints; the
//      compiler's real behaviour is measured by tools/props/c20.py and compared with both.)
//   dsimple <cps> / dinter <cps>  -> r ## <the `{:?}` text of every float field, in order>   (assumption R2)
#[path = "../util.rs"]
mod util;
use spindalis_core::polynomials::PolynomialError;
use spindalis_core::polynomials::intermediate::parse_intermediate_polynomial;
use spindalis_core::polynomials::simple::parse_simple_polynomial;
use spindalis_core::polynomials::structs::{IntermediatePolynomial, SimplePolynomial};
use util::*;

pub fn err_kind(e: &PolynomialError) -> &'static str {
    match e {
        PolynomialError::InvalidCoefficient { .. } => "InvalidCoefficient",
        PolynomialError::InvalidConstant => "InvalidConstant",
        PolynomialError::InvalidExponent { .. } => "InvalidExponent",
        PolynomialError::InvalidFractionalExponent { .. } => "InvalidFractionalExponent",
        PolynomialError::InvalidFraction { .. } => "InvalidFraction",
        PolynomialError::InvalidNumber { .. } => "InvalidNumber",
        PolynomialError::PolynomialSyntaxError => "PolynomialSyntaxError",
        PolynomialError::MissingVariable => "MissingVariable",
        PolynomialError::TooManyVariables { .. } => "TooManyVariables",
        PolynomialError::TooFewVariables { .. } => "TooFewVariables",
        PolynomialError::UnexpectedChar { .. } => "UnexpectedChar",
        PolynomialError::VariableNotFound { .. } => "VariableNotFound",
        PolynomialError::UnexpectedToken { .. } => "UnexpectedToken",
        PolynomialError::UnexpectedEndOfTokens => "UnexpectedEndOfTokens",
    }
}

pub fn show_simple(p: &SimplePolynomial) -> String {
    let v = match p.variable {
        Some(c) => (c as u32).to_string(),
        None => "-".to_string(),
    };
    format!("ok {} {} {}", v, p.coefficients.len(), xfs(&p.coefficients))
        .trim_end()
        .to_string()
}

pub fn show_inter(p: &IntermediatePolynomial) -> String {
    let mut s = format!("ok {}", p.terms.len());
    for t in &p.terms {
        s.push_str(&format!(" {} {}", xf(t.coefficient), t.variables.len()));
        for (n, e) in &t.variables {
            s.push_str(&format!(" {} {}", cps(n), xf(*e)));
        }
    }
    s.push_str(&format!(" | {}", p.variables.len()));
    for n in &p.variables {
        s.push_str(&format!(" {}", cps(n)));
    }
    s
}

fn simple(s: &str) -> String {
    match parse_simple_polynomial(s) {
        Ok(p) => show_simple(&p),
        Err(e) => format!("err {}", err_kind(&e)),
    }
}

fn inter(s: &str) -> String {
    match parse_intermediate_polynomial(s) {
        Ok(p) => show_inter(&p),
        Err(e) => format!("err {}", err_kind(&e)),
    }
}

// 7ff/fff exponent field in any 16-digit float token, or the token `nan`
fn expansion_of(r: &str) -> String {
    let nonfinite = r.split(' ').any(|t| {
        t == "nan" || (t.len() == 16 && (t.starts_with("7ff") || t.starts_with("fff")) && t.chars().all(|c| c.is_ascii_hexdigit()))
    });
    if r.starts_with("ok") && nonfinite { "unresolved".to_string() } else { r.to_string() }
}

fn dbg_list(v: &[f64]) -> String {
    v.iter().map(|c| format!("{c:?}")).collect::<Vec<_>>().join(" ")
}

fn run(line: &str) -> String {
    let mut t = Toks::new(line);
    match t.word() {
        "simple" => {
            let k = t.usize();
            let mut v: Vec<String> = (0..k)
                .map(|_| {
                    let s = t.string();
                    guarded(|| simple(&s))
                })
                .collect();
            v.push(expansion_of(v.last().expect("k >= 1")));
            v.join(" ## ")
        }
        "inter" => {
            let k = t.usize();
            let mut v: Vec<String> = (0..k)
                .map(|_| {
                    let s = t.string();
                    guarded(|| inter(&s))
                })
                .collect();
            v.push(expansion_of(v.last().expect("k >= 1")));
            v.join(" ## ")
        }
        "dsimple" => {
            let s = t.string();
            match parse_simple_polynomial(&s) {
                Ok(p) => format!("{} ## {}", show_simple(&p), dbg_list(&p.coefficients)),
                Err(e) => format!("err {} ## ", err_kind(&e)),
            }
        }
        "dinter" => {
            let s = t.string();
            match parse_intermediate_polynomial(&s) {
                Ok(p) => {
                    let mut fl = Vec::new();
                    for term in &p.terms {
                        fl.push(term.coefficient);
                        for (_, e) in &term.variables {
                            fl.push(*e);
                        }
                    }
                    format!("{} ## {}", show_inter(&p), dbg_list(&fl))
                }
                Err(e) => format!("err {} ## ", err_kind(&e)),
            }
        }
        c => format!("badcmd {c}"),
    }
}

fn main() {
    main_loop(run);
}
