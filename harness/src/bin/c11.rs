// C11: products of Arr2D (dot, the four `*` forms, scalar mul/div, transpose)
#[path = "../util.rs"]
mod util;
use spindalis::utils::{Arr2D, Arr2DError};
use util::*;

fn err_name(e: &Arr2DError) -> &'static str {
    match e {
        Arr2DError::NoConvergence => "NoConvergence",
        Arr2DError::InconsistentRowLengths => "InconsistentRowLengths",
        Arr2DError::NonSquareMatrix => "NonSquareMatrix",
        Arr2DError::SingularMatrix => "SingularMatrix",
        Arr2DError::InvalidReshape { .. } => "InvalidReshape",
        Arr2DError::InvalidShape { .. } => "InvalidShape",
        Arr2DError::InvalidDotShape { .. } => "InvalidDotShape",
        Arr2DError::ConversionFailed { .. } => "ConversionFailed",
    }
}

// h w then h*w entries; `full` accepts empty shapes (from_flat rejects size 0)
fn arr_i(t: &mut Toks) -> Arr2D<i64> {
    let h = t.usize();
    let w = t.usize();
    let mut a = Arr2D::full(0i64, h, w);
    for r in 0..h {
        for c in 0..w {
            a[(r, c)] = t.i64();
        }
    }
    a
}
fn arr_f(t: &mut Toks) -> Arr2D<f64> {
    let h = t.usize();
    let w = t.usize();
    let mut a = Arr2D::full(0.0f64, h, w);
    for r in 0..h {
        for c in 0..w {
            a[(r, c)] = t.f();
        }
    }
    a
}

fn show<T: Copy>(c: &Arr2D<T>, pr: fn(T) -> String) -> String {
    let (h, w) = c.shape();
    let mut s = format!("ok {} {} {}", h, w, c.size());
    for r in 0..h {
        for k in 0..w {
            s.push(' ');
            s.push_str(&pr(c[(r, k)]));
        }
    }
    s
}
fn show_res<T: Copy>(r: Result<Arr2D<T>, Arr2DError>, pr: fn(T) -> String) -> String {
    match r {
        Ok(c) => show(&c, pr),
        Err(e) => format!("err {}", err_name(&e)),
    }
}
fn pi(v: i64) -> String {
    v.to_string()
}

fn run(line: &str) -> String {
    let mut t = Toks::new(line);
    let ty = t.word();
    let cmd = t.word();
    match ty {
        "z" => {
            let a = arr_i(&mut t);
            match cmd {
                "tr" => show(&a.transpose(), pi),
                "smul" => {
                    let k = t.i64();
                    show(&(&a * k), pi)
                }
                "smul_o" => {
                    let k = t.i64();
                    show(&(a * k), pi)
                }
                "sdiv" => {
                    let k = t.i64();
                    show(&(&a / k), pi)
                }
                "sdiv_o" => {
                    let k = t.i64();
                    show(&(a / k), pi)
                }
                _ => {
                    let b = arr_i(&mut t);
                    match cmd {
                        "dot" => show_res(a.dot(&b), pi),
                        "mul_rr" => show(&(&a * &b), pi),
                        "mul_oo" => show(&(a * b), pi),
                        "mul_or" => show(&(a * &b), pi),
                        "mul_ro" => show(&(&a * b), pi),
                        _ => format!("badcmd {cmd}"),
                    }
                }
            }
        }
        "f" => {
            let a = arr_f(&mut t);
            match cmd {
                "tr" => show(&a.transpose(), xf),
                "smul" => {
                    let k = t.f();
                    show(&(&a * k), xf)
                }
                "smul_o" => {
                    let k = t.f();
                    show(&(a * k), xf)
                }
                "sdiv" => {
                    let k = t.f();
                    show(&(&a / k), xf)
                }
                "sdiv_o" => {
                    let k = t.f();
                    show(&(a / k), xf)
                }
                _ => {
                    let b = arr_f(&mut t);
                    match cmd {
                        "dot" => show_res(a.dot(&b), xf),
                        "mul_rr" => show(&(&a * &b), xf),
                        "mul_oo" => show(&(a * b), xf),
                        "mul_or" => show(&(a * &b), xf),
                        "mul_ro" => show(&(&a * b), xf),
                        _ => format!("badcmd {cmd}"),
                    }
                }
            }
        }
        _ => format!("badcmd {ty}"),
    }
}

fn main() {
    main_loop(run);
}
