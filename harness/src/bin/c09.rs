// C09: LU and PLU factorisation.
// case lines:  lu h w e..   plu h w e..   lurag k len v.. len v..   plurag k len v.. ..
// Every accepted container type that can represent the input is run; their
// results must be identical text, otherwise the line is `container-mismatch ...`.
#[path = "../util.rs"]
mod util;
use spindalis::decomposition::{lu_decomposition, lu_pivot_decomposition};
use spindalis::solvers::SolverError;
use spindalis::utils::Arr2D;
use util::*;

fn ename(e: &SolverError) -> &'static str {
    match e {
        SolverError::MaxIterationsReached => "MaxIterationsReached",
        SolverError::NoConvergence => "NoConvergence",
        SolverError::XInitOutOfBounds => "XInitOutOfBounds",
        SolverError::NonSquareMatrix => "NonSquareMatrix",
        SolverError::SingularMatrix => "SingularMatrix",
        SolverError::InvalidVector(_) => "InvalidVector",
        SolverError::FunctionError(_) => "FunctionError",
        SolverError::NumArgumentsMismatch { .. } => "NumArgumentsMismatch",
    }
}

fn mat_hex(m: &Arr2D<f64>, out: &mut Vec<String>) {
    for i in 0..m.height {
        for j in 0..m.width {
            out.push(xf(m[i][j]));
        }
    }
}

fn show(ms: &[&Arr2D<f64>]) -> String {
    let n = ms[0].height;
    for m in ms {
        if m.height != n || m.width != n {
            return format!("badshape {}x{}", m.height, m.width);
        }
    }
    let mut out = vec![format!("ok {n}")];
    for m in ms {
        mat_hex(m, &mut out);
    }
    out.join(" ")
}

fn out_lu(r: Result<(Arr2D<f64>, Arr2D<f64>), SolverError>) -> String {
    match r {
        Ok((l, u)) => show(&[&l, &u]),
        Err(e) => format!("err {}", ename(&e)),
    }
}
fn out_plu(r: Result<(Arr2D<f64>, Arr2D<f64>, Arr2D<f64>), SolverError>) -> String {
    match r {
        Ok((l, u, p)) => show(&[&l, &u, &p]),
        Err(e) => format!("err {}", ename(&e)),
    }
}

fn as_i32(rows: &[Vec<f64>]) -> Option<Vec<Vec<i32>>> {
    let mut out = Vec::new();
    for r in rows {
        let mut o = Vec::new();
        for &x in r {
            if x.fract() != 0.0 || x.abs() > 2147483647.0 || (x == 0.0 && x.is_sign_negative()) {
                return None;
            }
            o.push(x as i32);
        }
        out.push(o);
    }
    Some(out)
}

fn agree(results: Vec<(&'static str, String)>) -> String {
    let first = results[0].1.clone();
    for (name, r) in &results {
        if *r != first {
            return format!("container-mismatch {}: {} | {}: {}", results[0].0, first, name, r);
        }
    }
    first
}

fn guarded_s<F: FnOnce() -> String>(f: F) -> String {
    guarded(f)
}

fn run(line: &str) -> String {
    let mut t = Toks::new(line);
    let cmd = t.word();
    let pivot = cmd == "plu" || cmd == "plurag";
    match cmd {
        "lu" | "plu" => {
            let h = t.usize();
            let w = t.usize();
            let rows: Vec<Vec<f64>> = (0..h).map(|_| (0..w).map(|_| t.f()).collect()).collect();
            let mut arr: Arr2D<f64> = Arr2D::full(0.0, h, w);
            for i in 0..h {
                for j in 0..w {
                    arr[i][j] = rows[i][j];
                }
            }
            let mut res: Vec<(&'static str, String)> = Vec::new();
            res.push(("&Arr2D<f64>", guarded_s(|| if pivot { out_plu(lu_pivot_decomposition(&arr)) } else { out_lu(lu_decomposition(&arr)) })));
            if h > 0 || w == 0 {
                let v = rows.clone();
                res.push(("Vec<Vec<f64>>", guarded_s(|| if pivot { out_plu(lu_pivot_decomposition(v)) } else { out_lu(lu_decomposition(v)) })));
                res.push(("&Vec<Vec<f64>>", guarded_s(|| if pivot { out_plu(lu_pivot_decomposition(&rows)) } else { out_lu(lu_decomposition(&rows)) })));
            }
            if let Some(iv) = as_i32(&rows) {
                let mut ia: Arr2D<i32> = Arr2D::full(0, h, w);
                for i in 0..h {
                    for j in 0..w {
                        ia[i][j] = iv[i][j];
                    }
                }
                res.push(("&Arr2D<i32>", guarded_s(|| if pivot { out_plu(lu_pivot_decomposition(&ia)) } else { out_lu(lu_decomposition(&ia)) })));
                if h > 0 || w == 0 {
                    res.push(("&Vec<Vec<i32>>", guarded_s(|| if pivot { out_plu(lu_pivot_decomposition(&iv)) } else { out_lu(lu_decomposition(&iv)) })));
                }
            }
            agree(res)
        }
        "lurag" | "plurag" => {
            let k = t.usize();
            let rows: Vec<Vec<f64>> = (0..k).map(|_| t.fvec()).collect();
            let mut res: Vec<(&'static str, String)> = Vec::new();
            let v = rows.clone();
            res.push(("Vec<Vec<f64>>", guarded_s(|| if pivot { out_plu(lu_pivot_decomposition(v)) } else { out_lu(lu_decomposition(v)) })));
            res.push(("&Vec<Vec<f64>>", guarded_s(|| if pivot { out_plu(lu_pivot_decomposition(&rows)) } else { out_lu(lu_decomposition(&rows)) })));
            if let Some(iv) = as_i32(&rows) {
                res.push(("&Vec<Vec<i32>>", guarded_s(|| if pivot { out_plu(lu_pivot_decomposition(&iv)) } else { out_lu(lu_decomposition(&iv)) })));
            }
            agree(res)
        }
        _ => format!("badcmd {cmd}"),
    }
}

fn main() {
    main_loop(run);
}
