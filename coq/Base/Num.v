(* Base/Num.v — one arithmetic interface, three instances.
   The model functions are written once against [Num T]; theorems are proved
   for T := R (exact arithmetic), the correspondence check executes T := float
   (Coq's primitive IEEE-754 binary64 = Rust's f64 for + - * / sqrt abs and
   comparisons), and T := Z serves the integer-matrix properties. *)
From Coq Require Import ZArith List Bool Reals Floats Lia.
From Coq Require Uint63.
Import ListNotations.

Class Num (T : Type) := {
  n0 : T; n1 : T;
  nadd : T -> T -> T; nsub : T -> T -> T; nmul : T -> T -> T; ndiv : T -> T -> T;
  nneg : T -> T; nabs : T -> T; nsqrt : T -> T;
  nltb : T -> T -> bool; nleb : T -> T -> bool; neqb : T -> T -> bool;
  nofZ : Z -> T;                 (* `as f64` of an integer *)
  nofdec : Z -> Z -> T;          (* m * 10^e, correctly rounded: decimal literals *)
  nsum0 : T;                     (* seed of Rust's Iterator::sum (-0.0 for f64) *)
  npowf : T -> T -> T;           (* f64::powf (libm); see the instances *)
  nexp : T -> T; nln : T -> T;   (* f64::exp / f64::ln (libm): exact in R, not modelled for floats *)
}.

Declare Scope num_scope.
Delimit Scope num_scope with num.
Infix "+" := nadd : num_scope.
Infix "-" := nsub : num_scope.
Infix "*" := nmul : num_scope.
Infix "/" := ndiv : num_scope.
Notation "- x" := (nneg x) : num_scope.

(* ---- derived, instance-independent operations --------------------------- *)
Section Derived.
  Context {T : Type} {NT : Num T}.

  Definition ngtb (x y : T) : bool := nltb y x.
  Definition ngeb (x y : T) : bool := nleb y x.
  Definition nneb (x y : T) : bool := negb (neqb x y).   (* Rust `!=` : true on NaN *)

  (* compiler-rt __powidf2: r = 1; loop { if b&1 {r*=a}; b/=2; if b==0 break; a*=a };
     measured bit-identical to f64::powi on this toolchain (debug and release). *)
  Fixpoint powi_pos (a r : T) (p : positive) : T :=
    match p with
    | xH => nmul r a
    | xO p' => powi_pos (nmul a a) r p'
    | xI p' => powi_pos (nmul a a) (nmul r a) p'
    end.
  Definition npowi (a : T) (b : Z) : T :=
    match b with
    | Z0 => n1
    | Zpos p => powi_pos a n1 p
    | Zneg p => ndiv n1 (powi_pos a n1 p)
    end.

  Definition nofnat (n : nat) : T := nofZ (Z.of_nat n).
  Definition ntwo : T := nofZ 2.
End Derived.

(* ---- R ------------------------------------------------------------------- *)
Definition Rltb (x y : R) : bool := if Rlt_dec x y then true else false.
Definition Rleb (x y : R) : bool := if Rle_dec x y then true else false.
Definition Reqb (x y : R) : bool := if Req_EM_T x y then true else false.

(* x^p on the natural domain of the multivariate evaluator: an integral
   exponent is a (possibly negative) integer power; otherwise x must be
   positive (Rpower) or x = 0 < p (value 0). *)
Definition Rpowf (x p : R) : R :=
  if Req_EM_T p (IZR (Int_part p)) then powerRZ x (Int_part p)
  else if Rlt_dec 0 x then Rpower x p
  else 0%R.

#[export] Instance RNum : Num R := {
  n0 := 0%R; n1 := 1%R;
  nadd := Rplus; nsub := Rminus; nmul := Rmult; ndiv := Rdiv;
  nneg := Ropp; nabs := Rabs; nsqrt := R_sqrt.sqrt;
  nltb := Rltb; nleb := Rleb; neqb := Reqb;
  nofZ := IZR;
  nofdec := fun m e => (IZR m * powerRZ 10 e)%R;
  nsum0 := 0%R;
  npowf := Rpowf;
  nexp := exp; nln := ln;
}.

(* ---- float --------------------------------------------------------------- *)
Definition prec53 := 53%Z.
Definition emax1024 := 1024%Z.

Definition Z2float (m : Z) : float :=
  SF2Prim (binary_normalize prec53 emax1024 m 0 false).

(* correctly rounded  m * 10^e  (m >= 0 expected; sign handled by callers) *)
Definition dec2float (m e : Z) : float :=
  match m with
  | Z0 => PrimFloat.zero
  | Zneg _ => PrimFloat.nan
  | Zpos _ =>
    if (0 <=? e)%Z then
      SF2Prim (binary_normalize prec53 emax1024 (m * 10 ^ e) 0 false)
    else
      let d := (10 ^ (- e))%Z in
      let k := Z.max 0 (64 + Z.log2 d + 1 - Z.log2 m)%Z in
      let num := (m * 2 ^ k)%Z in
      let q := (num / d)%Z in
      let r := (num mod d)%Z in
      let mm := (2 * q + (if (r =? 0)%Z then 0 else 1))%Z in
      SF2Prim (binary_normalize prec53 emax1024 mm (- k - 1) false)
  end.

(* libm pow is not reproducible inside Coq.  The float instance covers only
   integral exponents |p| < 2^31 (square-and-multiply, compared with the
   implementation under an ulp envelope, never bit-for-bit) and answers NaN
   otherwise; fractional exponents are judged by the high-precision oracle. *)
Definition float_int_part (p : float) : option Z :=
  match Prim2SF p with
  | S754_zero _ => Some 0%Z
  | S754_finite s m e =>
      if (0 <=? e)%Z then
        (if (e <=? 31)%Z then Some ((if s then -1 else 1) * (Zpos m * 2 ^ e))%Z else None)
      else
        let d := (2 ^ (- e))%Z in
        if ((Zpos m) mod d =? 0)%Z then Some ((if s then -1 else 1) * (Zpos m / d))%Z else None
  | _ => None
  end.
Definition float_powi_pos := @powi_pos float
  {| n0 := PrimFloat.zero; n1 := PrimFloat.one;
     nadd := PrimFloat.add; nsub := PrimFloat.sub; nmul := PrimFloat.mul; ndiv := PrimFloat.div;
     nneg := PrimFloat.opp; nabs := PrimFloat.abs; nsqrt := PrimFloat.sqrt;
     nltb := PrimFloat.ltb; nleb := PrimFloat.leb; neqb := PrimFloat.eqb;
     nofZ := fun _ => PrimFloat.zero; nofdec := fun _ _ => PrimFloat.zero;
     nsum0 := PrimFloat.zero; npowf := fun x _ => x; nexp := fun x => x; nln := fun x => x |}.
Definition float_powf (x p : float) : float :=
  match float_int_part p with
  | Some Z0 => PrimFloat.one
  | Some (Zpos q) => if (Zpos q <? 2 ^ 31)%Z then float_powi_pos x PrimFloat.one q else PrimFloat.nan
  | Some (Zneg q) => if (Zpos q <? 2 ^ 31)%Z then PrimFloat.div PrimFloat.one (float_powi_pos x PrimFloat.one q)
                     else PrimFloat.nan
  | None => PrimFloat.nan
  end.

#[export] Instance FNum : Num float := {
  n0 := PrimFloat.zero; n1 := PrimFloat.one;
  nadd := PrimFloat.add; nsub := PrimFloat.sub; nmul := PrimFloat.mul; ndiv := PrimFloat.div;
  nneg := PrimFloat.opp; nabs := PrimFloat.abs; nsqrt := PrimFloat.sqrt;
  nltb := PrimFloat.ltb; nleb := PrimFloat.leb; neqb := PrimFloat.eqb;
  nofZ := fun z => match z with
                   | Zneg p => PrimFloat.opp (Z2float (Zpos p))
                   | _ => Z2float z end;
  nofdec := dec2float;
  nsum0 := PrimFloat.neg_zero;
  npowf := float_powf;
  nexp := fun _ => PrimFloat.nan; nln := fun _ => PrimFloat.nan;   (* libm: judged by the oracle only *)
}.

(* ---- Z (integer matrices; Rust i64 with entries kept far from overflow) --- *)
#[export] Instance ZNum : Num Z := {
  n0 := 0%Z; n1 := 1%Z;
  nadd := Z.add; nsub := Z.sub; nmul := Z.mul; ndiv := Z.quot;
  nneg := Z.opp; nabs := Z.abs; nsqrt := Z.sqrt;
  nltb := Z.ltb; nleb := Z.leb; neqb := Z.eqb;
  nofZ := fun z => z;
  nofdec := fun m e => (m * 10 ^ e)%Z;
  nsum0 := 0%Z;
  npowf := fun x p => (x ^ p)%Z;
  nexp := fun x => x; nln := fun x => x;                           (* unused on Z *)
}.

(* ---- basic facts about the R instance ------------------------------------ *)
Lemma Rltb_true x y : Rltb x y = true <-> (x < y)%R.
Proof. unfold Rltb; destruct (Rlt_dec x y); split; intros; try easy. Qed.
Lemma Rltb_false x y : Rltb x y = false <-> (y <= x)%R.
Proof. unfold Rltb; destruct (Rlt_dec x y); split; intros; try easy.
  - exfalso; apply (Rlt_irrefl x); eapply Rlt_le_trans; eauto.
  - apply Rnot_lt_le; assumption. Qed.
Lemma Rleb_true x y : Rleb x y = true <-> (x <= y)%R.
Proof. unfold Rleb; destruct (Rle_dec x y); split; intros; try easy. Qed.
Lemma Rleb_false x y : Rleb x y = false <-> (y < x)%R.
Proof. unfold Rleb; destruct (Rle_dec x y); split; intros; try easy.
  - exfalso; apply (Rlt_irrefl x); eapply Rle_lt_trans; eauto.
  - apply Rnot_le_lt; assumption. Qed.
Lemma Reqb_true x y : Reqb x y = true <-> x = y.
Proof. unfold Reqb; destruct (Req_EM_T x y); split; intros; try easy. Qed.
Lemma Reqb_false x y : Reqb x y = false <-> x <> y.
Proof. unfold Reqb; destruct (Req_EM_T x y); split; intros; try easy. Qed.

Lemma powi_pos_R (a r : R) p : powi_pos a r p = (r * a ^ Pos.to_nat p)%R.
Proof.
  revert a r; induction p as [p IH|p IH|]; intros a r; cbn [powi_pos nmul RNum].
  - rewrite IH, Pos2Nat.inj_xI.
    replace (S (2 * Pos.to_nat p)) with (1 + Pos.to_nat p + Pos.to_nat p)%nat by lia.
    rewrite !pow_add, Rpow_mult_distr. cbn [pow]. ring.
  - rewrite IH, Pos2Nat.inj_xO.
    replace (2 * Pos.to_nat p)%nat with (Pos.to_nat p + Pos.to_nat p)%nat by lia.
    rewrite pow_add, Rpow_mult_distr. ring.
  - rewrite Pos2Nat.inj_1. cbn [pow]. ring.
Qed.

Lemma npowi_R_nat (a : R) (n : nat) : npowi a (Z.of_nat n) = (a ^ n)%R.
Proof.
  destruct n as [|n]; [reflexivity|].
  cbn [Z.of_nat npowi]. rewrite powi_pos_R, SuccNat2Pos.id_succ. cbn [n1 RNum]. ring.
Qed.
