(* Base/XEnc.v — canonical integer encodings of model results, used only by the
   extraction cross-check (tools/lib.py extraction_crosscheck): a sample of the
   cases of a run is evaluated INSIDE Coq with vm_compute, encoded as a list Z
   with the functions below, and compared with the same encoding computed (by
   tools/xenc.py) from the text the extracted executable printed.
   Definitions only; nothing here is extracted or used by a theorem. *)
From Coq Require Import ZArith Floats List.
Import ListNotations.
From SV Require Import Base.Outcome Base.FloatBits.
Local Open Scope Z_scope.

(* stable numbering of the error kinds (tools/xenc.py ERR_CODE has the same table) *)
Definition err_code (e : err) : Z :=
  match e with
  | EInvalidCoefficient => 0 | EInvalidConstant => 1 | EInvalidExponent => 2
  | EInvalidFractionalExponent => 3 | EInvalidFraction => 4 | EInvalidNumber => 5
  | EPolynomialSyntaxError => 6 | EMissingVariable => 7 | ETooManyVariables => 8
  | ETooFewVariables => 9 | EUnexpectedChar => 10 | EVariableNotFound => 11
  | EUnexpectedToken => 12 | EUnexpectedEndOfTokens => 13 | EMaxIterationsReached => 14
  | ENoConvergence => 15 | EXInitOutOfBounds => 16 | ENonSquareMatrix => 17
  | ESingularMatrix => 18 | EInvalidVector => 19 | ENumArgumentsMismatch => 20
  | EInconsistentRowLengths => 21 | EInvalidReshape => 22 | EInvalidShape => 23
  | EInvalidDotShape => 24 | EConversionFailed => 25
  end.

Definition why_code (w : why) : Z :=
  match w with
  | WIndex => 0 | WOverflow => 1 | WUnwrap => 2 | WDivZero => 3 | WAlloc => 4
  | WSliceRange => 5 | WFuel => 6
  end.

(* [0; payload...] for Ok, [1; errcode] for Err, [2] for Panic (the reason is not printed by the drivers) *)
Definition enc_res {A} (f : A -> list Z) (r : res A) : list Z :=
  match r with
  | Ok a => 0 :: f a
  | Err e => [1; err_code e]
  | Panic _ => [2]
  end.

(* same, but the panic reason is kept: [2; whycode] *)
Definition enc_res_why {A} (f : A -> list Z) (r : res A) : list Z :=
  match r with
  | Ok a => 0 :: f a
  | Err e => [1; err_code e]
  | Panic w => [2; why_code w]
  end.

(* length-prefixed lists *)
Definition enc_list {A} (f : A -> list Z) (l : list A) : list Z :=
  Z.of_nat (length l) :: flat_map f l.

Definition enc_opt {A} (f : A -> list Z) (o : option A) : list Z :=
  match o with Some a => 1 :: f a | None => [0] end.

Definition enc_float (x : float) : list Z := [float_bits x].
Definition enc_floats (l : list float) : list Z := enc_list enc_float l.
Definition enc_fmat (m : list (list float)) : list Z := enc_list enc_floats m.
Definition enc_Z (z : Z) : list Z := [z].
Definition enc_Zs (l : list Z) : list Z := enc_list enc_Z l.
Definition enc_Zmat (m : list (list Z)) : list Z := enc_list enc_Zs m.
Definition enc_nat (n : nat) : list Z := [Z.of_nat n].
Definition enc_nats (l : list nat) : list Z := enc_list enc_nat l.
Definition enc_N (n : N) : list Z := [Z.of_N n].
Definition enc_str (s : list N) : list Z := enc_list enc_N s.      (* strings as code points *)
Definition enc_bool (b : bool) : list Z := [if b then 1 else 0].
Definition enc_unit (u : unit) : list Z := [].
Definition enc_pair {A B} (f : A -> list Z) (g : B -> list Z) (p : A * B) : list Z :=
  f (fst p) ++ g (snd p).
