(* Base/Outcome.v — three-valued outcomes: Rust's Ok / Err plus an explicit
   Panic, so that "never panics" is a statement about the model and not an
   artefact of Gallina's totality. *)
From Coq Require Import List.
Import ListNotations.

(* error kinds of the crate's error enums (payloads dropped) *)
Inductive err :=
| EInvalidCoefficient | EInvalidConstant | EInvalidExponent | EInvalidFractionalExponent
| EInvalidFraction | EInvalidNumber | EPolynomialSyntaxError | EMissingVariable
| ETooManyVariables | ETooFewVariables | EUnexpectedChar | EVariableNotFound
| EUnexpectedToken | EUnexpectedEndOfTokens
| EMaxIterationsReached | ENoConvergence | EXInitOutOfBounds | ENonSquareMatrix
| ESingularMatrix | EInvalidVector | ENumArgumentsMismatch
| EInconsistentRowLengths | EInvalidReshape | EInvalidShape | EInvalidDotShape
| EConversionFailed.

Inductive why := WIndex | WOverflow | WUnwrap | WDivZero | WAlloc | WSliceRange | WFuel.

Inductive res (A : Type) :=
| Ok (a : A)
| Err (e : err)
| Panic (w : why).
Arguments Ok {A} a.
Arguments Err {A} e.
Arguments Panic {A} w.

Definition bind {A B} (r : res A) (f : A -> res B) : res B :=
  match r with Ok a => f a | Err e => Err e | Panic w => Panic w end.

Declare Scope res_scope.
Delimit Scope res_scope with res.
Notation "'let*' x ':=' r 'in' k" := (bind r (fun x => k))
  (at level 200, x pattern, r at level 100, k at level 200, right associativity) : res_scope.

Definition is_ok {A} (r : res A) : bool := match r with Ok _ => true | _ => false end.
Definition is_panic {A} (r : res A) : bool := match r with Panic _ => true | _ => false end.
Definition no_panic {A} (r : res A) : Prop := forall w, r <> Panic w.

Definition res_map {A B} (f : A -> B) (r : res A) : res B :=
  match r with Ok a => Ok (f a) | Err e => Err e | Panic w => Panic w end.

(* map with early exit over a list *)
Fixpoint mapM {A B} (f : A -> res B) (l : list A) : res (list B) :=
  match l with
  | [] => Ok []
  | x :: xs => bind (f x) (fun y => bind (mapM f xs) (fun ys => Ok (y :: ys)))
  end.

Lemma bind_ok {A B} (r : res A) (f : A -> res B) b :
  bind r f = Ok b -> exists a, r = Ok a /\ f a = Ok b.
Proof. destruct r; simpl; intros H; try discriminate; eauto. Qed.

Lemma bind_no_panic {A B} (r : res A) (f : A -> res B) :
  no_panic r -> (forall a, r = Ok a -> no_panic (f a)) -> no_panic (bind r f).
Proof.
  intros Hr Hf w. destruct r as [a|e|w']; simpl.
  - apply Hf; reflexivity.
  - discriminate.
  - intros _. apply (Hr w'). reflexivity.
Qed.
