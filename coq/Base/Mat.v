(* Base/Mat.v — functional matrices and vectors for the numeric kernels
   (Gaussian elimination, LU/PLU, inverse, Hessenberg, power method,
   regression).  A matrix is a total function on indices; its dimension is
   carried separately.  In-place Rust loops become folds over index ranges that
   perform the same updates in the same order, which is what bit-for-bit
   agreement of the float instance needs.  All statements about matrices are
   pointwise (forall i j, i < n -> ...), so no functional extensionality is
   needed for them. *)
From Coq Require Import ZArith List Bool Arith Lia.
From SV Require Import Base.Num.
Import ListNotations.

Section Mat.
  Context {T : Type} {NT : Num T}.

  Definition mat := nat -> nat -> T.
  Definition vec := nat -> T.

  Definition mset (m : mat) (r c : nat) (v : T) : mat :=
    fun i j => if (i =? r) && (j =? c) then v else m i j.
  Definition vset (x : vec) (r : nat) (v : T) : vec :=
    fun i => if i =? r then v else x i.
  Definition mswap_rows (m : mat) (a b : nat) : mat :=
    fun i j => if i =? a then m b j else if i =? b then m a j else m i j.
  Definition vswap (x : vec) (a b : nat) : vec :=
    fun i => if i =? a then x b else if i =? b then x a else x i.
  Definition mconst (v : T) : mat := fun _ _ => v.
  Definition vconst (v : T) : vec := fun _ => v.
  Definition midentity : mat := fun i j => if i =? j then n1 else n0.
  Definition mtranspose (m : mat) : mat := fun i j => m j i.

  (* for i in lo..lo+len { acc = body i acc } *)
  Fixpoint for_range {A : Type} (lo len : nat) (body : nat -> A -> A) (acc : A) : A :=
    match len with
    | O => acc
    | S len' => for_range (S lo) len' body (body lo acc)
    end.
  (* for i in (lo..lo+len).rev() *)
  Fixpoint for_range_rev {A : Type} (lo len : nat) (body : nat -> A -> A) (acc : A) : A :=
    match len with
    | O => acc
    | S len' => for_range_rev lo len' body (body (lo + len') acc)
    end.

  (* let mut s = init; for k in lo..lo+len { s += f k }  — left-to-right accumulation *)
  Definition sum_range (init : T) (lo len : nat) (f : nat -> T) : T :=
    for_range lo len (fun k s => nadd s (f k)) init.

  (* conversions at the harness boundary; [nth] defaults never matter below the dimension *)
  Definition mat_of_lists (l : list (list T)) : mat := fun i j => nth j (nth i l []) n0.
  Definition vec_of_list (l : list T) : vec := fun i => nth i l n0.
  Definition list_of_vec (n : nat) (x : vec) : list T := map x (seq 0 n).
  Definition lists_of_mat (h w : nat) (m : mat) : list (list T) :=
    map (fun i => map (fun j => m i j) (seq 0 w)) (seq 0 h).

  (* re-tabulation: pointwise the identity below the dimension; collapses the
     closure chain built by repeated mset so evaluation stays cheap *)
  Definition retab (h w : nat) (m : mat) : mat := let l := lists_of_mat h w m in mat_of_lists l.
  Definition vretab (n : nat) (x : vec) : vec := let l := list_of_vec n x in vec_of_list l.

  (* matrix product entry, accumulated left to right from [init] *)
  Definition mmul_entry (init : T) (k : nat) (a b : mat) (i j : nat) : T :=
    sum_range init 0 k (fun t => nmul (a i t) (b t j)).
End Mat.

Arguments mat T : clear implicits.
Arguments vec T : clear implicits.

(* ---------------- generic lemmas (any instance) ---------------------------- *)
Section MatLemmas.
  Context {T : Type} {NT : Num T}.

  Lemma mset_same (m : mat T) r c v : mset m r c v r c = v.
  Proof. unfold mset. now rewrite !Nat.eqb_refl. Qed.
  Lemma mset_other (m : mat T) r c v i j : (i <> r \/ j <> c) -> mset m r c v i j = m i j.
  Proof.
    unfold mset. intros [H|H].
    - apply Nat.eqb_neq in H. now rewrite H.
    - apply Nat.eqb_neq in H. rewrite H. now rewrite andb_false_r.
  Qed.
  Lemma vset_same (x : vec T) r v : vset x r v r = v.
  Proof. unfold vset. now rewrite Nat.eqb_refl. Qed.
  Lemma vset_other (x : vec T) r v i : i <> r -> vset x r v i = x i.
  Proof. unfold vset. intros H. apply Nat.eqb_neq in H. now rewrite H. Qed.

  Lemma nth_seq_map {A} (f : nat -> A) n i d : i < n -> nth i (map f (seq 0 n)) d = f i.
  Proof.
    intros H. rewrite (nth_indep _ d (f 0)) by (rewrite map_length, seq_length; exact H).
    rewrite (map_nth f (seq 0 n) 0 i). now rewrite seq_nth.
  Qed.

  Lemma retab_spec h w (m : mat T) i j : i < h -> j < w -> retab h w m i j = m i j.
  Proof.
    intros Hi Hj. unfold retab, mat_of_lists, lists_of_mat.
    rewrite (nth_seq_map (fun i => map (fun j => m i j) (seq 0 w)) h i []) by exact Hi.
    now rewrite nth_seq_map.
  Qed.
  Lemma vretab_spec n (x : vec T) i : i < n -> vretab n x i = x i.
  Proof. intros Hi. unfold vretab, vec_of_list, list_of_vec. now rewrite nth_seq_map. Qed.

  Lemma for_range_S {A} lo len (body : nat -> A -> A) acc :
    for_range lo (S len) body acc = body (lo + len) (for_range lo len body acc).
  Proof.
    revert lo acc. induction len as [|len IH]; intros lo acc.
    - cbn. now rewrite Nat.add_0_r.
    - change (for_range lo (S (S len)) body acc) with (for_range (S lo) (S len) body (body lo acc)).
      rewrite IH. cbn [for_range]. f_equal. lia.
  Qed.

  Lemma for_range_ext {A} lo len (f g : nat -> A -> A) acc :
    (forall i a, lo <= i < lo + len -> f i a = g i a) ->
    for_range lo len f acc = for_range lo len g acc.
  Proof.
    revert lo acc. induction len as [|len IH]; intros lo acc H; [reflexivity|].
    cbn [for_range]. rewrite (H lo acc) by lia. apply IH. intros i a Hi. apply H. lia.
  Qed.

  (* invariant rule for loops *)
  Lemma for_range_inv {A} (P : nat -> A -> Prop) lo len (body : nat -> A -> A) acc :
    P lo acc ->
    (forall i a, lo <= i < lo + len -> P i a -> P (S i) (body i a)) ->
    P (lo + len) (for_range lo len body acc).
  Proof.
    revert lo acc. induction len as [|len IH]; intros lo acc H0 Hs.
    - now rewrite Nat.add_0_r.
    - cbn [for_range]. replace (lo + S len) with (S lo + len) by lia.
      apply IH.
      + apply Hs; [lia|exact H0].
      + intros i a Hi. apply Hs. lia.
  Qed.
End MatLemmas.
