(* Base/FloatBits.v — the IEEE-754 binary64 bit pattern of a primitive float as
   a Z (-1 for NaN), used only by the extraction cross-check: a sample of the
   cases of a run is evaluated INSIDE Coq with vm_compute and compared with
   what the extracted OCaml executable printed for the same cases. *)
From Coq Require Import ZArith Floats.
Local Open Scope Z_scope.

Definition float_bits (f : float) : Z :=
  match Prim2SF f with
  | S754_nan => -1
  | S754_zero s => if s then 2 ^ 63 else 0
  | S754_infinity s => (if s then 2 ^ 63 else 0) + 2047 * 2 ^ 52
  | S754_finite s m e =>
      let sign := if s then 2 ^ 63 else 0 in
      if (Zpos m <? 2 ^ 52) then sign + Zpos m                     (* subnormal: e = -1074 *)
      else sign + (e + 1075) * 2 ^ 52 + (Zpos m - 2 ^ 52)
  end.

Definition opt_float_bits (o : option float) : Z :=
  match o with Some f => float_bits f | None => -1 end.
