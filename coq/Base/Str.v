(* Base/Str.v — Rust strings as lists of Unicode scalar values (list N), with the
   string operations the parsers use, in their Rust semantics.  Every such
   operation in the code is char-boundary safe (positions come from `find`,
   slices start/end at those positions), so the scalar-value view is exact. *)
From Coq Require Import ZArith NArith List Bool Lia.
From SV Require Import Base.Num.
Import ListNotations.

Definition str := list N.

(* ---- code points used by the parsers ------------------------------------- *)
Definition c_space : N := 32.   Definition c_plus : N := 43.   Definition c_minus : N := 45.
Definition c_dot : N := 46.     Definition c_slash : N := 47.  Definition c_caret : N := 94.
Definition c_at : N := 64.      Definition c_zero : N := 48.

Definition is_ascii_digit (c : N) : bool := (48 <=? c)%N && (c <=? 57)%N.
Definition is_ascii_letter (c : N) : bool :=
  ((65 <=? c)%N && (c <=? 90)%N) || ((97 <=? c)%N && (c <=? 122)%N).

(* char::is_whitespace = Unicode White_Space, a finite set (exact) *)
Definition is_whitespace (c : N) : bool :=
  ((9 <=? c)%N && (c <=? 13)%N) || (c =? 32)%N || (c =? 133)%N || (c =? 160)%N || (c =? 5760)%N
  || ((8192 <=? c)%N && (c <=? 8202)%N) || (c =? 8232)%N || (c =? 8233)%N || (c =? 8239)%N
  || (c =? 8287)%N || (c =? 12288)%N.

(* char::is_alphabetic / char::is_numeric are large Unicode tables.  The model
   is parametric in them (record UClass); the executable instance [uclass_tab]
   is exact on ASCII and on an explicit list of non-ASCII code points, and the
   generators draw non-ASCII characters only from that list. *)
Record UClass := { u_alphabetic : N -> bool; u_numeric : N -> bool }.

Definition tab_alphabetic : list N :=
  [170; 181; 186; 223; 233; 241; 252; 960; 964; 981; 937; 945; 1078; 1488; 20013; 12354; 8450; 8544; 12295]%N.
  (* ª µ º ß é ñ ü π τ ϕ Ω α ж א 中 あ ℂ Ⅰ(Nl, alphabetic) *)
Definition tab_numeric : list N :=
  [178; 179; 185; 188; 189; 190; 1635; 2406; 8544; 9312; 65297; 12295]%N.
  (* ² ³ ¹ ¼ ½ ¾ ٣ ० Ⅰ ① １ 〇 *)
Definition in_tab (c : N) (l : list N) : bool := existsb (N.eqb c) l.
Definition uclass_tab : UClass :=
  {| u_alphabetic := fun c => is_ascii_letter c
                              || ((192 <=? c)%N && (c <=? 255)%N && negb (c =? 215)%N && negb (c =? 247)%N)
                              || in_tab c tab_alphabetic;          (* exact on U+0000..U+00FF *)
     u_numeric := fun c => is_ascii_digit c || in_tab c tab_numeric |}.

(* ---- generic string functions --------------------------------------------- *)
Fixpoint str_eqb (a b : str) : bool :=
  match a, b with
  | [], [] => true
  | x :: a', y :: b' => N.eqb x y && str_eqb a' b'
  | _, _ => false
  end.

Definition strip_ws (s : str) : str := filter (fun c => negb (is_whitespace c)) s.

(* s.split(c): one more piece than separators *)
Fixpoint split_on (c : N) (s : str) : list str :=
  match s with
  | [] => [[]]
  | x :: s' =>
      match split_on c s' with
      | [] => [[]]                      (* unreachable *)
      | p :: ps => if N.eqb x c then [] :: p :: ps else (x :: p) :: ps
      end
  end.

(* s.find(c): index (in scalar values) of the first occurrence *)
Fixpoint find_char (c : N) (s : str) : option nat :=
  match s with
  | [] => None
  | x :: s' => if N.eqb x c then Some O else option_map S (find_char c s')
  end.
Fixpoint find_pred (p : N -> bool) (s : str) : option N :=
  match s with
  | [] => None
  | x :: s' => if p x then Some x else find_pred p s'
  end.

Definition contains_char (c : N) (s : str) : bool := existsb (N.eqb c) s.

(* ---- numbers ---------------------------------------------------------------- *)
Definition digit_val (c : N) : Z := Z.of_N c - 48.
Definition digits_val (s : str) : Z := fold_left (fun acc c => acc * 10 + digit_val c)%Z s 0%Z.
Definition all_digits (s : str) : bool := forallb is_ascii_digit s.

(* usize text: non-empty, ASCII digits only (leading zeros allowed) *)
Definition parse_nat_text (s : str) : option Z :=
  match s with
  | [] => None
  | _ => if all_digits s then Some (digits_val s) else None
  end.

Section Dec.
  Context {T : Type} {NT : Num T}.

  (* The part of Rust's f64::from_str grammar reachable from text made of ASCII
     digits, '.', and a leading '-':   -? ( d+ ( . d* )? | . d+ )
     Value = correctly rounded decimal (nofdec), sign applied afterwards
     ("-0" is -0.0). *)
  Definition parse_unsigned_dec (s : str) : option T :=
    match split_on c_dot s with
    | [ip] => if all_digits ip && negb (Nat.eqb (length ip) 0)
              then Some (nofdec (digits_val ip) 0) else None
    | [ip; fp] =>
        if all_digits ip && all_digits fp && negb (Nat.eqb (length ip + length fp) 0)
        then Some (nofdec (digits_val (ip ++ fp)) (- Z.of_nat (length fp)))
        else None
    | _ => None
    end.
  Definition parse_dec (s : str) : option T :=
    match s with
    | c :: s' => if N.eqb c c_minus then option_map nneg (parse_unsigned_dec s')
                 else parse_unsigned_dec s
    | [] => None
    end.
End Dec.
