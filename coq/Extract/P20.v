(* Extract/P20.v — float instance of the two parsers and of the two macros.
   The macro model is run on the text the compiler really printed (measured by echo!),
   so its tokenize_print parameter is the identity here; reread = float_reread. *)
From Coq Require Import Extraction ExtrOcamlBasic ExtrOCamlFloats ExtrOCamlInt63.
From Coq Require Import ZArith List Floats.
From SV Require Import Base.Num Base.Outcome Base.Str Model.Poly Model.Parse Model.Macro Extract.Keep.
Extraction Language OCaml.

Definition f_parse_simple := @parse_simple float FNum uclass_tab.
Definition f_parse_inter := @parse_inter float FNum uclass_tab.
Definition f_macro_simple := @macro_simple float FNum uclass_tab (fun s => s) float_reread.
Definition f_macro_inter := @macro_inter float FNum uclass_tab (fun s => s) float_reread.

Extraction "model.ml"
  keep_N_add keep_Z_div keep_Z_modulo keep_Z_opp keep_Z_mul keep_Z_add
  f_parse_simple f_parse_inter f_macro_simple f_macro_inter.
