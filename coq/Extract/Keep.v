(* Extract/Keep.v — arithmetic the OCaml drivers need for their own
   conversions (decimal strings <-> Z, code points <-> N). *)
From Coq Require Import ZArith.
Definition keep_N_add := N.add.
Definition keep_Z_div := Z.div.
Definition keep_Z_modulo := Z.modulo.
Definition keep_Z_opp := Z.opp.
Definition keep_Z_mul := Z.mul.
Definition keep_Z_add := Z.add.
