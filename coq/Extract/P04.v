(* Extract/P04.v — float instance of the polynomial model (derivatives, integrals,
   evaluation, trait wrappers, analytical_integral), extracted to OCaml.
   Standard extraction libraries only; no hand-written Extract Constant. *)
From Coq Require Import Extraction ExtrOcamlBasic ExtrOCamlFloats ExtrOCamlInt63.
From Coq Require Import ZArith List Floats.
From SV Require Import Base.Num Base.Outcome Model.Poly Model.PolyFast Model.Definite Extract.Keep.
Extraction Language OCaml.

Definition f_s_eval_univariate := @s_eval_univariate float FNum.
Definition f_s_eval_multivariate := @s_eval_multivariate float FNum.
Definition f_s_derivate_univariate := @s_derivate_univariate float FNum.
Definition f_s_derivate_multivariate := @s_derivate_multivariate float FNum.
Definition f_s_integral_univariate := @s_integral_univariate float FNum.
Definition f_s_integral_multivariate := @s_integral_multivariate float FNum.
Definition f_s_analytical_integral := @s_analytical_integral float FNum.

(* same functions with a binary power index (Proofs/PolyLemmasFast.v: fast_model_eq); the drivers
   use them for coefficient vectors longer than 2000, where Z.of_nat on the unary index is quadratic *)
Definition f_s_derivate_univariate_fast := @s_derivate_univariate_fast float FNum.
Definition f_s_derivate_multivariate_fast := @s_derivate_multivariate_fast float FNum.
Definition f_s_integral_univariate_fast := @s_integral_univariate_fast float FNum.
Definition f_s_integral_multivariate_fast := @s_integral_multivariate_fast float FNum.

Definition f_i_eval_univariate := @i_eval_univariate float FNum.
Definition f_i_eval_multivariate := @i_eval_multivariate float FNum.
Definition f_i_derivate_univariate := @i_derivate_univariate float FNum.
Definition f_i_derivate_multivariate := @i_derivate_multivariate float FNum.
Definition f_i_integral_univariate := @i_integral_univariate float FNum.
Definition f_i_integral_multivariate := @i_integral_multivariate float FNum.
Definition f_i_analytical_integral := @i_analytical_integral float FNum.

Extraction "model.ml"
  keep_N_add keep_Z_div keep_Z_modulo keep_Z_opp keep_Z_mul keep_Z_add
  f_s_eval_univariate f_s_eval_multivariate f_s_derivate_univariate f_s_derivate_multivariate
  f_s_integral_univariate f_s_integral_multivariate f_s_analytical_integral
  f_i_eval_univariate f_i_eval_multivariate f_i_derivate_univariate f_i_derivate_multivariate
  f_i_integral_univariate f_i_integral_multivariate f_i_analytical_integral
  f_s_derivate_univariate_fast f_s_derivate_multivariate_fast f_s_integral_univariate_fast f_s_integral_multivariate_fast.
