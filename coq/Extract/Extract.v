(* Extract/Extract.v — the float (and Z) instances of the model, extracted to
   OCaml for the volume runs of the correspondence check.  Only the standard
   extraction libraries are used: ExtrOcamlBasic (bool, option, list, prod,
   unit -> native), ExtrOCamlFloats (PrimFloat -> coq-core's Float64),
   ExtrOCamlInt63 (Uint63 -> coq-core's Uint63).  nat, positive, N and Z stay
   inductive.  No hand-written Extract Constant / Extract Inductive. *)
From Coq Require Import Extraction ExtrOcamlBasic ExtrOCamlFloats ExtrOCamlInt63.
From Coq Require Import ZArith List Floats.
From SV Require Import Base.Num Base.Outcome Model.Stats.

Extraction Language OCaml.

Definition f_arith_mean := @arith_mean float FNum.
Definition f_geom_mean := @geom_mean float FNum.
Definition f_std_dev := @std_dev float FNum.

(* arithmetic the OCaml driver needs for its own conversions *)
Definition keep_N_add := N.add.
Definition keep_Z_div := Z.div.
Definition keep_Z_modulo := Z.modulo.
Definition keep_Z_opp := Z.opp.
Definition keep_Z_mul := Z.mul.

Extraction "model.ml"
  keep_N_add keep_Z_div keep_Z_modulo keep_Z_opp keep_Z_mul
  f_arith_mean f_geom_mean f_std_dev.
