(* Extract/P19.v — float instance of the expression lexer / parser / fold / Display.
   Standard extraction libraries only; no hand-written Extract Constant. *)
From Coq Require Import Extraction ExtrOcamlBasic ExtrOCamlFloats ExtrOCamlInt63.
From Coq Require Import ZArith List Floats.
From SV Require Import Base.Num Base.Outcome Base.Str Model.Expr Model.RefExpr Extract.Keep.
Extraction Language OCaml.

Definition f_lexer := @lexer float FNum.
Definition f_implied_mul := @implied_mul float.
Definition f_parse_unfolded := @parse_unfolded float.
Definition f_fold := @fold_operations float FNum.
Definition f_parser := @parser float FNum.
Definition f_display := @display float fmt_float.
Definition f_reread := @reread float FNum fmt_float.
Definition f_ref_read := @ref_read float.          (* the reference reader, cross-checked against the oracle's *)

Extraction "model.ml"
  keep_N_add keep_Z_div keep_Z_modulo keep_Z_opp keep_Z_mul keep_Z_add
  f_lexer f_implied_mul f_parse_unfolded f_fold f_parser f_display f_reread f_ref_read.
