(* Extract/P05.v — float instance of the quadrature model (C05), extracted to OCaml.
   Standard extraction libraries only; nat, positive, N, Z stay inductive. *)
From Coq Require Import Extraction ExtrOcamlBasic ExtrOCamlFloats ExtrOCamlInt63.
From Coq Require Import ZArith NArith List Floats.
From SV Require Import Base.Num Base.Outcome Model.Poly Model.Quad Extract.Keep.
Extraction Language OCaml.

(* SimplePolynomial { coefficients, variable: Some('x') } *)
Definition f_mk_spoly (cs : list float) : spoly float := {| s_coefs := cs; s_var := Some 120%N |}.
(* Term { coefficient, variables } and IntermediatePolynomial { terms, variables } *)
Definition f_mk_term (c : float) (vs : list (name * float)) : term float := {| t_coef := c; t_vars := vs |}.
Definition f_mk_ipoly (ts : list (term float)) (vs : list name) : ipoly float := {| i_terms := ts; i_vars := vs |}.

Definition f_definite_s (p : spoly float) := @definite_integral float FNum (s_eval_univariate p).
Definition f_definite_i (p : ipoly float) := @definite_integral float FNum (i_eval_univariate p).
Definition f_romberg_s (p : spoly float) := @romberg float FNum (s_eval_univariate p).
Definition f_romberg_i (p : ipoly float) := @romberg float FNum (i_eval_univariate p).

Extraction "model.ml"
  keep_N_add keep_Z_div keep_Z_modulo keep_Z_opp keep_Z_mul keep_Z_add
  f_mk_spoly f_mk_term f_mk_ipoly f_definite_s f_definite_i f_romberg_s f_romberg_i.
