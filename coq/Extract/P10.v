(* Extract/P10.v — float instance of the matrix-inverse model, extracted to OCaml. *)
From Coq Require Import Extraction ExtrOcamlBasic ExtrOCamlFloats ExtrOCamlInt63.
From Coq Require Import ZArith List Floats.
From SV Require Import Base.Num Base.Outcome Base.Mat Model.Subst Model.LU Model.Inverse Extract.Keep.
Extraction Language OCaml.

Definition f_inverse := @inverse float FNum.
Definition f_mat_of_lists := @mat_of_lists float FNum.
Definition f_lists_of_mat := @lists_of_mat float.

Extraction "model.ml"
  keep_N_add keep_Z_div keep_Z_modulo keep_Z_opp keep_Z_mul keep_Z_add
  f_inverse f_mat_of_lists f_lists_of_mat.
