(* Extract/P13.v — float instance of the power-method model, extracted to OCaml.
   Standard extraction libraries only; nat, positive, N, Z stay inductive. *)
From Coq Require Import Extraction ExtrOcamlBasic ExtrOCamlFloats ExtrOCamlInt63.
From Coq Require Import ZArith List Floats.
From SV Require Import Base.Num Base.Outcome Base.Mat Model.Power Extract.Keep.
Extraction Language OCaml.

Definition f_power_method := @power_method float FNum.
Definition f_power_method_fuel := @power_method_fuel float FNum.

Extraction "model.ml"
  keep_N_add keep_Z_div keep_Z_modulo keep_Z_opp keep_Z_mul keep_Z_add
  f_power_method f_power_method_fuel.
