(* Extract/P08.v — float instance of the Gaussian-elimination model, extracted to OCaml.
   Standard extraction libraries only; no hand-written Extract Constant / Extract Inductive. *)
From Coq Require Import Extraction ExtrOcamlBasic ExtrOCamlFloats ExtrOCamlInt63.
From Coq Require Import ZArith List Floats.
From SV Require Import Base.Num Base.Outcome Base.Mat Model.Subst Model.Gauss Extract.Keep.
Extraction Language OCaml.

Definition f_ge_lists := @ge_lists float FNum.
Definition f_back_subst_lists := @back_subst_lists float FNum.
Definition f_forward_subst_lists := @forward_subst_lists float FNum.

Extraction "model.ml"
  keep_N_add keep_Z_div keep_Z_modulo keep_Z_opp keep_Z_mul keep_Z_add
  f_ge_lists f_back_subst_lists f_forward_subst_lists.
