(* Extract/P01.v — float instance of the univariate parser and evaluator
   (executable Unicode table), extracted to OCaml. *)
From Coq Require Import Extraction ExtrOcamlBasic ExtrOCamlFloats ExtrOCamlInt63.
From Coq Require Import ZArith List Floats.
From SV Require Import Base.Num Base.Outcome Base.Str Model.Poly Model.Parse Extract.Keep.
Extraction Language OCaml.

Definition f_parse_simple := @parse_simple float FNum uclass_tab.
Definition f_eval_simple := @eval_simple float FNum.
Definition f_alphabetic := u_alphabetic uclass_tab.
Definition f_numeric := u_numeric uclass_tab.
Definition f_whitespace := is_whitespace.

Extraction "model.ml"
  keep_N_add keep_Z_div keep_Z_modulo keep_Z_opp keep_Z_mul keep_Z_add
  f_parse_simple f_eval_simple f_alphabetic f_numeric f_whitespace.
