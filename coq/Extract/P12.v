(* Extract/P12.v — the concrete state machine of C12 (Z entries), extracted to OCaml.
   Standard extraction libraries only; nat, positive, N, Z stay inductive. *)
From Coq Require Import Extraction ExtrOcamlBasic ExtrOCamlFloats ExtrOCamlInt63.
From Coq Require Import ZArith List Floats.
From SV Require Import Base.Num Base.Outcome Model.Arr2D Extract.Keep.
Extraction Language OCaml.

Definition c12_step := step_c.
Definition c12_observe := observe_c.
Definition c12_map_fn := map_fn.
Definition c12_rows_fn := rows_fn.

Extraction "model.ml"
  keep_N_add keep_Z_div keep_Z_modulo keep_Z_opp keep_Z_mul keep_Z_add
  c12_step c12_observe c12_map_fn c12_rows_fn.
