(* Extract/P15.v — float instance of the regression model, extracted to OCaml.
   Standard extraction libraries only; no hand-written Extract Constant / Extract Inductive. *)
From Coq Require Import Extraction ExtrOcamlBasic ExtrOCamlFloats ExtrOCamlInt63.
From Coq Require Import ZArith List Floats.
From SV Require Import Base.Num Base.Outcome Base.Mat Model.Subst Model.Gauss Model.Regress Extract.Keep.
Extraction Language OCaml.

Definition f_ls_fit := @ls_fit float FNum.
Definition f_poly_fit := @poly_fit float FNum.
Definition f_poly_fit_tol := @poly_fit_tol float FNum.
Definition f_gd_fit := @gd_fit float FNum.
Definition f_predict_coefs := @predict_coefs float FNum.
Definition f_moment_matrix := fun order x => @lists_of_mat float (S order) (S order) (@moment_matrix float FNum order x).

Extraction "model.ml"
  keep_N_add keep_Z_div keep_Z_modulo keep_Z_opp keep_Z_mul keep_Z_add
  f_ls_fit f_poly_fit f_poly_fit_tol f_gd_fit f_predict_coefs f_moment_matrix.
