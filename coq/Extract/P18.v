(* Extract/P18.v — float instance of the statistics model, extracted to OCaml.
   Standard extraction libraries only (ExtrOcamlBasic, ExtrOCamlFloats,
   ExtrOCamlInt63); nat, positive, N, Z stay inductive; no hand-written
   Extract Constant / Extract Inductive. *)
From Coq Require Import Extraction ExtrOcamlBasic ExtrOCamlFloats ExtrOCamlInt63.
From Coq Require Import ZArith List Floats.
From SV Require Import Base.Num Base.Outcome Model.Stats Extract.Keep.
Extraction Language OCaml.

Definition f_arith_mean := @arith_mean float FNum.
Definition f_geom_mean := @geom_mean float FNum.
Definition f_std_dev := @std_dev float FNum.

Extraction "model.ml"
  keep_N_add keep_Z_div keep_Z_modulo keep_Z_opp keep_Z_mul keep_Z_add
  f_arith_mean f_geom_mean f_std_dev.
