(* Extract/P14.v — float instance of the Hessenberg reduction model, extracted to OCaml.
   Standard extraction libraries only; no hand-written Extract Constant / Extract Inductive. *)
From Coq Require Import Extraction ExtrOcamlBasic ExtrOCamlFloats ExtrOCamlInt63.
From Coq Require Import ZArith List Floats.
From SV Require Import Base.Num Base.Outcome Base.Mat Model.Hessen Extract.Keep.
Extraction Language OCaml.

Definition f_hessenberg_lists := @hessenberg_lists float FNum.

Extraction "model.ml"
  keep_N_add keep_Z_div keep_Z_modulo keep_Z_opp keep_Z_mul keep_Z_add
  f_hessenberg_lists.
