(* Extract/P07.v — float instance of the Newton-Raphson model, extracted to OCaml.
   Standard extraction libraries only; no hand-written Extract Constant. *)
From Coq Require Import Extraction ExtrOcamlBasic ExtrOCamlFloats ExtrOCamlInt63.
From Coq Require Import ZArith List Floats.
From SV Require Import Base.Num Base.Outcome Model.Poly Model.Solvers Extract.Keep.
Extraction Language OCaml.

Definition f_s_nrm := @s_nrm float FNum.
Definition f_i_nrm := @i_nrm float FNum.

Extraction "model.ml"
  keep_N_add keep_Z_div keep_Z_modulo keep_Z_opp keep_Z_mul keep_Z_add
  f_s_nrm f_i_nrm.
