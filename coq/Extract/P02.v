(* Extract/P02.v — float instance of the multivariate parser and evaluators
   (and the univariate parser/evaluator for the agreement clause). *)
From Coq Require Import Extraction ExtrOcamlBasic ExtrOCamlFloats ExtrOCamlInt63.
From Coq Require Import ZArith List Floats.
From SV Require Import Base.Num Base.Outcome Base.Str Model.Poly Model.Parse Extract.Keep.
Extraction Language OCaml.

Definition f_parse_inter := @parse_inter float FNum uclass_tab.
Definition f_parse_simple := @parse_simple float FNum uclass_tab.
Definition f_eval_multi := @i_eval_multivariate float FNum.
Definition f_eval_uni := @i_eval_univariate float FNum.
Definition f_eval_simple := @eval_simple float FNum.

Extraction "model.ml"
  keep_N_add keep_Z_div keep_Z_modulo keep_Z_opp keep_Z_mul keep_Z_add
  f_parse_inter f_parse_simple f_eval_multi f_eval_uni f_eval_simple.
