(* Extract/P17.v — float instance of the four printers (exact `{:.p}`, table-driven `{}`)
   and of the two parsers they are read back with. *)
From Coq Require Import Extraction ExtrOcamlBasic ExtrOCamlFloats ExtrOCamlInt63.
From Coq Require Import ZArith List Floats.
From SV Require Import Base.Num Base.Outcome Base.Str Model.Poly Model.Parse Model.Display Extract.Keep.
Extraction Language OCaml.

Definition f_fmt_prec := float_fmt_prec.
Definition f_fmt_simple (tab : list (float * str)) :=
  @fmt_simple float FNum float_fmt_prec (float_fmt_short tab).
Definition f_fmt_inter (tab : list (float * str)) :=
  @fmt_inter float FNum float_fmt_prec (float_fmt_short tab).
Definition f_fmt_term (tab : list (float * str)) :=
  @fmt_term float FNum float_fmt_prec (float_fmt_short tab).
Definition f_to_polynomial_string := @to_polynomial_string float FNum float_fmt_prec.
Definition f_parse_simple := @parse_simple float FNum uclass_tab.
Definition f_parse_inter := @parse_inter float FNum uclass_tab.

Extraction "model.ml"
  keep_N_add keep_Z_div keep_Z_modulo keep_Z_opp keep_Z_mul keep_Z_add
  f_fmt_prec f_fmt_simple f_fmt_inter f_fmt_term f_to_polynomial_string f_parse_simple f_parse_inter.
