(* Extract/P11.v — Z and float instances of the product model (C11), extracted to OCaml.
   Standard extraction libraries only; nat, positive, N, Z stay inductive. *)
From Coq Require Import Extraction ExtrOcamlBasic ExtrOCamlFloats ExtrOCamlInt63.
From Coq Require Import ZArith List Floats.
From SV Require Import Base.Num Base.Outcome Model.Arr2D Extract.Keep.
Extraction Language OCaml.

Definition z_dot := @dot Z ZNum.
Definition z_mul_ref_ref := @mul_ref_ref Z ZNum.
Definition z_mul_own_own := @mul_own_own Z ZNum.
Definition z_mul_own_ref := @mul_own_ref Z ZNum.
Definition z_mul_ref_own := @mul_ref_own Z ZNum.
Definition z_smul := @smul Z ZNum.
Definition z_sdiv := @sdiv Z ZNum true.
Definition z_transpose := @transpose Z.

Definition f_dot := @dot float FNum.
Definition f_mul_ref_ref := @mul_ref_ref float FNum.
Definition f_mul_own_own := @mul_own_own float FNum.
Definition f_mul_own_ref := @mul_own_ref float FNum.
Definition f_mul_ref_own := @mul_ref_own float FNum.
Definition f_smul := @smul float FNum.
Definition f_sdiv := @sdiv float FNum false.
Definition f_transpose := @transpose float.

Extraction "model.ml"
  keep_N_add keep_Z_div keep_Z_modulo keep_Z_opp keep_Z_mul keep_Z_add
  z_dot z_mul_ref_ref z_mul_own_own z_mul_own_ref z_mul_ref_own z_smul z_sdiv z_transpose
  f_dot f_mul_ref_ref f_mul_own_own f_mul_own_ref f_mul_ref_own f_smul f_sdiv f_transpose.
