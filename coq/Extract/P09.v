(* Extract/P09.v — float instance of the LU / PLU model, extracted to OCaml. *)
From Coq Require Import Extraction ExtrOcamlBasic ExtrOCamlFloats ExtrOCamlInt63.
From Coq Require Import ZArith List Floats.
From SV Require Import Base.Num Base.Outcome Base.Mat Model.LU Extract.Keep.
Extraction Language OCaml.

Definition f_lu := @lu float FNum.
Definition f_plu := @plu float FNum.
Definition f_lu_rows := @lu_rows float FNum.
Definition f_plu_rows := @plu_rows float FNum.
Definition f_mat_of_lists := @mat_of_lists float FNum.
Definition f_lists_of_mat := @lists_of_mat float.
Definition f_neps := @neps float FNum.

Extraction "model.ml"
  keep_N_add keep_Z_div keep_Z_modulo keep_Z_opp keep_Z_mul keep_Z_add
  f_lu f_plu f_lu_rows f_plu_rows f_mat_of_lists f_lists_of_mat f_neps.
