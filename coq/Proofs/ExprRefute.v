(* Proofs/ExprRefute.v — C19: witnesses (by computation) that the parser of the current tree
   does NOT return the conventional reading around a unary minus and around a function call,
   and that Display does not read back (findings F16a, F16b, F16e, F16f, F16g). *)
From Coq Require Import ZArith NArith List Bool Reals Lra Lia.
From SV Require Import Base.Num Base.Outcome Base.Str Model.Expr Model.RefExpr Proofs.ExprFold.
Import ListNotations.
Local Open Scope R_scope.

Definition tx : token R := TVar [120%N].
Definition ty : token R := TVar [121%N].
Definition tz : token R := TVar [122%N].

Ltac decide_reals :=
  repeat match goal with
         | |- context [Req_EM_T ?a ?b] => destruct (Req_EM_T a b); try (exfalso; lra)
         | H : context [Req_EM_T ?a ?b] |- _ => destruct (Req_EM_T a b); try (exfalso; lra)
         end.

(* x / - y * z : parsed as x / (-(y*z)); the conventional reading is (x / (-y)) * z.
   At x = 1, y = 1, z = 2 the values are -1/2 and -2. *)
Lemma c19_unary_refuted_lemma :
  exists (ts : list (token R)) (e e' : expr R) (rho : env),
    parser ts = Ok e /\ ref_read ts = Some e' /\ denote e rho <> denote e' rho.
Proof.
  exists [tx; TOp ODiv; TOp OSub; ty; TOp OMul; tz].
  exists (EBin ODiv (EVar [120%N]) (EPre OSub (EBin OMul (EVar [121%N]) (EVar [122%N]) false)) false).
  exists (EBin OMul (EBin ODiv (EVar [120%N]) (EPre OSub (EVar [121%N])) false) (EVar [122%N]) false).
  exists (fun v => match v with [122%N] => 2 | _ => 1 end).
  split; [reflexivity|]. split; [reflexivity|].
  cbn [denote obind option_map bin_val]. decide_reals.
  intros H. injection H as H.
  assert (H1 : 1 / - (1 * 2) = - (1 / 2)) by (field; lra).
  assert (H2 : 1 / - (1) * 2 = - (2)) by (field; lra).
  rewrite H1, H2 in H. lra.
Qed.

(* sin(x)^2 : parsed as sin(x^2); the conventional reading is (sin x)^2.
   At x = sqrt(3 pi / 2):  sin(x^2) = -1 < 0 <= (sin x)^2. *)
Lemma powerRZ_2 (a : R) : powerRZ a 2 = a * a.
Proof. cbv [powerRZ Pos.to_nat Pos.iter_op Init.Nat.add pow]. ring. Qed.

Lemma pow_val_2 (a : R) : pow_val a 2 = Some (a * a).
Proof.
  unfold pow_val.
  destruct (is_integer_dec 2) as [_|N]; [|exfalso; apply N; apply (is_integer_IZR 2)].
  rewrite (Int_part_IZR 2). cbn [Z.ltb Z.eqb Z.compare].
  destruct (Req_EM_T a 0) as [->|_]; [f_equal; ring|rewrite powerRZ_2; reflexivity].
Qed.

Lemma c19_func_refuted_lemma :
  exists (ts : list (token R)) (e e' : expr R) (rho : env),
    parser ts = Ok e /\ ref_read ts = Some e' /\ denote e rho <> denote e' rho.
Proof.
  exists [TFun FSin; TLParen; tx; TRParen; TOp OCaret; TNum 2].
  exists (EFun FSin (EBin OCaret (EVar [120%N]) (ENum 2) false)).
  exists (EBin OCaret (EFun FSin (EVar [120%N])) (ENum 2) false).
  exists (fun _ => sqrt (3 * (PI / 2))).
  split; [reflexivity|]. split; [reflexivity|].
  cbn [denote obind bin_val func_val]. rewrite !pow_val_2. cbn [obind func_val].
  assert (Hp : 0 <= 3 * (PI / 2)) by (pose proof PI_RGT_0; lra).
  rewrite (sqrt_sqrt _ Hp), sin_3PI2.
  intros H. injection H as H.
  pose proof (Rle_0_sqr (sin (sqrt (3 * (PI / 2))))) as Hs. unfold Rsqr in Hs. lra.
Qed.

(* ---- Display does not read back ------------------------------------------------------------ *)
(* (-x)^y is printed as "-x ^ y", which reads back as -(x^y): at x = 1, y = 2 the values are 1 and -1.
   No number occurs, so this holds for every rendering [fmt] of numbers. *)
Lemma c19_display_prefix_refuted_lemma : forall fmt : R -> str,
  exists (ts : list (token R)) (e e' : expr R) (rho : env),
    parser ts = Ok e /\ reread fmt e = Ok e' /\ denote e' rho <> denote e rho.
Proof.
  intros fmt.
  exists [TLParen; TOp OSub; tx; TRParen; TOp OCaret; ty].
  exists (EBin OCaret (EPre OSub (EVar [120%N])) (EVar [121%N]) false).
  exists (EPre OSub (EBin OCaret (EVar [120%N]) (EVar [121%N]) false)).
  exists (fun v => match v with [121%N] => 2 | _ => 1 end).
  split; [reflexivity|]. split; [reflexivity|].
  cbn [denote obind option_map bin_val]. rewrite !pow_val_2. cbn [option_map].
  intros H. injection H as H. lra.
Qed.

(* the constant pi is printed as the character U+03C0, which the lexer rejects *)
Lemma c19_display_constant_refuted_lemma : forall fmt : R -> str,
  exists (ts : list (token R)) (e : expr R),
    parser ts = Ok e /\ reread fmt e = Err EUnexpectedChar.
Proof.
  intros fmt. exists [TConst KPi], (EConst KPi). split; reflexivity.
Qed.

(* (0 + x*y)^z : fold returns the operand x*y without the paren flag; the folded tree is printed as
   "x * y ^ z", which reads back as x*(y^z): at x = 2, y = 1, z = 2 the values are 4 and 2. *)
Lemma Reqb_refl (a : R) : Reqb a a = true.
Proof. apply Reqb_true. reflexivity. Qed.

Lemma c19_display_fold_paren_refuted_lemma : forall fmt : R -> str,
  exists (ts : list (token R)) (e e' : expr R) (rho : env),
    parser ts = Ok e /\ reread fmt e = Ok e' /\ denote e' rho <> denote e rho.
Proof.
  intros fmt.
  exists [TLParen; TNum 0; TOp OAdd; tx; TOp OMul; ty; TRParen; TOp OCaret; tz].
  exists (EBin OCaret (EBin OMul (EVar [120%N]) (EVar [121%N]) false) (EVar [122%N]) false).
  exists (EBin OMul (EVar [120%N]) (EBin OCaret (EVar [121%N]) (EVar [122%N]) false) false).
  exists (fun v => match v with [121%N] => 1 | _ => 2 end).
  split; [|split].
  - unfold parser.
    change (parse_unfolded [TLParen; TNum 0; TOp OAdd; tx; TOp OMul; ty; TRParen; TOp OCaret; tz])
      with (Ok (EBin OCaret (EBin OAdd (ENum 0) (EBin OMul (EVar [120%N]) (EVar [121%N]) false) true)
                     (@EVar R [122%N]) false)).
    cbn [bind]. rewrite fold_operations_foldS.
    cbn [foldS is_num neqb n0 n1 RNum]. rewrite Reqb_refl. reflexivity.
  - reflexivity.
  - cbn [denote obind option_map bin_val]. rewrite !pow_val_2. cbn [obind bin_val].
    intros H. injection H as H. lra.
Qed.
