(* Proofs/Gauss.v — C08: Gaussian elimination and triangular substitution (R instance).

   Plan (DESIGN "### C08"):  the forward elimination keeps the invariant
     "every solution of the current effective system solves the original one,
      and all pivots passed so far are non-zero",
   where the effective system reads the stale entries left of the diagonal in
   already eliminated columns as 0 ([eff]).  Back substitution then solves the
   upper-triangular effective system.  No determinants are used. *)
From Coq Require Import ZArith List Bool Arith Reals Lra Lia.
From SV Require Import Base.Num Base.Outcome Base.Mat Model.Subst Model.Gauss.
Import ListNotations.
Local Open Scope R_scope.

(* ---------------------------------------------------------------- finite sums *)
Fixpoint Rsum_n (n : nat) (f : nat -> R) : R :=
  match n with O => 0 | S m => Rsum_n m f + f m end.

Ltac bdestr :=
  repeat match goal with
  | |- context [Nat.eqb ?a ?b] => destruct (Nat.eqb_spec a b)
  | |- context [Nat.ltb ?a ?b] => destruct (Nat.ltb_spec a b)
  | |- context [Nat.leb ?a ?b] => destruct (Nat.leb_spec a b)
  end; cbn [andb orb negb].

Lemma Rsum_n_ext n f g : (forall j, (j < n)%nat -> f j = g j) -> Rsum_n n f = Rsum_n n g.
Proof.
  induction n as [|n IH]; intro H; [reflexivity|].
  cbn [Rsum_n]. rewrite IH, (H n) by (intros; try apply H; lia). reflexivity.
Qed.

Lemma Rsum_n_plus n f g : Rsum_n n (fun j => f j + g j) = Rsum_n n f + Rsum_n n g.
Proof. induction n as [|n IH]; cbn [Rsum_n]; [ring|rewrite IH; ring]. Qed.

Lemma Rsum_n_scal n c f : Rsum_n n (fun j => c * f j) = c * Rsum_n n f.
Proof. induction n as [|n IH]; cbn [Rsum_n]; [ring|rewrite IH; ring]. Qed.

Lemma Rsum_n_zero n f : (forall j, (j < n)%nat -> f j = 0) -> Rsum_n n f = 0.
Proof.
  induction n as [|n IH]; intro H; [reflexivity|].
  cbn [Rsum_n]. rewrite IH, (H n) by (intros; try apply H; lia). ring.
Qed.

Lemma Rsum_n_delta n k c : (k < n)%nat -> Rsum_n n (fun j => if (j =? k)%nat then c else 0) = c.
Proof.
  induction n as [|n IH]; intro H; [lia|]. cbn [Rsum_n].
  destruct (Nat.eqb_spec n k) as [E|E].
  - subst k. rewrite Rsum_n_zero; [ring|]. intros j Hj. bdestr; [lia|reflexivity].
  - rewrite IH by lia. ring.
Qed.

Lemma Rsum_n_swap n m (f : nat -> nat -> R) :
  Rsum_n n (fun i => Rsum_n m (fun j => f i j)) = Rsum_n m (fun j => Rsum_n n (fun i => f i j)).
Proof.
  induction n as [|n IH]; cbn [Rsum_n].
  - symmetry. apply Rsum_n_zero. reflexivity.
  - rewrite IH, <- Rsum_n_plus. reflexivity.
Qed.

Lemma Rsum_n_trunc n i f : (i <= n)%nat ->
  Rsum_n n (fun j => if (j <? i)%nat then f j else 0) = Rsum_n i f.
Proof.
  induction n as [|n IH]; intro H.
  - replace i with 0%nat by lia. reflexivity.
  - cbn [Rsum_n]. destruct (Nat.ltb_spec n i) as [L|L].
    + replace i with (S n) by lia. cbn [Rsum_n]. f_equal.
      apply Rsum_n_ext. intros j Hj. bdestr; [reflexivity|lia].
    + rewrite IH by lia. ring.
Qed.

(* the left-to-right accumulation of the code is the mathematical sum *)
Lemma sum_range_R (init : R) lo len (f : nat -> R) :
  sum_range init lo len f = init + Rsum_n (lo + len) (fun j => if (j <? lo)%nat then 0 else f j).
Proof.
  unfold sum_range. induction len as [|len IH].
  - rewrite Nat.add_0_r. cbn [for_range]. rewrite Rsum_n_zero; [ring|].
    intros j Hj. bdestr; [reflexivity|lia].
  - rewrite for_range_S, IH. cbn [nadd RNum].
    replace (lo + S len)%nat with (S (lo + len)) by lia. cbn [Rsum_n].
    bdestr; [lia|ring].
Qed.

(* ---------------------------------------------------------------- loops *)
Lemma for_range_rev_inv {A} (P : nat -> A -> Prop) lo len (body : nat -> A -> A) acc :
  P (lo + len)%nat acc ->
  (forall i a, (lo <= i < lo + len)%nat -> P (S i) a -> P i (body i a)) ->
  P lo (for_range_rev lo len body acc).
Proof.
  revert acc. induction len as [|len IH]; intros acc H0 Hs.
  - now rewrite Nat.add_0_r in H0.
  - cbn [for_range_rev]. apply IH.
    + apply Hs; [lia|]. replace (S (lo + len)) with (lo + S len)%nat by lia. exact H0.
    + intros i a Hi. apply Hs. lia.
Qed.

(* ---------------------------------------------------------------- substitution *)
Lemma back_substitution_solves (a : mat R) n (b s0 : vec R) :
  (0 < n)%nat -> (forall i, (i < n)%nat -> a i i <> 0) ->
  exists x, back_substitution a n b s0 = Ok x /\
    forall i, (i < n)%nat -> Rsum_n n (fun j => (if (j <? i)%nat then 0 else a i j) * x j) = b i.
Proof.
  intros Hn Hd. destruct n as [|m]; [lia|].
  unfold back_substitution. eexists. split; [reflexivity|].
  match goal with |- context [for_range_rev 0 m ?bd ?s] => set (body := bd); set (s1 := s) end.
  pose (P := fun (t : nat) (sol : vec R) =>
    forall i, (t <= i < S m)%nat ->
      Rsum_n (S m) (fun j => (if (j <? i)%nat then 0 else a i j) * sol j) = b i).
  assert (HP : P 0%nat (for_range_rev 0 m body s1)).
  { apply (for_range_rev_inv P).
    - intros i Hi. assert (i = m) by lia. subst i. cbn [Rsum_n].
      rewrite Rsum_n_zero.
      + bdestr; [lia|]. unfold s1. rewrite vset_same. cbn [ndiv RNum]. field. apply Hd. lia.
      + intros j Hj. bdestr; [ring|lia].
    - intros i sol Hi HS i' Hi'. unfold body.
      rewrite sum_range_R. cbn [n0 nmul nsub ndiv RNum].
      replace (S i + (S m - S i))%nat with (S m) by lia.
      set (sum := Rsum_n (S m) (fun j0 : nat => if (j0 <? S i)%nat then 0 else a i j0 * sol j0)).
      destruct (Nat.eq_dec i' i) as [E|E].
      + subst i'.
        rewrite (Rsum_n_ext _ _ (fun j => (if (j =? i)%nat then a i i * ((b i - (0 + sum)) / a i i) else 0)
                                           + (if (j <? S i)%nat then 0 else a i j * sol j))).
        * rewrite Rsum_n_plus, Rsum_n_delta by lia. fold sum. field. apply Hd. lia.
        * intros j Hj. unfold vset. bdestr; try lia; subst; ring.
      + rewrite <- (HS i') by lia. apply Rsum_n_ext. intros j Hj.
        unfold vset. bdestr; try lia; subst; ring. }
  intros i Hi. apply HP. lia.
Qed.

Lemma forward_substitution_solves (a : mat R) n (b s0 : vec R) :
  (forall i, (i < n)%nat -> a i i <> 0) ->
  forall i, (i < n)%nat ->
    Rsum_n n (fun j => (if (i <? j)%nat then 0 else a i j) * forward_substitution a n b s0 j) = b i.
Proof.
  intros Hd. unfold forward_substitution.
  match goal with |- context [for_range 0 n ?bd s0] => set (body := bd) end.
  pose (P := fun (t : nat) (sol : vec R) =>
    forall i, (i < t)%nat -> Rsum_n n (fun j => (if (i <? j)%nat then 0 else a i j) * sol j) = b i).
  assert (HP : forall len, (len <= n)%nat -> P (0 + len)%nat (for_range 0 len body s0)).
  { intros len Hlen. apply (for_range_inv P).
    - intros i Hi. lia.
    - intros i sol Hi HS i' Hi'. unfold body.
      rewrite sum_range_R. cbn [n0 nmul nsub ndiv RNum]. cbn [Nat.add].
      set (sum := Rsum_n i _).
      destruct (Nat.eq_dec i' i) as [E|E].
      + subst i'.
        rewrite (Rsum_n_ext _ _ (fun j => (if (j =? i)%nat then a i i * ((b i - (0 + sum)) / a i i) else 0)
                                           + (if (j <? i)%nat then a i j * sol j else 0))).
        * rewrite Rsum_n_plus, Rsum_n_delta, Rsum_n_trunc by lia.
          replace (Rsum_n i (fun j => a i j * sol j)) with sum.
          -- field. apply Hd. lia.
          -- unfold sum. apply Rsum_n_ext. intros j Hj. bdestr; [lia|reflexivity].
        * intros j Hj. unfold vset. bdestr; try lia; subst; ring.
      + rewrite <- (HS i') by lia. apply Rsum_n_ext. intros j Hj.
        unfold vset. bdestr; try lia; subst; ring. }
  intros i Hi. apply (HP n (le_n n)). lia.
Qed.

Lemma c08_substitution : forall (n : nat) (a : mat R) (b s0 : vec R),
  (0 < n)%nat -> (forall i, (i < n)%nat -> a i i <> 0) ->
  (exists x, back_substitution a n b s0 = Ok x /\
     forall i, (i < n)%nat -> Rsum_n n (fun j => (if (j <? i)%nat then 0 else a i j) * x j) = b i) /\
  (forall i, (i < n)%nat ->
     Rsum_n n (fun j => (if (i <? j)%nat then 0 else a i j) * forward_substitution a n b s0 j) = b i).
Proof.
  intros n a b s0 Hn Hd. split.
  - apply back_substitution_solves; assumption.
  - apply forward_substitution_solves; assumption.
Qed.

(* for a matrix that IS triangular the masked sum is the plain product *)
Lemma c08_substitution_triangular : forall (n : nat) (a : mat R) (b s0 : vec R),
  (0 < n)%nat -> (forall i, (i < n)%nat -> a i i <> 0) ->
  ((forall i j, (j < i < n)%nat -> a i j = 0) ->
   exists x, back_substitution a n b s0 = Ok x /\
     forall i, (i < n)%nat -> Rsum_n n (fun j => a i j * x j) = b i) /\
  ((forall i j, (i < j < n)%nat -> a i j = 0) ->
   forall i, (i < n)%nat -> Rsum_n n (fun j => a i j * forward_substitution a n b s0 j) = b i).
Proof.
  intros n a b s0 Hn Hd. split; intro Ht.
  - destruct (back_substitution_solves a n b s0 Hn Hd) as [x [E H]].
    exists x. split; [exact E|]. intros i Hi. rewrite <- (H i Hi).
    apply Rsum_n_ext. intros j Hj. bdestr; [rewrite Ht by lia; ring|reflexivity].
  - intros i Hi. rewrite <- (forward_substitution_solves a n b s0 Hd i Hi).
    apply Rsum_n_ext. intros j Hj. bdestr; [rewrite Ht by lia; ring|reflexivity].
Qed.

(* ---------------------------------------------------------------- the inner loops in closed form *)
Lemma elim_row_spec n k i (a : mat R) (b : vec R) : (k < n)%nat -> i <> k ->
  (forall i' j', fst (elim_row n k i (a, b)) i' j' =
     if (i' =? i)%nat && (S k <=? j')%nat && (j' <? n)%nat
     then a i j' - (a i k / a k k) * a k j' else a i' j') /\
  (forall i', snd (elim_row n k i (a, b)) i' =
     if (i' =? i)%nat then b i - (a i k / a k k) * b k else b i').
Proof.
  intros Hk Hik. unfold elim_row. cbn [fst snd ndiv nsub nmul RNum]. split.
  - set (f := a i k / a k k).
    pose (P := fun (t : nat) (m : mat R) => forall i' j', m i' j' =
       if (i' =? i)%nat && (S k <=? j')%nat && (j' <? t)%nat then a i j' - f * a k j' else a i' j').
    assert (HP : P (S k + (n - S k))%nat
              (for_range (S k) (n - S k) (fun j m => mset m i j (m i j - f * m k j)) a)).
    { apply (for_range_inv P).
      - intros i' j'. bdestr; try lia; reflexivity.
      - intros j m Hj HP i' j'. unfold mset. rewrite !HP.
        bdestr; try lia; subst; try reflexivity; try lia. }
    replace (S k + (n - S k))%nat with n in HP by lia. exact HP.
  - intros i'. unfold vset. reflexivity.
Qed.

Lemma elim_below_spec n k (a : mat R) (b : vec R) : (k < n)%nat ->
  (forall i j, fst (elim_below n k a b) i j =
     if (S k <=? i)%nat && (i <? n)%nat && (S k <=? j)%nat && (j <? n)%nat
     then a i j - (a i k / a k k) * a k j else a i j) /\
  (forall i, snd (elim_below n k a b) i =
     if (S k <=? i)%nat && (i <? n)%nat then b i - (a i k / a k k) * b k else b i).
Proof.
  intros Hk. unfold elim_below.
  pose (P := fun (t : nat) (ab : mat R * vec R) =>
    (forall i j, fst ab i j =
       if (S k <=? i)%nat && (i <? t)%nat && (S k <=? j)%nat && (j <? n)%nat
       then a i j - (a i k / a k k) * a k j else a i j) /\
    (forall i, snd ab i =
       if (S k <=? i)%nat && (i <? t)%nat then b i - (a i k / a k k) * b k else b i)).
  assert (HP : P (S k + (n - S k))%nat (for_range (S k) (n - S k) (elim_row n k) (a, b))).
  { apply (for_range_inv P).
    - split; intros; cbn [fst snd]; bdestr; try lia; reflexivity.
    - intros i [m v] Hi [HA HB]. cbn [fst snd] in HA, HB.
      destruct (elim_row_spec n k i m v Hk ltac:(lia)) as [EA EB].
      split.
      + intros i' j'. rewrite EA, !HA.
        bdestr; try lia; subst; try reflexivity; try lia.
      + intros i'. rewrite EB, !HB, !HA.
        bdestr; try lia; subst; try reflexivity; try lia. }
  replace (S k + (n - S k))%nat with n in HP by lia. exact HP.
Qed.

Lemma pivot_row_range n (a : mat R) (s : vec R) k : (k < n)%nat ->
  (k <= pivot_row n a s k < n)%nat.
Proof.
  intros Hk. unfold pivot_row, pivot_search.
  pose (P := fun (t : nat) (bp : R * nat) => (k <= snd bp < t)%nat).
  assert (HP : P (S k + (n - S k))%nat
    (for_range (S k) (n - S k)
       (fun ii bp => let temp := nabs (ndiv (a ii k) (s ii)) in
                     if ngtb temp (fst bp) then (temp, ii) else bp)
       (nabs (ndiv (a k k) (s k)), k))).
  { apply (for_range_inv P).
    - unfold P. cbn [snd]. lia.
    - intros ii bp Hii HP. unfold P in *. cbv zeta.
      destruct (ngtb _ _); cbn [snd]; lia. }
  unfold P in HP. lia.
Qed.

(* both branches of partial_pivot are the (possibly trivial) swap of rows p and k *)
Lemma partial_pivot_spec n (a : mat R) (b s : vec R) k : (k < n)%nat ->
  exists p, (k <= p < n)%nat /\
    (forall i j, fst (fst (partial_pivot n a b s k)) i j = mswap_rows a p k i j) /\
    (forall i, snd (fst (partial_pivot n a b s k)) i = vswap b p k i).
Proof.
  intros Hk. exists (pivot_row n a s k). split; [apply pivot_row_range; exact Hk|].
  unfold partial_pivot. destruct (Nat.eqb_spec (pivot_row n a s k) k) as [E|E]; cbn [fst snd].
  - rewrite E. split; intros; unfold mswap_rows, vswap; bdestr; subst; reflexivity.
  - split; reflexivity.
Qed.

(* ---------------------------------------------------------------- the invariant *)
(* entries left of the diagonal in columns already eliminated are stale: read them as 0 *)
Definition eff (k : nat) (a : mat R) : mat R :=
  fun i j => if (j <? i)%nat && (j <? k)%nat then 0 else a i j.

Definition esolves (n k : nat) (a : mat R) (b : vec R) (x : vec R) : Prop :=
  forall i, (i < n)%nat -> Rsum_n n (fun j => eff k a i j * x j) = b i.

Definition Inv (n : nat) (A0 : mat R) (b0 : vec R) (k : nat) (a : mat R) (b : vec R) : Prop :=
  (forall x, esolves n k a b x -> forall i, (i < n)%nat -> Rsum_n n (fun j => A0 i j * x j) = b0 i) /\
  (forall i, (i < k)%nat -> a i i <> 0).

Lemma esolves_ext n k (a a' : mat R) (b b' x : vec R) :
  (forall i j, (i < n)%nat -> (j < n)%nat -> a' i j = a i j) ->
  (forall i, (i < n)%nat -> b' i = b i) ->
  esolves n k a' b' x -> esolves n k a b x.
Proof.
  intros HA HB H i Hi. rewrite <- HB, <- (H i Hi) by exact Hi.
  apply Rsum_n_ext. intros j Hj. unfold eff. rewrite HA by assumption. reflexivity.
Qed.

Lemma step_swap n k p (a : mat R) (b x : vec R) : (k <= p < n)%nat ->
  esolves n k (mswap_rows a p k) (vswap b p k) x -> esolves n k a b x.
Proof.
  intros Hp H i Hi.
  destruct (Nat.eq_dec i k) as [E1|E1]; [|destruct (Nat.eq_dec i p) as [E2|E2]].
  - subst i. specialize (H p ltac:(lia)). unfold vswap in H. rewrite Nat.eqb_refl in H.
    rewrite <- H. apply Rsum_n_ext. intros j Hj. unfold eff, mswap_rows.
    bdestr; try lia; reflexivity.
  - subst i. specialize (H k ltac:(lia)).
    replace (vswap b p k k) with (b p) in H by (unfold vswap; bdestr; subst; congruence).
    rewrite <- H. apply Rsum_n_ext. intros j Hj. unfold eff, mswap_rows.
    bdestr; try lia; subst; reflexivity.
  - specialize (H i Hi).
    replace (vswap b p k i) with (b i) in H by (unfold vswap; bdestr; subst; congruence).
    rewrite <- H. apply Rsum_n_ext. intros j Hj. unfold eff, mswap_rows.
    bdestr; try lia; reflexivity.
Qed.

Lemma step_elim n k (a1 a2 : mat R) (b1 b2 x : vec R) : (k < n)%nat -> a1 k k <> 0 ->
  (forall i j, (i < n)%nat -> (j < n)%nat -> a2 i j =
     if (S k <=? i)%nat && (S k <=? j)%nat then a1 i j - (a1 i k / a1 k k) * a1 k j else a1 i j) ->
  (forall i, (i < n)%nat -> b2 i = if (S k <=? i)%nat then b1 i - (a1 i k / a1 k k) * b1 k else b1 i) ->
  esolves n (S k) a2 b2 x -> esolves n k a1 b1 x.
Proof.
  intros Hk Hp HA HB H i Hi.
  destruct (Nat.leb_spec (S k) i) as [L|L].
  - (* a row below the pivot: add the pivot row's equation back *)
    set (f := a1 i k / a1 k k).
    pose proof (H i Hi) as Ei. pose proof (H k Hk) as Ek.
    rewrite HB in Ei, Ek by assumption.
    destruct (Nat.leb_spec (S k) i) as [_|]; [|lia].
    destruct (Nat.leb_spec (S k) k) as [|_]; [lia|].
    fold f in Ei.
    rewrite (Rsum_n_ext _ _ (fun j =>
      (eff (S k) a2 i j * x j + f * (eff (S k) a2 k j * x j))
      + (if (j =? k)%nat then (a1 i k - f * a1 k k) * x k else 0))).
    + rewrite !Rsum_n_plus, Rsum_n_scal, Rsum_n_delta, Ei, Ek by exact Hk.
      unfold f. field. exact Hp.
    + intros j Hj. unfold eff. rewrite !HA by assumption. fold f.
      bdestr; try lia; subst; ring.
  - (* a row at or above the pivot is unchanged *)
    pose proof (H i Hi) as Ei. rewrite HB in Ei by assumption.
    destruct (Nat.leb_spec (S k) i) as [|_]; [lia|].
    rewrite <- Ei. apply Rsum_n_ext. intros j Hj. unfold eff. rewrite HA by assumption.
    bdestr; try lia; reflexivity.
Qed.

Lemma Inv_init n (A : mat R) (b0 : vec R) : Inv n A b0 0 A b0.
Proof.
  split.
  - intros x H i Hi. rewrite <- (H i Hi). apply Rsum_n_ext. intros j Hj.
    unfold eff. bdestr; try lia; reflexivity.
  - intros i Hi. lia.
Qed.

Lemma Rabs_div_zero (s : R) : Rabs (0 / s) = 0.
Proof. unfold Rdiv. rewrite Rmult_0_l. apply Rabs_R0. Qed.

Lemma pivot_test_nonzero (a s tol : R) : 0 < tol ->
  nltb (nabs (ndiv a s)) tol = false -> a <> 0.
Proof.
  intros Ht H E. cbn [nltb nabs ndiv RNum] in H. apply Rltb_false in H.
  subst a. rewrite Rabs_div_zero in H. lra.
Qed.

Lemma fe_step_inv n tol (A0 : mat R) (b0 : vec R) k st : 0 < tol -> (S k < n)%nat ->
  fflag st = false -> Inv n A0 b0 k (fa st) (fb st) ->
  fflag (fe_step n tol k st) = false ->
  Inv n A0 b0 (S k) (fa (fe_step n tol k st)) (fb (fe_step n tol k st)).
Proof.
  intros Ht Hk Hfl [HI1 HI2]. unfold fe_step. rewrite Hfl.
  assert (Hkn : (k < n)%nat) by lia.
  destruct (partial_pivot_spec n (fa st) (fb st) (fs st) k Hkn) as [p [Hp [SA SB]]].
  destruct (partial_pivot n (fa st) (fb st) (fs st) k) as [[a1 b1] s1]. cbn [fst snd] in SA, SB.
  destruct (nltb (nabs (ndiv (a1 k k) (s1 k))) tol) eqn:Etest; cbn [fflag fa fb]; [discriminate|].
  intros _.
  pose proof (pivot_test_nonzero _ _ _ Ht Etest) as Hpiv.
  destruct (elim_below_spec n k a1 b1 Hkn) as [EA EB].
  set (ab := elim_below n k a1 b1) in *.
  split.
  - intros x Hx. apply HI1.
    apply (step_swap n k p _ _ x Hp).
    apply (esolves_ext n k _ a1 _ b1 x); [intros; apply SA|intros; apply SB|].
    apply (step_elim n k a1 (fst ab) b1 (snd ab) x Hkn Hpiv).
    + intros i j Hi Hj. rewrite EA. bdestr; try lia; reflexivity.
    + intros i Hi. rewrite EB. bdestr; try lia; reflexivity.
    + apply (esolves_ext n (S k) _ (retab n n (fst ab)) _ (vretab n (snd ab)) x).
      * intros i j Hi Hj. apply retab_spec; assumption.
      * intros i Hi. apply vretab_spec; assumption.
      * exact Hx.
  - intros i Hi. rewrite retab_spec by lia. rewrite EA.
    destruct (Nat.leb_spec (S k) i) as [|_]; [lia|]. cbn [andb].
    destruct (Nat.eq_dec i k) as [E|E]; [subst i; exact Hpiv|].
    rewrite SA. unfold mswap_rows. bdestr; try lia. apply HI2. lia.
Qed.

Lemma fe_step_flagged n tol k (st : @fstate R) : fflag st = true -> fe_step n tol k st = st.
Proof. intro H. unfold fe_step. rewrite H. reflexivity. Qed.

Lemma fe_loop_inv n tol (A : mat R) (b s : vec R) : 0 < tol -> (0 < n)%nat ->
  let st := for_range 0 (n - 1) (fe_step n tol) (mkf A b s false) in
  fflag st = false -> Inv n A b (n - 1) (fa st) (fb st).
Proof.
  intros Ht Hn.
  pose (P := fun (k : nat) (st : @fstate R) => fflag st = false -> Inv n A b k (fa st) (fb st)).
  assert (HP : P (0 + (n - 1))%nat (for_range 0 (n - 1) (fe_step n tol) (mkf A b s false))).
  { apply (for_range_inv P).
    - intros _. cbn [fa fb]. apply Inv_init.
    - intros i st Hi HP Hfl.
      destruct (fflag st) eqn:E.
      + rewrite (fe_step_flagged n tol i st E) in Hfl. congruence.
      + apply fe_step_inv; try assumption; try lia. apply HP. exact E. }
  exact HP.
Qed.

(* ---------------------------------------------------------------- c08_solves *)
Lemma ge_ok_inv (h w lb : nat) (A : mat R) (b : vec R) (tol : R) (x : vec R) :
  ge h w A lb b tol = Ok x ->
  h = w /\ h = lb /\ (0 < h)%nat /\
  let st := forward_elimination h tol A b (scale_vec h A) in
  has_zero h (scale_vec h A) = false /\ fflag st = false /\
  back_substitution (fa st) h (fb st) (vconst n0) = Ok x.
Proof.
  unfold ge.
  destruct (Nat.eqb_spec h w) as [E1|E1]; cbn [negb]; [|discriminate].
  destruct (Nat.eqb_spec h lb) as [E2|E2]; cbn [negb]; [|discriminate].
  destruct (Nat.eqb_spec h 0) as [E3|E3]; [discriminate|].
  destruct (has_zero h (scale_vec h A)); [discriminate|].
  destruct (fflag (forward_elimination h tol A b (scale_vec h A))) eqn:Efl; [discriminate|].
  intro H. repeat split; try assumption; try lia.
Qed.

Lemma forward_elimination_unflagged n tol (A : mat R) (b s : vec R) :
  fflag (forward_elimination n tol A b s) = false ->
  let st := for_range 0 (n - 1) (fe_step n tol) (mkf A b s false) in
  forward_elimination n tol A b s = st /\ fflag st = false /\
  nltb (nabs (ndiv (fa st (n - 1)%nat (n - 1)%nat) (fs st (n - 1)%nat))) tol = false.
Proof.
  unfold forward_elimination. cbv zeta.
  destruct (fflag (for_range 0 (n - 1) (fe_step n tol) (mkf A b s false))) eqn:E.
  - intro H. congruence.
  - destruct (nltb _ tol) eqn:E2; cbn [fflag]; intro H; [discriminate|].
    repeat split; assumption.
Qed.

Lemma c08_solves : forall (h w lb : nat) (A : mat R) (b : vec R) (tol : R) (x : vec R),
  0 < tol -> ge h w A lb b tol = Ok x ->
  h = w /\ h = lb /\ forall i, (i < h)%nat -> Rsum_n h (fun j => A i j * x j) = b i.
Proof.
  intros h w lb A b tol x Ht H.
  destruct (ge_ok_inv _ _ _ _ _ _ _ H) as [E1 [E2 [Hn [_ [Hfl Hbs]]]]].
  split; [exact E1|]. split; [exact E2|].
  destruct (forward_elimination_unflagged h tol A b _ Hfl) as [EF [Hfl2 Hlast]].
  rewrite EF in Hbs.
  set (st := for_range 0 (h - 1) (fe_step h tol) (mkf A b (scale_vec h A) false)) in *.
  destruct (fe_loop_inv h tol A b (scale_vec h A) Ht Hn Hfl2) as [HI1 HI2]. fold st in HI1, HI2.
  assert (Hd : forall i, (i < h)%nat -> fa st i i <> 0).
  { intros i Hi. destruct (Nat.eq_dec i (h - 1)) as [E|E].
    - subst i. exact (pivot_test_nonzero _ _ _ Ht Hlast).
    - apply HI2. lia. }
  destruct (back_substitution_solves (fa st) h (fb st) (vconst n0) Hn Hd) as [x' [Ex Hx]].
  rewrite Ex in Hbs. injection Hbs as <-.
  apply HI1. intros i Hi. rewrite <- (Hx i Hi).
  apply Rsum_n_ext. intros j Hj. unfold eff. bdestr; try lia; reflexivity.
Qed.

(* ---------------------------------------------------------------- the flag does not depend on b *)
Lemma elim_below_fst_indep n k lo len (a : mat R) (b b' : vec R) :
  fst (for_range lo len (elim_row n k) (a, b)) = fst (for_range lo len (elim_row n k) (a, b')).
Proof.
  revert lo a b b'. induction len as [|len IH]; intros lo a b b'; [reflexivity|].
  cbn [for_range]. unfold elim_row at 2 4. cbn [fst snd]. apply IH.
Qed.

Definition same_but_b (st st' : @fstate R) : Prop :=
  fa st = fa st' /\ fs st = fs st' /\ fflag st = fflag st'.

Lemma fe_step_indep n tol k st st' : same_but_b st st' ->
  same_but_b (fe_step n tol k st) (fe_step n tol k st').
Proof.
  destruct st as [a b s fl], st' as [a' b' s' fl']. unfold same_but_b. cbn [fa fs fflag].
  intros [<- [<- <-]]. unfold fe_step. cbn [fa fb fs fflag].
  destruct fl; cbn [fa fs fflag]; [repeat split|].
  unfold partial_pivot.
  destruct (pivot_row n a s k =? k)%nat.
  - destruct (nltb (nabs (ndiv (a k k) (s k))) tol); cbn [fa fs fflag]; [repeat split|].
    unfold elim_below. rewrite (elim_below_fst_indep n k (S k) (n - S k) a b b'). repeat split.
  - set (a1 := mswap_rows a _ k). set (s1 := vswap s _ k).
    destruct (nltb (nabs (ndiv (a1 k k) (s1 k))) tol); cbn [fa fs fflag]; [repeat split|].
    unfold elim_below. rewrite (elim_below_fst_indep n k (S k) (n - S k) a1 _ (vswap b' (pivot_row n a s k) k)).
    repeat split.
Qed.

Lemma fe_loop_indep n tol lo len st st' : same_but_b st st' ->
  same_but_b (for_range lo len (fe_step n tol) st) (for_range lo len (fe_step n tol) st').
Proof.
  revert lo st st'. induction len as [|len IH]; intros lo st st' H; [exact H|].
  cbn [for_range]. apply IH. apply fe_step_indep. exact H.
Qed.

Lemma forward_elimination_flag_indep n tol (A : mat R) (b b' s : vec R) :
  fflag (forward_elimination n tol A b s) = fflag (forward_elimination n tol A b' s).
Proof.
  unfold forward_elimination. cbv zeta.
  assert (H : same_but_b (mkf A b s false) (mkf A b' s false)) by (repeat split).
  destruct (fe_loop_indep n tol 0 (n - 1) _ _ H) as [EA [ES EF]].
  rewrite <- EF, <- EA, <- ES.
  destruct (fflag (for_range 0 (n - 1) (fe_step n tol) (mkf A b s false))) eqn:E.
  - congruence.
  - destruct (nltb _ tol); cbn [fflag]; congruence.
Qed.

Lemma ge_ok_any_rhs n (A : mat R) (b b' : vec R) tol x :
  ge n n A n b tol = Ok x -> exists x', ge n n A n b' tol = Ok x'.
Proof.
  intro H. destruct (ge_ok_inv _ _ _ _ _ _ _ H) as [_ [_ [Hn [Hz [Hfl _]]]]].
  unfold ge. rewrite Nat.eqb_refl. cbn [negb].
  destruct (Nat.eqb_spec n 0) as [E|E]; [lia|].
  rewrite Hz, (forward_elimination_flag_indep n tol A b' b), Hfl.
  destruct n as [|m]; [lia|]. eexists. reflexivity.
Qed.

Lemma ge_square_cases n (A : mat R) (b : vec R) tol : (0 < n)%nat ->
  ge n n A n b tol = Err ESingularMatrix \/ exists x, ge n n A n b tol = Ok x.
Proof.
  intro Hn. unfold ge. rewrite Nat.eqb_refl. cbn [negb].
  destruct (Nat.eqb_spec n 0) as [E|E]; [lia|].
  destruct (has_zero n (scale_vec n A)); [left; reflexivity|].
  destruct (fflag _); [left; reflexivity|].
  right. destruct n as [|m]; [lia|]. eexists. reflexivity.
Qed.

Lemma c08_singular_refused : forall (n : nat) (A : mat R) (tol : R), 0 < tol ->
  (exists w : vec R, (exists i, (i < n)%nat /\ w i <> 0) /\
      forall j, (j < n)%nat -> Rsum_n n (fun i => w i * A i j) = 0) ->
  forall b : vec R, ge n n A n b tol = Err ESingularMatrix.
Proof.
  intros n A tol Ht [w [[i0 [Hi0 Hw0]] Hw]] b.
  destruct (ge_square_cases n A b tol ltac:(lia)) as [E|[x E]]; [exact E|exfalso].
  destruct (ge_ok_any_rhs n A b (fun j => if (j =? i0)%nat then 1 else 0) tol x E) as [x' E'].
  destruct (c08_solves _ _ _ _ _ _ _ Ht E') as [_ [_ Hs]].
  apply Hw0.
  assert (H1 : Rsum_n n (fun i => w i * Rsum_n n (fun j => A i j * x' j)) = w i0).
  { rewrite (Rsum_n_ext _ _ (fun i => if (i =? i0)%nat then w i0 else 0)).
    - apply Rsum_n_delta. exact Hi0.
    - intros i Hi. rewrite (Hs i Hi). bdestr; subst; ring. }
  rewrite <- H1.
  rewrite (Rsum_n_ext _ _ (fun i => Rsum_n n (fun j => w i * A i j * x' j))).
  - rewrite Rsum_n_swap. apply Rsum_n_zero. intros j Hj.
    rewrite (Rsum_n_ext _ _ (fun i => x' j * (w i * A i j))) by (intros; ring).
    rewrite Rsum_n_scal, (Hw j Hj). ring.
  - intros i Hi. rewrite <- Rsum_n_scal. apply Rsum_n_ext. intros; ring.
Qed.

(* ---------------------------------------------------------------- shape *)
Lemma back_substitution_no_panic (a : mat R) n b s0 : (n <> 0)%nat ->
  exists x, back_substitution a n b s0 = Ok x.
Proof. intro H. destruct n as [|m]; [congruence|]. eexists. reflexivity. Qed.

Lemma c08_shape : forall (h w lb : nat) (A : mat R) (b : vec R) (tol : R),
  (h <> w -> ge h w A lb b tol = Err ENonSquareMatrix) /\
  (h = w -> h <> lb -> ge h w A lb b tol = Err ENumArgumentsMismatch) /\
  (h = 0%nat -> exists e, ge h w A lb b tol = Err e) /\
  (forall y, ge h w A lb b tol <> Panic y).
Proof.
  intros h w lb A b tol. repeat split.
  - intro H. unfold ge. apply Nat.eqb_neq in H. rewrite H. reflexivity.
  - intros H1 H2. unfold ge. subst w. rewrite Nat.eqb_refl. cbn [negb].
    apply Nat.eqb_neq in H2. rewrite H2. reflexivity.
  - intro H. subst h. unfold ge.
    destruct (0 =? w)%nat; cbn [negb]; [|eexists; reflexivity].
    destruct (0 =? lb)%nat; cbn [negb]; eexists; reflexivity.
  - intro y. unfold ge.
    destruct (negb (h =? w)%nat); [discriminate|].
    destruct (negb (h =? lb)%nat); [discriminate|].
    destruct (h =? 0)%nat eqn:E; [discriminate|].
    destruct (has_zero h (scale_vec h A)); [discriminate|].
    destruct (fflag _); [discriminate|].
    apply Nat.eqb_neq in E.
    destruct (back_substitution_no_panic (fa (forward_elimination h tol A b (scale_vec h A))) h
                (fb (forward_elimination h tol A b (scale_vec h A))) (vconst n0) E) as [x Hx].
    rewrite Hx. discriminate.
Qed.

(* ---------------------------------------------------------------- the list boundary (what is extracted and run) *)
Lemma c08_lists : forall (rows : list (list R)) (rhs : list R) (tol : R) (xs : list R),
  0 < tol -> ge_lists rows rhs tol = Ok xs ->
  (forall r, In r rows -> length r = length rows) /\ length rhs = length rows /\ length xs = length rows /\
  forall i, (i < length rows)%nat ->
    Rsum_n (length rows) (fun j => nth j (nth i rows []) 0 * nth j xs 0) = nth i rhs 0.
Proof.
  intros rows rhs tol xs Ht. unfold ge_lists.
  destruct (rows_consistent rows) eqn:C; cbn [negb]; [|discriminate].
  destruct (ge _ _ _ _ _ _) as [x|e|y] eqn:G; cbn [res_map]; try discriminate.
  intro H. injection H as <-.
  destruct (c08_solves _ _ _ _ _ _ _ Ht G) as [E1 [E2 Hs]].
  repeat split.
  - intros r Hr. unfold rows_consistent in C. rewrite forallb_forall in C.
    specialize (C r Hr). apply Nat.eqb_eq in C. lia.
  - lia.
  - unfold list_of_vec. rewrite map_length, seq_length. reflexivity.
  - intros i Hi. etransitivity; [|exact (Hs i Hi)]. apply Rsum_n_ext. intros j Hj.
    unfold list_of_vec, mat_of_lists. rewrite (nth_seq_map x (length rows) j 0 Hj). reflexivity.
Qed.

(* ---------------------------------------------------------------- non-vacuity *)
Ltac rabs :=
  repeat match goal with
  | |- context [Rabs ?t] =>
      first [ rewrite (Rabs_pos_eq t) by lra | rewrite (Rabs_left1 t) by lra ]
  end.
Ltac rcmp :=
  repeat match goal with
  | |- context [Rltb ?a ?b] =>
      first [ rewrite (proj2 (Rltb_true a b)) by lra | rewrite (proj2 (Rltb_false a b)) by lra ]
  | |- context [Reqb ?a ?b] =>
      first [ rewrite (proj2 (Reqb_true a b)) by lra | rewrite (proj2 (Reqb_false a b)) by lra ]
  end.

(* the 1x1 system 2 x = 6 is accepted (so the hypothesis of c08_solves is satisfiable) ... *)
Lemma ex_ge_ok : exists x, ge 1 1 (fun _ _ => 2) 1 (fun _ => 6) (1 / 10) = Ok x.
Proof.
  unfold ge. cbn [Nat.eqb negb].
  assert (Hs : forall i, (i < 1)%nat -> scale_vec 1 (fun _ _ : nat => 2) i = 2).
  { intros i Hi. unfold scale_vec. rewrite vretab_spec by exact Hi.
    unfold scale_row. cbn [Nat.sub for_range nabs RNum]. rabs. reflexivity. }
  unfold has_zero. cbn [seq existsb]. rewrite (Hs 0%nat) by lia.
  cbn [neqb n0 RNum orb]. rcmp. cbn [orb].
  unfold forward_elimination. cbn [Nat.sub for_range fflag fa fs].
  rewrite (Hs 0%nat) by lia. cbn [nltb nabs ndiv RNum].
  replace (2 / 2) with 1 by field. rabs. rcmp. cbn [fflag].
  eexists. reflexivity.
Qed.

(* ... and the all-ones 2x2 matrix meets the hypothesis of c08_singular_refused *)
Lemma ex_singular_hyp : exists w : vec R, (exists i, (i < 2)%nat /\ w i <> 0) /\
  forall j, (j < 2)%nat -> Rsum_n 2 (fun i => w i * (fun _ _ : nat => 1) i j) = 0.
Proof.
  exists (fun i => if (i =? 0)%nat then 1 else -1). split.
  - exists 0%nat. split; [lia|]. cbn. lra.
  - intros j Hj. cbn. ring.
Qed.

Lemma ex_singular_refused : forall b : vec R, ge 2 2 (fun _ _ => 1) 2 b (1 / 1000) = Err ESingularMatrix.
Proof. apply c08_singular_refused; [lra | exact ex_singular_hyp]. Qed.
