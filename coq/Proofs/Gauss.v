(* Proofs/Gauss.v — C08: Gaussian elimination (R instance). *)
From Coq Require Import ZArith List Bool Arith Reals Lra Lia.
From SV Require Import Base.Num Base.Outcome Base.Mat Model.Subst Model.Gauss.
Import ListNotations.
Local Open Scope R_scope.

Lemma back_substitution_no_panic (a : mat R) n b s0 : (n <> 0)%nat ->
  exists x, back_substitution a n b s0 = Ok x.
Proof. intro H. destruct n as [|m]; [congruence|]. eexists. reflexivity. Qed.

Lemma c08_shape : forall (h w lb : nat) (A : mat R) (b : vec R) (tol : R),
  (h <> w -> ge h w A lb b tol = Err ENonSquareMatrix) /\
  (h = w -> h <> lb -> ge h w A lb b tol = Err ENumArgumentsMismatch) /\
  (h = 0%nat -> exists e, ge h w A lb b tol = Err e) /\
  (forall y, ge h w A lb b tol <> Panic y).
Proof.
  intros h w lb A b tol. repeat split.
  - intro H. unfold ge. apply Nat.eqb_neq in H. rewrite H. reflexivity.
  - intros H1 H2. unfold ge. subst w. rewrite Nat.eqb_refl. cbn [negb].
    apply Nat.eqb_neq in H2. rewrite H2. reflexivity.
  - intro H. subst h. unfold ge.
    destruct (0 =? w)%nat; cbn [negb]; [|eexists; reflexivity].
    destruct (0 =? lb)%nat; cbn [negb]; eexists; reflexivity.
  - intro y. unfold ge.
    destruct (negb (h =? w)%nat); [discriminate|].
    destruct (negb (h =? lb)%nat); [discriminate|].
    destruct (h =? 0)%nat eqn:E; [discriminate|].
    destruct (has_zero h (scale_vec h A)); [discriminate|].
    destruct (fflag _); [discriminate|].
    apply Nat.eqb_neq in E.
    destruct (back_substitution_no_panic (fa (forward_elimination h tol A b (scale_vec h A))) h
                (fb (forward_elimination h tol A b (scale_vec h A))) (vconst n0) E) as [x Hx].
    rewrite Hx. discriminate.
Qed.
