(* Proofs/ParseFloatI.v — float-level FIDELITY of the coefficients stored by the MULTIVARIATE parser.

   What the model (Model/Parse.v parse_inter, Model/GrammarI.v terms_of) does for FNum:
     * i_terms = map term_of src : ONE stored term per written term.  Like monomials are NOT merged
       (the only merge is, inside one term, of the exponents of a repeated letter: sum_exps).
     * the stored coefficient is  coef_val neg c :
         omitted         (+-)1                                  exact
         decimal d       (+-) dec2float m e                     one rounding
         fraction a/b    PrimFloat.div ((+-)dec2float a) (dec2float b)
                         two correctly rounded readings, then ONE division; the sign is on the numerator
     * sum_exps [e1; ..; et] = fold_left add [e2; ..; et] e1 : additions into the FIRST exponent (t-1 additions).

   eps = 2^-53.
   (1) dec2float_rel_error_opt   |fl(v) - v| <= eps/(1+eps) * v in the normal range (round to nearest, optimal bound)
   (2) frac_coef_ok              |fl((+-)fl(a)/fl(b)) - (+-)a/b| <= ((1+eps)^3 - 1) |a/b|
                                 (the optimal bound (1) on the denominator is what makes (1+eps)^3 honest)
   (3) parse_i_float_coeff_error every stored coefficient t_coef (term_of x): relative error (1+eps)^c - 1,
                                 c = 0 (omitted) / 1 (decimal) / 3 (fraction)
   (4) fsum_from_float_error     summation INTO a first element: ((1+eps)^(t-1) - 1)
       sum_exps_float_error      merged exponent of a repeated letter: written values of relative error u each
                                 ==> ((1+u)(1+eps)^(t-1) - 1) * sum of magnitudes
   (5) Example "0.5xy + 1/3xy - 2y".                                                              *)
From Coq Require Import ZArith NArith List Bool Reals Floats Lia Lra.
From Flocq Require Import Core Relative BinarySingleNaN PrimFloat.
From SV Require Import Base.Num Base.Outcome Base.Str Model.Poly Model.Parse Model.GrammarI
  Proofs.Stats Proofs.StatsFloat Proofs.SubstFloat Proofs.DefiniteFloat Proofs.DecFloat Proofs.ParseFloat.
Import ListNotations.
Local Open Scope R_scope.

Local Notation pfloat := PrimFloat.float.
Local Notation dec_val := Proofs.DecFloat.dec_val.
Local Notation bfinite := BinarySingleNaN.is_finite.

(* ---- pure reals ------------------------------------------------------------ *)
Lemma rel_to_ex (x y u : R) : 0 <= u -> Rabs (x - y) <= u * Rabs y -> exists d, Rabs d <= u /\ x = y * (1 + d).
Proof.
  intros Hu H. destruct (Req_dec y 0) as [->|Hy].
  - exists 0. rewrite Rabs_R0. split; [exact Hu|].
    rewrite Rabs_R0, Rmult_0_r, Rminus_0_r in H.
    assert (Rabs x = 0) by (pose proof (Rabs_pos x); lra).
    destruct (Req_dec x 0) as [->|Hx]; [ring|]. apply Rabs_no_R0 in Hx. contradiction.
  - exists ((x - y) / y). split; [|field; exact Hy].
    unfold Rdiv. rewrite Rabs_mult, Rabs_inv.
    apply Rabs_pos_lt in Hy.
    apply Rmult_le_reg_r with (Rabs y); [exact Hy|].
    rewrite Rmult_assoc, Rinv_l by lra. lra.
Qed.

(* one more factor *)
Lemma prod_step (p P d u : R) :
  0 <= u -> 1 <= P -> Rabs (p - 1) <= P - 1 -> Rabs d <= u -> Rabs (p * (1 + d) - 1) <= P * (1 + u) - 1.
Proof.
  intros Hu HP Hp Hd.
  replace (p * (1 + d) - 1) with ((p - 1) * (1 + d) + d) by ring.
  eapply Rle_trans; [apply Rabs_triang|]. rewrite Rabs_mult.
  assert (H1 : Rabs (1 + d) <= 1 + u).
  { eapply Rle_trans; [apply Rabs_triang|]. rewrite Rabs_R1. lra. }
  assert (H2 : Rabs (p - 1) * Rabs (1 + d) <= (P - 1) * (1 + u)).
  { apply Rmult_le_compat; try apply Rabs_pos; assumption. }
  lra.
Qed.

(* the inverse of 1+d, |d| <= u/(1+u), is 1+d' with |d'| <= u *)
Lemma inv_1p (u d : R) : 0 <= u -> Rabs d <= u / (1 + u) ->
  1 + d <> 0 /\ Rabs (/ (1 + d) - 1) <= u.
Proof.
  intros Hu Hd.
  set (w := u / (1 + u)) in *.
  assert (Hw : w * (1 + u) = u) by (unfold w; field; lra).
  assert (Hw0 : 0 <= w) by (unfold w; apply Rmult_le_pos; [lra|apply Rlt_le, Rinv_0_lt_compat; lra]).
  assert (Hwu : w <= u) by nra.
  assert (Hw1 : w < 1) by nra.
  assert (Hd' : - w <= d <= w) by (apply Rabs_le_inv; exact Hd).
  assert (Hpos : 0 < 1 + d) by lra.
  split; [lra|].
  replace (/ (1 + d) - 1) with (- d * / (1 + d)) by (field; lra).
  rewrite Rabs_mult, Rabs_Ropp, (Rabs_pos_eq (/ (1 + d))) by (apply Rlt_le, Rinv_0_lt_compat; exact Hpos).
  apply Rmult_le_reg_r with (1 + d); [exact Hpos|].
  rewrite Rmult_assoc, Rinv_l, Rmult_1_r by lra.
  destruct (Rle_dec 0 d) as [P|N].
  - rewrite Rabs_pos_eq by exact P. nra.
  - rewrite Rabs_left by lra. nra.
Qed.

Lemma three_factors (d1 d2 d3 u : R) : 0 <= u ->
  Rabs d1 <= u -> Rabs d2 <= u -> Rabs d3 <= u ->
  Rabs ((1 + d1) * (1 + d2) * (1 + d3) - 1) <= (1 + u) ^ 3 - 1.
Proof.
  intros Hu H1 H2 H3.
  assert (A : Rabs ((1 + d1) - 1) <= (1 + u) - 1).
  { replace (1 + d1 - 1) with d1 by ring. lra. }
  assert (B : Rabs ((1 + d1) * (1 + d2) - 1) <= (1 + u) * (1 + u) - 1).
  { apply prod_step; try assumption; lra. }
  assert (C : Rabs ((1 + d1) * (1 + d2) * (1 + d3) - 1) <= (1 + u) * (1 + u) * (1 + u) - 1).
  { apply prod_step; try assumption. nra. }
  replace ((1 + u) ^ 3) with ((1 + u) * (1 + u) * (1 + u)) by ring. exact C.
Qed.

(* ---- (1) the optimal relative error of the decimal reading --------------------------------- *)
Lemma dec2float_rel_error_opt (m e : Z) :
  (0 < m)%Z -> bpow radix2 (-1022) <= dec_val m e <= bpow radix2 1023 ->
  ffin (dec2float m e) /\
  Rabs (FR (dec2float m e) - dec_val m e) <= feps / (1 + feps) * dec_val m e.
Proof.
  intros Hm [Hlo Hhi].
  assert (Hpos : 0 < dec_val m e).
  { eapply Rlt_le_trans; [apply (bpow_gt_0 radix2 (-1022))|exact Hlo]. }
  assert (Hov : Rabs (round radix2 (FLT_exp (-1074) 53) ZnearestE (dec_val m e)) < bpow radix2 1024).
  { apply dec_no_overflow. lra. }
  destruct (dec2float_correct m e Hm Hov) as [F E]. split; [exact F|].
  unfold FR. rewrite E.
  rewrite (round_FLT_FLX radix2 (-1074) 53).
  - pose proof (relative_error_N_FLX' radix2 53 eq_refl (fun t => negb (Z.even t)) (dec_val m e)) as H.
    rewrite u_ro_feps in H. rewrite (Rabs_pos_eq (dec_val m e)) in H by lra. exact H.
  - rewrite Rabs_pos_eq by lra. exact Hlo.
Qed.

(* ---- (2) one written fraction ---------------------------------------------------------------- *)
Lemma frac_coef_ok (neg : bool) (ma ea mb eb : Z) :
  dec_ok (neg, ma, ea) -> dec_ok (false, mb, eb) ->
  okdiv (dcoef (neg, ma, ea)) (dcoef (false, mb, eb)) ->
  ffin (PrimFloat.div (dcoef (neg, ma, ea)) (dcoef (false, mb, eb))) /\
  Rabs (FR (PrimFloat.div (dcoef (neg, ma, ea)) (dcoef (false, mb, eb))) - dreal (neg, ma, ea) / dec_val mb eb)
    <= ((1 + feps) ^ 3 - 1) * Rabs (dreal (neg, ma, ea) / dec_val mb eb).
Proof.
  intros Ha Hb Hdiv. split; [exact (proj1 Hdiv)|].
  pose proof feps_pos as He.
  destruct (dcoef_ok _ Ha) as [_ Ea].
  destruct (rel_to_ex _ _ feps (Rlt_le _ _ He) Ea) as [d1 [Hd1 E1]].
  destruct (div_finite_rel _ _ Hdiv) as [d3 [Hd3 E3]].
  assert (Hb' : (0 < mb)%Z /\ bpow radix2 (-1022) <= dec_val mb eb <= bpow radix2 1023).
  { destruct Hb as [->|Hb]; [|exact Hb].
    exfalso. destruct Hdiv as [_ [Hnz _]]. apply Hnz.
    cbn [dcoef dec2float]. apply (proj1 FR_zero). }
  destruct Hb' as [Hmb Hbr].
  destruct (dec2float_rel_error_opt mb eb Hmb Hbr) as [_ Eb].
  assert (Hbpos : 0 < dec_val mb eb).
  { eapply Rlt_le_trans; [apply (bpow_gt_0 radix2 (-1022))|exact (proj1 Hbr)]. }
  assert (Hw0 : 0 <= feps / (1 + feps)).
  { apply Rmult_le_pos; [lra|apply Rlt_le, Rinv_0_lt_compat; lra]. }
  rewrite <- (Rabs_pos_eq (dec_val mb eb)) in Eb at 2 by lra.
  destruct (rel_to_ex _ _ _ Hw0 Eb) as [d2 [Hd2 E2]].
  destruct (inv_1p feps d2 (Rlt_le _ _ He) Hd2) as [Hnz Hinv].
  rewrite E3, E1. change (dcoef (false, mb, eb)) with (dec2float mb eb). rewrite E2.
  set (ra := dreal (neg, ma, ea)) in *. set (b := dec_val mb eb) in *.
  replace (ra * (1 + d1) / (b * (1 + d2)) * (1 + d3) - ra / b)
    with (ra / b * ((1 + d1) * (1 + (/ (1 + d2) - 1)) * (1 + d3) - 1)) by (field; split; lra).
  rewrite Rabs_mult, Rmult_comm. apply Rmult_le_compat_r; [apply Rabs_pos|].
  apply three_factors; try assumption. lra.
Qed.

(* ---- (3) the coefficient of a written term (Model/GrammarI.v) -------------------------------- *)
Definition idec_dterm (neg : bool) (d : dec) : dterm :=
  match d_frac d with
  | None => (neg, digits_val (d_int d), 0%Z)
  | Some f => (neg, digits_val (d_int d ++ f), (- Z.of_nat (length f))%Z)
  end.

Lemma signed_dec_val (neg : bool) (d : dec) :
  signed neg (@GrammarI.dec_val pfloat FNum d) = dcoef (idec_dterm neg d).
Proof. unfold GrammarI.dec_val, idec_dterm, signed. destruct (d_frac d); destruct neg; reflexivity. Qed.

(* the exact rational the coefficient spelling denotes; its number of roundings; its side condition *)
Definition coef_real (neg : bool) (c : option coef) : R :=
  match c with
  | None => if neg then -1 else 1
  | Some (CDec d) => dreal (idec_dterm neg d)
  | Some (CFrac a b) => dreal (idec_dterm neg a) / dmag (idec_dterm false b)
  end.
Definition coef_rounds (c : option coef) : nat :=
  match c with None => 0 | Some (CDec _) => 1 | Some (CFrac _ _) => 3 end.
Definition coef_okf (neg : bool) (c : option coef) : Prop :=
  match c with
  | None => True
  | Some (CDec d) => dec_ok (idec_dterm neg d)
  | Some (CFrac a b) => dec_ok (idec_dterm neg a) /\ dec_ok (idec_dterm false b) /\
                        okdiv (dcoef (idec_dterm neg a)) (dcoef (idec_dterm false b))
  end.

(* the definitions above, by their unfoldings *)
Lemma coef_defs (neg : bool) (d a b : dec) :
  idec_dterm neg d = (neg, match d_frac d with None => digits_val (d_int d) | Some f => digits_val (d_int d ++ f) end,
                           match d_frac d with None => 0%Z | Some f => (- Z.of_nat (length f))%Z end) /\
  coef_real neg None = (if neg then -1 else 1) /\
  coef_real neg (Some (CDec d)) = dreal (idec_dterm neg d) /\
  coef_real neg (Some (CFrac a b)) = dreal (idec_dterm neg a) / dmag (idec_dterm false b) /\
  coef_rounds None = 0%nat /\ coef_rounds (Some (CDec d)) = 1%nat /\ coef_rounds (Some (CFrac a b)) = 3%nat /\
  (coef_okf neg None <-> True) /\
  (coef_okf neg (Some (CDec d)) <-> dec_ok (idec_dterm neg d)) /\
  (coef_okf neg (Some (CFrac a b)) <->
     dec_ok (idec_dterm neg a) /\ dec_ok (idec_dterm false b) /\
     okdiv (dcoef (idec_dterm neg a)) (dcoef (idec_dterm false b))).
Proof.
  split; [unfold idec_dterm; destruct (d_frac d); reflexivity|].
  repeat (split; [reflexivity|]). cbn [coef_okf]. tauto.
Qed.

Lemma FR_one : FR PrimFloat.one = 1 /\ ffin PrimFloat.one.
Proof.
  unfold FR, ffin. rewrite one_equiv, Prim2B_B2Prim. split; [apply Bone_correct|apply is_finite_Bone].
Qed.

Theorem coef_val_float_error (neg : bool) (c : option coef) : coef_okf neg c ->
  bfinite (Prim2B (@coef_val pfloat FNum neg c)) = true /\
  Rabs (B2R (Prim2B (@coef_val pfloat FNum neg c)) - coef_real neg c)
    <= ((1 + bpow radix2 (-53)) ^ coef_rounds c - 1) * Rabs (coef_real neg c).
Proof.
  fold feps. intros Hok. destruct c as [[d|a b]|]; cbn [coef_val coef_real coef_rounds coef_okf] in *.
  - rewrite signed_dec_val. destruct (dcoef_ok _ Hok) as [F E]. split; [exact F|].
    fold (FR (dcoef (idec_dterm neg d))). rewrite pow_1. replace (1 + feps - 1) with feps by ring. exact E.
  - destruct Hok as [Ha [Hb Hd]]. rewrite !signed_dec_val.
    change (@GrammarI.dec_val pfloat FNum b) with (signed false (@GrammarI.dec_val pfloat FNum b)).
    rewrite signed_dec_val.
    destruct (idec_dterm neg a) as [[na ma] ea] eqn:Ea.
    assert (na = neg) as -> by (unfold idec_dterm in Ea; destruct (d_frac a); congruence).
    destruct (idec_dterm false b) as [[nb mb] eb] eqn:Eb.
    assert (nb = false) as -> by (unfold idec_dterm in Eb; destruct (d_frac b); congruence).
    exact (frac_coef_ok neg ma ea mb eb Ha Hb Hd).
  - destruct FR_one as [O F]. unfold signed.
    change (@nneg pfloat FNum (@n1 pfloat FNum)) with (PrimFloat.opp PrimFloat.one).
    change (@n1 pfloat FNum) with PrimFloat.one. destruct neg.
    + destruct (FR_opp PrimFloat.one) as [E G]. split; [apply G, F|].
      fold (FR (PrimFloat.opp PrimFloat.one)). rewrite E, O.
      match goal with |- Rabs ?t <= _ => replace t with 0 by ring end. rewrite Rabs_R0. cbn [pow]. lra.
    + split; [exact F|]. fold (FR PrimFloat.one). rewrite O.
      match goal with |- Rabs ?t <= _ => replace t with 0 by ring end. rewrite Rabs_R0. cbn [pow]. lra.
Qed.

(* on the parser's own term list: i_terms = terms_of src = map term_of src (Proofs/InterParse.v accept_canonical) *)
Theorem parse_i_float_coeff_error (x : bool * mterm) :
  coef_okf (fst x) (fst (snd x)) ->
  bfinite (Prim2B (t_coef (@term_of pfloat FNum x))) = true /\
  Rabs (B2R (Prim2B (t_coef (@term_of pfloat FNum x))) - coef_real (fst x) (fst (snd x)))
    <= ((1 + bpow radix2 (-53)) ^ coef_rounds (fst (snd x)) - 1) * Rabs (coef_real (fst x) (fst (snd x))).
Proof. intros H. exact (coef_val_float_error _ _ H). Qed.

(* like monomials are not merged: one stored term per written term, in source order *)
Lemma terms_not_merged (src : msrc) :
  length (@terms_of pfloat FNum src) = length src /\
  forall i x, nth_error src i = Some x -> nth_error (@terms_of pfloat FNum src) i = Some (term_of x).
Proof.
  unfold terms_of. split; [apply map_length|]. intros i x H. apply map_nth_error, H.
Qed.

(* ---- (4) the one merge of the parser: exponents of a repeated letter -------------------------- *)
(* left-to-right summation INTO a first value s *)
Lemma fsum_from_float_error (s : pfloat) (l : list pfloat) :
  ffin s -> (forall x, In x l -> ffin x) ->
  (forall k, (k <= length l)%nat -> ffin (fold_left PrimFloat.add (firstn k l) s)) ->
  ffin (fold_left PrimFloat.add l s) /\
  Rabs (FR (fold_left PrimFloat.add l s) - (FR s + Rsum (map FR l)))
    <= ((1 + feps) ^ length l - 1) * (absFR s + Rsum (map absFR l)).
Proof.
  intros Fs0. induction l as [|x l IH] using rev_ind; intros Hfin Hpre.
  - cbn [fold_left length map pow]. split; [exact Fs0|].
    unfold Rsum; cbn [fold_right].
    match goal with |- Rabs ?t <= _ => replace t with 0 by ring end. rewrite Rabs_R0. lra.
  - assert (Hfl : forall y, In y l -> ffin y).
    { intros y Hy. apply Hfin, in_or_app. left; exact Hy. }
    assert (Hfx : ffin x). { apply Hfin, in_or_app. right; left; reflexivity. }
    assert (Hpl : forall k, (k <= length l)%nat -> ffin (fold_left PrimFloat.add (firstn k l) s)).
    { intros k Hk. specialize (Hpre k). rewrite app_length in Hpre. cbn [length] in Hpre.
      rewrite firstn_app in Hpre. replace (k - length l)%nat with 0%nat in Hpre by lia.
      cbn [firstn] in Hpre. rewrite app_nil_r in Hpre. apply Hpre. lia. }
    assert (Hfa : ffin (PrimFloat.add (fold_left PrimFloat.add l s) x)).
    { specialize (Hpre (length (l ++ [x])) (le_n _)).
      rewrite firstn_all, fold_left_app in Hpre. exact Hpre. }
    destruct (IH Hfl Hpl) as [Fs Es].
    rewrite fold_left_app. cbn [fold_left]. split; [exact Hfa|].
    destruct (add_finite_rel _ _ Fs Hfx Hfa) as [d [Hd Hr]].
    rewrite Hr, !map_app, app_length. cbn [map length].
    rewrite !Rsum_snoc. replace (length l + 1)%nat with (S (length l)) by lia.
    rewrite <- tech_pow_Rmult. rewrite (Rmult_comm (1 + feps)).
    replace (FR s + (Rsum (map FR l) + FR x)) with ((FR s + Rsum (map FR l)) + FR x) by ring.
    replace (absFR s + (Rsum (map absFR l) + absFR x)) with ((absFR s + Rsum (map absFR l)) + Rabs (FR x))
      by (unfold absFR; ring).
    apply step_bound.
    + apply Rlt_le, feps_pos.
    + apply pow1p_ge1, Rlt_le, feps_pos.
    + exact Hd.
    + eapply Rle_trans; [apply Rabs_triang|]. unfold absFR at 1.
      pose proof (Rsum_abs_le (map FR l)) as H. rewrite <- map_absFR in H. lra.
    + exact Es.
Qed.

(* sum_exps [e1; ..; et] adds e2..et into e1.  If each written exponent [fl a] has relative error u with respect
   to its exact value [g a], the merged exponent is within ((1+u)(1+eps)^(t-1) - 1) * sum|g| of sum g. *)
Theorem sum_exps_float_error {A : Type} (fl : A -> pfloat) (g : A -> R) (u : R) (l : list A) :
  0 <= u -> l <> [] ->
  (forall a, In a l -> ffin (fl a) /\ Rabs (FR (fl a) - g a) <= u * Rabs (g a)) ->
  (forall k, (1 <= k <= length l)%nat -> ffin (@sum_exps pfloat FNum (firstn k (map fl l)))) ->
  ffin (@sum_exps pfloat FNum (map fl l)) /\
  Rabs (FR (@sum_exps pfloat FNum (map fl l)) - Rsum (map g l))
    <= ((1 + u) * (1 + feps) ^ (length l - 1) - 1) * Rsum (map (fun a => Rabs (g a)) l).
Proof.
  intros Hu Hne Hterm Hpre. destruct l as [|a l]; [congruence|]. clear Hne.
  cbn [map sum_exps length]. replace (S (length l) - 1)%nat with (length l) by lia.
  change (@nadd pfloat FNum) with PrimFloat.add.
  assert (Fa : ffin (fl a)) by (apply Hterm; left; reflexivity).
  assert (Fl : forall x, In x (map fl l) -> ffin x).
  { intros x Hx. apply in_map_iff in Hx. destruct Hx as [b [<- Hb]]. apply Hterm. right; exact Hb. }
  assert (Pl : forall k, (k <= length (map fl l))%nat -> ffin (fold_left PrimFloat.add (firstn k (map fl l)) (fl a))).
  { intros k Hk. rewrite map_length in Hk. apply (Hpre (S k)). cbn [length]. lia. }
  destruct (fsum_from_float_error (fl a) (map fl l) Fa Fl Pl) as [F E]. split; [exact F|].
  rewrite map_length in E.
  pose proof feps_pos as He.
  pose proof (pow1p_ge1 feps (length l) (Rlt_le _ _ He)) as HP.
  pose proof (decimal_sum_combine (fun b => FR (fl b)) g u ((1 + feps) ^ length l - 1)
                (FR (fold_left PrimFloat.add (map fl l) (fl a))) (a :: l)) as C.
  replace ((1 + u) * (1 + ((1 + feps) ^ length l - 1)) - 1) with ((1 + u) * (1 + feps) ^ length l - 1) in C by ring.
  cbn [map] in C. rewrite !Rsum_cons in C. rewrite !Rsum_cons. apply C.
  - exact Hu.
  - lra.
  - intros b Hb. apply Hterm, Hb.
  - rewrite !map_map in E. exact E.
Qed.

(* a written exponent has the shape of a written coefficient: coef_val_float_error applies to it *)
Lemma expo_val_as_coef (e : expo) :
  @expo_val pfloat FNum e
  = @coef_val pfloat FNum (fst e) (Some (match snd e with EDec d => CDec d | EFrac a b => CFrac a b end)).
Proof. unfold expo_val, coef_val. destruct (snd e); reflexivity. Qed.

(* ---- (5) non-vacuity --------------------------------------------------------------------------- *)
From Coq Require Import String.
Local Open Scope string_scope.

Definition dint (s : string) : dec := {| d_int := lit s; d_frac := None |}.
(* "0.5xy + 1/3xy - 2y" *)
Definition ex_isrc : msrc :=
  [(false, (Some (CDec {| d_int := lit "0"; d_frac := Some (lit "5") |}), [(120%N, None); (121%N, None)]));
   (false, (Some (CFrac (dint "1") (dint "3")), [(120%N, None); (121%N, None)]));
   (true, (Some (CDec (dint "2")), [(121%N, None)]))].

(* accepted; three stored terms (the two xy terms are NOT merged); the fraction is fl(fl(1)/fl(3)) *)
Example ex_isrc_parse :
  @wf_src pfloat FNum ex_isrc = true /\ strip_ws (lit "0.5xy + 1/3xy - 2y") = render false ex_isrc /\
  @parse_inter pfloat FNum uclass_tab (lit "0.5xy + 1/3xy - 2y")
    = Ok {| i_terms := [ {| t_coef := 0.5%float; t_vars := [(lit "x", 1%float); (lit "y", 1%float)] |};
                         {| t_coef := 0x1.5555555555555p-2%float; t_vars := [(lit "x", 1%float); (lit "y", 1%float)] |};
                         {| t_coef := (-2)%float; t_vars := [(lit "y", 1%float)] |} ];
            i_vars := [lit "x"; lit "y"] |} /\
  PrimFloat.div (dec2float 1 0) (dec2float 3 0) = 0x1.5555555555555p-2%float /\
  map (@term_of pfloat FNum) ex_isrc = @terms_of pfloat FNum ex_isrc.
Proof. vm_compute. repeat split. Qed.

Lemma dec_ok_int (neg : bool) (m : Z) : (0 < m <= 1024)%Z -> dec_ok (neg, m, 0%Z).
Proof.
  intros [H1 H2]. right. split; [exact H1|]. rewrite dec_val_nonneg_exp by lia.
  rewrite Z.pow_0_r, Z.mul_1_r.
  assert (1 <= IZR m <= 1024) by (split; apply IZR_le; lia).
  split.
  - apply Rle_trans with (bpow radix2 0); [apply bpow_le; lia|]. cbn [bpow]. lra.
  - apply Rle_trans with (bpow radix2 10); [|apply bpow_le; lia]. change (bpow radix2 10) with 1024. lra.
Qed.

(* every written coefficient of the example satisfies the hypothesis of parse_i_float_coeff_error *)
Example ex_isrc_hyps : forall x, In x ex_isrc -> coef_okf (fst x) (fst (snd x)).
Proof.
  intros x [<-|[<-|[<-|[]]]]; cbn [fst snd coef_okf].
  - change (dec_ok (false, 5%Z, (-1)%Z)). apply dec_ok_small; vm_compute; congruence.
  - change (dec_ok (false, 1%Z, 0%Z) /\ dec_ok (false, 3%Z, 0%Z) /\
            okdiv (dcoef (false, 1%Z, 0%Z)) (dcoef (false, 3%Z, 0%Z))).
    split; [apply dec_ok_int; lia|]. split; [apply dec_ok_int; lia|].
    apply okdiv_by_leb; vm_compute; reflexivity.
  - change (dec_ok (true, 2%Z, 0%Z)). apply dec_ok_int; lia.
Qed.

(* the stored 1/3: within (1+eps)^3 - 1 of the rational 1/3 *)
Example ex_isrc_third :
  Rabs (B2R (Prim2B 0x1.5555555555555p-2%float) - dec_val 1 0 / dec_val 3 0)
    <= ((1 + bpow radix2 (-53)) ^ 3 - 1) * Rabs (dec_val 1 0 / dec_val 3 0).
Proof.
  pose proof (parse_i_float_coeff_error (false, (Some (CFrac (dint "1") (dint "3")), [(120%N, None); (121%N, None)]))
                (ex_isrc_hyps _ (or_intror (or_introl eq_refl)))) as [_ E].
  exact E.
Qed.
