(* Proofs/Display.v — C17: printed polynomials read back as the same polynomial.
   Part A  decimal digits of integers                 (Zdigits, nat_dec, digits_val)
   Part B  decimal text <-> numbers                   (dec_point, trim_num, parse_dec)
   Part C  the executable `{:.p}` of binary64 meets its rounding specification
   Part D  SimplePolynomial: print, then parse_simple
   Part E  LinearModel::to_polynomial_string
   Part F  Term / IntermediatePolynomial *)
From Coq Require Import ZArith NArith List Bool Reals Lra Lia Floats Psatz.
From SV Require Import Base.Num Base.Outcome Base.Str Model.Poly Model.Parse Model.Display.
Import ListNotations.

(* ========================================================================== *)
(** * Generic list / string facts *)

Lemma below128 (P : N -> bool) :
  forallb P (map N.of_nat (seq 0 128)) = true -> forall c, (c < 128)%N -> P c = true.
Proof.
  intros H c Hc. rewrite forallb_forall in H. apply H.
  apply in_map_iff. exists (N.to_nat c). split; [apply N2Nat.id|].
  apply in_seq. lia.
Qed.

Definition numch (c : N) : bool := is_ascii_digit c || N.eqb c c_dot.
Definition body_ok (s : str) : bool := forallb numch s.

Lemma digit_lt128 c : is_ascii_digit c = true -> (c < 128)%N.
Proof. unfold is_ascii_digit. rewrite andb_true_iff, !N.leb_le. lia. Qed.
Lemma numch_lt128 c : numch c = true -> (c < 128)%N.
Proof.
  unfold numch. rewrite orb_true_iff. intros [H|H]; [apply digit_lt128; exact H|].
  apply N.eqb_eq in H. subst. reflexivity.
Qed.

Lemma split_on_nonempty c s : split_on c s <> [].
Proof.
  induction s as [|x s IH]; cbn [split_on]; [discriminate|].
  destruct (split_on c s); [contradiction|]. destruct (N.eqb x c); discriminate.
Qed.

Lemma split_on_nosep c a : ~ In c a -> split_on c a = [a].
Proof.
  induction a as [|x a IH]; intro H; [reflexivity|].
  cbn [split_on]. rewrite IH by (intro; apply H; right; assumption).
  destruct (N.eqb_spec x c) as [E|E]; [exfalso; apply H; left; exact E|reflexivity].
Qed.

Lemma split_on_sep c a rest : ~ In c a -> split_on c (a ++ c :: rest) = a :: split_on c rest.
Proof.
  induction a as [|x a IH]; intro H.
  - cbn [app split_on]. destruct (split_on c rest) eqn:E; [exfalso; exact (split_on_nonempty _ _ E)|].
    rewrite N.eqb_refl. reflexivity.
  - cbn [app split_on]. rewrite IH by (intro; apply H; right; assumption).
    destruct (N.eqb_spec x c) as [E|E]; [exfalso; apply H; left; exact E|reflexivity].
Qed.

Lemma find_char_none c s : ~ In c s -> find_char c s = None.
Proof.
  induction s as [|x s IH]; intro H; [reflexivity|].
  cbn [find_char]. destruct (N.eqb_spec x c) as [E|E]; [exfalso; apply H; left; exact E|].
  rewrite IH by (intro; apply H; right; assumption). reflexivity.
Qed.

Lemma find_char_app c a b : ~ In c a -> find_char c (a ++ c :: b) = Some (length a).
Proof.
  induction a as [|x a IH]; intro H.
  - cbn. rewrite N.eqb_refl. reflexivity.
  - cbn [app find_char length]. destruct (N.eqb_spec x c) as [E|E]; [exfalso; apply H; left; exact E|].
    rewrite IH by (intro; apply H; right; assumption). reflexivity.
Qed.

Lemma firstn_app_exact {A} (a b : list A) : firstn (length a) (a ++ b) = a.
Proof. induction a; cbn; [destruct b; reflexivity|f_equal; assumption]. Qed.
Lemma skipn_app_exact {A} (a b : list A) : skipn (length a) (a ++ b) = b.
Proof. induction a; cbn; [reflexivity|assumption]. Qed.

(* ========================================================================== *)
(** * Part A: decimal digits *)

Lemma digit_char_props d : (0 <= d < 10)%Z ->
  is_ascii_digit (digit_char d) = true /\ digit_val (digit_char d) = d.
Proof.
  intro H. unfold digit_char, is_ascii_digit, digit_val. split.
  - rewrite andb_true_iff, !N.leb_le. lia.
  - rewrite Z2N.id by lia. lia.
Qed.

Lemma digits_val_acc s : forall acc,
  fold_left (fun a c => a * 10 + digit_val c)%Z s acc = (acc * 10 ^ Z.of_nat (length s) + digits_val s)%Z.
Proof.
  unfold digits_val. induction s as [|c s IH]; intro acc.
  - cbn. lia.
  - cbn [fold_left length]. rewrite IH, (IH (0 * 10 + digit_val c)%Z).
    rewrite Nat2Z.inj_succ, Z.pow_succ_r by lia. ring.
Qed.

Lemma digits_val_app a b :
  digits_val (a ++ b) = (digits_val a * 10 ^ Z.of_nat (length b) + digits_val b)%Z.
Proof.
  unfold digits_val at 1. rewrite fold_left_app. fold (digits_val a). apply digits_val_acc.
Qed.

Lemma digits_val_single c : digits_val [c] = digit_val c.
Proof. reflexivity. Qed.

Lemma all_digits_app a b : all_digits (a ++ b) = all_digits a && all_digits b.
Proof. apply forallb_app. Qed.

Lemma Zdigits_fuel_spec f : forall n, (0 <= n < 2 ^ Z.of_nat f)%Z ->
  all_digits (Zdigits_fuel f n) = true /\ digits_val (Zdigits_fuel f n) = n /\ Zdigits_fuel f n <> [].
Proof.
  induction f as [|f IH]; intros n Hn.
  - cbn in Hn. lia.
  - cbn [Zdigits_fuel]. destruct (Z.ltb_spec n 10) as [L|L].
    + destruct (digit_char_props n ltac:(lia)) as [D1 D2].
      repeat split; [cbn; rewrite D1; reflexivity|rewrite digits_val_single; exact D2|discriminate].
    + assert (Hq : (0 <= n / 10 < 2 ^ Z.of_nat f)%Z).
      { split; [apply Z.div_pos; lia|].
        apply Z.div_lt_upper_bound; [lia|].
        rewrite Nat2Z.inj_succ, Z.pow_succ_r in Hn by lia. lia. }
      destruct (IH _ Hq) as [A [B C]].
      destruct (digit_char_props (n mod 10) ltac:(apply Z.mod_pos_bound; lia)) as [D1 D2].
      repeat split.
      * rewrite all_digits_app, A. cbn. rewrite D1. reflexivity.
      * rewrite digits_val_app, B, digits_val_single, D2. cbn [length].
        change (10 ^ Z.of_nat 1)%Z with 10%Z. pose proof (Z.div_mod n 10). lia.
      * intro E. apply app_eq_nil in E. destruct E; discriminate.
Qed.

Lemma Zdigits_spec n : (0 <= n)%Z ->
  all_digits (Zdigits n) = true /\ digits_val (Zdigits n) = n /\ Zdigits n <> [].
Proof.
  intro H. unfold Zdigits. apply Zdigits_fuel_spec. split; [exact H|].
  rewrite Nat2Z.inj_succ, Z2Nat.id by apply Z.log2_nonneg.
  destruct (Z.eq_dec n 0) as [->|Hn]; [cbn; lia|].
  apply Z.log2_spec. lia.
Qed.

Lemma parse_nat_text_nat_dec i : parse_nat_text (nat_dec i) = Some (Z.of_nat i).
Proof.
  unfold nat_dec, parse_nat_text.
  destruct (Zdigits_spec (Z.of_nat i) ltac:(lia)) as [A [B C]].
  destruct (Zdigits (Z.of_nat i)) eqn:E; [contradiction|].
  rewrite A, B. reflexivity.
Qed.

Lemma all_digits_body_ok s : all_digits s = true -> body_ok s = true.
Proof.
  unfold all_digits, body_ok. rewrite !forallb_forall. intros H c Hc.
  unfold numch. rewrite (H c Hc). reflexivity.
Qed.

Lemma all_digits_no c s : is_ascii_digit c = false -> all_digits s = true -> ~ In c s.
Proof.
  intros Hc H Hin. unfold all_digits in H. rewrite forallb_forall in H.
  rewrite (H c Hin) in Hc. discriminate.
Qed.
