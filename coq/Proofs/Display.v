(* Proofs/Display.v — C17: printed polynomials read back as the same polynomial.
   Part A  decimal digits of integers                 (Zdigits, nat_dec, digits_val)
   Part B  decimal text <-> numbers                   (dec_point, trim_num, parse_dec)
   Part C  the executable `{:.p}` of binary64 meets its rounding specification
   Part D  SimplePolynomial: print, then parse_simple
   Part E  LinearModel::to_polynomial_string
   Part F  Term / IntermediatePolynomial *)
From Coq Require Import ZArith NArith List Bool Reals Lra Lia Floats Psatz.
From SV Require Import Base.Num Base.Outcome Base.Str Model.Poly Model.Parse Model.Display.
Import ListNotations.

(* ========================================================================== *)
(** * Generic list / string facts *)

Lemma below128 (P : N -> bool) :
  forallb P (map N.of_nat (seq 0 128)) = true -> forall c, (c < 128)%N -> P c = true.
Proof.
  intros H c Hc. rewrite forallb_forall in H. apply H.
  apply in_map_iff. exists (N.to_nat c). split; [apply N2Nat.id|].
  apply in_seq. lia.
Qed.

Definition numch (c : N) : bool := is_ascii_digit c || N.eqb c c_dot.
Definition body_ok (s : str) : bool := forallb numch s.

Lemma digit_lt128 c : is_ascii_digit c = true -> (c < 128)%N.
Proof. unfold is_ascii_digit. rewrite andb_true_iff, !N.leb_le. lia. Qed.
Lemma numch_lt128 c : numch c = true -> (c < 128)%N.
Proof.
  unfold numch. rewrite orb_true_iff. intros [H|H]; [apply digit_lt128; exact H|].
  apply N.eqb_eq in H. subst. reflexivity.
Qed.

Lemma split_on_nonempty c s : split_on c s <> [].
Proof.
  induction s as [|x s IH]; cbn [split_on]; [discriminate|].
  destruct (split_on c s); [contradiction|]. destruct (N.eqb x c); discriminate.
Qed.

Lemma split_on_nosep c a : ~ In c a -> split_on c a = [a].
Proof.
  induction a as [|x a IH]; intro H; [reflexivity|].
  cbn [split_on]. rewrite IH by (intro; apply H; right; assumption).
  destruct (N.eqb_spec x c) as [E|E]; [exfalso; apply H; left; exact E|reflexivity].
Qed.

Lemma split_on_sep c a rest : ~ In c a -> split_on c (a ++ c :: rest) = a :: split_on c rest.
Proof.
  induction a as [|x a IH]; intro H.
  - cbn [app split_on]. destruct (split_on c rest) eqn:E; [exfalso; exact (split_on_nonempty _ _ E)|].
    rewrite N.eqb_refl. reflexivity.
  - cbn [app split_on]. rewrite IH by (intro; apply H; right; assumption).
    destruct (N.eqb_spec x c) as [E|E]; [exfalso; apply H; left; exact E|reflexivity].
Qed.

Lemma find_char_none c s : ~ In c s -> find_char c s = None.
Proof.
  induction s as [|x s IH]; intro H; [reflexivity|].
  cbn [find_char]. destruct (N.eqb_spec x c) as [E|E]; [exfalso; apply H; left; exact E|].
  rewrite IH by (intro; apply H; right; assumption). reflexivity.
Qed.

Lemma find_char_app c a b : ~ In c a -> find_char c (a ++ c :: b) = Some (length a).
Proof.
  induction a as [|x a IH]; intro H.
  - cbn. rewrite N.eqb_refl. reflexivity.
  - cbn [app find_char length]. destruct (N.eqb_spec x c) as [E|E]; [exfalso; apply H; left; exact E|].
    rewrite IH by (intro; apply H; right; assumption). reflexivity.
Qed.

Lemma firstn_app_exact {A} (a b : list A) : firstn (length a) (a ++ b) = a.
Proof. induction a; cbn; [destruct b; reflexivity|f_equal; assumption]. Qed.
Lemma skipn_app_exact {A} (a b : list A) : skipn (length a) (a ++ b) = b.
Proof. induction a; cbn; [reflexivity|assumption]. Qed.

(* ========================================================================== *)
(** * Part A: decimal digits *)

Lemma digit_char_props d : (0 <= d < 10)%Z ->
  is_ascii_digit (digit_char d) = true /\ digit_val (digit_char d) = d.
Proof.
  intro H. unfold digit_char, is_ascii_digit, digit_val. split.
  - rewrite andb_true_iff, !N.leb_le. lia.
  - rewrite Z2N.id by lia. lia.
Qed.

Lemma digits_val_acc s : forall acc,
  fold_left (fun a c => a * 10 + digit_val c)%Z s acc = (acc * 10 ^ Z.of_nat (length s) + digits_val s)%Z.
Proof.
  unfold digits_val. induction s as [|c s IH]; intro acc.
  - cbn. lia.
  - cbn [fold_left length]. rewrite IH, (IH (0 * 10 + digit_val c)%Z).
    rewrite Nat2Z.inj_succ, Z.pow_succ_r by lia. ring.
Qed.

Lemma digits_val_app a b :
  digits_val (a ++ b) = (digits_val a * 10 ^ Z.of_nat (length b) + digits_val b)%Z.
Proof.
  unfold digits_val at 1. rewrite fold_left_app. fold (digits_val a). apply digits_val_acc.
Qed.

Lemma digits_val_single c : digits_val [c] = digit_val c.
Proof. reflexivity. Qed.

Lemma all_digits_app a b : all_digits (a ++ b) = all_digits a && all_digits b.
Proof. apply forallb_app. Qed.

Lemma Zdigits_fuel_spec f : forall n, (0 <= n < 10 * 2 ^ Z.of_nat f)%Z ->
  all_digits (Zdigits_fuel (S f) n) = true /\ digits_val (Zdigits_fuel (S f) n) = n
  /\ Zdigits_fuel (S f) n <> [].
Proof.
  induction f as [|f IH]; intros n Hn.
  - change (10 * 2 ^ Z.of_nat 0)%Z with 10%Z in Hn.
    cbn [Zdigits_fuel]. destruct (Z.ltb_spec n 10) as [L|L]; [|lia].
    destruct (digit_char_props n ltac:(lia)) as [D1 D2].
    repeat split; [cbn; rewrite D1; reflexivity|rewrite digits_val_single; exact D2|discriminate].
  - remember (S f) as f1. cbn [Zdigits_fuel]. subst f1. destruct (Z.ltb_spec n 10) as [L|L].
    + destruct (digit_char_props n ltac:(lia)) as [D1 D2].
      repeat split; [cbn; rewrite D1; reflexivity|rewrite digits_val_single; exact D2|discriminate].
    + assert (Hq : (0 <= n / 10 < 10 * 2 ^ Z.of_nat f)%Z).
      { split; [apply Z.div_pos; lia|].
        apply Z.div_lt_upper_bound; [lia|].
        rewrite Nat2Z.inj_succ, Z.pow_succ_r in Hn by lia.
        assert (0 < 2 ^ Z.of_nat f)%Z by (apply Z.pow_pos_nonneg; lia). lia. }
      destruct (IH _ Hq) as [A [B C]].
      destruct (digit_char_props (n mod 10) ltac:(apply Z.mod_pos_bound; lia)) as [D1 D2].
      repeat split.
      * rewrite all_digits_app, A. cbn. rewrite D1. reflexivity.
      * rewrite digits_val_app, B, digits_val_single, D2. cbn [length].
        change (10 ^ Z.of_nat 1)%Z with 10%Z. pose proof (Z.div_mod n 10). lia.
      * intro E. apply app_eq_nil in E. destruct E; discriminate.
Qed.

Lemma Zdigits_spec n : (0 <= n)%Z ->
  all_digits (Zdigits n) = true /\ digits_val (Zdigits n) = n /\ Zdigits n <> [].
Proof.
  intro H. unfold Zdigits. apply Zdigits_fuel_spec. split; [exact H|].
  rewrite Z2Nat.id by apply Z.log2_nonneg.
  destruct (Z.eq_dec n 0) as [->|Hn]; [cbn; lia|].
  pose proof (Z.log2_spec n ltac:(lia)) as [_ L].
  rewrite Z.pow_succ_r in L by apply Z.log2_nonneg.
  assert (0 < 2 ^ Z.log2 n)%Z by (apply Z.pow_pos_nonneg; [lia|apply Z.log2_nonneg]). lia.
Qed.

Lemma parse_nat_text_nat_dec i : parse_nat_text (nat_dec i) = Some (Z.of_nat i).
Proof.
  unfold nat_dec, parse_nat_text.
  destruct (Zdigits_spec (Z.of_nat i) ltac:(lia)) as [A [B C]].
  destruct (Zdigits (Z.of_nat i)) eqn:E; [contradiction|].
  rewrite A, B. reflexivity.
Qed.

Lemma all_digits_body_ok s : all_digits s = true -> body_ok s = true.
Proof.
  unfold all_digits, body_ok. rewrite !forallb_forall. intros H c Hc.
  unfold numch. rewrite (H c Hc). reflexivity.
Qed.

Lemma all_digits_no c s : is_ascii_digit c = false -> all_digits s = true -> ~ In c s.
Proof.
  intros Hc H Hin. unfold all_digits in H. rewrite forallb_forall in H.
  rewrite (H c Hin) in Hc. discriminate.
Qed.

(* ========================================================================== *)
(** * Part B: decimal text <-> numbers *)

(* ---- trim_end ------------------------------------------------------------- *)
Lemma drop_while_app f x y :
  drop_while f (x ++ y) = match drop_while f x with [] => drop_while f y | r => r ++ y end.
Proof.
  induction x as [|a x IH]; [cbn; destruct (drop_while f y); reflexivity|].
  cbn [app drop_while]. destruct (f a); [exact IH|reflexivity].
Qed.

Lemma trim_end_snoc_same c s : trim_end c (s ++ [c]) = trim_end c s.
Proof. unfold trim_end. rewrite rev_app_distr. cbn. rewrite N.eqb_refl. reflexivity. Qed.

Lemma trim_end_snoc_other c d s : d <> c -> trim_end c (s ++ [d]) = s ++ [d].
Proof.
  intro H. unfold trim_end. rewrite rev_app_distr. cbn.
  destruct (N.eqb_spec c d) as [E|E]; [congruence|]. cbn. rewrite rev_involutive. reflexivity.
Qed.

Lemma trim_end_nil c : trim_end c [] = [].
Proof. reflexivity. Qed.

(* a character different from c protects everything before it *)
Lemma trim_end_keep c a d b : d <> c -> trim_end c (a ++ d :: b) = a ++ d :: trim_end c b.
Proof.
  intro H. unfold trim_end. rewrite rev_app_distr. cbn [rev]. rewrite <- app_assoc. cbn [app].
  rewrite drop_while_app.
  destruct (drop_while (N.eqb c) (rev b)) as [|r rs] eqn:E.
  - cbn [drop_while]. destruct (N.eqb_spec c d) as [E2|E2]; [congruence|].
    cbn [rev]. rewrite rev_involutive. reflexivity.
  - rewrite rev_app_distr. cbn [rev]. rewrite rev_involutive, <- app_assoc. reflexivity.
Qed.

Lemma trim_end_notin c s : ~ In c s -> trim_end c s = s.
Proof.
  induction s as [|x s IH] using rev_ind; intro H; [reflexivity|].
  apply trim_end_snoc_other. intro E. apply H. apply in_or_app. right. left. exact E.
Qed.

(* trim_end splits off a block of c's; what remains does not end in c *)
Lemma trim_end_spec c s : exists n, s = trim_end c s ++ repeat c n.
Proof.
  induction s as [|x s IH] using rev_ind; [exists O; reflexivity|].
  destruct (N.eq_dec x c) as [->|E].
  - rewrite trim_end_snoc_same. destruct IH as [n IH]. exists (S n).
    rewrite IH at 1. rewrite <- app_assoc. f_equal.
    change (repeat c n ++ [c] = c :: repeat c n). symmetry. apply repeat_cons.
  - exists O. rewrite trim_end_snoc_other by exact E. cbn. rewrite app_nil_r. reflexivity.
Qed.

Lemma trim_end_incl c s x : In x (trim_end c s) -> In x s.
Proof.
  destruct (trim_end_spec c s) as [n E]. intro H. rewrite E. apply in_or_app. left. exact H.
Qed.

(* ---- parse_unsigned_dec on digit strings (any number type) ------------------ *)
Section DecT.
  Context {T : Type} {NT : Num T}.

  Lemma dot_not_digit : is_ascii_digit c_dot = false. Proof. reflexivity. Qed.
  Lemma minus_not_digit : is_ascii_digit c_minus = false. Proof. reflexivity. Qed.

  Lemma pud_int (ip : str) : all_digits ip = true -> ip <> [] ->
    @parse_unsigned_dec T NT ip = Some (nofdec (digits_val ip) 0).
  Proof.
    intros A Hne. unfold parse_unsigned_dec.
    rewrite split_on_nosep by (apply all_digits_no; [reflexivity|exact A]).
    rewrite A. destruct ip; [contradiction|reflexivity].
  Qed.

  Lemma pud_frac (ip fp : str) : all_digits ip = true -> all_digits fp = true -> ip <> [] ->
    @parse_unsigned_dec T NT (ip ++ c_dot :: fp)
    = Some (nofdec (digits_val (ip ++ fp)) (- Z.of_nat (length fp))).
  Proof.
    intros A B Hne. unfold parse_unsigned_dec.
    rewrite split_on_sep by (apply all_digits_no; [reflexivity|exact A]).
    rewrite split_on_nosep by (apply all_digits_no; [reflexivity|exact B]).
    rewrite A, B. destruct ip; [contradiction|reflexivity].
  Qed.

  Lemma parse_dec_unsigned (s : str) : (forall t, s <> c_minus :: t) -> s <> [] ->
    @parse_dec T NT s = parse_unsigned_dec s.
  Proof.
    intros H Hne. destruct s as [|c s]; [contradiction|].
    cbn [parse_dec]. destruct (N.eqb_spec c c_minus) as [->|E]; [exfalso; exact (H s eq_refl)|reflexivity].
  Qed.

  Lemma parse_dec_minus (s : str) : @parse_dec T NT (c_minus :: s) = option_map nneg (parse_unsigned_dec s).
  Proof. reflexivity. Qed.

  Lemma pud_nil : @parse_unsigned_dec T NT [] = None.
  Proof. reflexivity. Qed.
End DecT.

Lemma body_ok_not_minus s t : body_ok s = true -> s <> c_minus :: t.
Proof. intros H E. subst s. cbn in H. discriminate. Qed.

Lemma body_ok_app a b : body_ok (a ++ b) = body_ok a && body_ok b.
Proof. apply forallb_app. Qed.
Lemma body_ok_cons_dot s : body_ok (c_dot :: s) = body_ok s.
Proof. reflexivity. Qed.

(* ---- dec_point ---------------------------------------------------------------- *)
Lemma all_digits_repeat_zero k : all_digits (repeat c_zero k) = true.
Proof. induction k; [reflexivity|exact IHk]. Qed.

Lemma digits_val_repeat_zero k : digits_val (repeat c_zero k) = 0%Z.
Proof.
  induction k as [|k IH]; [reflexivity|].
  change (repeat c_zero (S k)) with ([c_zero] ++ repeat c_zero k).
  rewrite digits_val_app, IH. cbn. lia.
Qed.

Lemma pad_zeros_spec k s : all_digits s = true ->
  all_digits (pad_zeros k s) = true /\ digits_val (pad_zeros k s) = digits_val s
  /\ (k <= length (pad_zeros k s))%nat /\ (length s <= length (pad_zeros k s))%nat.
Proof.
  intro A. unfold pad_zeros. repeat split.
  - rewrite all_digits_app, all_digits_repeat_zero, A. reflexivity.
  - rewrite digits_val_app, digits_val_repeat_zero. lia.
  - rewrite app_length, repeat_length. lia.
  - rewrite app_length, repeat_length. lia.
Qed.

Lemma all_digits_firstn k s : all_digits s = true -> all_digits (firstn k s) = true.
Proof.
  unfold all_digits. rewrite !forallb_forall. intros H c Hc. apply H.
  rewrite <- (firstn_skipn k s). apply in_or_app. left. exact Hc.
Qed.
Lemma all_digits_skipn k s : all_digits s = true -> all_digits (skipn k s) = true.
Proof.
  unfold all_digits. rewrite !forallb_forall. intros H c Hc. apply H.
  rewrite <- (firstn_skipn k s). apply in_or_app. right. exact Hc.
Qed.

(* the shape of dec_point: integral digits, then (for p > 0) a dot and exactly p fractional digits *)
Lemma dec_point_spec p n : (0 <= n)%Z ->
  exists ip fp, dec_point p n = ip ++ (match p with O => [] | _ => c_dot :: fp end)
    /\ all_digits ip = true /\ all_digits fp = true /\ ip <> [] /\ length fp = p
    /\ digits_val (ip ++ fp) = n.
Proof.
  intro Hn. destruct (Zdigits_spec n Hn) as [A [B C]].
  destruct (pad_zeros_spec (S p) (Zdigits n) A) as [PA [PB [PC PD]]].
  unfold dec_point. set (ds := pad_zeros (S p) (Zdigits n)) in *.
  destruct p as [|p].
  - exists ds, []. rewrite app_nil_r. repeat split; try assumption; try reflexivity.
    + intro E. rewrite E in PC. cbn in PC. lia.
    + rewrite PB. exact B.
  - set (k := (length ds - S p)%nat).
    exists (firstn k ds), (skipn k ds). split; [reflexivity|]. repeat split.
    + apply all_digits_firstn. exact PA.
    + apply all_digits_skipn. exact PA.
    + intro E. apply (f_equal (@length N)) in E. rewrite firstn_length in E. cbn [length] in E. unfold k in E. lia.
    + rewrite skipn_length. unfold k. lia.
    + rewrite firstn_skipn, PB. exact B.
Qed.

(* ---- value of a printed decimal, in R ---------------------------------------- *)
Local Open Scope R_scope.

Lemma nofdec_R m e : @nofdec R RNum m e = IZR m * powerRZ 10 e.
Proof. reflexivity. Qed.

Lemma ten_neq0 : 10 <> 0. Proof. lra. Qed.

Lemma powerRZ_10_pos e : 0 < powerRZ 10 e.
Proof. apply powerRZ_lt. lra. Qed.

Lemma powerRZ_neg_nat k : powerRZ 10 (- Z.of_nat k) = / 10 ^ k.
Proof. rewrite powerRZ_neg', <- pow_powerRZ. reflexivity. Qed.

Lemma pow10_pos k : 0 < 10 ^ k.
Proof. apply pow_lt. lra. Qed.

Lemma IZR_pow10 k : IZR (10 ^ Z.of_nat k) = 10 ^ k.
Proof. rewrite <- pow_IZR. reflexivity. Qed.

(* value of "ip.fp" whatever the number of trailing zeros of fp *)
Lemma digits_val_trailing_zeros s z :
  digits_val (s ++ repeat c_zero z) = (digits_val s * 10 ^ Z.of_nat z)%Z.
Proof. rewrite digits_val_app, digits_val_repeat_zero, repeat_length. lia. Qed.

Lemma dec_value_trim (ip fp' : str) z :
  IZR (digits_val (ip ++ fp' ++ repeat c_zero z)) * powerRZ 10 (- Z.of_nat (length (fp' ++ repeat c_zero z)))
  = IZR (digits_val (ip ++ fp')) * powerRZ 10 (- Z.of_nat (length fp')).
Proof.
  rewrite app_assoc, digits_val_trailing_zeros, app_length, repeat_length.
  rewrite mult_IZR, IZR_pow10, !powerRZ_neg_nat, pow_add.
  pose proof (pow10_pos z). pose proof (pow10_pos (length fp')). field. split; lra.
Qed.

(* trimming: the text after trim_num, its shape, and its value *)
Lemma trim_num_dec_point p n : (0 <= n)%Z ->
  body_ok (trim_num (dec_point p n)) = true
  /\ @parse_dec R RNum (trim_num (dec_point p n)) = Some (IZR n * / 10 ^ p)
  /\ body_ok (dec_point p n) = true
  /\ @parse_dec R RNum (dec_point p n) = Some (IZR n * / 10 ^ p).
Proof.
  intro Hn. destruct (dec_point_spec p n Hn) as [ip [fp [E [A [B [Hne [L V]]]]]]].
  assert (NoDotI : ~ In c_dot ip) by (apply all_digits_no; [reflexivity|exact A]).
  destruct p as [|p].
  - (* no dot: nothing is trimmed *)
    rewrite app_nil_r in E. destruct fp; [|discriminate]. rewrite app_nil_r in V.
    assert (Etrim : trim_num (dec_point 0 n) = ip).
    { unfold trim_num. rewrite E. unfold contains_char.
      replace (existsb (N.eqb c_dot) ip) with false; [reflexivity|].
      symmetry. apply not_true_is_false. intro H. apply existsb_exists in H.
      destruct H as [x [Hx Hx2]]. apply N.eqb_eq in Hx2. subst x. contradiction. }
    rewrite Etrim, E.
    assert (P : @parse_dec R RNum ip = Some (IZR n * / 10 ^ 0)).
    { rewrite parse_dec_unsigned; [|intros t; apply body_ok_not_minus, all_digits_body_ok, A|exact Hne].
      rewrite pud_int by assumption. rewrite nofdec_R, V. cbn. f_equal. field. }
    repeat split; try (apply all_digits_body_ok; exact A); exact P.
  - (* ip . fp : trailing zeros of fp go, then the dot if nothing is left *)
    assert (Hb : body_ok (ip ++ c_dot :: fp) = true).
    { rewrite body_ok_app, (all_digits_body_ok _ A), body_ok_cons_dot, (all_digits_body_ok _ B). reflexivity. }
    assert (Pfull : @parse_dec R RNum (ip ++ c_dot :: fp) = Some (IZR n * / 10 ^ S p)).
    { rewrite parse_dec_unsigned; [|intros t; apply body_ok_not_minus; exact Hb
                                   |intro X; apply app_eq_nil in X; destruct X; discriminate].
      rewrite pud_frac by assumption. rewrite nofdec_R, V, L, powerRZ_neg_nat. reflexivity. }
    rewrite E.
    assert (Hc : contains_char c_dot (ip ++ c_dot :: fp) = true).
    { unfold contains_char. apply existsb_exists. exists c_dot. split; [apply in_or_app; right; left; reflexivity|apply N.eqb_refl]. }
    unfold trim_num. rewrite Hc.
    rewrite (trim_end_keep c_zero ip c_dot fp) by discriminate.
    destruct (trim_end_spec c_zero fp) as [z Ez].
    set (fp' := trim_end c_zero fp) in *.
    assert (B' : all_digits fp' = true).
    { rewrite Ez, all_digits_app in B. apply andb_true_iff in B. tauto. }
    assert (Val : IZR n * / 10 ^ S p = IZR (digits_val (ip ++ fp')) * powerRZ 10 (- Z.of_nat (length fp'))).
    { rewrite <- V, <- L, <- powerRZ_neg_nat. rewrite Ez at 1 2. apply dec_value_trim. }
    destruct fp' as [|d fp''] eqn:Efp.
    + (* everything after the dot was zeros: "ip." -> "ip" *)
      change (ip ++ [c_dot]) with (ip ++ [c_dot]).
      rewrite trim_end_snoc_same, trim_end_notin by exact NoDotI.
      repeat split; [apply all_digits_body_ok; exact A| |exact Hb|exact Pfull].
      rewrite parse_dec_unsigned; [|intros t; apply body_ok_not_minus, all_digits_body_ok, A|exact Hne].
      rewrite pud_int by assumption. rewrite nofdec_R, Val, app_nil_r. reflexivity.
    + (* the last kept digit is not '0', hence not '.' either: the dot stays *)
      assert (NoDotF : ~ In c_dot (d :: fp'')) by (apply all_digits_no; [reflexivity|exact B']).
      replace (ip ++ c_dot :: d :: fp'') with ((ip ++ [c_dot]) ++ d :: fp'') by (rewrite <- app_assoc; reflexivity).
      assert (Hd : d <> c_dot) by (intro X; apply NoDotF; left; exact X).
      rewrite (trim_end_keep c_dot (ip ++ [c_dot]) d fp'' Hd).
      rewrite trim_end_notin by (intro X; apply NoDotF; right; exact X).
      rewrite <- app_assoc. cbn [app].
      assert (Hb' : body_ok (ip ++ c_dot :: d :: fp'') = true).
      { rewrite body_ok_app, (all_digits_body_ok _ A), body_ok_cons_dot, (all_digits_body_ok _ B'). reflexivity. }
      repeat split; [exact Hb'| |exact Hb|exact Pfull].
      rewrite parse_dec_unsigned; [|intros t; apply body_ok_not_minus; exact Hb'
                                   |intro X; apply app_eq_nil in X; destruct X; discriminate].
      rewrite pud_frac by assumption. rewrite nofdec_R, Val. reflexivity.
Qed.

(* the number-level precision statement: N = x*10^p rounded to within 1/2
   ==> the printed (and trimmed) text reads back within 1/2 * 10^-p of x *)
Lemma fmt_prec_number_level p n x : (0 <= n)%Z -> Rabs (IZR n - x * 10 ^ p) <= / 2 ->
  exists y, @parse_dec R RNum (trim_num (dec_point p n)) = Some y
         /\ @parse_dec R RNum (dec_point p n) = Some y
         /\ Rabs (y - x) <= / 2 * / 10 ^ p.
Proof.
  intros Hn Hr. destruct (trim_num_dec_point p n Hn) as [_ [P1 [_ P2]]].
  exists (IZR n * / 10 ^ p). repeat split; [exact P1|exact P2|].
  pose proof (pow10_pos p) as Hp.
  replace (IZR n * / 10 ^ p - x) with ((IZR n - x * 10 ^ p) * / 10 ^ p) by (field; lra).
  rewrite Rabs_mult, (Rabs_right (/ 10 ^ p)) by (left; apply Rinv_0_lt_compat; exact Hp).
  apply Rmult_le_compat_r; [left; apply Rinv_0_lt_compat; exact Hp|exact Hr].
Qed.

(* ========================================================================== *)
(** * Part C: the executable `{:.p}` meets its rounding specification *)

Lemma round_half_even_div_spec num den : (0 < den)%Z ->
  let q := round_half_even_div num den in
  (2 * Z.abs (q * den - num) <= den)%Z
  /\ ((2 * Z.abs (q * den - num) = den)%Z -> Z.even q = true)
  /\ ((0 <= num)%Z -> (0 <= q)%Z).
Proof.
  intros Hd q. unfold round_half_even_div in q.
  pose proof (Z.div_mod num den ltac:(lia)) as DM.
  pose proof (Z.mod_pos_bound num den Hd) as MB.
  assert (Hq0 : (0 <= num -> 0 <= num / den)%Z) by (intro; apply Z.div_pos; lia).
  subst q. set (qq := (num / den)%Z) in *. set (r := (num mod den)%Z) in *.
  destruct (Z.compare_spec (2 * r) den) as [C|C|C].
  - destruct (Z.even qq) eqn:Ev.
    + split; [|split]; intros; try assumption; try nia.
    + split; [|split]; intros; try nia. rewrite Z.even_add, Ev. reflexivity.
  - split; [|split]; intros; try nia.
  - split; [|split]; intros; try nia.
Qed.

Lemma IZR_pow2 (k : Z) : (0 <= k)%Z -> IZR (2 ^ k) = powerRZ 2 k.
Proof.
  intro H. rewrite <- (Z2Nat.id k H), <- pow_IZR, <- pow_powerRZ. reflexivity.
Qed.

Lemma scaled_round_spec m e p : (0 <= m)%Z ->
  (0 <= scaled_round m e p)%Z
  /\ Rabs (IZR (scaled_round m e p) - IZR m * powerRZ 2 e * 10 ^ p) <= / 2.
Proof.
  intro Hm. unfold scaled_round. destruct (Z.leb_spec 0 e) as [He|He].
  - split; [apply Z.mul_nonneg_nonneg; [apply Z.mul_nonneg_nonneg|]; try lia; apply Z.pow_nonneg; lia|].
    rewrite !mult_IZR, IZR_pow10, IZR_pow2 by exact He.
    replace (IZR m * powerRZ 2 e * 10 ^ p - IZR m * powerRZ 2 e * 10 ^ p) with 0 by ring.
    rewrite Rabs_R0. lra.
  - set (den := (2 ^ (- e))%Z). set (num := (m * 10 ^ Z.of_nat p)%Z).
    assert (Hd : (0 < den)%Z) by (apply Z.pow_pos_nonneg; lia).
    destruct (round_half_even_div_spec num den Hd) as [S1 [_ S3]].
    set (q := round_half_even_div num den) in *.
    split; [apply S3; unfold num; apply Z.mul_nonneg_nonneg; [lia|apply Z.pow_nonneg; lia]|].
    assert (Hden : IZR den = / powerRZ 2 e).
    { unfold den. rewrite IZR_pow2 by lia. rewrite powerRZ_neg'. reflexivity. }
    assert (P2 : 0 < powerRZ 2 e) by (apply powerRZ_lt; lra).
    assert (Hnum : IZR m * powerRZ 2 e * 10 ^ p = IZR num * powerRZ 2 e).
    { unfold num. rewrite mult_IZR, IZR_pow10. ring. }
    rewrite Hnum.
    replace (IZR q - IZR num * powerRZ 2 e) with (IZR (q * den - num) * powerRZ 2 e).
    2:{ rewrite minus_IZR, mult_IZR, Hden. field. lra. }
    rewrite Rabs_mult, (Rabs_right (powerRZ 2 e)) by lra.
    rewrite <- abs_IZR.
    assert (B : IZR (2 * Z.abs (q * den - num)) <= IZR den) by (apply IZR_le; exact S1).
    rewrite mult_IZR, Hden in B.
    apply Rmult_le_reg_r with (/ powerRZ 2 e); [apply Rinv_0_lt_compat; exact P2|].
    rewrite Rmult_assoc, Rinv_r by lra. lra.
Qed.

(* ties go to the even neighbour *)
Lemma scaled_round_half_even m e p : (0 <= m)%Z ->
  Rabs (IZR (scaled_round m e p) - IZR m * powerRZ 2 e * 10 ^ p) = / 2 ->
  Z.even (scaled_round m e p) = true.
Proof.
  intros Hm. unfold scaled_round. destruct (Z.leb_spec 0 e) as [He|He].
  - rewrite !mult_IZR, IZR_pow10, IZR_pow2 by exact He.
    replace (IZR m * powerRZ 2 e * 10 ^ p - IZR m * powerRZ 2 e * 10 ^ p) with 0 by ring.
    rewrite Rabs_R0. lra.
  - set (den := (2 ^ (- e))%Z). set (num := (m * 10 ^ Z.of_nat p)%Z).
    assert (Hd : (0 < den)%Z) by (apply Z.pow_pos_nonneg; lia).
    destruct (round_half_even_div_spec num den Hd) as [_ [S2 _]].
    set (q := round_half_even_div num den) in *.
    assert (Hden : IZR den = / powerRZ 2 e).
    { unfold den. rewrite IZR_pow2 by lia. rewrite powerRZ_neg'. reflexivity. }
    assert (P2 : 0 < powerRZ 2 e) by (apply powerRZ_lt; lra).
    assert (Hnum : IZR m * powerRZ 2 e * 10 ^ p = IZR num * powerRZ 2 e).
    { unfold num. rewrite mult_IZR, IZR_pow10. ring. }
    rewrite Hnum.
    replace (IZR q - IZR num * powerRZ 2 e) with (IZR (q * den - num) * powerRZ 2 e).
    2:{ rewrite minus_IZR, mult_IZR, Hden. field. lra. }
    rewrite Rabs_mult, (Rabs_right (powerRZ 2 e)) by lra.
    rewrite <- abs_IZR. intro H. apply S2. apply eq_IZR.
    rewrite mult_IZR, Hden.
    apply Rmult_eq_reg_r with (powerRZ 2 e); [|lra].
    rewrite Rinv_l by lra. lra.
Qed.

Lemma float_fmt_prec_finite p x s m e : Prim2SF x = S754_finite s m e ->
  float_fmt_prec p x = sign_str s ++ dec_point p (scaled_round (Zpos m) e p).
Proof. intro H. unfold float_fmt_prec. rewrite H. reflexivity. Qed.

Lemma float_fmt_prec_zero p x s : Prim2SF x = S754_zero s ->
  float_fmt_prec p x = sign_str s ++ dec_point p 0.
Proof. intro H. unfold float_fmt_prec. rewrite H. reflexivity. Qed.

(* C17, number level, about the function that is extracted and compared text-for-text with Rust
   (float_fmt_prec p x = sf_fmt_prec p (Prim2SF x) by definition):
   `{:.p}` of the finite binary64 value (-1)^s * m * 2^e prints sign and digits of an integer n within
   1/2 of m*2^e*10^p (ties to even), and that text -- trimmed or not -- reads back within 1/2*10^-p. *)
Lemma c17_fmt_prec_exact : forall (p : nat) (s : bool) (m : positive) (e : Z),
  exists (n : Z) (y : R),
    sf_fmt_prec p (S754_finite s m e) = sign_str s ++ dec_point p n
    /\ (0 <= n)%Z
    /\ Rabs (IZR n - IZR (Zpos m) * powerRZ 2 e * 10 ^ p) <= / 2
    /\ (Rabs (IZR n - IZR (Zpos m) * powerRZ 2 e * 10 ^ p) = / 2 -> Z.even n = true)
    /\ @parse_dec R RNum (dec_point p n) = Some y
    /\ @parse_dec R RNum (trim_num (dec_point p n)) = Some y
    /\ Rabs (y - IZR (Zpos m) * powerRZ 2 e) <= / 2 * / 10 ^ p.
Proof.
  intros p s m e.
  destruct (scaled_round_spec (Zpos m) e p ltac:(lia)) as [N0 N1].
  destruct (fmt_prec_number_level p _ _ N0 N1) as [y [Y1 [Y2 Y3]]].
  exists (scaled_round (Zpos m) e p), y.
  repeat split; try assumption.
  apply scaled_round_half_even. lia.
Qed.

(* ========================================================================== *)
(** * Part D: SimplePolynomial -- print, then parse_simple *)

(* ---- character classes of the printed text ---------------------------------- *)
Definition plainb (c : N) : bool :=
  negb (is_whitespace c) && negb (N.eqb c c_minus) && negb (N.eqb c c_plus).
Definition plain (s : str) : bool := forallb plainb s.

Lemma numch_facts c : numch c = true ->
  plainb c = true /\ c <> c_caret /\ is_ascii_letter c = false.
Proof.
  intro H. pose proof (numch_lt128 c H) as L.
  pose proof (below128 (fun c => implb (numch c)
     (plainb c && negb (N.eqb c c_caret) && negb (is_ascii_letter c))) ltac:(vm_compute; reflexivity) c L) as B.
  cbv beta in B. rewrite H in B. cbn [implb] in B.
  apply andb_true_iff in B. destruct B as [B B3]. apply andb_true_iff in B. destruct B as [B1 B2].
  repeat split; [exact B1| |apply negb_true_iff; exact B3].
  intro E. subst c. discriminate.
Qed.

Lemma letter_facts c : (c < 128)%N -> is_ascii_letter c = true ->
  numch c = false /\ c <> c_plus /\ c <> c_minus /\ c <> c_caret /\ is_ascii_digit c = false.
Proof.
  intros L H.
  pose proof (below128 (fun c => implb (is_ascii_letter c)
     (negb (numch c) && negb (N.eqb c c_plus) && negb (N.eqb c c_minus) && negb (N.eqb c c_caret)
      && negb (is_ascii_digit c))) ltac:(vm_compute; reflexivity) c L) as B.
  cbv beta in B. rewrite H in B. cbn [implb] in B.
  repeat (apply andb_true_iff in B; let X := fresh "B" in destruct B as [B X]).
  repeat split; try (apply negb_true_iff; assumption);
    intro E; subst c; discriminate.
Qed.

Lemma strip_ws_app a b : strip_ws (a ++ b) = strip_ws a ++ strip_ws b.
Proof. apply filter_app. Qed.
Lemma m2pm_app a b : minus_to_plusminus (a ++ b) = minus_to_plusminus a ++ minus_to_plusminus b.
Proof. apply flat_map_app. Qed.

Lemma plain_app a b : plain (a ++ b) = plain a && plain b.
Proof. apply forallb_app. Qed.

Lemma strip_ws_plain s : plain s = true -> strip_ws s = s.
Proof.
  induction s as [|c s IH]; intro H; [reflexivity|].
  cbn in H. apply andb_true_iff in H. destruct H as [H1 H2].
  unfold plainb in H1. apply andb_true_iff in H1. destruct H1 as [H1 _].
  apply andb_true_iff in H1. destruct H1 as [H1 _].
  cbn [strip_ws filter]. rewrite H1. f_equal. apply IH. exact H2.
Qed.

Lemma m2pm_plain s : plain s = true -> minus_to_plusminus s = s.
Proof.
  induction s as [|c s IH]; intro H; [reflexivity|].
  cbn in H. apply andb_true_iff in H. destruct H as [H1 H2].
  unfold plainb in H1. apply andb_true_iff in H1. destruct H1 as [H1 _].
  apply andb_true_iff in H1. destruct H1 as [_ H1]. apply negb_true_iff in H1.
  cbn [minus_to_plusminus flat_map]. rewrite H1. cbn [app]. f_equal. apply IH. exact H2.
Qed.

Lemma plain_no_plus s : plain s = true -> ~ In c_plus s.
Proof.
  intros H Hin. unfold plain in H. rewrite forallb_forall in H. specialize (H _ Hin).
  vm_compute in H. discriminate.
Qed.
Lemma plain_no_minus s : plain s = true -> ~ In c_minus s.
Proof.
  intros H Hin. unfold plain in H. rewrite forallb_forall in H. specialize (H _ Hin).
  vm_compute in H. discriminate.
Qed.

Lemma body_ok_plain s : body_ok s = true -> plain s = true.
Proof.
  unfold body_ok, plain. rewrite !forallb_forall. intros H c Hc.
  apply numch_facts. apply H. exact Hc.
Qed.

Lemma skipn_S_app {A} (a : list A) x r : skipn (S (length a)) (a ++ x :: r) = r.
Proof. induction a; cbn; [reflexivity|assumption]. Qed.

Lemma mapM_ok {A B} (f : A -> res B) (g : A -> B) (l : list A) :
  (forall x, In x l -> f x = Ok (g x)) -> mapM f l = Ok (map g l).
Proof.
  induction l as [|x l IH]; intro H; [reflexivity|].
  cbn [mapM map]. rewrite (H x (or_introl eq_refl)). cbn [bind].
  rewrite IH by (intros y Hy; apply H; right; exact Hy). reflexivity.
Qed.

Local Open Scope R_scope.

(* ---- the finiteness checks of the parsers (fix fa94a59) are no-ops in exact arithmetic ---- *)
Lemma is_finite_R (x : R) : @is_finite R RNum x = true.
Proof.
  unfold is_finite. cbn [neqb nsub n0 RNum]. apply Reqb_true. ring.
Qed.

Lemma parse_dec_finite_R (s : str) : @parse_dec_finite R RNum s = @parse_dec R RNum s.
Proof.
  unfold parse_dec_finite. destruct (@parse_dec R RNum s) as [v|]; [rewrite is_finite_R|]; reflexivity.
Qed.

Lemma sums_finite_R (ts : list (R * nat)) : @sums_finite R RNum ts = true.
Proof.
  unfold sums_finite.
  generalize (repeat (@n0 R RNum) (S (max_power_of ts))).
  assert (G : forall (l : list (R * nat)) (cs : list R) (b : bool),
             snd (fold_left (fun (st : list R * bool) t =>
                    let cs' := add_at (fst st) (snd t) (fst t) in
                    (cs', snd st && @is_finite R RNum (nth (snd t) cs' n0))) l (cs, b)) = b).
  { induction l as [|t l IH]; intros cs b; [reflexivity|].
    cbn [fold_left fst snd]. rewrite IH, is_finite_R, andb_true_r. reflexivity. }
  intro cs. apply G.
Qed.

Lemma all_finite_R (l : list (name * R)) : forallb (fun vp => @is_finite R RNum (snd vp)) l = true.
Proof. induction l as [|x l IH]; [reflexivity|]. cbn [forallb]. rewrite is_finite_R, IH. reflexivity. Qed.

(* ---- dense_coeffs ---------------------------------------------------------------- *)
Fixpoint sumat (k : nat) (ts : list (R * nat)) : R :=
  match ts with
  | [] => 0
  | t :: ts' => (if Nat.eqb (snd t) k then fst t else 0) + sumat k ts'
  end.

Lemma sumat_app k a b : sumat k (a ++ b) = sumat k a + sumat k b.
Proof. induction a as [|t a IH]; cbn [app sumat]; [ring|]. rewrite IH. ring. Qed.
Lemma sumat_rev k a : sumat k (rev a) = sumat k a.
Proof.
  induction a as [|t a IH]; [reflexivity|]. cbn [rev]. rewrite sumat_app, IH. cbn [sumat]. ring.
Qed.

Lemma add_at_length (cs : list R) : forall p c, length (add_at cs p c) = length cs.
Proof. induction cs as [|x cs IH]; intros [|p] c; cbn; try reflexivity. rewrite IH. reflexivity. Qed.

Lemma add_at_nth (cs : list R) : forall p c k, (p < length cs)%nat ->
  nth k (add_at cs p c) 0 = nth k cs 0 + (if Nat.eqb p k then c else 0).
Proof.
  induction cs as [|x cs IH]; intros p c k Hp; [cbn in Hp; lia|].
  destruct p as [|p]; destruct k as [|k]; cbn [add_at nth Nat.eqb nadd RNum]; try ring.
  apply IH. cbn in Hp. lia.
Qed.

Lemma fold_add_at_nth (ts : list (R * nat)) : forall (cs : list R) k,
  (forall t, In t ts -> (snd t < length cs)%nat) ->
  nth k (fold_left (fun cs t => add_at cs (snd t) (fst t)) ts cs) 0 = nth k cs 0 + sumat k ts.
Proof.
  induction ts as [|t ts IH]; intros cs k H; cbn [fold_left sumat]; [ring|].
  rewrite IH.
  - rewrite add_at_nth by (apply H; left; reflexivity). ring.
  - intros t' Ht'. rewrite add_at_length. apply H. right. exact Ht'.
Qed.

Lemma max_power_ge (ts : list (R * nat)) : forall m0 t, In t ts ->
  (snd t <= fold_left (fun m t => Nat.max m (snd t)) ts m0)%nat.
Proof.
  induction ts as [|x ts IH]; intros m0 t Ht; [contradiction|].
  cbn [fold_left]. destruct Ht as [->|Ht].
  - clear IH. generalize (Nat.max m0 (snd t)) (Nat.le_max_r m0 (snd t)).
    induction ts as [|y ts IH2]; intros m Hm; cbn [fold_left]; [exact Hm|].
    apply IH2. lia.
  - apply IH. exact Ht.
Qed.

Lemma max_power_le (ts : list (R * nat)) b : forall m0, (m0 <= b)%nat ->
  (forall t, In t ts -> (snd t <= b)%nat) ->
  (fold_left (fun m t => Nat.max m (snd t)) ts m0 <= b)%nat.
Proof.
  induction ts as [|x ts IH]; intros m0 H0 H; cbn [fold_left]; [exact H0|].
  apply IH; [pose proof (H x (or_introl eq_refl)); lia|].
  intros t Ht. apply H. right. exact Ht.
Qed.

Lemma nth_repeat0 k n : nth k (repeat 0 n) 0 = 0.
Proof. revert k; induction n as [|n IH]; intros [|k]; cbn; try reflexivity. apply IH. Qed.

Lemma dense_coeffs_nth (ts : list (R * nat)) k : nth k (dense_coeffs ts) 0 = sumat k ts.
Proof.
  unfold dense_coeffs. rewrite fold_add_at_nth.
  - cbn [n0 RNum]. rewrite nth_repeat0. ring.
  - intros t Ht. rewrite repeat_length. unfold max_power_of.
    pose proof (max_power_ge ts O t Ht). lia.
Qed.

Lemma dense_coeffs_checked_ok (ts : list (R * nat)) :
  (forall t, In t ts -> (Z.of_nat (snd t) <= 65535)%Z) -> dense_coeffs_checked ts = Ok (dense_coeffs ts).
Proof.
  intro H. unfold dense_coeffs_checked.
  set (b := Z.to_nat 65535).
  assert (Eb : Z.of_nat b = 65535%Z) by (unfold b; rewrite Z2Nat.id; lia).
  assert (B : (max_power_of ts <= b)%nat).
  { apply max_power_le; [lia|]. intros t Ht. specialize (H t Ht). lia. }
  destruct (Z.leb_spec (2 ^ 64) (Z.of_nat (max_power_of ts) + 1)) as [L|L]; [exfalso; lia|].
  destruct (Z.ltb_spec (2 ^ 63 - 1) ((Z.of_nat (max_power_of ts) + 1) * 8)) as [L2|L2]; [exfalso; lia|].
  rewrite sums_finite_R. reflexivity.
Qed.

(* ---- the round trip, generic in the number formatter ------------------------------ *)
Section SimpleRT.
  Variable U : UClass.
  Hypothesis U_ascii : forall c, (c < 128)%N -> u_alphabetic U c = is_ascii_letter c.
  Variable fmt_prec : nat -> R -> str.
  Variable fmt_short : R -> str.
  Variable prec : option nat.
  Variable rd : R -> R.              (* the value the printed magnitude reads back as *)
  Variable var : N.
  Hypothesis var_alpha : u_alphabetic U var = true.
  Hypothesis var_nws : is_whitespace var = false.

  Let fnum := fmt_num fmt_prec fmt_short prec.
  Definition num_ok (a : R) : Prop :=
    body_ok (fnum a) = true /\ @parse_dec R RNum (fnum a) = Some (rd a).

  (* facts about the variable character *)
  Lemma var_facts : numch var = false /\ var <> c_plus /\ var <> c_minus /\ var <> c_caret.
  Proof.
    destruct (N.ltb_spec var 128) as [L|L].
    - pose proof (U_ascii var L) as E. rewrite var_alpha in E. symmetry in E.
      destruct (letter_facts var L E) as [A [B [C [D _]]]]. repeat split; assumption.
    - repeat split.
      + apply not_true_is_false. intro H. apply numch_lt128 in H. lia.
      + intro E. rewrite E in L. vm_compute in L. apply L. reflexivity.
      + intro E. rewrite E in L. vm_compute in L. apply L. reflexivity.
      + intro E. rewrite E in L. vm_compute in L. apply L. reflexivity.
  Qed.

  Lemma var_plainb : plainb var = true.
  Proof.
    destruct var_facts as [_ [B [C _]]]. unfold plainb. rewrite var_nws. cbn [negb andb].
    destruct (N.eqb_spec var c_minus); [contradiction|]. destruct (N.eqb_spec var c_plus); [contradiction|].
    reflexivity.
  Qed.

  Lemma body_ok_no_var s : body_ok s = true -> ~ In var s.
  Proof.
    intros H Hin. unfold body_ok in H. rewrite forallb_forall in H. specialize (H _ Hin).
    destruct var_facts as [A _]. congruence.
  Qed.

  Lemma numch_not_alpha c : numch c = true -> u_alphabetic U c = false.
  Proof.
    intro H. rewrite U_ascii by (apply numch_lt128; exact H). apply numch_facts. exact H.
  Qed.

  (* the pieces of one printed term *)
  Definition sgn_str (c : R) : str := if Rltb c 0 then [c_minus] else [].
  Definition cs_of (i : nat) (c : R) : str :=
    if nneb (nabs c) n1 || Nat.eqb i 0 then fnum (nabs c) else [].
  Definition body_of (i : nat) (c : R) : str := cs_of i c ++ simple_var_part var i.
  Definition nm (i : nat) (c : R) : str := sgn_str c ++ body_of i c.

  Lemma nat_dec_digits i : all_digits (nat_dec i) = true /\ nat_dec i <> [].
  Proof. destruct (Zdigits_spec (Z.of_nat i) ltac:(lia)) as [A [_ C]]. split; assumption. Qed.

  Lemma var_part_plain i : plain (simple_var_part var i) = true.
  Proof.
    destruct i as [|[|i]]; cbn [simple_var_part]; [reflexivity|cbn; rewrite var_plainb; reflexivity|].
    cbn [plain forallb]. rewrite var_plainb. cbn [andb].
    change (forallb plainb (nat_dec (S (S i)))) with (plain (nat_dec (S (S i)))).
    apply body_ok_plain, all_digits_body_ok, nat_dec_digits.
  Qed.

  Lemma cs_of_cases i c : num_ok (Rabs c) ->
    (cs_of i c = [] /\ (nneb (nabs c) n1 || Nat.eqb i 0) = false)
    \/ (cs_of i c = fnum (Rabs c) /\ (nneb (nabs c) n1 || Nat.eqb i 0) = true).
  Proof.
    intros _. unfold cs_of. destruct (nneb (nabs c) n1 || Nat.eqb i 0); [right|left]; split; reflexivity.
  Qed.

  Lemma cs_of_body_ok i c : num_ok (Rabs c) -> body_ok (cs_of i c) = true.
  Proof.
    intros [H _]. unfold cs_of. destruct (nneb (nabs c) n1 || Nat.eqb i 0); [exact H|reflexivity].
  Qed.

  Lemma body_of_plain i c : num_ok (Rabs c) -> plain (body_of i c) = true.
  Proof.
    intro H. unfold body_of. rewrite plain_app, (body_ok_plain _ (cs_of_body_ok i c H)), var_part_plain.
    reflexivity.
  Qed.
  Lemma sgn_str_cases c : (sgn_str c = [] /\ Rltb c 0 = false) \/ (sgn_str c = [c_minus] /\ Rltb c 0 = true).
  Proof. unfold sgn_str. destruct (Rltb c 0); [right|left]; split; reflexivity. Qed.

  (* body is never empty: either the number is printed (parse_dec of "" fails) or the variable is *)
  Lemma body_of_nonempty i c : num_ok (Rabs c) -> body_of i c <> [].
  Proof.
    intros [Hb Hp]. unfold body_of, cs_of. cbn [nabs RNum].
    destruct (nneb (Rabs c) n1) eqn:E1; cbn [orb].
    - destruct (fnum (Rabs c)); [discriminate Hp|discriminate].
    - destruct i as [|[|i]]; cbn [Nat.eqb simple_var_part].
      + destruct (fnum (Rabs c)); [discriminate Hp|discriminate].
      + discriminate.
      + discriminate.
  Qed.

  Lemma nm_no_plus i c : num_ok (Rabs c) -> ~ In c_plus (nm i c).
  Proof.
    intros H Hin. unfold nm in Hin. apply in_app_or in Hin. destruct Hin as [Hin|Hin].
    - destruct (sgn_str_cases c) as [[E _]|[E _]]; rewrite E in Hin; [contradiction|].
      destruct Hin as [X|[]]. discriminate X.
    - exact (plain_no_plus _ (body_of_plain i c H) Hin).
  Qed.

  Lemma nm_not_bad i c : num_ok (Rabs c) -> bad_part (nm i c) = false.
  Proof.
    intro H. pose proof (body_of_nonempty i c H) as Hne.
    pose proof (plain_no_minus _ (body_of_plain i c H)) as Hnm.
    unfold nm. destruct (body_of i c) as [|b bs] eqn:E; [contradiction|].
    destruct (sgn_str_cases c) as [[Es _]|[Es _]]; rewrite Es; cbn [app bad_part].
    - destruct bs; [|reflexivity]. apply N.eqb_neq. intro X. apply Hnm. left. exact X.
    - reflexivity.
  Qed.

  (* ---- the text after strip_ws / minus_to_plusminus ---- *)
  Fixpoint normtext (its : list (nat * R)) (first : bool) : str :=
    match its with
    | [] => []
    | (i, c) :: r =>
        if Reqb c 0 then normtext r first
        else (if first && Rltb 0 c then [] else [c_plus]) ++ nm i c ++ normtext r false
    end.
  Fixpoint partsof (its : list (nat * R)) : list str :=
    match its with
    | [] => []
    | (i, c) :: r => if Reqb c 0 then partsof r else nm i c :: partsof r
    end.
  Definition all_ok (its : list (nat * R)) : Prop :=
    forall i c, In (i, c) its -> c <> 0 -> num_ok (Rabs c).

  Lemma all_ok_tail t its : all_ok (t :: its) -> all_ok its.
  Proof. intros H i c Hin Hc. apply (H i c); [right; exact Hin|exact Hc]. Qed.

  Notation sloop := (simple_loop fmt_prec fmt_short prec var).

  Lemma sloop_cons i c rest first :
    sloop ((i, c) :: rest) first =
    if Reqb c 0 then sloop rest first
    else ((if negb first && Rltb 0 c then sep_plus else if Rltb c 0 then sep_minus else [])
          ++ cs_of i c ++ simple_var_part var i ++ fst (sloop rest false), snd (sloop rest false)).
  Proof.
    cbn [simple_loop]. cbn [neqb n0 RNum ngtb nltb]. destruct (Reqb c 0); [reflexivity|].
    destruct (sloop rest false) as [r f]. reflexivity.
  Qed.

  Lemma loop_norm its : forall first, all_ok its ->
    minus_to_plusminus (strip_ws (fst (sloop its first))) = normtext its first.
  Proof.
    induction its as [|[i c] its IH]; intros first Hok; [reflexivity|].
    rewrite sloop_cons. cbn [normtext]. destruct (Reqb c 0) eqn:Ec.
    - apply IH. exact (all_ok_tail _ _ Hok).
    - cbn [fst].
      assert (Hc : c <> 0) by (apply Reqb_false; exact Ec).
      assert (Hn : num_ok (Rabs c)) by (apply (Hok i c); [left; reflexivity|exact Hc]).
      rewrite !strip_ws_app, !m2pm_app.
      rewrite (IH false (all_ok_tail _ _ Hok)).
      rewrite (strip_ws_plain (cs_of i c)), (m2pm_plain (cs_of i c))
        by (apply body_ok_plain, cs_of_body_ok; exact Hn).
      rewrite (strip_ws_plain (simple_var_part var i)), (m2pm_plain (simple_var_part var i))
        by apply var_part_plain.
      unfold nm, body_of. rewrite <- !app_assoc.
      destruct (Rltb c 0) eqn:Eneg.
      + (* negative: " - " whatever `first` is *)
        assert (E0 : Rltb 0 c = false).
        { apply Rltb_false. apply Rltb_true in Eneg. lra. }
        rewrite E0, !andb_false_r. unfold sgn_str. rewrite Eneg. reflexivity.
      + assert (E0 : Rltb 0 c = true).
        { apply Rltb_true. apply Rltb_false in Eneg. lra. }
        rewrite E0, !andb_true_r. unfold sgn_str. rewrite Eneg.
        destruct first; reflexivity.
  Qed.

  Lemma loop_snd its : forall first,
    snd (sloop its first) = first && forallb (fun t => Reqb (snd t) 0) its.
  Proof.
    induction its as [|[i c] its IH]; intro first; [cbn; rewrite andb_true_r; reflexivity|].
    rewrite sloop_cons. cbn [forallb snd]. destruct (Reqb c 0); cbn [andb].
    - apply IH.
    - cbn [snd]. rewrite IH. cbn [andb]. rewrite andb_false_r. reflexivity.
  Qed.

  Lemma split_norm its : forall a, ~ In c_plus a -> all_ok its ->
    split_on c_plus (a ++ normtext its false) = a :: partsof its.
  Proof.
    induction its as [|[i c] its IH]; intros a Ha Hok.
    - cbn [normtext partsof]. rewrite app_nil_r. apply split_on_nosep. exact Ha.
    - cbn [normtext partsof]. destruct (Reqb c 0) eqn:Ec.
      + apply IH; [exact Ha|exact (all_ok_tail _ _ Hok)].
      + assert (Hn : num_ok (Rabs c)).
        { apply (Hok i c); [left; reflexivity|apply Reqb_false; exact Ec]. }
        cbn [andb app]. rewrite split_on_sep by exact Ha. f_equal.
        apply IH; [apply nm_no_plus; exact Hn|exact (all_ok_tail _ _ Hok)].
  Qed.

  Lemma parts_norm its : all_ok its ->
    drop_leading_empty (split_on c_plus (normtext its true)) = partsof its.
  Proof.
    induction its as [|[i c] its IH]; intro Hok; [reflexivity|].
    cbn [normtext partsof]. destruct (Reqb c 0) eqn:Ec.
    - apply IH. exact (all_ok_tail _ _ Hok).
    - assert (Hn : num_ok (Rabs c)).
      { apply (Hok i c); [left; reflexivity|apply Reqb_false; exact Ec]. }
      cbn [andb]. destruct (Rltb 0 c).
      + cbn [app]. rewrite split_norm; [|apply nm_no_plus; exact Hn|exact (all_ok_tail _ _ Hok)].
        pose proof (nm_not_bad i c Hn) as Hb.
        destruct (nm i c); [discriminate Hb|reflexivity].
      + change ([c_plus] ++ nm i c ++ normtext its false) with ([] ++ c_plus :: (nm i c ++ normtext its false)).
        rewrite split_on_sep by (intros []).
        rewrite split_norm; [|apply nm_no_plus; exact Hn|exact (all_ok_tail _ _ Hok)].
        reflexivity.
  Qed.

  Lemma parts_not_bad its : all_ok its -> existsb bad_part (partsof its) = false.
  Proof.
    induction its as [|[i c] its IH]; intro Hok; [reflexivity|].
    cbn [partsof]. destruct (Reqb c 0) eqn:Ec; [apply IH; exact (all_ok_tail _ _ Hok)|].
    cbn [existsb]. rewrite nm_not_bad, IH; [reflexivity|exact (all_ok_tail _ _ Hok)|].
    apply (Hok i c); [left; reflexivity|apply Reqb_false; exact Ec].
  Qed.

  (* ---- which variable the parser finds ---- *)
  Definition nmch (c : N) : bool :=
    numch c || N.eqb c c_minus || N.eqb c c_caret || N.eqb c c_plus || N.eqb c var.

  Lemma nmch_alpha c : nmch c = true -> c <> var -> u_alphabetic U c = false.
  Proof.
    unfold nmch. rewrite !orb_true_iff. intros [[[[H|H]|H]|H]|H] Hv.
    - apply numch_not_alpha. exact H.
    - apply N.eqb_eq in H. subst c. rewrite U_ascii by reflexivity. reflexivity.
    - apply N.eqb_eq in H. subst c. rewrite U_ascii by reflexivity. reflexivity.
    - apply N.eqb_eq in H. subst c. rewrite U_ascii by reflexivity. reflexivity.
    - apply N.eqb_eq in H. contradiction.
  Qed.

  Lemma find_pred_nmch s : forallb nmch s = true ->
    find_pred (u_alphabetic U) s = if existsb (N.eqb var) s then Some var else None.
  Proof.
    induction s as [|c s IH]; intro H; [reflexivity|].
    cbn [forallb] in H. apply andb_true_iff in H. destruct H as [H1 H2].
    cbn [find_pred existsb]. destruct (N.eqb_spec var c) as [E|E].
    - subst c. rewrite var_alpha. reflexivity.
    - rewrite (nmch_alpha c H1) by congruence. cbn [orb]. apply IH. exact H2.
  Qed.

  Lemma numch_nmch c : numch c = true -> nmch c = true.
  Proof. intro H. unfold nmch. rewrite H. reflexivity. Qed.
  Lemma body_ok_nmch s : body_ok s = true -> forallb nmch s = true.
  Proof.
    unfold body_ok. rewrite !forallb_forall. intros H c Hc. apply numch_nmch, H, Hc.
  Qed.
  Lemma var_nmch : nmch var = true.
  Proof. unfold nmch. rewrite N.eqb_refl, !orb_true_r. reflexivity. Qed.

  Lemma var_part_nmch i : forallb nmch (simple_var_part var i) = true.
  Proof.
    destruct i as [|[|i]]; cbn [simple_var_part forallb]; [reflexivity|rewrite var_nmch; reflexivity|].
    rewrite var_nmch. cbn [andb]. apply andb_true_iff. split; [reflexivity|].
    apply body_ok_nmch, all_digits_body_ok, nat_dec_digits.
  Qed.

  Lemma nm_nmch i c : num_ok (Rabs c) -> forallb nmch (nm i c) = true.
  Proof.
    intro H. unfold nm, body_of. rewrite !forallb_app.
    rewrite (body_ok_nmch _ (cs_of_body_ok i c H)), var_part_nmch, !andb_true_r.
    destruct (sgn_str_cases c) as [[E _]|[E _]]; rewrite E; reflexivity.
  Qed.

  Lemma normtext_nmch its : forall first, all_ok its -> forallb nmch (normtext its first) = true.
  Proof.
    induction its as [|[i c] its IH]; intros first Hok; [reflexivity|].
    cbn [normtext]. destruct (Reqb c 0) eqn:Ec; [apply IH; exact (all_ok_tail _ _ Hok)|].
    rewrite !forallb_app, nm_nmch, IH, !andb_true_r; [|exact (all_ok_tail _ _ Hok)|].
    - destruct (first && Rltb 0 c); [reflexivity|]. cbn [forallb]. rewrite andb_true_r.
      unfold nmch. rewrite N.eqb_refl, !orb_true_r. reflexivity.
    - apply (Hok i c); [left; reflexivity|apply Reqb_false; exact Ec].
  Qed.

  (* a printed non-constant term puts the variable into the text *)
  Lemma var_in_normtext its : forall first i c, In (i, c) its -> c <> 0 -> i <> O ->
    In var (normtext its first).
  Proof.
    induction its as [|[j d] its IH]; intros first i c Hin Hc Hi; [contradiction|].
    cbn [normtext]. destruct Hin as [E|Hin].
    - injection E as -> ->. destruct (Reqb c 0) eqn:Ec; [apply Reqb_true in Ec; contradiction|].
      apply in_or_app. right. apply in_or_app. left.
      unfold nm, body_of. apply in_or_app. right. apply in_or_app. right.
      destruct i as [|[|i]]; [contradiction|left; reflexivity|left; reflexivity].
    - destruct (Reqb d 0); [exact (IH first i c Hin Hc Hi)|].
      apply in_or_app. right. apply in_or_app. right. exact (IH false i c Hin Hc Hi).
  Qed.

  (* ---- one part back through simple_term ---- *)
  Definition coeff_of (coeff_str : str) : res R :=
    match coeff_str with
    | [] => Ok n1
    | [c] => if N.eqb c c_plus then Ok n1
             else if N.eqb c c_minus then Ok (nneg n1)
             else match parse_dec_finite coeff_str with Some c => Ok c | None => Err EInvalidCoefficient end
    | _ => match parse_dec_finite coeff_str with Some c => Ok c | None => Err EInvalidCoefficient end
    end.

  Lemma simple_term_var a rest : ~ In var a ->
    @simple_term R RNum (Some var) (a ++ var :: rest) =
    match coeff_of a with
    | Ok c =>
        match rest with
        | [] => Ok (c, 1%nat)
        | r :: pow_str =>
            if N.eqb r c_caret then
              match parse_nat_text pow_str with
              | Some p => if (p <=? MAX_POWER)%Z then Ok (c, Z.to_nat p) else Err EInvalidExponent
              | None => Err EInvalidExponent
              end
            else Err EUnexpectedChar
        end
    | Err e => Err e
    | Panic w => Panic w
    end.
  Proof.
    intro H. unfold simple_term. rewrite find_char_app by exact H.
    rewrite firstn_app_exact, skipn_S_app. reflexivity.
  Qed.

  Lemma coeff_of_num s v : body_ok s = true -> @parse_dec R RNum s = Some v -> coeff_of s = Ok v.
  Proof.
    intros Hb Hp. destruct s as [|d [|e s]]; [discriminate Hp| |].
    - unfold coeff_of. cbn [body_ok forallb] in Hb. rewrite andb_true_r in Hb.
      destruct (numch_facts d Hb) as [P _]. unfold plainb in P.
      apply andb_true_iff in P. destruct P as [P P2]. apply andb_true_iff in P. destruct P as [_ P1].
      apply negb_true_iff in P1, P2. rewrite P1, P2, parse_dec_finite_R, Hp. reflexivity.
    - unfold coeff_of. rewrite parse_dec_finite_R, Hp. reflexivity.
  Qed.

  Lemma parse_dec_neg s v : body_ok s = true -> @parse_dec R RNum s = Some v ->
    @parse_dec R RNum (c_minus :: s) = Some (- v).
  Proof.
    intros Hb Hp. rewrite parse_dec_minus.
    rewrite parse_dec_unsigned in Hp; [|intro t; apply body_ok_not_minus; exact Hb
                                       |intro E; subst s; discriminate Hp].
    rewrite Hp. reflexivity.
  Qed.

  Lemma coeff_of_neg_num s v : body_ok s = true -> @parse_dec R RNum s = Some v ->
    coeff_of (c_minus :: s) = Ok (- v).
  Proof.
    intros Hb Hp. pose proof (parse_dec_neg s v Hb Hp) as Hn.
    destruct s as [|d s]; [discriminate Hp|].
    unfold coeff_of. rewrite parse_dec_finite_R, Hn. reflexivity.
  Qed.

  (* the value one printed term reads back as *)
  Definition readc (i : nat) (c : R) : R :=
    if nneb (nabs c) n1 || Nat.eqb i 0 then (if Rltb c 0 then - rd (Rabs c) else rd (Rabs c)) else c.

  Lemma rest_power i c0 : (2 <= i)%nat -> (Z.of_nat i <= 65535)%Z ->
    (if N.eqb c_caret c_caret then
       match parse_nat_text (nat_dec i) with
       | Some p => if (p <=? MAX_POWER)%Z then Ok (c0, Z.to_nat p) else Err EInvalidExponent
       | None => Err EInvalidExponent
       end
     else Err EUnexpectedChar) = @Ok (R * nat) (c0, i).
  Proof.
    intros _ Hi. rewrite N.eqb_refl, parse_nat_text_nat_dec.
    unfold MAX_POWER. destruct (Z.leb_spec (Z.of_nat i) 65535) as [L|L]; [|lia].
    rewrite Nat2Z.id. reflexivity.
  Qed.

  Lemma term_reads (variable : option N) i c :
    c <> 0 -> num_ok (Rabs c) -> (Z.of_nat i <= 65535)%Z ->
    (variable = Some var \/ (variable = None /\ i = O)) ->
    @simple_term R RNum variable (nm i c) = Ok (readc i c, i).
  Proof.
    intros Hc [Hb Hp] Hi Hv.
    pose proof (body_ok_no_var _ Hb) as NoVar.
    assert (Hsgn : forall s, body_ok s = true -> ~ In var (sgn_str c ++ s)).
    { intros s Hs Hin. apply in_app_or in Hin. destruct Hin as [Hin|Hin].
      - destruct (sgn_str_cases c) as [[E _]|[E _]]; rewrite E in Hin; [contradiction|].
        destruct Hin as [X|[]]. destruct var_facts as [_ [_ [V _]]]. congruence.
      - exact (body_ok_no_var _ Hs Hin). }
    destruct i as [|i].
    - (* constant term: the whole part is a signed decimal *)
      unfold nm, body_of, cs_of, readc. cbn [Nat.eqb simple_var_part]. rewrite orb_true_r, app_nil_r.
      cbn [nabs RNum].
      assert (Pd : @parse_dec R RNum (sgn_str c ++ fnum (Rabs c))
                   = Some (if Rltb c 0 then - rd (Rabs c) else rd (Rabs c))).
      { unfold sgn_str. destruct (Rltb c 0); cbn [app]; [apply parse_dec_neg; assumption|exact Hp]. }
      unfold simple_term. rewrite parse_dec_finite_R, Pd.
      destruct Hv as [->|[-> _]]; [|reflexivity].
      rewrite find_char_none by (apply Hsgn; exact Hb). reflexivity.
    - destruct Hv as [->|[_ X]]; [|discriminate X].
      unfold nm, body_of.
      assert (Ev : simple_var_part var (S i) = var :: match i with O => [] | _ => c_caret :: nat_dec (S i) end).
      { destruct i; reflexivity. }
      rewrite Ev, app_assoc.
      rewrite simple_term_var by (apply Hsgn; apply cs_of_body_ok; split; assumption).
      unfold readc, cs_of. cbn [Nat.eqb nabs RNum]. rewrite orb_false_r.
      destruct (nneb (Rabs c) n1) eqn:E1.
      + (* coefficient printed *)
        assert (Cf : coeff_of (sgn_str c ++ fnum (Rabs c))
                     = Ok (if Rltb c 0 then - rd (Rabs c) else rd (Rabs c))).
        { unfold sgn_str. destruct (Rltb c 0); cbn [app];
            [apply coeff_of_neg_num; assumption|apply coeff_of_num; assumption]. }
        rewrite Cf. destruct i; [reflexivity|]. apply rest_power; lia.
      + (* unit coefficient elided: "" or "-" *)
        rewrite app_nil_r.
        assert (Habs : Rabs c = 1).
        { unfold nneb in E1. apply negb_false_iff in E1. cbn [neqb n1 RNum] in E1.
          apply Reqb_true in E1. exact E1. }
        assert (Cf : coeff_of (sgn_str c) = Ok c).
        { unfold sgn_str. destruct (Rltb c 0) eqn:En; cbn [coeff_of].
          - rewrite N.eqb_refl. replace (N.eqb c_minus c_plus) with false by reflexivity.
            cbn [nneg n1 RNum]. apply Rltb_true in En. rewrite Rabs_left in Habs by exact En.
            f_equal. lra.
          - cbn [n1 RNum]. apply Rltb_false in En. rewrite Rabs_right in Habs by lra.
            f_equal. lra. }
        rewrite Cf. destruct i; [reflexivity|]. apply rest_power; lia.
  Qed.

  Fixpoint termsof (its : list (nat * R)) : list (R * nat) :=
    match its with
    | [] => []
    | (i, c) :: r => if Reqb c 0 then termsof r else (readc i c, i) :: termsof r
    end.

  Lemma mapM_parts (variable : option N) its : all_ok its ->
    (forall i c, In (i, c) its -> (Z.of_nat i <= 65535)%Z) ->
    (variable = Some var \/ (variable = None /\ forall i c, In (i, c) its -> c <> 0 -> i = O)) ->
    mapM (@simple_term R RNum variable) (partsof its) = Ok (termsof its).
  Proof.
    induction its as [|[i c] its IH]; intros Hok Hi Hv; [reflexivity|].
    assert (Hv' : variable = Some var \/ (variable = None /\ forall i c, In (i, c) its -> c <> 0 -> i = O)).
    { destruct Hv as [Hv|[Hv1 Hv2]]; [left; exact Hv|right; split; [exact Hv1|]].
      intros j d Hin. apply Hv2. right. exact Hin. }
    assert (Hi' : forall i c, In (i, c) its -> (Z.of_nat i <= 65535)%Z).
    { intros j d Hin. apply (Hi j d). right. exact Hin. }
    cbn [partsof termsof]. destruct (Reqb c 0) eqn:Ec.
    - apply IH; [exact (all_ok_tail _ _ Hok)|exact Hi'|exact Hv'].
    - assert (Hc : c <> 0) by (apply Reqb_false; exact Ec).
      cbn [mapM]. rewrite term_reads; [| exact Hc | apply (Hok i c); [left; reflexivity|exact Hc]
                                       | apply (Hi i c); left; reflexivity | ].
      + cbn [bind]. rewrite IH; [reflexivity|exact (all_ok_tail _ _ Hok)|exact Hi'|exact Hv'].
      + destruct Hv as [Hv|[Hv1 Hv2]]; [left; exact Hv|right; split; [exact Hv1|]].
        apply (Hv2 i c); [left; reflexivity|exact Hc].
  Qed.

  Lemma termsof_app a b : termsof (a ++ b) = termsof a ++ termsof b.
  Proof.
    induction a as [|[i c] a IH]; [reflexivity|]. cbn [app termsof].
    destruct (Reqb c 0); [exact IH|]. cbn [app]. f_equal. exact IH.
  Qed.
  Lemma termsof_rev a : termsof (rev a) = rev (termsof a).
  Proof.
    induction a as [|[i c] a IH]; [reflexivity|]. cbn [rev termsof].
    rewrite termsof_app, IH. cbn [termsof]. destruct (Reqb c 0); cbn [rev]; [rewrite app_nil_r|]; reflexivity.
  Qed.

  Lemma termsof_bound its t : (forall i c, In (i, c) its -> (Z.of_nat i <= 65535)%Z) ->
    In t (termsof its) -> (Z.of_nat (snd t) <= 65535)%Z.
  Proof.
    induction its as [|[i c] its IH]; intros Hi Hin; [contradiction|].
    cbn [termsof] in Hin.
    assert (Hi' : forall i c, In (i, c) its -> (Z.of_nat i <= 65535)%Z).
    { intros j d H. apply (Hi j d). right. exact H. }
    destruct (Reqb c 0); [exact (IH Hi' Hin)|].
    destruct Hin as [<-|Hin]; [cbn [snd]; apply (Hi i c); left; reflexivity|exact (IH Hi' Hin)].
  Qed.

  (* what degree k reads back as *)
  Definition readc' (k : nat) (c : R) : R := if Reqb c 0 then 0 else readc k c.

  Lemma sumat_enumerate cs : forall s k,
    sumat k (termsof (combine (seq s (length cs)) cs))
    = if (s <=? k)%nat then readc' k (nth (k - s) cs 0) else 0.
  Proof.
    induction cs as [|c cs IH]; intros s k.
    - cbn. unfold readc'. destruct (k - s)%nat; destruct (s <=? k)%nat; try reflexivity;
        (replace (Reqb 0 0) with true by (symmetry; apply Reqb_true; reflexivity)); reflexivity.
    - cbn [length seq combine termsof].
      assert (Tail : sumat k (termsof (combine (seq (S s) (length cs)) cs))
                     = if (S s <=? k)%nat then readc' k (nth (k - S s) cs 0) else 0) by apply IH.
      destruct (Nat.leb_spec s k) as [L|L].
      + destruct (Nat.eq_dec s k) as [E|E].
        * subst k. replace (s - s)%nat with O by lia. cbn [nth].
          destruct (Nat.leb_spec (S s) s) as [L2|L2]; [lia|].
          unfold readc'. destruct (Reqb c 0).
          -- rewrite Tail. reflexivity.
          -- cbn [sumat snd fst]. rewrite Nat.eqb_refl, Tail. ring.
        * destruct (Nat.leb_spec (S s) k) as [L2|L2]; [|lia].
          replace (k - s)%nat with (S (k - S s)) by lia. cbn [nth].
          destruct (Reqb c 0).
          -- rewrite Tail. reflexivity.
          -- cbn [sumat snd fst]. replace (Nat.eqb s k) with false by (symmetry; apply Nat.eqb_neq; exact E).
             rewrite Tail. ring.
      + destruct (Nat.leb_spec (S s) k) as [L2|L2]; [lia|].
        destruct (Reqb c 0).
        * rewrite Tail. reflexivity.
        * cbn [sumat snd fst]. replace (Nat.eqb s k) with false by (symmetry; apply Nat.eqb_neq; lia).
          rewrite Tail. ring.
  Qed.

  Lemma enumerate_in (cs : list R) (i : nat) (c : R) : In (i, c) (enumerate_rev cs) -> (i < length cs)%nat /\ In c cs.
  Proof.
    unfold enumerate_rev. rewrite <- in_rev. intro H.
    split; [apply in_combine_l in H; apply in_seq in H; lia|apply in_combine_r in H; exact H].
  Qed.

  (* ---- from the normalised text to the parsed polynomial ---- *)
  Lemma parse_zero_text :
    exists p', parse_simple U [c_zero] = Ok p' /\ (forall k, nth k (s_coefs p') 0 = 0) /\ s_var p' = None.
  Proof.
    assert (A0 : u_alphabetic U c_zero = false) by (rewrite U_ascii by reflexivity; reflexivity).
    assert (Hd : @dense_coeffs_checked R RNum [(@nofdec R RNum 0 0, O)] = Ok (dense_coeffs [(@nofdec R RNum 0 0, O)])).
    { apply dense_coeffs_checked_ok. intros t Ht. destruct Ht as [<-|[]]. cbn [snd]. lia. }
    exists {| s_coefs := dense_coeffs [(@nofdec R RNum 0 0, O)]; s_var := None |}. split; [|split].
    - unfold parse_simple.
      change (strip_ws [c_zero]) with [c_zero].
      change (minus_to_plusminus [c_zero]) with [c_zero].
      change (split_on c_plus [c_zero]) with [[c_zero]].
      cbn [drop_leading_empty existsb bad_part orb find_pred]. rewrite A0.
      cbn [mapM simple_term bind]. rewrite parse_dec_finite_R.
      change (@parse_dec R RNum [c_zero]) with (Some (@nofdec R RNum 0 0)).
      cbn [bind]. rewrite Hd. reflexivity.
    - intro k. cbn [s_coefs]. rewrite dense_coeffs_nth. cbn [sumat snd fst].
      rewrite nofdec_R. destruct (Nat.eqb 0 k); ring.
    - reflexivity.
  Qed.

  Lemma parse_from_norm (input : str) its : all_ok its ->
    (forall i c, In (i, c) its -> (Z.of_nat i <= 65535)%Z) ->
    minus_to_plusminus (strip_ws input) = normtext its true ->
    exists p', parse_simple U input = Ok p'
      /\ (forall k, nth k (s_coefs p') 0 = sumat k (termsof its))
      /\ ((exists i c, In (i, c) its /\ c <> 0 /\ i <> O) -> s_var p' = Some var).
  Proof.
    intros Hok Hi Hnorm.
    unfold parse_simple. rewrite Hnorm, (parts_norm its Hok), (parts_not_bad its Hok).
    rewrite (find_pred_nmch _ (normtext_nmch its true Hok)).
    destruct (existsb (N.eqb var) (normtext its true)) eqn:Ev.
    - rewrite (mapM_parts (Some var) its Hok Hi (or_introl eq_refl)).
      rewrite dense_coeffs_checked_ok by (intros t Ht; exact (termsof_bound its t Hi Ht)).
      eexists. split; [reflexivity|]. cbn [s_coefs s_var]. split; [|reflexivity].
      intro k. apply dense_coeffs_nth.
    - assert (Hconst : forall i c, In (i, c) its -> c <> 0 -> i = O).
      { intros i c Hin Hc. destruct i as [|i]; [reflexivity|exfalso].
        pose proof (var_in_normtext its true (S i) c Hin Hc ltac:(discriminate)) as Hv.
        assert (X : existsb (N.eqb var) (normtext its true) = true).
        { apply existsb_exists. exists var. split; [exact Hv|apply N.eqb_refl]. }
        congruence. }
      rewrite (mapM_parts None its Hok Hi (or_intror (conj eq_refl Hconst))).
      rewrite dense_coeffs_checked_ok by (intros t Ht; exact (termsof_bound its t Hi Ht)).
      eexists. split; [reflexivity|]. cbn [s_coefs s_var]. split.
      + intro k. apply dense_coeffs_nth.
      + intros [i [c [Hin [Hc Hi0]]]]. exfalso. apply Hi0. exact (Hconst i c Hin Hc).
  Qed.

  Lemma nth_in_enumerate (cs : list R) k : (k < length cs)%nat ->
    In (k, nth k cs 0) (combine (seq 0 (length cs)) cs).
  Proof.
    intro L.
    replace (k, nth k cs 0) with (nth k (combine (seq 0 (length cs)) cs) (O, 0)).
    - apply nth_In. rewrite combine_length, seq_length. lia.
    - rewrite combine_nth by apply seq_length. rewrite seq_nth by exact L. reflexivity.
  Qed.

  (* ---- the generic theorem ---- *)
  Theorem simple_roundtrip_generic (p : spoly R) :
    (Z.of_nat (length (s_coefs p)) <= 65536)%Z ->
    var = match s_var p with Some v => v | None => c_x end ->
    (forall c, In c (s_coefs p) -> c <> 0 -> num_ok (Rabs c)) ->
    exists p', parse_simple U (fmt_simple fmt_prec fmt_short prec p) = Ok p'
      /\ (forall k, nth k (s_coefs p') 0 = readc' k (nth k (s_coefs p) 0))
      /\ ((exists k, k <> O /\ nth k (s_coefs p) 0 <> 0) -> s_var p' = Some var).
  Proof.
    intros Hlen Hvar Hnum.
    set (its := enumerate_rev (s_coefs p)).
    assert (Hok : all_ok its).
    { intros i c Hin Hc. apply Hnum; [exact (proj2 (enumerate_in _ _ _ Hin))|exact Hc]. }
    assert (Hi : forall i c, In (i, c) its -> (Z.of_nat i <= 65535)%Z).
    { intros i c Hin. pose proof (proj1 (enumerate_in _ _ _ Hin)). lia. }
    unfold fmt_simple. rewrite <- Hvar. fold its.
    pose proof (loop_snd its true) as Hsnd. pose proof (loop_norm its true Hok) as Hnorm.
    destruct (sloop its true) as [s first] eqn:Eloop. cbn [fst snd] in Hsnd, Hnorm.
    cbn [andb] in Hsnd.
    assert (Hsum : forall k, sumat k (termsof its) = readc' k (nth k (s_coefs p) 0)).
    { intro k. unfold its, enumerate_rev. rewrite termsof_rev, sumat_rev, sumat_enumerate.
      cbn [Nat.leb]. rewrite Nat.sub_0_r. reflexivity. }
    destruct first.
    - (* every coefficient is zero: "0" *)
      symmetry in Hsnd. rewrite forallb_forall in Hsnd.
      assert (Z0 : forall k, nth k (s_coefs p) 0 = 0).
      { intro k. destruct (Nat.lt_ge_cases k (length (s_coefs p))) as [L|L]; [|apply nth_overflow; exact L].
        assert (Hin : In (k, nth k (s_coefs p) 0) its).
        { unfold its, enumerate_rev. rewrite <- in_rev. apply nth_in_enumerate. exact L. }
        specialize (Hsnd _ Hin). cbn [snd] in Hsnd. apply Reqb_true in Hsnd. exact Hsnd. }
      destruct parse_zero_text as [p' [P1 [P2 P3]]].
      exists p'. split; [exact P1|split].
      + intro k. rewrite P2, Z0. unfold readc'.
        replace (Reqb 0 0) with true by (symmetry; apply Reqb_true; reflexivity). reflexivity.
      + intros [k [_ Hk]]. exfalso. apply Hk. apply Z0.
    - (* at least one term is printed *)
      destruct (parse_from_norm s its Hok Hi Hnorm) as [p' [P1 [P2 P3]]].
      exists p'. split; [exact P1|split].
      + intro k. rewrite P2. apply Hsum.
      + intros [k [Hk0 Hk]]. apply P3.
        assert (L : (k < length (s_coefs p))%nat).
        { destruct (Nat.lt_ge_cases k (length (s_coefs p))) as [L|L]; [exact L|].
          exfalso. apply Hk. apply nth_overflow. exact L. }
        exists k, (nth k (s_coefs p) 0). split; [|split; assumption].
        unfold its, enumerate_rev. rewrite <- in_rev. apply nth_in_enumerate. exact L.
  Qed.
End SimpleRT.

(* ========================================================================== *)
(** * C17: statements for SimplePolynomial *)

(* H1 for one value: [-]digits[.digits], the sign exactly for negative values *)
Definition short_shape (x : R) (s : str) : Prop :=
  if Rltb x 0 then exists b, s = c_minus :: b /\ body_ok b = true else body_ok s = true.

(* the contract of `{:.p}`: sign, then the digits of an integer within 1/2 of |x|*10^p,
   with the decimal point p places from the right (Part C: the executable float_fmt_prec meets it) *)
Definition prec_spec (F : R -> Prop) (fmt_prec : nat -> R -> str) : Prop :=
  (forall p x, F x -> x < 0 -> fmt_prec p x = c_minus :: fmt_prec p (- x))
  /\ (forall p x, F x -> 0 <= x ->
        exists n, (0 <= n)%Z /\ Rabs (IZR n - x * 10 ^ p) <= / 2 /\ fmt_prec p x = dec_point p n).

Section C17Simple.
  Variable U : UClass.
  Hypothesis U_ascii : forall c, (c < 128)%N -> u_alphabetic U c = is_ascii_letter c.
  Variable F : R -> Prop.                    (* the values the number type holds (finite binary64 values) *)
  Hypothesis F_opp : forall x, F x -> F (- x).
  Variable fmt_prec : nat -> R -> str.
  Variable fmt_short : R -> str.

  Definition good_var (p : spoly R) : Prop :=
    let v := match s_var p with Some v => v | None => c_x end in
    u_alphabetic U v = true /\ is_whitespace v = false.

  Lemma F_abs x : F x -> F (Rabs x).
  Proof.
    intro H. unfold Rabs. destruct (Rcase_abs x); [apply F_opp; exact H|exact H].
  Qed.

  Lemma readc'_id k c : readc' (fun x => x) k c = c.
  Proof.
    unfold readc', readc. destruct (Reqb c 0) eqn:E; [apply Reqb_true in E; congruence|].
    destruct (nneb (nabs c) n1 || Nat.eqb k 0); [|reflexivity].
    destruct (Rltb c 0) eqn:En.
    - apply Rltb_true in En. rewrite Rabs_left by exact En. ring.
    - apply Rltb_false in En. apply Rabs_right. lra.
  Qed.

  Lemma readc'_near (rd : R -> R) eps k c : 0 <= eps ->
    (c <> 0 -> Rabs (rd (Rabs c) - Rabs c) <= eps) -> Rabs (readc' rd k c - c) <= eps.
  Proof.
    intros He H. unfold readc', readc. destruct (Reqb c 0) eqn:E.
    - apply Reqb_true in E. subst c. rewrite Rminus_0_r, Rabs_R0. exact He.
    - apply Reqb_false in E. specialize (H E).
      destruct (nneb (nabs c) n1 || Nat.eqb k 0).
      + destruct (Rltb c 0) eqn:En.
        * apply Rltb_true in En. rewrite (Rabs_left c En) in *.
          replace (- rd (- c) - c) with (- (rd (- c) - - c)) by ring. rewrite Rabs_Ropp. exact H.
        * apply Rltb_false in En. rewrite (Rabs_right c) in * by lra. exact H.
      + replace (c - c) with 0 by ring. rewrite Rabs_R0. exact He.
  Qed.

  (* ---- default formatting ---- *)
  Section Default.
    Hypothesis H1 : forall x, F x -> short_shape x (fmt_short x).
    Hypothesis H2 : forall x, F x -> @parse_dec R RNum (fmt_short x) = Some x.

    Lemma c17_simple_default : forall p : spoly R,
      (forall c, In c (s_coefs p) -> F c) ->
      (Z.of_nat (length (s_coefs p)) <= 65536)%Z ->
      good_var p ->
      exists p', parse_simple U (fmt_simple fmt_prec fmt_short None p) = Ok p'
        /\ (forall k, nth k (s_coefs p') 0 = nth k (s_coefs p) 0)
        /\ ((exists k, k <> O /\ nth k (s_coefs p) 0 <> 0) ->
            s_var p' = Some (match s_var p with Some v => v | None => c_x end)).
    Proof.
      intros p HF Hlen [Hv1 Hv2].
      destruct (simple_roundtrip_generic U U_ascii fmt_prec fmt_short None (fun x => x)
                  (match s_var p with Some v => v | None => c_x end) Hv1 Hv2 p Hlen eq_refl)
        as [p' [P1 [P2 P3]]].
      - intros c Hin Hc. pose proof (F_abs c (HF c Hin)) as Fa.
        split.
        + pose proof (H1 _ Fa) as S. unfold short_shape in S.
          replace (Rltb (Rabs c) 0) with false in S; [exact S|].
          symmetry. apply Rltb_false. apply Rabs_pos.
        + apply H2. exact Fa.
      - exists p'. split; [exact P1|split; [|exact P3]].
        intro k. rewrite P2. apply readc'_id.
    Qed.
  End Default.

  (* ---- with a precision ---- *)
  Section Precision.
    Hypothesis Hspec : prec_spec F fmt_prec.

    Definition rd_prec (prec : nat) (a : R) : R :=
      match @parse_dec R RNum (trim_num (fmt_prec prec a)) with Some y => y | None => 0 end.

    Lemma c17_precision_simple : forall (prec : nat) (p : spoly R),
      (forall c, In c (s_coefs p) -> F c) ->
      (Z.of_nat (length (s_coefs p)) <= 65536)%Z ->
      good_var p ->
      exists p', parse_simple U (fmt_simple fmt_prec fmt_short (Some prec) p) = Ok p'
        /\ (forall k, Rabs (nth k (s_coefs p') 0 - nth k (s_coefs p) 0) <= / 2 * / 10 ^ prec)
        /\ ((exists k, k <> O /\ nth k (s_coefs p) 0 <> 0) ->
            s_var p' = Some (match s_var p with Some v => v | None => c_x end)).
    Proof.
      intros prec p HF Hlen [Hv1 Hv2]. destruct Hspec as [_ Hpos].
      assert (Hnum : forall c, In c (s_coefs p) ->
                 body_ok (trim_num (fmt_prec prec (Rabs c))) = true
                 /\ @parse_dec R RNum (trim_num (fmt_prec prec (Rabs c))) = Some (rd_prec prec (Rabs c))
                 /\ Rabs (rd_prec prec (Rabs c) - Rabs c) <= / 2 * / 10 ^ prec).
      { intros c Hin. pose proof (F_abs c (HF c Hin)) as Fa.
        destruct (Hpos prec (Rabs c) Fa (Rabs_pos c)) as [n [N0 [N1 N2]]].
        destruct (trim_num_dec_point prec n N0) as [T1 [T2 _]].
        destruct (fmt_prec_number_level prec n (Rabs c) N0 N1) as [y [Y1 [_ Y3]]].
        unfold rd_prec. rewrite N2, Y1. repeat split; [exact T1|exact Y3]. }
      destruct (simple_roundtrip_generic U U_ascii fmt_prec fmt_short (Some prec) (rd_prec prec)
                  (match s_var p with Some v => v | None => c_x end) Hv1 Hv2 p Hlen eq_refl)
        as [p' [P1 [P2 P3]]].
      - intros c Hin _. destruct (Hnum c Hin) as [A [B _]]. split; [exact A|exact B].
      - exists p'. split; [exact P1|split; [|exact P3]].
        intro k. rewrite P2. apply readc'_near.
        + pose proof (pow10_pos prec). apply Rmult_le_pos; [lra|left; apply Rinv_0_lt_compat; assumption].
        + intros Hc. destruct (nth_in_or_default k (s_coefs p) 0) as [Hin|E]; [|contradiction].
          apply (Hnum _ Hin).
    Qed.
  End Precision.
End C17Simple.

(* ========================================================================== *)
(** * Part E: LinearModel::to_polynomial_string *)

Definition pat_pm : str := [c_plus; c_space; c_minus].     (* "+ -" *)
Definition rep_pm : str := [c_minus; c_space].              (* "- "  *)

Lemma replace_pass a s : ~ In c_plus a ->
  replace_go pat_pm rep_pm 0 (a ++ s) = a ++ replace_go pat_pm rep_pm 0 s.
Proof.
  induction a as [|x a IH]; intro H; [reflexivity|].
  cbn [app replace_go]. 
  assert (E : is_prefix pat_pm (x :: a ++ s) = false).
  { cbn [is_prefix pat_pm]. destruct (N.eqb_spec c_plus x) as [X|X]; [|reflexivity].
    exfalso. apply H. left. symmetry. exact X. }
  rewrite E. f_equal. apply IH. intro X. apply H. right. exact X.
Qed.

Lemma replace_sep_neg s :
  replace_go pat_pm rep_pm 0 (sep_plus ++ c_minus :: s) = sep_minus ++ replace_go pat_pm rep_pm 0 s.
Proof. reflexivity. Qed.

Lemma replace_sep_pos d s : d <> c_minus ->
  replace_go pat_pm rep_pm 0 (sep_plus ++ d :: s) = sep_plus ++ replace_go pat_pm rep_pm 0 (d :: s).
Proof.
  intro H. unfold sep_plus. cbn [app]. 
  change (replace_go pat_pm rep_pm 0 (32%N :: 43%N :: 32%N :: d :: s))
    with (32%N :: (if N.eqb c_minus d && true then rep_pm ++ replace_go pat_pm rep_pm 2 (32%N :: d :: s)
                   else 43%N :: 32%N :: replace_go pat_pm rep_pm 0 (d :: s))).
  destruct (N.eqb_spec c_minus d) as [X|X]; [congruence|reflexivity].
Qed.

Lemma join_cons sep p ps : join sep (p :: ps) = p ++ concat (map (fun q => sep ++ q) ps).
Proof.
  revert p. induction ps as [|q ps IH]; intro p; [cbn; rewrite app_nil_r; reflexivity|].
  change (join sep (p :: q :: ps)) with (p ++ sep ++ join sep (q :: ps)).
  rewrite IH. cbn [map concat]. rewrite <- app_assoc. reflexivity.
Qed.

Section ModelString.
  Variable U : UClass.
  Hypothesis U_ascii : forall c, (c < 128)%N -> u_alphabetic U c = is_ascii_letter c.
  Variable F : R -> Prop.
  Hypothesis F_opp : forall x, F x -> F (- x).
  Variable fmt_prec : nat -> R -> str.
  Hypothesis Hspec : prec_spec F fmt_prec.

  Let FS5 := fmt_prec 5%nat.
  Let rd5 (a : R) : R := match @parse_dec R RNum (fmt_prec 5%nat a) with Some y => y | None => 0 end.

  Lemma x_alpha : u_alphabetic U c_x = true.
  Proof. rewrite U_ascii by reflexivity. reflexivity. Qed.
  Lemma x_nws : is_whitespace c_x = false. Proof. reflexivity. Qed.

  Notation nm5 := (nm fmt_prec FS5 None c_x).
  Notation norm5 := (normtext fmt_prec FS5 None c_x).
  Notation ok5 := (num_ok fmt_prec FS5 None rd5).

  Lemma num_ok5 c : F c -> ok5 (Rabs c) /\ Rabs (rd5 (Rabs c) - Rabs c) <= / 2 * / 10 ^ 5.
  Proof.
    intro Fc. destruct Hspec as [_ Hpos].
    pose proof (F_abs F F_opp c Fc) as Fa.
    destruct (Hpos 5%nat (Rabs c) Fa (Rabs_pos c)) as [n [N0 [N1 N2]]].
    destruct (trim_num_dec_point 5 n N0) as [_ [_ [T3 T4]]].
    destruct (fmt_prec_number_level 5 n (Rabs c) N0 N1) as [y [_ [Y2 Y3]]].
    unfold num_ok, fmt_num, rd5, FS5. rewrite N2, Y2. repeat split; [exact T3|exact Y3].
  Qed.

  (* one part of the model string is the part the Display of SimplePolynomial would print *)
  Lemma model_term_nm i c : F c -> c <> 0 -> model_term fmt_prec i c = nm5 i c.
  Proof.
    intros Fc Hc. destruct Hspec as [Hneg _].
    assert (Full : fmt_prec 5%nat c = sgn_str c ++ FS5 (Rabs c)).
    { unfold sgn_str, FS5. destruct (Rltb c 0) eqn:En.
      - apply Rltb_true in En. rewrite (Hneg 5%nat c Fc En), (Rabs_left c En). reflexivity.
      - apply Rltb_false in En. rewrite (Rabs_right c) by lra. reflexivity. }
    assert (Unit1 : c = 1 -> sgn_str c = [] /\ nneb (Rabs c) 1 = false).
    { intro E. subst c. split.
      - unfold sgn_str. replace (Rltb 1 0) with false; [reflexivity|]. symmetry. apply Rltb_false. lra.
      - unfold nneb. cbn [neqb RNum]. rewrite Rabs_R1. 
        replace (Reqb 1 1) with true; [reflexivity|]. symmetry. apply Reqb_true. reflexivity. }
    assert (Unitm : c = -1 -> sgn_str c = [c_minus] /\ nneb (Rabs c) 1 = false).
    { intro E. subst c. split.
      - unfold sgn_str. replace (Rltb (-1) 0) with true; [reflexivity|]. symmetry. apply Rltb_true. lra.
      - unfold nneb. cbn [neqb RNum]. replace (Rabs (-1)) with 1 by (rewrite Rabs_left by lra; lra).
        replace (Reqb 1 1) with true; [reflexivity|]. symmetry. apply Reqb_true. reflexivity. }
    assert (NonUnit : c <> 1 -> c <> -1 -> nneb (Rabs c) 1 = true).
    { intros A B. unfold nneb. cbn [neqb RNum]. apply negb_true_iff. apply Reqb_false.
      intro E. unfold Rabs in E. destruct (Rcase_abs c); [apply B; lra|apply A; exact E]. }
    unfold nm, body_of, cs_of. cbn [nabs n1 RNum].
    destruct i as [|[|i]]; cbn [model_term Nat.eqb simple_var_part].
    - rewrite orb_true_r, app_nil_r. exact Full.
    - rewrite orb_false_r. cbn [neqb nneg n1 RNum].
      destruct (Reqb c 1) eqn:E1.
      + apply Reqb_true in E1. destruct (Unit1 E1) as [A B]. rewrite A, B. reflexivity.
      + destruct (Reqb c (- (1))) eqn:E2.
        * apply Reqb_true in E2. assert (E2' : c = -1) by lra.
          destruct (Unitm E2') as [A B]. rewrite A, B. reflexivity.
        * apply Reqb_false in E1, E2. assert (E2' : c <> -1) by (intro X; apply E2; lra).
          rewrite (NonUnit E1 E2'), Full, <- app_assoc. reflexivity.
    - rewrite orb_false_r. cbn [neqb nneg n1 RNum].
      destruct (Reqb c 1) eqn:E1.
      + apply Reqb_true in E1. destruct (Unit1 E1) as [A B]. rewrite A, B. reflexivity.
      + destruct (Reqb c (- (1))) eqn:E2.
        * apply Reqb_true in E2. assert (E2' : c = -1) by lra.
          destruct (Unitm E2') as [A B]. rewrite A, B. reflexivity.
        * apply Reqb_false in E1, E2. assert (E2' : c <> -1) by (intro X; apply E2; lra).
          rewrite (NonUnit E1 E2'), Full, <- app_assoc. reflexivity.
  Qed.

  Lemma nm5_split i c : F c -> c <> 0 ->
    exists body, nm5 i c = sgn_str c ++ body /\ plain body = true /\ body <> [].
  Proof.
    intros Fc Hc. destruct (num_ok5 c Fc) as [Hn _].
    exists (body_of fmt_prec FS5 None c_x i c). split; [reflexivity|split].
    - apply (body_of_plain U U_ascii fmt_prec FS5 None rd5 c_x x_alpha x_nws). exact Hn.
    - apply (body_of_nonempty fmt_prec FS5 None rd5 c_x). exact Hn.
  Qed.

  Lemma norm_tail cs : forall pow, (forall c, In c cs -> F c) ->
    minus_to_plusminus (strip_ws (replace_go pat_pm rep_pm 0
        (concat (map (fun q => sep_plus ++ q) (model_parts fmt_prec pow cs)))))
    = norm5 (combine (seq pow (length cs)) cs) false.
  Proof.
    induction cs as [|c cs IH]; intros pow HF; [reflexivity|].
    assert (HF' : forall c, In c cs -> F c) by (intros d Hd; apply HF; right; exact Hd).
    cbn [model_parts length seq combine normtext]. cbn [neqb n0 RNum].
    destruct (Reqb c 0) eqn:Ec; [apply IH; exact HF'|].
    assert (Hc : c <> 0) by (apply Reqb_false; exact Ec).
    assert (Fc : F c) by (apply HF; left; reflexivity).
    cbn [map concat andb]. rewrite (model_term_nm pow c Fc Hc).
    destruct (nm5_split pow c Fc Hc) as [body [Eb [Pb Nb]]]. rewrite Eb.
    pose proof (plain_no_plus _ Pb) as NoPlus. pose proof (plain_no_minus _ Pb) as NoMinus.
    rewrite <- !app_assoc.
    unfold sgn_str. destruct (Rltb c 0).
    - cbn [app]. rewrite replace_sep_neg, replace_pass by exact NoPlus.
      rewrite !strip_ws_app, !m2pm_app, (IH (S pow) HF').
      rewrite (strip_ws_plain body Pb), (m2pm_plain body Pb). reflexivity.
    - cbn [app]. destruct body as [|d body]; [contradiction|].
      cbn [app]. rewrite replace_sep_pos by (intro X; apply NoMinus; left; exact X).
      change (d :: body ++ ?t) with ((d :: body) ++ t).
      rewrite replace_pass by exact NoPlus.
      rewrite !strip_ws_app, !m2pm_app, (IH (S pow) HF').
      rewrite (strip_ws_plain (d :: body) Pb), (m2pm_plain (d :: body) Pb). reflexivity.
  Qed.

  Lemma norm_whole cs : forall pow p1 ps, (forall c, In c cs -> F c) ->
    model_parts fmt_prec pow cs = p1 :: ps ->
    minus_to_plusminus (strip_ws (str_replace pat_pm rep_pm (join sep_plus (p1 :: ps))))
    = norm5 (combine (seq pow (length cs)) cs) true.
  Proof.
    induction cs as [|c cs IH]; intros pow p1 ps HF Hp; [discriminate Hp|].
    assert (HF' : forall c, In c cs -> F c) by (intros d Hd; apply HF; right; exact Hd).
    cbn [model_parts] in Hp. cbn [length seq combine normtext]. cbn [neqb n0 RNum] in Hp.
    destruct (Reqb c 0) eqn:Ec; [exact (IH (S pow) p1 ps HF' Hp)|].
    assert (Hc : c <> 0) by (apply Reqb_false; exact Ec).
    assert (Fc : F c) by (apply HF; left; reflexivity).
    injection Hp as <- <-. rewrite join_cons. unfold str_replace.
    rewrite (model_term_nm pow c Fc Hc).
    destruct (nm5_split pow c Fc Hc) as [body [Eb [Pb Nb]]]. rewrite Eb.
    pose proof (plain_no_plus _ Pb) as NoPlus.
    assert (NoPlus2 : ~ In c_plus (sgn_str c ++ body)).
    { intro X. apply in_app_or in X. destruct X as [X|X]; [|exact (NoPlus X)].
      unfold sgn_str in X. destruct (Rltb c 0); [destruct X as [X|[]]; discriminate X|contradiction]. }
    rewrite replace_pass by exact NoPlus2.
    rewrite !strip_ws_app, !m2pm_app, (norm_tail cs (S pow) HF').
    rewrite (strip_ws_plain body Pb), (m2pm_plain body Pb).
    unfold sgn_str. destruct (Rltb c 0) eqn:En.
    - assert (E0 : Rltb 0 c = false).
      { apply Rltb_false. apply Rltb_true in En. lra. }
      rewrite E0. cbn [andb]. rewrite <- !app_assoc. reflexivity.
    - assert (E0 : Rltb 0 c = true).
      { apply Rltb_true. apply Rltb_false in En. lra. }
      rewrite E0. reflexivity.
  Qed.

  Lemma model_parts_nil cs : forall pow, model_parts fmt_prec pow cs = [] -> forall c, In c cs -> c = 0.
  Proof.
    induction cs as [|c cs IH]; intros pow H d Hd; [contradiction|].
    cbn [model_parts] in H. cbn [neqb n0 RNum] in H. destruct (Reqb c 0) eqn:Ec; [|discriminate H].
    destruct Hd as [<-|Hd]; [apply Reqb_true; exact Ec|exact (IH (S pow) H d Hd)].
  Qed.

  Lemma c17_model_string : forall coefs : list R,
    (forall c, In c coefs -> F c) ->
    (Z.of_nat (length coefs) <= 65536)%Z ->
    exists p', parse_simple U (to_polynomial_string fmt_prec coefs) = Ok p'
      /\ (forall k, Rabs (nth k (s_coefs p') 0 - nth k coefs 0) <= / 2 * / 10 ^ 5).
  Proof.
    intros coefs HF Hlen.
    assert (Heps : 0 <= / 2 * / 10 ^ 5) by (pose proof (pow10_pos 5); apply Rmult_le_pos; [lra|left; apply Rinv_0_lt_compat; assumption]).
    unfold to_polynomial_string.
    destruct (model_parts fmt_prec 0 coefs) as [|p1 ps] eqn:Ep.
    - pose proof (model_parts_nil coefs O Ep) as Z0.
      destruct (parse_zero_text U U_ascii) as [p' [P1 [P2 _]]].
      exists p'. split; [exact P1|]. intro k. rewrite P2.
      destruct (nth_in_or_default k coefs 0) as [Hin|E]; [rewrite (Z0 _ Hin)|rewrite E];
        rewrite Rminus_0_r, Rabs_R0; exact Heps.
    - set (its := combine (seq 0 (length coefs)) coefs).
      assert (Hok : all_ok fmt_prec FS5 None rd5 its).
      { intros i c Hin _. apply num_ok5. apply HF. apply in_combine_r in Hin. exact Hin. }
      assert (Hi : forall i c, In (i, c) its -> (Z.of_nat i <= 65535)%Z).
      { intros i c Hin. apply in_combine_l in Hin. apply in_seq in Hin. lia. }
      pose proof (norm_whole coefs O p1 ps HF Ep) as Hnorm. fold its in Hnorm.
      destruct (parse_from_norm U U_ascii fmt_prec FS5 None rd5 c_x x_alpha x_nws _ its Hok Hi Hnorm)
        as [p' [P1 [P2 _]]].
      exists p'. split; [exact P1|]. intro k. rewrite P2. unfold its.
      rewrite (sumat_enumerate rd5). cbn [Nat.leb]. rewrite Nat.sub_0_r.
      apply readc'_near; [exact Heps|]. intro Hc.
      destruct (nth_in_or_default k coefs 0) as [Hin|E]; [|contradiction].
      apply num_ok5. apply HF. exact Hin.
  Qed.
End ModelString.

(* ========================================================================== *)
(** * The hypotheses are satisfiable: integers, printed exactly *)

Lemma uclass_tab_ascii : forall c, (c < 128)%N -> u_alphabetic uclass_tab c = is_ascii_letter c.
Proof.
  intros c L.
  pose proof (below128 (fun c => Bool.eqb (u_alphabetic uclass_tab c) (is_ascii_letter c))
                ltac:(vm_compute; reflexivity) c L) as B.
  apply eqb_prop in B. exact B.
Qed.

Lemma Int_part_IZR (n : Z) : Int_part (IZR n) = n.
Proof.
  unfold Int_part. rewrite <- (tech_up (IZR n) (n + 1)).
  - lia.
  - rewrite plus_IZR. lra.
  - rewrite plus_IZR. lra.
Qed.

Definition F_int (x : R) : Prop := exists n : Z, x = IZR n.
Definition int_fmt_short (x : R) : str :=
  if Rltb x 0 then c_minus :: Zdigits (- Int_part x) else Zdigits (Int_part x).
Definition int_fmt_prec (p : nat) (x : R) : str :=
  (if Rltb x 0 then [c_minus] else []) ++ dec_point p (Z.abs (Int_part x) * 10 ^ Z.of_nat p).

Lemma F_int_opp x : F_int x -> F_int (- x).
Proof. intros [n ->]. exists (- n)%Z. rewrite opp_IZR. reflexivity. Qed.

Lemma parse_dec_Zdigits n : (0 <= n)%Z -> @parse_dec R RNum (Zdigits n) = Some (IZR n).
Proof.
  intro H. destruct (Zdigits_spec n H) as [A [B C]].
  rewrite parse_dec_unsigned; [|intro t; apply body_ok_not_minus, all_digits_body_ok, A|exact C].
  rewrite pud_int by assumption. rewrite nofdec_R, B. cbn [powerRZ]. f_equal. ring.
Qed.

Lemma int_H1 x : F_int x -> short_shape x (int_fmt_short x).
Proof.
  intros [n ->]. unfold short_shape, int_fmt_short. rewrite Int_part_IZR.
  destruct (Rltb (IZR n) 0) eqn:E.
  - apply Rltb_true in E. apply lt_IZR in E. eexists. split; [reflexivity|].
    apply all_digits_body_ok. apply Zdigits_spec. lia.
  - apply Rltb_false in E. apply le_IZR in E. apply all_digits_body_ok. apply Zdigits_spec. lia.
Qed.

Lemma int_H2 x : F_int x -> @parse_dec R RNum (int_fmt_short x) = Some x.
Proof.
  intros [n ->]. unfold int_fmt_short. rewrite Int_part_IZR.
  destruct (Rltb (IZR n) 0) eqn:E.
  - apply Rltb_true in E. apply lt_IZR in E.
    destruct (Zdigits_spec (- n) ltac:(lia)) as [A [B C]].
    rewrite parse_dec_minus.
    rewrite <- (parse_dec_unsigned (Zdigits (- n)));
      [|intro t; apply body_ok_not_minus, all_digits_body_ok, A|exact C].
    rewrite parse_dec_Zdigits by lia. cbn [option_map nneg RNum]. rewrite opp_IZR. f_equal. ring.
  - apply Rltb_false in E. apply le_IZR in E. apply parse_dec_Zdigits. exact E.
Qed.

Lemma int_prec_spec : prec_spec F_int int_fmt_prec.
Proof.
  split.
  - intros p x [n ->] Hneg. unfold int_fmt_prec.
    replace (Rltb (IZR n) 0) with true by (symmetry; apply Rltb_true; exact Hneg).
    replace (Rltb (- IZR n) 0) with false by (symmetry; apply Rltb_false; lra).
    rewrite <- opp_IZR, !Int_part_IZR, Z.abs_opp. reflexivity.
  - intros p x [n ->] Hpos. apply le_IZR in Hpos.
    exists (Z.abs n * 10 ^ Z.of_nat p)%Z. split; [|split].
    + apply Z.mul_nonneg_nonneg; [lia|apply Z.pow_nonneg; lia].
    + rewrite mult_IZR, IZR_pow10, Z.abs_eq by exact Hpos.
      replace (IZR n * 10 ^ p - IZR n * 10 ^ p) with 0 by ring. rewrite Rabs_R0. lra.
    + unfold int_fmt_prec. rewrite Int_part_IZR.
      replace (Rltb (IZR n) 0) with false by (symmetry; apply Rltb_false; apply IZR_le; exact Hpos).
      reflexivity.
Qed.

(* ========================================================================== *)
(** * Part F: Term and IntermediatePolynomial -- print, then parse_inter *)

(* characters of one printed term: digits, '.', ASCII letters, '^', '-' *)
Definition tch (c : N) : bool :=
  numch c || is_ascii_letter c || N.eqb c c_caret || N.eqb c c_minus.

Lemma letter_lt128 c : is_ascii_letter c = true -> (c < 128)%N.
Proof.
  unfold is_ascii_letter. rewrite orb_true_iff, !andb_true_iff, !N.leb_le. lia.
Qed.

Lemma tch_lt128 c : tch c = true -> (c < 128)%N.
Proof.
  unfold tch. rewrite !orb_true_iff. intros [[[H|H]|H]|H].
  - apply numch_lt128; exact H.
  - apply letter_lt128; exact H.
  - apply N.eqb_eq in H. subst. reflexivity.
  - apply N.eqb_eq in H. subst. reflexivity.
Qed.

Lemma tch_facts c : tch c = true ->
  is_whitespace c = false /\ c <> c_plus /\ c <> c_at.
Proof.
  intro H. pose proof (tch_lt128 c H) as L.
  pose proof (below128 (fun c => implb (tch c)
     (negb (is_whitespace c) && negb (N.eqb c c_plus) && negb (N.eqb c c_at))) ltac:(vm_compute; reflexivity) c L) as B.
  cbv beta in B. rewrite H in B. cbn [implb] in B.
  apply andb_true_iff in B. destruct B as [B B3]. apply andb_true_iff in B. destruct B as [B1 B2].
  repeat split; [apply negb_true_iff; exact B1| |]; intro E; subst c; discriminate.
Qed.

Lemma letter_facts2 c : is_ascii_letter c = true ->
  is_ascii_digit c = false /\ c <> c_dot /\ c <> c_minus /\ c <> c_slash /\ c <> c_caret /\ c <> c_plus.
Proof.
  intro H. pose proof (letter_lt128 c H) as L.
  pose proof (below128 (fun c => implb (is_ascii_letter c)
     (negb (is_ascii_digit c) && negb (N.eqb c c_dot) && negb (N.eqb c c_minus) && negb (N.eqb c c_slash)
      && negb (N.eqb c c_caret) && negb (N.eqb c c_plus))) ltac:(vm_compute; reflexivity) c L) as B.
  cbv beta in B. rewrite H in B. cbn [implb] in B.
  repeat (apply andb_true_iff in B; let X := fresh "B" in destruct B as [B X]).
  repeat split; try (apply negb_true_iff; assumption); intro E; subst c; discriminate.
Qed.

Lemma numch_facts2 c : numch c = true -> c <> c_minus /\ c <> c_caret /\ c <> c_slash /\ c <> c_plus.
Proof.
  intro H. pose proof (numch_lt128 c H) as L.
  pose proof (below128 (fun c => implb (numch c)
     (negb (N.eqb c c_minus) && negb (N.eqb c c_caret) && negb (N.eqb c c_slash) && negb (N.eqb c c_plus)))
     ltac:(vm_compute; reflexivity) c L) as B.
  cbv beta in B. rewrite H in B. cbn [implb] in B.
  repeat (apply andb_true_iff in B; let X := fresh "B" in destruct B as [B X]).
  repeat split; intro E; subst c; discriminate.
Qed.

(* protect_minus leaves text without '-' and '^' alone and forgets its flag *)
Definition nmc (s : str) : Prop := forall c, In c s -> c <> c_minus /\ c <> c_caret.

Lemma pm_plain_text a : forall b s, nmc a -> a <> [] ->
  protect_minus b (a ++ s) = a ++ protect_minus false s.
Proof.
  induction a as [|x a IH]; intros b s Hn Hne; [contradiction|].
  destruct (Hn x (or_introl eq_refl)) as [X1 X2].
  cbn [app protect_minus]. destruct (N.eqb_spec x c_minus) as [E|_]; [contradiction|].
  f_equal. destruct (N.eqb_spec x c_caret) as [E|_]; [contradiction|].
  destruct a as [|y a]; [reflexivity|].
  apply IH; [|discriminate]. intros c Hc. apply Hn. right. exact Hc.
Qed.

Lemma body_ok_nmc s : body_ok s = true -> nmc s.
Proof.
  intros H c Hc. unfold body_ok in H. rewrite forallb_forall in H.
  destruct (numch_facts2 c (H c Hc)) as [A [B _]]. split; assumption.
Qed.

Lemma pm_body a b s : body_ok a = true ->
  protect_minus b (a ++ s) = a ++ protect_minus (match a with [] => b | _ => false end) s.
Proof.
  intro H. destruct a as [|x a]; [reflexivity|].
  apply pm_plain_text; [apply body_ok_nmc; exact H|discriminate].
Qed.

Definition stops (rest : str) : Prop :=
  match rest with [] => True | ch :: _ => is_ascii_letter ch = true end.

Section InterRT.
  Variable U : UClass.
  Hypothesis U_num : forall c, (c < 128)%N -> u_numeric U c = is_ascii_digit c.
  Variable fmt_prec : nat -> R -> str.
  Variable fmt_short : R -> str.
  Variable prec : option nat.
  Variable rd : R -> R.               (* what a printed coefficient magnitude reads back as *)
  Variable rde : R -> R.              (* what a printed exponent reads back as *)

  Let fnum := fmt_num fmt_prec fmt_short prec.
  Let fexp := fmt_exp fmt_prec fmt_short prec.
  Notation fvars := (fmt_vars fmt_prec fmt_short prec).

  Definition mag_ok (a : R) : Prop :=
    body_ok (fnum a) = true /\ @parse_dec R RNum (fnum a) = Some (rd a).
  (* "^" then an optionally signed decimal *)
  Definition exp_ok (e : R) : Prop :=
    exists sg b, fexp e = c_caret :: sg ++ b /\ (sg = [] \/ sg = [c_minus]) /\ body_ok b = true
                 /\ @parse_dec R RNum (sg ++ b) = Some (rde e).

  Definition letter_name (v : name) : Prop := exists ch, v = [ch] /\ is_ascii_letter ch = true.
  Definition vars_ok (vs : list (name * R)) : Prop :=
    forall v e, In (v, e) vs -> letter_name v /\ (e <> 1 -> exp_ok e).

  Lemma vars_ok_tail x vs : vars_ok (x :: vs) -> vars_ok vs.
  Proof. intros H v e Hin. apply H. right. exact Hin. Qed.

  Lemma nneb_R (a b : R) : nneb a b = negb (Reqb a b).
  Proof. reflexivity. Qed.

  Lemma exp_ok_nonempty e sg b : body_ok b = true -> @parse_dec R RNum (sg ++ b) = Some (rde e) ->
    (sg = [] \/ sg = [c_minus]) -> b <> [].
  Proof.
    intros Hb Hp Hs E. subst b. rewrite app_nil_r in Hp. destruct Hs as [->| ->]; discriminate Hp.
  Qed.

  (* ---- the characters of the printed variables ---- *)
  Lemma fvars_tch vs : vars_ok vs -> forallb tch (fvars vs) = true.
  Proof.
    induction vs as [|[v e] vs IH]; intro H; [reflexivity|].
    cbn [fmt_vars]. rewrite !forallb_app, (IH (vars_ok_tail _ _ H)), andb_true_r.
    destruct (H v e (or_introl eq_refl)) as [[ch [-> Hl]] He].
    apply andb_true_iff. split.
    - cbn [forallb]. unfold tch. rewrite Hl, !orb_true_r. reflexivity.
    - rewrite nneb_R; cbn [n1 RNum]. destruct (Reqb e 1) eqn:E1; [reflexivity|]. cbn [negb].
      apply Reqb_false in E1. destruct (He E1) as [sg [b [Ef [Hs [Hb _]]]]].
      fold fexp. rewrite Ef. cbn [forallb]. apply andb_true_iff. split; [reflexivity|].
      rewrite forallb_app. apply andb_true_iff. split.
      + destruct Hs as [->| ->]; reflexivity.
      + unfold body_ok in Hb. rewrite forallb_forall in *. intros c Hc. unfold tch. rewrite (Hb c Hc). reflexivity.
  Qed.

  Lemma fvars_stops vs : vars_ok vs -> stops (fvars vs).
  Proof.
    destruct vs as [|[v e] vs]; intro H; [exact I|].
    destruct (H v e (or_introl eq_refl)) as [[ch [-> Hl]] _]. exact Hl.
  Qed.

  (* ---- protect_minus on the printed variables ---- *)
  Lemma pm_fvars vs : forall b s, vars_ok vs ->
    protect_minus b (fvars vs ++ s) = fvars vs ++ protect_minus (match vs with [] => b | _ => false end) s.
  Proof.
    induction vs as [|[v e] vs IH]; intros b s H; [reflexivity|].
    destruct (H v e (or_introl eq_refl)) as [[ch [-> Hl]] He].
    destruct (letter_facts2 ch Hl) as [_ [_ [Lm [_ [Lc _]]]]].
    cbn [fmt_vars]. rewrite <- !app_assoc. cbn [app protect_minus].
    destruct (N.eqb_spec ch c_minus) as [X|_]; [contradiction|].
    destruct (N.eqb_spec ch c_caret) as [X|_]; [contradiction|]. f_equal.
    rewrite nneb_R; cbn [n1 RNum]. destruct (Reqb e 1) eqn:E1; cbn [negb app].
    - rewrite (IH false s (vars_ok_tail _ _ H)). destruct vs; reflexivity.
    - apply Reqb_false in E1. destruct (He E1) as [sg [bb [Ef [Hs [Hb Hp]]]]].
      pose proof (exp_ok_nonempty e sg bb Hb Hp Hs) as Hne.
      fold fexp. rewrite Ef. cbn [app protect_minus].
      replace (N.eqb c_caret c_minus) with false by reflexivity. rewrite N.eqb_refl. f_equal.
      rewrite <- app_assoc.
      assert (Tail : forall b0, protect_minus b0 (bb ++ fvars vs ++ s) = bb ++ fvars vs ++ protect_minus false s).
      { intro b0. rewrite pm_body by exact Hb. destruct bb as [|x bb]; [contradiction|].
        rewrite (IH false s (vars_ok_tail _ _ H)). destruct vs; reflexivity. }
      destruct Hs as [->| ->]; cbn [app].
      + apply Tail.
      + cbn [protect_minus]. rewrite N.eqb_refl. cbn [app]. f_equal. apply Tail.
  Qed.

  (* ---- scanning ---- *)
  Lemma scan_coeff_body b : forall first rest, body_ok b = true -> stops rest ->
    scan_coeff U first (b ++ rest) = (b, rest).
  Proof.
    induction b as [|x b IH]; intros first rest Hb Hs.
    - destruct rest as [|ch r]; [reflexivity|]. cbn [app scan_coeff].
      cbn [stops] in Hs. destruct (letter_facts2 ch Hs) as [Ld [Ldot [Lm [Lsl _]]]].
      rewrite (U_num ch (letter_lt128 ch Hs)), Ld.
      destruct (N.eqb_spec ch c_dot); [contradiction|]. destruct (N.eqb_spec ch c_minus); [contradiction|].
      destruct (N.eqb_spec ch c_slash); [contradiction|]. rewrite andb_false_r. reflexivity.
    - cbn [body_ok forallb] in Hb. apply andb_true_iff in Hb. destruct Hb as [Hx Hb].
      cbn [app scan_coeff].
      assert (A : u_numeric U x || N.eqb x c_dot = true).
      { rewrite (U_num x (numch_lt128 x Hx)). exact Hx. }
      rewrite A. cbn [orb]. rewrite (IH false rest Hb Hs). reflexivity.
  Qed.

  Lemma scan_coeff_signed sg b rest : (sg = [] \/ sg = [c_minus]) -> body_ok b = true -> stops rest ->
    scan_coeff U true (sg ++ b ++ rest) = (sg ++ b, rest).
  Proof.
    intros [->| ->] Hb Hs; [cbn [app]; apply scan_coeff_body; assumption|].
    cbn [app scan_coeff]. rewrite N.eqb_refl, !orb_true_r. cbn [orb].
    rewrite (scan_coeff_body b false rest Hb Hs). reflexivity.
  Qed.

  Lemma scan_pow_body b : forall rest, body_ok b = true -> stops rest -> scan_pow (b ++ rest) = (b, rest).
  Proof.
    induction b as [|x b IH]; intros rest Hb Hs.
    - destruct rest as [|ch r]; [reflexivity|]. cbn [app scan_pow].
      cbn [stops] in Hs. destruct (letter_facts2 ch Hs) as [Ld [Ldot [Lm [Lsl _]]]]. rewrite Ld.
      destruct (N.eqb_spec ch c_dot); [contradiction|]. destruct (N.eqb_spec ch c_minus); [contradiction|].
      destruct (N.eqb_spec ch c_slash); [contradiction|]. reflexivity.
    - cbn [body_ok forallb] in Hb. apply andb_true_iff in Hb. destruct Hb as [Hx Hb].
      cbn [app scan_pow]. unfold numch in Hx. rewrite Hx. cbn [orb]. rewrite (IH rest Hb Hs). reflexivity.
  Qed.

  Lemma scan_pow_signed sg b rest : (sg = [] \/ sg = [c_minus]) -> body_ok b = true -> stops rest ->
    scan_pow (sg ++ b ++ rest) = (sg ++ b, rest).
  Proof.
    intros [->| ->] Hb Hs; [cbn [app]; apply scan_pow_body; assumption|].
    cbn [app scan_pow]. rewrite N.eqb_refl, !orb_true_r.
    rewrite (scan_pow_body b rest Hb Hs). reflexivity.
  Qed.

  Lemma no_slash sg b : (sg = [] \/ sg = [c_minus]) -> body_ok b = true -> contains_char c_slash (sg ++ b) = false.
  Proof.
    intros Hs Hb. unfold contains_char. apply not_true_is_false. intro H.
    apply existsb_exists in H. destruct H as [x [Hx E]]. apply N.eqb_eq in E. subst x.
    apply in_app_or in Hx. destruct Hx as [Hx|Hx].
    - destruct Hs as [->| ->]; [contradiction|]. destruct Hx as [X|[]]. discriminate X.
    - unfold body_ok in Hb. rewrite forallb_forall in Hb. destruct (numch_facts2 _ (Hb _ Hx)) as [_ [_ [X _]]].
      apply X. reflexivity.
  Qed.

  (* the exponents as they read back *)
  Definition rdx (e : R) : R := if Reqb e 1 then 1 else rde e.
  Definition read_vars (vs : list (name * R)) : list (name * R) := map (fun ve => (fst ve, rdx (snd ve))) vs.

  Lemma scan_vars_spec vs : forall fuel acc, vars_ok vs -> (length (fvars vs) <= fuel)%nat ->
    @scan_vars R RNum fuel (fvars vs) acc = Ok (rev acc ++ read_vars vs).
  Proof.
    induction vs as [|[v e] vs IH]; intros fuel acc H Hf.
    - cbn [fmt_vars read_vars map]. rewrite app_nil_r. destruct fuel; reflexivity.
    - destruct (H v e (or_introl eq_refl)) as [[ch [-> Hl]] He].
      pose proof (vars_ok_tail _ _ H) as H'.
      cbn [fmt_vars] in *. cbn [app] in *.
      destruct fuel as [|fuel]; [cbn [length] in Hf; lia|].
      cbn [scan_vars]. rewrite Hl. cbn [read_vars map fst snd]. unfold rdx at 1.
      rewrite nneb_R in *; cbn [n1 RNum] in *. destruct (Reqb e 1) eqn:E1; cbn [negb app] in *.
      + (* exponent 1 is not printed: the next character is the next variable, or the end *)
        destruct (fvars vs) as [|c2 s''] eqn:Ev.
        * destruct vs as [|[v2 e2] vs2]; [reflexivity|].
          exfalso. destruct (H' v2 e2 (or_introl eq_refl)) as [[ch2 [-> _]] _].
          cbn [fmt_vars] in Ev. discriminate Ev.
        * pose proof (fvars_stops vs H') as St. rewrite Ev in St. cbn [stops] in St.
          destruct (letter_facts2 c2 St) as [_ [_ [_ [_ [Lc _]]]]].
          destruct (N.eqb_spec c2 c_caret) as [X|_]; [contradiction|].
          rewrite (IH fuel (([ch], 1) :: acc) H').
          -- cbn [rev]. rewrite <- app_assoc. reflexivity.
          -- cbn [length] in *. lia.
      + apply Reqb_false in E1. destruct (He E1) as [sg [b [Ef [Hs [Hb Hp]]]]].
        unfold fexp in Ef. rewrite Ef in *. cbn [app] in *. rewrite N.eqb_refl.
        rewrite <- app_assoc. rewrite (scan_pow_signed sg b (fvars vs) Hs Hb (fvars_stops vs H')).
        unfold inter_pow. rewrite (no_slash sg b Hs Hb), parse_dec_finite_R, Hp.
        rewrite (IH fuel (([ch], rde e) :: acc) H').
        * cbn [rev]. rewrite <- app_assoc. reflexivity.
        * cbn [length] in Hf. rewrite !app_length in Hf. lia.
  Qed.
  (* ---- the coefficient text: sign, then digits (or nothing for a unit coefficient) ---- *)
  Definition coef_val (sg b : str) (v : R) : Prop :=
    match b with
    | [] => v = match sg with [] => 1 | _ => -1 end
    | _ => @parse_dec R RNum (sg ++ b) = Some v
    end.

  Lemma inter_coeff_spec sg b v : (sg = [] \/ sg = [c_minus]) -> body_ok b = true -> coef_val sg b v ->
    @inter_coeff R RNum (sg ++ b) = Ok v.
  Proof.
    intros Hs Hb Hv. destruct b as [|x b].
    - cbn [coef_val] in Hv. rewrite app_nil_r. destruct Hs as [->| ->]; subst v.
      + reflexivity.
      + unfold inter_coeff. cbn [str_eqb N.eqb c_minus Pos.eqb andb nneg n1 RNum]. f_equal; try lra.
    - cbn [coef_val] in Hv.
      assert (Hx : x <> c_minus).
      { cbn [body_ok forallb] in Hb. apply andb_true_iff in Hb. destruct Hb as [Hx _].
        exact (proj1 (numch_facts2 x Hx)). }
      unfold inter_coeff.
      assert (E : str_eqb (sg ++ x :: b) [c_minus] = false).
      { destruct Hs as [->| ->]; cbn [app str_eqb].
        - destruct (N.eqb_spec x c_minus); [contradiction|reflexivity].
        - rewrite N.eqb_refl. reflexivity. }
      rewrite E, (no_slash sg (x :: b) Hs Hb), parse_dec_finite_R, Hv.
      destruct Hs as [->| ->]; reflexivity.
  Qed.

  Lemma inter_term_spec sg b v vs : (sg = [] \/ sg = [c_minus]) -> body_ok b = true -> coef_val sg b v ->
    vars_ok vs ->
    @inter_term R RNum U (sg ++ b ++ fvars vs)
    = Ok {| t_coef := v; t_vars := merge_vars (sort_vars (read_vars vs)) [] |}.
  Proof.
    intros Hs Hb Hv Hvs. unfold inter_term.
    rewrite (scan_coeff_signed sg b (fvars vs) Hs Hb (fvars_stops vs Hvs)).
    rewrite (inter_coeff_spec sg b v Hs Hb Hv).
    rewrite (scan_vars_spec vs (length (fvars vs)) [] Hvs (le_n _)). cbn [rev app].
    rewrite all_finite_R. reflexivity.
  Qed.

  (* ---- sorted, distinct names are left alone by sort_vars / merge_vars ---- *)
  Fixpoint strict_sorted (l : list (name * R)) : Prop :=
    match l with
    | [] => True
    | x :: r => (forall y, In y r -> name_leb (fst x) (fst y) = true /\ name_eqb (fst x) (fst y) = false)
                /\ strict_sorted r
    end.

  Lemma insert_var_last (x : name * R) l :
    (forall y, In y l -> name_leb (fst y) (fst x) = true) -> insert_var x l = l ++ [x].
  Proof.
    induction l as [|y l IH]; intro H; [reflexivity|].
    cbn [insert_var]. rewrite (H y (or_introl eq_refl)). cbn [app]. f_equal.
    apply IH. intros z Hz. apply H. right. exact Hz.
  Qed.

  Lemma sort_vars_acc (l : list (name * R)) : forall acc,
    (forall y x, In y acc -> In x l -> name_leb (fst y) (fst x) = true) -> strict_sorted l ->
    fold_left (fun acc x => insert_var x acc) l acc = acc ++ l.
  Proof.
    induction l as [|x l IH]; intros acc Ha Hs; [cbn; rewrite app_nil_r; reflexivity|].
    cbn [fold_left]. destruct Hs as [Hx Hs].
    rewrite insert_var_last by (intros y Hy; apply (Ha y x Hy); left; reflexivity).
    rewrite IH; [rewrite <- app_assoc; reflexivity| |exact Hs].
    intros y z Hy Hz. apply in_app_or in Hy. destruct Hy as [Hy|[<-|[]]].
    - apply (Ha y z Hy). right. exact Hz.
    - apply Hx. exact Hz.
  Qed.

  Lemma sort_vars_sorted (l : list (name * R)) : strict_sorted l -> sort_vars l = l.
  Proof. intro H. unfold sort_vars. rewrite sort_vars_acc; [reflexivity|intros y x []|exact H]. Qed.

  Lemma merge_vars_distinct (l : list (name * R)) : forall acc,
    match acc, l with
    | w :: _, v :: _ => name_eqb (fst w) (fst v) = false
    | _, _ => True
    end -> strict_sorted l -> @merge_vars R RNum l acc = rev acc ++ l.
  Proof.
    induction l as [|[v p] l IH]; intros acc Ha Hs; [cbn; rewrite app_nil_r; reflexivity|].
    destruct Hs as [Hx Hs]. cbn [merge_vars].
    assert (Next : match l with
                   | v2 :: _ => name_eqb (fst (v, p)) (fst v2) = false
                   | [] => True end).
    { destruct l as [|v2 l2]; [exact I|]. apply Hx. left. reflexivity. }
    destruct acc as [|[w q] acc].
    - rewrite IH; [reflexivity|exact Next|exact Hs].
    - cbn [fst] in Ha. rewrite Ha. rewrite IH; [|exact Next|exact Hs].
      cbn [rev]. rewrite <- !app_assoc. reflexivity.
  Qed.

  Lemma strict_sorted_read vs : strict_sorted vs -> strict_sorted (read_vars vs).
  Proof.
    induction vs as [|x vs IH]; intro H; [exact I|].
    destruct H as [Hx Hs]. split; [|exact (IH Hs)].
    intros y Hy. unfold read_vars in Hy. apply in_map_iff in Hy. destruct Hy as [z [<- Hz]].
    cbn [fst]. apply Hx. exact Hz.
  Qed.

  Lemma canon_vars vs : strict_sorted vs ->
    @merge_vars R RNum (sort_vars (read_vars vs)) [] = read_vars vs.
  Proof.
    intro H. pose proof (strict_sorted_read vs H) as H'.
    rewrite (sort_vars_sorted _ H'). rewrite merge_vars_distinct; [reflexivity| |exact H'].
    destruct (read_vars vs); exact I.
  Qed.

  (* ---- one printed term ---- *)
  Definition csI (t : term R) : str :=
    if nneb (nabs (t_coef t)) n1 || negb (has_vars t) then fnum (nabs (t_coef t)) else [].
  Definition ttext (t : term R) : str := csI t ++ fvars (t_vars t).
  Definition nmI (t : term R) : str := sgn_str (t_coef t) ++ ttext t.
  Definition term_ok (t : term R) : Prop :=
    mag_ok (Rabs (t_coef t)) /\ vars_ok (t_vars t) /\ strict_sorted (t_vars t).
  Definition readcI (t : term R) : R :=
    if nneb (nabs (t_coef t)) n1 || negb (has_vars t)
    then (if Rltb (t_coef t) 0 then - rd (Rabs (t_coef t)) else rd (Rabs (t_coef t)))
    else t_coef t.
  Definition readterm (t : term R) : term R :=
    {| t_coef := readcI t; t_vars := read_vars (t_vars t) |}.

  Lemma csI_body_ok t : term_ok t -> body_ok (csI t) = true.
  Proof.
    intros [[H _] _]. unfold csI. destruct (nneb (nabs (t_coef t)) n1 || negb (has_vars t)); [exact H|reflexivity].
  Qed.

  Lemma sgn_ok c : sgn_str c = [] \/ sgn_str c = [c_minus].
  Proof. unfold sgn_str. destruct (Rltb c 0); [right|left]; reflexivity. Qed.

  Lemma csI_coef_val t : term_ok t -> coef_val (sgn_str (t_coef t)) (csI t) (readcI t).
  Proof.
    intros [[Hb Hp] _]. unfold csI, readcI. cbn [nabs n1 RNum].
    destruct (nneb (Rabs (t_coef t)) 1 || negb (has_vars t)) eqn:E.
    - unfold coef_val. destruct (fnum (Rabs (t_coef t))) as [|x b] eqn:Ef; [discriminate Hp|].
      unfold sgn_str. destruct (Rltb (t_coef t) 0); cbn [app].
      + apply parse_dec_neg; assumption.
      + exact Hp.
    - cbn [coef_val]. apply orb_false_iff in E. destruct E as [E _].
      unfold nneb in E. apply negb_false_iff in E. cbn [neqb RNum] in E. apply Reqb_true in E.
      unfold sgn_str. destruct (Rltb (t_coef t) 0) eqn:En.
      + apply Rltb_true in En. rewrite Rabs_left in E by exact En. lra.
      + apply Rltb_false in En. rewrite Rabs_right in E by lra. exact E.
  Qed.

  Lemma nmI_reads t : term_ok t -> @inter_term R RNum U (nmI t) = Ok (readterm t).
  Proof.
    intro H. pose proof H as [_ [Hv Hs]]. unfold nmI, ttext.
    rewrite (inter_term_spec _ _ (readcI t) _ (sgn_ok _) (csI_body_ok t H) (csI_coef_val t H) Hv).
    rewrite (canon_vars _ Hs). reflexivity.
  Qed.

  (* the text of a term starts with a digit, a dot or a letter, never with '-' *)
  Lemma ttext_head t : term_ok t -> exists x r, ttext t = x :: r /\ x <> c_minus.
  Proof.
    intro H. pose proof H as [[Hb Hp] [Hv _]]. unfold ttext, csI. cbn [nabs RNum].
    destruct (nneb (Rabs (t_coef t)) n1 || negb (has_vars t)) eqn:E.
    - destruct (fnum (Rabs (t_coef t))) as [|x b] eqn:Ef; [discriminate Hp|].
      exists x, (b ++ fvars (t_vars t)). split; [reflexivity|].
      cbn [body_ok forallb] in Hb. apply andb_true_iff in Hb. exact (proj1 (numch_facts2 x (proj1 Hb))).
    - apply orb_false_iff in E. destruct E as [_ E]. apply negb_false_iff in E.
      unfold has_vars in E. destruct (t_vars t) as [|[v e] vs] eqn:Et; [discriminate E|].
      destruct (Hv v e (or_introl eq_refl)) as [[ch [-> Hl]] _].
      cbn [app fmt_vars]. eexists ch, _. split; [reflexivity|].
      exact (proj1 (proj2 (proj2 (letter_facts2 ch Hl)))).
  Qed.

  Lemma ttext_tch t : term_ok t -> forallb tch (ttext t) = true.
  Proof.
    intro H. unfold ttext. rewrite forallb_app, (fvars_tch _ (proj1 (proj2 H))), andb_true_r.
    pose proof (csI_body_ok t H) as Hb. unfold body_ok in Hb. rewrite forallb_forall in *.
    intros c Hc. unfold tch. rewrite (Hb c Hc). reflexivity.
  Qed.

  Lemma nmI_tch t : term_ok t -> forallb tch (nmI t) = true.
  Proof.
    intro H. unfold nmI. rewrite forallb_app, (ttext_tch t H), andb_true_r.
    destruct (sgn_ok (t_coef t)) as [-> | ->]; reflexivity.
  Qed.

  Lemma tch_no_plus s : forallb tch s = true -> ~ In c_plus s.
  Proof.
    intros H Hin. rewrite forallb_forall in H. destruct (tch_facts _ (H _ Hin)) as [_ [X _]]. apply X. reflexivity.
  Qed.

  Lemma strip_ws_tch s : forallb tch s = true -> strip_ws s = s.
  Proof.
    induction s as [|c s IH]; intro H; [reflexivity|].
    cbn [forallb] in H. apply andb_true_iff in H. destruct H as [H1 H2].
    cbn [strip_ws filter]. rewrite (proj1 (tch_facts c H1)). cbn [negb]. f_equal. apply IH. exact H2.
  Qed.

  Lemma nmI_not_bad t : term_ok t -> bad_part (nmI t) = false.
  Proof.
    intro H. destruct (ttext_head t H) as [x [r [E Hx]]]. unfold nmI. rewrite E.
    destruct (sgn_ok (t_coef t)) as [-> | ->]; cbn [app bad_part]; [|reflexivity].
    destruct r; [|reflexivity]. apply N.eqb_neq. exact Hx.
  Qed.

  Lemma pm_ttext t s : term_ok t -> protect_minus false (ttext t ++ s) = ttext t ++ protect_minus false s.
  Proof.
    intro H. unfold ttext. rewrite <- !app_assoc, (pm_body _ _ _ (csI_body_ok t H)).
    rewrite (pm_fvars _ _ _ (proj1 (proj2 H))). do 2 f_equal.
    destruct (csI t); destruct (t_vars t); reflexivity.
  Qed.
  (* ---- the whole polynomial ---- *)
  Notation iloop := (inter_loop fmt_prec fmt_short prec).
  Definition all_terms_ok (ts : list (term R)) : Prop := forall t, In t ts -> term_ok t.

  Lemma all_terms_ok_tail t ts : all_terms_ok (t :: ts) -> all_terms_ok ts.
  Proof. intros H x Hx. apply H. right. exact Hx. Qed.

  Fixpoint normI (ts : list (term R)) (first : bool) : str :=
    match ts with
    | [] => []
    | t :: r => (if first && negb (Rltb (t_coef t) 0) then [] else [c_plus]) ++ nmI t ++ normI r false
    end.

  Lemma Rleb0 c : Rleb 0 c = negb (Rltb c 0).
  Proof.
    destruct (Rltb c 0) eqn:E; cbn [negb].
    - apply Rleb_false. apply Rltb_true in E. exact E.
    - apply Rleb_true. apply Rltb_false in E. exact E.
  Qed.

  Lemma iloop_cons first t ts :
    iloop first (t :: ts) =
    (if first then (if Rltb (t_coef t) 0 then [c_minus] else [])
     else (if negb (Rltb (t_coef t) 0) then sep_plus else sep_minus))
    ++ ttext t ++ iloop false ts.
  Proof.
    cbn [inter_loop]. cbn [nltb ngeb nleb n0 RNum]. rewrite Rleb0. unfold ttext, csI.
    rewrite <- !app_assoc. reflexivity.
  Qed.

  Lemma inter_norm ts : forall first, all_terms_ok ts ->
    protect_minus false (strip_ws (iloop first ts)) = normI ts first.
  Proof.
    induction ts as [|t ts IH]; intros first Hok; [reflexivity|].
    assert (Ht : term_ok t) by (apply Hok; left; reflexivity).
    rewrite iloop_cons. cbn [normI]. rewrite !strip_ws_app, (strip_ws_tch _ (ttext_tch t Ht)).
    unfold nmI, sgn_str.
    destruct first; destruct (Rltb (t_coef t) 0); cbn [negb andb].
    - change (strip_ws [c_minus]) with [c_minus]. cbn [app protect_minus]. rewrite N.eqb_refl. cbn [app].
      rewrite (pm_ttext t _ Ht), (IH false (all_terms_ok_tail _ _ Hok)). reflexivity.
    - change (strip_ws []) with (@nil N). cbn [app].
      rewrite (pm_ttext t _ Ht), (IH false (all_terms_ok_tail _ _ Hok)). reflexivity.
    - change (strip_ws sep_minus) with [c_minus]. cbn [app protect_minus]. rewrite N.eqb_refl. cbn [app].
      rewrite (pm_ttext t _ Ht), (IH false (all_terms_ok_tail _ _ Hok)). reflexivity.
    - change (strip_ws sep_plus) with [c_plus]. cbn [app protect_minus].
      replace (N.eqb c_plus c_minus) with false by reflexivity.
      replace (N.eqb c_plus c_caret) with false by reflexivity.
      rewrite (pm_ttext t _ Ht), (IH false (all_terms_ok_tail _ _ Hok)). reflexivity.
  Qed.

  Lemma split_concat (l : list str) : forall a, ~ In c_plus a -> (forall q, In q l -> ~ In c_plus q) ->
    split_on c_plus (a ++ concat (map (fun q => c_plus :: q) l)) = a :: l.
  Proof.
    induction l as [|q l IH]; intros a Ha Hl.
    - cbn. rewrite app_nil_r. apply split_on_nosep. exact Ha.
    - cbn [map concat app]. rewrite split_on_sep by exact Ha. f_equal.
      apply IH; [apply Hl; left; reflexivity|intros r Hr; apply Hl; right; exact Hr].
  Qed.

  Lemma normI_false ts : normI ts false = concat (map (fun q => c_plus :: q) (map nmI ts)).
  Proof. induction ts as [|t ts IH]; [reflexivity|]. cbn [normI map concat andb app]. rewrite IH. reflexivity. Qed.

  Lemma nmI_no_plus ts : all_terms_ok ts -> forall q, In q (map nmI ts) -> ~ In c_plus q.
  Proof.
    intros Hok q Hq. apply in_map_iff in Hq. destruct Hq as [t [<- Ht]].
    apply tch_no_plus, nmI_tch, Hok, Ht.
  Qed.

  Lemma partsI ts : all_terms_ok ts ->
    drop_leading_empty (split_on c_plus (normI ts true)) = map nmI ts.
  Proof.
    destruct ts as [|t ts]; intro Hok; [reflexivity|].
    assert (Ht : term_ok t) by (apply Hok; left; reflexivity).
    pose proof (nmI_no_plus ts (all_terms_ok_tail _ _ Hok)) as Hl.
    cbn [normI map]. rewrite normI_false. cbn [andb].
    destruct (negb (Rltb (t_coef t) 0)).
    - cbn [app]. rewrite split_concat; [|apply tch_no_plus, nmI_tch; exact Ht|exact Hl].
      pose proof (nmI_not_bad t Ht) as Hb. destruct (nmI t); [discriminate Hb|reflexivity].
    - change ([c_plus] ++ nmI t ++ ?x) with ([] ++ c_plus :: (nmI t ++ x)).
      rewrite split_on_sep by (intros []).
      rewrite split_concat; [reflexivity|apply tch_no_plus, nmI_tch; exact Ht|exact Hl].
  Qed.

  Lemma partsI_not_bad ts : all_terms_ok ts -> existsb bad_part (map nmI ts) = false.
  Proof.
    induction ts as [|t ts IH]; intro Hok; [reflexivity|].
    cbn [map existsb]. rewrite nmI_not_bad by (apply Hok; left; reflexivity).
    apply IH. exact (all_terms_ok_tail _ _ Hok).
  Qed.

  Lemma mapM_map_ok {A B C} (f : B -> res C) (h : A -> B) (g : A -> C) (l : list A) :
    (forall x, In x l -> f (h x) = Ok (g x)) -> mapM f (map h l) = Ok (map g l).
  Proof.
    induction l as [|x l IH]; intro H; [reflexivity|].
    cbn [map mapM]. rewrite (H x (or_introl eq_refl)). cbn [bind].
    rewrite IH by (intros y Hy; apply H; right; exact Hy). reflexivity.
  Qed.

  (* no '@' in the printed text *)
  Definition och (c : N) : bool := tch c || N.eqb c c_space || N.eqb c c_plus.
  Lemma och_not_at s : forallb och s = true -> contains_char c_at s = false.
  Proof.
    intro H. unfold contains_char. apply not_true_is_false. intro X.
    apply existsb_exists in X. destruct X as [x [Hx E]]. apply N.eqb_eq in E. subst x.
    rewrite forallb_forall in H. specialize (H _ Hx). unfold och in H.
    rewrite !orb_true_iff in H. destruct H as [[H|H]|H]; discriminate H.
  Qed.
  Lemma tch_och s : forallb tch s = true -> forallb och s = true.
  Proof. rewrite !forallb_forall. intros H c Hc. unfold och. rewrite (H c Hc). reflexivity. Qed.

  Lemma iloop_och ts : forall first, all_terms_ok ts -> forallb och (iloop first ts) = true.
  Proof.
    induction ts as [|t ts IH]; intros first Hok; [reflexivity|].
    rewrite iloop_cons, !forallb_app, (tch_och _ (ttext_tch t (Hok t (or_introl eq_refl)))),
      (IH false (all_terms_ok_tail _ _ Hok)), !andb_true_r.
    destruct first; destruct (Rltb (t_coef t) 0); reflexivity.
  Qed.

  Lemma parse_inter_loop ts : all_terms_ok ts ->
    parse_inter U (iloop true ts)
    = Ok {| i_terms := map readterm ts; i_vars := var_set (map readterm ts) |}.
  Proof.
    intro Hok. unfold parse_inter.
    rewrite (och_not_at _ (iloop_och ts true Hok)), (inter_norm ts true Hok), (partsI ts Hok),
      (partsI_not_bad ts Hok).
    rewrite (mapM_map_ok (@inter_term R RNum U) nmI readterm ts)
      by (intros t Ht; apply nmI_reads, Hok, Ht).
    reflexivity.
  Qed.

  (* a single Term (its own Display): coefficient text with its sign, no precision *)
  Lemma parse_inter_term_text sg b v vs : (sg = [] \/ sg = [c_minus]) -> body_ok b = true ->
    coef_val sg b v -> vars_ok vs -> strict_sorted vs -> (b <> [] \/ vs <> []) ->
    parse_inter U (sg ++ b ++ fvars vs)
    = Ok {| i_terms := [ {| t_coef := v; t_vars := read_vars vs |} ];
            i_vars := var_set [ {| t_coef := v; t_vars := read_vars vs |} ] |}.
  Proof.
    intros Hs Hb Hv Hvs Hsort Hne.
    assert (Tb : forallb tch (b ++ fvars vs) = true).
    { rewrite forallb_app, (fvars_tch vs Hvs), andb_true_r.
      unfold body_ok in Hb. rewrite forallb_forall in *. intros c Hc. unfold tch. rewrite (Hb c Hc). reflexivity. }
    assert (Tall : forallb tch (sg ++ b ++ fvars vs) = true).
    { rewrite forallb_app, Tb, andb_true_r. destruct Hs as [->| ->]; reflexivity. }
    assert (Hd : exists x r, b ++ fvars vs = x :: r /\ x <> c_minus).
    { destruct b as [|x b].
      - destruct Hne as [X|X]; [contradiction|]. destruct vs as [|[v0 e0] vs]; [contradiction|].
        destruct (Hvs v0 e0 (or_introl eq_refl)) as [[ch [-> Hl]] _].
        cbn [app fmt_vars]. eexists ch, _. split; [reflexivity|].
        exact (proj1 (proj2 (proj2 (letter_facts2 ch Hl)))).
      - exists x, (b ++ fvars vs). split; [reflexivity|].
        cbn [body_ok forallb] in Hb. apply andb_true_iff in Hb. exact (proj1 (numch_facts2 x (proj1 Hb))). }
    assert (PMb : protect_minus false (b ++ fvars vs) = b ++ fvars vs).
    { rewrite <- (app_nil_r (fvars vs)), (pm_body _ _ _ Hb), (pm_fvars vs _ [] Hvs).
      cbn [protect_minus]. reflexivity. }
    unfold parse_inter.
    rewrite (och_not_at _ (tch_och _ Tall)), (strip_ws_tch _ Tall).
    assert (Parts : drop_leading_empty (split_on c_plus (protect_minus false (sg ++ b ++ fvars vs)))
                    = [sg ++ b ++ fvars vs]).
    { destruct Hd as [x [r [E Hx]]].
      destruct Hs as [->| ->]; cbn [app].
      - rewrite PMb, split_on_nosep by (apply tch_no_plus; exact Tb).
        rewrite E. reflexivity.
      - cbn [protect_minus]. rewrite N.eqb_refl. cbn [app].
        rewrite PMb. change (c_plus :: c_minus :: b ++ fvars vs) with ([] ++ c_plus :: (c_minus :: b ++ fvars vs)).
        rewrite split_on_sep by (intros []).
        rewrite split_on_nosep; [reflexivity|].
        apply tch_no_plus. exact Tall. }
    rewrite Parts.
    assert (NB : existsb bad_part [sg ++ b ++ fvars vs] = false).
    { cbn [existsb]. rewrite orb_false_r. destruct Hd as [x [r [E Hx]]]. rewrite E.
      destruct Hs as [->| ->]; cbn [app bad_part]; [|reflexivity].
      destruct r; [|reflexivity]. apply N.eqb_neq. exact Hx. }
    rewrite NB. cbn [mapM]. rewrite (inter_term_spec sg b v vs Hs Hb Hv Hvs), (canon_vars vs Hsort).
    reflexivity.
  Qed.
End InterRT.

(* ========================================================================== *)
(** * C17: statements for Term and IntermediatePolynomial (default formatting) *)

Section C17Inter.
  Variable U : UClass.
  Hypothesis U_num : forall c, (c < 128)%N -> u_numeric U c = is_ascii_digit c.
  Variable F : R -> Prop.
  Hypothesis F_opp : forall x, F x -> F (- x).
  Variable fmt_prec : nat -> R -> str.
  Variable fmt_short : R -> str.
  Hypothesis H1 : forall x, F x -> short_shape x (fmt_short x).
  Hypothesis H2 : forall x, F x -> @parse_dec R RNum (fmt_short x) = Some x.

  (* well-formed term: finite numbers, variables = sorted distinct single ASCII letters *)
  Definition wf_term (t : term R) : Prop :=
    F (t_coef t)
    /\ (forall v e, In (v, e) (t_vars t) -> letter_name v /\ F e)
    /\ strict_sorted (t_vars t).

  Let idR := fun x : R => x.

  Lemma short_pos x : F x -> 0 <= x -> body_ok (fmt_short x) = true.
  Proof.
    intros Fx Hx. pose proof (H1 x Fx) as S. unfold short_shape in S.
    replace (Rltb x 0) with false in S; [exact S|]. symmetry. apply Rltb_false. exact Hx.
  Qed.

  Lemma short_split x : F x ->
    exists sg b, fmt_short x = sg ++ b /\ (sg = [] \/ sg = [c_minus]) /\ body_ok b = true /\ b <> [].
  Proof.
    intro Fx. pose proof (H1 x Fx) as S. pose proof (H2 x Fx) as P. unfold short_shape in S.
    destruct (Rltb x 0).
    - destruct S as [b [E Hb]]. exists [c_minus], b. repeat split; [exact E|right; reflexivity|exact Hb|].
      intro X. subst b. rewrite E in P. discriminate P.
    - exists [], (fmt_short x). repeat split; [left; reflexivity|exact S|].
      intro X. rewrite X in P. discriminate P.
  Qed.

  Lemma default_exp_ok e : F e -> exp_ok fmt_prec fmt_short None idR e.
  Proof.
    intro Fe. destruct (short_split e Fe) as [sg [b [E [Hs [Hb _]]]]].
    exists sg, b. cbn [fmt_exp]. rewrite E. repeat split; try assumption.
    rewrite <- E. apply H2. exact Fe.
  Qed.

  Lemma default_term_ok t : wf_term t -> term_ok fmt_prec fmt_short None idR idR t.
  Proof.
    intros [Fc [Hv Hs]]. split; [|split; [|exact Hs]].
    - pose proof (F_abs F F_opp _ Fc) as Fa. split; [apply short_pos; [exact Fa|apply Rabs_pos]|apply H2; exact Fa].
    - intros v e Hin. destruct (Hv v e Hin) as [Hl Fe]. split; [exact Hl|]. intros _. apply default_exp_ok. exact Fe.
  Qed.

  Lemma read_vars_id vs : read_vars idR vs = vs.
  Proof.
    unfold read_vars. rewrite <- (map_id vs) at 2. apply map_ext. intros [v e]. cbn [fst snd]. f_equal.
    unfold rdx, idR. destruct (Reqb e 1) eqn:E; [apply Reqb_true in E; congruence|reflexivity].
  Qed.

  Lemma readterm_id t : readterm idR idR t = t.
  Proof.
    destruct t as [c vs]. unfold readterm. cbn [t_coef t_vars]. rewrite read_vars_id. f_equal.
    unfold readcI, idR. cbn [t_coef].
    destruct (nneb (nabs c) n1 || negb (has_vars {| t_coef := c; t_vars := vs |})); [|reflexivity].
    destruct (Rltb c 0) eqn:En.
    - apply Rltb_true in En. rewrite Rabs_left by exact En. ring.
    - apply Rltb_false in En. apply Rabs_right. lra.
  Qed.

  Lemma c17_inter_default : forall p : ipoly R,
    i_terms p <> [] ->
    (forall t, In t (i_terms p) -> wf_term t) ->
    parse_inter U (fmt_inter fmt_prec fmt_short None p)
    = Ok {| i_terms := i_terms p; i_vars := var_set (i_terms p) |}.
  Proof.
    intros p Hne Hwf. unfold fmt_inter. destruct (i_terms p) as [|t ts] eqn:Et; [contradiction|].
    rewrite (parse_inter_loop U U_num fmt_prec fmt_short None idR idR (t :: ts)).
    - rewrite (map_ext _ (fun x => x) readterm_id), map_id. reflexivity.
    - intros x Hx. apply default_term_ok, Hwf, Hx.
  Qed.

  (* the zero polynomial prints "0", which reads back as the single constant term 0 *)
  Lemma c17_inter_zero : forall p : ipoly R, i_terms p = [] ->
    exists c0, parse_inter U (fmt_inter fmt_prec fmt_short None p)
               = Ok {| i_terms := [ {| t_coef := c0; t_vars := [] |} ]; i_vars := [] |} /\ c0 = 0.
  Proof.
    intros p E. unfold fmt_inter. rewrite E.
    exists (@nofdec R RNum 0 0). split; [|rewrite nofdec_R; ring].
    assert (Hb : body_ok [c_zero] = true) by reflexivity.
    assert (Hv : coef_val [] [c_zero] (@nofdec R RNum 0 0)).
    { unfold coef_val. cbn [app]. change (@parse_dec R RNum [c_zero]) with (Some (@nofdec R RNum 0 0)). reflexivity. }
    assert (Hvs : vars_ok fmt_prec fmt_short None idR []) by (intros v e []).
    assert (Hs0 : @nil N = [] \/ @nil N = [c_minus]) by (left; reflexivity).
    assert (Hso : strict_sorted (@nil (name * R))) by exact I.
    assert (Hne : [c_zero] <> [] \/ @nil (name * R) <> []) by (left; discriminate).
    change [c_zero] with ([] ++ [c_zero] ++ fmt_vars fmt_prec fmt_short None (@nil (name * R))) at 1.
    rewrite (parse_inter_term_text U U_num fmt_prec fmt_short None idR [] [c_zero] (@nofdec R RNum 0 0) []
               Hs0 Hb Hv Hvs Hso Hne).
    reflexivity.
  Qed.

  Lemma c17_term : forall t : term R, wf_term t ->
    parse_inter U (fmt_term fmt_prec fmt_short t)
    = Ok {| i_terms := [t]; i_vars := var_set [t] |}.
  Proof.
    intros [c vs] [Fc [Hv Hs]]. cbn [t_coef t_vars] in *.
    assert (Hvs : vars_ok fmt_prec fmt_short None idR vs).
    { intros v e Hin. destruct (Hv v e Hin) as [Hl Fe]. split; [exact Hl|]. intros _. apply default_exp_ok. exact Fe. }
    unfold fmt_term. cbn [t_coef t_vars].
    assert (Res : forall sg b, (sg = [] \/ sg = [c_minus]) -> body_ok b = true ->
               coef_val sg b c -> (b <> [] \/ vs <> []) ->
               parse_inter U (sg ++ b ++ fmt_vars fmt_prec fmt_short None vs)
               = Ok {| i_terms := [ {| t_coef := c; t_vars := vs |} ];
                       i_vars := var_set [ {| t_coef := c; t_vars := vs |} ] |}).
    { intros sg b Hsg Hb Hval Hne.
      rewrite (parse_inter_term_text U U_num fmt_prec fmt_short None idR sg b c vs Hsg Hb Hval Hvs Hs Hne).
      rewrite read_vars_id. reflexivity. }
    destruct (nneb c n1 || negb (has_vars {| t_coef := c; t_vars := vs |})) eqn:Epr.
    - destruct (short_split c Fc) as [sg [b [E [Hsg [Hb Hne]]]]].
      rewrite E, <- app_assoc. apply Res; try assumption; [|left; exact Hne].
      unfold coef_val. destruct b; [contradiction|]. rewrite <- E. apply H2. exact Fc.
    - apply orb_false_iff in Epr. destruct Epr as [E1 E2].
      unfold nneb in E1. apply negb_false_iff in E1. cbn [neqb n1 RNum] in E1. apply Reqb_true in E1.
      apply negb_false_iff in E2. unfold has_vars in E2. cbn [t_vars] in E2.
      apply (Res [] []); [left; reflexivity|reflexivity|exact E1|].
      right. intro X. subst vs. discriminate E2.
  Qed.
End C17Inter.

(* ========================================================================== *)
(** * C17: IntermediatePolynomial with a precision *)

Lemma trim_num_prefix x s : x <> c_zero -> x <> c_dot -> trim_num (x :: s) = x :: trim_num s.
Proof.
  intros Hz Hd. unfold trim_num.
  assert (E : contains_char c_dot (x :: s) = contains_char c_dot s).
  { unfold contains_char. cbn [existsb]. destruct (N.eqb_spec c_dot x) as [X|_]; [congruence|reflexivity]. }
  rewrite E. destruct (contains_char c_dot s); [|reflexivity].
  pose proof (trim_end_keep c_zero [] x s Hz) as K1. cbn [app] in K1. rewrite K1.
  pose proof (trim_end_keep c_dot [] x (trim_end c_zero s) Hd) as K2. cbn [app] in K2. rewrite K2. reflexivity.
Qed.

Lemma Forall2_map_r {A B} (P : A -> B -> Prop) (f : A -> B) (l : list A) :
  (forall x, In x l -> P x (f x)) -> Forall2 P l (map f l).
Proof.
  induction l as [|x l IH]; intro H; [constructor|].
  cbn [map]. constructor; [apply H; left; reflexivity|apply IH; intros y Hy; apply H; right; exact Hy].
Qed.

Definition close_vars (eps : R) (vs vs' : list (name * R)) : Prop :=
  Forall2 (fun ve ve' => fst ve' = fst ve /\ Rabs (snd ve' - snd ve) <= eps) vs vs'.
Definition close_term (eps : R) (t t' : term R) : Prop :=
  Rabs (t_coef t' - t_coef t) <= eps /\ close_vars eps (t_vars t) (t_vars t').

Section C17InterPrec.
  Variable U : UClass.
  Hypothesis U_num : forall c, (c < 128)%N -> u_numeric U c = is_ascii_digit c.
  Variable F : R -> Prop.
  Hypothesis F_opp : forall x, F x -> F (- x).
  Variable fmt_prec : nat -> R -> str.
  Variable fmt_short : R -> str.
  Hypothesis Hspec : prec_spec F fmt_prec.
  Variable prec : nat.

  Let eps := / 2 * / 10 ^ prec.
  Let rdp := rd_prec fmt_prec prec.
  Let rdep (e : R) : R :=
    match @parse_dec R RNum (tl (trim_num (c_caret :: fmt_prec prec e))) with Some y => y | None => 0 end.

  Lemma eps_nonneg : 0 <= eps.
  Proof.
    unfold eps. pose proof (pow10_pos prec).
    apply Rmult_le_pos; [lra|left; apply Rinv_0_lt_compat; assumption].
  Qed.

  Lemma prec_mag_ok a : F a -> 0 <= a ->
    mag_ok fmt_prec fmt_short (Some prec) rdp a /\ Rabs (rdp a - a) <= eps.
  Proof.
    intros Fa Ha. destruct Hspec as [_ Hpos].
    destruct (Hpos prec a Fa Ha) as [n [N0 [N1 N2]]].
    destruct (trim_num_dec_point prec n N0) as [T1 [T2 _]].
    destruct (fmt_prec_number_level prec n a N0 N1) as [y [Y1 [_ Y3]]].
    unfold mag_ok, rdp, rd_prec. cbn [fmt_num]. rewrite N2, Y1. repeat split; [exact T1|exact Y3].
  Qed.

  Lemma prec_exp_ok e : F e ->
    exp_ok fmt_prec fmt_short (Some prec) rdep e /\ Rabs (rdep e - e) <= eps.
  Proof.
    intro Fe. destruct Hspec as [Hneg Hpos].
    assert (Hc0 : c_caret <> c_zero) by discriminate. assert (Hcd : c_caret <> c_dot) by discriminate.
    assert (Hm0 : c_minus <> c_zero) by discriminate. assert (Hmd : c_minus <> c_dot) by discriminate.
    destruct (Rlt_le_dec e 0) as [Lt|Ge].
    - (* negative exponent: "^-digits" *)
      pose proof (F_opp e Fe) as Fo.
      destruct (Hpos prec (- e) Fo ltac:(lra)) as [n [N0 [N1 N2]]].
      destruct (trim_num_dec_point prec n N0) as [T1 [T2 _]].
      destruct (fmt_prec_number_level prec n (- e) N0 N1) as [y [Y1 [_ Y3]]].
      assert (Etxt : trim_num (c_caret :: fmt_prec prec e) = c_caret :: [c_minus] ++ trim_num (dec_point prec n)).
      { rewrite (Hneg prec e Fe Lt), N2, (trim_num_prefix _ _ Hc0 Hcd), (trim_num_prefix _ _ Hm0 Hmd). reflexivity. }
      assert (Pd : @parse_dec R RNum ([c_minus] ++ trim_num (dec_point prec n)) = Some (- y)).
      { cbn [app]. apply parse_dec_neg; assumption. }
      assert (Er : rdep e = - y).
      { unfold rdep. rewrite Etxt. cbn [tl]. rewrite Pd. reflexivity. }
      split.
      + exists [c_minus], (trim_num (dec_point prec n)). cbn [fmt_exp]. rewrite Er.
        repeat split; [exact Etxt|right; reflexivity|exact T1|exact Pd].
      + rewrite Er. replace (- y - e) with (- (y - - e)) by ring. rewrite Rabs_Ropp. exact Y3.
    - destruct (Hpos prec e Fe Ge) as [n [N0 [N1 N2]]].
      destruct (trim_num_dec_point prec n N0) as [T1 [T2 _]].
      destruct (fmt_prec_number_level prec n e N0 N1) as [y [Y1 [_ Y3]]].
      assert (Etxt : trim_num (c_caret :: fmt_prec prec e) = c_caret :: [] ++ trim_num (dec_point prec n)).
      { rewrite N2, (trim_num_prefix _ _ Hc0 Hcd). reflexivity. }
      assert (Er : rdep e = y).
      { unfold rdep. rewrite Etxt. cbn [tl app]. rewrite Y1. reflexivity. }
      split.
      + exists [], (trim_num (dec_point prec n)). cbn [fmt_exp]. rewrite Er.
        repeat split; [exact Etxt|left; reflexivity|exact T1|exact Y1].
      + rewrite Er. exact Y3.
  Qed.

  Lemma prec_term_ok t : wf_term F t -> term_ok fmt_prec fmt_short (Some prec) rdp rdep t.
  Proof.
    intros [Fc [Hv Hs]]. split; [|split; [|exact Hs]].
    - apply prec_mag_ok; [apply F_abs; assumption|apply Rabs_pos].
    - intros v e Hin. destruct (Hv v e Hin) as [Hl Fe]. split; [exact Hl|]. intros _. apply prec_exp_ok. exact Fe.
  Qed.

  Lemma prec_term_close t : wf_term F t -> close_term eps t (readterm rdp rdep t).
  Proof.
    intros [Fc [Hv Hs]]. split.
    - cbn [readterm t_coef]. unfold readcI.
      pose proof (proj2 (prec_mag_ok (Rabs (t_coef t)) (F_abs F F_opp _ Fc) (Rabs_pos _))) as B.
      destruct (nneb (nabs (t_coef t)) n1 || negb (has_vars t)).
      + destruct (Rltb (t_coef t) 0) eqn:En.
        * apply Rltb_true in En. rewrite (Rabs_left _ En) in *.
          replace (- rdp (- t_coef t) - t_coef t) with (- (rdp (- t_coef t) - - t_coef t)) by ring.
          rewrite Rabs_Ropp. exact B.
        * apply Rltb_false in En. rewrite (Rabs_right (t_coef t)) in * by lra. exact B.
      + replace (t_coef t - t_coef t) with 0 by ring. rewrite Rabs_R0. apply eps_nonneg.
    - cbn [readterm t_vars]. unfold close_vars, read_vars. apply Forall2_map_r.
      intros [v e] Hin. cbn [fst snd]. split; [reflexivity|].
      unfold rdx. destruct (Reqb e 1) eqn:E1.
      + apply Reqb_true in E1. subst e. replace (1 - 1) with 0 by ring. rewrite Rabs_R0. apply eps_nonneg.
      + apply prec_exp_ok. exact (proj2 (Hv v e Hin)).
  Qed.

  Lemma var_set_readterm (ts : list (term R)) : var_set (map (readterm rdp rdep) ts) = var_set ts.
  Proof.
    unfold var_set. do 2 f_equal.
    induction ts as [|t ts IH]; [reflexivity|].
    cbn [map flat_map]. rewrite IH. f_equal.
    cbn [readterm t_vars]. unfold read_vars. rewrite map_map. reflexivity.
  Qed.

  Lemma c17_precision_inter : forall p : ipoly R,
    i_terms p <> [] ->
    (forall t, In t (i_terms p) -> wf_term F t) ->
    exists ts', parse_inter U (fmt_inter fmt_prec fmt_short (Some prec) p)
                = Ok {| i_terms := ts'; i_vars := var_set (i_terms p) |}
             /\ Forall2 (close_term (/ 2 * / 10 ^ prec)) (i_terms p) ts'.
  Proof.
    intros p Hne Hwf. unfold fmt_inter. destruct (i_terms p) as [|t ts] eqn:Et; [contradiction|].
    exists (map (readterm rdp rdep) (t :: ts)). split.
    - rewrite (parse_inter_loop U U_num fmt_prec fmt_short (Some prec) rdp rdep (t :: ts)).
      + rewrite var_set_readterm. reflexivity.
      + intros x Hx. apply prec_term_ok, Hwf, Hx.
    - apply Forall2_map_r. intros x Hx. apply prec_term_close, Hwf, Hx.
  Qed.
End C17InterPrec.

Lemma uclass_tab_num : forall c, (c < 128)%N -> u_numeric uclass_tab c = is_ascii_digit c.
Proof.
  intros c L.
  pose proof (below128 (fun c => Bool.eqb (u_numeric uclass_tab c) (is_ascii_digit c))
                ltac:(vm_compute; reflexivity) c L) as B.
  apply eqb_prop in B. exact B.
Qed.

(* the executable `{:.p}` prints a negative value as "-" followed by the text of its magnitude
   (first clause of prec_spec), zeros included ("-0.00" for -0.0) *)
Lemma c17_fmt_prec_sign : forall (p : nat) (m : positive) (e : Z),
  sf_fmt_prec p (S754_finite true m e) = c_minus :: sf_fmt_prec p (S754_finite false m e)
  /\ sf_fmt_prec p (S754_zero true) = c_minus :: sf_fmt_prec p (S754_zero false).
Proof. intros p m e. split; reflexivity. Qed.
