(* Proofs/SubstFloat.v — C08 at the floating-point level: componentwise BACKWARD error (residual form)
   of the exported triangular substitution routines, for the binary64 instance of Model/Subst.v
   ([@forward_substitution float FNum], [@back_substitution float FNum]).  Bridge: Flocq's [B2R (Prim2B x)].

   For the computed solution xh and every row i < n
       | sum_j T_ij xh_j - b_i |  <=  ((1+eps)^(n+1) - 1) * sum_j |T_ij| |xh_j|,      eps = 2^-53,
   where T is the triangle of [a] that the routine reads (the other side is masked to 0 exactly as in
   c08_substitution).  Equivalently xh solves a system whose entries are perturbed by relative
   amounts <= (1+eps)^(n+1) - 1.

   Hypotheses (predicates [fwd_row_ok] / [back_row_ok], stated on the returned vector, checkable by
   computation): in every row the right-hand side is finite, every product a_ij * xh_j is [okmul]
   (finite, exact value zero or of magnitude >= 2^-1022: no underflow error), every partial sum is
   finite, the subtraction is finite and the division is [okdiv] (finite, non-zero divisor, exact
   quotient zero or >= 2^-1022).
   Part A (any Num instance): the returned vector satisfies the row equations of the loops.      *)
From Coq Require Import ZArith List Bool Arith Reals Floats Lia Lra.
From Flocq Require Import Core Plus_error Relative BinarySingleNaN PrimFloat.
From SV Require Import Base.Num Base.Outcome Base.Mat Model.Subst Proofs.Gauss
                       Proofs.Stats Proofs.StatsFloat Proofs.Arr2DFloat Proofs.PolyFloat.
Import ListNotations.

(* ======================================================================================== *)
(* Part A — the row equations, for every Num instance                                        *)
Section Generic.
  Context {T : Type} {NT : Num T}.

  Lemma sum_range_facc lo len (xa ya : nat -> T) :
    sum_range n0 lo len (fun j => nmul (xa j) (ya j))
    = facc (fun k => xa (lo + k)) (fun k => ya (lo + k)) len.
  Proof.
    induction len as [|len IH]; [reflexivity|].
    unfold sum_range in *. rewrite for_range_S, IH, facc_S. reflexivity.
  Qed.

  Lemma sum_range_ext init lo len (f g : nat -> T) :
    (forall j, lo <= j < lo + len -> f j = g j) -> sum_range init lo len f = sum_range init lo len g.
  Proof.
    intros H. unfold sum_range. apply for_range_ext. intros i s Hi. rewrite (H i Hi). reflexivity.
  Qed.

  (* row i of forward substitution, reading the solution x *)
  Definition fwd_row (a : mat T) (b x : vec T) (i : nat) : T :=
    ndiv (nsub (b i) (sum_range n0 0 i (fun j => nmul (a i j) (x j)))) (a i i).

  Lemma fwd_row_ext a b x y i : (forall j, j < i -> x j = y j) -> fwd_row a b x i = fwd_row a b y i.
  Proof.
    intros H. unfold fwd_row. f_equal. f_equal. apply sum_range_ext.
    intros j Hj. rewrite (H j) by lia. reflexivity.
  Qed.

  Lemma forward_fixpoint a n b s0 i : i < n ->
    forward_substitution a n b s0 i = fwd_row a b (forward_substitution a n b s0) i.
  Proof.
    unfold forward_substitution.
    set (body := fun (i : nat) (sol : vec T) =>
      let sum := sum_range n0 0 i (fun j => nmul (a i j) (sol j)) in
      vset sol i (ndiv (nsub (b i) sum) (a i i))).
    assert (HP : forall k, k < 0 + n -> for_range 0 n body s0 k = fwd_row a b (for_range 0 n body s0) k).
    { apply (for_range_inv (fun t (sol : vec T) => forall k, k < t -> sol k = fwd_row a b sol k)).
      - intros k Hk. lia.
      - intros t sol Ht IH k Hk. unfold body. cbv zeta.
        fold (fwd_row a b sol t).
        destruct (Nat.eq_dec k t) as [->|Hne].
        + rewrite vset_same. apply fwd_row_ext. intros j Hj. rewrite vset_other by lia. reflexivity.
        + rewrite vset_other by exact Hne. rewrite IH by lia.
          apply fwd_row_ext. intros j Hj. rewrite vset_other by lia. reflexivity. }
    intros Hi. apply HP. lia.
  Qed.

  (* row i of back substitution (the last row is a bare division) *)
  Definition back_row (a : mat T) (n : nat) (b x : vec T) (i : nat) : T :=
    if S i =? n then ndiv (b i) (a i i)
    else ndiv (nsub (b i) (sum_range n0 (S i) (n - S i) (fun j => nmul (a i j) (x j)))) (a i i).

  Lemma back_row_ext a n b x y i : (forall j, i < j < n -> x j = y j) -> back_row a n b x i = back_row a n b y i.
  Proof.
    intros H. unfold back_row. destruct (S i =? n) eqn:E; [reflexivity|].
    apply Nat.eqb_neq in E. f_equal. f_equal. apply sum_range_ext.
    intros j Hj. rewrite (H j) by lia. reflexivity.
  Qed.

  Lemma back_fixpoint a n b s0 : 0 < n ->
    exists x, back_substitution a n b s0 = Ok x /\ forall i, i < n -> x i = back_row a n b x i.
  Proof.
    intros Hn. destruct n as [|m]; [lia|]. unfold back_substitution.
    eexists. split; [reflexivity|].
    set (body := fun (i : nat) (sol : vec T) =>
      let sum := sum_range n0 (S i) (S m - S i) (fun j => nmul (a i j) (sol j)) in
      vset sol i (ndiv (nsub (b i) sum) (a i i))).
    set (s1 := vset s0 m (ndiv (b m) (a m m))).
    assert (HP : forall k, 0 <= k < S m ->
              for_range_rev 0 m body s1 k = back_row a (S m) b (for_range_rev 0 m body s1) k).
    { apply (for_range_rev_inv (fun t (sol : vec T) => forall k, t <= k < S m -> sol k = back_row a (S m) b sol k)).
      - intros k Hk. assert (k = m) by lia. subst k. unfold s1. rewrite vset_same.
        unfold back_row. rewrite Nat.eqb_refl. reflexivity.
      - intros t sol Ht IH k Hk.
        assert (Ev : body t sol = vset sol t (back_row a (S m) b sol t)).
        { unfold body, back_row. cbv zeta.
          replace (S t =? S m) with false by (symmetry; apply Nat.eqb_neq; lia). reflexivity. }
        rewrite Ev.
        destruct (Nat.eq_dec k t) as [->|Hne].
        + rewrite vset_same. apply back_row_ext. intros j Hj. rewrite vset_other by lia. reflexivity.
        + rewrite vset_other by exact Hne. rewrite IH by lia.
          apply back_row_ext. intros j Hj. rewrite vset_other by lia. reflexivity. }
    intros i Hi. apply HP. lia.
  Qed.
End Generic.

(* ======================================================================================== *)
(* Part B — binary64                                                                         *)
Local Open Scope R_scope.
Local Notation pfloat := PrimFloat.float.
Local Notation B64 := (binary_float FloatOps.prec FloatOps.emax).
Local Notation fexp64 := (SpecFloat.fexp FloatOps.prec FloatOps.emax).
Local Notation rnd64 := (round radix2 fexp64 ZnearestE).

(* ---- finite sums: Rsum_n (Proofs/Gauss.v) versus RsumN ---------------------------------- *)
Lemma Rsum_n_RsumN n f : Rsum_n n f = RsumN f n.
Proof. induction n as [|n IH]; [reflexivity|]. cbn [Rsum_n]. rewrite RsumN_S, IH. reflexivity. Qed.

Lemma RsumN_ext f g m : (forall k, (k < m)%nat -> f k = g k) -> RsumN f m = RsumN g m.
Proof.
  induction m as [|m IH]; intros H; [reflexivity|].
  rewrite !RsumN_S, IH, (H m) by (intros; try apply H; lia). reflexivity.
Qed.

Lemma RsumN_zero f m : (forall k, (k < m)%nat -> f k = 0) -> RsumN f m = 0.
Proof.
  induction m as [|m IH]; intros H; [reflexivity|].
  rewrite RsumN_S, IH, (H m) by (intros; try apply H; lia). ring.
Qed.

Lemma Rsum_n_split lo d F : Rsum_n (lo + d) F = Rsum_n lo F + RsumN (fun k => F (lo + k)%nat) d.
Proof.
  induction d as [|d IH].
  - rewrite Nat.add_0_r, RsumN_0. ring.
  - rewrite Nat.add_succ_r. cbn [Rsum_n]. rewrite IH, RsumN_S. ring.
Qed.

Lemma gam_mono a b : (a <= b)%nat -> (1 + feps) ^ a - 1 <= (1 + feps) ^ b - 1.
Proof.
  intros H. pose proof feps_pos.
  assert ((1 + feps) ^ a <= (1 + feps) ^ b) by (apply Rle_pow; [lra|exact H]). lra.
Qed.

(* ---- inverse relative error of one rounding:  t = round(t) * (1 + d),  |d| <= eps --------- *)
Lemma rnd64_inv_normal (t : R) : t = 0 \/ bpow radix2 (-1022) <= Rabs t ->
  exists d, Rabs d <= feps /\ t = rnd64 t * (1 + d).
Proof.
  intros [->|N].
  - exists 0. rewrite Rabs_R0, round_0 by apply valid_rnd_N. split; [apply Rlt_le, feps_pos|ring].
  - assert (E : rnd64 t = round radix2 (FLX_exp 53) ZnearestE t).
    { apply (round_FLT_FLX radix2 (-1074) 53). exact N. }
    rewrite E. rewrite <- u_ro_feps.
    apply (relative_error_N_round_ex_derive radix2 53 eq_refl).
    apply (relative_error_N_FLX'_ex radix2 53 eq_refl).
Qed.

Lemma rnd64_inv_minus (a x : B64) :
  exists d, Rabs d <= feps /\ B2R a - B2R x = rnd64 (B2R a - B2R x) * (1 + d).
Proof.
  rewrite <- u_ro_feps.
  apply (relative_error_N_round_ex_derive radix2 53 eq_refl).
  unfold Rminus.
  apply (@FLT_plus_error_N_ex radix2 (-1074) 53 (eq_refl : Prec_gt_0 53) (fun t => negb (Z.even t))).
  - apply (generic_format_B2R _ _ a).
  - apply generic_format_opp. apply (generic_format_B2R _ _ x).
Qed.

Lemma sub_finite_inv (u v : pfloat) :
  ffin u -> ffin v -> ffin (PrimFloat.sub u v) ->
  exists d, Rabs d <= feps /\ FR u - FR v = FR (PrimFloat.sub u v) * (1 + d).
Proof.
  unfold ffin, FR. intros Fu Fv Fs. rewrite sub_equiv in *.
  generalize (Bminus_correct FloatOps.prec FloatOps.emax Hprec Hmax mode_NE (Prim2B u) (Prim2B v) Fu Fv).
  destruct (Rlt_bool _ _).
  - intros [H _]. rewrite H. apply rnd64_inv_minus.
  - intros [H _]. rewrite <- is_finite_SF_B2SF, H in Fs. discriminate Fs.
Qed.

(* the division is finite, the divisor non-zero, the exact quotient zero or in the normal range *)
Definition okdiv (w d : pfloat) : Prop :=
  is_finite (Prim2B (PrimFloat.div w d)) = true /\ B2R (Prim2B d) <> 0 /\
  (B2R (Prim2B w) / B2R (Prim2B d) = 0 \/ bpow radix2 (-1022) <= Rabs (B2R (Prim2B w) / B2R (Prim2B d))).

Lemma div_finite_round (w d : pfloat) : FR d <> 0 -> ffin (PrimFloat.div w d) ->
  FR (PrimFloat.div w d) = rnd64 (FR w / FR d).
Proof.
  unfold ffin, FR. intros Hd F. rewrite div_equiv in *.
  generalize (Bdiv_correct FloatOps.prec FloatOps.emax Hprec Hmax mode_NE (Prim2B w) (Prim2B d) Hd).
  destruct (Rlt_bool _ _).
  - intros [H _]. exact H.
  - intros H. rewrite <- is_finite_SF_B2SF, H in F. discriminate F.
Qed.

Lemma div_finite_inv (w d : pfloat) : okdiv w d ->
  exists e, Rabs e <= feps /\ FR w = FR d * FR (PrimFloat.div w d) * (1 + e).
Proof.
  intros [F [Hd N]]. fold (FR w) (FR d) in *.
  rewrite (div_finite_round w d Hd F).
  destruct (rnd64_inv_normal (FR w / FR d) N) as [e [He E]].
  exists e. split; [exact He|].
  replace (FR d * rnd64 (FR w / FR d) * (1 + e)) with (FR d * (rnd64 (FR w / FR d) * (1 + e))) by ring.
  rewrite <- E. field. exact Hd.
Qed.

(* ---- the accumulation of products without underflow --------------------------------------- *)
Lemma facc_error_nounderflow (x y : nat -> pfloat) (n : nat) :
  (forall k, (k < n)%nat -> okmul (x k) (y k)) ->
  (forall m, (m <= n)%nat -> ffin (facc x y m)) ->
  Rabs (FR (facc x y n) - RsumN (fun k => FR (x k) * FR (y k)) n) <=
    ((1 + feps) ^ S n - 1) * RsumN (fun k => Rabs (FR (x k) * FR (y k))) n.
Proof.
  intros Hok Hs. rewrite facc_fsumN.
  set (p := fun k => PrimFloat.mul (x k) (y k)).
  set (t := fun k => FR (x k) * FR (y k)).
  assert (Hp : forall k, (k < n)%nat -> ffin (p k)) by (intros k Hk; apply (Hok k Hk)).
  pose proof (fsumN_error p n Hp Hs n (le_n n)) as E1.
  destruct (RsumN_perturb (fun k => FR (p k)) t feps 0 n) as [E2 E3].
  { intros k Hk. rewrite Rplus_0_r. destruct (okmul_rel _ _ (Hok k Hk)) as [_ [d [Hd E]]].
    unfold p, t. rewrite E. replace (FR (x k) * FR (y k) * (1 + d) - FR (x k) * FR (y k))
      with (d * (FR (x k) * FR (y k))) by ring.
    rewrite Rabs_mult. apply Rmult_le_compat_r; [apply Rabs_pos|exact Hd]. }
  rewrite Rmult_0_r, Rplus_0_r in E2, E3.
  pose proof feps_pos as Hu.
  pose proof (pow1p_ge1 feps n (Rlt_le _ _ Hu)) as HQ.
  pose proof (RsumN_abs_nonneg t n) as HA.
  change (RsumN (fun k => Rabs (FR (x k) * FR (y k))) n) with (RsumN (fun k => Rabs (t k)) n).
  set (Q := (1 + feps) ^ n) in *.
  set (A := RsumN (fun k => Rabs (t k)) n) in *.
  set (SP := RsumN (fun k => Rabs (FR (p k))) n) in *.
  rewrite <- tech_pow_Rmult. fold Q.
  replace (FR (fsumN p n) - RsumN t n)
    with ((FR (fsumN p n) - RsumN (fun k => FR (p k)) n) + (RsumN (fun k => FR (p k)) n - RsumN t n)) by ring.
  eapply Rle_trans; [apply Rabs_triang|].
  assert (E4 : (Q - 1) * SP <= (Q - 1) * ((1 + feps) * A)) by (apply Rmult_le_compat_l; lra).
  nra.
Qed.

(* ---- one row: xi = (beta - sum_k xs_k ys_k) / delta ------------------------------------- *)
Lemma row_residual (xs ys : nat -> pfloat) (m K : nat) (beta delta : pfloat) :
  (m + 2 <= K)%nat ->
  (forall k, (k < m)%nat -> okmul (xs k) (ys k)) ->
  (forall k, (k <= m)%nat -> ffin (facc xs ys k)) ->
  ffin beta ->
  ffin (PrimFloat.sub beta (facc xs ys m)) ->
  okdiv (PrimFloat.sub beta (facc xs ys m)) delta ->
  let xi := PrimFloat.div (PrimFloat.sub beta (facc xs ys m)) delta in
  ffin xi /\
  Rabs (RsumN (fun k => FR (xs k) * FR (ys k)) m + FR delta * FR xi - FR beta) <=
    ((1 + feps) ^ K - 1) * (RsumN (fun k => Rabs (FR (xs k) * FR (ys k))) m + Rabs (FR delta * FR xi)).
Proof.
  intros HK Hok Hs Fb Fw Hdiv xi. split; [apply Hdiv|].
  pose proof (facc_error_nounderflow xs ys m Hok Hs) as Es.
  destruct (sub_finite_inv beta (facc xs ys m) Fb (Hs m (le_n m)) Fw) as [d1 [Hd1 E1]].
  destruct (div_finite_inv _ _ Hdiv) as [d2 [Hd2 E2]]. fold xi in E2.
  set (S0 := RsumN (fun k => FR (xs k) * FR (ys k)) m) in *.
  set (A := RsumN (fun k => Rabs (FR (xs k) * FR (ys k))) m) in *.
  set (sh := FR (facc xs ys m)) in *. set (w := FR (PrimFloat.sub beta (facc xs ys m))) in *.
  set (dx := FR delta * FR xi) in *.
  assert (Eb : FR beta = sh + dx * (1 + d2) * (1 + d1)) by (rewrite <- E2; lra).
  rewrite Eb.
  replace (S0 + dx - (sh + dx * (1 + d2) * (1 + d1)))
    with (- (sh - S0) + - (dx * (d1 + d2 + d1 * d2))) by ring.
  eapply Rle_trans; [apply Rabs_triang|]. rewrite !Rabs_Ropp, Rabs_mult.
  pose proof feps_pos as Hu.
  pose proof (gam_mono (S m) K ltac:(lia)) as G1.
  pose proof (gam_mono 2 K ltac:(lia)) as G2.
  assert (HA : 0 <= A) by (unfold A; apply (RsumN_abs_nonneg (fun k => FR (xs k) * FR (ys k)) m)).
  pose proof (Rabs_pos dx) as Hdx.
  assert (T : Rabs (d1 + d2 + d1 * d2) <= (1 + feps) ^ 2 - 1).
  { pose proof (Rabs_triang (d1 + d2) (d1 * d2)). pose proof (Rabs_triang d1 d2).
    rewrite Rabs_mult in *. pose proof (Rabs_pos d1). pose proof (Rabs_pos d2).
    assert (Rabs d1 * Rabs d2 <= feps * feps) by (apply Rmult_le_compat; lra).
    cbn [pow]. nra. }
  set (G := (1 + feps) ^ K - 1) in *.
  assert (P1 : Rabs (sh - S0) <= G * A).
  { eapply Rle_trans; [exact Es|]. apply Rmult_le_compat_r; [exact HA|exact G1]. }
  assert (P2 : Rabs dx * Rabs (d1 + d2 + d1 * d2) <= Rabs dx * G).
  { apply Rmult_le_compat_l; [exact Hdx|]. lra. }
  lra.
Qed.

(* the bare division of the last row of back substitution *)
Lemma row_residual_div (K : nat) (beta delta : pfloat) :
  (1 <= K)%nat -> okdiv beta delta ->
  let xi := PrimFloat.div beta delta in
  ffin xi /\ Rabs (FR delta * FR xi - FR beta) <= ((1 + feps) ^ K - 1) * Rabs (FR delta * FR xi).
Proof.
  intros HK Hdiv xi. split; [apply Hdiv|].
  destruct (div_finite_inv _ _ Hdiv) as [d [Hd E]]. fold xi in E. rewrite E.
  replace (FR delta * FR xi - FR delta * FR xi * (1 + d)) with (- (FR delta * FR xi * d)) by ring.
  rewrite Rabs_Ropp, Rabs_mult. rewrite (Rmult_comm ((1 + feps) ^ K - 1)).
  apply Rmult_le_compat_l; [apply Rabs_pos|].
  eapply Rle_trans; [exact Hd|]. pose proof (gam_mono 1 K HK) as G. cbn [pow] in G. lra.
Qed.

Lemma sum_range_facc_f lo len (xa ya : nat -> pfloat) :
  @sum_range pfloat FNum n0 lo len (fun j => PrimFloat.mul (xa j) (ya j))
  = facc (fun k => xa (lo + k)%nat) (fun k => ya (lo + k)%nat) len.
Proof. exact (sum_range_facc lo len xa ya). Qed.

(* ======================================================================================== *)
(* Part C — the routines                                                                     *)

(* hypotheses on row i of forward substitution, stated on the returned vector x *)
Definition fwd_row_ok (a : mat PrimFloat.float) (b x : vec PrimFloat.float) (i : nat) : Prop :=
  let s := fun k => sum_range n0 0 k (fun j => PrimFloat.mul (a i j) (x j)) in
  is_finite (Prim2B (b i)) = true /\
  (forall j, (j < i)%nat -> okmul (a i j) (x j)) /\
  (forall k, (k <= i)%nat -> is_finite (Prim2B (s k)) = true) /\
  is_finite (Prim2B (PrimFloat.sub (b i) (s i))) = true /\
  okdiv (PrimFloat.sub (b i) (s i)) (a i i).

(* ... of back substitution (n = size); the last row is a bare division *)
Definition back_row_ok (a : mat PrimFloat.float) (n : nat) (b x : vec PrimFloat.float) (i : nat) : Prop :=
  if (S i =? n)%nat then okdiv (b i) (a i i)
  else
    let s := fun k => sum_range n0 (S i) k (fun j => PrimFloat.mul (a i j) (x j)) in
    is_finite (Prim2B (b i)) = true /\
    (forall j, (i < j < n)%nat -> okmul (a i j) (x j)) /\
    (forall k, (k <= n - S i)%nat -> is_finite (Prim2B (s k)) = true) /\
    is_finite (Prim2B (PrimFloat.sub (b i) (s (n - S i)%nat))) = true /\
    okdiv (PrimFloat.sub (b i) (s (n - S i)%nat)) (a i i).

Theorem forward_substitution_float_error : forall (n : nat) (a : mat PrimFloat.float) (b s0 : vec PrimFloat.float),
  (forall i, (i < n)%nat -> fwd_row_ok a b (forward_substitution a n b s0) i) ->
  forall i, (i < n)%nat ->
    is_finite (Prim2B (forward_substitution a n b s0 i)) = true /\
    Rabs (Rsum_n n (fun j => (if (i <? j)%nat then 0 else B2R (Prim2B (a i j)))
                             * B2R (Prim2B (forward_substitution a n b s0 j)))
          - B2R (Prim2B (b i)))
    <= ((1 + bpow radix2 (-53)) ^ (n + 1) - 1)
       * Rsum_n n (fun j => Rabs (if (i <? j)%nat then 0 else B2R (Prim2B (a i j)))
                            * Rabs (B2R (Prim2B (forward_substitution a n b s0 j)))).
Proof.
  intros n a b s0 Hok i Hi.
  set (x := forward_substitution a n b s0) in *.
  destruct (Hok i Hi) as [Fb [Hmul [Hsum [Fw Hdiv]]]].
  rewrite (sum_range_facc_f 0 i (fun j => a i j) x) in Fw, Hdiv. cbn [plus] in Fw, Hdiv.
  destruct (row_residual (fun j => a i j) x i (n + 1) (b i) (a i i)) as [Fx R]; try assumption.
  - lia.
  - intros k Hk. specialize (Hsum k Hk).
    rewrite (sum_range_facc_f 0 k (fun j => a i j) x) in Hsum. exact Hsum.
  - assert (Ex : x i = PrimFloat.div (PrimFloat.sub (b i) (facc (fun j => a i j) x i)) (a i i)).
    { unfold x at 1. rewrite (forward_fixpoint a n b s0 i Hi). fold x. unfold fwd_row.
      rewrite (sum_range_facc 0 i (fun j => a i j) x). reflexivity. }
    rewrite <- Ex in Fx, R. split; [exact Fx|].
    fold feps. fold (FR (b i)).
    replace n with (S i + (n - S i))%nat at 1 3 by lia. rewrite !Rsum_n_split.
    rewrite (RsumN_zero (fun k => (if (i <? S i + k)%nat then 0 else B2R (Prim2B (a i (S i + k)%nat))) * _)).
    2:{ intros k _. replace (i <? S i + k)%nat with true by (symmetry; apply Nat.ltb_lt; lia). ring. }
    rewrite (RsumN_zero (fun k => Rabs (if (i <? S i + k)%nat then 0 else B2R (Prim2B (a i (S i + k)%nat))) * _)).
    2:{ intros k _. replace (i <? S i + k)%nat with true by (symmetry; apply Nat.ltb_lt; lia).
        rewrite Rabs_R0. ring. }
    cbn [Rsum_n]. rewrite Nat.ltb_irrefl, !Rplus_0_r, !Rsum_n_RsumN.
    rewrite (RsumN_ext _ (fun k => FR (a i k) * FR (x k)) i).
    2:{ intros k Hk. replace (i <? k)%nat with false by (symmetry; apply Nat.ltb_ge; lia). reflexivity. }
    rewrite (RsumN_ext (fun j => Rabs (if (i <? j)%nat then 0 else B2R (Prim2B (a i j))) * _)
                       (fun k => Rabs (FR (a i k) * FR (x k))) i).
    2:{ intros k Hk. replace (i <? k)%nat with false by (symmetry; apply Nat.ltb_ge; lia).
        rewrite Rabs_mult. reflexivity. }
    rewrite <- Rabs_mult. exact R.
Qed.

Theorem back_substitution_float_error : forall (n : nat) (a : mat PrimFloat.float) (b s0 : vec PrimFloat.float),
  (0 < n)%nat ->
  exists x, back_substitution a n b s0 = Ok x /\
  ((forall i, (i < n)%nat -> back_row_ok a n b x i) ->
   forall i, (i < n)%nat ->
    is_finite (Prim2B (x i)) = true /\
    Rabs (Rsum_n n (fun j => (if (j <? i)%nat then 0 else B2R (Prim2B (a i j))) * B2R (Prim2B (x j)))
          - B2R (Prim2B (b i)))
    <= ((1 + bpow radix2 (-53)) ^ (n + 1) - 1)
       * Rsum_n n (fun j => Rabs (if (j <? i)%nat then 0 else B2R (Prim2B (a i j))) * Rabs (B2R (Prim2B (x j))))).
Proof.
  intros n a b s0 Hn.
  destruct (back_fixpoint a n b s0 Hn) as [x [E Hfix]].
  exists x. split; [exact E|]. intros Hok i Hi.
  fold feps. fold (FR (b i)).
  (* the masked full sums: nothing below i, the diagonal term, the tail *)
  assert (Split : forall F : nat -> R, (forall j, (j < i)%nat -> F j = 0) ->
            Rsum_n n F = F i + RsumN (fun k => F (S i + k)%nat) (n - S i)).
  { intros F HF. replace n with (S i + (n - S i))%nat at 1 by lia. rewrite Rsum_n_split.
    cbn [Rsum_n]. rewrite (Rsum_n_zero i F HF). ring. }
  rewrite (Split (fun j => (if (j <? i)%nat then 0 else B2R (Prim2B (a i j))) * B2R (Prim2B (x j)))).
  2:{ intros j Hj. replace (j <? i)%nat with true by (symmetry; apply Nat.ltb_lt; lia). ring. }
  rewrite (Split (fun j => Rabs (if (j <? i)%nat then 0 else B2R (Prim2B (a i j))) * Rabs (B2R (Prim2B (x j))))).
  2:{ intros j Hj. replace (j <? i)%nat with true by (symmetry; apply Nat.ltb_lt; lia). rewrite Rabs_R0. ring. }
  rewrite Nat.ltb_irrefl.
  rewrite (RsumN_ext _ (fun k => FR (a i (S i + k)%nat) * FR (x (S i + k)%nat)) (n - S i)).
  2:{ intros k Hk. replace (S i + k <? i)%nat with false by (symmetry; apply Nat.ltb_ge; lia). reflexivity. }
  rewrite (RsumN_ext (fun k => Rabs (if (S i + k <? i)%nat then 0 else B2R (Prim2B (a i (S i + k)%nat))) * _)
                     (fun k => Rabs (FR (a i (S i + k)%nat) * FR (x (S i + k)%nat))) (n - S i)).
  2:{ intros k Hk. replace (S i + k <? i)%nat with false by (symmetry; apply Nat.ltb_ge; lia).
      rewrite Rabs_mult. reflexivity. }
  rewrite <- Rabs_mult. fold (FR (a i i)) (FR (x i)).
  specialize (Hok i Hi). specialize (Hfix i Hi).
  unfold back_row_ok in Hok. unfold back_row in Hfix.
  destruct (S i =? n)%nat eqn:En.
  - (* last row *)
    apply Nat.eqb_eq in En. replace (n - S i)%nat with 0%nat by lia. rewrite !RsumN_0, !Rplus_0_r.
    destruct (row_residual_div (n + 1) (b i) (a i i)) as [Fx R]; [lia|exact Hok|].
    change (ndiv (b i) (a i i)) with (PrimFloat.div (b i) (a i i)) in Hfix.
    rewrite <- Hfix in Fx, R. split; [exact Fx|exact R].
  - apply Nat.eqb_neq in En.
    destruct Hok as [Fb [Hmul [Hsum [Fw Hdiv]]]].
    rewrite (sum_range_facc_f (S i) (n - S i) (fun j => a i j) x) in Fw, Hdiv.
    destruct (row_residual (fun k => a i (S i + k)%nat) (fun k => x (S i + k)%nat) (n - S i) (n + 1) (b i) (a i i))
      as [Fx R]; try assumption.
    + lia.
    + intros k Hk. apply Hmul. lia.
    + intros k Hk. specialize (Hsum k Hk).
      rewrite (sum_range_facc_f (S i) k (fun j => a i j) x) in Hsum. exact Hsum.
    + assert (Ex : x i = PrimFloat.div (PrimFloat.sub (b i)
                       (facc (fun k => a i (S i + k)%nat) (fun k => x (S i + k)%nat) (n - S i))) (a i i)).
      { rewrite Hfix at 1. rewrite (sum_range_facc (S i) (n - S i) (fun j => a i j) x). reflexivity. }
      rewrite <- Ex in Fx, R. split; [exact Fx|].
      replace (FR (a i i) * FR (x i) + RsumN (fun k => FR (a i (S i + k)%nat) * FR (x (S i + k)%nat)) (n - S i))
        with (RsumN (fun k => FR (a i (S i + k)%nat) * FR (x (S i + k)%nat)) (n - S i) + FR (a i i) * FR (x i)) by ring.
      rewrite (Rplus_comm (Rabs (FR (a i i) * FR (x i)))). exact R.
Qed.

(* ---- discharging the hypotheses by computation --------------------------------------------- *)
Lemma leb_two_m1021 (y : pfloat) : PrimFloat.is_finite y = true ->
  PrimFloat.leb two_m1021 (PrimFloat.abs y) = true -> bpow radix2 (-1021) <= Rabs (FR y).
Proof.
  intros F L. rewrite is_finite_equiv in F.
  rewrite leb_equiv, abs_equiv in L.
  rewrite Bleb_correct in L; [|apply FR_two_m1021|rewrite is_finite_Babs; exact F].
  rewrite B2R_Babs in L. fold (FR two_m1021) (FR y) in L. rewrite (proj1 FR_two_m1021) in L.
  destruct (Rle_bool_spec (bpow radix2 (-1021)) (Rabs (FR y))) as [Hle|]; [exact Hle|discriminate L].
Qed.

Lemma normal_from_rounded (t : R) : bpow radix2 (-1021) <= Rabs (rnd64 t) -> bpow radix2 (-1022) <= Rabs t.
Proof.
  intros Hle. pose proof (rnd64_abs_le t) as Hr. pose proof feps_pos as Hu.
  assert (W1 : bpow radix2 (-1021) = 2 * bpow radix2 (-1022)).
  { change (-1021)%Z with (1 + -1022)%Z. rewrite bpow_plus. reflexivity. }
  assert (W2 : feta = feps * bpow radix2 (-1022)).
  { unfold feta, feps. rewrite <- bpow_plus. reflexivity. }
  assert (Hw : 0 < bpow radix2 (-1022)) by apply bpow_gt_0.
  assert (He : feps <= / 2).
  { unfold feps. change (/ 2) with (bpow radix2 (-1)). apply bpow_le. lia. }
  set (w := bpow radix2 (-1022)) in *. set (T := Rabs t) in *.
  assert (0 <= T) by apply Rabs_pos.
  destruct (Rle_or_lt w T) as [|Hlt]; [assumption|exfalso].
  assert (feps * T <= feps * w) by (apply Rmult_le_compat_l; lra).
  assert (feps * w <= / 2 * w) by (apply Rmult_le_compat_r; lra).
  lra.
Qed.

(* quotient finite and >= 2^-1021 in magnitude, divisor finite and >= 2^-1021 in magnitude *)
Lemma okdiv_by_leb (w d : pfloat) :
  PrimFloat.is_finite (PrimFloat.div w d) = true ->
  PrimFloat.leb two_m1021 (PrimFloat.abs (PrimFloat.div w d)) = true ->
  PrimFloat.is_finite d = true ->
  PrimFloat.leb two_m1021 (PrimFloat.abs d) = true ->
  okdiv w d.
Proof.
  intros F L Fd Ld.
  pose proof (leb_two_m1021 _ Fd Ld) as Hd.
  assert (Hd0 : FR d <> 0).
  { intros Z. rewrite Z, Rabs_R0 in Hd. pose proof (bpow_gt_0 radix2 (-1021)). lra. }
  pose proof (leb_two_m1021 _ F L) as Hq.
  rewrite is_finite_equiv in F. fold (ffin (PrimFloat.div w d)) in F.
  rewrite (div_finite_round w d Hd0 F) in Hq.
  split; [exact F|]. split; [exact Hd0|]. right. apply normal_from_rounded. exact Hq.
Qed.

(* ---- non-vacuity: 3x3 triangular systems, checked by computation --------------------------- *)
(* L = [[2,0,0],[0.5,-4,0],[0.1,3,1.5]], U = L^T, b = [1, 2.5, -0.3] *)
Definition ex_l : mat PrimFloat.float :=
  mat_of_lists [[0x1p+1; 0; 0]; [0x1p-1; -0x1p+2; 0]; [0x1.999999999999ap-4; 0x1.8p+1; 0x1.8p+0]]%float.
Definition ex_u : mat PrimFloat.float := fun i j => ex_l j i.
Definition ex_rhs : vec PrimFloat.float := vec_of_list [0x1p+0; 0x1.4p+1; -0x1.3333333333333p-2]%float.
Definition ex_s0 : vec PrimFloat.float := fun _ => PrimFloat.zero.

Ltac fin_compute := rewrite <- is_finite_equiv; vm_compute; reflexivity.
Ltac okmul_compute := apply okmul_by_leb; vm_compute; reflexivity.
Ltac okdiv_compute := apply okdiv_by_leb; vm_compute; reflexivity.

Example ex_forward_hyps :
  forall i, (i < 3)%nat -> fwd_row_ok ex_l ex_rhs (forward_substitution ex_l 3 ex_rhs ex_s0) i.
Proof.
  intros i Hi. destruct i as [|[|[|i]]]; try lia;
  (split; [fin_compute|]; split;
   [intros j Hj; destruct j as [|[|j]]; try lia; okmul_compute|]; split;
   [intros k Hk; destruct k as [|[|[|k]]]; try lia; fin_compute|]; split;
   [fin_compute|okdiv_compute]).
Qed.

Example ex_back_hyps : exists x, back_substitution ex_u 3 ex_rhs ex_s0 = Ok x /\
  forall i, (i < 3)%nat -> back_row_ok ex_u 3 ex_rhs x i.
Proof.
  eexists. split; [reflexivity|].
  intros i Hi. destruct i as [|[|[|i]]]; try lia; unfold back_row_ok; cbn [Nat.eqb];
  try okdiv_compute;
  (split; [fin_compute|]; split;
   [intros j Hj; destruct j as [|[|[|j]]]; try lia; okmul_compute|]; split;
   [intros k Hk; cbn [Nat.sub] in Hk; destruct k as [|[|[|k]]]; try lia; fin_compute|]; split;
   [fin_compute|okdiv_compute]).
Qed.

Example ex_forward_error : forall i, (i < 3)%nat ->
  Rabs (Rsum_n 3 (fun j => (if (i <? j)%nat then 0 else B2R (Prim2B (ex_l i j)))
                           * B2R (Prim2B (forward_substitution ex_l 3 ex_rhs ex_s0 j)))
        - B2R (Prim2B (ex_rhs i)))
  <= ((1 + bpow radix2 (-53)) ^ 4 - 1)
     * Rsum_n 3 (fun j => Rabs (if (i <? j)%nat then 0 else B2R (Prim2B (ex_l i j)))
                          * Rabs (B2R (Prim2B (forward_substitution ex_l 3 ex_rhs ex_s0 j)))).
Proof.
  intros i Hi. exact (proj2 (forward_substitution_float_error 3 ex_l ex_rhs ex_s0 ex_forward_hyps i Hi)).
Qed.
