(* Proofs/ExprRoundTripNum.v — C19, clause 4 with NUMBERS: Display (Expr::render) inverts lexer + implied
   multiplication + parse_expr on trees that contain number leaves, including every shorthand form of render
   (4x, 2π, 5x^2, 4(x + 1)^2, x2, π2, x^2, π^2), under a hypothesis on the number printer [fmt] alone:

     num_ok fmt v  :=  parse_unsigned_dec (fmt v) = Some v

   — the text printed for v is read back as v by the lexer's number reader (Rust: the `{}` text of the f64 parses
   to the same f64).  The hypothesis is demanded only of the numbers that OCCUR in the tree ([nums e]).  It can hold
   only for v >= 0 of the form m * 10^k (what the lexer produces); the parser and the fold never produce any other
   number (the fold creates only 0, 1 and prefix minus), so this is the class of trees the parser returns.
   A negative number leaf is outside the class — and there the round trip is really false: x * (-3) is printed x-3.

   Result: the printed text is accepted by the lexer, implied multiplication and parse_expr read it back as a tree
   X with the SAME VALUE as e at every point (defined or not); [reread] (= with the final fold) returns foldS X,
   which has the value of e wherever e has one (the fold may only extend the domain: 0 * (1/0) is printed
   "0 * (1 / 0)" and folded to 0 when read back).  If no number of e is 0 or 1 the fold does nothing and the two
   statements coincide. *)
From Coq Require Import ZArith NArith List Bool Reals Lra Lia.
From SV Require Import Base.Num Base.Outcome Base.Str Model.Expr Model.RefExpr
  Proofs.ExprTotal Proofs.ExprFold Proofs.ExprRead Proofs.ExprReadJuxt Proofs.ExprDisplay Proofs.ExprRoundTrip.
Import ListNotations.
Local Open Scope res_scope.

(* ---- 1. the trees, and the tokens of their text ---------------------------------------------------------- *)
(* the shape the parser produces, now with number leaves *)
Fixpoint wfn (e : tree) : bool :=
  match e with
  | ENum _ => true
  | EVar v => var_ok v
  | EConst _ => true
  | EFun _ i => wfn i
  | EPre o v => oper_eqb o OSub && wfn v
  | EPost o v => oper_eqb o OFac && wfn v
  | EBin o l r _ => binop_okR o && wfn l && wfn r
  end.

Fixpoint nums (e : tree) : list R :=
  match e with
  | ENum x => [x]
  | EVar _ | EConst _ => []
  | EFun _ i => nums i
  | EPre _ v | EPost _ v => nums v
  | EBin _ l r _ => nums l ++ nums r
  end.

Definition is_tnum (t : tok) : bool := match t with TNum _ => true | _ => false end.
Definition hd_num (ts : list tok) : bool := match ts with t :: _ => is_tnum t | [] => false end.

(* Expr::shorthand for products: number·variable, number·constant, number·power (unless the text of the power
   starts with a digit: [hn]), variable·number, constant·number *)
Definition juxt_with (hn : bool) (o : oper) (l r : tree) : bool :=
  match o with
  | OMul =>
    match l, r with
    | ENum _, EVar _ | ENum _, EConst _ | EVar _, ENum _ | EConst _, ENum _ => true
    | ENum _, EBin OCaret _ _ _ => negb hn
    | _, _ => false
    end
  | _ => false
  end.

(* does the text of e, printed for minimum binding power m, start with a number? *)
Fixpoint hdn (e : tree) (m : nat) : bool :=
  match e with
  | ENum _ => true
  | EPost _ v => negb (needs_group v) && hdn v 0
  | EBin o l r p =>
    let ot := if juxt_with (hdn r 5) o l r then OCDot else o in
    negb (p || (binding_pow ot <? m)%nat) && negb (lhs_group ot l) && hdn l (binding_pow ot)
  | _ => false
  end.

Definition juxt (o : oper) (l r : tree) : bool := juxt_with (hdn r 5) o l r.
(* the operator token between the operands: the implied · of a shorthand product *)
Definition tokop (o : oper) (l r : tree) : oper := if juxt o l r then OCDot else o.
Definition norm (ot : oper) : oper := if oper_eqb ot OCDot then OMul else ot.

(* the tokens of render e m: [cd = false] as the lexer gives them, [cd = true] after implied multiplication *)
Fixpoint rtx (cd : bool) (e : tree) (m : nat) : list tok :=
  match e with
  | ENum x => [TNum x]
  | EVar v => [TVar v]
  | EConst c => [TConst c]
  | EFun fn i => TFun fn :: TLParen :: rtx cd i 0 ++ [TRParen]
  | EPre o v => TOp o :: rtx cd v (Nat.max m 2)
  | EPost o v => wrapt (needs_group v) (rtx cd v 0) ++ [TOp o]
  | EBin o l r p =>
    let ot := tokop o l r in
    wrapt (p || (binding_pow ot <? m)%nat)
          (wrapt (lhs_group ot l) (rtx cd l (if lhs_group ot l then 0 else binding_pow ot))
           ++ (if negb cd && juxt o l r then [] else [TOp ot]) ++ rtx cd r (binding_pow ot + 1))
  end.

Lemma juxt_shape o l r : juxt o l r = true ->
  o = OMul /\ is_preR l = false /\
  ((exists x, l = ENum x) /\ ((exists v, r = EVar v) \/ (exists c, r = EConst c) \/
                               (exists a b p, r = EBin OCaret a b p /\ hdn r 5 = false))
   \/ ((exists v, l = EVar v) \/ (exists c, l = EConst c)) /\ exists x, r = ENum x).
Proof.
  unfold juxt, juxt_with. intros H.
  destruct o; try discriminate.
  destruct l as [x|v|c|fn i|o1 s|o1 s|o1 l1 l2 p1]; try discriminate;
    destruct r as [y|w|d|g j|o2 t|o2 t|o2 r1 r2 p2]; try discriminate;
    (split; [reflexivity|split; [reflexivity|]]); eauto 8.
  destruct o2; try discriminate. apply negb_true_iff in H.
  left. split; [eauto|]. right. right. exists r1, r2, p2. split; [reflexivity|exact H].
Qed.

Lemma norm_tokop o l r : binop_okR o = true -> norm (tokop o l r) = o /\ tokop o l r <> OFac.
Proof.
  intros Ho. unfold tokop. destruct (juxt o l r) eqn:E.
  - destruct (juxt_shape _ _ _ E) as (-> & _). split; [reflexivity|discriminate].
  - destruct o; try discriminate; split; try reflexivity; discriminate.
Qed.

Lemma rtx_nonempty cd : forall (e : tree) m, rtx cd e m <> [].
Proof.
  induction e as [x|v|c|fn i IH|o s IH|o s IH|o l IHl r IHr p]; intros m; cbn [rtx]; try discriminate.
  - destruct (wrapt (needs_group s) (rtx cd s 0)); discriminate.
  - destruct (p || (binding_pow (tokop o l r) <? m)%nat); cbn [wrapt app]; [discriminate|].
    destruct (lhs_group (tokop o l r) l); cbn [wrapt app]; [discriminate|].
    intros H. apply app_eq_nil in H as [H _]. exact (IHl _ H).
Qed.

(* ---- 2. parse_expr on the tokens (after implied multiplication) ------------------------------------------- *)
Notation rtn := (rtx true).

Definition Gn (e : tree) : Prop :=
  forall m m' rest f Y r',
    m' <= m -> follows m rest ->
    (primary e = false -> head_not_fac rest) ->
    (is_preR e = true -> (m' = m \/ m <= 2) /\ (hd_eq m rest -> m <= 2)) ->
    K f e rest m' = Ok (Y, r') ->
    exists F X, parse_expr F (rtn e m ++ rest) m' = Ok (X, r') /\ deq X Y.

Lemma groupn (v : tree) rest : Gn v ->
  exists F X, parse_expr F (rtn v 0 ++ TRParen :: rest) 0 = Ok (X, TRParen :: rest) /\ deq X v.
Proof.
  intros HG.
  destruct (HG 0 0 (TRParen :: rest) 1 v (TRParen :: rest) (le_n _) I (fun _ => I)) as (F & X & HP & HX).
  - intros _. split; [left; reflexivity|intros []].
  - apply (K_stop 0 v (TRParen :: rest) 0 I I) || (change 0 with (0 + 0) at 2).
  - exists F, X. split; assumption.
Qed.

Lemma paren_phrasen F (v X : tree) rest bp :
  parse_expr F (rtn v 0 ++ TRParen :: rest) 0 = Ok (X, TRParen :: rest) ->
  prefix_part F (TLParen :: rtn v 0 ++ TRParen :: rest) bp = Ok (set_paren X, rest).
Proof. intros H. cbn [prefix_part]. rewrite H. reflexivity. Qed.

Lemma rtx_primary cd (v : tree) m : needs_group v = false -> rtx cd v m = rtx cd v 0.
Proof.
  destruct v as [x|s|c|fn i|o s|o s|o l r p]; cbn [needs_group rtx]; try reflexivity; try discriminate.
  destruct p; [reflexivity|discriminate].
Qed.

(* the core of a binary operation, printed without parentheses; [ot] is the operator token (· for a shorthand) *)
Lemma bin_coren ot (l r : tree) : Gn l -> Gn r -> ot <> OFac ->
  forall m0 m0' rest0 f Y r',
    m0' <= m0 -> m0 <= binding_pow ot -> follows m0 rest0 -> head_not_fac rest0 ->
    K f (EBin (norm ot) l r false) rest0 m0' = Ok (Y, r') ->
    exists F X,
      parse_expr F ((wrapt (lhs_group ot l) (rtn l (if lhs_group ot l then 0 else binding_pow ot))
                     ++ [TOp ot] ++ rtn r (binding_pow ot + 1)) ++ rest0) m0' = Ok (X, r') /\ deq X Y.
Proof.
  intros Gl Gr Ho m0 m0' rest0 f Y r' Hm' Hm Hfo Hnf HK.
  set (c := binding_pow ot) in *. set (o := norm ot) in *.
  rewrite (K_nofac _ _ _ _ Hnf) in HK.
  (* the right operand *)
  assert (Hfo' : follows (c + 1) rest0).
  { destruct rest0 as [|[| |o'| | | |] r0]; cbn in *; auto. lia. }
  destruct (Gr (c + 1) (c + 1) rest0 1 r rest0 (le_n _) Hfo' (fun _ => Hnf)) as (Fr & Xr & HPr & HXr).
  { intros _. split; [left; reflexivity|].
    destruct rest0 as [|[| |o'| | | |] r0]; cbn in *; try contradiction. lia. }
  { assert (Hc : follows c rest0) by (destruct rest0 as [|[| |o'| | | |] r0]; cbn in *; auto; lia).
    apply (K_stop 0 r rest0 c Hc Hnf). }
  (* the loop from l over [ot r ...] *)
  destruct (loop_congr f _ _ (EBin o l Xr false) _ _ _ _
              (deq_bin o l l r Xr false false (deq_refl l) (deq_sym _ _ HXr)) HK) as (Y2 & HK2 & HY2).
  set (F1 := Nat.max f Fr).
  set (restL := TOp ot :: rtn r (c + 1) ++ rest0).
  assert (HKl : K (S F1) l restL m0' = Ok (Y2, r')).
  { assert (Hnfl : head_not_fac restL) by (unfold restL; destruct ot; try exact I; contradiction).
    rewrite (K_nofac _ _ _ _ Hnfl). unfold restL. cbn [bin_loop]. fold c.
    replace (c <? m0')%nat with false by (symmetry; apply Nat.ltb_ge; lia).
    rewrite (parse_expr_more _ (S F1) _ _ _ HPr) by (unfold F1; lia). cbn [bind].
    fold (norm ot). fold o.
    rewrite <- HK2. apply bin_loop_mono; [|rewrite HK2; intros w; discriminate|unfold F1; lia].
    intros ts0 bp0 H0. apply parse_expr_mono; [exact H0|unfold F1; lia]. }
  (* the left operand *)
  destruct (lhs_group ot l) eqn:Eg; cbn [wrapt].
  - (* a prefix minus in parentheses *)
    destruct (groupn l restL Gl) as (Fl & Xl & HPl & HXl).
    destruct (K_congr (S F1) l (set_paren Xl) restL m0' Y2 r'
                (deq_sym _ _ (deq_trans _ _ _ (deq_set_paren Xl) HXl)) HKl) as (Y3 & HK3 & HY3).
    set (F2 := Nat.max (S F1) Fl).
    exists (S F2), Y3. split; [|apply (deq_trans _ _ _ (deq_sym _ _ HY3) (deq_sym _ _ HY2))].
    repeat rewrite <- app_assoc. cbn [app]. fold c restL.
    apply (parse_from_prefix F2 _ _ (set_paren Xl) restL).
    + apply paren_phrasen. apply (parse_expr_more _ F2 _ _ _ HPl). unfold F2; lia.
    + apply (K_more _ F2 _ _ _ _ HK3). unfold F2; lia.
  - (* printed as it is *)
    destruct (Gl c m0' restL (S F1) Y2 r') as (F & X & HP & HX); try assumption.
    + lia.
    + unfold restL. cbn. fold c. lia.
    + intros _. unfold restL. destruct ot; try exact I; contradiction.
    + intros Hp. unfold lhs_group in Eg. rewrite Hp in Eg. cbn [andb] in Eg. fold c in Eg.
      apply Nat.ltb_ge in Eg. split; [right; exact Eg|intros _; exact Eg].
    + exists F, X. split; [|apply (deq_trans _ _ _ HX (deq_sym _ _ HY2))].
      repeat rewrite <- app_assoc. cbn [app]. fold c restL. exact HP.
Qed.

Lemma render_inverse_num : forall e : tree, wfn e = true -> Gn e.
Proof.
  induction e as [x|v|c|fn i IH|o s IH|o s IH|o l IHl r IHr p]; intros Hwf;
    intros m m' rest f Y r' Hm Hfo Hprim Hpre HK.
  - (* number *)
    destruct f as [|f]; [unfold K in HK; destruct (strip_fac (ENum x) rest); discriminate|].
    exists (S (S f)), Y. split; [|apply deq_refl]. apply (parse_from_prefix (S f) _ _ (ENum x) rest); [reflexivity|exact HK].
  - (* variable *)
    destruct f as [|f]; [unfold K in HK; destruct (strip_fac (EVar v) rest); discriminate|].
    exists (S (S f)), Y. split; [|apply deq_refl]. apply (parse_from_prefix (S f) _ _ (EVar v) rest); [reflexivity|exact HK].
  - (* constant *)
    destruct f as [|f]; [unfold K in HK; destruct (strip_fac (EConst c) rest); discriminate|].
    exists (S (S f)), Y. split; [|apply deq_refl]. apply (parse_from_prefix (S f) _ _ (EConst c) rest); [reflexivity|exact HK].
  - (* function *)
    cbn [wfn] in Hwf. destruct (groupn i rest (IH Hwf)) as (Fi & Xi & HPi & HXi).
    destruct (K_congr f (EFun fn i) (EFun fn Xi) rest m' Y r' (deq_fun fn _ _ (deq_sym _ _ HXi)) HK) as (Y2 & HK2 & HY2).
    set (F := Nat.max f Fi). exists (S F), Y2. split; [|apply deq_sym; exact HY2].
    cbn [rtx app]. rewrite <- app_assoc. cbn [app].
    apply (parse_from_prefix F _ _ (EFun fn Xi) rest).
    + cbn [prefix_part]. rewrite (parse_expr_more _ F _ _ _ HPi) by (unfold F; lia). reflexivity.
    + apply (K_more _ F _ _ _ _ HK2). unfold F; lia.
  - (* prefix minus *)
    cbn [wfn] in Hwf. apply andb_prop in Hwf as [Ho Hs]. destruct o; try discriminate. clear Ho.
    specialize (Hprim eq_refl). destruct (Hpre eq_refl) as (Hmm & Hhd). clear Hpre.
    rewrite (K_nofac _ _ _ _ Hprim) in HK.
    set (M := Nat.max m 2). set (M' := Nat.max m' 2).
    destruct (loop_split f f (EPre OSub s) rest m' M' Y r' (Nat.le_max_l m' 2) HK) as (Y1 & r1 & HL1 & HL2).
    destruct (loop_neg f f (EPre OSub s) s rest M' Y1 r1 (fun rho => eq_refl) (Nat.le_max_r m' 2)
                (hd_ok_for_neg m m' rest Hfo Hmm Hhd) HL1) as (YA & HLA & HYA).
    assert (HKs : K f s rest M' = Ok (YA, r1)) by (rewrite (K_nofac _ _ _ _ Hprim); exact HLA).
    destruct (IH Hs M M' rest f YA r1) as (F & X1 & HP1 & HX1); try assumption.
    + unfold M, M'. lia.
    + destruct rest as [|[| |o'| | | |] r0]; cbn in *; auto. unfold M. lia.
    + intros _. exact Hprim.
    + intros _. split.
      * unfold M, M'. destruct Hmm as [->|Hle]; [left; reflexivity|right; lia].
      * intros He. assert (Hm2 : 2 <= m).
        { destruct rest as [|[| |o'| | | |] r0]; cbn in *; try contradiction. unfold M in He. lia. }
        assert (He' : hd_eq m rest).
        { destruct rest as [|[| |o'| | | |] r0]; cbn in *; try contradiction. unfold M in He. lia. }
        specialize (Hhd He'). unfold M. lia.
    + pose proof (parse_expr_head _ _ _ _ _ HP1) as Hh1.
      assert (Hd : deq Y1 (EPre OSub X1)).
      { intros rho. rewrite HYA. cbn [denote]. rewrite (HX1 rho). reflexivity. }
      destruct (loop_congr f _ Y1 (EPre OSub X1) r1 m' Y r' Hd HL2) as (Y3 & HL3 & HY3).
      set (F' := Nat.max f F). exists (S F'), Y3. split; [|apply deq_sym; exact HY3].
      cbn [rtx]. fold M. cbn [app].
      apply (parse_from_prefix F' _ _ (EPre OSub X1) r1).
      * cbn [prefix_part oper_eqb]. unfold BP_PREFIX_MINUS. fold M'.
        rewrite (parse_expr_more _ F' _ _ _ HP1) by (unfold F'; lia). reflexivity.
      * rewrite (K_nofac _ _ _ _ (head_ok_not_fac _ _ Hh1)).
        rewrite <- HL3. apply bin_loop_mono; [|rewrite HL3; intros w; discriminate|unfold F'; lia].
        intros ts0 bp0 H0. apply parse_expr_mono; [exact H0|unfold F'; lia].
  - (* factorial *)
    cbn [wfn] in Hwf. apply andb_prop in Hwf as [Ho Hs]. destruct o; try discriminate. clear Ho.
    cbn [rtx]. destruct (needs_group s) eqn:Eg; cbn [wrapt].
    + (* (...)! *)
      destruct (groupn s (TOp OFac :: rest) (IH Hs)) as (Fs & Xs & HPs & HXs).
      assert (HK' : forall g, K g (set_paren Xs) (TOp OFac :: rest) m' = K g (EPost OFac (set_paren Xs)) rest m') by (intros; reflexivity).
      destruct (K_congr f (EPost OFac s) (EPost OFac (set_paren Xs)) rest m' Y r'
                  (deq_post _ _ _ (deq_sym _ _ (deq_trans _ _ _ (deq_set_paren Xs) HXs))) HK) as (Y2 & HK2 & HY2).
      set (F := Nat.max f Fs). exists (S F), Y2. split; [|apply deq_sym; exact HY2].
      repeat rewrite <- app_assoc. cbn [app].
      apply (parse_from_prefix F _ _ (set_paren Xs) (TOp OFac :: rest)).
      * apply paren_phrasen. apply (parse_expr_more _ F _ _ _ HPs). unfold F; lia.
      * rewrite HK'. apply (K_more _ F _ _ _ _ HK2). unfold F; lia.
    + (* a primary in front of the ! *)
      destruct (needs_group_primary s Eg) as (Hp1 & Hp2).
      rewrite <- app_assoc. cbn [app]. rewrite <- (rtx_primary true s m' Eg).
      apply (IH Hs m' m' (TOp OFac :: rest) f Y r' (le_n _)).
      * cbn. lia.
      * rewrite Hp1. discriminate.
      * rewrite Hp2. discriminate.
      * exact HK.
  - (* binary operation *)
    cbn [wfn] in Hwf. apply andb_prop in Hwf as [Hwf Hr]. apply andb_prop in Hwf as [Ho Hl].
    destruct (norm_tokop o l r Ho) as (Hno & Hnf).
    cbn [rtx]. cbn [negb andb]. set (ot := tokop o l r) in *.
    destruct (p || (binding_pow ot <? m)%nat) eqn:Epar; cbn [wrapt].
    + (* in parentheses *)
      destruct (bin_coren ot l r (IHl Hl) (IHr Hr) Hnf 0 0 (TRParen :: rest) 1 (EBin (norm ot) l r false) (TRParen :: rest)
                  (le_n _) (Nat.le_0_l _) I I eq_refl) as (F0 & X0 & HP0 & HX0).
      rewrite Hno in HX0.
      destruct (K_congr f (EBin o l r p) (set_paren X0) rest m' Y r'
                  (deq_sym _ _ (deq_trans _ _ _ (deq_set_paren X0)
                     (deq_trans _ _ _ HX0 (deq_bin o l l r r false p (deq_refl l) (deq_refl r))))) HK) as (Y2 & HK2 & HY2).
      set (F := Nat.max f F0). exists (S F), Y2. split; [|apply deq_sym; exact HY2].
      repeat rewrite <- app_assoc. cbn [app].
      apply (parse_from_prefix F _ _ (set_paren X0) rest).
      * cbn [prefix_part]. repeat rewrite <- app_assoc in HP0. cbn [app] in HP0.
        rewrite (parse_expr_more _ F _ _ _ HP0) by (unfold F; lia). reflexivity.
      * apply (K_more _ F _ _ _ _ HK2). unfold F; lia.
    + (* as it is *)
      apply orb_false_elim in Epar as [-> Ec]. apply Nat.ltb_ge in Ec.
      rewrite <- Hno in HK.
      apply (bin_coren ot l r (IHl Hl) (IHr Hr) Hnf m m' rest f Y r' Hm Ec Hfo (Hprim eq_refl) HK).
Qed.

Lemma parse_rendered_num (e : tree) : wfn e = true ->
  exists F X, parse_expr F (rtn e 0) 0 = Ok (X, []) /\ deq X e.
Proof.
  intros Hwf.
  destruct (render_inverse_num e Hwf 0 0 [] 1 e [] (le_n _) I (fun _ => I)) as (F & X & HP & HX).
  - intros _. split; [left; reflexivity|intros []].
  - unfold K. rewrite (strip_fac_nonfac_head e [] I). reflexivity.
  - exists F, X. rewrite app_nil_r in HP. split; assumption.
Qed.

(* ---- 3. implied multiplication inserts exactly the · of the shorthand products ------------------------------- *)
Lemma hd_num_app (a b : list tok) : a <> [] -> hd_num (a ++ b) = hd_num a.
Proof. destruct a; [contradiction|reflexivity]. Qed.

Lemma hd_hdn cd : forall (e : tree) m, hd_num (rtx cd e m) = hdn e m.
Proof.
  induction e as [x|v|c|fn i IH|o s IH|o s IH|o l IHl r IHr p]; intros m; try reflexivity.
  - cbn [rtx hdn]. destruct (needs_group s); cbn [wrapt negb andb]; [reflexivity|].
    rewrite hd_num_app by apply rtx_nonempty. apply IH.
  - cbn [rtx hdn]. fold (juxt o l r). fold (tokop o l r).
    destruct (p || (binding_pow (tokop o l r) <? m)%nat); cbn [wrapt negb andb]; [reflexivity|].
    destruct (lhs_group (tokop o l r) l); cbn [wrapt negb andb]; [reflexivity|].
    rewrite hd_num_app by apply rtx_nonempty. apply IHl.
Qed.

(* at level 5 (operand of a shorthand product) the text starts with an operand, unless it is a prefix minus *)
Lemma head5 cd : forall e : tree, is_preR e = false ->
  exists t ts, rtx cd e 5 = t :: ts /\ starts_operand t true = true.
Proof.
  induction e as [x|v|c|fn i IH|o s IH|o s IH|o l IHl r IHr p]; intros Hp; try discriminate;
    try (eexists; eexists; split; reflexivity).
  - cbn [rtx]. destruct (needs_group s) eqn:Eg; cbn [wrapt]; [eexists; eexists; split; reflexivity|].
    destruct (needs_group_primary s Eg) as (_ & Hp2).
    rewrite <- (rtx_primary cd s 5 Eg). destruct (IH Hp2) as (t & ts & -> & Ht).
    exists t, (ts ++ [TOp o]). split; [reflexivity|exact Ht].
  - cbn [rtx]. set (ot := tokop o l r).
    destruct (p || (binding_pow ot <? 5)%nat) eqn:Ew; cbn [wrapt]; [eexists; eexists; split; reflexivity|].
    apply orb_false_elim in Ew as [_ Ew]. apply Nat.ltb_ge in Ew.
    assert (Eot : ot = OCaret) by (destruct ot; cbn in Ew; try lia; reflexivity).
    rewrite Eot. unfold lhs_group. cbn [binding_pow]. change (2 <? 5)%nat with true. rewrite andb_true_r.
    destruct (is_preR l) eqn:El; cbn [wrapt]; [eexists; eexists; split; reflexivity|].
    destruct (IHl eq_refl) as (t & ts & -> & Ht). eexists; eexists; split; [reflexivity|exact Ht].
Qed.

Lemma im_wrap2 p (ts ts' rest : list tok) :
  (forall rest', quiet rest' -> implied_mul (ts ++ rest') = ts' ++ implied_mul rest') ->
  quiet rest -> implied_mul (wrapt p ts ++ rest) = wrapt p ts' ++ implied_mul rest.
Proof.
  intros H Hq. destruct p; cbn [wrapt]; [|apply H; exact Hq].
  repeat rewrite <- app_assoc. cbn [app]. rewrite im_inert by reflexivity.
  rewrite H by reflexivity. rewrite im_inert by reflexivity. reflexivity.
Qed.

Lemma im_juxt (a : tok) (ts ts' rest : list tok) :
  (exists t tl, ts = t :: tl /\ needs_cdot a t = true) ->
  implied_mul (ts ++ rest) = ts' ++ implied_mul rest ->
  implied_mul (a :: ts ++ rest) = a :: TOp OCDot :: ts' ++ implied_mul rest.
Proof.
  intros (t & tl & -> & Hn) H. cbn [app implied_mul] in *. rewrite Hn. rewrite H. reflexivity.
Qed.

Lemma quiet_weak (b : tok) : starts_operand b true = false -> starts_operand b false = false.
Proof. destruct b; cbn; auto. Qed.

Lemma im_rtx : forall e m, wfn e = true ->
  forall rest : list tok, quiet rest -> implied_mul (rtx false e m ++ rest) = rtn e m ++ implied_mul rest.
Proof.
  induction e as [x|v|c|fn i IH|o s IH|o s IH|o l IHl r IHr p]; intros m H rest Hq.
  - cbn [rtx app]. apply im_atom; [exact Hq|]. intros b Hb. cbn. apply quiet_weak; exact Hb.
  - cbn [rtx app]. apply im_atom; [exact Hq|]. intros b Hb. cbn. exact Hb.
  - cbn [rtx app]. apply im_atom; [exact Hq|]. intros b Hb. cbn. exact Hb.
  - cbn [wfn] in H. cbn [rtx app]. rewrite im_inert by reflexivity. rewrite im_inert by reflexivity.
    rewrite <- !app_assoc. rewrite (IH _ H) by reflexivity. cbn [app]. rewrite im_inert by reflexivity. reflexivity.
  - cbn [wfn] in H. apply andb_prop in H as [_ H]. cbn [rtx app]. rewrite im_inert by reflexivity.
    rewrite (IH _ H _ Hq). reflexivity.
  - cbn [wfn] in H. apply andb_prop in H as [_ H]. cbn [rtx]. rewrite <- !app_assoc.
    rewrite (im_wrap2 _ _ (rtn s 0)); [|intros; apply (IH _ H); assumption|reflexivity].
    cbn [app]. rewrite im_inert by reflexivity. reflexivity.
  - cbn [wfn] in H. apply andb_prop in H as [H Hr]. apply andb_prop in H as [_ Hl]. cbn [rtx]. cbn [negb andb].
    apply im_wrap2; [|exact Hq]. intros rest' Hq'.
    destruct (juxt o l r) eqn:Ej.
    + (* shorthand product *)
      destruct (juxt_shape _ _ _ Ej) as (-> & Hpl & Hsh).
      assert (Eot : tokop OMul l r = OCDot) by (unfold tokop; rewrite Ej; reflexivity).
      rewrite Eot. unfold lhs_group. rewrite Hpl. cbn [andb wrapt binding_pow Nat.add].
      assert (Hhead : forall a, (forall k, rtx false l k = [a]) -> (forall k, rtn l k = [a]) ->
                (exists t tl, rtx false r 5 = t :: tl /\ needs_cdot a t = true) ->
                implied_mul ((rtx false l 4 ++ [] ++ rtx false r 5) ++ rest')
                = (rtn l 4 ++ [TOp OCDot] ++ rtn r 5) ++ implied_mul rest').
      { intros a E1 E2 Hex. rewrite E1, E2. cbn [app].
        apply im_juxt; [exact Hex|]. apply (IHr _ Hr _ Hq'). }
      destruct Hsh as [((x & ->) & Hr')|(Hl' & (x & ->))].
      * apply (Hhead (TNum x)); try (intros; reflexivity).
        assert (Hnp : is_preR r = false /\ hdn r 5 = false).
        { destruct Hr' as [(v & ->)|[(c & ->)|(a & b & q & -> & Hh)]]; split; try reflexivity. exact Hh. }
        destruct Hnp as (Hnp & Hh).
        destruct (head5 false r Hnp) as (t & tl & Et & Ht). exists t, tl. split; [exact Et|].
        pose proof (hd_hdn false r 5) as Hd. rewrite Et, Hh in Hd. cbn [hd_num] in Hd.
        destruct t; cbn in *; try discriminate; reflexivity.
      * destruct Hl' as [(v & ->)|(c & ->)].
        -- apply (Hhead (TVar v)); try (intros; reflexivity). eexists; eexists; split; reflexivity.
        -- apply (Hhead (TConst c)); try (intros; reflexivity). eexists; eexists; split; reflexivity.
    + (* an explicit operator *)
      assert (Eot : tokop o l r = o) by (unfold tokop; rewrite Ej; reflexivity).
      rewrite Eot. repeat rewrite <- app_assoc.
      rewrite (im_wrap2 _ _ (rtn l (if lhs_group o l then 0 else binding_pow o)));
        [|intros; apply (IHl _ Hl); assumption|reflexivity].
      cbn [app]. rewrite im_inert by reflexivity. rewrite (IHr _ Hr _ Hq'). reflexivity.
Qed.

(* ---- 4. the lexer on a printed number ------------------------------------------------------------------------ *)
Lemma split_on_nonnil c s : split_on c s <> [].
Proof.
  induction s as [|x s IH]; cbn; [discriminate|].
  destruct (split_on c s) as [|q qs]; [discriminate|]. destruct (N.eqb x c); discriminate.
Qed.

Lemma split_on_chars c : forall s x, In x s -> x = c \/ exists q, In q (split_on c s) /\ In x q.
Proof.
  induction s as [|y s IH]; intros x Hx; [destruct Hx|].
  cbn [split_on]. destruct (split_on c s) as [|q qs] eqn:E; [exfalso; exact (split_on_nonnil c s E)|].
  destruct Hx as [<-|Hx].
  - destruct (N.eqb_spec y c) as [->|Hne]; [left; reflexivity|].
    right. exists (y :: q). split; left; reflexivity.
  - destruct (IH x Hx) as [->|(q' & Hq' & Hxq)]; [left; reflexivity|]. right.
    destruct (N.eqb y c).
    + exists q'. split; [right; exact Hq'|exact Hxq].
    + destruct Hq' as [<-|Hq'].
      * exists (y :: q). split; [left; reflexivity|right; exact Hxq].
      * exists q'. split; [right; exact Hq'|exact Hxq].
Qed.

(* a text that the number reader accepts is a non-empty run of digits and dots *)
Lemma parse_dec_chars (s : str) (v : R) : parse_unsigned_dec s = Some v -> s <> [] /\ forallb is_num_char s = true.
Proof.
  intros H. split.
  - intros ->. cbn in H. discriminate.
  - apply forallb_forall. intros x Hx. unfold parse_unsigned_dec in H.
    destruct (split_on_chars c_dot s x Hx) as [->|(q & Hq & Hxq)]; [reflexivity|].
    assert (Hd : all_digits q = true).
    { destruct (split_on c_dot s) as [|ip [|fp [|]]]; try discriminate.
      - destruct Hq as [<-|[]]. destruct (all_digits ip); [reflexivity|cbn in H; discriminate].
      - destruct (all_digits ip) eqn:E1; [|cbn in H; discriminate].
        destruct (all_digits fp) eqn:E2; [|cbn in H; discriminate].
        destruct Hq as [<-|[<-|[]]]; assumption. }
    unfold all_digits in Hd. rewrite forallb_forall in Hd. unfold is_num_char. rewrite (Hd x Hxq). reflexivity.
Qed.

Definition nonum_head (s : str) : Prop := match s with c :: _ => is_num_char c = false | [] => True end.
Definition boundary2 (s : str) : Prop := @boundary s /\ nonum_head s.

Lemma span_run (p : N -> bool) : forall s rest, forallb p s = true ->
  (match rest with c :: _ => p c = false | [] => True end) -> span p (s ++ rest) = (s, rest).
Proof.
  induction s as [|c s IH]; intros rest Hs Hr; [apply span_boundary; exact Hr|].
  cbn [forallb] in Hs. apply andb_prop in Hs as [Hc Hs]. cbn [app span]. rewrite Hc, (IH rest Hs Hr). reflexivity.
Qed.

Lemma numchar_nsp c : is_num_char c = true -> nsp c = true.
Proof. unfold nsp, c_space. destruct (N.eqb_spec c 32) as [->|]; [discriminate|reflexivity]. Qed.

Lemma filter_numchars : forall s, forallb is_num_char s = true -> filter nsp s = s.
Proof.
  induction s as [|c s IH]; intros H; [reflexivity|]. cbn [forallb] in H. apply andb_prop in H as [Hc Hs].
  cbn [filter]. rewrite (numchar_nsp c Hc), (IH Hs). reflexivity.
Qed.

Lemma numchar_not_letter c : is_num_char c = true -> is_ascii_letter c = false.
Proof.
  intros H. destruct (is_ascii_letter c) eqn:E; [|reflexivity].
  pose proof (@letter_not_num c E) as H'. rewrite H in H'. discriminate.
Qed.

(* THE number lemma: a printed number, followed by anything that does not continue it, is read as one token *)
Lemma lexes_num (x : R) (s rest : str) (r : list tok) :
  parse_unsigned_dec s = Some x -> nonum_head rest -> Lexes rest r -> Lexes (s ++ rest) (TNum x :: r).
Proof.
  intros H Hb Hr [|f] Hf; [cbn in Hf; lia|].
  destruct (parse_dec_chars s x H) as (Hne & Hall).
  destruct s as [|c s']; [contradiction|].
  pose proof Hall as Hall'. cbn [forallb] in Hall'. apply andb_prop in Hall' as [Hc _].
  cbn [app lex_loop]. rewrite Hc.
  change (c :: s' ++ rest) with ((c :: s') ++ rest). rewrite (span_run is_num_char (c :: s') rest Hall Hb).
  rewrite H. rewrite app_length in Hf. cbn [length] in Hf. rewrite (Hr f) by lia. reflexivity.
Qed.

(* ---- 5. the text of render, and the lexer on it ---------------------------------------------------------------- *)
Section LexNum.
  Variable fmt : R -> str.

  (* the hypothesis on the printer, for one number: its text is read back as that number *)
  Definition num_ok (v : R) : Prop := parse_unsigned_dec (fmt v) = Some v.
  Definition nums_ok (e : tree) : Prop := forall v, In v (nums e) -> num_ok v.

  Definition juxtT (o : oper) (l r : tree) : bool := juxt_with (starts_num (render fmt r 5)) o l r.
  Definition carsh (o : oper) (l r : tree) : bool :=
    match o, l, r with
    | OCaret, EVar _, ENum _ | OCaret, EConst _, ENum _ => true
    | _, _, _ => false
    end.

  (* Expr::render on a binary operation, with the texts of the operands abstracted *)
  Definition render_step (rl rr : nat -> str) (op : oper) (l r : tree) (paren : bool) (min_bp : nat) : str :=
    let generic (_ : unit) : str * nat :=
      let bp := binding_pow op in
      let lft :=
        match l with
        | EPre _ _ => if (2 <? bp)%nat then [40%N] ++ rl 0 ++ [41%N] else rl bp
        | _ => rl bp
        end in
      (lft ++ [32%N] ++ oper_str op ++ [32%N] ++ rr (bp + 1), bp) in
    let '(text, bp) :=
      match op with
      | OMul =>
        match l, r with
        | ENum x, EVar v => (fmt x ++ v, 4)
        | ENum x, EConst c => (fmt x ++ cnst_str c, 4)
        | ENum x, EBin OCaret _ _ _ =>
          let power := rr 5 in
          if starts_num power then generic tt else (fmt x ++ power, 4)
        | EVar v, ENum x => (v ++ fmt x, 4)
        | EConst c, ENum x => (cnst_str c ++ fmt x, 4)
        | _, _ => generic tt
        end
      | OCaret =>
        match l, r with
        | EVar v, ENum x => (v ++ [94%N] ++ fmt x, 5)
        | EConst c, ENum x => (cnst_str c ++ [94%N] ++ fmt x, 5)
        | _, _ => generic tt
        end
      | _ => generic tt
      end in
    if paren || (bp <? min_bp)%nat then [40%N] ++ text ++ [41%N] else text.

  Lemma render_step_eq o l r p k :
    render fmt (EBin o l r p) k = render_step (render fmt l) (render fmt r) o l r p k.
  Proof. reflexivity. Qed.

  Definition form (rl rr : nat -> str) (jt : bool) (o : oper) (l r : tree) (p : bool) (k : nat) : str :=
    let ot := if jt then OCDot else o in
    wrapc (p || (binding_pow ot <? k)%nat)
      (wrapc (lhs_group ot l) (rl (if lhs_group ot l then 0 else binding_pow ot))
       ++ (if jt then [] else if carsh o l r then [94%N] else [32%N] ++ oper_str o ++ [32%N])
       ++ rr (binding_pow ot + 1)).

  Lemma render_step_form rl rr o l r p k :
    (forall j, rl j = render fmt l j) -> (forall j, rr j = render fmt r j) ->
    render_step rl rr o l r p k = form rl rr (juxt_with (starts_num (rr 5)) o l r) o l r p k.
  Proof.
    intros Hl Hr. unfold form.
    (destruct o;
      destruct l as [x|v|c|fn i|o1 s|o1 s|o1 l1 l2 p1];
      destruct r as [y|w|d|g j|o2 t|o2 t|o2 r1 r2 p2]; try reflexivity;
      try (destruct o2; try reflexivity)).
    all: try (cbv zeta; rewrite ?Hl, ?Hr; cbn [render]; reflexivity).
    cbv beta iota zeta delta [render_step juxt_with].
    destruct (starts_num (rr 5)); cbn [negb]; [reflexivity|rewrite ?Hl; cbn [render]; reflexivity].
  Qed.

  (* one form for the generic text and for all shorthands *)
  Lemma render_bin_form o l r p k :
    render fmt (EBin o l r p) k =
    let ot := if juxtT o l r then OCDot else o in
    wrapc (p || (binding_pow ot <? k)%nat)
      (wrapc (lhs_group ot l) (render fmt l (if lhs_group ot l then 0 else binding_pow ot))
       ++ (if juxtT o l r then [] else if carsh o l r then [94%N] else [32%N] ++ oper_str o ++ [32%N])
       ++ render fmt r (binding_pow ot + 1)).
  Proof.
    rewrite render_step_eq.
    rewrite (render_step_form _ _ o l r p k (fun _ => eq_refl) (fun _ => eq_refl)). reflexivity.
  Qed.

  Lemma render_post_form o (s : tree) m :
    render fmt (EPost o s) m = wrapc (needs_group s) (render fmt s 0) ++ oper_str o.
  Proof.
    destruct s as [y|w|d|g j|o2 t|o2 t|o2 r1 r2 p2]; cbn [render needs_group wrapc]; try reflexivity.
    - rewrite <- !app_assoc. reflexivity.
    - destruct p2; cbn [wrapc]; [reflexivity|rewrite <- !app_assoc; reflexivity].
  Qed.

  Lemma nums_ok_bin o l r p : nums_ok (EBin o l r p) -> nums_ok l /\ nums_ok r.
  Proof. intros H. split; intros v Hv; apply H; cbn [nums]; apply in_or_app; auto. Qed.

  (* the first character: never a space, and a digit or dot exactly when [hdn] says so *)
  Lemma render_hd : forall e m, wfn e = true -> nums_ok e ->
    exists c s, render fmt e m = c :: s /\ nsp c = true /\ is_num_char c = hdn e m.
  Proof.
    induction e as [x|v|c|fn i IH|o s IH|o s IH|o l IHl r IHr p]; intros m Hwf Hn.
    - destruct (parse_dec_chars (fmt x) x (Hn x (or_introl eq_refl))) as (Hne & Hall).
      cbn [render hdn]. destruct (fmt x) as [|c s]; [contradiction|].
      cbn [forallb] in Hall. apply andb_prop in Hall as [Hc _].
      exists c, s. split; [reflexivity|split; [apply numchar_nsp; exact Hc|exact Hc]].
    - cbn [wfn] in Hwf. cbn [render hdn]. destruct v as [|c [|d v]]; try discriminate. cbn [var_ok] in Hwf.
      apply andb_prop in Hwf as [Hwf _]. apply andb_prop in Hwf as [Hl _].
      exists c, []. split; [reflexivity|split; [|apply letter_not_num; exact Hl]].
      unfold nsp, c_space. destruct (N.eqb_spec c 32) as [->|]; [discriminate|reflexivity].
    - destruct c; eexists; eexists; (split; [reflexivity|split; reflexivity]).
    - destruct fn; eexists; eexists; (split; [reflexivity|split; reflexivity]).
    - cbn [wfn] in Hwf. apply andb_prop in Hwf as [Ho _]. destruct o; try discriminate.
      eexists; eexists; (split; [reflexivity|split; reflexivity]).
    - cbn [wfn] in Hwf. apply andb_prop in Hwf as [_ Hs].
      rewrite render_post_form. cbn [hdn].
      destruct (needs_group s); cbn [wrapc negb andb]; [eexists; eexists; (split; [reflexivity|split; reflexivity])|].
      destruct (IH 0 Hs Hn) as (c & t & -> & H1 & H2). exists c, (t ++ oper_str o). split; [reflexivity|split; assumption].
    - cbn [wfn] in Hwf. apply andb_prop in Hwf as [Hwf Hr]. apply andb_prop in Hwf as [Ho Hl].
      destruct (nums_ok_bin _ _ _ _ Hn) as (Hnl & Hnr).
      rewrite render_bin_form.
      assert (Ej : juxtT o l r = juxt o l r).
      { unfold juxtT, juxt. destruct (IHr 5 Hr Hnr) as (c & t & -> & _ & H2). cbn [starts_num]. rewrite H2. reflexivity. }
      rewrite Ej. cbn zeta. fold (tokop o l r). cbn [hdn]. fold (juxt o l r). fold (tokop o l r).
      set (ot := tokop o l r).
      destruct (p || (binding_pow ot <? m)%nat); cbn [wrapc negb andb];
        [eexists; eexists; (split; [reflexivity|split; reflexivity])|].
      destruct (lhs_group ot l); cbn [wrapc negb andb];
        [eexists; eexists; (split; [reflexivity|split; reflexivity])|].
      destruct (IHl (binding_pow ot) Hl Hnl) as (c & t & -> & H1 & H2).
      eexists; eexists; (split; [reflexivity|split; assumption]).
  Qed.

  Lemma juxtT_juxt o l r : wfn r = true -> nums_ok r -> juxtT o l r = juxt o l r.
  Proof.
    intros Hr Hnr. unfold juxtT, juxt. destruct (render_hd r 5 Hr Hnr) as (c & t & -> & _ & H2).
    cbn [starts_num]. rewrite H2. reflexivity.
  Qed.

  Lemma lexes_wrap2 p s (ts : list tok) rest r :
    (forall rest' r', boundary2 rest' -> Lexes rest' r' -> Lexes (s ++ rest') (ts ++ r')) ->
    boundary2 rest -> Lexes rest r -> Lexes (wrapc p s ++ rest) (wrapt p ts ++ r).
  Proof.
    intros H Hb Hr. destruct p; cbn [wrapc wrapt]; [|apply H; assumption].
    repeat rewrite <- app_assoc. cbn [app].
    apply lexes_char; try reflexivity.
    apply H; [split; reflexivity|]. apply lexes_char; try reflexivity. exact Hr.
  Qed.

  Lemma boundary2_oper o rest : boundary2 (oper_str o ++ rest).
  Proof. destruct o; split; reflexivity. Qed.

  Lemma lex_render_num : forall e m, wfn e = true -> nums_ok e ->
    forall rest r, boundary2 rest -> Lexes rest r ->
      Lexes (filter nsp (render fmt e m) ++ rest) (rtx false e m ++ r).
  Proof.
    induction e as [x|v|c|fn i IH|o s IH|o s IH|o l IHl r0 IHr p]; intros m H Hn rest r Hb Hr.
    - pose proof (Hn x (or_introl eq_refl)) as Hx.
      destruct (parse_dec_chars _ _ Hx) as (_ & Hall).
      cbn [render rtx app]. rewrite (filter_numchars _ Hall). apply lexes_num; [exact Hx|apply Hb|exact Hr].
    - cbn [render rtx wfn] in *. rewrite (filter_var _ H). apply lexes_var; [exact H|apply Hb|exact Hr].
    - cbn [render rtx]. rewrite filter_cnst. apply lexes_cnst; [apply Hb|exact Hr].
    - cbn [wfn] in H. cbn [render rtx]. rewrite !filter_app. repeat rewrite <- app_assoc.
      replace (filter nsp (func_str fn)) with (func_str fn) by (destruct fn; reflexivity).
      change (filter nsp [40%N]) with [40%N]. change (filter nsp [41%N]) with [41%N].
      cbn [app]. apply (lexes_fun fn). rewrite <- app_assoc.
      apply (IH _ H Hn); [split; reflexivity|]. apply lexes_char; try reflexivity. exact Hr.
    - cbn [wfn] in H. apply andb_prop in H as [Ho H]. destruct o; try discriminate.
      cbn [render rtx]. rewrite filter_app, filter_oper. rewrite <- app_assoc. cbn [app].
      apply (lexes_oper OSub). apply (IH _ H Hn); assumption.
    - cbn [wfn] in H. apply andb_prop in H as [Ho H]. destruct o; try discriminate.
      rewrite render_post_form, filter_app, filter_wrapc. cbn [rtx]. repeat rewrite <- app_assoc.
      apply lexes_wrap2; [intros; apply (IH _ H Hn); assumption|split; reflexivity|].
      change (filter nsp (oper_str OFac)) with (oper_str OFac). apply (lexes_oper OFac). exact Hr.
    - cbn [wfn] in H. apply andb_prop in H as [H Hr0]. apply andb_prop in H as [Ho Hl].
      destruct (nums_ok_bin _ _ _ _ Hn) as (Hnl & Hnr).
      rewrite render_bin_form, (juxtT_juxt o l r0 Hr0 Hnr). cbn zeta. fold (tokop o l r0).
      cbn [rtx]. cbn [negb andb]. set (ot := tokop o l r0).
      rewrite filter_wrapc.
      apply lexes_wrap2; [|assumption|assumption].
      intros rest' r' Hb' Hr'. rewrite !filter_app, filter_wrapc.
      destruct (juxt o l r0) eqn:Ej.
      + (* shorthand product *)
        destruct (juxt_shape _ _ _ Ej) as (-> & Hpl & Hsh).
        assert (Eot : ot = OCDot) by (unfold ot, tokop; rewrite Ej; reflexivity).
        rewrite Eot. unfold lhs_group. rewrite Hpl. cbn [andb wrapc wrapt binding_pow Nat.add filter app].
        destruct Hsh as [((x & ->) & Hsr)|(Hl' & (x & ->))].
        * (* 4x, 2π, 5x^2 *)
          pose proof (Hnl x (or_introl eq_refl)) as Hx.
          destruct (parse_dec_chars _ _ Hx) as (_ & Hall).
          cbn [render rtx app]. rewrite (filter_numchars _ Hall). rewrite <- app_assoc.
          assert (Hh : hdn r0 5 = false).
          { destruct Hsr as [(v & ->)|[(c & ->)|(a & b & q & -> & Hh)]]; try reflexivity. exact Hh. }
          apply lexes_num; [exact Hx| |apply (IHr _ Hr0 Hnr); assumption].
          destruct (render_hd r0 5 Hr0 Hnr) as (c & t & -> & H1 & H2). cbn [filter]. rewrite H1. cbn [app nonum_head].
          rewrite H2. exact Hh.
        * (* x2, π2 *)
          pose proof (Hnr x (or_introl eq_refl)) as Hx.
          destruct (parse_dec_chars _ _ Hx) as (Hne & Hall).
          assert (Hbx : @boundary (fmt x ++ rest')).
          { destruct (fmt x) as [|c t]; [contradiction|]. cbn [forallb] in Hall. apply andb_prop in Hall as [Hc _].
            cbn. apply numchar_not_letter. exact Hc. }
          assert (Hlx : Lexes (fmt x ++ rest') (TNum x :: r')) by (apply lexes_num; [exact Hx|apply Hb'|exact Hr']).
          cbn [render rtx]. rewrite (filter_numchars _ Hall). rewrite <- !app_assoc. cbn [app].
          destruct Hl' as [(v & ->)|(c & ->)]; cbn [render rtx app].
          -- cbn [wfn] in Hl. rewrite (filter_var _ Hl). apply lexes_var; assumption.
          -- rewrite filter_cnst. apply lexes_cnst; assumption.
      + (* an explicit operator: spaces around it, or the shorthand v^2 *)
        assert (Eot : ot = o) by (unfold ot, tokop; rewrite Ej; reflexivity).
        rewrite Eot.
        assert (Emid : filter nsp (if carsh o l r0 then [94%N] else [32%N] ++ oper_str o ++ [32%N]) = oper_str o).
        { destruct (carsh o l r0) eqn:Ec.
          - destruct o; try discriminate. reflexivity.
          - rewrite !filter_app, filter_oper. cbn. rewrite app_nil_r. reflexivity. }
        rewrite Emid. repeat rewrite <- app_assoc.
        apply lexes_wrap2; [intros; apply (IHl _ Hl Hnl); assumption|apply boundary2_oper|].
        apply lexes_oper. apply (IHr _ Hr0 Hnr); assumption.
  Qed.
End LexNum.

(* ---- 5b. the numbers of the tree read back are numbers of the text; without 0 and 1 the fold does nothing ------ *)
Fixpoint tree_all (P : R -> Prop) (e : tree) : Prop :=
  match e with
  | ENum x => P x
  | EVar _ | EConst _ => True
  | EFun _ i => tree_all P i
  | EPre _ v | EPost _ v => tree_all P v
  | EBin _ l r _ => tree_all P l /\ tree_all P r
  end.
Definition tok_all (P : R -> Prop) (t : tok) : Prop := match t with TNum x => P x | _ => True end.

Section All.
  Variable P : R -> Prop.

  Lemma strip_fac_all : forall (ts : list tok) (l : tree), tree_all P l -> Forall (tok_all P) ts ->
    tree_all P (fst (strip_fac l ts)) /\ Forall (tok_all P) (snd (strip_fac l ts)).
  Proof.
    induction ts as [|t ts IH]; intros l Hl Hts; cbn; [auto|].
    inversion Hts as [|t' ts' Ht Hts' E]; subst.
    destruct t as [x|v|o|fn|c| |]; cbn; try (split; [exact Hl|exact Hts]).
    destruct o; cbn; try (split; [exact Hl|exact Hts]).
    apply IH; assumption.
  Qed.

  Lemma bin_loop_all (rec : list tok -> nat -> res (tree * list tok)) :
    (forall ts bp X r, Forall (tok_all P) ts -> rec ts bp = Ok (X, r) -> tree_all P X /\ Forall (tok_all P) r) ->
    forall n l ts bp X r, tree_all P l -> Forall (tok_all P) ts ->
      bin_loop rec n l ts bp = Ok (X, r) -> tree_all P X /\ Forall (tok_all P) r.
  Proof.
    intros Hrec. induction n as [|n IH]; intros l ts bp X r Hl Hts H; [discriminate|].
    cbn [bin_loop] in H. destruct ts as [|t ts']; [injection H as <- <-; auto|].
    destruct t; try (injection H as <- <-; auto).
    destruct (binding_pow o <? bp)%nat; [injection H as <- <-; auto|].
    inversion Hts as [|t' ts'' Ht Hts' E]; subst.
    destruct (rec ts' (binding_pow o + 1)) as [[rg r']|e|w] eqn:E; cbn [bind] in H; try discriminate.
    destruct (Hrec _ _ _ _ Hts' E) as (Hrg & Hr').
    refine (IH _ _ _ _ _ _ Hr' H). cbn [tree_all]. split; assumption.
  Qed.

  Lemma parse_expr_all : forall f (ts : list tok) bp X r,
    Forall (tok_all P) ts -> parse_expr f ts bp = Ok (X, r) -> tree_all P X /\ Forall (tok_all P) r.
  Proof.
    induction f as [|f IH]; intros ts bp X r Hts H; [discriminate|].
    rewrite parse_expr_unfold in H.
    destruct (prefix_part f ts bp) as [[l r0]|e|w] eqn:E; cbn [bind] in H; try discriminate.
    assert (Hp : tree_all P l /\ Forall (tok_all P) r0).
    { unfold prefix_part in E. destruct ts as [|t ts']; [discriminate|].
      inversion Hts as [|t' ts'' Ht Hts' E0]; subst.
      destruct t as [x|v|o|fn|c| |]; try discriminate; try (injection E as <- <-; split; [exact I|exact Hts']).
      - injection E as <- <-. split; [exact Ht|exact Hts'].
      - destruct (oper_eqb o OSub); [|discriminate].
        destruct (parse_expr f ts' (Nat.max bp BP_PREFIX_MINUS)) as [[v r1]|e0|w0] eqn:E1; cbn [bind] in E; try discriminate.
        injection E as <- <-. apply (IH _ _ _ _ Hts' E1).
      - destruct ts' as [|t2 ts2]; [discriminate|]. destruct t2; try discriminate.
        inversion Hts' as [|t3 ts3 Ht3 Hts3 E3]; subst.
        destruct (parse_expr f ts2 0) as [[v r1]|e0|w0] eqn:E1; cbn [bind] in E; try discriminate.
        destruct (IH _ _ _ _ Hts3 E1) as (Hv & Hr1).
        destruct r1 as [|t1 r2]; [discriminate|]. destruct t1; try discriminate.
        injection E as <- <-. inversion Hr1; subst. split; [exact Hv|assumption].
      - destruct (parse_expr f ts' 0) as [[v r1]|e0|w0] eqn:E1; cbn [bind] in E; try discriminate.
        destruct (IH _ _ _ _ Hts' E1) as (Hv & Hr1).
        destruct r1 as [|t1 r2]; [discriminate|]. destruct t1; try discriminate.
        injection E as <- <-. inversion Hr1; subst. split; [destruct v; exact Hv|assumption]. }
    destruct Hp as (Hl & Hr0).
    destruct (strip_fac_all r0 l Hl Hr0) as (Hl' & Hr').
    destruct (strip_fac l r0) as [l' r'']. cbn [fst snd] in *.
    apply (bin_loop_all _ (IH) _ _ _ _ _ _ Hl' Hr' H).
  Qed.

  Lemma wrapt_all p (ts : list tok) : Forall (tok_all P) ts -> Forall (tok_all P) (wrapt p ts).
  Proof.
    intros H. destruct p; cbn [wrapt]; [|exact H]. cbn [app]. constructor; [exact I|].
    apply Forall_app. split; [exact H|constructor; [exact I|constructor]].
  Qed.

  Lemma rtx_all cd : forall (e : tree) m, tree_all P e -> Forall (tok_all P) (rtx cd e m).
  Proof.
    induction e as [x|v|c|fn i IH|o s IH|o s IH|o l IHl r IHr p]; intros m H; cbn [rtx tree_all] in *.
    - constructor; [exact H|constructor].
    - constructor; [exact I|constructor].
    - constructor; [exact I|constructor].
    - constructor; [exact I|]. constructor; [exact I|]. apply Forall_app. split; [apply IH; exact H|constructor; [exact I|constructor]].
    - constructor; [exact I|]. apply IH; exact H.
    - apply Forall_app. split; [apply wrapt_all, IH; exact H|constructor; [exact I|constructor]].
    - destruct H as (Hl & Hr). apply wrapt_all. apply Forall_app. split; [apply wrapt_all, IHl; exact Hl|].
      apply Forall_app. split; [|apply IHr; exact Hr].
      destruct (negb cd && juxt o l r); [constructor|constructor; [exact I|constructor]].
  Qed.
End All.

Definition not01 (x : R) : Prop := x <> 0%R /\ x <> 1%R.

Lemma not01_is_num (e : tree) : tree_all not01 e -> is_num n0 e = false /\ is_num n1 e = false.
Proof.
  destruct e; cbn [is_num]; auto. cbn [tree_all neqb n0 n1 RNum]. intros (H0 & H1).
  split; apply Reqb_false; assumption.
Qed.

Lemma foldS_not01 : forall e : tree, tree_all not01 e -> foldS e = e.
Proof.
  induction e as [x|v|c|fn i IH|o s IH|o s IH|o l IHl r IHr p]; intros H; try reflexivity.
  cbn [tree_all] in H. destruct H as (Hl & Hr).
  cbn [foldS]. rewrite (IHl Hl), (IHr Hr).
  destruct (not01_is_num l Hl) as (E1 & _). destruct (not01_is_num r Hr) as (E2 & E3).
  rewrite E1, E2, ?E3. cbn [andb]. destruct o; reflexivity.
Qed.

Lemma tree_all_nums (P : R -> Prop) : forall e : tree, (forall v, In v (nums e) -> P v) -> tree_all P e.
Proof.
  induction e as [x|v|c|fn i IH|o s IH|o s IH|o l IHl r IHr p]; intros H; cbn [tree_all nums] in *; auto.
  - apply H. left. reflexivity.
  - split; [apply IHl|apply IHr]; intros v Hv; apply H; apply in_or_app; auto.
Qed.

(* ---- 6. the round trip --------------------------------------------------------------------------------------- *)
Section Final.
  Variable fmt : R -> str.

  Lemma c19_display_roundtrip_numbers_lemma : forall e : tree,
    wfn e = true -> (forall v, In v (nums e) -> parse_unsigned_dec (fmt v) = Some v) ->
    exists ts X e',
      lexer (display fmt e) = Ok ts /\ parse_unfolded ts = Ok X /\
      (forall rho, denote X rho = denote e rho) /\
      reread fmt e = Ok e' /\ fold_operations X = Ok e' /\
      (forall rho v, denote e rho = Some v -> denote e' rho = Some v) /\
      ((forall v, In v (nums e) -> v <> 0%R /\ v <> 1%R) -> e' = X).
  Proof.
    intros e Hwf Hn.
    assert (Hlex : lexer (display fmt e) = Ok (rtx false e 0)).
    { apply lexer_of_Lexes. unfold display.
      rewrite <- (app_nil_r (filter nsp (render fmt e 0))), <- (app_nil_r (rtx false e 0)).
      apply (lex_render_num fmt e 0 Hwf Hn); [split; exact I|apply lexes_nil]. }
    destruct (parse_rendered_num e Hwf) as (F & X & HP & HX).
    pose proof (im_rtx e 0 Hwf [] I) as Him. cbn [implied_mul] in Him. rewrite !app_nil_r in Him.
    assert (HP' : parse_expr (S (length (rtn e 0))) (rtn e 0) 0 = Ok (X, [])).
    { destruct (Nat.le_ge_cases F (S (length (rtn e 0)))) as [Hle|Hge].
      - apply (parse_expr_more _ _ _ _ _ HP Hle).
      - rewrite <- HP. symmetry. apply parse_expr_mono; [|exact Hge].
        apply (parse_expr_no_panic (S (length (rtn e 0))) (rtn e 0) 0). lia. }
    assert (HU : parse_unfolded (rtx false e 0) = Ok X).
    { unfold parse_unfolded. rewrite Him, HP'. reflexivity. }
    exists (rtx false e 0), X, (foldS X).
    split; [exact Hlex|]. split; [exact HU|]. split; [exact HX|].
    split; [|split; [apply fold_operations_foldS|split]].
    - unfold reread. rewrite Hlex. cbn [bind]. unfold parser. rewrite HU. cbn [bind]. apply fold_operations_foldS.
    - intros rho v Hv. apply foldS_sound. rewrite (HX rho). exact Hv.
    - intros H01. apply foldS_not01.
      apply (parse_expr_all not01 _ _ _ _ _ (rtx_all not01 true e 0 (tree_all_nums not01 e H01)) HP').
  Qed.
End Final.

(* ---- 7. non-vacuity: a printer that is right on the numbers of 4x^2 + 2π --------------------------------------- *)
Definition fmt24 (v : R) : str := if Req_EM_T v 4 then [52%N] else [50%N].      (* "4" for 4, "2" otherwise *)
Definition e_4x2_2pi : tree :=
  EBin OAdd (EBin OMul (ENum 4%R) (EBin OCaret (EVar [120%N]) (ENum 2%R) false) false)
            (EBin OMul (ENum 2%R) (EConst KPi) false) false.

Lemma example_numbers :
  wfn e_4x2_2pi = true /\
  (forall v, In v (nums e_4x2_2pi) -> parse_unsigned_dec (fmt24 v) = Some v) /\
  display fmt24 e_4x2_2pi = [52; 120; 94; 50; 32; 43; 32; 50; 960]%N /\          (* 4x^2 + 2π *)
  exists e', reread fmt24 e_4x2_2pi = Ok e' /\ forall rho, denote e' rho = denote e_4x2_2pi rho.
Proof.
  assert (E4 : fmt24 4 = [52%N]) by (unfold fmt24; destruct (Req_EM_T 4 4); [reflexivity|lra]).
  assert (E2 : fmt24 2 = [50%N]) by (unfold fmt24; destruct (Req_EM_T 2 4); [lra|reflexivity]).
  assert (P4 : @parse_unsigned_dec R RNum [52%N] = Some 4%R).
  { unfold parse_unsigned_dec. cbn [split_on N.eqb c_dot Pos.eqb all_digits forallb is_ascii_digit N.leb N.compare Pos.compare
      Pos.compare_cont andb negb length Nat.eqb digits_val fold_left digit_val nofdec RNum].
    f_equal. cbn. lra. }
  assert (P2 : @parse_unsigned_dec R RNum [50%N] = Some 2%R).
  { unfold parse_unsigned_dec. cbn [split_on N.eqb c_dot Pos.eqb all_digits forallb is_ascii_digit N.leb N.compare Pos.compare
      Pos.compare_cont andb negb length Nat.eqb digits_val fold_left digit_val nofdec RNum].
    f_equal. cbn. lra. }
  assert (Hn : forall v, In v (nums e_4x2_2pi) -> parse_unsigned_dec (fmt24 v) = Some v).
  { intros v Hv. cbn [nums e_4x2_2pi app In] in Hv.
    destruct Hv as [<-|[<-|[<-|[]]]]; rewrite ?E4, ?E2; assumption. }
  assert (Hd : display fmt24 e_4x2_2pi = [52; 120; 94; 50; 32; 43; 32; 50; 960]%N).
  { unfold display, e_4x2_2pi. revert E4 E2. generalize 4%R 2%R. intros four two E4 E2.
    cbn -[fmt24]. rewrite E4, E2. reflexivity. }
  split; [reflexivity|]. split; [exact Hn|]. split; [exact Hd|].
  destruct (c19_display_roundtrip_numbers_lemma fmt24 e_4x2_2pi eq_refl Hn) as (ts & X & e' & _ & _ & HX & Hre & _ & _ & H01).
  exists e'. split; [exact Hre|]. intros rho. rewrite H01; [apply HX|].
  intros v Hv. cbn [nums e_4x2_2pi app In] in Hv. destruct Hv as [<-|[<-|[<-|[]]]]; split; lra.
Qed.

(* ---- 8. every tree that parse_unfolded returns for a lexed text has the shape [wfn] ----------------------------- *)
Definition tok_okn (t : tok) : bool := match t with TVar v => var_ok v | _ => true end.

Lemma okn_of_ok : forall ts : list tok, forallb tok_ok ts = true -> forallb tok_okn ts = true.
Proof.
  induction ts as [|t ts IH]; intros H; [reflexivity|]. cbn [forallb] in *. apply andb_prop in H as [Ht Hts].
  rewrite (IH Hts), andb_true_r. destruct t; try reflexivity; exact Ht.
Qed.

Lemma lex_loop_okn : forall f (s : str) ts, @lex_loop R RNum f s = Ok ts -> forallb tok_okn ts = true.
Proof.
  induction f as [|f IH]; intros s ts H; [discriminate|].
  cbn [lex_loop] in H. destruct s as [|ch rest]; [injection H as <-; reflexivity|].
  destruct (is_num_char ch).
  { destruct (span is_num_char (ch :: rest)) as [num rest'].
    destruct (parse_unsigned_dec num) as [xnum|]; [|discriminate].
    destruct (lex_loop f rest') as [rr| |] eqn:Er; cbn [bind] in H; try discriminate. injection H as <-.
    cbn [forallb tok_okn andb]. apply (IH _ _ Er). }
  destruct (is_ascii_letter ch) eqn:El.
  { destruct (span is_ascii_letter (ch :: rest)) as [w rest'] eqn:Es.
    destruct (lex_loop f rest') as [r| |] eqn:Er; cbn [bind] in H; try discriminate. injection H as <-.
    rewrite forallb_app, (okn_of_ok _ (word_tokens_ok w (span_all _ _ _ _ Es))), (IH _ _ Er). reflexivity. }
  assert (Hstep : forall t, tok_okn t = true -> forall r, lex_loop f rest = Ok r -> Ok (t :: r) = Ok ts -> forallb tok_okn ts = true).
  { intros t Ht r Er E. injection E as <-. cbn [forallb]. rewrite Ht, (IH _ _ Er). reflexivity. }
  destruct (ch =? 960)%N; [destruct (lex_loop f rest) eqn:Er; cbn [bind] in H; try discriminate; eapply Hstep; [|reflexivity|exact H]; reflexivity|].
  destruct (ch =? 964)%N; [destruct (lex_loop f rest) eqn:Er; cbn [bind] in H; try discriminate; eapply Hstep; [|reflexivity|exact H]; reflexivity|].
  destruct (ch =? 981)%N; [destruct (lex_loop f rest) eqn:Er; cbn [bind] in H; try discriminate; eapply Hstep; [|reflexivity|exact H]; reflexivity|].
  destruct (ch =? 40)%N; [destruct (lex_loop f rest) eqn:Er; cbn [bind] in H; try discriminate; eapply Hstep; [|reflexivity|exact H]; reflexivity|].
  destruct (ch =? 41)%N; [destruct (lex_loop f rest) eqn:Er; cbn [bind] in H; try discriminate; eapply Hstep; [|reflexivity|exact H]; reflexivity|].
  destruct (oper_of_char ch); [|discriminate].
  destruct (lex_loop f rest) eqn:Er; cbn [bind] in H; try discriminate. eapply Hstep; [|reflexivity|exact H]; reflexivity.
Qed.

Lemma strip_fac_wfn : forall (ts : list tok) (l : tree), wfn l = true -> forallb tok_okn ts = true ->
  wfn (fst (strip_fac l ts)) = true /\ forallb tok_okn (snd (strip_fac l ts)) = true.
Proof.
  induction ts as [|t ts IH]; intros l Hl Hts; cbn; [auto|].
  cbn [forallb] in Hts. apply andb_prop in Hts as [Ht Hts'].
  destruct t as [x|v|o|fn|c| |]; cbn in Ht |- *; try discriminate; try (split; [exact Hl|cbn; rewrite ?Ht, Hts'; reflexivity]).
  destruct o; cbn; try (split; [exact Hl|exact Hts']).
  apply IH; [cbn; exact Hl|exact Hts'].
Qed.

Lemma bin_loop_wfn (rec : list tok -> nat -> res (tree * list tok)) :
  leaves_ok rec ->
  (forall ts bp X r, forallb tok_okn ts = true -> rec ts bp = Ok (X, r) -> wfn X = true /\ forallb tok_okn r = true) ->
  forall n l ts bp X r, wfn l = true -> forallb tok_okn ts = true -> head_not_fac ts ->
    bin_loop rec n l ts bp = Ok (X, r) -> wfn X = true /\ forallb tok_okn r = true.
Proof.
  intros Hlv Hrec. induction n as [|n IH]; intros l ts bp X r Hl Hts Hnf H; [discriminate|].
  cbn [bin_loop] in H. destruct ts as [|t ts']; [injection H as <- <-; auto|].
  destruct t; try (injection H as <- <-; auto).
  destruct (binding_pow o <? bp)%nat; [injection H as <- <-; auto|].
  cbn [forallb tok_okn andb] in Hts.
  destruct (rec ts' (binding_pow o + 1)) as [[rg r']|e|w] eqn:E; cbn [bind] in H; try discriminate.
  destruct (Hrec _ _ _ _ Hts E) as (Hrg & Hr').
  refine (IH _ _ _ _ _ _ Hr' (head_ok_not_fac _ _ (Hlv _ _ _ _ E)) H).
  cbn [wfn]. rewrite Hl, Hrg. destruct o; try reflexivity. contradiction.
Qed.

Lemma parse_expr_wfn : forall f (ts : list tok) bp X r,
  forallb tok_okn ts = true -> parse_expr f ts bp = Ok (X, r) -> wfn X = true /\ forallb tok_okn r = true.
Proof.
  induction f as [|f IH]; intros ts bp X r Hts H; [discriminate|].
  rewrite parse_expr_unfold in H.
  destruct (prefix_part f ts bp) as [[l r0]|e|w] eqn:E; cbn [bind] in H; try discriminate.
  assert (Hp : wfn l = true /\ forallb tok_okn r0 = true).
  { unfold prefix_part in E. destruct ts as [|t ts']; [discriminate|].
    cbn [forallb] in Hts. apply andb_prop in Hts as [Ht Hts'].
    destruct t as [x|v|o|fn|c| |]; try discriminate; try (injection E as <- <-; auto).
    - destruct (oper_eqb o OSub) eqn:Eo; [|discriminate].
      destruct (parse_expr f ts' (Nat.max bp BP_PREFIX_MINUS)) as [[v r1]|e0|w0] eqn:E1; cbn [bind] in E; try discriminate.
      injection E as <- <-. destruct (IH _ _ _ _ Hts' E1) as (Hv & Hr1). cbn [wfn]. rewrite Eo, Hv. auto.
    - destruct ts' as [|t2 ts2]; [discriminate|]. destruct t2; try discriminate.
      cbn [forallb tok_okn andb] in Hts'.
      destruct (parse_expr f ts2 0) as [[v r1]|e0|w0] eqn:E1; cbn [bind] in E; try discriminate.
      destruct (IH _ _ _ _ Hts' E1) as (Hv & Hr1).
      destruct r1 as [|t1 r2]; [discriminate|]. destruct t1; try discriminate.
      injection E as <- <-. split; [exact Hv|exact Hr1].
    - destruct (parse_expr f ts' 0) as [[v r1]|e0|w0] eqn:E1; cbn [bind] in E; try discriminate.
      destruct (IH _ _ _ _ Hts' E1) as (Hv & Hr1).
      destruct r1 as [|t1 r2]; [discriminate|]. destruct t1; try discriminate.
      injection E as <- <-. split; [destruct v; exact Hv|exact Hr1]. }
  destruct Hp as (Hl & Hr0).
  destruct (strip_fac_wfn r0 l Hl Hr0) as (Hl' & Hr').
  pose proof (strip_fac_head r0 l) as Hsf.
  destruct (strip_fac l r0) as [l' r'']. cbn [fst snd] in *.
  apply (bin_loop_wfn _ (parse_expr_head f) (IH) _ _ _ _ _ _ Hl' Hr' Hsf H).
Qed.

Lemma implied_mul_okn : forall ts : list tok, forallb tok_okn ts = true -> forallb tok_okn (implied_mul ts) = true.
Proof.
  induction ts as [|a r IH]; intros H; [reflexivity|].
  cbn [forallb] in H. apply andb_prop in H as [Ha Hr].
  cbn [implied_mul]. destruct r as [|b r']; [cbn; rewrite Ha; reflexivity|].
  destruct (needs_cdot a b); cbn [forallb tok_okn]; rewrite Ha, (IH Hr); reflexivity.
Qed.


Lemma parser_image_wfn (s : str) (ts : list tok) (e : tree) :
  lexer s = Ok ts -> parse_unfolded ts = Ok e -> wfn e = true.
Proof.
  intros Hlex Hp.
  assert (Hok : forallb tok_okn ts = true) by (apply (lex_loop_okn _ _ _ Hlex)).
  unfold parse_unfolded in Hp.
  destruct (parse_expr (S (length (implied_mul ts))) (implied_mul ts) 0) as [[e1 r]|e1|w] eqn:E; cbn [bind] in Hp; try discriminate.
  destruct r; [|discriminate]. injection Hp as <-.
  apply (parse_expr_wfn _ _ _ _ _ (implied_mul_okn ts Hok) E).
Qed.
