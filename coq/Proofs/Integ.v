(* Proofs/Integ.v — C04: indefinite integrals are antiderivatives with zero constant of
   integration; the analytical definite integral is the integral.  R instance of
   Model/Poly.v and Model/Definite.v. *)
From Coq Require Import ZArith NArith List Bool Reals Lra Lia Permutation Sorted.
From Coquelicot Require Import Coquelicot.
From SV Require Import Base.Num Base.Outcome Model.Poly Model.Definite
  Proofs.PolyLemmas Proofs.Deriv Proofs.PolyLemmasWf.
Import ListNotations.
Local Open Scope R_scope.

(** * Univariate type *)

Lemma c04_const_zero_simple : forall (p : spoly R),
  (exists cs, s_coefs (simple_integral p) = 0 :: cs) /\ eval_simple (simple_integral p) 0 = 0.
Proof.
  intro p. split.
  - eexists. reflexivity.
  - rewrite eval_simple_psum. unfold simple_integral. cbn [s_coefs psum n0 RNum].
    assert (H : forall cs i, psum 0 (S i) cs = 0).
    { induction cs as [|c cs IH]; intro i; cbn [psum]; [reflexivity|].
      rewrite IH. rewrite pow_i by lia. ring. }
    rewrite H. cbn [pow]. ring.
Qed.

Lemma c04_antiderivative_simple : forall (p : spoly R) (x : R),
  is_derive (eval_simple (simple_integral p)) x (eval_simple p x).
Proof.
  intros p x. pose proof (c03_simple (simple_integral p) x) as H.
  rewrite simple_derivative_integral in H. exact H.
Qed.

(* differentiating the integral gives the polynomial back, coefficient by coefficient *)
Lemma c04_derive_integral_simple : forall (p : spoly R),
  simple_derivative (simple_integral p) = p.
Proof. exact simple_derivative_integral. Qed.

Lemma c04_simple_wrappers : forall (p : spoly R) (v : name),
  s_integral_univariate p = Ok (simple_integral p) /\
  (first_char_is v (s_var p) = true -> s_integral_multivariate p v = simple_integral p) /\
  (first_char_is v (s_var p) = false -> s_integral_multivariate p v = p).
Proof.
  intros p v. unfold s_integral_multivariate.
  repeat split; try reflexivity; intros ->; reflexivity.
Qed.

Lemma s_analytical_integral_eq (p : spoly R) (a b : R) :
  s_analytical_integral p a b
  = Ok (eval_simple (simple_integral p) b - eval_simple (simple_integral p) a).
Proof. reflexivity. Qed.

Lemma simple_is_RInt (p : spoly R) (a b : R) :
  is_RInt (eval_simple p) a b (eval_simple (simple_integral p) b - eval_simple (simple_integral p) a).
Proof.
  apply (is_RInt_derive (eval_simple (simple_integral p)) (eval_simple p)).
  - intros x _. apply c04_antiderivative_simple.
  - intros x _. apply simple_continuous.
Qed.

Lemma c04_definite_simple : forall (p : spoly R) (a b : R),
  s_analytical_integral p a b = Ok (RInt (eval_simple p) a b).
Proof.
  intros p a b. rewrite s_analytical_integral_eq. apply f_equal. symmetry.
  apply is_RInt_unique. apply simple_is_RInt.
Qed.

Lemma c04_additive_simple : forall (p : spoly R) (a b c : R),
  s_analytical_integral p a b = Ok (RInt (eval_simple p) a c + RInt (eval_simple p) c b).
Proof.
  intros p a b c. rewrite c04_definite_simple. apply f_equal. symmetry.
  apply (RInt_Chasles (eval_simple p) a c b); eexists; apply simple_is_RInt.
Qed.

Lemma c04_swap_simple : forall (p : spoly R) (a b : R),
  s_analytical_integral p b a = Ok (- RInt (eval_simple p) a b).
Proof.
  intros p a b. rewrite c04_definite_simple. apply f_equal. symmetry.
  exact (opp_RInt_swap (eval_simple p) a b (ex_intro _ _ (simple_is_RInt p a b))).
Qed.

(* the same two facts on the returned values *)
Lemma c04_additive_swap_values_simple : forall (p : spoly R) (a b c vab vac vcb vba : R),
  s_analytical_integral p a b = Ok vab -> s_analytical_integral p a c = Ok vac ->
  s_analytical_integral p c b = Ok vcb -> s_analytical_integral p b a = Ok vba ->
  vab = vac + vcb /\ vba = - vab.
Proof.
  intros p a b c vab vac vcb vba. rewrite !s_analytical_integral_eq.
  intros H1 H2 H3 H4. injection H1 as <-. injection H2 as <-. injection H3 as <-. injection H4 as <-.
  split; ring.
Qed.

(** * Multivariate type *)

(* zero constant of integration: every term of the integral contains the variable *)
Lemma c04_const_zero_inter : forall (ts : list (term R)) (v : name) (d : term R),
  In d (i_terms (inter_integral ts v)) -> In v (keys (t_vars d)).
Proof.
  intros ts v d Hd. rewrite inter_integral_terms, map_map in Hd.
  apply in_map_iff in Hd. destruct Hd as [t [<- _]].
  cbn [sort_term t_vars].
  eapply Permutation_in; [apply Permutation_sym; apply keys_perm; apply sort_vars_perm|].
  apply integ_term_has_var.
Qed.

(* natural domain for integration in v at x: no exponent -1, and the new exponent p+1
   is integral with p+1 >= 0 or x <> 0, or else x > 0 *)
Definition dom_integ (ts : list (term R)) (v : name) (x : R) : Prop :=
  forall t, In t ts -> forall p, In (v, p) (t_vars t) -> p <> -1 /\ dom_pow (p + 1) x.

Lemma dom_pow_1 (x : R) : dom_pow 1 x.
Proof. left. split; [exact (is_intR_IZR 1)|left; lra]. Qed.

Lemma integ_term_derive (t : term R) (v : name) (e : env R) (x : R) :
  wf_term t -> (forall p, In (v, p) (t_vars t) -> p <> -1 /\ dom_pow (p + 1) x) ->
  is_derive (fun s => term_val (integ_term t v) (upd e v s)) x (term_val t (upd e v x)).
Proof.
  intros Hwf Hdom. unfold integ_term.
  destruct (integ_vars (t_coef t) [] (t_vars t) v) as [d|] eqn:E.
  - destruct (integ_vars_shape _ _ _ _ _ E) as (post1 & p & post2 & Hvs & Hv1 & Hc & Hd).
    cbn [rev app] in Hd. unfold wf_term in Hwf. rewrite Hvs in Hwf.
    destruct (nodup_keys_split _ _ _ _ Hwf) as [_ Hv2].
    assert (Hin : In (v, p) (t_vars t)) by (rewrite Hvs; apply in_or_app; right; left; reflexivity).
    destruct (Hdom p Hin) as [Hp Hdp].
    assert (Hp1 : p + 1 <> 0) by lra.
    pose proof (vars_prod_split_derive post1 post2 e v (p + 1) x Hv1 Hv2 Hp1 Hdp) as HD.
    apply (is_derive_scal_const _ (t_coef t / (p + 1))) in HD.
    unfold term_val. rewrite Hc, Hd, Hvs.
    replace (t_coef t * vars_prod (post1 ++ (v, p) :: post2) (upd e v x))
      with (t_coef t / (p + 1) * ((p + 1) * vars_prod (post1 ++ (v, p + 1 - 1) :: post2) (upd e v x))).
    + exact HD.
    + replace (p + 1 - 1) with p by ring. field. exact Hp1.
  - pose proof (integ_vars_none _ _ _ _ E) as Hv.
    unfold term_val. cbn [t_coef t_vars].
    assert (Hnil : ~ In v (keys (@nil (name * R)))) by (intros []).
    pose proof (vars_prod_split_derive (t_vars t) [] e v 1 x Hv Hnil R1_neq_R0 (dom_pow_1 x)) as HD.
    apply (is_derive_scal_const _ (t_coef t)) in HD.
    replace (t_coef t * vars_prod (t_vars t) (upd e v x))
      with (t_coef t * (1 * vars_prod (t_vars t ++ [(v, 1 - 1)]) (upd e v x))); [exact HD|].
    rewrite vars_prod_app. cbn [vars_prod]. replace (1 - 1) with 0 by ring. rewrite Rpowf_0. ring.
Qed.

Lemma integ_terms_derive (v : name) (e : env R) (x : R) : forall ts,
  wf_terms ts -> dom_integ ts v x ->
  is_derive (fun s => terms_sum (map (fun t => integ_term t v) ts) (upd e v s)) x
            (terms_sum ts (upd e v x)).
Proof.
  induction ts as [|tm ts IH]; intros Hwf Hdom; cbn [map terms_sum].
  - apply @is_derive_const.
  - apply @is_derive_plus.
    + apply integ_term_derive; [apply Hwf; left; reflexivity|apply Hdom; left; reflexivity].
    + apply IH.
      * intros t Ht. apply Hwf. right. exact Ht.
      * intros t Ht. apply Hdom. right. exact Ht.
Qed.

Lemma integ_terms_bound (ts : list (term R)) (v : name) (e : env R) (s : R) :
  terms_bound ts (upd e v s) -> terms_bound (map (fun t => integ_term t v) ts) (upd e v s).
Proof.
  intros H d Hd k Hk. apply in_map_iff in Hd. destruct Hd as [t [<- Ht]].
  destruct (integ_term_keys_in t v k Hk) as [Hk' | ->].
  - exact (H t Ht k Hk').
  - rewrite lookup_upd_same. discriminate.
Qed.

(* C04, antiderivative, multivariate type *)
Lemma c04_antiderivative_inter : forall (ts : list (term R)) (v : name) (e : env R) (x : R),
  wf_terms ts -> terms_bound ts (upd e v x) -> dom_integ ts v x ->
  exists (F : R -> R) (y : R),
    (forall s, eval_inter (i_terms (inter_integral ts v)) (upd e v s) = Ok (F s)) /\
    eval_inter ts (upd e v x) = Ok y /\
    is_derive F x y.
Proof.
  intros ts v e x Hwf Hb Hdom.
  exists (fun s => terms_sum (map (fun t => integ_term t v) ts) (upd e v s)), (terms_sum ts (upd e v x)).
  split; [|split].
  - intro s. rewrite inter_integral_terms, eval_inter_ok.
    + rewrite terms_sum_sort. reflexivity.
    + apply terms_bound_sort. apply integ_terms_bound. eapply terms_bound_upd. exact Hb.
  - apply eval_inter_ok. exact Hb.
  - apply integ_terms_derive; assumption.
Qed.

(* exponents of v in the integral: p + 1 for an exponent p of the source, or 1 *)
Lemma integ_term_exponent (t : term R) (v : name) (q : R) :
  wf_term t -> In (v, q) (t_vars (integ_term t v)) ->
  (exists p, In (v, p) (t_vars t) /\ q = p + 1) \/ (q = 1 /\ ~ In v (keys (t_vars t))).
Proof.
  intros Hwf Hq. unfold integ_term in Hq.
  destruct (integ_vars (t_coef t) [] (t_vars t) v) as [d|] eqn:E.
  - left. destruct (integ_vars_shape _ _ _ _ _ E) as (post1 & p & post2 & Hvs & Hv1 & _ & Hd).
    cbn [rev app] in Hd. unfold wf_term in Hwf. rewrite Hvs in Hwf.
    destruct (nodup_keys_split _ _ _ _ Hwf) as [_ Hv2].
    exists p. split; [rewrite Hvs; apply in_or_app; right; left; reflexivity|].
    rewrite Hd in Hq. apply in_app_or in Hq. destruct Hq as [Hq|[Hq|Hq]].
    + exfalso. apply Hv1. apply in_map_iff. exists (v, q). split; [reflexivity|exact Hq].
    + injection Hq as <-. reflexivity.
    + exfalso. apply Hv2. apply in_map_iff. exists (v, q). split; [reflexivity|exact Hq].
  - right. pose proof (integ_vars_none _ _ _ _ E) as Hv. split; [|exact Hv].
    cbn [t_vars] in Hq. apply in_app_or in Hq. destruct Hq as [Hq|[Hq|[]]].
    + exfalso. apply Hv. apply in_map_iff. exists (v, q). split; [reflexivity|exact Hq].
    + injection Hq as <-. reflexivity.
Qed.

Lemma inter_integral_dom_deriv (ts : list (term R)) (v : name) (x : R) :
  wf_terms ts -> dom_integ ts v x -> dom_deriv (i_terms (inter_integral ts v)) v x.
Proof.
  intros Hwf Hdom d Hd q Hq. rewrite inter_integral_terms, map_map in Hd.
  apply in_map_iff in Hd. destruct Hd as [t [<- Ht]].
  cbn [sort_term t_vars] in Hq.
  assert (Hq' : In (v, q) (t_vars (integ_term t v))).
  { eapply Permutation_in; [apply sort_vars_perm|exact Hq]. }
  destruct (integ_term_exponent t v q (Hwf t Ht) Hq') as [[p [Hp ->]] | [-> _]].
  - exact (proj2 (Hdom t Ht p Hp)).
  - apply dom_pow_1.
Qed.

(* corollary: differentiating the integral gives back a polynomial with the same value *)
Lemma c04_derive_integral_inter : forall (ts : list (term R)) (v : name) (e : env R) (x : R),
  wf_terms ts -> terms_bound ts (upd e v x) -> dom_integ ts v x ->
  exists y, eval_inter ts (upd e v x) = Ok y /\
    eval_inter (i_terms (partial_derivative (i_terms (inter_integral ts v)) v)) (upd e v x) = Ok y.
Proof.
  intros ts v e x Hwf Hb Hdom.
  destruct (c04_antiderivative_inter ts v e x Hwf Hb Hdom) as (F & y & HF & Hy & HdF).
  pose proof (inter_integral_wf ts v Hwf) as HwfI.
  assert (HbI : terms_bound (i_terms (inter_integral ts v)) (upd e v x)).
  { rewrite inter_integral_terms. apply terms_bound_sort. apply integ_terms_bound. exact Hb. }
  destruct (c03_partial (i_terms (inter_integral ts v)) v e x (wf_poly_wf_terms _ HwfI) HbI
              (inter_integral_dom_deriv ts v x Hwf Hdom)) as (f & d & Hf & Hd & Hdf).
  exists y. split; [exact Hy|]. rewrite Hd. apply f_equal.
  assert (Hext : forall s : R, f s = F s).
  { intro s. pose proof (Hf s) as H1. rewrite (HF s) in H1. injection H1 as H1. symmetry. exact H1. }
  apply (is_derive_ext f F x d Hext) in Hdf.
  apply is_derive_unique in Hdf. apply is_derive_unique in HdF. rewrite <- Hdf, <- HdF. reflexivity.
Qed.

Lemma c04_closed : forall (p : ipoly R) (v : name),
  wf_poly p ->
  wf_poly (i_integral_multivariate p v) /\
  (forall k, In k (i_vars (i_integral_multivariate p v)) -> In k (i_vars p) \/ k = v) /\
  (forall q, i_integral_univariate p = Ok q -> wf_poly q /\ (length (i_vars q) <= 1)%nat).
Proof.
  intros p v H. destruct (c03_closed_integral_multivariate p v H) as [H1 H2].
  split; [exact H1|]. split; [exact H2|].
  intros q Hq. exact (c03_closed_integral_univariate p q H Hq).
Qed.

(** * Analytical definite integral of a multivariate polynomial with at most one variable *)

Definition val (r : res R) : R := match r with Ok y => y | _ => 0 end.

(* the variable the univariate entry points choose *)
Definition uni_var (p : ipoly R) : name := match i_vars p with [] => default_x | v :: _ => v end.

Lemma terms_sum_upd_absent (ts : list (term R)) e v s :
  (forall t, In t ts -> ~ In v (keys (t_vars t))) -> terms_sum ts (upd e v s) = terms_sum ts e.
Proof.
  induction ts as [|tm ts IH]; intro H; cbn [terms_sum]; [reflexivity|].
  unfold term_val. rewrite vars_prod_upd_absent by (apply H; left; reflexivity).
  rewrite IH by (intros t Ht; apply H; right; exact Ht). reflexivity.
Qed.

(* evaluation of p through eval_univariate = value of its terms with the variable bound *)
Lemma i_eval_univariate_sum (p : ipoly R) (s : R) :
  wf_poly p -> (length (i_vars p) <= 1)%nat ->
  i_eval_univariate p s = Ok (terms_sum (i_terms p) (upd [] (uni_var p) s)).
Proof.
  intros (_ & _ & Hin) Hl. unfold i_eval_univariate, uni_var.
  destruct (i_vars p) as [|a [|b l]] eqn:E; [| |cbn [length] in Hl; lia].
  - assert (Hno : forall t, In t (i_terms p) -> forall k, ~ In k (keys (t_vars t))).
    { intros t Ht k Hk. destruct (Hin t Ht k Hk). }
    rewrite eval_inter_ok.
    + rewrite terms_sum_upd_absent by (intros t Ht; apply Hno; exact Ht). reflexivity.
    + intros t Ht k Hk. destruct (Hno t Ht k Hk).
  - change [(a, s)] with (upd [] a s). apply eval_inter_ok.
    intros t Ht k Hk. destruct (Hin t Ht k Hk) as [<-|[]].
    rewrite lookup_upd_same. discriminate.
Qed.

Definition antideriv (p : ipoly R) (s : R) : R :=
  terms_sum (map (fun t => integ_term t (uni_var p)) (i_terms p)) (upd [] (uni_var p) s).

Lemma i_integral_univariate_eq (p : ipoly R) :
  (length (i_vars p) <= 1)%nat ->
  i_integral_univariate p = Ok (inter_integral (i_terms p) (uni_var p)).
Proof.
  intro Hl. unfold i_integral_univariate, uni_var.
  destruct (i_vars p) as [|a [|b l]]; try reflexivity. cbn [length] in Hl. lia.
Qed.

Lemma i_eval_univariate_integral (p : ipoly R) (s : R) :
  wf_poly p -> (length (i_vars p) <= 1)%nat ->
  i_eval_univariate (inter_integral (i_terms p) (uni_var p)) s = Ok (antideriv p s).
Proof.
  intros Hwf Hl. set (v := uni_var p). set (Fp := inter_integral (i_terms p) v).
  pose proof (i_integral_univariate_eq p Hl) as HF. fold v in HF. fold Fp in HF.
  destruct (c03_closed_integral_univariate p Fp Hwf HF) as [HwfF HlF].
  assert (Hv : forall k, In k (i_vars Fp) -> k = v).
  { intros k Hk. destruct (c03_closed_integral_multivariate p v Hwf) as [_ H2].
    destruct (H2 k Hk) as [Hp|Hp]; [|exact Hp].
    subst v. unfold uni_var. destruct Hwf as (_ & _ & _).
    destruct (i_vars p) as [|a [|b l]]; [destruct Hp| |cbn [length] in Hl; lia].
    destruct Hp as [<-|[]]. reflexivity. }
  assert (Hsum : eval_inter (i_terms Fp) (upd [] v s) = Ok (antideriv p s)).
  { subst Fp. rewrite inter_integral_terms, eval_inter_ok.
    - rewrite terms_sum_sort. reflexivity.
    - apply terms_bound_sort. apply integ_terms_bound.
      intros t Ht k Hk. destruct Hwf as (_ & _ & Hin). specialize (Hin t Ht k Hk).
      assert (k = v).
      { subst v. unfold uni_var. destruct (i_vars p) as [|a [|b l]]; [destruct Hin| |cbn [length] in Hl; lia].
        destruct Hin as [<-|[]]. reflexivity. }
      subst k. rewrite lookup_upd_same. discriminate. }
  unfold i_eval_univariate.
  destruct (i_vars Fp) as [|a [|b l]] eqn:E; [| |cbn [length] in HlF; lia].
  - (* no variable listed: no term (every term contains v) *)
    assert (Hnil : i_terms Fp = []).
    { destruct (i_terms Fp) as [|d ds] eqn:Et; [reflexivity|exfalso].
      assert (Hd : In d (i_terms Fp)) by (rewrite Et; left; reflexivity).
      pose proof (c04_const_zero_inter (i_terms p) v d Hd) as Hk.
      destruct HwfF as (_ & _ & Hin). specialize (Hin d Hd v Hk). rewrite E in Hin. destruct Hin. }
    rewrite Hnil in *. rewrite <- Hsum. reflexivity.
  - rewrite (Hv a) by (left; reflexivity). exact Hsum.
Qed.

(* F(b) - F(a), unconditionally on the real instance *)
Lemma i_analytical_integral_eq (p : ipoly R) (a b : R) :
  wf_poly p -> (length (i_vars p) <= 1)%nat ->
  i_analytical_integral p a b = Ok (antideriv p b - antideriv p a).
Proof.
  intros Hwf Hl. unfold i_analytical_integral.
  rewrite (i_integral_univariate_eq p Hl). cbn [bind].
  rewrite !(i_eval_univariate_integral p _ Hwf Hl). reflexivity.
Qed.

Lemma dom_pow_pred (p x : R) : p <> -1 -> dom_pow (p + 1) x -> dom_pow p x.
Proof.
  intros Hp [[Hi Hx]|Hx]; [|right; exact Hx]. left.
  set (n := Int_part (p + 1)) in *. unfold is_intR in Hi. fold n in Hi.
  assert (E : p = IZR (n - 1)) by (rewrite minus_IZR; lra).
  split; [rewrite E; apply is_intR_IZR|].
  destruct Hx as [Hx|Hx]; [left|right; exact Hx].
  rewrite Hi in Hx. apply le_IZR in Hx.
  assert (n <> 0)%Z by (intro H0; apply Hp; rewrite E, H0; cbn; lra).
  rewrite E. apply IZR_le. lia.
Qed.

Lemma dom_integ_deriv (ts : list (term R)) v x : dom_integ ts v x -> dom_deriv ts v x.
Proof.
  intros H t Ht p Hp. destruct (H t Ht p Hp) as [H1 H2]. apply dom_pow_pred; assumption.
Qed.

Lemma antideriv_is_RInt (p : ipoly R) (a b : R) :
  wf_poly p -> (length (i_vars p) <= 1)%nat ->
  (forall x, Rmin a b <= x <= Rmax a b -> dom_integ (i_terms p) (uni_var p) x) ->
  is_RInt (fun t => val (i_eval_univariate p t)) a b (antideriv p b - antideriv p a).
Proof.
  intros Hwf Hl Hdom. set (v := uni_var p) in *.
  apply is_RInt_ext with (f := fun t => terms_sum (i_terms p) (upd [] v t)).
  { intros t _. rewrite (i_eval_univariate_sum p t Hwf Hl). reflexivity. }
  apply (is_RInt_derive (antideriv p) (fun t => terms_sum (i_terms p) (upd [] v t))).
  - intros x Hx. apply integ_terms_derive; [apply wf_poly_wf_terms; exact Hwf|apply Hdom; exact Hx].
  - intros x Hx. apply @ex_derive_continuous. eexists.
    apply deriv_terms_derive; [apply wf_poly_wf_terms; exact Hwf|].
    apply dom_integ_deriv. apply Hdom. exact Hx.
Qed.

Lemma c04_definite_inter : forall (p : ipoly R) (a b : R),
  wf_poly p -> (length (i_vars p) <= 1)%nat ->
  (forall x, Rmin a b <= x <= Rmax a b -> dom_integ (i_terms p) (uni_var p) x) ->
  i_analytical_integral p a b = Ok (RInt (fun t => val (i_eval_univariate p t)) a b).
Proof.
  intros p a b Hwf Hl Hdom. rewrite (i_analytical_integral_eq p a b Hwf Hl). apply f_equal.
  symmetry. apply is_RInt_unique. apply antideriv_is_RInt; assumption.
Qed.

Lemma c04_additive_swap_values_inter : forall (p : ipoly R) (a b c vab vac vcb vba : R),
  wf_poly p -> (length (i_vars p) <= 1)%nat ->
  i_analytical_integral p a b = Ok vab -> i_analytical_integral p a c = Ok vac ->
  i_analytical_integral p c b = Ok vcb -> i_analytical_integral p b a = Ok vba ->
  vab = vac + vcb /\ vba = - vab.
Proof.
  intros p a b c vab vac vcb vba Hwf Hl. rewrite !(i_analytical_integral_eq p _ _ Hwf Hl).
  intros H1 H2 H3 H4. injection H1 as <-. injection H2 as <-. injection H3 as <-. injection H4 as <-.
  split; ring.
Qed.

(* the two corollaries in integral form, on the natural domain *)
Lemma c04_additive_inter : forall (p : ipoly R) (a b c : R),
  wf_poly p -> (length (i_vars p) <= 1)%nat ->
  (forall x, Rmin a c <= x <= Rmax a c -> dom_integ (i_terms p) (uni_var p) x) ->
  (forall x, Rmin c b <= x <= Rmax c b -> dom_integ (i_terms p) (uni_var p) x) ->
  i_analytical_integral p a b
  = Ok (RInt (fun t => val (i_eval_univariate p t)) a c + RInt (fun t => val (i_eval_univariate p t)) c b).
Proof.
  intros p a b c Hwf Hl H1 H2. rewrite (i_analytical_integral_eq p a b Hwf Hl). apply f_equal.
  rewrite (is_RInt_unique _ _ _ _ (antideriv_is_RInt p a c Hwf Hl H1)).
  rewrite (is_RInt_unique _ _ _ _ (antideriv_is_RInt p c b Hwf Hl H2)). ring.
Qed.

Lemma c04_swap_inter : forall (p : ipoly R) (a b : R),
  wf_poly p -> (length (i_vars p) <= 1)%nat ->
  (forall x, Rmin a b <= x <= Rmax a b -> dom_integ (i_terms p) (uni_var p) x) ->
  i_analytical_integral p b a = Ok (- RInt (fun t => val (i_eval_univariate p t)) a b).
Proof.
  intros p a b Hwf Hl H. rewrite (i_analytical_integral_eq p b a Hwf Hl). apply f_equal.
  rewrite (is_RInt_unique _ _ _ _ (antideriv_is_RInt p a b Hwf Hl H)). ring.
Qed.

(* more than one variable: the error is propagated, never a panic *)
Lemma c04_definite_too_many : forall (p : ipoly R) (a b : R),
  (2 <= length (i_vars p))%nat -> i_analytical_integral p a b = Err ETooManyVariables.
Proof.
  intros p a b H. unfold i_analytical_integral, i_integral_univariate.
  destruct (i_vars p) as [|x [|y l]]; cbn [length] in H; try lia. reflexivity.
Qed.

(** * Zero constant of integration, as a value: the integral vanishes where v = 0 *)

Lemma Rpowf_zero_pos (p : R) : 0 < p -> Rpowf 0 p = 0.
Proof.
  intro Hp. unfold Rpowf. destruct (Req_EM_T p (IZR (Int_part p))) as [E|_].
  - destruct (Int_part p) as [|q|q].
    + rewrite E in Hp. lra.
    + cbn [powerRZ]. apply pow_i. apply Pos2Nat.is_pos.
    + rewrite E in Hp. pose proof (IZR_lt (Zneg q) 0 ltac:(lia)). lra.
  - destruct (Rlt_dec 0 0) as [H|_]; [lra|reflexivity].
Qed.

Lemma vars_prod_zero (vs : list (name * R)) e v q :
  In (v, q) vs -> 0 < q -> vars_prod vs (upd e v 0) = 0.
Proof.
  induction vs as [|[k p] vs IH]; intros Hin Hq; [destruct Hin|].
  cbn [vars_prod]. destruct Hin as [Hin|Hin].
  - injection Hin as -> ->. rewrite getv_upd_same, Rpowf_zero_pos by exact Hq. ring.
  - rewrite IH by assumption. ring.
Qed.

Lemma integ_term_has_exp (t : term R) (v : name) :
  exists q, In (v, q) (t_vars (integ_term t v)) /\
            ((exists p, In (v, p) (t_vars t) /\ q = p + 1) \/ q = 1).
Proof.
  unfold integ_term. destruct (integ_vars (t_coef t) [] (t_vars t) v) as [d|] eqn:E.
  - destruct (integ_vars_shape _ _ _ _ _ E) as (post1 & p & post2 & Hvs & _ & _ & Hd).
    exists (p + 1). split.
    + rewrite Hd. cbn [rev app]. apply in_or_app. right. left. reflexivity.
    + left. exists p. split; [|reflexivity]. rewrite Hvs. apply in_or_app. right. left. reflexivity.
  - exists 1. split; [|right; reflexivity]. cbn [t_vars]. apply in_or_app. right. left. reflexivity.
Qed.

Lemma c04_vanish_at_zero : forall (ts : list (term R)) (v : name) (e : env R),
  terms_bound ts (upd e v 0) ->
  (forall t, In t ts -> forall p, In (v, p) (t_vars t) -> -1 < p) ->
  eval_inter (i_terms (inter_integral ts v)) (upd e v 0) = Ok 0.
Proof.
  intros ts v e Hb Hpos. rewrite inter_integral_terms, eval_inter_ok.
  2:{ apply terms_bound_sort. apply integ_terms_bound. exact Hb. }
  rewrite terms_sum_sort. apply f_equal.
  clear Hb. induction ts as [|tm ts IH]; cbn [map terms_sum]; [reflexivity|].
  rewrite IH by (intros t Ht; apply Hpos; right; exact Ht).
  destruct (integ_term_has_exp tm v) as [q [Hq Hsrc]].
  assert (Hq0 : 0 < q).
  { destruct Hsrc as [[p [Hp ->]]| ->]; [|lra].
    pose proof (Hpos tm (or_introl eq_refl) p Hp). lra. }
  unfold term_val. rewrite (vars_prod_zero _ e v q Hq Hq0). ring.
Qed.

(** * Non-vacuity *)

(* 3 x^2 - 4 x^-3 on [1, 2]: well-formed, one variable, inside the domain *)
Example c04_definite_hyps :
  let p := {| i_terms := [ {| t_coef := 3; t_vars := [(ex_x, 2)] |};
                           {| t_coef := -4; t_vars := [(ex_x, -3)] |} ];
              i_vars := [ex_x] |} in
  wf_poly p /\ (length (i_vars p) <= 1)%nat /\
  (forall x, Rmin 1 2 <= x <= Rmax 1 2 -> dom_integ (i_terms p) (uni_var p) x).
Proof.
  cbn zeta. split; [|split].
  - unfold wf_poly, term_sorted. cbn [i_terms i_vars]. split; [|split].
    + intros t [<-|[<-|[]]]; cbn [t_vars keys map fst]; repeat constructor.
    + repeat constructor.
    + intros t [<-|[<-|[]]]; cbn [t_vars keys map fst]; intros k Hk; exact Hk.
  - cbn. lia.
  - intros x Hx. unfold Rmin, Rmax in Hx. destruct (Rle_dec 1 2) as [_|N]; [|lra].
    cbn [i_terms uni_var i_vars].
    intros t [<-|[<-|[]]] q Hq; cbn [t_vars In] in Hq; destruct Hq as [Hq|[]];
      injection Hq as <-; (split; [lra|right; lra]).
Qed.
