(* Proofs/QuadFloat.v — C05, rounding of the ACCUMULATION of the quadrature rules, proved for the
   binary64 instance of Model/Quad.v ([@trapezoid float FNum], [@simpson13 float FNum],
   [@definite_integral float FNum]: the functions that are extracted and run against the code).
   Bridge to the reals: Flocq's [B2R (Prim2B x)].   eps = 2^-53.

   The integrand  f : float -> res float  is ARBITRARY.  The theorems relate the returned float
   to the exact weighted sum of the values f actually returned at the nodes the loop actually
   visited (x_0 = start, x_(i+1) = x_i (+) h in floating point; the last trapezoid value is taken
   at `end_`, as in the code).  NOT covered here: the distance between the visited nodes and the
   ideal nodes a + i*h, and the rounding inside the integrand (for polynomials: C01's evaluation
   bound, Proofs/PolyFloat.v).

   (0) generic unrolling, every instance of Num:
         trapezoid_unroll / trapezoid_samples    trapezoid = Ok r  <->  sampled values + closed form
         simpson13_unroll / simpson13_samples    the same for the 1/3 rule
   (1) trapezoid_float_error   m segments:
         |r - h*(v_0 + 2 sum v_i + v_m)/2| <= ((1+eps)^(m+2) - 1) * |h| * (|v_0| + 2 sum|v_i| + |v_m|)/2
   (2) simpson13_float_error   2p segments (p panels):
         |r - h*(v_0 + sum_j (4 vm_j + 2 ve_j) + 4 vm_p + ve_p)/3|
           <= ((1+eps)^(p+3) - 1) * |h| * (|v_0| + sum_j (4|vm_j| + 2|ve_j|) + 4|vm_p| + |ve_p|)/3
   (3) definite_integral_even_float_error   the dispatch for an even segment count >= 2
   (4) simpson38_float_error   one 3/8 panel (the one definite_integral splices in for odd counts):
         |r - 3h*(f0 + 3 f1 + 3 f2 + f3)/8| <= ((1+eps)^7 - 1) * 3|h| * (|f0| + 3|f1| + 3|f2| + |f3|)/8
       (here the products 3*f_i and 3*h are rounded: hypotheses [okmul]).
   (5) definite_integral for every segment count >= 1:
         definite_integral_one_float_error     1 segment  = trapezoid, exponent 3
         definite_integral_even_float_error    2p, p >= 1 = (3)
         definite_integral_three_float_error   3 segments = the 3/8 panel alone, exponent 7
         definite_integral_odd_float_error     2p+3, p >= 1: r = fl(fl(0 + s38) + s13),
           |r - (E38 + E13)| <= ((1+eps)^(max 7 (p+3) + 1) - 1) * (M38 + M13)
           under the hypotheses of (4) and (2) plus "r is finite".
   Hypotheses (all decidable by running the model; see the Examples): every partial sum finite,
   every doubled / quadrupled value finite (then it is exact), the product h*sum [okmul] and the
   final division [okdiv] (finite, exact value zero or of magnitude >= 2^-1022).               *)
From Coq Require Import ZArith NArith List Bool Arith Reals Floats Lia Lra.
From Flocq Require Import Core Plus_error Relative BinarySingleNaN PrimFloat.
From SV Require Import Base.Num Base.Outcome Model.Stats Model.Quad Proofs.Stats
  Proofs.StatsFloat Proofs.Arr2DFloat Proofs.PolyFloat Proofs.SubstFloat.
Import ListNotations.

(* ======================================================================================= *)
(* (0) unrolling, generic in Num                                                           *)
Section Unroll.
  Context {T : Type} {NT : Num T}.
  Variable f : T -> res T.

  Lemma loopN_nat {S : Type} (n : N) (body : S -> res S) (s : S) :
    loopN n body s = Nat.iter (N.to_nat n) (fun r => bind r body) (Ok s).
  Proof. unfold loopN. apply N2Nat.inj_iter. Qed.

  Lemma iter_S {A : Type} n (g : A -> A) x : Nat.iter (S n) g x = g (Nat.iter n g x).
  Proof. reflexivity. Qed.
  Lemma iter_0 {A : Type} (g : A -> A) x : Nat.iter 0 g x = x.
  Proof. reflexivity. Qed.

  (* ---- trapezoid ---- *)
  (* the nodes the loop computes: x_0 = a, x_(i+1) = x_i + h *)
  Definition tnode (h a : T) (i : nat) : T := Nat.iter i (fun x => nadd x h) a.
  (* the accumulator after the loop: ((s0 + 2 v_1) + 2 v_2) + ... *)
  Definition trap_acc (vs : list T) (s0 : T) : T :=
    fold_left (fun s v => nadd s (nmul ntwo v)) vs s0.
  (* vs = the values returned at the interior nodes x_1 .. x_(length vs) *)
  Definition trap_samples (h a : T) (vs : list T) : Prop :=
    forall i, i < length vs -> f (tnode h a (S i)) = Ok (nth i vs n0).

  Lemma trap_samples_snoc_inv h a vs v :
    trap_samples h a (vs ++ [v]) ->
    trap_samples h a vs /\ f (tnode h a (S (length vs))) = Ok v.
  Proof.
    intros H. split.
    - intros i Hi. rewrite (H i) by (rewrite app_length; cbn [length]; lia).
      rewrite app_nth1 by exact Hi. reflexivity.
    - rewrite (H (length vs)) by (rewrite app_length; cbn [length]; lia).
      rewrite app_nth2 by lia. rewrite Nat.sub_diag. reflexivity.
  Qed.

  Lemma trap_samples_snoc h a vs v :
    trap_samples h a vs -> f (tnode h a (S (length vs))) = Ok v ->
    trap_samples h a (vs ++ [v]).
  Proof.
    intros H Hv i Hi. rewrite app_length in Hi. cbn [length] in Hi.
    destruct (Nat.eq_dec i (length vs)) as [->|Hne].
    - rewrite app_nth2 by lia. rewrite Nat.sub_diag. exact Hv.
    - rewrite app_nth1 by lia. apply H. lia.
  Qed.

  Lemma trap_loop_unroll h a s0 vs :
    trap_samples h a vs ->
    Nat.iter (length vs) (fun r => bind r (trap_body f h)) (Ok (a, s0))
    = Ok (tnode h a (length vs), trap_acc vs s0).
  Proof.
    induction vs as [|v vs IH] using rev_ind; intros H; [reflexivity|].
    destruct (trap_samples_snoc_inv _ _ _ _ H) as [H1 H2].
    rewrite app_length. cbn [length]. rewrite Nat.add_1_r, iter_S.
    rewrite (IH H1). cbn [bind trap_body].
    change (nadd (tnode h a (length vs)) h) with (tnode h a (S (length vs))).
    rewrite H2. cbn [bind]. unfold trap_acc. rewrite fold_left_app. reflexivity.
  Qed.

  Lemma trap_loop_samples h a s0 : forall k st,
    Nat.iter k (fun r => bind r (trap_body f h)) (Ok (a, s0)) = Ok st ->
    exists vs, length vs = k /\ trap_samples h a vs /\ st = (tnode h a k, trap_acc vs s0).
  Proof.
    induction k as [|k IH]; intros st H.
    - exists []. rewrite iter_0 in H. injection H as <-. repeat split. intros i Hi; inversion Hi.
    - rewrite iter_S in H. apply bind_ok in H. destruct H as [st' [H1 H2]].
      destruct (IH _ H1) as [vs [L [Hs ->]]].
      cbn [trap_body] in H2.
      change (nadd (tnode h a k) h) with (tnode h a (S k)) in H2.
      apply bind_ok in H2. destruct H2 as [v [Hv E]]. injection E as <-.
      exists (vs ++ [v]). split; [rewrite app_length; cbn [length]; lia|]. split.
      + apply trap_samples_snoc; [exact Hs|]. rewrite L. exact Hv.
      + unfold trap_acc. rewrite fold_left_app. reflexivity.
  Qed.

  Definition trap_h (a b : T) (m : nat) : T := ndiv (nsub b a) (nofN (N.of_nat m)).
  Definition trap_value (h v0 : T) (vs : list T) (ve : T) : T :=
    ndiv (nmul h (nadd (trap_acc vs v0) ve)) ntwo.

  Lemma pred_of_nat m : N.to_nat (N.pred (N.of_nat m)) = m - 1.
  Proof. rewrite N2Nat.inj_pred, Nat2N.id. lia. Qed.

  (* sampled values -> the call returns the closed form *)
  Lemma trapezoid_unroll (a b : T) (m : nat) v0 vs ve :
    f a = Ok v0 -> length vs = m - 1 -> trap_samples (trap_h a b m) a vs -> f b = Ok ve ->
    trapezoid f a b (N.of_nat m) = Ok (trap_value (trap_h a b m) v0 vs ve).
  Proof.
    intros H0 L Hs He. unfold trapezoid. fold (trap_h a b m).
    rewrite H0. cbn [bind]. rewrite loopN_nat, pred_of_nat, <- L.
    rewrite (trap_loop_unroll _ _ _ _ Hs). cbn [bind snd]. rewrite He. reflexivity.
  Qed.

  (* the call returns a value -> the samples exist and the value is the closed form *)
  Lemma trapezoid_samples (a b : T) (m : nat) r :
    trapezoid f a b (N.of_nat m) = Ok r ->
    exists v0 vs ve,
      f a = Ok v0 /\ length vs = m - 1 /\ trap_samples (trap_h a b m) a vs /\ f b = Ok ve /\
      r = trap_value (trap_h a b m) v0 vs ve.
  Proof.
    unfold trapezoid. fold (trap_h a b m). intros H.
    apply bind_ok in H. destruct H as [v0 [H0 H]].
    apply bind_ok in H. destruct H as [st [Hl H]].
    apply bind_ok in H. destruct H as [ve [He H]]. injection H as <-.
    rewrite loopN_nat, pred_of_nat in Hl.
    destruct (trap_loop_samples _ _ _ _ _ Hl) as [vs [L [Hs ->]]].
    exists v0, vs, ve. repeat split; assumption.
  Qed.

  (* ---- simpson 1/3 ---- *)
  (* panel end nodes: y_0 = a, y_(j+1) = y_j + 2h; midpoint of panel j+1: y_(j+1) - h *)
  Definition snode (h a : T) (j : nat) : T := Nat.iter j (fun x => nadd x (nmul ntwo h)) a.
  Definition s13_term (q : T * T) : T := nadd (nmul (nofZ 4) (fst q)) (nmul ntwo (snd q)).
  Definition s13_acc (ps : list (T * T)) (s0 : T) : T :=
    fold_left (fun s q => nadd s (s13_term q)) ps s0.
  (* ps = (value at the midpoint, value at the end node) of panels 1 .. length ps *)
  Definition s13_samples (h a : T) (ps : list (T * T)) : Prop :=
    forall j, j < length ps ->
      f (nsub (snode h a (S j)) h) = Ok (fst (nth j ps (n0, n0))) /\
      f (snode h a (S j)) = Ok (snd (nth j ps (n0, n0))).

  Lemma s13_samples_snoc_inv h a ps q :
    s13_samples h a (ps ++ [q]) ->
    s13_samples h a ps /\
    f (nsub (snode h a (S (length ps))) h) = Ok (fst q) /\ f (snode h a (S (length ps))) = Ok (snd q).
  Proof.
    intros H. split.
    - intros j Hj. specialize (H j). rewrite app_length in H. cbn [length] in H.
      rewrite app_nth1 in H by exact Hj. apply H. lia.
    - specialize (H (length ps)). rewrite app_length in H. cbn [length] in H.
      rewrite app_nth2, Nat.sub_diag in H by lia. apply H. lia.
  Qed.

  Lemma s13_samples_snoc h a ps q :
    s13_samples h a ps ->
    f (nsub (snode h a (S (length ps))) h) = Ok (fst q) -> f (snode h a (S (length ps))) = Ok (snd q) ->
    s13_samples h a (ps ++ [q]).
  Proof.
    intros H Hm He j Hj. rewrite app_length in Hj. cbn [length] in Hj.
    destruct (Nat.eq_dec j (length ps)) as [->|Hne].
    - rewrite app_nth2 by lia. rewrite Nat.sub_diag. cbn [nth]. split; assumption.
    - rewrite app_nth1 by lia. apply H. lia.
  Qed.

  Lemma s13_loop_unroll h a s0 ps :
    s13_samples h a ps ->
    Nat.iter (length ps) (fun r => bind r (s13_body f h)) (Ok (a, s0))
    = Ok (snode h a (length ps), s13_acc ps s0).
  Proof.
    induction ps as [|q ps IH] using rev_ind; intros H; [reflexivity|].
    destruct (s13_samples_snoc_inv _ _ _ _ H) as [H1 [H2 H3]].
    rewrite app_length. cbn [length]. rewrite Nat.add_1_r, iter_S.
    rewrite (IH H1). cbn [bind s13_body].
    change (nadd (snode h a (length ps)) (nmul ntwo h)) with (snode h a (S (length ps))).
    rewrite H2. cbn [bind]. rewrite H3. cbn [bind].
    unfold s13_acc. rewrite fold_left_app. reflexivity.
  Qed.

  Lemma s13_loop_samples h a s0 : forall k st,
    Nat.iter k (fun r => bind r (s13_body f h)) (Ok (a, s0)) = Ok st ->
    exists ps, length ps = k /\ s13_samples h a ps /\ st = (snode h a k, s13_acc ps s0).
  Proof.
    induction k as [|k IH]; intros st H.
    - exists []. rewrite iter_0 in H. injection H as <-. repeat split; inversion H.
    - rewrite iter_S in H. apply bind_ok in H. destruct H as [st' [H1 H2]].
      destruct (IH _ H1) as [ps [L [Hs ->]]].
      cbn [s13_body] in H2.
      change (nadd (snode h a k) (nmul ntwo h)) with (snode h a (S k)) in H2.
      apply bind_ok in H2. destruct H2 as [vm [Hm H2]].
      apply bind_ok in H2. destruct H2 as [ve [He E]]. injection E as <-.
      exists (ps ++ [(vm, ve)]). split; [rewrite app_length; cbn [length]; lia|]. split.
      + apply s13_samples_snoc; [exact Hs| |]; rewrite L; assumption.
      + unfold s13_acc. rewrite fold_left_app. reflexivity.
  Qed.

  Definition s13_value (h v0 : T) (ps : list (T * T)) (vm ve : T) : T :=
    ndiv (nmul h (nadd (s13_acc ps v0) (nadd (nmul (nofZ 4) vm) ve))) (nofZ 3).

  Lemma pred_half_of_nat p : N.to_nat (N.pred (N.of_nat (2 * p) / 2)) = p - 1.
  Proof.
    rewrite Nat2N.inj_mul. change (N.of_nat 2) with 2%N.
    rewrite N.mul_comm, N.div_mul by discriminate. apply pred_of_nat.
  Qed.

  Lemma simpson13_unroll (h a : T) (p : nat) v0 ps vm ve :
    f a = Ok v0 -> length ps = p - 1 -> s13_samples h a ps ->
    f (nsub (snode h a (S (p - 1))) h) = Ok vm -> f (snode h a (S (p - 1))) = Ok ve ->
    simpson13 f h a (N.of_nat (2 * p)) = Ok (s13_value h v0 ps vm ve).
  Proof.
    intros H0 L Hs Hm He. unfold simpson13.
    rewrite H0. cbn [bind]. rewrite loopN_nat, pred_half_of_nat, <- L.
    rewrite (s13_loop_unroll _ _ _ _ Hs). cbn [bind].
    change (nadd (snode h a (length ps)) (nmul ntwo h)) with (snode h a (S (length ps))).
    rewrite L, Hm. cbn [bind]. rewrite He. reflexivity.
  Qed.

  Lemma simpson13_samples (h a : T) (p : nat) r :
    simpson13 f h a (N.of_nat (2 * p)) = Ok r ->
    exists v0 ps vm ve,
      f a = Ok v0 /\ length ps = p - 1 /\ s13_samples h a ps /\
      f (nsub (snode h a (S (p - 1))) h) = Ok vm /\ f (snode h a (S (p - 1))) = Ok ve /\
      r = s13_value h v0 ps vm ve.
  Proof.
    unfold simpson13. intros H.
    apply bind_ok in H. destruct H as [v0 [H0 H]].
    apply bind_ok in H. destruct H as [st [Hl H]].
    rewrite loopN_nat, pred_half_of_nat in Hl.
    destruct (s13_loop_samples _ _ _ _ _ Hl) as [ps [L [Hs ->]]].
    change (nadd (snode h a (p - 1)) (nmul ntwo h)) with (snode h a (S (p - 1))) in H.
    apply bind_ok in H. destruct H as [vm [Hm H]].
    apply bind_ok in H. destruct H as [ve [He H]]. injection H as <-.
    exists v0, ps, vm, ve.
    split; [exact H0|]. split; [exact L|]. split; [exact Hs|]. split; [exact Hm|]. split; [exact He|reflexivity].
  Qed.
End Unroll.

(* ======================================================================================= *)
(* binary64                                                                                *)
Local Open Scope R_scope.
Local Notation pfloat := PrimFloat.float.
Local Notation B64 := (binary_float FloatOps.prec FloatOps.emax).
Local Notation Badd := (@Bplus FloatOps.prec FloatOps.emax Hprec Hmax mode_NE).
Local Notation fexp64 := (SpecFloat.fexp FloatOps.prec FloatOps.emax).
Local Notation rnd64 := (round radix2 fexp64 ZnearestE).

(* ---- small constants are exact; doubling / quadrupling is exact when finite ----------- *)
Lemma FR_small (n : nat) : (Z.of_nat n < 2 ^ 53)%Z ->
  ffin (@nofZ pfloat FNum (Z.of_nat n)) /\ FR (@nofZ pfloat FNum (Z.of_nat n)) = INR n.
Proof. exact (nofnat_float_exact_core n). Qed.

Lemma FR_two : FR (@ntwo pfloat FNum) = 2 /\ ffin (@ntwo pfloat FNum).
Proof.
  destruct (FR_small 2 ltac:(cbn; lia)) as [F E]. split; [|exact F].
  change (@ntwo pfloat FNum) with (@nofZ pfloat FNum (Z.of_nat 2)). rewrite E. cbn [INR]. lra.
Qed.
Lemma FR_three : FR (@nofZ pfloat FNum 3) = 3 /\ ffin (@nofZ pfloat FNum 3).
Proof.
  destruct (FR_small 3 ltac:(cbn; lia)) as [F E]. split; [|exact F].
  change (@nofZ pfloat FNum 3) with (@nofZ pfloat FNum (Z.of_nat 3)). rewrite E. cbn [INR]. lra.
Qed.
Lemma FR_four : FR (@nofZ pfloat FNum 4) = 4 /\ ffin (@nofZ pfloat FNum 4).
Proof.
  destruct (FR_small 4 ltac:(cbn; lia)) as [F E]. split; [|exact F].
  change (@nofZ pfloat FNum 4) with (@nofZ pfloat FNum (Z.of_nat 4)). rewrite E. cbn [INR]. lra.
Qed.

Lemma format_double (x : R) : generic_format radix2 fexp64 x -> generic_format radix2 fexp64 (2 * x).
Proof.
  intros G. apply (generic_format_FLT radix2 (-1074) 53).
  destruct (@FLT_format_generic radix2 (-1074) 53 (eq_refl : Prec_gt_0 53) x G) as [g Hx Hm Hg].
  apply (FLT_spec radix2 (-1074) 53 _ (Float radix2 (Fnum g) (Fexp g + 1))).
  - rewrite Hx. unfold F2R. cbn [Fnum Fexp]. rewrite bpow_plus. change (bpow radix2 1) with 2. ring.
  - exact Hm.
  - cbn [Fexp]. lia.
Qed.

Lemma mul_exact_gen (c v : pfloat) (k : R) :
  FR c = k -> (forall x, generic_format radix2 fexp64 x -> generic_format radix2 fexp64 (k * x)) ->
  ffin (PrimFloat.mul c v) -> ffin v /\ FR (PrimFloat.mul c v) = k * FR v.
Proof.
  intros Ec G F. split; [apply mul_finite_iff in F; apply F|].
  rewrite (mul_finite_round c v F), Ec.
  apply round_generic; [apply valid_rnd_N|]. apply G. apply generic_format_B2R.
Qed.

Lemma mul_two_exact (v : pfloat) : ffin (PrimFloat.mul ntwo v) ->
  ffin v /\ FR (PrimFloat.mul ntwo v) = 2 * FR v.
Proof. apply mul_exact_gen; [apply FR_two|exact format_double]. Qed.

Lemma mul_four_exact (v : pfloat) : ffin (PrimFloat.mul (nofZ 4) v) ->
  ffin v /\ FR (PrimFloat.mul (nofZ 4) v) = 4 * FR v.
Proof.
  apply mul_exact_gen; [apply FR_four|].
  intros x G. replace (4 * x) with (2 * (2 * x)) by ring. apply format_double, format_double, G.
Qed.

(* a finite sum has finite operands *)
Lemma add_ffin_inv (s x : pfloat) : ffin (PrimFloat.add s x) -> ffin s /\ ffin x.
Proof.
  unfold ffin. rewrite add_equiv.
  destruct (Prim2B s) as [sa|sa| |sa ma ea Ha], (Prim2B x) as [sb|sb| |sb mb eb Hb]; intros H;
    first [ split; reflexivity
          | exfalso; cbn in H; try destruct (Bool.eqb sa sb); discriminate H ].
Qed.

(* ---- recursive summation from an arbitrary finite start ------------------------------- *)
Definition fsum (l : list pfloat) (s0 : pfloat) : pfloat := fold_left PrimFloat.add l s0.

Lemma fsum_snoc l x s0 : fsum (l ++ [x]) s0 = PrimFloat.add (fsum l s0) x.
Proof. unfold fsum. rewrite fold_left_app. reflexivity. Qed.

Lemma Rsum_nil : Rsum [] = 0.
Proof. reflexivity. Qed.

Lemma fsum_error (l : list pfloat) (s0 : pfloat) :
  (forall k, (k <= length l)%nat -> ffin (fsum (firstn k l) s0)) ->
  (forall x, In x l -> ffin x) /\ ffin (fsum l s0) /\
  Rabs (FR (fsum l s0) - (FR s0 + Rsum (map FR l))) <=
    ((1 + feps) ^ length l - 1) * (absFR s0 + Rsum (map absFR l)).
Proof.
  induction l as [|x l IH] using rev_ind; intros Hpre.
  - split; [intros x []|]. split; [exact (Hpre 0%nat (le_n _))|].
    cbn [length map pow fsum fold_left]. rewrite Rsum_nil.
    replace (FR s0 - (FR s0 + 0)) with 0 by ring. rewrite Rabs_R0. lra.
  - assert (Hpl : forall k, (k <= length l)%nat -> ffin (fsum (firstn k l) s0)).
    { intros k Hk. specialize (Hpre k). rewrite app_length in Hpre. cbn [length] in Hpre.
      rewrite firstn_app in Hpre. replace (k - length l)%nat with 0%nat in Hpre by lia.
      cbn [firstn] in Hpre. rewrite app_nil_r in Hpre. apply Hpre. lia. }
    assert (Hfa : ffin (PrimFloat.add (fsum l s0) x)).
    { specialize (Hpre (length (l ++ [x])) (le_n _)).
      rewrite firstn_all, fsum_snoc in Hpre. exact Hpre. }
    destruct (IH Hpl) as [Hfl [Fs Es]].
    destruct (add_ffin_inv _ _ Hfa) as [_ Hfx].
    split; [|split].
    + intros y Hy. apply in_app_or in Hy. destruct Hy as [Hy|[<-|[]]]; [apply Hfl; exact Hy|exact Hfx].
    + rewrite fsum_snoc. exact Hfa.
    + rewrite fsum_snoc.
      destruct (add_finite_rel _ _ Fs Hfx Hfa) as [d [Hd Hr]].
      rewrite Hr, !map_app, app_length. cbn [map length].
      rewrite !Rsum_snoc. replace (length l + 1)%nat with (S (length l)) by lia.
      rewrite <- tech_pow_Rmult. rewrite (Rmult_comm (1 + feps)).
      replace (FR s0 + (Rsum (map FR l) + FR x)) with ((FR s0 + Rsum (map FR l)) + FR x) by ring.
      replace (absFR s0 + (Rsum (map absFR l) + absFR x))
        with ((absFR s0 + Rsum (map absFR l)) + Rabs (FR x)) by (unfold absFR; ring).
      apply step_bound.
      * apply Rlt_le, feps_pos.
      * apply pow1p_ge1, Rlt_le, feps_pos.
      * exact Hd.
      * eapply Rle_trans; [apply Rabs_triang|]. apply Rplus_le_compat; [apply Rle_refl|].
        rewrite map_absFR. apply Rsum_abs_le.
      * exact Es.
Qed.

(* two more roundings (the product by h and the final division) on top of a sum bound *)
Lemma two_more_roundings (P A V s d1 d2 : R) :
  1 <= P -> Rabs d1 <= feps -> Rabs d2 <= feps -> Rabs V <= A ->
  Rabs (s - V) <= (P - 1) * A ->
  Rabs (s * (1 + d1) * (1 + d2) - V) <= (P * (1 + feps) * (1 + feps) - 1) * A.
Proof.
  intros HP Hd1 Hd2 HV E. pose proof feps_pos as Hu.
  assert (B1 : Rabs ((s + 0) * (1 + d1) - (V + 0)) <= (P * (1 + feps) - 1) * (A + Rabs 0)).
  { apply step_bound; try assumption; lra. }
  rewrite Rabs_R0, !Rplus_0_r in B1.
  assert (HP' : 1 <= P * (1 + feps)) by nra.
  assert (B2 : Rabs ((s * (1 + d1) + 0) * (1 + d2) - (V + 0))
               <= (P * (1 + feps) * (1 + feps) - 1) * (A + Rabs 0)).
  { apply step_bound; try assumption; lra. }
  rewrite Rabs_R0, !Rplus_0_r in B2. exact B2.
Qed.

(* h * s / c with one rounding each *)
Lemma scale_div_error (h s c : pfloat) (cR P A V : R) :
  FR c = cR -> 0 < cR -> okmul h s -> okdiv (PrimFloat.mul h s) c ->
  1 <= P -> Rabs V <= A -> Rabs (FR s - V) <= (P - 1) * A ->
  ffin (PrimFloat.div (PrimFloat.mul h s) c) /\
  Rabs (FR (PrimFloat.div (PrimFloat.mul h s) c) - FR h * V / cR)
    <= (P * (1 + feps) * (1 + feps) - 1) * Rabs (FR h) * A / cR.
Proof.
  intros Ec Hc Hm Hd HP HV E.
  destruct (okmul_rel _ _ Hm) as [_ [d1 [Hd1 E1]]].
  pose proof Hd as [Fr _].
  assert (Hq : exists d2, Rabs d2 <= feps /\
            FR (PrimFloat.div (PrimFloat.mul h s) c) = FR (PrimFloat.mul h s) / FR c * (1 + d2)).
  { destruct Hd as [F [Hd0 N]]. fold (FR (PrimFloat.mul h s)) (FR c) in *.
    rewrite (div_finite_round _ _ Hd0 F). destruct N as [Z|N].
    - exists 0. rewrite Rabs_R0, Z. split; [apply Rlt_le, feps_pos|].
      rewrite round_0 by apply valid_rnd_N. ring.
    - destruct (relative_error_N_FLT_ex radix2 (-1074) 53 eq_refl (fun z => negb (Z.even z)) _ N)
        as [e [He Hr]].
      exists e. change (/ 2 * bpow radix2 (- (53) + 1)) with (u_ro radix2 53) in He.
      rewrite u_ro_feps in He. split; [exact He|exact Hr]. }
  destruct Hq as [d2 [Hd2 E2]].
  split; [exact Fr|].
  rewrite E2, E1, Ec.
  replace (FR h * FR s * (1 + d1) / cR * (1 + d2) - FR h * V / cR)
    with (FR h / cR * (FR s * (1 + d1) * (1 + d2) - V)) by (field; lra).
  rewrite Rabs_mult. unfold Rdiv at 1. rewrite Rabs_mult, Rabs_inv, (Rabs_pos_eq cR) by lra.
  pose proof (two_more_roundings P A V (FR s) d1 d2 HP Hd1 Hd2 HV E) as B.
  replace ((P * (1 + feps) * (1 + feps) - 1) * Rabs (FR h) * A / cR)
    with (Rabs (FR h) * / cR * ((P * (1 + feps) * (1 + feps) - 1) * A)) by (field; lra).
  apply Rmult_le_compat_l; [|exact B].
  apply Rmult_le_pos; [apply Rabs_pos|]. apply Rlt_le, Rinv_0_lt_compat; lra.
Qed.

(* ======================================================================================= *)
(* (1) trapezoid                                                                           *)
(* the summands after v_0, in the order of accumulation: 2 v_1, ..., 2 v_(m-1), v_m *)
Definition trap_terms (vs : list pfloat) (ve : pfloat) : list pfloat :=
  map (PrimFloat.mul ntwo) vs ++ [ve].

Lemma fold_left_map_gen {A B C : Type} (g : B -> C) (op : A -> C -> A) (l : list B) (a : A) :
  fold_left op (map g l) a = fold_left (fun s v => op s (g v)) l a.
Proof. revert a; induction l as [|x l IH]; intros a; [reflexivity|]. cbn [map fold_left]. apply IH. Qed.

Lemma trap_value_fsum h v0 vs ve :
  @trap_value pfloat FNum h v0 vs ve
  = PrimFloat.div (PrimFloat.mul h (fsum (trap_terms vs ve) v0)) ntwo.
Proof.
  unfold trap_value, trap_terms, trap_acc, fsum. rewrite fold_left_app, fold_left_map_gen. reflexivity.
Qed.

Lemma Rsum_doubles (vs : list pfloat) :
  (forall v, In v vs -> ffin (PrimFloat.mul ntwo v)) ->
  Rsum (map FR (map (PrimFloat.mul ntwo) vs)) = 2 * Rsum (map FR vs) /\
  Rsum (map absFR (map (PrimFloat.mul ntwo) vs)) = 2 * Rsum (map absFR vs).
Proof.
  induction vs as [|v vs IH]; intros H.
  - cbn [map]. rewrite Rsum_nil. split; ring.
  - destruct IH as [I1 I2]; [intros w Hw; apply H; right; exact Hw|].
    destruct (mul_two_exact v (H v (or_introl eq_refl))) as [_ E].
    cbn [map]. rewrite !Rsum_cons, I1, I2. unfold absFR at 1. rewrite E.
    rewrite Rabs_mult, (Rabs_pos_eq 2) by lra. unfold absFR. split; ring.
Qed.

Lemma trapezoid_float_error_core (f : pfloat -> res pfloat) (a b : pfloat) (m : nat)
      (r v0 ve : pfloat) (vs : list pfloat) :
  (1 <= m)%nat ->
  @trapezoid pfloat FNum f a b (N.of_nat m) = Ok r ->
  let h := @trap_h pfloat FNum a b m in
  f a = Ok v0 -> length vs = (m - 1)%nat -> trap_samples f h a vs -> f b = Ok ve ->
  (forall k, (k <= m)%nat -> ffin (fsum (firstn k (trap_terms vs ve)) v0)) ->
  okmul h (fsum (trap_terms vs ve) v0) ->
  okdiv (PrimFloat.mul h (fsum (trap_terms vs ve) v0)) ntwo ->
  ffin r /\
  Rabs (FR r - FR h * (FR v0 + 2 * Rsum (map FR vs) + FR ve) / 2) <=
    ((1 + feps) ^ (m + 2) - 1) * Rabs (FR h) * (absFR v0 + 2 * Rsum (map absFR vs) + absFR ve) / 2.
Proof.
  intros Hm Hr h H0 L Hs He Hpre Hmul Hdiv.
  rewrite (trapezoid_unroll f a b m v0 vs ve H0 L Hs He) in Hr.
  assert (Er : r = @trap_value pfloat FNum h v0 vs ve) by (injection Hr; intros E; symmetry; exact E).
  clear Hr. subst r. rewrite trap_value_fsum.
  assert (Ll : length (trap_terms vs ve) = m).
  { unfold trap_terms. rewrite app_length, map_length, L. cbn [length]. lia. }
  rewrite <- Ll in Hpre.
  destruct (fsum_error _ _ Hpre) as [Hfin [Fs Es]]. rewrite Ll in Es.
  assert (Hd : forall v, In v vs -> ffin (PrimFloat.mul ntwo v)).
  { intros v Hv. apply Hfin. unfold trap_terms. apply in_or_app. left. apply in_map. exact Hv. }
  destruct (Rsum_doubles vs Hd) as [D1 D2].
  unfold trap_terms in Es at 2 3. rewrite !map_app in Es. cbn [map] in Es.
  rewrite !Rsum_snoc, D1, D2 in Es.
  set (V := FR v0 + 2 * Rsum (map FR vs) + FR ve).
  set (A := absFR v0 + 2 * Rsum (map absFR vs) + absFR ve).
  replace (FR v0 + (2 * Rsum (map FR vs) + FR ve)) with V in Es by (unfold V; ring).
  replace (absFR v0 + (2 * Rsum (map absFR vs) + absFR ve)) with A in Es by (unfold A; ring).
  assert (HVA : Rabs V <= A).
  { unfold V, A. change (absFR v0) with (Rabs (FR v0)). change (absFR ve) with (Rabs (FR ve)).
    pose proof (Rsum_abs_le (map FR vs)) as S1. rewrite <- map_absFR in S1.
    eapply Rle_trans; [apply Rabs_triang|]. apply Rplus_le_compat; [|apply Rle_refl].
    eapply Rle_trans; [apply Rabs_triang|]. apply Rplus_le_compat; [apply Rle_refl|].
    rewrite Rabs_mult, (Rabs_pos_eq 2) by lra. lra. }
  pose proof feps_pos as Hu.
  destruct (scale_div_error h _ ntwo 2 ((1 + feps) ^ m) A V (proj1 FR_two) ltac:(lra) Hmul Hdiv
              (pow1p_ge1 feps m (Rlt_le _ _ Hu)) HVA Es) as [Fr B].
  split; [exact Fr|].
  replace ((1 + feps) ^ (m + 2)) with ((1 + feps) ^ m * (1 + feps) * (1 + feps))
    by (rewrite pow_add; cbn [pow]; ring).
  exact B.
Qed.

(* Final statement, written with Flocq's [B2R (Prim2B x)] / [is_finite (Prim2B x)] only.
   h = (b - a)/m as computed; x_0 = a, x_(i+1) = x_i + h as computed ([tnode]);
   v0 = f(a), vs = the values at x_1 .. x_(m-1) ([trap_samples]), ve = f(b);
   [trap_terms vs ve] = [2*v_1; ..; 2*v_(m-1); ve], summed left to right starting from v0. *)
Theorem trapezoid_float_error :
  forall (f : PrimFloat.float -> res PrimFloat.float) (a b : PrimFloat.float) (m : nat)
         (r v0 ve : PrimFloat.float) (vs : list PrimFloat.float),
  (1 <= m)%nat ->
  @trapezoid PrimFloat.float FNum f a b (N.of_nat m) = Ok r ->
  let h := PrimFloat.div (PrimFloat.sub b a) (@nofN PrimFloat.float FNum (N.of_nat m)) in
  f a = Ok v0 -> length vs = (m - 1)%nat ->
  (forall i, (i < length vs)%nat -> f (@tnode PrimFloat.float FNum h a (S i)) = Ok (nth i vs PrimFloat.zero)) ->
  f b = Ok ve ->
  (forall k, (k <= m)%nat ->
     is_finite (Prim2B (fold_left PrimFloat.add (firstn k (trap_terms vs ve)) v0)) = true) ->
  okmul h (fold_left PrimFloat.add (trap_terms vs ve) v0) ->
  okdiv (PrimFloat.mul h (fold_left PrimFloat.add (trap_terms vs ve) v0)) (@ntwo PrimFloat.float FNum) ->
  is_finite (Prim2B r) = true /\
  Rabs (B2R (Prim2B r) -
        B2R (Prim2B h) * (B2R (Prim2B v0) + 2 * Rsum (map (fun v => B2R (Prim2B v)) vs) + B2R (Prim2B ve)) / 2) <=
    ((1 + bpow radix2 (-53)) ^ (m + 2) - 1) * Rabs (B2R (Prim2B h)) *
    (Rabs (B2R (Prim2B v0)) + 2 * Rsum (map (fun v => Rabs (B2R (Prim2B v))) vs) + Rabs (B2R (Prim2B ve))) / 2.
Proof. exact trapezoid_float_error_core. Qed.

(* ======================================================================================= *)
(* (2) simpson 1/3                                                                         *)
(* the summands after v_0: fl(4 vm_j + 2 ve_j) for the panels of the loop, fl(4 vm + ve) last *)
Definition s13_last (vm ve : pfloat) : pfloat := PrimFloat.add (PrimFloat.mul (nofZ 4) vm) ve.
Definition s13_terms (ps : list (pfloat * pfloat)) (vm ve : pfloat) : list pfloat :=
  map (@s13_term pfloat FNum) ps ++ [s13_last vm ve].
Definition s13_tau (q : pfloat * pfloat) : R := 4 * FR (fst q) + 2 * FR (snd q).
Definition s13_alpha (q : pfloat * pfloat) : R := 4 * absFR (fst q) + 2 * absFR (snd q).

Lemma s13_value_fsum h v0 ps vm ve :
  @s13_value pfloat FNum h v0 ps vm ve
  = PrimFloat.div (PrimFloat.mul h (fsum (s13_terms ps vm ve) v0)) (nofZ 3).
Proof.
  unfold s13_value, s13_terms, s13_acc, fsum, s13_last.
  rewrite fold_left_app, fold_left_map_gen. reflexivity.
Qed.

Lemma s13_term_rel (q : pfloat * pfloat) : ffin (@s13_term pfloat FNum q) ->
  exists d, Rabs d <= feps /\ FR (@s13_term pfloat FNum q) = s13_tau q * (1 + d).
Proof.
  unfold s13_term. cbn [nadd nmul FNum]. intros F.
  destruct (add_ffin_inv _ _ F) as [F4 F2].
  destruct (mul_four_exact _ F4) as [_ E4]. destruct (mul_two_exact _ F2) as [_ E2].
  destruct (add_finite_rel _ _ F4 F2 F) as [d [Hd E]].
  exists d. split; [exact Hd|]. rewrite E, E4, E2. reflexivity.
Qed.

Lemma s13_last_rel (vm ve : pfloat) : ffin (s13_last vm ve) ->
  exists d, Rabs d <= feps /\ FR (s13_last vm ve) = (4 * FR vm + FR ve) * (1 + d).
Proof.
  unfold s13_last. intros F.
  destruct (add_ffin_inv _ _ F) as [F4 Fe].
  destruct (mul_four_exact _ F4) as [_ E4].
  destruct (add_finite_rel _ _ F4 Fe F) as [d [Hd E]].
  exists d. split; [exact Hd|]. rewrite E, E4. reflexivity.
Qed.

Lemma one_rounding (t al d : R) : Rabs t <= al -> Rabs d <= feps ->
  Rabs (t * (1 + d) - t) <= feps * al /\ Rabs (t * (1 + d)) <= (1 + feps) * al.
Proof.
  intros Ht Hd. pose proof feps_pos as Hu. pose proof (Rabs_pos t) as Pt. pose proof (Rabs_pos d) as Pd.
  replace (t * (1 + d) - t) with (t * d) by ring. rewrite !Rabs_mult.
  assert (H1 : Rabs (1 + d) <= 1 + feps).
  { eapply Rle_trans; [apply Rabs_triang|]. rewrite Rabs_R1. lra. }
  split.
  - rewrite (Rmult_comm feps). apply Rmult_le_compat; lra.
  - rewrite (Rmult_comm (1 + feps)). apply Rmult_le_compat; try apply Rabs_pos; lra.
Qed.

Lemma s13_tau_alpha q : Rabs (s13_tau q) <= s13_alpha q.
Proof.
  unfold s13_tau, s13_alpha, absFR.
  eapply Rle_trans; [apply Rabs_triang|]. rewrite !Rabs_mult, (Rabs_pos_eq 4), (Rabs_pos_eq 2) by lra.
  apply Rle_refl.
Qed.

Lemma Rsum_panels (ps : list (pfloat * pfloat)) :
  (forall q, In q ps -> ffin (@s13_term pfloat FNum q)) ->
  Rabs (Rsum (map FR (map (@s13_term pfloat FNum) ps)) - Rsum (map s13_tau ps))
    <= feps * Rsum (map s13_alpha ps) /\
  Rsum (map absFR (map (@s13_term pfloat FNum) ps)) <= (1 + feps) * Rsum (map s13_alpha ps) /\
  Rabs (Rsum (map s13_tau ps)) <= Rsum (map s13_alpha ps).
Proof.
  induction ps as [|q ps IH]; intros H.
  - cbn [map]. rewrite Rsum_nil. replace (0 - 0) with 0 by ring. rewrite Rabs_R0. repeat split; lra.
  - destruct IH as [I1 [I2 I3]]; [intros w Hw; apply H; right; exact Hw|].
    destruct (s13_term_rel q (H q (or_introl eq_refl))) as [d [Hd E]].
    destruct (one_rounding _ _ d (s13_tau_alpha q) Hd) as [R1 R2].
    cbn [map]. rewrite !Rsum_cons. unfold absFR at 1. rewrite E.
    pose proof (s13_tau_alpha q) as TA.
    split; [|split].
    + replace (s13_tau q * (1 + d) + Rsum (map FR (map s13_term ps)) - (s13_tau q + Rsum (map s13_tau ps)))
        with ((s13_tau q * (1 + d) - s13_tau q) + (Rsum (map FR (map s13_term ps)) - Rsum (map s13_tau ps)))
        by ring.
      eapply Rle_trans; [apply Rabs_triang|]. lra.
    + lra.
    + eapply Rle_trans; [apply Rabs_triang|]. lra.
Qed.

Lemma simpson_sum_bound (P a0 X Xa tau al s v0 : R) :
  1 <= P -> 0 <= a0 -> 0 <= al ->
  Rabs (s - (v0 + X)) <= (P - 1) * (a0 + Xa) ->
  Rabs (X - tau) <= feps * al -> Xa <= (1 + feps) * al ->
  Rabs (s - (v0 + tau)) <= (P * (1 + feps) - 1) * (a0 + al).
Proof.
  intros HP Ha0 Hal E1 E2 E3. pose proof feps_pos as Hu.
  replace (s - (v0 + tau)) with ((s - (v0 + X)) + (X - tau)) by ring.
  eapply Rle_trans; [apply Rabs_triang|].
  assert (H1 : (P - 1) * (a0 + Xa) <= (P - 1) * (a0 + (1 + feps) * al)).
  { apply Rmult_le_compat_l; lra. }
  assert (H2 : 0 <= P * feps * a0).
  { apply Rmult_le_pos; [apply Rmult_le_pos|]; lra. }
  nra.
Qed.

Lemma simpson13_float_error_core (f : pfloat -> res pfloat) (h a : pfloat) (p : nat)
      (r v0 vm ve : pfloat) (ps : list (pfloat * pfloat)) :
  (1 <= p)%nat ->
  @simpson13 pfloat FNum f h a (N.of_nat (2 * p)) = Ok r ->
  f a = Ok v0 -> length ps = (p - 1)%nat -> s13_samples f h a ps ->
  f (PrimFloat.sub (@snode pfloat FNum h a p) h) = Ok vm -> f (@snode pfloat FNum h a p) = Ok ve ->
  (forall k, (k <= p)%nat -> ffin (fsum (firstn k (s13_terms ps vm ve)) v0)) ->
  okmul h (fsum (s13_terms ps vm ve) v0) ->
  okdiv (PrimFloat.mul h (fsum (s13_terms ps vm ve) v0)) (nofZ 3) ->
  ffin r /\
  Rabs (FR r - FR h * (FR v0 + Rsum (map s13_tau ps) + 4 * FR vm + FR ve) / 3) <=
    ((1 + feps) ^ (p + 3) - 1) * Rabs (FR h) *
    (absFR v0 + Rsum (map s13_alpha ps) + 4 * absFR vm + absFR ve) / 3.
Proof.
  intros Hp Hr H0 L Hs Hvm Hve Hpre Hmul Hdiv.
  assert (Sp : S (p - 1) = p) by lia.
  assert (U := simpson13_unroll f h a p v0 ps vm ve H0 L Hs).
  rewrite Sp in U. specialize (U Hvm Hve). rewrite U in Hr.
  assert (Er : r = @s13_value pfloat FNum h v0 ps vm ve) by (injection Hr; intros E; symmetry; exact E).
  clear Hr U. subst r. rewrite s13_value_fsum.
  assert (Ll : length (s13_terms ps vm ve) = p).
  { unfold s13_terms. rewrite app_length, map_length, L. cbn [length]. lia. }
  rewrite <- Ll in Hpre.
  destruct (fsum_error _ _ Hpre) as [Hfin [Fs Es]]. rewrite Ll in Es.
  assert (Hd : forall q, In q ps -> ffin (@s13_term pfloat FNum q)).
  { intros q Hq. apply Hfin. unfold s13_terms. apply in_or_app. left. apply in_map. exact Hq. }
  assert (Hl : ffin (s13_last vm ve)).
  { apply Hfin. unfold s13_terms. apply in_or_app. right. left. reflexivity. }
  destruct (Rsum_panels ps Hd) as [D1 [D2 D3]].
  destruct (s13_last_rel vm ve Hl) as [d [Hdl El]].
  assert (TL : Rabs (4 * FR vm + FR ve) <= 4 * absFR vm + absFR ve).
  { unfold absFR. eapply Rle_trans; [apply Rabs_triang|].
    rewrite Rabs_mult, (Rabs_pos_eq 4) by lra. apply Rle_refl. }
  destruct (one_rounding _ _ d TL Hdl) as [L1 L2]. rewrite <- El in L1, L2.
  unfold s13_terms in Es at 2 3. rewrite !map_app in Es. cbn [map] in Es. rewrite !Rsum_snoc in Es.
  set (V := FR v0 + Rsum (map s13_tau ps) + 4 * FR vm + FR ve).
  set (A := absFR v0 + Rsum (map s13_alpha ps) + 4 * absFR vm + absFR ve).
  pose proof feps_pos as Hu.
  pose proof (Rabs_pos (FR v0)) as Pv0. fold (absFR v0) in Pv0.
  pose proof (Rabs_pos (Rsum (map s13_tau ps))) as Pt.
  pose proof (Rabs_pos (4 * FR vm + FR ve)) as Pl.
  assert (Es' : Rabs (FR (fsum (s13_terms ps vm ve) v0) - V) <= ((1 + feps) ^ p * (1 + feps) - 1) * A).
  { replace V with (FR v0 + (Rsum (map s13_tau ps) + (4 * FR vm + FR ve))) by (unfold V; ring).
    replace A with (absFR v0 + (Rsum (map s13_alpha ps) + (4 * absFR vm + absFR ve))) by (unfold A; ring).
    eapply simpson_sum_bound; [apply pow1p_ge1; lra|lra|lra|exact Es| |].
    - replace (Rsum (map FR (map s13_term ps)) + FR (s13_last vm ve)
               - (Rsum (map s13_tau ps) + (4 * FR vm + FR ve)))
        with ((Rsum (map FR (map s13_term ps)) - Rsum (map s13_tau ps))
              + (FR (s13_last vm ve) - (4 * FR vm + FR ve))) by ring.
      eapply Rle_trans; [apply Rabs_triang|]. lra.
    - unfold absFR at 2. lra. }
  assert (HVA : Rabs V <= A).
  { unfold V, A. change (absFR v0) with (Rabs (FR v0)).
    replace (FR v0 + Rsum (map s13_tau ps) + 4 * FR vm + FR ve)
      with (FR v0 + Rsum (map s13_tau ps) + (4 * FR vm + FR ve)) by ring.
    eapply Rle_trans; [apply Rabs_triang|].
    eapply Rle_trans; [apply Rplus_le_compat_r, Rabs_triang|]. lra. }
  assert (HP : 1 <= (1 + feps) ^ p * (1 + feps)).
  { pose proof (pow1p_ge1 feps p (Rlt_le _ _ Hu)). nra. }
  destruct (scale_div_error h _ (nofZ 3) 3 _ A V (proj1 FR_three) ltac:(lra) Hmul Hdiv HP HVA Es')
    as [Fr B].
  split; [exact Fr|].
  replace ((1 + feps) ^ (p + 3)) with ((1 + feps) ^ p * (1 + feps) * (1 + feps) * (1 + feps))
    by (rewrite pow_add; cbn [pow]; ring).
  exact B.
Qed.

(* Final statement.  h is whatever step the caller passes (definite_integral passes (b-a)/n);
   y_0 = a, y_(j+1) = y_j + 2*h as computed ([snode]); ps = the pairs (value at y_j - h, value at y_j)
   for j = 1 .. p-1, (vm, ve) the pair of the last panel j = p;
   [s13_terms ps vm ve] = [fl(4 vm_1 + 2 ve_1); ..; fl(4 vm + ve)], summed left to right from v0. *)
Theorem simpson13_float_error :
  forall (f : PrimFloat.float -> res PrimFloat.float) (h a : PrimFloat.float) (p : nat)
         (r v0 vm ve : PrimFloat.float) (ps : list (PrimFloat.float * PrimFloat.float)),
  (1 <= p)%nat ->
  @simpson13 PrimFloat.float FNum f h a (N.of_nat (2 * p)) = Ok r ->
  f a = Ok v0 -> length ps = (p - 1)%nat ->
  (forall j, (j < length ps)%nat ->
     f (PrimFloat.sub (@snode PrimFloat.float FNum h a (S j)) h) = Ok (fst (nth j ps (PrimFloat.zero, PrimFloat.zero))) /\
     f (@snode PrimFloat.float FNum h a (S j)) = Ok (snd (nth j ps (PrimFloat.zero, PrimFloat.zero)))) ->
  f (PrimFloat.sub (@snode PrimFloat.float FNum h a p) h) = Ok vm ->
  f (@snode PrimFloat.float FNum h a p) = Ok ve ->
  (forall k, (k <= p)%nat ->
     is_finite (Prim2B (fold_left PrimFloat.add (firstn k (s13_terms ps vm ve)) v0)) = true) ->
  okmul h (fold_left PrimFloat.add (s13_terms ps vm ve) v0) ->
  okdiv (PrimFloat.mul h (fold_left PrimFloat.add (s13_terms ps vm ve) v0)) (@nofZ PrimFloat.float FNum 3) ->
  is_finite (Prim2B r) = true /\
  Rabs (B2R (Prim2B r) -
        B2R (Prim2B h) *
          (B2R (Prim2B v0)
           + Rsum (map (fun q => 4 * B2R (Prim2B (fst q)) + 2 * B2R (Prim2B (snd q))) ps)
           + 4 * B2R (Prim2B vm) + B2R (Prim2B ve)) / 3) <=
    ((1 + bpow radix2 (-53)) ^ (p + 3) - 1) * Rabs (B2R (Prim2B h)) *
    (Rabs (B2R (Prim2B v0))
     + Rsum (map (fun q => 4 * Rabs (B2R (Prim2B (fst q))) + 2 * Rabs (B2R (Prim2B (snd q)))) ps)
     + 4 * Rabs (B2R (Prim2B vm)) + Rabs (B2R (Prim2B ve))) / 3.
Proof. exact simpson13_float_error_core. Qed.

(* ======================================================================================= *)
(* (3) definite_integral, even segment count >= 2: pure dispatch to the 1/3 rule, then `0.0 + s` *)
Lemma definite_integral_even {T : Type} {NT : Num T} (f : T -> res T) (a b : T) (p : nat) :
  (1 <= p)%nat ->
  definite_integral f a b (N.of_nat (2 * p))
  = bind (simpson13 f (trap_h a b (2 * p)) a (N.of_nat (2 * p))) (fun s => Ok (nadd n0 s)).
Proof.
  intros Hp. unfold definite_integral. fold (trap_h a b (2 * p)).
  assert (E1 : (N.of_nat (2 * p) =? 1)%N = false) by (apply N.eqb_neq; lia).
  assert (E2 : N.even (N.of_nat (2 * p)) = true).
  { rewrite Nat2N.inj_mul, N.even_mul. reflexivity. }
  assert (E3 : (1 <? N.of_nat (2 * p))%N = true) by (apply N.ltb_lt; lia).
  rewrite E1, E2. cbn [bind]. rewrite E3. reflexivity.
Qed.

Lemma add_zero_l_FR (s : pfloat) : ffin s ->
  ffin (PrimFloat.add PrimFloat.zero s) /\ FR (PrimFloat.add PrimFloat.zero s) = FR s.
Proof.
  destruct FR_zero as [Z0 F0]. unfold ffin, FR in *. intros Fs. rewrite add_equiv.
  generalize (Bplus_correct FloatOps.prec FloatOps.emax Hprec Hmax mode_NE _ _ F0 Fs).
  rewrite Z0, Rplus_0_l.
  rewrite round_generic; [|apply valid_rnd_N|apply generic_format_B2R].
  rewrite Rlt_bool_true by apply abs_B2R_lt_emax.
  intros [H1 [H2 _]]. split; assumption.
Qed.

Theorem definite_integral_even_float_error :
  forall (f : PrimFloat.float -> res PrimFloat.float) (a b : PrimFloat.float) (p : nat)
         (r v0 vm ve : PrimFloat.float) (ps : list (PrimFloat.float * PrimFloat.float)),
  (1 <= p)%nat ->
  @definite_integral PrimFloat.float FNum f a b (N.of_nat (2 * p)) = Ok r ->
  let h := PrimFloat.div (PrimFloat.sub b a) (@nofN PrimFloat.float FNum (N.of_nat (2 * p))) in
  f a = Ok v0 -> length ps = (p - 1)%nat ->
  (forall j, (j < length ps)%nat ->
     f (PrimFloat.sub (@snode PrimFloat.float FNum h a (S j)) h) = Ok (fst (nth j ps (PrimFloat.zero, PrimFloat.zero))) /\
     f (@snode PrimFloat.float FNum h a (S j)) = Ok (snd (nth j ps (PrimFloat.zero, PrimFloat.zero)))) ->
  f (PrimFloat.sub (@snode PrimFloat.float FNum h a p) h) = Ok vm ->
  f (@snode PrimFloat.float FNum h a p) = Ok ve ->
  (forall k, (k <= p)%nat ->
     is_finite (Prim2B (fold_left PrimFloat.add (firstn k (s13_terms ps vm ve)) v0)) = true) ->
  okmul h (fold_left PrimFloat.add (s13_terms ps vm ve) v0) ->
  okdiv (PrimFloat.mul h (fold_left PrimFloat.add (s13_terms ps vm ve) v0)) (@nofZ PrimFloat.float FNum 3) ->
  is_finite (Prim2B r) = true /\
  Rabs (B2R (Prim2B r) -
        B2R (Prim2B h) *
          (B2R (Prim2B v0)
           + Rsum (map (fun q => 4 * B2R (Prim2B (fst q)) + 2 * B2R (Prim2B (snd q))) ps)
           + 4 * B2R (Prim2B vm) + B2R (Prim2B ve)) / 3) <=
    ((1 + bpow radix2 (-53)) ^ (p + 3) - 1) * Rabs (B2R (Prim2B h)) *
    (Rabs (B2R (Prim2B v0))
     + Rsum (map (fun q => 4 * Rabs (B2R (Prim2B (fst q))) + 2 * Rabs (B2R (Prim2B (snd q)))) ps)
     + 4 * Rabs (B2R (Prim2B vm)) + Rabs (B2R (Prim2B ve))) / 3.
Proof.
  intros f a b p r v0 vm ve ps Hp Hr h H0 L Hs Hvm Hve Hpre Hmul Hdiv.
  rewrite (definite_integral_even f a b p Hp) in Hr.
  apply bind_ok in Hr. destruct Hr as [s [Hs13 Hr]].
  assert (Er : r = PrimFloat.add PrimFloat.zero s) by (injection Hr; intros E; symmetry; exact E).
  clear Hr. subst r.
  destruct (simpson13_float_error f h a p s v0 vm ve ps Hp Hs13 H0 L Hs Hvm Hve Hpre Hmul Hdiv) as [Fs B].
  destruct (add_zero_l_FR s Fs) as [Fr Er]. unfold ffin, FR in Fr, Er.
  split; [exact Fr|]. rewrite Er. exact B.
Qed.

(* ======================================================================================= *)
(* Examples: f(x) = x*x (one binary64 product), [0,1], 4 segments.  Every hypothesis is
   discharged by computation on the float instance.                                        *)
Definition ex_sq : PrimFloat.float -> res PrimFloat.float := fun x => Ok (PrimFloat.mul x x).
Definition ex_trap_vs : list PrimFloat.float := [0x1p-4; 0x1p-2; 0x1.2p-1]%float.
Definition ex_s13_ps : list (PrimFloat.float * PrimFloat.float) := [(0x1p-4, 0x1p-2)]%float.

Ltac qf_fin := rewrite <- is_finite_equiv; vm_compute; reflexivity.
Ltac qf_okmul := apply okmul_by_leb; vm_compute; reflexivity.
Ltac qf_okdiv := apply okdiv_by_leb; vm_compute; reflexivity.

Example ex_trapezoid_float_error :
  exists r, @trapezoid PrimFloat.float FNum ex_sq 0%float 1%float 4 = Ok r /\
  is_finite (Prim2B r) = true /\
  Rabs (B2R (Prim2B r) -
        B2R (Prim2B 0x1p-2%float) *
          (B2R (Prim2B 0%float) + 2 * Rsum (map (fun v => B2R (Prim2B v)) ex_trap_vs) + B2R (Prim2B 1%float)) / 2) <=
    ((1 + bpow radix2 (-53)) ^ 6 - 1) * Rabs (B2R (Prim2B 0x1p-2%float)) *
    (Rabs (B2R (Prim2B 0%float)) + 2 * Rsum (map (fun v => Rabs (B2R (Prim2B v))) ex_trap_vs)
     + Rabs (B2R (Prim2B 1%float))) / 2.
Proof.
  exists 0x1.6p-2%float. split; [vm_compute; reflexivity|].
  apply (trapezoid_float_error ex_sq 0%float 1%float 4 0x1.6p-2%float 0%float 1%float ex_trap_vs).
  - lia.
  - vm_compute; reflexivity.
  - vm_compute; reflexivity.
  - reflexivity.
  - intros i Hi. cbn [length ex_trap_vs] in Hi.
    destruct i as [|[|[|i]]]; try lia; vm_compute; reflexivity.
  - vm_compute; reflexivity.
  - intros k Hk. destruct k as [|[|[|[|[|k]]]]]; try lia; qf_fin.
  - qf_okmul.
  - qf_okdiv.
Qed.

Example ex_simpson_float_error :
  exists r, @definite_integral PrimFloat.float FNum ex_sq 0%float 1%float 4 = Ok r /\
  is_finite (Prim2B r) = true /\
  Rabs (B2R (Prim2B r) -
        B2R (Prim2B 0x1p-2%float) *
          (B2R (Prim2B 0%float)
           + Rsum (map (fun q => 4 * B2R (Prim2B (fst q)) + 2 * B2R (Prim2B (snd q))) ex_s13_ps)
           + 4 * B2R (Prim2B 0x1.2p-1%float) + B2R (Prim2B 1%float)) / 3) <=
    ((1 + bpow radix2 (-53)) ^ 5 - 1) * Rabs (B2R (Prim2B 0x1p-2%float)) *
    (Rabs (B2R (Prim2B 0%float))
     + Rsum (map (fun q => 4 * Rabs (B2R (Prim2B (fst q))) + 2 * Rabs (B2R (Prim2B (snd q)))) ex_s13_ps)
     + 4 * Rabs (B2R (Prim2B 0x1.2p-1%float)) + Rabs (B2R (Prim2B 1%float))) / 3.
Proof.
  exists 0x1.5555555555555p-2%float. split; [vm_compute; reflexivity|].
  apply (definite_integral_even_float_error ex_sq 0%float 1%float 2 0x1.5555555555555p-2%float
           0%float 0x1.2p-1%float 1%float ex_s13_ps).
  - lia.
  - vm_compute; reflexivity.
  - vm_compute; reflexivity.
  - reflexivity.
  - intros j Hj. cbn [length ex_s13_ps] in Hj.
    destruct j as [|j]; try lia; split; vm_compute; reflexivity.
  - vm_compute; reflexivity.
  - vm_compute; reflexivity.
  - intros k Hk. destruct k as [|[|[|k]]]; try lia; qf_fin.
  - qf_okmul.
  - qf_okdiv.
Qed.

(* ======================================================================================= *)
(* (4) the 3/8 panel (spliced in by definite_integral for odd segment counts)              *)
Lemma FR_eight : FR (@nofZ pfloat FNum 8) = 8 /\ ffin (@nofZ pfloat FNum 8).
Proof.
  destruct (FR_small 8 ltac:(cbn; lia)) as [F E]. split; [|exact F].
  change (@nofZ pfloat FNum 8) with (@nofZ pfloat FNum (Z.of_nat 8)). rewrite E. cbn [INR]. lra.
Qed.

Lemma simpson38_float_error_core (f : pfloat -> res pfloat) (h p0 p1 p2 p3 r f0 f1 f2 f3 : pfloat) :
  @simpson38 pfloat FNum f h p0 p1 p2 p3 = Ok r ->
  f p0 = Ok f0 -> f p1 = Ok f1 -> f p2 = Ok f2 -> f p3 = Ok f3 ->
  let three := @nofZ pfloat FNum 3 in
  let t1 := PrimFloat.mul three f1 in
  let t2 := PrimFloat.mul three f2 in
  let s := PrimFloat.add (PrimFloat.add (PrimFloat.add f0 t1) t2) f3 in
  okmul three f1 -> okmul three f2 ->
  ffin (PrimFloat.add f0 t1) -> ffin (PrimFloat.add (PrimFloat.add f0 t1) t2) -> ffin s ->
  okmul three h -> okmul (PrimFloat.mul three h) s ->
  okdiv (PrimFloat.mul (PrimFloat.mul three h) s) (nofZ 8) ->
  ffin r /\
  Rabs (FR r - 3 * FR h * (FR f0 + 3 * FR f1 + 3 * FR f2 + FR f3) / 8) <=
    ((1 + feps) ^ 7 - 1) * (3 * Rabs (FR h)) * (absFR f0 + 3 * absFR f1 + 3 * absFR f2 + absFR f3) / 8.
Proof.
  intros Hr H0 H1 H2 H3 three t1 t2 s M1 M2 A1 A2 A3 Mh Mp Dv.
  unfold simpson38 in Hr. rewrite H0, H1, H2, H3 in Hr. cbn [bind] in Hr.
  assert (Er : r = PrimFloat.div (PrimFloat.mul (PrimFloat.mul three h) s) (nofZ 8))
    by (injection Hr; intros E; symmetry; exact E).
  clear Hr. subst r.
  pose proof feps_pos as Hu. assert (E3 : FR three = 3) by apply FR_three.
  destruct (okmul_rel _ _ M1) as [_ [d1 [Hd1 T1]]]. fold three t1 in T1. rewrite E3 in T1.
  destruct (okmul_rel _ _ M2) as [_ [d2 [Hd2 T2]]]. fold three t2 in T2. rewrite E3 in T2.
  destruct (okmul_rel _ _ Mh) as [_ [d3 [Hd3 T3]]]. fold three in T3. rewrite E3 in T3.
  assert (Hpre : forall k, (k <= length [t1; t2; f3])%nat -> ffin (fsum (firstn k [t1; t2; f3]) f0)).
  { intros k Hk. cbn [length] in Hk. destruct k as [|[|[|[|k]]]]; try lia; cbn [firstn fsum fold_left].
    - apply (add_ffin_inv _ _ A1).
    - exact A1.
    - exact A2.
    - exact A3. }
  destruct (fsum_error _ _ Hpre) as [_ [_ Es]].
  cbn [length map fsum fold_left] in Es. fold s in Es.
  rewrite !Rsum_cons, Rsum_nil in Es.
  set (V := FR f0 + 3 * FR f1 + 3 * FR f2 + FR f3).
  set (A := absFR f0 + 3 * absFR f1 + 3 * absFR f2 + absFR f3).
  assert (B1 : Rabs (3 * FR f1) <= 3 * absFR f1)
    by (unfold absFR; rewrite Rabs_mult, (Rabs_pos_eq 3) by lra; apply Rle_refl).
  assert (B2 : Rabs (3 * FR f2) <= 3 * absFR f2)
    by (unfold absFR; rewrite Rabs_mult, (Rabs_pos_eq 3) by lra; apply Rle_refl).
  destruct (one_rounding _ _ d1 B1 Hd1) as [R11 R12]. rewrite <- T1 in R11, R12.
  destruct (one_rounding _ _ d2 B2 Hd2) as [R21 R22]. rewrite <- T2 in R21, R22.
  pose proof (Rabs_pos (FR f0)) as P0. pose proof (Rabs_pos (FR f1)) as P1.
  pose proof (Rabs_pos (FR f2)) as P2. pose proof (Rabs_pos (FR f3)) as P3.
  fold (absFR f0) in P0. fold (absFR f1) in P1. fold (absFR f2) in P2. fold (absFR f3) in P3.
  assert (Es' : Rabs (FR s - V) <= ((1 + feps) ^ 3 * (1 + feps) - 1) * A).
  { replace V with (FR f0 + (3 * FR f1 + 3 * FR f2 + FR f3)) by (unfold V; ring).
    replace A with (absFR f0 + (3 * absFR f1 + 3 * absFR f2 + absFR f3)) by (unfold A; ring).
    eapply simpson_sum_bound; [apply pow1p_ge1; lra|lra|lra|exact Es| |].
    - replace (FR t1 + (FR t2 + (FR f3 + 0)) - (3 * FR f1 + 3 * FR f2 + FR f3))
        with ((FR t1 - 3 * FR f1) + (FR t2 - 3 * FR f2)) by ring.
      eapply Rle_trans; [apply Rabs_triang|]. nra.
    - unfold absFR at 1 2. fold (absFR f3). nra. }
  assert (HVA : Rabs V <= A).
  { unfold V, A. change (absFR f0) with (Rabs (FR f0)). change (absFR f3) with (Rabs (FR f3)).
    eapply Rle_trans; [apply Rabs_triang|]. apply Rplus_le_compat; [|apply Rle_refl].
    eapply Rle_trans; [apply Rabs_triang|]. apply Rplus_le_compat; [|exact B2].
    eapply Rle_trans; [apply Rabs_triang|]. apply Rplus_le_compat; [apply Rle_refl|exact B1]. }
  assert (HP : 1 <= (1 + feps) ^ 3 * (1 + feps)).
  { pose proof (pow1p_ge1 feps 3 (Rlt_le _ _ Hu)). nra. }
  destruct (scale_div_error (PrimFloat.mul three h) s (nofZ 8) 8 _ A V (proj1 FR_eight) ltac:(lra)
              Mp Dv HP HVA Es') as [Fr B].
  split; [exact Fr|].
  set (rr := FR (PrimFloat.div (PrimFloat.mul (PrimFloat.mul three h) s) (nofZ 8))) in *.
  set (Q := (1 + feps) ^ 3 * (1 + feps) * (1 + feps) * (1 + feps)) in *.
  assert (HQ : 1 <= Q) by (unfold Q; nra).
  replace ((1 + feps) ^ 7) with (Q * (1 + feps)) by (unfold Q; ring).
  assert (BH : Rabs (3 * FR h) <= 3 * Rabs (FR h))
    by (rewrite Rabs_mult, (Rabs_pos_eq 3) by lra; apply Rle_refl).
  destruct (one_rounding _ _ d3 BH Hd3) as [H31 H32]. rewrite <- T3 in H31, H32.
  pose proof (Rabs_pos (FR h)) as Ph. pose proof (Rabs_pos V) as PV.
  replace (rr - 3 * FR h * V / 8)
    with ((rr - FR (PrimFloat.mul three h) * V / 8) + (FR (PrimFloat.mul three h) - 3 * FR h) * V / 8) by field.
  eapply Rle_trans; [apply Rabs_triang|].
  assert (C2 : Rabs ((FR (PrimFloat.mul three h) - 3 * FR h) * V / 8) <= feps * (3 * Rabs (FR h)) * A / 8).
  { unfold Rdiv. rewrite !Rabs_mult, (Rabs_inv 8), (Rabs_pos_eq 8) by lra.
    apply Rmult_le_compat_r; [lra|]. apply Rmult_le_compat; try apply Rabs_pos; assumption. }
  assert (C1 : (Q - 1) * Rabs (FR (PrimFloat.mul three h)) * A / 8
               <= (Q - 1) * ((1 + feps) * (3 * Rabs (FR h))) * A / 8).
  { unfold Rdiv. apply Rmult_le_compat_r; [lra|]. apply Rmult_le_compat_r; [lra|].
    apply Rmult_le_compat_l; lra. }
  lra.
Qed.

(* Final statement: one 3/8 panel with step h at the points p0..p3 the caller passes; 3 roundings in the
   sum + 1 in each 3*f_i + 3*h + the product + the division by 8: exponent 7. *)
Theorem simpson38_float_error :
  forall (f : PrimFloat.float -> res PrimFloat.float) (h p0 p1 p2 p3 r f0 f1 f2 f3 : PrimFloat.float),
  @simpson38 PrimFloat.float FNum f h p0 p1 p2 p3 = Ok r ->
  f p0 = Ok f0 -> f p1 = Ok f1 -> f p2 = Ok f2 -> f p3 = Ok f3 ->
  let three := @nofZ PrimFloat.float FNum 3 in
  let t1 := PrimFloat.mul three f1 in
  let t2 := PrimFloat.mul three f2 in
  let s := PrimFloat.add (PrimFloat.add (PrimFloat.add f0 t1) t2) f3 in
  okmul three f1 -> okmul three f2 ->
  is_finite (Prim2B (PrimFloat.add f0 t1)) = true ->
  is_finite (Prim2B (PrimFloat.add (PrimFloat.add f0 t1) t2)) = true ->
  is_finite (Prim2B s) = true ->
  okmul three h -> okmul (PrimFloat.mul three h) s ->
  okdiv (PrimFloat.mul (PrimFloat.mul three h) s) (@nofZ PrimFloat.float FNum 8) ->
  is_finite (Prim2B r) = true /\
  Rabs (B2R (Prim2B r) -
        3 * B2R (Prim2B h) *
          (B2R (Prim2B f0) + 3 * B2R (Prim2B f1) + 3 * B2R (Prim2B f2) + B2R (Prim2B f3)) / 8) <=
    ((1 + bpow radix2 (-53)) ^ 7 - 1) * (3 * Rabs (B2R (Prim2B h))) *
    (Rabs (B2R (Prim2B f0)) + 3 * Rabs (B2R (Prim2B f1)) + 3 * Rabs (B2R (Prim2B f2))
     + Rabs (B2R (Prim2B f3))) / 8.
Proof. exact simpson38_float_error_core. Qed.

Example ex_simpson38_float_error :
  exists r, @simpson38 PrimFloat.float FNum ex_sq 0x1p-2%float 0%float 0x1p-2%float 0x1p-1%float 0x1.8p-1%float = Ok r /\
  is_finite (Prim2B r) = true /\
  Rabs (B2R (Prim2B r) -
        3 * B2R (Prim2B 0x1p-2%float) *
          (B2R (Prim2B 0%float) + 3 * B2R (Prim2B 0x1p-4%float) + 3 * B2R (Prim2B 0x1p-2%float)
           + B2R (Prim2B 0x1.2p-1%float)) / 8) <=
    ((1 + bpow radix2 (-53)) ^ 7 - 1) * (3 * Rabs (B2R (Prim2B 0x1p-2%float))) *
    (Rabs (B2R (Prim2B 0%float)) + 3 * Rabs (B2R (Prim2B 0x1p-4%float)) + 3 * Rabs (B2R (Prim2B 0x1p-2%float))
     + Rabs (B2R (Prim2B 0x1.2p-1%float))) / 8.
Proof.
  exists 0x1.2p-3%float. split; [vm_compute; reflexivity|].
  apply (simpson38_float_error ex_sq 0x1p-2%float 0%float 0x1p-2%float 0x1p-1%float 0x1.8p-1%float
           0x1.2p-3%float 0%float 0x1p-4%float 0x1p-2%float 0x1.2p-1%float);
    try (vm_compute; reflexivity); try qf_okmul; try qf_fin; try qf_okdiv.
Qed.

(* ======================================================================================= *)
(* (5) definite_integral: one segment (trapezoid) and odd segment counts (3/8 panel on the
       last three segments, evaluated first, then the 1/3 rule on the first 2p segments)   *)
Lemma definite_integral_one {T : Type} {NT : Num T} (f : T -> res T) (a b : T) :
  definite_integral f a b 1 = trapezoid f a b (N.of_nat 1).
Proof. reflexivity. Qed.

Section OddDispatch.
  Context {T : Type} {NT : Num T}.
  Variable f : T -> res T.
  Variables a b : T.
  Variable p : nat.
  Let h := trap_h a b (2 * p + 3).

  Lemma odd_tests :
    (N.of_nat (2 * p + 3) =? 1)%N = false /\ N.even (N.of_nat (2 * p + 3)) = false /\
    (N.of_nat (2 * p + 3) <? 3)%N = false /\ (N.of_nat (2 * p + 3) - 3)%N = N.of_nat (2 * p).
  Proof.
    split; [apply N.eqb_neq; lia|]. split.
    - rewrite Nat2N.inj_add, N.even_add, Nat2N.inj_mul, N.even_mul. reflexivity.
    - split; [apply N.ltb_ge; lia|lia].
  Qed.

  Lemma definite_integral_odd (s38 : T) :
    simpson38 f h (nsub b (nmul h (nofZ 3))) (nsub b (nmul h (nofZ 2))) (nsub b (nmul h (nofZ 1))) b = Ok s38 ->
    definite_integral f a b (N.of_nat (2 * p + 3))
    = if (1 <=? p)%nat
      then bind (simpson13 f h a (N.of_nat (2 * p))) (fun s13 => Ok (nadd (nadd n0 s38) s13))
      else Ok (nadd n0 s38).
  Proof.
    intros Hs. destruct odd_tests as [E1 [E2 [E3 E4]]].
    unfold definite_integral. cbv zeta. fold (trap_h a b (2 * p + 3)). fold h.
    rewrite E1, E2, Hs. cbn [bind]. rewrite E3. cbn [bind]. rewrite E4.
    destruct (Nat.leb_spec 1 p) as [Hp|Hp].
    - assert (E5 : (1 <? N.of_nat (2 * p))%N = true) by (apply N.ltb_lt; lia). rewrite E5. reflexivity.
    - assert (E5 : (1 <? N.of_nat (2 * p))%N = false) by (apply N.ltb_ge; lia). rewrite E5. reflexivity.
  Qed.
End OddDispatch.

(* ---- real-number side ---- *)
Lemma scaled_abs (c V A k : R) : 0 < k -> Rabs V <= A -> Rabs (c * V / k) <= Rabs c * A / k.
Proof.
  intros Hk HV. unfold Rdiv. rewrite !Rabs_mult, (Rabs_inv k), (Rabs_pos_eq k) by lra.
  apply Rmult_le_compat_r; [apply Rlt_le, Rinv_0_lt_compat; exact Hk|].
  apply Rmult_le_compat_l; [apply Rabs_pos|exact HV].
Qed.

Lemma s38_sum_abs (f0 f1 f2 f3 : pfloat) :
  Rabs (FR f0 + 3 * FR f1 + 3 * FR f2 + FR f3) <= absFR f0 + 3 * absFR f1 + 3 * absFR f2 + absFR f3.
Proof.
  unfold absFR.
  eapply Rle_trans; [apply Rabs_triang|]. apply Rplus_le_compat; [|apply Rle_refl].
  eapply Rle_trans; [apply Rabs_triang|]. apply Rplus_le_compat.
  - eapply Rle_trans; [apply Rabs_triang|]. apply Rplus_le_compat; [apply Rle_refl|].
    rewrite Rabs_mult, (Rabs_pos_eq 3) by lra. apply Rle_refl.
  - rewrite Rabs_mult, (Rabs_pos_eq 3) by lra. apply Rle_refl.
Qed.

Lemma Rsum_tau_alpha (ps : list (pfloat * pfloat)) :
  Rabs (Rsum (map s13_tau ps)) <= Rsum (map s13_alpha ps).
Proof.
  induction ps as [|q ps IH]; cbn [map].
  - rewrite Rsum_nil, Rabs_R0. lra.
  - rewrite !Rsum_cons. pose proof (s13_tau_alpha q).
    eapply Rle_trans; [apply Rabs_triang|]. lra.
Qed.

Lemma s13_sum_abs (v0 vm ve : pfloat) (ps : list (pfloat * pfloat)) :
  Rabs (FR v0 + Rsum (map s13_tau ps) + 4 * FR vm + FR ve)
  <= absFR v0 + Rsum (map s13_alpha ps) + 4 * absFR vm + absFR ve.
Proof.
  pose proof (Rsum_tau_alpha ps). unfold absFR.
  eapply Rle_trans; [apply Rabs_triang|]. apply Rplus_le_compat; [|apply Rle_refl].
  eapply Rle_trans; [apply Rabs_triang|]. apply Rplus_le_compat.
  - eapply Rle_trans; [apply Rabs_triang|]. apply Rplus_le_compat; [apply Rle_refl|assumption].
  - rewrite Rabs_mult, (Rabs_pos_eq 4) by lra. apply Rle_refl.
Qed.

Lemma two_parts_bound (P1 P2 P M1 M2 E1 E2 x1 x2 d : R) :
  1 <= P1 -> P1 <= P -> 1 <= P2 -> P2 <= P ->
  Rabs E1 <= M1 -> Rabs E2 <= M2 ->
  Rabs (x1 - E1) <= (P1 - 1) * M1 -> Rabs (x2 - E2) <= (P2 - 1) * M2 -> Rabs d <= feps ->
  Rabs ((x1 + x2) * (1 + d) - (E1 + E2)) <= (P * (1 + feps) - 1) * (M1 + M2).
Proof.
  intros H1 H1P H2 H2P B1 B2 X1 X2 Hd. pose proof feps_pos as Hu.
  pose proof (Rabs_pos E1). pose proof (Rabs_pos E2).
  assert (G : Rabs ((x1 + x2 + 0) * (1 + d) - (E1 + E2 + 0)) <= (P * (1 + feps) - 1) * (M1 + M2 + Rabs 0)).
  { apply step_bound; [lra|lra|exact Hd| |].
    - eapply Rle_trans; [apply Rabs_triang|]. lra.
    - replace (x1 + x2 - (E1 + E2)) with ((x1 - E1) + (x2 - E2)) by ring.
      eapply Rle_trans; [apply Rabs_triang|].
      assert ((P1 - 1) * M1 <= (P - 1) * M1) by (apply Rmult_le_compat_r; lra).
      assert ((P2 - 1) * M2 <= (P - 1) * M2) by (apply Rmult_le_compat_r; lra).
      lra. }
  rewrite Rabs_R0, !Rplus_0_r in G. exact G.
Qed.

Lemma pow1p_le (m n : nat) : (m <= n)%nat -> (1 + feps) ^ m <= (1 + feps) ^ n.
Proof. intros H. apply Rle_pow; [pose proof feps_pos; lra|exact H]. Qed.

(* ---- one segment ---- *)
Theorem definite_integral_one_float_error :
  forall (f : PrimFloat.float -> res PrimFloat.float) (a b r v0 ve : PrimFloat.float),
  @definite_integral PrimFloat.float FNum f a b 1 = Ok r ->
  let h := PrimFloat.div (PrimFloat.sub b a) (@nofN PrimFloat.float FNum 1) in
  f a = Ok v0 -> f b = Ok ve ->
  is_finite (Prim2B (PrimFloat.add v0 ve)) = true ->
  okmul h (PrimFloat.add v0 ve) ->
  okdiv (PrimFloat.mul h (PrimFloat.add v0 ve)) (@ntwo PrimFloat.float FNum) ->
  is_finite (Prim2B r) = true /\
  Rabs (B2R (Prim2B r) - B2R (Prim2B h) * (B2R (Prim2B v0) + B2R (Prim2B ve)) / 2) <=
    ((1 + bpow radix2 (-53)) ^ 3 - 1) * Rabs (B2R (Prim2B h)) *
    (Rabs (B2R (Prim2B v0)) + Rabs (B2R (Prim2B ve))) / 2.
Proof.
  intros f a b r v0 ve Hr h H0 He Fa Hmul Hdiv.
  rewrite definite_integral_one in Hr.
  assert (Hpre : forall k, (k <= 1)%nat ->
            is_finite (Prim2B (fold_left PrimFloat.add (firstn k (trap_terms [] ve)) v0)) = true).
  { intros k Hk. destruct k as [|[|k]]; try lia; cbn [trap_terms map app firstn fold_left].
    - apply (add_ffin_inv _ _ Fa).
    - exact Fa. }
  destruct (trapezoid_float_error f a b 1 r v0 ve [] (le_n 1) Hr H0 eq_refl
              ltac:(intros i Hi; inversion Hi) He Hpre Hmul Hdiv) as [Fr B].
  split; [exact Fr|]. cbn [map] in B. rewrite Rsum_nil in B.
  change (1 + 2)%nat with 3%nat in B. fold h in B.
  replace (B2R (Prim2B v0) + B2R (Prim2B ve)) with (B2R (Prim2B v0) + 2 * 0 + B2R (Prim2B ve)) by ring.
  replace (Rabs (B2R (Prim2B v0)) + Rabs (B2R (Prim2B ve)))
    with (Rabs (B2R (Prim2B v0)) + 2 * 0 + Rabs (B2R (Prim2B ve))) by ring.
  exact B.
Qed.

(* ---- three segments: the 3/8 panel alone, then `0.0 + s` ---- *)
Lemma simpson38_closed (f : pfloat -> res pfloat) (h p0 p1 p2 p3 f0 f1 f2 f3 : pfloat) :
  f p0 = Ok f0 -> f p1 = Ok f1 -> f p2 = Ok f2 -> f p3 = Ok f3 ->
  @simpson38 pfloat FNum f h p0 p1 p2 p3
  = Ok (PrimFloat.div (PrimFloat.mul (PrimFloat.mul (nofZ 3) h)
          (PrimFloat.add (PrimFloat.add (PrimFloat.add f0 (PrimFloat.mul (nofZ 3) f1)) (PrimFloat.mul (nofZ 3) f2)) f3))
          (nofZ 8)).
Proof. intros H0 H1 H2 H3. unfold simpson38. rewrite H0, H1, H2, H3. reflexivity. Qed.

Lemma definite_integral_three_float_error_core (f : pfloat -> res pfloat) (a b r g0 g1 g2 g3 : pfloat) :
  @definite_integral pfloat FNum f a b 3 = Ok r ->
  let h := @trap_h pfloat FNum a b 3 in
  let three := @nofZ pfloat FNum 3 in
  f (PrimFloat.sub b (PrimFloat.mul h (nofZ 3))) = Ok g0 ->
  f (PrimFloat.sub b (PrimFloat.mul h (nofZ 2))) = Ok g1 ->
  f (PrimFloat.sub b (PrimFloat.mul h (nofZ 1))) = Ok g2 ->
  f b = Ok g3 ->
  let t1 := PrimFloat.mul three g1 in
  let t2 := PrimFloat.mul three g2 in
  let s := PrimFloat.add (PrimFloat.add (PrimFloat.add g0 t1) t2) g3 in
  okmul three g1 -> okmul three g2 ->
  ffin (PrimFloat.add g0 t1) -> ffin (PrimFloat.add (PrimFloat.add g0 t1) t2) -> ffin s ->
  okmul three h -> okmul (PrimFloat.mul three h) s ->
  okdiv (PrimFloat.mul (PrimFloat.mul three h) s) (nofZ 8) ->
  ffin r /\
  Rabs (FR r - 3 * FR h * (FR g0 + 3 * FR g1 + 3 * FR g2 + FR g3) / 8) <=
    ((1 + feps) ^ 7 - 1) * (3 * Rabs (FR h)) * (absFR g0 + 3 * absFR g1 + 3 * absFR g2 + absFR g3) / 8.
Proof.
  intros Hr h three G0 G1 G2 G3 t1 t2 s M1 M2 A1 A2 A3 Mh Mp Dv.
  pose proof (simpson38_closed f h _ _ _ _ _ _ _ _ G0 G1 G2 G3) as Hs38.
  fold three t1 t2 s in Hs38.
  set (S38 := PrimFloat.div (PrimFloat.mul (PrimFloat.mul three h) s) (nofZ 8)) in *.
  assert (D : @definite_integral pfloat FNum f a b 3 = Ok (PrimFloat.add PrimFloat.zero S38))
    by exact (definite_integral_odd f a b 0 S38 Hs38).
  rewrite D in Hr.
  assert (Er : r = PrimFloat.add PrimFloat.zero S38) by (injection Hr; intros E; symmetry; exact E).
  clear Hr D. subst r.
  destruct (simpson38_float_error_core f h _ _ _ _ S38 g0 g1 g2 g3 Hs38 G0 G1 G2 G3 M1 M2 A1 A2 A3 Mh Mp Dv)
    as [F38 B38].
  destruct (add_zero_l_FR S38 F38) as [Fr Er].
  split; [exact Fr|]. rewrite Er. exact B38.
Qed.

Theorem definite_integral_three_float_error :
  forall (f : PrimFloat.float -> res PrimFloat.float) (a b r g0 g1 g2 g3 : PrimFloat.float),
  @definite_integral PrimFloat.float FNum f a b 3 = Ok r ->
  let h := PrimFloat.div (PrimFloat.sub b a) (@nofN PrimFloat.float FNum 3) in
  let three := @nofZ PrimFloat.float FNum 3 in
  f (PrimFloat.sub b (PrimFloat.mul h (@nofZ PrimFloat.float FNum 3))) = Ok g0 ->
  f (PrimFloat.sub b (PrimFloat.mul h (@nofZ PrimFloat.float FNum 2))) = Ok g1 ->
  f (PrimFloat.sub b (PrimFloat.mul h (@nofZ PrimFloat.float FNum 1))) = Ok g2 ->
  f b = Ok g3 ->
  let t1 := PrimFloat.mul three g1 in
  let t2 := PrimFloat.mul three g2 in
  let s := PrimFloat.add (PrimFloat.add (PrimFloat.add g0 t1) t2) g3 in
  okmul three g1 -> okmul three g2 ->
  is_finite (Prim2B (PrimFloat.add g0 t1)) = true ->
  is_finite (Prim2B (PrimFloat.add (PrimFloat.add g0 t1) t2)) = true ->
  is_finite (Prim2B s) = true ->
  okmul three h -> okmul (PrimFloat.mul three h) s ->
  okdiv (PrimFloat.mul (PrimFloat.mul three h) s) (@nofZ PrimFloat.float FNum 8) ->
  is_finite (Prim2B r) = true /\
  Rabs (B2R (Prim2B r) -
        3 * B2R (Prim2B h) *
          (B2R (Prim2B g0) + 3 * B2R (Prim2B g1) + 3 * B2R (Prim2B g2) + B2R (Prim2B g3)) / 8) <=
    ((1 + bpow radix2 (-53)) ^ 7 - 1) * (3 * Rabs (B2R (Prim2B h))) *
    (Rabs (B2R (Prim2B g0)) + 3 * Rabs (B2R (Prim2B g1)) + 3 * Rabs (B2R (Prim2B g2))
     + Rabs (B2R (Prim2B g3))) / 8.
Proof. exact definite_integral_three_float_error_core. Qed.

(* ---- 2p + 3 segments, p >= 1 ---- *)
Lemma definite_integral_odd_float_error_core (f : pfloat -> res pfloat) (a b : pfloat) (p : nat)
      (r g0 g1 g2 g3 v0 vm ve : pfloat) (ps : list (pfloat * pfloat)) :
  (1 <= p)%nat ->
  @definite_integral pfloat FNum f a b (N.of_nat (2 * p + 3)) = Ok r ->
  let h := @trap_h pfloat FNum a b (2 * p + 3) in
  let three := @nofZ pfloat FNum 3 in
  f (PrimFloat.sub b (PrimFloat.mul h (nofZ 3))) = Ok g0 ->
  f (PrimFloat.sub b (PrimFloat.mul h (nofZ 2))) = Ok g1 ->
  f (PrimFloat.sub b (PrimFloat.mul h (nofZ 1))) = Ok g2 ->
  f b = Ok g3 ->
  let t1 := PrimFloat.mul three g1 in
  let t2 := PrimFloat.mul three g2 in
  let s := PrimFloat.add (PrimFloat.add (PrimFloat.add g0 t1) t2) g3 in
  okmul three g1 -> okmul three g2 ->
  ffin (PrimFloat.add g0 t1) -> ffin (PrimFloat.add (PrimFloat.add g0 t1) t2) -> ffin s ->
  okmul three h -> okmul (PrimFloat.mul three h) s ->
  okdiv (PrimFloat.mul (PrimFloat.mul three h) s) (nofZ 8) ->
  f a = Ok v0 -> length ps = (p - 1)%nat -> s13_samples f h a ps ->
  f (PrimFloat.sub (@snode pfloat FNum h a p) h) = Ok vm -> f (@snode pfloat FNum h a p) = Ok ve ->
  (forall k, (k <= p)%nat -> ffin (fsum (firstn k (s13_terms ps vm ve)) v0)) ->
  okmul h (fsum (s13_terms ps vm ve) v0) ->
  okdiv (PrimFloat.mul h (fsum (s13_terms ps vm ve) v0)) (nofZ 3) ->
  ffin r ->
  Rabs (FR r -
        (3 * FR h * (FR g0 + 3 * FR g1 + 3 * FR g2 + FR g3) / 8
         + FR h * (FR v0 + Rsum (map s13_tau ps) + 4 * FR vm + FR ve) / 3)) <=
    ((1 + feps) ^ (Nat.max 7 (p + 3) + 1) - 1) *
    (3 * Rabs (FR h) * (absFR g0 + 3 * absFR g1 + 3 * absFR g2 + absFR g3) / 8
     + Rabs (FR h) * (absFR v0 + Rsum (map s13_alpha ps) + 4 * absFR vm + absFR ve) / 3).
Proof.
  intros Hp Hr h three G0 G1 G2 G3 t1 t2 s M1 M2 A1 A2 A3 Mh Mp Dv H0 L Hs Hvm Hve Hpre Hmul Hdiv Fr.
  pose proof (simpson38_closed f h _ _ _ _ _ _ _ _ G0 G1 G2 G3) as Hs38.
  fold three t1 t2 s in Hs38.
  set (S38 := PrimFloat.div (PrimFloat.mul (PrimFloat.mul three h) s) (nofZ 8)) in *.
  rewrite (definite_integral_odd f a b p S38 Hs38) in Hr.
  replace (1 <=? p)%nat with true in Hr by (symmetry; apply Nat.leb_le; exact Hp).
  apply bind_ok in Hr. destruct Hr as [S13 [Hs13 Hr]].
  assert (Er : r = PrimFloat.add (PrimFloat.add PrimFloat.zero S38) S13)
    by (injection Hr; intros E; symmetry; exact E).
  clear Hr. subst r.
  destruct (simpson38_float_error_core f h _ _ _ _ S38 g0 g1 g2 g3 Hs38 G0 G1 G2 G3 M1 M2 A1 A2 A3 Mh Mp Dv)
    as [F38 B38].
  destruct (simpson13_float_error_core f h a p S13 v0 vm ve ps Hp Hs13 H0 L Hs Hvm Hve Hpre Hmul Hdiv)
    as [F13 B13].
  destruct (add_zero_l_FR S38 F38) as [Fu Eu].
  destruct (add_finite_rel _ _ Fu F13 Fr) as [d [Hd Er]]. rewrite Er, Eu.
  set (V38 := FR g0 + 3 * FR g1 + 3 * FR g2 + FR g3) in *.
  set (A38 := absFR g0 + 3 * absFR g1 + 3 * absFR g2 + absFR g3) in *.
  set (V13 := FR v0 + Rsum (map s13_tau ps) + 4 * FR vm + FR ve) in *.
  set (A13 := absFR v0 + Rsum (map s13_alpha ps) + 4 * absFR vm + absFR ve) in *.
  pose proof feps_pos as Hu.
  assert (H3h : Rabs (3 * FR h) = 3 * Rabs (FR h)) by (rewrite Rabs_mult, (Rabs_pos_eq 3) by lra; reflexivity).
  assert (BE38 : Rabs (3 * FR h * V38 / 8) <= 3 * Rabs (FR h) * A38 / 8).
  { rewrite <- H3h. apply scaled_abs; [lra|apply s38_sum_abs]. }
  assert (BE13 : Rabs (FR h * V13 / 3) <= Rabs (FR h) * A13 / 3).
  { apply scaled_abs; [lra|apply s13_sum_abs]. }
  assert (X38 : Rabs (FR S38 - 3 * FR h * V38 / 8) <= ((1 + feps) ^ 7 - 1) * (3 * Rabs (FR h) * A38 / 8)).
  { eapply Rle_trans; [exact B38|]. apply Req_le. unfold Rdiv. ring. }
  assert (X13 : Rabs (FR S13 - FR h * V13 / 3) <= ((1 + feps) ^ (p + 3) - 1) * (Rabs (FR h) * A13 / 3)).
  { eapply Rle_trans; [exact B13|]. apply Req_le. unfold Rdiv. ring. }
  replace ((1 + feps) ^ (Nat.max 7 (p + 3) + 1)) with ((1 + feps) ^ Nat.max 7 (p + 3) * (1 + feps))
    by (rewrite pow_add; cbn [pow]; ring).
  apply (two_parts_bound ((1 + feps) ^ 7) ((1 + feps) ^ (p + 3))); try assumption.
  - apply pow1p_ge1; lra.
  - apply pow1p_le, Nat.le_max_l.
  - apply pow1p_ge1; lra.
  - apply pow1p_le, Nat.le_max_r.
Qed.

(* Final statement, 2p + 3 segments with p >= 1.  h = (b - a)/(2p+3) as computed.  The 3/8 panel is taken
   at q3 = b - h*3, q2 = b - h*2, q1 = b - h*1, b (as computed; values g0..g3); the 1/3 rule runs on the
   first 2p segments from a (values v0, ps, vm, ve as in [simpson13_float_error]).  r = fl(fl(0 + s38) + s13):
   one more rounding on top of the larger of the two exponents 7 and p + 3. *)
Theorem definite_integral_odd_float_error :
  forall (f : PrimFloat.float -> res PrimFloat.float) (a b : PrimFloat.float) (p : nat)
         (r g0 g1 g2 g3 v0 vm ve : PrimFloat.float) (ps : list (PrimFloat.float * PrimFloat.float)),
  (1 <= p)%nat ->
  @definite_integral PrimFloat.float FNum f a b (N.of_nat (2 * p + 3)) = Ok r ->
  let h := PrimFloat.div (PrimFloat.sub b a) (@nofN PrimFloat.float FNum (N.of_nat (2 * p + 3))) in
  let three := @nofZ PrimFloat.float FNum 3 in
  f (PrimFloat.sub b (PrimFloat.mul h (@nofZ PrimFloat.float FNum 3))) = Ok g0 ->
  f (PrimFloat.sub b (PrimFloat.mul h (@nofZ PrimFloat.float FNum 2))) = Ok g1 ->
  f (PrimFloat.sub b (PrimFloat.mul h (@nofZ PrimFloat.float FNum 1))) = Ok g2 ->
  f b = Ok g3 ->
  let t1 := PrimFloat.mul three g1 in
  let t2 := PrimFloat.mul three g2 in
  let s := PrimFloat.add (PrimFloat.add (PrimFloat.add g0 t1) t2) g3 in
  okmul three g1 -> okmul three g2 ->
  is_finite (Prim2B (PrimFloat.add g0 t1)) = true ->
  is_finite (Prim2B (PrimFloat.add (PrimFloat.add g0 t1) t2)) = true ->
  is_finite (Prim2B s) = true ->
  okmul three h -> okmul (PrimFloat.mul three h) s ->
  okdiv (PrimFloat.mul (PrimFloat.mul three h) s) (@nofZ PrimFloat.float FNum 8) ->
  f a = Ok v0 -> length ps = (p - 1)%nat ->
  (forall j, (j < length ps)%nat ->
     f (PrimFloat.sub (@snode PrimFloat.float FNum h a (S j)) h) = Ok (fst (nth j ps (PrimFloat.zero, PrimFloat.zero))) /\
     f (@snode PrimFloat.float FNum h a (S j)) = Ok (snd (nth j ps (PrimFloat.zero, PrimFloat.zero)))) ->
  f (PrimFloat.sub (@snode PrimFloat.float FNum h a p) h) = Ok vm ->
  f (@snode PrimFloat.float FNum h a p) = Ok ve ->
  (forall k, (k <= p)%nat ->
     is_finite (Prim2B (fold_left PrimFloat.add (firstn k (s13_terms ps vm ve)) v0)) = true) ->
  okmul h (fold_left PrimFloat.add (s13_terms ps vm ve) v0) ->
  okdiv (PrimFloat.mul h (fold_left PrimFloat.add (s13_terms ps vm ve) v0)) (@nofZ PrimFloat.float FNum 3) ->
  is_finite (Prim2B r) = true ->
  Rabs (B2R (Prim2B r) -
        (3 * B2R (Prim2B h) *
           (B2R (Prim2B g0) + 3 * B2R (Prim2B g1) + 3 * B2R (Prim2B g2) + B2R (Prim2B g3)) / 8
         + B2R (Prim2B h) *
           (B2R (Prim2B v0)
            + Rsum (map (fun q => 4 * B2R (Prim2B (fst q)) + 2 * B2R (Prim2B (snd q))) ps)
            + 4 * B2R (Prim2B vm) + B2R (Prim2B ve)) / 3)) <=
    ((1 + bpow radix2 (-53)) ^ (Nat.max 7 (p + 3) + 1) - 1) *
    (3 * Rabs (B2R (Prim2B h)) *
       (Rabs (B2R (Prim2B g0)) + 3 * Rabs (B2R (Prim2B g1)) + 3 * Rabs (B2R (Prim2B g2))
        + Rabs (B2R (Prim2B g3))) / 8
     + Rabs (B2R (Prim2B h)) *
       (Rabs (B2R (Prim2B v0))
        + Rsum (map (fun q => 4 * Rabs (B2R (Prim2B (fst q))) + 2 * Rabs (B2R (Prim2B (snd q)))) ps)
        + 4 * Rabs (B2R (Prim2B vm)) + Rabs (B2R (Prim2B ve))) / 3).
Proof. exact definite_integral_odd_float_error_core. Qed.

(* non-vacuity, odd count: x*x on [0,1] with 5 segments (p = 1: 3/8 panel on [2/5,1], one 1/3 panel on [0,2/5]);
   the sampled values are defined by computation *)
Definition ex5_h : PrimFloat.float := Eval vm_compute in (1 / 5)%float.
Definition ex5_sq (x : PrimFloat.float) : PrimFloat.float := PrimFloat.mul x x.
Definition ex5_g0 : PrimFloat.float := Eval vm_compute in ex5_sq (1 - ex5_h * 3)%float.
Definition ex5_g1 : PrimFloat.float := Eval vm_compute in ex5_sq (1 - ex5_h * 2)%float.
Definition ex5_g2 : PrimFloat.float := Eval vm_compute in ex5_sq (1 - ex5_h * 1)%float.
Definition ex5_vm : PrimFloat.float := Eval vm_compute in ex5_sq (0 + 2 * ex5_h - ex5_h)%float.
Definition ex5_ve : PrimFloat.float := Eval vm_compute in ex5_sq (0 + 2 * ex5_h)%float.

Definition ex5_r : PrimFloat.float := Eval vm_compute in
  match @definite_integral PrimFloat.float FNum (fun x => Ok (PrimFloat.mul x x)) 0%float 1%float 5 with
  | Ok x => x | _ => PrimFloat.nan end.

Example ex_odd_float_error :
  exists r, @definite_integral PrimFloat.float FNum ex_sq 0%float 1%float 5 = Ok r /\
  is_finite (Prim2B r) = true /\
  Rabs (B2R (Prim2B r) -
        (3 * B2R (Prim2B ex5_h) *
           (B2R (Prim2B ex5_g0) + 3 * B2R (Prim2B ex5_g1) + 3 * B2R (Prim2B ex5_g2) + B2R (Prim2B 1%float)) / 8
         + B2R (Prim2B ex5_h) *
           (B2R (Prim2B 0%float)
            + Rsum (map (fun q => 4 * B2R (Prim2B (fst q)) + 2 * B2R (Prim2B (snd q))) [])
            + 4 * B2R (Prim2B ex5_vm) + B2R (Prim2B ex5_ve)) / 3)) <=
    ((1 + bpow radix2 (-53)) ^ 8 - 1) *
    (3 * Rabs (B2R (Prim2B ex5_h)) *
       (Rabs (B2R (Prim2B ex5_g0)) + 3 * Rabs (B2R (Prim2B ex5_g1)) + 3 * Rabs (B2R (Prim2B ex5_g2))
        + Rabs (B2R (Prim2B 1%float))) / 8
     + Rabs (B2R (Prim2B ex5_h)) *
       (Rabs (B2R (Prim2B 0%float))
        + Rsum (map (fun q => 4 * Rabs (B2R (Prim2B (fst q))) + 2 * Rabs (B2R (Prim2B (snd q)))) [])
        + 4 * Rabs (B2R (Prim2B ex5_vm)) + Rabs (B2R (Prim2B ex5_ve))) / 3).
Proof.
  exists ex5_r.
  assert (E : @definite_integral PrimFloat.float FNum ex_sq 0%float 1%float 5 = Ok ex5_r) by (vm_compute; reflexivity).
  split; [exact E|].
  assert (Fr : is_finite (Prim2B ex5_r) = true) by qf_fin.
  split; [exact Fr|].
  apply (definite_integral_odd_float_error ex_sq 0%float 1%float 1 ex5_r ex5_g0 ex5_g1 ex5_g2 1%float
           0%float ex5_vm ex5_ve []); try exact Fr; try exact E.
  all: try lia.
  all: try (vm_compute; reflexivity).
  all: try qf_okmul.
  all: try qf_fin.
  all: try qf_okdiv.
  - intros j Hj. inversion Hj.
  - intros k Hk. destruct k as [|[|k]]; try lia; qf_fin.
Qed.

(* the four dispatch theorems cover every segment count >= 1 *)
Lemma segment_count_cases : forall n : N, (1 <= n)%N ->
  n = 1%N \/ (exists p, (1 <= p)%nat /\ n = N.of_nat (2 * p)) \/ n = 3%N \/
  (exists p, (1 <= p)%nat /\ n = N.of_nat (2 * p + 3)).
Proof.
  intros n Hn.
  destruct (N.eq_dec n 1) as [->|H1]; [left; reflexivity|right].
  destruct (N.eq_dec n 3) as [->|H3]; [right; left; reflexivity|].
  destruct (N.Even_or_Odd n) as [[k Hk]|[k Hk]].
  - left. exists (N.to_nat k). split; [lia|]. lia.
  - right; right. exists (N.to_nat k - 1)%nat. split; [lia|]. lia.
Qed.
