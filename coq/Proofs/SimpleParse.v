(* Proofs/SimpleParse.v — the univariate parser [parse_simple] of Model/Parse.v
   against the documented language of Model/GrammarS.v (properties C01 and the
   simple-parser half of C16).

   Part A  (every Num instance): structure of simple_term, totality, spacing
   Part B  (every Num instance): the dense coefficient vector
   Part C  (every Num instance): grammar strings are accepted (c01_accept)
   Part D  (every Num instance): accepted strings are grammar strings (converse)
   Part E  (R instance): evaluation = sum of c_k x^k = value of the source text
   Part F  examples / the executable Unicode table is sane *)
From Coq Require Import ZArith NArith List Bool Reals Lra Lia.
From Coq Require String Ascii.
From SV Require Import Base.Num Base.Outcome Base.Str Model.Poly Model.Parse Model.GrammarS Proofs.StrLemmas.
Import ListNotations.

(* ========================================================================== *)
(** * Part A — structure of [simple_term]; totality; spacing *)

(* generic facts about mapM *)
Lemma mapM_no_panic {A B} (f : A -> res B) (l : list A) :
  (forall x w, f x <> Panic w) -> forall w, mapM f l <> Panic w.
Proof.
  intros Hf. induction l as [|a l IH]; intros w; cbn [mapM]; [discriminate|].
  destruct (f a) as [y|e|w'] eqn:E; cbn [bind]; [|discriminate|exfalso; exact (Hf _ _ E)].
  destruct (mapM f l) as [ys|e|w'] eqn:E2; cbn [bind]; [discriminate|discriminate|].
  exfalso; exact (IH w' eq_refl).
Qed.

Lemma mapM_ok_in {A B} (f : A -> res B) (l : list A) ys y :
  mapM f l = Ok ys -> In y ys -> exists x, In x l /\ f x = Ok y.
Proof.
  revert ys; induction l as [|a l IH]; intros ys H Hy; cbn [mapM] in H.
  - injection H as <-. destruct Hy.
  - destruct (f a) as [b|e|w] eqn:E; cbn [bind] in H; try discriminate.
    destruct (mapM f l) as [bs|e|w] eqn:E2; cbn [bind] in H; try discriminate.
    injection H as <-. destruct Hy as [<-|Hy].
    + exists a; split; [left; reflexivity|exact E].
    + destruct (IH bs eq_refl Hy) as (x & Hx & Hfx). exists x; split; [right; exact Hx|exact Hfx].
Qed.

Lemma mapM_map_ok {A B C} (f : A -> res B) (h : C -> A) (g : C -> B) (l : list C) :
  (forall x, In x l -> f (h x) = Ok (g x)) -> mapM f (map h l) = Ok (map g l).
Proof.
  induction l as [|a l IH]; intros H; cbn [map mapM]; [reflexivity|].
  rewrite (H a (or_introl eq_refl)). cbn [bind].
  rewrite IH by (intros x Hx; apply H; right; exact Hx). reflexivity.
Qed.

Section Generic.
  Context {T : Type} {NT : Num T}.

  (* the three pieces of simple_term, named *)
  Definition const_of (part : str) : res (T * nat) :=
    match parse_dec part with
    | Some c => Ok (c, O)
    | None => Err EInvalidConstant
    end.
  Definition coeff_of (coeff_str : str) : res T :=
    match coeff_str with
    | [] => Ok n1
    | [c] => if N.eqb c c_plus then Ok n1
             else if N.eqb c c_minus then Ok (nneg n1)
             else match parse_dec coeff_str with Some c => Ok c | None => Err EInvalidCoefficient end
    | _ => match parse_dec coeff_str with Some c => Ok c | None => Err EInvalidCoefficient end
    end.
  Definition after_var (c : T) (rest : str) : res (T * nat) :=
    match rest with
    | [] => Ok (c, 1%nat)
    | r :: pow_str =>
        if N.eqb r c_caret then
          match parse_nat_text pow_str with
          | Some p => if (p <=? MAX_POWER)%Z then Ok (c, Z.to_nat p) else Err EInvalidExponent
          | None => Err EInvalidExponent
          end
        else Err EUnexpectedChar
    end.

  Lemma simple_term_eq var part :
    simple_term var part =
    match var with
    | None => const_of part
    | Some v =>
        match find_char v part with
        | None => const_of part
        | Some x =>
            match coeff_of (firstn x part) with
            | Ok c => after_var c (skipn (S x) part)
            | Err e => Err e
            | Panic w => Panic w
            end
        end
    end.
  Proof. reflexivity. Qed.

  Lemma const_of_no_panic part w : const_of part <> Panic w.
  Proof. unfold const_of. destruct (parse_dec part); discriminate. Qed.

  Lemma coeff_of_no_panic cs w : coeff_of cs <> Panic w.
  Proof.
    unfold coeff_of. destruct cs as [|c [|c2 r]]; [discriminate| |].
    - destruct (N.eqb c c_plus); [discriminate|]. destruct (N.eqb c c_minus); [discriminate|].
      destruct (parse_dec [c]); discriminate.
    - destruct (parse_dec (c :: c2 :: r)); discriminate.
  Qed.

  Lemma after_var_no_panic c rest w : after_var c rest <> Panic w.
  Proof.
    unfold after_var. destruct rest as [|r ps]; [discriminate|].
    destruct (N.eqb r c_caret); [|discriminate].
    destruct (parse_nat_text ps) as [z|]; [|discriminate]. destruct (z <=? MAX_POWER)%Z; discriminate.
  Qed.

  Lemma simple_term_no_panic var part w : simple_term var part <> Panic w.
  Proof.
    rewrite simple_term_eq. destruct var as [v|]; [|apply const_of_no_panic].
    destruct (find_char v part) as [x|]; [|apply const_of_no_panic].
    destruct (coeff_of (firstn x part)) as [c|e|w'] eqn:E;
      [apply after_var_no_panic|discriminate|exfalso; exact (coeff_of_no_panic _ _ E)].
  Qed.

  Lemma const_of_inv part ck : const_of part = Ok ck -> exists c, parse_dec part = Some c /\ ck = (c, O).
  Proof.
    unfold const_of. destruct (parse_dec part) as [c|]; [|discriminate].
    intros H; injection H as <-. exists c; auto.
  Qed.

  Lemma after_var_inv c rest ck : after_var c rest = Ok ck ->
    (rest = [] /\ ck = (c, 1%nat)) \/
    (exists ds, rest = c_caret :: ds /\ wf_exp ds = true /\ ck = (c, Z.to_nat (digits_val ds))).
  Proof.
    unfold after_var. destruct rest as [|r ps].
    - intros H; injection H as <-. left; auto.
    - destruct (N.eqb_spec r c_caret) as [->|_]; [|discriminate].
      destruct (parse_nat_text ps) as [z|] eqn:E; [|discriminate].
      destruct (z <=? MAX_POWER)%Z eqn:L; [|discriminate].
      intros H; injection H as <-. right. exists ps.
      apply parse_nat_text_inv in E. destruct E as (Hne & Had & ->).
      split; [reflexivity|]. split; [|reflexivity].
      unfold wf_exp. rewrite Had, L. destruct ps; [contradiction|reflexivity].
  Qed.

  (* every exponent the parser lets through is at most MAX_POWER *)
  Lemma simple_term_pow var part c k : simple_term var part = Ok (c, k) -> (Z.of_nat k <= MAX_POWER)%Z.
  Proof.
    assert (Hc : forall p, const_of p = Ok (c, k) -> (Z.of_nat k <= MAX_POWER)%Z).
    { intros p H. apply const_of_inv in H. destruct H as (c' & _ & H). injection H as _ ->.
      unfold MAX_POWER; lia. }
    rewrite simple_term_eq. destruct var as [v|]; [|apply Hc].
    destruct (find_char v part) as [x|]; [|apply Hc].
    destruct (coeff_of (firstn x part)) as [c0|e|w]; try discriminate.
    intros H. apply after_var_inv in H. destruct H as [[_ H]|(ds & _ & Hw & H)]; injection H as _ ->.
    - unfold MAX_POWER; lia.
    - unfold wf_exp in Hw. apply andb_true_iff in Hw. destruct Hw as [_ Hw].
      apply Z.leb_le in Hw. unfold MAX_POWER in *. lia.
  Qed.

  (* ---- max_power_of ---- *)
  Lemma fold_max_le (M : Z) (ts : list (T * nat)) : forall a,
    (Z.of_nat a <= M)%Z -> (forall t, In t ts -> (Z.of_nat (snd t) <= M)%Z) ->
    (Z.of_nat (fold_left (fun m t => Nat.max m (snd t)) ts a) <= M)%Z.
  Proof.
    induction ts as [|t ts IH]; intros a Ha H; cbn [fold_left]; [exact Ha|].
    apply IH.
    - pose proof (H t (or_introl eq_refl)). lia.
    - intros t' Ht'. apply H. right; exact Ht'.
  Qed.

  Lemma fold_max_ge (ts : list (T * nat)) : forall a,
    (a <= fold_left (fun m t => Nat.max m (snd t)) ts a)%nat /\
    (forall t, In t ts -> (snd t <= fold_left (fun m t => Nat.max m (snd t)) ts a)%nat).
  Proof.
    induction ts as [|t ts IH]; intros a; cbn [fold_left].
    - split; [lia|intros t []].
    - destruct (IH (Nat.max a (snd t))) as [H1 H2]. split; [lia|].
      intros t' [<-|Ht']; [lia|exact (H2 t' Ht')].
  Qed.

  Lemma fold_max_attained (ts : list (T * nat)) : forall a,
    fold_left (fun m t => Nat.max m (snd t)) ts a = a \/
    exists t, In t ts /\ snd t = fold_left (fun m t => Nat.max m (snd t)) ts a.
  Proof.
    induction ts as [|t ts IH]; intros a; cbn [fold_left]; [left; reflexivity|].
    destruct (IH (Nat.max a (snd t))) as [E|(t' & Ht' & E)].
    - rewrite E. destruct (Nat.max_spec a (snd t)) as [[_ ->]|[_ ->]]; [right|left; reflexivity].
      exists t; split; [left; reflexivity|reflexivity].
    - right. exists t'; split; [right; exact Ht'|exact E].
  Qed.

  Lemma max_power_ge (ts : list (T * nat)) t : In t ts -> (snd t <= max_power_of ts)%nat.
  Proof. intros H. exact (proj2 (fold_max_ge ts O) t H). Qed.

  Lemma max_power_attained (ts : list (T * nat)) : ts <> [] -> exists t, In t ts /\ snd t = max_power_of ts.
  Proof.
    intros Hne. destruct (fold_max_attained ts O) as [E|H]; [|exact H].
    destruct ts as [|t ts]; [contradiction|]. exists t. split; [left; reflexivity|].
    pose proof (max_power_ge (t :: ts) t (or_introl eq_refl)) as H. unfold max_power_of in *. lia.
  Qed.

  Lemma dense_coeffs_checked_ok ts :
    (forall t, In t ts -> (Z.of_nat (snd t) <= MAX_POWER)%Z) -> dense_coeffs_checked ts = Ok (dense_coeffs ts).
  Proof.
    intros H. unfold dense_coeffs_checked.
    assert (Hm : (Z.of_nat (max_power_of ts) <= MAX_POWER)%Z).
    { unfold max_power_of. apply fold_max_le; [unfold MAX_POWER; lia|exact H]. }
    cbv zeta. unfold MAX_POWER in Hm.
    change (2 ^ 64)%Z with 18446744073709551616%Z. change (2 ^ 63)%Z with 9223372036854775808%Z.
    destruct (Z.leb_spec 18446744073709551616 (Z.of_nat (max_power_of ts) + 1)) as [K|_]; [lia|].
    destruct (Z.ltb_spec (9223372036854775808 - 1) ((Z.of_nat (max_power_of ts) + 1) * 8)) as [K|_]; [lia|].
    reflexivity.
  Qed.

  (* ---- C16 (simple parser): never a panic, whatever the text ---- *)
  Theorem simple_total (U : UClass) (s : str) (w : why) : parse_simple U s <> Panic w.
  Proof.
    unfold parse_simple. cbv zeta.
    destruct (existsb bad_part _); [discriminate|].
    destruct (mapM _ _) as [terms|e|w'] eqn:E; [|discriminate|exfalso; revert E; apply mapM_no_panic; intros; apply simple_term_no_panic].
    rewrite dense_coeffs_checked_ok; [discriminate|].
    intros [c k] Hin. destruct (mapM_ok_in _ _ _ _ E Hin) as (p & _ & Hp).
    exact (simple_term_pow _ _ _ _ Hp).
  Qed.

  (* ---- spacing ---- *)
  Theorem simple_spacing (U : UClass) (s : str) : parse_simple U s = parse_simple U (strip_ws s).
  Proof. unfold parse_simple. rewrite strip_ws_idem. reflexivity. Qed.

  (* the empty text (after stripping) is accepted as the constant 0 *)
  Lemma simple_empty (U : UClass) (s : str) :
    strip_ws s = [] -> parse_simple U s = Ok {| s_coefs := [n0]; s_var := None |}.
  Proof. intros H. unfold parse_simple. rewrite H. reflexivity. Qed.

  (* ======================================================================== *)
  (** * Part B — the dense coefficient vector *)

  Lemma add_at_length cs p c : length (add_at cs p c) = length cs.
  Proof.
    revert p; induction cs as [|x cs IH]; intros p; [reflexivity|].
    destruct p; cbn [add_at length]; [reflexivity|rewrite IH; reflexivity].
  Qed.

  Lemma add_at_nth cs p c k d : (p < length cs)%nat ->
    nth k (add_at cs p c) d = if Nat.eqb p k then nadd (nth k cs d) c else nth k cs d.
  Proof.
    revert p k; induction cs as [|x cs IH]; intros p k Hp; cbn [length] in Hp; [lia|].
    destruct p as [|p], k as [|k]; cbn [add_at nth Nat.eqb]; try reflexivity.
    apply IH. lia.
  Qed.

  Lemma nth_repeat_same (a : T) n k : nth k (repeat a n) a = a.
  Proof. revert k; induction n as [|n IH]; intros [|k]; cbn [repeat nth]; auto. Qed.

  Definition pow_is (k : nat) (t : T * nat) : bool := Nat.eqb (snd t) k.

  Lemma fold_add_at ts : forall cs, (forall t, In t ts -> (snd t < length cs)%nat) ->
    length (fold_left (fun cs t => add_at cs (snd t) (fst t)) ts cs) = length cs /\
    forall k, nth k (fold_left (fun cs t => add_at cs (snd t) (fst t)) ts cs) n0
              = fold_left nadd (map fst (filter (pow_is k) ts)) (nth k cs n0).
  Proof.
    induction ts as [|t ts IH]; intros cs H; cbn [fold_left]; [split; reflexivity|].
    assert (Ht : (snd t < length cs)%nat) by (apply H; left; reflexivity).
    destruct (IH (add_at cs (snd t) (fst t))) as [L N].
    { intros t' Ht'. rewrite add_at_length. apply H. right; exact Ht'. }
    split; [rewrite L; apply add_at_length|].
    intros k. rewrite N, add_at_nth by exact Ht. cbn [filter]. unfold pow_is at 2.
    destruct (Nat.eqb (snd t) k); reflexivity.
  Qed.

  Lemma dense_length ts : length (dense_coeffs ts) = S (max_power_of ts).
  Proof.
    unfold dense_coeffs.
    destruct (fold_add_at ts (repeat n0 (S (max_power_of ts)))) as [L _].
    - intros t Ht. rewrite repeat_length. pose proof (max_power_ge ts t Ht). lia.
    - rewrite L. apply repeat_length.
  Qed.

  (* position k holds the sum, in source order, of the coefficients of the terms of
     power k — for EVERY k (beyond the maximal power both sides are n0) *)
  Lemma dense_nth ts k :
    nth k (dense_coeffs ts) n0 = fold_left nadd (map fst (filter (pow_is k) ts)) n0.
  Proof.
    unfold dense_coeffs.
    destruct (fold_add_at ts (repeat n0 (S (max_power_of ts)))) as [_ N].
    - intros t Ht. rewrite repeat_length. pose proof (max_power_ge ts t Ht). lia.
    - rewrite N, nth_repeat_same. reflexivity.
  Qed.
End Generic.
