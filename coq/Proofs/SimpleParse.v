(* Proofs/SimpleParse.v — the univariate parser [parse_simple] of Model/Parse.v
   against the documented language of Model/GrammarS.v (properties C01 and the
   simple-parser half of C16).

   Part A  (every Num instance): structure of simple_term, totality, spacing
   Part B  (every Num instance): the dense coefficient vector
   Part C  (every Num instance): grammar strings are accepted (c01_accept)
   Part D  (every Num instance): accepted strings are grammar strings (converse)
   Part E  (R instance): evaluation = sum of c_k x^k = value of the source text
   Part F  examples / the executable Unicode table is sane *)
From Coq Require Import ZArith NArith List Bool Reals Lra Lia.
From Coq Require String Ascii.
From SV Require Import Base.Num Base.Outcome Base.Str Model.Poly Model.Parse Model.GrammarS Proofs.StrLemmas.
Import ListNotations.

(* ========================================================================== *)
(** * Part A — structure of [simple_term]; totality; spacing *)

(* generic facts about mapM *)
Lemma mapM_no_panic {A B} (f : A -> res B) (l : list A) :
  (forall x w, f x <> Panic w) -> forall w, mapM f l <> Panic w.
Proof.
  intros Hf. induction l as [|a l IH]; intros w; cbn [mapM]; [discriminate|].
  destruct (f a) as [y|e|w'] eqn:E; cbn [bind]; [|discriminate|exfalso; exact (Hf _ _ E)].
  destruct (mapM f l) as [ys|e|w'] eqn:E2; cbn [bind]; [discriminate|discriminate|].
  exfalso; exact (IH w' eq_refl).
Qed.

Lemma mapM_ok_in {A B} (f : A -> res B) (l : list A) ys y :
  mapM f l = Ok ys -> In y ys -> exists x, In x l /\ f x = Ok y.
Proof.
  revert ys; induction l as [|a l IH]; intros ys H Hy; cbn [mapM] in H.
  - injection H as <-. destruct Hy.
  - destruct (f a) as [b|e|w] eqn:E; cbn [bind] in H; try discriminate.
    destruct (mapM f l) as [bs|e|w] eqn:E2; cbn [bind] in H; try discriminate.
    injection H as <-. destruct Hy as [<-|Hy].
    + exists a; split; [left; reflexivity|exact E].
    + destruct (IH bs eq_refl Hy) as (x & Hx & Hfx). exists x; split; [right; exact Hx|exact Hfx].
Qed.

Lemma mapM_map_ok {A B C} (f : A -> res B) (h : C -> A) (g : C -> B) (l : list C) :
  (forall x, In x l -> f (h x) = Ok (g x)) -> mapM f (map h l) = Ok (map g l).
Proof.
  induction l as [|a l IH]; intros H; cbn [map mapM]; [reflexivity|].
  rewrite (H a (or_introl eq_refl)). cbn [bind].
  rewrite IH by (intros x Hx; apply H; right; exact Hx). reflexivity.
Qed.

Section Generic.
  Context {T : Type} {NT : Num T}.

  (* the three pieces of simple_term, named *)
  Definition const_of (part : str) : res (T * nat) :=
    match parse_dec_finite part with
    | Some c => Ok (c, O)
    | None => Err EInvalidConstant
    end.
  Definition coeff_of (coeff_str : str) : res T :=
    match coeff_str with
    | [] => Ok n1
    | [c] => if N.eqb c c_plus then Ok n1
             else if N.eqb c c_minus then Ok (nneg n1)
             else match parse_dec_finite coeff_str with Some c => Ok c | None => Err EInvalidCoefficient end
    | _ => match parse_dec_finite coeff_str with Some c => Ok c | None => Err EInvalidCoefficient end
    end.
  Definition after_var (c : T) (rest : str) : res (T * nat) :=
    match rest with
    | [] => Ok (c, 1%nat)
    | r :: pow_str =>
        if N.eqb r c_caret then
          match parse_nat_text pow_str with
          | Some p => if (p <=? MAX_POWER)%Z then Ok (c, Z.to_nat p) else Err EInvalidExponent
          | None => Err EInvalidExponent
          end
        else Err EUnexpectedChar
    end.

  Lemma simple_term_eq var part :
    simple_term var part =
    match var with
    | None => const_of part
    | Some v =>
        match find_char v part with
        | None => const_of part
        | Some x =>
            match coeff_of (firstn x part) with
            | Ok c => after_var c (skipn (S x) part)
            | Err e => Err e
            | Panic w => Panic w
            end
        end
    end.
  Proof. reflexivity. Qed.

  Lemma const_of_no_panic part w : const_of part <> Panic w.
  Proof. unfold const_of. destruct (parse_dec_finite part); discriminate. Qed.

  Lemma coeff_of_no_panic cs w : coeff_of cs <> Panic w.
  Proof.
    unfold coeff_of. destruct cs as [|c [|c2 r]]; [discriminate| |].
    - destruct (N.eqb c c_plus); [discriminate|]. destruct (N.eqb c c_minus); [discriminate|].
      destruct (parse_dec_finite [c]); discriminate.
    - destruct (parse_dec_finite (c :: c2 :: r)); discriminate.
  Qed.

  Lemma after_var_no_panic c rest w : after_var c rest <> Panic w.
  Proof.
    unfold after_var. destruct rest as [|r ps]; [discriminate|].
    destruct (N.eqb r c_caret); [|discriminate].
    destruct (parse_nat_text ps) as [z|]; [|discriminate]. destruct (z <=? MAX_POWER)%Z; discriminate.
  Qed.

  Lemma simple_term_no_panic var part w : simple_term var part <> Panic w.
  Proof.
    rewrite simple_term_eq. destruct var as [v|]; [|apply const_of_no_panic].
    destruct (find_char v part) as [x|]; [|apply const_of_no_panic].
    destruct (coeff_of (firstn x part)) as [c|e|w'] eqn:E;
      [apply after_var_no_panic|discriminate|exfalso; exact (coeff_of_no_panic _ _ E)].
  Qed.

  Lemma const_of_inv part ck : const_of part = Ok ck -> exists c, parse_dec_finite part = Some c /\ ck = (c, O).
  Proof.
    unfold const_of. destruct (parse_dec_finite part) as [c|]; [|discriminate].
    intros H; injection H as <-. exists c; auto.
  Qed.

  Lemma after_var_inv c rest ck : after_var c rest = Ok ck ->
    (rest = [] /\ ck = (c, 1%nat)) \/
    (exists ds, rest = c_caret :: ds /\ wf_exp ds = true /\ ck = (c, Z.to_nat (digits_val ds))).
  Proof.
    unfold after_var. destruct rest as [|r ps].
    - intros H; injection H as <-. left; auto.
    - destruct (N.eqb_spec r c_caret) as [->|_]; [|discriminate].
      destruct (parse_nat_text ps) as [z|] eqn:E; [|discriminate].
      destruct (z <=? MAX_POWER)%Z eqn:L; [|discriminate].
      intros H; injection H as <-. right. exists ps.
      apply parse_nat_text_inv in E. destruct E as (Hne & Had & ->).
      split; [reflexivity|]. split; [|reflexivity].
      unfold wf_exp. rewrite Had, L. destruct ps; [contradiction|reflexivity].
  Qed.

  (* every exponent the parser lets through is at most MAX_POWER *)
  Lemma simple_term_pow var part c k : simple_term var part = Ok (c, k) -> (Z.of_nat k <= MAX_POWER)%Z.
  Proof.
    assert (Hc : forall p, const_of p = Ok (c, k) -> (Z.of_nat k <= MAX_POWER)%Z).
    { intros p H. apply const_of_inv in H. destruct H as (c' & _ & H). injection H as _ ->.
      unfold MAX_POWER; lia. }
    rewrite simple_term_eq. destruct var as [v|]; [|apply Hc].
    destruct (find_char v part) as [x|]; [|apply Hc].
    destruct (coeff_of (firstn x part)) as [c0|e|w]; try discriminate.
    intros H. apply after_var_inv in H. destruct H as [[_ H]|(ds & _ & Hw & H)]; injection H as _ ->.
    - unfold MAX_POWER; lia.
    - unfold wf_exp in Hw. apply andb_true_iff in Hw. destruct Hw as [_ Hw].
      apply Z.leb_le in Hw. unfold MAX_POWER in *. lia.
  Qed.

  (* ---- max_power_of ---- *)
  Lemma fold_max_le (M : Z) (ts : list (T * nat)) : forall a,
    (Z.of_nat a <= M)%Z -> (forall t, In t ts -> (Z.of_nat (snd t) <= M)%Z) ->
    (Z.of_nat (fold_left (fun m t => Nat.max m (snd t)) ts a) <= M)%Z.
  Proof.
    induction ts as [|t ts IH]; intros a Ha H; cbn [fold_left]; [exact Ha|].
    apply IH.
    - pose proof (H t (or_introl eq_refl)). lia.
    - intros t' Ht'. apply H. right; exact Ht'.
  Qed.

  Lemma fold_max_ge (ts : list (T * nat)) : forall a,
    (a <= fold_left (fun m t => Nat.max m (snd t)) ts a)%nat /\
    (forall t, In t ts -> (snd t <= fold_left (fun m t => Nat.max m (snd t)) ts a)%nat).
  Proof.
    induction ts as [|t ts IH]; intros a; cbn [fold_left].
    - split; [lia|intros t []].
    - destruct (IH (Nat.max a (snd t))) as [H1 H2]. split; [lia|].
      intros t' [<-|Ht']; [lia|exact (H2 t' Ht')].
  Qed.

  Lemma fold_max_attained (ts : list (T * nat)) : forall a,
    fold_left (fun m t => Nat.max m (snd t)) ts a = a \/
    exists t, In t ts /\ snd t = fold_left (fun m t => Nat.max m (snd t)) ts a.
  Proof.
    induction ts as [|t ts IH]; intros a; cbn [fold_left]; [left; reflexivity|].
    destruct (IH (Nat.max a (snd t))) as [E|(t' & Ht' & E)].
    - rewrite E. destruct (Nat.max_spec a (snd t)) as [[_ ->]|[_ ->]]; [right|left; reflexivity].
      exists t; split; [left; reflexivity|reflexivity].
    - right. exists t'; split; [right; exact Ht'|exact E].
  Qed.

  Lemma max_power_ge (ts : list (T * nat)) t : In t ts -> (snd t <= max_power_of ts)%nat.
  Proof. intros H. exact (proj2 (fold_max_ge ts O) t H). Qed.

  Lemma max_power_attained (ts : list (T * nat)) : ts <> [] -> exists t, In t ts /\ snd t = max_power_of ts.
  Proof.
    intros Hne. destruct (fold_max_attained ts O) as [E|H]; [|exact H].
    destruct ts as [|t ts]; [contradiction|]. exists t. split; [left; reflexivity|].
    pose proof (max_power_ge (t :: ts) t (or_introl eq_refl)) as H. unfold max_power_of in *. lia.
  Qed.

  Lemma dense_coeffs_checked_ok ts :
    (forall t, In t ts -> (Z.of_nat (snd t) <= MAX_POWER)%Z) ->
    dense_coeffs_checked ts = if sums_finite ts then Ok (dense_coeffs ts) else Err EInvalidCoefficient.
  Proof.
    intros H. unfold dense_coeffs_checked.
    assert (Hm : (Z.of_nat (max_power_of ts) <= MAX_POWER)%Z).
    { unfold max_power_of. apply fold_max_le; [unfold MAX_POWER; lia|exact H]. }
    cbv zeta. unfold MAX_POWER in Hm.
    change (2 ^ 64)%Z with 18446744073709551616%Z. change (2 ^ 63)%Z with 9223372036854775808%Z.
    destruct (Z.leb_spec 18446744073709551616 (Z.of_nat (max_power_of ts) + 1)) as [K|_]; [lia|].
    destruct (Z.ltb_spec (9223372036854775808 - 1) ((Z.of_nat (max_power_of ts) + 1) * 8)) as [K|_]; [lia|].
    reflexivity.
  Qed.

  (* ---- C16 (simple parser): never a panic, whatever the text ---- *)
  Theorem simple_total (U : UClass) (s : str) (w : why) : parse_simple U s <> Panic w.
  Proof.
    unfold parse_simple. cbv zeta.
    destruct (existsb bad_part _); [discriminate|].
    destruct (mapM _ _) as [terms|e|w'] eqn:E; [|discriminate|exfalso; revert E; apply mapM_no_panic; intros; apply simple_term_no_panic].
    rewrite dense_coeffs_checked_ok; [destruct (sums_finite terms); discriminate|].
    intros [c k] Hin. destruct (mapM_ok_in _ _ _ _ E Hin) as (p & _ & Hp).
    exact (simple_term_pow _ _ _ _ Hp).
  Qed.

  (* ---- spacing ---- *)
  Theorem simple_spacing (U : UClass) (s : str) : parse_simple U s = parse_simple U (strip_ws s).
  Proof. unfold parse_simple. rewrite strip_ws_idem. reflexivity. Qed.

  (* the empty text (after stripping) is accepted as the constant 0 *)
  Lemma simple_empty (U : UClass) (s : str) :
    strip_ws s = [] -> parse_simple U s = Ok {| s_coefs := [n0]; s_var := None |}.
  Proof. intros H. unfold parse_simple. rewrite H. reflexivity. Qed.

  (* ======================================================================== *)
  (** * Part B — the dense coefficient vector *)

  Lemma add_at_length cs p c : length (add_at cs p c) = length cs.
  Proof.
    revert p; induction cs as [|x cs IH]; intros p; [reflexivity|].
    destruct p; cbn [add_at length]; [reflexivity|rewrite IH; reflexivity].
  Qed.

  Lemma add_at_nth cs p c k d : (p < length cs)%nat ->
    nth k (add_at cs p c) d = if Nat.eqb p k then nadd (nth k cs d) c else nth k cs d.
  Proof.
    revert p k; induction cs as [|x cs IH]; intros p k Hp; cbn [length] in Hp; [lia|].
    destruct p as [|p], k as [|k]; cbn [add_at nth Nat.eqb]; try reflexivity.
    apply IH. lia.
  Qed.

  Lemma nth_repeat_same (a : T) n k : nth k (repeat a n) a = a.
  Proof. revert k; induction n as [|n IH]; intros [|k]; cbn [repeat nth]; auto. Qed.

  Definition pow_is (k : nat) (t : T * nat) : bool := Nat.eqb (snd t) k.

  Lemma fold_add_at ts : forall cs, (forall t, In t ts -> (snd t < length cs)%nat) ->
    length (fold_left (fun cs t => add_at cs (snd t) (fst t)) ts cs) = length cs /\
    forall k, nth k (fold_left (fun cs t => add_at cs (snd t) (fst t)) ts cs) n0
              = fold_left nadd (map fst (filter (pow_is k) ts)) (nth k cs n0).
  Proof.
    induction ts as [|t ts IH]; intros cs H; cbn [fold_left]; [split; reflexivity|].
    assert (Ht : (snd t < length cs)%nat) by (apply H; left; reflexivity).
    destruct (IH (add_at cs (snd t) (fst t))) as [L N].
    { intros t' Ht'. rewrite add_at_length. apply H. right; exact Ht'. }
    split; [rewrite L; apply add_at_length|].
    intros k. rewrite N, add_at_nth by exact Ht. cbn [filter]. unfold pow_is at 2.
    destruct (Nat.eqb (snd t) k); reflexivity.
  Qed.

  Lemma dense_length ts : length (dense_coeffs ts) = S (max_power_of ts).
  Proof.
    unfold dense_coeffs.
    destruct (fold_add_at ts (repeat n0 (S (max_power_of ts)))) as [L _].
    - intros t Ht. rewrite repeat_length. pose proof (max_power_ge ts t Ht). lia.
    - rewrite L. apply repeat_length.
  Qed.

  (* position k holds the sum, in source order, of the coefficients of the terms of
     power k — for EVERY k (beyond the maximal power both sides are n0) *)
  Lemma dense_nth ts k :
    nth k (dense_coeffs ts) n0 = fold_left nadd (map fst (filter (pow_is k) ts)) n0.
  Proof.
    unfold dense_coeffs.
    destruct (fold_add_at ts (repeat n0 (S (max_power_of ts)))) as [_ N].
    - intros t Ht. rewrite repeat_length. pose proof (max_power_ge ts t Ht). lia.
    - rewrite N, nth_repeat_same. reflexivity.
  Qed.
  Lemma dense_length_max (ts : list (T * nat)) :
    length (dense_coeffs ts) = S (max_power_of ts) /\
    (forall t, In t ts -> (snd t <= max_power_of ts)%nat) /\
    (ts <> [] -> exists t, In t ts /\ snd t = max_power_of ts).
  Proof.
    split; [apply dense_length|]. split; [intros t; apply max_power_ge|apply max_power_attained].
  Qed.
End Generic.

(* ========================================================================== *)
(** * Part C — every string of the documented language is accepted *)

(* what a variable letter must not be (follows from [USane] for alphabetic letters) *)
Definition okv (v : N) : Prop :=
  is_ascii_digit v = false /\ v <> c_dot /\ v <> c_caret /\ v <> c_plus /\ v <> c_minus.

Lemma usane_okv U v : USane U -> u_alphabetic U v = true -> okv v.
Proof.
  intros HU Hv. unfold okv. repeat split.
  - destruct (is_ascii_digit v) eqn:E; [|reflexivity]. rewrite (us_digit U HU v E) in Hv. discriminate.
  - intros ->. rewrite (us_dot U HU) in Hv. discriminate.
  - intros ->. rewrite (us_caret U HU) in Hv. discriminate.
  - intros ->. rewrite (us_plus U HU) in Hv. discriminate.
  - intros ->. rewrite (us_minus U HU) in Hv. discriminate.
Qed.

Lemma digit_not c : is_ascii_digit c = true -> c <> c_dot /\ c <> c_caret /\ c <> c_plus /\ c <> c_minus.
Proof.
  unfold is_ascii_digit, c_dot, c_caret, c_plus, c_minus. rewrite andb_true_iff, !N.leb_le. lia.
Qed.

(* the text of one signed term as the parser sees it after "-" -> "+-" and the split on '+' *)
Definition sign_str (neg : bool) : str := if neg then [c_minus] else [].
Definition part (v : N) (nt : bool * uterm) : str :=
  sign_str (fst nt) ++ render_term v (snd nt).

(* "-" -> "+-" *)
Lemma m2pm_app a b : minus_to_plusminus (a ++ b) = minus_to_plusminus a ++ minus_to_plusminus b.
Proof. unfold minus_to_plusminus. apply flat_map_app. Qed.

Lemma m2pm_cons_minus s : minus_to_plusminus (c_minus :: s) = c_plus :: c_minus :: minus_to_plusminus s.
Proof. reflexivity. Qed.

Lemma m2pm_cons_other c s : c <> c_minus -> minus_to_plusminus (c :: s) = c :: minus_to_plusminus s.
Proof.
  intros H. unfold minus_to_plusminus. cbn [flat_map].
  destruct (N.eqb_spec c c_minus) as [E|_]; [contradiction|reflexivity].
Qed.

Lemma m2pm_id s : ~ In c_minus s -> minus_to_plusminus s = s.
Proof.
  induction s as [|c s IH]; intros H; [reflexivity|].
  rewrite m2pm_cons_other by (intros ->; apply H; left; reflexivity).
  rewrite IH by (intros K; apply H; right; exact K). reflexivity.
Qed.

Lemma m2pm_head_not_minus s r : minus_to_plusminus s <> c_minus :: r.
Proof.
  destruct s as [|c s]; [discriminate|].
  destruct (N.eq_dec c c_minus) as [->|Hn].
  - rewrite m2pm_cons_minus. discriminate.
  - rewrite m2pm_cons_other by exact Hn. intros H; injection H as H _. contradiction.
Qed.

Lemma m2pm_inj a : forall b, minus_to_plusminus a = minus_to_plusminus b -> a = b.
Proof.
  induction a as [|x a IH]; intros [|y b] H.
  - reflexivity.
  - exfalso. destruct (N.eq_dec y c_minus) as [->|Hn];
      [rewrite m2pm_cons_minus in H|rewrite m2pm_cons_other in H by exact Hn]; discriminate.
  - exfalso. destruct (N.eq_dec x c_minus) as [->|Hn];
      [rewrite m2pm_cons_minus in H|rewrite m2pm_cons_other in H by exact Hn]; discriminate.
  - destruct (N.eq_dec x c_minus) as [->|Hx], (N.eq_dec y c_minus) as [->|Hy].
    + rewrite !m2pm_cons_minus in H. injection H as H. rewrite (IH b H). reflexivity.
    + rewrite m2pm_cons_minus, m2pm_cons_other in H by exact Hy. injection H as _ H.
      exfalso. exact (m2pm_head_not_minus b _ (eq_sym H)).
    + rewrite m2pm_cons_minus, m2pm_cons_other in H by exact Hx. injection H as _ H.
      exfalso. exact (m2pm_head_not_minus a _ H).
    + rewrite !m2pm_cons_other in H by assumption. injection H as -> H. rewrite (IH b H). reflexivity.
Qed.

(* ---- characters of renderings ---- *)
Lemma render_dec_chars d c : wf_dec d = true -> In c (render_dec d) -> is_ascii_digit c = true \/ c = c_dot.
Proof.
  destruct d as [ip [f|]]; unfold wf_dec, render_dec; cbn [d_int d_frac]; intros H Hin;
    apply andb_true_iff in H; destruct H as [Hi H]; apply in_app_iff in Hin.
  - apply andb_true_iff in H. destruct H as [Hf _].
    destruct Hin as [K|[K|K]]; [left; exact (all_digits_in _ _ Hi K)|right; symmetry; exact K|left; exact (all_digits_in _ _ Hf K)].
  - destruct Hin as [K|[]]. left; exact (all_digits_in _ _ Hi K).
Qed.

Lemma render_dec_nonempty d : wf_dec d = true -> render_dec d <> [].
Proof.
  destruct d as [ip [f|]]; unfold wf_dec, render_dec; cbn [d_int d_frac]; intros H.
  - destruct ip; discriminate.
  - destruct ip; [|discriminate]. cbn in H. discriminate.
Qed.

Lemma render_term_chars v t c : wf_term t = true -> In c (render_term v t) ->
  is_ascii_digit c = true \/ c = c_dot \/ c = c_caret \/ (c = v /\ is_var t = true).
Proof.
  destruct t as [d|co e]; cbn [wf_term render_term is_var]; intros H Hin.
  - destruct (render_dec_chars d c H Hin) as [K|K]; auto.
  - apply andb_true_iff in H. destruct H as [Hc He].
    apply in_app_iff in Hin. destruct Hin as [K|K].
    + destruct co as [d|]; [|destruct K]. destruct (render_dec_chars d c Hc K); auto.
    + cbn [app] in K. destruct K as [K|K]; [right; right; right; auto|].
      destruct e as [ds|]; [|destruct K]. destruct K as [K|K]; [right; right; left; auto|].
      unfold wf_exp in He. apply andb_true_iff in He. destruct He as [He _].
      apply andb_true_iff in He. destruct He as [_ He]. left. exact (all_digits_in _ _ He K).
Qed.

Lemma render_term_nonempty v t : wf_term t = true -> render_term v t <> [].
Proof.
  destruct t as [d|co e]; cbn [wf_term render_term]; intros H; [exact (render_dec_nonempty d H)|].
  intros K. apply app_eq_nil in K. destruct K as [_ K]. discriminate.
Qed.

Lemma render_term_no_sign v t c : wf_term t = true -> (is_var t = true -> okv v) ->
  c = c_plus \/ c = c_minus -> ~ In c (render_term v t).
Proof.
  intros Hw Hv Hc Hin.
  assert (Hd : is_ascii_digit c = false) by (destruct Hc as [->| ->]; reflexivity).
  destruct (render_term_chars v t c Hw Hin) as [K|[K|[K|[K Kv]]]].
  - rewrite K in Hd; discriminate.
  - destruct Hc as [->| ->]; discriminate.
  - destruct Hc as [->| ->]; discriminate.
  - subst c. destruct (Hv Kv) as (_ & _ & _ & Hp & Hm). destruct Hc; contradiction.
Qed.

Lemma part_no_plus v nt : wf_term (snd nt) = true -> (is_var (snd nt) = true -> okv v) -> ~ In c_plus (part v nt).
Proof.
  intros Hw Hv Hin. unfold part in Hin. apply in_app_iff in Hin. destruct Hin as [K|K].
  - destruct (fst nt); [|destruct K]. destruct K as [K|[]]. discriminate K.
  - exact (render_term_no_sign v _ c_plus Hw Hv (or_introl eq_refl) K).
Qed.

Lemma bad_part_part v nt : wf_term (snd nt) = true -> (is_var (snd nt) = true -> okv v) -> bad_part (part v nt) = false.
Proof.
  intros Hw Hv. unfold part, sign_str.
  pose proof (render_term_nonempty v _ Hw) as Hne.
  pose proof (render_term_no_sign v _ c_minus Hw Hv (or_intror eq_refl)) as Hm.
  destruct (render_term v (snd nt)) as [|c [|c2 r]]; [contradiction| |]; destruct (fst nt); cbn [app bad_part]; try reflexivity.
  apply N.eqb_neq. intros ->. apply Hm. left; reflexivity.
Qed.

(* ---- normal form of a rendering after "-" -> "+-" ---- *)
Lemma m2pm_rest v rest :
  (forall nt, In nt rest -> ~ In c_minus (render_term v (snd nt))) ->
  minus_to_plusminus (flat_map (fun nt => sign_char (fst nt) :: render_term v (snd nt)) rest)
  = flat_map (fun q => c_plus :: q) (map (part v) rest).
Proof.
  induction rest as [|[neg t] rest IH]; intros H; [reflexivity|].
  cbn [flat_map map]. rewrite m2pm_app, IH by (intros nt K; apply H; right; exact K).
  f_equal. unfold part. cbn [fst snd].
  pose proof (H (neg, t) (or_introl eq_refl)) as Hm. cbn [snd] in Hm.
  destruct neg; cbn [sign_char sign_str app].
  - rewrite m2pm_cons_minus, (m2pm_id _ Hm). reflexivity.
  - rewrite m2pm_cons_other by discriminate. rewrite (m2pm_id _ Hm). reflexivity.
Qed.

Lemma render_norm lead v neg t rest :
  (forall nt, In nt ((neg, t) :: rest) -> ~ In c_minus (render_term v (snd nt))) ->
  minus_to_plusminus (render lead v ((neg, t) :: rest))
  = (if neg || lead then [c_plus] else []) ++ join c_plus (map (part v) ((neg, t) :: rest)).
Proof.
  intros H. cbn [render map join].
  rewrite !m2pm_app, m2pm_rest by (intros nt K; apply H; right; exact K).
  pose proof (H (neg, t) (or_introl eq_refl)) as Hm. cbn [snd] in Hm. rewrite (m2pm_id _ Hm).
  unfold part at 1. cbn [fst snd].
  destruct neg; [|destruct lead]; cbn [orb app]; reflexivity.
Qed.

Section Accept.
  Context {T : Type} {NT : Num T}.

  Lemma no_minus_src v (src : usrc) :
    wf_src src = true -> (uses_var src = true -> okv v) ->
    forall nt, In nt src -> wf_term (snd nt) = true /\ (is_var (snd nt) = true -> okv v).
  Proof.
    intros Hw Hv nt Hin. split.
    - unfold wf_src in Hw. rewrite forallb_forall in Hw. exact (Hw nt Hin).
    - intros K. apply Hv. unfold uses_var. apply existsb_exists. exists nt; auto.
  Qed.

  (* the parts the parser works on are exactly the signed terms of the source *)
  Lemma parts_render lead v (src : usrc) :
    wf_src src = true -> (uses_var src = true -> okv v) ->
    drop_leading_empty (split_on c_plus (minus_to_plusminus (render lead v src))) = map (part v) src.
  Proof.
    intros Hw Hv. pose proof (no_minus_src v src Hw Hv) as Hall.
    destruct src as [|[neg t] rest]; [reflexivity|].
    rewrite render_norm.
    2:{ intros nt K. destruct (Hall nt K) as [H1 H2]. exact (render_term_no_sign v _ c_minus H1 H2 (or_intror eq_refl)). }
    assert (Hsp : split_on c_plus (join c_plus (map (part v) ((neg, t) :: rest))) = map (part v) ((neg, t) :: rest)).
    { apply split_join; [discriminate|]. apply Forall_forall. intros p Hp.
      apply in_map_iff in Hp. destruct Hp as (nt & <- & K). destruct (Hall nt K) as [H1 H2].
      exact (part_no_plus v nt H1 H2). }
    destruct (neg || lead) eqn:E.
    - change ([c_plus] ++ ?x) with ([] ++ c_plus :: x).
      rewrite split_on_app by (intros []). rewrite Hsp. reflexivity.
    - cbn [app]. rewrite Hsp. apply orb_false_iff in E. destruct E as [-> _].
      cbn [map]. change (part v (false, t)) with (render_term v t).
      destruct (Hall (false, t) (or_introl eq_refl)) as [H1 _]. cbn [snd] in H1.
      pose proof (render_term_nonempty v t H1) as Hne.
      destruct (render_term v t); [contradiction|reflexivity].
  Qed.

  (* the variable the parser finds *)
  Lemma find_pred_part U v nt : USane U -> wf_term (snd nt) = true ->
    (is_var (snd nt) = true -> u_alphabetic U v = true) ->
    find_pred (u_alphabetic U) (part v nt) = if is_var (snd nt) then Some v else None.
  Proof.
    intros HU Hw Hv. destruct nt as [neg t]. unfold part. cbn [fst snd] in *.
    assert (Hdec : forall d, wf_dec d = true -> find_pred (u_alphabetic U) (render_dec d) = None).
    { intros d Hd. apply find_pred_none. intros x Hx.
      destruct (render_dec_chars d x Hd Hx) as [K| ->]; [exact (us_digit U HU x K)|exact (us_dot U HU)]. }
    assert (Hrt : find_pred (u_alphabetic U) (render_term v t) = if is_var t then Some v else None).
    { destruct t as [d|co e]; cbn [render_term is_var wf_term] in *.
      - exact (Hdec d Hw).
      - apply andb_true_iff in Hw. destruct Hw as [Hc _].
        rewrite find_pred_app.
        destruct co as [d|]; [rewrite (Hdec d Hc)|]; cbn [app find_pred]; rewrite (Hv eq_refl); reflexivity. }
    destruct neg; cbn [sign_str app find_pred]; [rewrite (us_minus U HU)|]; exact Hrt.
  Qed.

  Lemma find_pred_parts U v (src : usrc) : USane U -> wf_src src = true ->
    (uses_var src = true -> u_alphabetic U v = true) ->
    find_pred (u_alphabetic U) (flat_map (fun q => c_plus :: q) (map (part v) src))
    = if uses_var src then Some v else None.
  Proof.
    intros HU. induction src as [|nt src IH]; intros Hw Hv; [reflexivity|].
    cbn [wf_src forallb] in Hw. apply andb_true_iff in Hw. destruct Hw as [Hw1 Hw2].
    cbn [map flat_map app find_pred]. rewrite (us_plus U HU).
    cbn [uses_var existsb] in *. rewrite find_pred_app, find_pred_part; [|exact HU|exact Hw1|].
    - destruct (is_var (snd nt)); [reflexivity|]. cbn [orb] in *. apply IH; assumption.
    - intros K. apply Hv. rewrite K. reflexivity.
  Qed.

  Lemma find_var U lead v (src : usrc) : USane U -> wf_src src = true ->
    (uses_var src = true -> u_alphabetic U v = true) ->
    find_pred (u_alphabetic U) (minus_to_plusminus (render lead v src)) = if uses_var src then Some v else None.
  Proof.
    intros HU Hw Hv.
    assert (Hok : uses_var src = true -> okv v) by (intros K; exact (usane_okv U v HU (Hv K))).
    pose proof (no_minus_src v src Hw Hok) as Hall.
    pose proof (find_pred_parts U v src HU Hw Hv) as HP.
    destruct src as [|[neg t] rest]; [reflexivity|].
    rewrite render_norm.
    2:{ intros nt K. destruct (Hall nt K) as [H1 H2]. exact (render_term_no_sign v _ c_minus H1 H2 (or_intror eq_refl)). }
    cbn [map flat_map app find_pred] in HP. rewrite (us_plus U HU) in HP.
    cbn [map join]. destruct (neg || lead); cbn [app find_pred]; [rewrite (us_plus U HU)|]; exact HP.
  Qed.

  (* ---- decimals ---- *)
  Lemma parse_unsigned_render d : wf_dec d = true -> parse_unsigned_dec (render_dec d) = Some (@dec_val T NT d).
  Proof.
    destruct d as [ip [f|]]; unfold wf_dec, render_dec, dec_val, parse_unsigned_dec; cbn [d_int d_frac]; intros H;
      apply andb_true_iff in H; destruct H as [Hi H].
    - apply andb_true_iff in H. destruct H as [Hf Hl].
      rewrite split_on_app by (exact (all_digits_notin ip c_dot Hi eq_refl)).
      rewrite split_on_notin by (exact (all_digits_notin f c_dot Hf eq_refl)).
      rewrite Hi, Hf, Hl. reflexivity.
    - rewrite app_nil_r. rewrite split_on_notin by (exact (all_digits_notin ip c_dot Hi eq_refl)).
      rewrite Hi, H. reflexivity.
  Qed.

  Lemma parse_dec_signed neg d : wf_dec d = true ->
    parse_dec (sign_str neg ++ render_dec d) = Some (sgn neg (@dec_val T NT d)).
  Proof.
    intros Hw. destruct neg; cbn [sign_str app sgn].
    - replace (parse_dec (c_minus :: render_dec d)) with (option_map nneg (@parse_unsigned_dec T NT (render_dec d))) by reflexivity.
      rewrite parse_unsigned_render by exact Hw. reflexivity.
    - destruct (render_dec d) as [|c s'] eqn:E; [exfalso; exact (render_dec_nonempty d Hw E)|].
      assert (Hc : N.eqb c c_minus = false).
      { apply N.eqb_neq. intros ->.
        destruct (render_dec_chars d c_minus Hw) as [K|K]; [rewrite E; left; reflexivity|discriminate|discriminate]. }
      unfold parse_dec. rewrite Hc, <- E. apply parse_unsigned_render. exact Hw.
  Qed.

  Lemma parse_dec_finite_signed neg d : wf_dec d = true -> is_finite (sgn neg (@dec_val T NT d)) = true ->
    parse_dec_finite (sign_str neg ++ render_dec d) = Some (sgn neg (@dec_val T NT d)).
  Proof. intros Hw Hf. unfold parse_dec_finite. rewrite parse_dec_signed by exact Hw. rewrite Hf. reflexivity. Qed.

  Lemma parse_dec_plus : @parse_dec_finite T NT [c_plus] = None.
  Proof. reflexivity. Qed.
  Lemma parse_dec_minus : @parse_dec_finite T NT [c_minus] = None.
  Proof. reflexivity. Qed.

  Definition opt_dec_wf (co : option dec) : bool := match co with None => true | Some d => wf_dec d end.
  Definition opt_dec_str (co : option dec) : str := match co with None => [] | Some d => render_dec d end.
  Definition opt_dec_val (co : option dec) : T := match co with None => n1 | Some d => dec_val d end.

  Definition opt_dec_fin (neg : bool) (co : option dec) : bool :=
    match co with None => true | Some d => is_finite (sgn neg (@dec_val T NT d)) end.

  Lemma coeff_of_render neg co : opt_dec_wf co = true -> opt_dec_fin neg co = true ->
    coeff_of (sign_str neg ++ opt_dec_str co) = Ok (sgn neg (opt_dec_val co)).
  Proof.
    destruct co as [d|]; cbn [opt_dec_wf opt_dec_str opt_dec_val opt_dec_fin]; intros Hw Hfin.
    - pose proof (parse_dec_finite_signed neg d Hw Hfin) as Hp.
      destruct (sign_str neg ++ render_dec d) as [|c1 [|c2 r]]; unfold coeff_of.
      + discriminate.
      + destruct (N.eqb_spec c1 c_plus) as [->|_]; [rewrite parse_dec_plus in Hp; discriminate|].
        destruct (N.eqb_spec c1 c_minus) as [->|_]; [rewrite parse_dec_minus in Hp; discriminate|].
        rewrite Hp. reflexivity.
      + rewrite Hp. reflexivity.
    - destruct neg; reflexivity.
  Qed.

  Lemma after_var_render (c : T) e : match e with None => true | Some ds => wf_exp ds end = true ->
    after_var c (match e with None => [] | Some ds => c_caret :: ds end) = Ok (c, @term_pow (UVar None e)).
  Proof.
    destruct e as [ds|]; intros Hw; [|reflexivity].
    unfold wf_exp in Hw. apply andb_true_iff in Hw. destruct Hw as [Hw Hle].
    apply andb_true_iff in Hw. destruct Hw as [Hne Had].
    unfold after_var. rewrite N.eqb_refl.
    rewrite parse_nat_text_digits; [|destruct ds; [discriminate|discriminate]|exact Had].
    rewrite Hle. reflexivity.
  Qed.

  (* one part is read as the value of its term *)
  Lemma simple_term_part var v nt : wf_term (snd nt) = true -> @term_finite T NT nt = true ->
    (var = Some v /\ okv v) \/ (var = None /\ is_var (snd nt) = false) ->
    simple_term var (part v nt) = Ok (@term_val T NT nt).
  Proof.
    intros Hw Hfin Hvar. destruct nt as [neg t]. unfold term_finite in Hfin. cbn [fst snd] in *. rewrite simple_term_eq.
    destruct t as [d|co e].
    - (* constant *)
      assert (Hc : const_of (part v (neg, UConst d)) = Ok (@term_val T NT (neg, UConst d))).
      { unfold const_of, part. cbn [fst snd render_term]. rewrite parse_dec_finite_signed by assumption. reflexivity. }
      destruct Hvar as [[-> Hok]|[-> _]]; [|exact Hc].
      rewrite find_char_none; [exact Hc|].
      intros Hin. unfold part in Hin. cbn [fst snd render_term] in Hin.
      destruct Hok as (Hd & Hdot & _ & _ & Hm).
      apply in_app_iff in Hin. destruct Hin as [K|K].
      + destruct neg; [|destruct K]. destruct K as [K|[]]. apply Hm. symmetry; exact K.
      + destruct (render_dec_chars d v Hw K) as [K'|K']; [rewrite K' in Hd; discriminate|contradiction].
    - (* coefficient? variable exponent? *)
      destruct Hvar as [[-> Hok]|[_ K]]; [|discriminate].
      cbn [wf_term] in Hw. apply andb_true_iff in Hw. destruct Hw as [Hc He].
      assert (Hp : part v (neg, UVar co e)
                   = (sign_str neg ++ opt_dec_str co)
                     ++ v :: match e with None => [] | Some ds => c_caret :: ds end).
      { unfold part, opt_dec_str. cbn [fst snd render_term]. rewrite <- !app_assoc. reflexivity. }
      rewrite Hp.
      assert (Hnotin : ~ In v (sign_str neg ++ opt_dec_str co)).
      { destruct Hok as (Hd & Hdot & _ & _ & Hm). intros Hin.
        apply in_app_iff in Hin. destruct Hin as [K|K].
        - destruct neg; [|destruct K]. destruct K as [K|[]]. apply Hm. symmetry; exact K.
        - destruct co as [d|]; [|destruct K]. cbn [opt_dec_str] in K.
          destruct (render_dec_chars d v Hc K) as [K'|K']; [rewrite K' in Hd; discriminate|contradiction]. }
      rewrite find_char_app by exact Hnotin.
      rewrite firstn_len_app, skipn_S_len_app.
      rewrite coeff_of_render by (try exact Hc; destruct co; exact Hfin).
      rewrite after_var_render by exact He.
      unfold term_val. cbn [fst snd term_coef term_pow]. destruct co; reflexivity.
  Qed.

  Lemma term_pow_bound (t : uterm) : wf_term t = true -> (Z.of_nat (term_pow t) <= MAX_POWER)%Z.
  Proof.
    destruct t as [d|co [ds|]]; cbn [wf_term term_pow]; intros H; try (unfold MAX_POWER; lia).
    apply andb_true_iff in H. destruct H as [_ H]. unfold wf_exp in H.
    apply andb_true_iff in H. destruct H as [_ H]. apply Z.leb_le in H. unfold MAX_POWER in *. lia.
  Qed.

  (* ---- C01: acceptance ---- *)
  Theorem simple_accept (U : UClass) : USane U ->
    forall (src : usrc) (v : N) (lead : bool) (s : str),
    wf_src src = true -> (uses_var src = true -> u_alphabetic U v = true) ->
    @src_finite T NT src = true -> sums_finite (@terms_of T NT src) = true ->
    strip_ws s = render lead v src ->
    parse_simple U s = Ok {| s_coefs := dense_coeffs (@terms_of T NT src);
                             s_var := if uses_var src then Some v else None |}.
  Proof.
    intros HU src v lead s Hw Hv Hfin Hsum Hs.
    assert (Hok : uses_var src = true -> okv v) by (intros K; exact (usane_okv U v HU (Hv K))).
    pose proof (no_minus_src v src Hw Hok) as Hall.
    unfold parse_simple. cbv zeta. rewrite Hs, parts_render, find_var by assumption.
    assert (Hbad : existsb bad_part (map (part v) src) = false).
    { destruct (existsb bad_part (map (part v) src)) eqn:E; [|reflexivity].
      apply existsb_exists in E. destruct E as (p & Hp & Hb). apply in_map_iff in Hp.
      destruct Hp as (nt & <- & K). destruct (Hall nt K) as [H1 H2].
      rewrite (bad_part_part v nt H1 H2) in Hb. discriminate. }
    rewrite Hbad.
    rewrite (mapM_map_ok _ (part v) (@term_val T NT) src).
    2:{ intros nt K. destruct (Hall nt K) as [H1 H2]. apply simple_term_part; [exact H1| |].
        { unfold src_finite in Hfin. rewrite forallb_forall in Hfin. exact (Hfin nt K). }
        destruct (uses_var src) eqn:E.
        - left; split; [reflexivity|exact (Hok eq_refl)].
        - right; split; [reflexivity|]. destruct (is_var (snd nt)) eqn:E2; [|reflexivity].
          assert (uses_var src = true) by (apply existsb_exists; exists nt; auto). congruence. }
    fold (@terms_of T NT src).
    rewrite dense_coeffs_checked_ok; [rewrite Hsum; reflexivity|].
    intros t Ht. unfold terms_of in Ht. apply in_map_iff in Ht. destruct Ht as (nt & <- & K).
    unfold term_val. cbn [snd]. apply term_pow_bound. exact (proj1 (Hall nt K)).
  Qed.
End Accept.

(* ========================================================================== *)
(** * Part D — everything the parser accepts is a string of the documented language *)
Section Converse.
  Context {T : Type} {NT : Num T}.

  Lemma parse_unsigned_inv s (c : T) : parse_unsigned_dec s = Some c ->
    exists d, wf_dec d = true /\ s = render_dec d /\ c = dec_val d.
  Proof.
    unfold parse_unsigned_dec. pose proof (join_split c_dot s) as J.
    destruct (split_on c_dot s) as [|ip [|fp [|? ?]]]; try discriminate.
    - cbn [join flat_map] in J. rewrite app_nil_r in J.
      destruct (all_digits ip && negb (Nat.eqb (length ip) 0)) eqn:E; [|discriminate].
      intros H; injection H as <-. exists {| d_int := ip; d_frac := None |}.
      unfold wf_dec, render_dec, dec_val; cbn [d_int d_frac]. rewrite app_nil_r. auto.
    - cbn [join flat_map] in J. rewrite app_nil_r in J.
      destruct (all_digits ip && all_digits fp && negb (Nat.eqb (length ip + length fp) 0)) eqn:E; [|discriminate].
      intros H; injection H as <-. exists {| d_int := ip; d_frac := Some fp |}.
      unfold wf_dec, render_dec, dec_val; cbn [d_int d_frac]. rewrite andb_assoc. auto.
  Qed.

  Lemma parse_dec_inv s (c : T) : parse_dec s = Some c ->
    exists neg d, wf_dec d = true /\ s = sign_str neg ++ render_dec d /\ c = sgn neg (dec_val d).
  Proof.
    destruct s as [|ch s']; [discriminate|]. unfold parse_dec.
    destruct (N.eqb_spec ch c_minus) as [->|Hn].
    - destruct (parse_unsigned_dec s') as [c'|] eqn:E; cbn [option_map]; [|discriminate].
      intros H; injection H as <-. destruct (parse_unsigned_inv _ _ E) as (d & Hw & -> & ->).
      exists true, d. auto.
    - intros H. destruct (parse_unsigned_inv _ _ H) as (d & Hw & Hs & ->).
      exists false, d. auto.
  Qed.

  Lemma parse_dec_finite_inv s (c : T) : parse_dec_finite s = Some c ->
    exists neg d, wf_dec d = true /\ s = sign_str neg ++ render_dec d /\ c = sgn neg (dec_val d) /\
                  is_finite (sgn neg (@dec_val T NT d)) = true.
  Proof.
    unfold parse_dec_finite. destruct (parse_dec s) as [c0|] eqn:E; [|discriminate].
    destruct (is_finite c0) eqn:F; [|discriminate]. intros H; injection H as <-.
    destruct (parse_dec_inv _ _ E) as (neg & d & Hw & Hs & Hc). exists neg, d. subst c0. auto.
  Qed.

  Lemma coeff_of_inv cs (c : T) : ~ In c_plus cs -> coeff_of cs = Ok c ->
    exists neg co, opt_dec_wf co = true /\ cs = sign_str neg ++ opt_dec_str co /\ c = sgn neg (opt_dec_val co) /\
                   opt_dec_fin neg co = true.
  Proof.
    assert (Hpd : forall s, match parse_dec_finite s with Some c0 => Ok c0 | None => Err EInvalidCoefficient end = Ok c ->
              exists neg co, opt_dec_wf co = true /\ s = sign_str neg ++ opt_dec_str co /\ c = sgn neg (opt_dec_val co) /\
                             opt_dec_fin neg co = true).
    { intros s H. destruct (parse_dec_finite s) as [c0|] eqn:E; [|discriminate]. injection H as ->.
      destruct (parse_dec_finite_inv _ _ E) as (neg & d & Hw & Hs & Hc & Hf). exists neg, (Some d). auto. }
    intros Hnp. destruct cs as [|c1 [|c2 r]]; unfold coeff_of.
    - intros H; injection H as <-. exists false, None. auto.
    - destruct (N.eqb_spec c1 c_plus) as [->|_]; [exfalso; apply Hnp; left; reflexivity|].
      destruct (N.eqb_spec c1 c_minus) as [->|_]; [|apply Hpd].
      intros H; injection H as <-. exists true, None. auto.
    - apply Hpd.
  Qed.

  (* one accepted part is the text of a well-formed signed term, read at its value *)
  Lemma simple_term_inv var v p ck : ~ In c_plus p -> var = Some v \/ var = None ->
    simple_term var p = Ok ck ->
    exists nt, wf_term (snd nt) = true /\ p = part v nt /\ ck = @term_val T NT nt /\
               (var = None -> is_var (snd nt) = false) /\ @term_finite T NT nt = true.
  Proof.
    intros Hnp Hvar. rewrite simple_term_eq.
    assert (Hc : const_of p = Ok ck ->
                 exists nt, wf_term (snd nt) = true /\ p = part v nt /\ ck = @term_val T NT nt /\
                            (var = None -> is_var (snd nt) = false) /\ @term_finite T NT nt = true).
    { intros H. apply const_of_inv in H. destruct H as (c & Hp & ->).
      destruct (parse_dec_finite_inv _ _ Hp) as (neg & d & Hw & -> & -> & Hf).
      exists (neg, UConst d). unfold term_finite. cbn [fst snd wf_term is_var]. auto. }
    destruct Hvar as [-> | ->]; [|exact Hc].
    destruct (find_char v p) as [x|] eqn:Ef; [|exact Hc].
    destruct (find_char_some _ _ _ Ef) as (a & b & -> & Ha & <-).
    rewrite firstn_len_app, skipn_S_len_app.
    destruct (coeff_of a) as [c|e|w] eqn:Ec; try discriminate.
    intros H. apply coeff_of_inv in Ec; [|intros K; apply Hnp; apply in_app_iff; left; exact K].
    destruct Ec as (neg & co & Hco & -> & -> & Hcf).
    apply after_var_inv in H.
    assert (He : exists e, match e with None => true | Some ds => wf_exp ds end = true /\
                           b = match e with None => [] | Some ds => c_caret :: ds end /\
                           ck = (sgn neg (opt_dec_val co), @term_pow (UVar None e))).
    { destruct H as [[-> ->]|(ds & -> & Hw & ->)]; [exists None|exists (Some ds)]; auto. }
    destruct He as (e & Hwe & -> & ->).
    exists (neg, UVar co e). cbn [snd wf_term is_var]. split; [|split; [|split; [|split]]].
    - unfold opt_dec_wf in Hco. rewrite Hco, Hwe. reflexivity.
    - unfold part, opt_dec_str. cbn [fst snd render_term]. rewrite <- !app_assoc. reflexivity.
    - unfold term_val. cbn [fst snd term_coef term_pow]. destruct co; reflexivity.
    - congruence.
    - unfold term_finite. cbn [fst snd]. destruct co; exact Hcf.
  Qed.

  Lemma terms_inv var v parts terms :
    Forall (fun p => ~ In c_plus p) parts -> var = Some v \/ var = None ->
    mapM (simple_term var) parts = Ok terms ->
    exists src : usrc, wf_src src = true /\ map (part v) src = parts /\ terms = @terms_of T NT src /\
                       (var = None -> uses_var src = false) /\ @src_finite T NT src = true.
  Proof.
    intros Hall Hvar. revert terms. induction Hall as [|p parts Hp Hall IH]; intros terms H; cbn [mapM] in H.
    - injection H as <-. exists []. repeat split; auto.
    - destruct (simple_term var p) as [ck|e|w] eqn:E1; cbn [bind] in H; try discriminate.
      destruct (mapM (simple_term var) parts) as [cks|e|w] eqn:E2; cbn [bind] in H; try discriminate.
      injection H as <-.
      destruct (simple_term_inv var v p ck Hp Hvar E1) as (nt & Hw & -> & -> & Hn & Hf).
      destruct (IH cks eq_refl) as (src & Hws & <- & -> & Hns & Hfs).
      exists (nt :: src). cbn [wf_src src_finite forallb map uses_var existsb terms_of].
      split; [rewrite Hw; exact Hws|]. split; [reflexivity|]. split; [reflexivity|].
      split; [intros K; rewrite (Hn K); exact (Hns K)|]. rewrite Hf. exact Hfs.
  Qed.

  (* ---- C16 (simple parser): acceptance is contained in the documented language.
     The only accepted text that is not a non-empty rendering is the EMPTY text
     (after stripping), which is read as the constant 0 (lemma simple_empty). ---- *)
  Theorem simple_accepts_only_grammar (U : UClass) : USane U ->
    forall (s : str) (p : spoly T), parse_simple U s = Ok p ->
    strip_ws s = [] \/
    exists (lead : bool) (v : N) (src : usrc),
      src <> [] /\ wf_src src = true /\ (uses_var src = true -> u_alphabetic U v = true) /\
      @src_finite T NT src = true /\ sums_finite (@terms_of T NT src) = true /\
      strip_ws s = render lead v src.
  Proof.
    intros HU s p. unfold parse_simple. cbv zeta.
    set (t := strip_ws s). set (nz := minus_to_plusminus t).
    destruct (existsb bad_part _) eqn:Eb; [discriminate|].
    destruct (mapM _ _) as [terms|e|w] eqn:Em; try discriminate.
    destruct (dense_coeffs_checked terms) as [cs|e|w] eqn:Ed; try discriminate. intros _.
    assert (Hsum : sums_finite terms = true).
    { unfold dense_coeffs_checked in Ed. cbv zeta in Ed.
      destruct (_ <=? _)%Z; [discriminate|]. destruct (_ <? _)%Z; [discriminate|].
      destruct (sums_finite terms); [reflexivity|discriminate]. }
    (* the variable, or a dummy *)
    set (var := find_pred (u_alphabetic U) nz) in *.
    assert (Hv : exists v, (var = Some v \/ var = None) /\ (var <> None -> u_alphabetic U v = true)).
    { destruct var as [v0|] eqn:Ev.
      - exists v0. split; [left; reflexivity|]. intros _. exact (proj2 (find_pred_some _ _ _ Ev)).
      - exists 0%N. split; [right; reflexivity|]. intros K; contradiction. }
    destruct Hv as (v & Hvar & Halpha).
    pose proof (split_on_pieces c_plus nz) as Hpieces.
    pose proof (join_split c_plus nz) as J.
    pose proof (split_on_nonempty c_plus nz) as Hne.
    assert (Hdrop : Forall (fun p => ~ In c_plus p) (drop_leading_empty (split_on c_plus nz))).
    { destruct (split_on c_plus nz) as [|[|? ?] ?]; cbn [drop_leading_empty]; try exact Hpieces.
      inversion Hpieces; assumption. }
    destruct (terms_inv var v _ terms Hdrop Hvar Em) as (src & Hw & Hparts & Hterms & Hnone & Hfin).
    rewrite Hterms in Hsum.
    assert (Hcond : uses_var src = true -> u_alphabetic U v = true).
    { intros K. apply Halpha. intros K2. rewrite (Hnone K2) in K. discriminate. }
    assert (Hok : uses_var src = true -> okv v) by (intros K; exact (usane_okv U v HU (Hcond K))).
    pose proof (no_minus_src v src Hw Hok) as Hall.
    assert (Hnm : forall nt, In nt src -> ~ In c_minus (render_term v (snd nt))).
    { intros nt K. destruct (Hall nt K) as [H1 H2]. exact (render_term_no_sign v _ c_minus H1 H2 (or_intror eq_refl)). }
    destruct (split_on c_plus nz) as [|p0 P'] eqn:EP; [contradiction|].
    destruct p0 as [|ch p0'].
    - (* the text starts with '+' or '-' (or is empty) *)
      cbn [drop_leading_empty] in Hparts. cbn [join app] in J.
      destruct src as [|[neg t0] rest].
      + left. cbn [map] in Hparts. subst P'. cbn [flat_map] in J.
        apply (m2pm_inj t []). symmetry. exact J.
      + right. exists true, v, ((neg, t0) :: rest). split; [discriminate|]. repeat (split; [assumption|]).
        apply m2pm_inj. rewrite render_norm by exact Hnm. rewrite orb_true_r.
        fold nz. rewrite <- J, <- Hparts. reflexivity.
    - cbn [drop_leading_empty] in Hparts.
      destruct src as [|[neg t0] rest]; [discriminate|].
      right. exists false, v, ((neg, t0) :: rest). split; [discriminate|]. repeat (split; [assumption|]).
      apply m2pm_inj. rewrite render_norm by exact Hnm. rewrite orb_false_r.
      fold nz. rewrite <- J, <- Hparts.
      destruct neg; [|reflexivity].
      exfalso. assert (Hch : ch = c_minus).
      { cbn [map] in Hparts. unfold part in Hparts. cbn [fst snd sign_str app] in Hparts. congruence. }
      subst ch.
      cbn [join app] in J. exact (m2pm_head_not_minus t _ (eq_sym J)).
  Qed.
End Converse.

(* ========================================================================== *)
(** * Part E — R instance: evaluation is the sum of c_k x^k, and equals the value of the text *)
Section Reals.
  Local Open Scope R_scope.

  (* sum_k c_k x^(i+k), structurally *)
  Fixpoint psum (x : R) (i : nat) (cs : list R) : R :=
    match cs with
    | [] => 0
    | c :: cs' => c * x ^ i + psum x (S i) cs'
    end.

  Lemma fold_left_Rplus_acc (l : list R) : forall a, fold_left Rplus l a = a + fold_right Rplus 0 l.
  Proof. induction l as [|y l IH]; intro a; cbn [fold_left fold_right]; [ring|rewrite IH; ring]. Qed.

  Lemma eval_terms_psum x cs : forall i, fold_right Rplus 0 (eval_terms_from x i cs) = psum x i cs.
  Proof.
    induction cs as [|c cs IH]; intros i; cbn [eval_terms_from fold_right psum]; [reflexivity|].
    rewrite IH, npowi_R_nat. reflexivity.
  Qed.

  Lemma eval_simple_psum (p : spoly R) x : eval_simple p x = psum x 0 (s_coefs p).
  Proof.
    unfold eval_simple. change (@nadd R RNum) with Rplus. rewrite fold_left_Rplus_acc, eval_terms_psum.
    cbn [nsum0 RNum]. ring.
  Qed.

  Lemma fold_right_ext {A} (f g : A -> R -> R) a l :
    (forall k acc, f k acc = g k acc) -> fold_right f a l = fold_right g a l.
  Proof. intros H. induction l as [|y l IH]; cbn [fold_right]; [reflexivity|rewrite IH; apply H]. Qed.

  Lemma sum_seq_shift (f : nat -> R) n : forall s,
    fold_right (fun k acc => f k + acc) 0 (seq (S s) n) = fold_right (fun k acc => f (S k) + acc) 0 (seq s n).
  Proof. induction n as [|n IH]; intros s; cbn [seq fold_right]; [reflexivity|rewrite IH; reflexivity]. Qed.

  Lemma psum_seq x cs : forall i,
    psum x i cs = fold_right (fun k acc => nth k cs 0 * x ^ (i + k) + acc) 0 (seq 0 (length cs)).
  Proof.
    induction cs as [|c cs IH]; intros i; cbn [psum length seq fold_right]; [reflexivity|].
    rewrite (sum_seq_shift (fun k => nth k (c :: cs) 0 * x ^ (i + k)) (length cs) 0).
    cbn [nth]. rewrite Nat.add_0_r, IH. f_equal.
    apply fold_right_ext. intros k acc. replace (i + S k)%nat with (S i + k)%nat by lia. reflexivity.
  Qed.

  (* C01: the evaluator computes  sum_{k < n} c_k x^k  *)
  Theorem eval_simple_sum (p : spoly R) (x : R) :
    eval_simple p x = fold_right (fun k acc => nth k (s_coefs p) 0 * x ^ k + acc) 0 (seq 0 (length (s_coefs p))).
  Proof. rewrite eval_simple_psum, psum_seq. apply fold_right_ext. intros; reflexivity. Qed.

  Lemma psum_add_at x cs : forall p i c, (p < length cs)%nat ->
    psum x i (add_at cs p c) = psum x i cs + c * x ^ (i + p).
  Proof.
    induction cs as [|y cs IH]; intros p i c Hp; cbn [length] in Hp; [lia|].
    destruct p as [|p]; cbn [add_at psum].
    - rewrite Nat.add_0_r. cbn [nadd RNum]. ring.
    - rewrite IH by lia. replace (i + S p)%nat with (S i + p)%nat by lia. ring.
  Qed.

  Lemma psum_repeat0 x n : forall i, psum x i (repeat 0 n) = 0.
  Proof. induction n as [|n IH]; intros i; cbn [repeat psum]; [reflexivity|rewrite IH; ring]. Qed.

  Lemma psum_fold x (ts : list (R * nat)) : forall cs, (forall t, In t ts -> (snd t < length cs)%nat) ->
    psum x 0 (fold_left (fun cs t => add_at cs (snd t) (fst t)) ts cs)
    = psum x 0 cs + fold_right (fun t acc => fst t * x ^ snd t + acc) 0 ts.
  Proof.
    induction ts as [|t ts IH]; intros cs H; cbn [fold_left fold_right]; [ring|].
    rewrite IH by (intros t' Ht'; rewrite add_at_length; apply H; right; exact Ht').
    rewrite psum_add_at by (apply H; left; reflexivity). cbn [Nat.add]. ring.
  Qed.

  (* the dense vector built from a term list evaluates to the sum of the terms *)
  Lemma eval_dense x (ts : list (R * nat)) v :
    eval_simple {| s_coefs := dense_coeffs ts; s_var := v |} x
    = fold_right (fun t acc => fst t * x ^ snd t + acc) 0 ts.
  Proof.
    rewrite eval_simple_psum. cbn [s_coefs]. unfold dense_coeffs.
    rewrite psum_fold.
    - change (@n0 R RNum) with 0. rewrite psum_repeat0. ring.
    - intros t Ht. rewrite repeat_length. pose proof (max_power_ge ts t Ht). lia.
  Qed.

  (* the mathematical value of a source text at x:  sum of  sign * coefficient * x^power *)
  Definition src_value (src : usrc) (x : R) : R :=
    fold_right (fun (nt : bool * uterm) acc => (if fst nt then -1 else 1) * @term_coef R RNum (snd nt) * x ^ term_pow (snd nt) + acc) 0 src.

  Lemma terms_value (src : usrc) x :
    fold_right (fun t acc => fst t * x ^ snd t + acc) 0 (@terms_of R RNum src) = src_value src x.
  Proof.
    unfold src_value. induction src as [|[neg t] src IH]; cbn [terms_of map fold_right]; [reflexivity|].
    fold (@terms_of R RNum src). rewrite IH. unfold term_val. cbn [fst snd sgn].
    destruct neg; cbn [sgn nneg RNum]; ring.
  Qed.

  (* in exact arithmetic every number is finite: the side conditions of 59b028d are vacuous *)
  Lemma is_finite_R (x : R) : @is_finite R RNum x = true.
  Proof. unfold is_finite. cbn [neqb nsub n0 RNum]. apply Reqb_true. ring. Qed.
  Lemma is_finite_Z (x : Z) : @is_finite Z ZNum x = true.
  Proof. unfold is_finite. cbn [neqb nsub n0 ZNum]. rewrite Z.sub_diag. reflexivity. Qed.

  Lemma parse_dec_finite_total {T} {NT : Num T} : (forall x : T, is_finite x = true) ->
    forall s, @parse_dec_finite T NT s = parse_dec s.
  Proof. intros H s. unfold parse_dec_finite. destruct (parse_dec s) as [v|]; [rewrite H|]; reflexivity. Qed.

  Lemma sums_finite_total {T} {NT : Num T} : (forall x : T, is_finite x = true) ->
    forall ts : list (T * nat), sums_finite ts = true.
  Proof.
    intros H ts. unfold sums_finite. generalize (repeat (@n0 T NT) (S (max_power_of ts))).
    assert (G : forall (l : list (T * nat)) (st : list T * bool), snd st = true ->
      snd (fold_left (fun (st : list T * bool) t =>
             let cs' := add_at (fst st) (snd t) (fst t) in
             (cs', snd st && is_finite (nth (snd t) cs' n0))) l st) = true).
    { induction l as [|t l IH]; intros st Hst; cbn [fold_left]; [exact Hst|].
      apply IH. cbn [snd]. rewrite Hst, H. reflexivity. }
    intros cs. apply G. reflexivity.
  Qed.

  Lemma src_finite_total {T} {NT : Num T} : (forall x : T, is_finite x = true) ->
    forall src : usrc, @src_finite T NT src = true.
  Proof.
    intros H src. unfold src_finite. apply forallb_forall. intros [neg t] _. unfold term_finite. cbn [fst snd].
    destruct t as [d|[d|] e]; auto.
  Qed.

  Lemma parse_dec_finite_R s : @parse_dec_finite R RNum s = parse_dec s.
  Proof. exact (parse_dec_finite_total is_finite_R s). Qed.
  Lemma parse_dec_finite_Z s : @parse_dec_finite Z ZNum s = parse_dec s.
  Proof. exact (parse_dec_finite_total is_finite_Z s). Qed.
  Lemma sums_finite_R (ts : list (R * nat)) : sums_finite ts = true.
  Proof. exact (sums_finite_total is_finite_R ts). Qed.
  Lemma sums_finite_Z (ts : list (Z * nat)) : sums_finite ts = true.
  Proof. exact (sums_finite_total is_finite_Z ts). Qed.

  Lemma finite_exact :
    (forall src : usrc, @src_finite R RNum src = true) /\ (forall ts : list (R * nat), sums_finite ts = true) /\
    (forall src : usrc, @src_finite Z ZNum src = true) /\ (forall ts : list (Z * nat), sums_finite ts = true) /\
    (forall s, @parse_dec_finite R RNum s = parse_dec s) /\ (forall s, @parse_dec_finite Z ZNum s = parse_dec s).
  Proof.
    split; [exact (src_finite_total is_finite_R)|]. split; [exact sums_finite_R|].
    split; [exact (src_finite_total is_finite_Z)|]. split; [exact sums_finite_Z|].
    split; [exact parse_dec_finite_R|exact parse_dec_finite_Z].
  Qed.

  (* C01: a string of the documented language means what it says *)
  Theorem simple_meaning (U : UClass) : USane U ->
    forall (src : usrc) (v : N) (lead : bool) (s : str),
    wf_src src = true -> (uses_var src = true -> u_alphabetic U v = true) ->
    strip_ws s = render lead v src ->
    exists p : spoly R, parse_simple U s = Ok p /\ forall x : R, eval_simple p x = src_value src x.
  Proof.
    intros HU src v lead s Hw Hv Hs. eexists. split.
    - exact (simple_accept U HU src v lead s Hw Hv (src_finite_total is_finite_R src) (sums_finite_R _) Hs).
    - intros x. rewrite eval_dense. apply terms_value.
  Qed.
End Reals.

(* ========================================================================== *)
(** * Part F — the executable Unicode table is sane; examples *)

Lemma uclass_tab_sane : USane uclass_tab.
Proof.
  constructor; try reflexivity.
  intros c H. unfold is_ascii_digit in H. apply andb_true_iff in H. destruct H as [H1 H2].
  apply N.leb_le in H1, H2.
  assert (K : (c = 48 \/ c = 49 \/ c = 50 \/ c = 51 \/ c = 52 \/ c = 53 \/ c = 54 \/ c = 55 \/ c = 56 \/ c = 57)%N) by lia.
  repeat (destruct K as [->|K]; [reflexivity|]). subst c. reflexivity.
Qed.

(* ASCII text -> code points (for examples) *)
Definition str_of (s : String.string) : str := map Ascii.N_of_ascii (String.list_ascii_of_string s).
Definition dI (a : String.string) : dec := {| d_int := str_of a; d_frac := None |}.
Definition dF (a b : String.string) : dec := {| d_int := str_of a; d_frac := Some (str_of b) |}.
