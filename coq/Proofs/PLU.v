(* Proofs/PLU.v — LU with partial pivoting (R instance). *)
From Coq Require Import ZArith List Arith Bool Reals Lra Lia.
From SV Require Import Base.Num Base.Outcome Base.Mat Model.Subst Model.LU Proofs.LU.
Import ListNotations.
Local Open Scope R_scope.

Lemma c09_nonsquare_plu : forall (h w : nat) (A : mat R), h <> w -> plu h w A = Err ENonSquareMatrix.
Proof.
  intros h w A H. unfold plu. apply Nat.eqb_neq in H. rewrite H. reflexivity.
Qed.

Lemma c09_nonsquare : forall (h w : nat) (A : mat R), h <> w ->
  lu h w A = Err ENonSquareMatrix /\ plu h w A = Err ENonSquareMatrix.
Proof. intros h w A H. split; [apply c09_nonsquare_lu|apply c09_nonsquare_plu]; exact H. Qed.
