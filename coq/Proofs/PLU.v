(* Proofs/PLU.v — LU with partial pivoting (Model/LU.v, R instance). *)
From Coq Require Import ZArith List Arith Bool Reals Lra Lia.
From Coq Require Import Floats.
From SV Require Import Base.Num Base.Outcome Base.Mat Model.Subst Model.LU Proofs.LU.
Import ListNotations.
Local Open Scope R_scope.

(* ---------------------------------------------------------------------------
   EPSILON
   --------------------------------------------------------------------------- *)
Lemma neps_R : @neps R RNum = / 2 ^ 52.
Proof.
  unfold neps. change 52%Z with (Z.of_nat 52). rewrite npowi_R_nat.
  unfold ntwo. cbn [ndiv n1 nofZ RNum]. unfold Rdiv. ring.
Qed.

(* the same term in the float instance is exactly f64::EPSILON = 2^-52 *)
Lemma neps_float : PrimFloat.eqb (@neps PrimFloat.float FNum) 0x1p-52%float = true.
Proof. vm_compute. reflexivity. Qed.
Lemma neps_float_bits :
  Prim2SF (@neps PrimFloat.float FNum) = S754_finite false 4503599627370496 (-104).
Proof. vm_compute. reflexivity. Qed.

Lemma neps_pos : 0 < @neps R RNum.
Proof. rewrite neps_R. apply Rinv_0_lt_compat. apply pow_lt. lra. Qed.

(* ---------------------------------------------------------------------------
   The pivot threshold EPSILON * n * max|a_ij|
   --------------------------------------------------------------------------- *)
Lemma plu_scale_inv n (a : mat R) (Q : R -> Prop) :
  Q 0 -> (forall i j, (i < n)%nat -> (j < n)%nat -> forall s, Q s -> Q (if Rltb s (Rabs (a i j)) then Rabs (a i j) else s)) ->
  Q (plu_scale n a).
Proof.
  intros H0 Hs. unfold plu_scale.
  pose proof (for_range_inv (fun (_ : nat) (s : R) => Q s) 0 n) as H. cbn [Nat.add] in H. apply H; clear H.
  - exact H0.
  - intros i s Hi HQ.
    pose proof (for_range_inv (fun (_ : nat) (s : R) => Q s) 0 n) as H. cbn [Nat.add] in H. apply H; clear H.
    + exact HQ.
    + intros j s' Hj HQ'. cbv zeta. unfold ngtb. cbn [nltb nabs RNum]. apply Hs; try lia. exact HQ'.
Qed.

Lemma plu_scale_nonneg n (a : mat R) : 0 <= plu_scale n a.
Proof.
  apply (plu_scale_inv n a (fun s => 0 <= s)); [lra|].
  intros i j _ _ s Hs. destruct (Rltb s (Rabs (a i j))); [apply Rabs_pos|exact Hs].
Qed.

Lemma plu_scale_le n (a : mat R) M :
  0 <= M -> (forall i j, (i < n)%nat -> (j < n)%nat -> Rabs (a i j) <= M) -> plu_scale n a <= M.
Proof.
  intros HM Hb. apply (plu_scale_inv n a (fun s => s <= M)); [exact HM|].
  intros i j Hi Hj s Hs. destruct (Rltb s (Rabs (a i j))); [apply Hb; assumption|exact Hs].
Qed.

(* the scan is monotone, so every entry is below the final scale *)
Lemma scan_ge (f : nat -> R) lo len s0 :
  let r := for_range lo len (fun col s => let magnitude := nabs (f col) in if ngtb magnitude s then magnitude else s) s0 in
  s0 <= r /\ forall c, (lo <= c < lo + len)%nat -> Rabs (f c) <= r.
Proof.
  cbv zeta. induction len as [|len [IH1 IH2]].
  - cbn [for_range]. split; [lra|intros c Hc; lia].
  - rewrite for_range_S. set (r := for_range lo len _ s0) in *.
    unfold ngtb. cbn [nltb nabs RNum].
    destruct (Rltb r (Rabs (f (lo + len)%nat))) eqn:E.
    + apply Rltb_true in E. split; [lra|]. intros c Hc.
      destruct (Nat.eq_dec c (lo + len)) as [->|Hne]; [lra|]. specialize (IH2 c ltac:(lia)). lra.
    + apply Rltb_false in E. split; [exact IH1|]. intros c Hc.
      destruct (Nat.eq_dec c (lo + len)) as [->|Hne]; [exact E|]. apply IH2. lia.
Qed.

Lemma plu_scale_ge n (a : mat R) i j : (i < n)%nat -> (j < n)%nat -> Rabs (a i j) <= plu_scale n a.
Proof.
  intros Hi Hj. unfold plu_scale.
  assert (H : forall len s0,
            let r := for_range 0 len (fun row s => for_range 0 n
                        (fun col s => let magnitude := nabs (a row col) in if ngtb magnitude s then magnitude else s) s) s0 in
            s0 <= r /\ ((i < len)%nat -> Rabs (a i j) <= r)).
  { induction len as [|len IH]; intro s0; cbv zeta.
    - cbn [for_range]. split; [lra|lia].
    - rewrite for_range_S. cbn [Nat.add].
      destruct (IH s0) as [I1 I2]. cbv zeta in I1, I2.
      set (r := for_range 0 len _ s0) in *.
      destruct (scan_ge (fun col => a len col) 0 n r) as [S1 S2]. cbv zeta in S1, S2.
      split; [lra|]. intro Hlt.
      destruct (Nat.eq_dec i len) as [->|Hne]; [apply S2; lia|].
      specialize (I2 ltac:(lia)). lra. }
  destruct (H n n0) as [_ H2]. cbv zeta in H2. apply H2. exact Hi.
Qed.

Lemma plu_threshold_R n (a : mat R) : plu_threshold n a = neps * INR n * plu_scale n a.
Proof. unfold plu_threshold. cbn [nmul RNum]. unfold nofnat. cbn [nofZ RNum]. rewrite <- INR_IZR_INZ. reflexivity. Qed.

Lemma plu_threshold_nonneg n (a : mat R) : 0 <= plu_threshold n a.
Proof.
  rewrite plu_threshold_R. apply Rmult_le_pos; [apply Rmult_le_pos|apply plu_scale_nonneg].
  - left. apply neps_pos.
  - apply pos_INR.
Qed.

(* ---------------------------------------------------------------------------
   The split of the packed factors
   --------------------------------------------------------------------------- *)
Lemma plu_lower_lt (m : mat R) r t : (t < r)%nat -> plu_lower m r t = m r t.
Proof.
  intro H. unfold plu_lower. destruct (Nat.eqb_spec r t); [lia|].
  destruct (Nat.ltb_spec t r); [reflexivity|lia].
Qed.
Lemma plu_lower_eq (m : mat R) r : plu_lower m r r = 1.
Proof. unfold plu_lower. rewrite Nat.eqb_refl. reflexivity. Qed.
Lemma plu_lower_gt (m : mat R) r t : (r < t)%nat -> plu_lower m r t = 0.
Proof.
  intro H. unfold plu_lower. destruct (Nat.eqb_spec r t); [lia|].
  destruct (Nat.ltb_spec t r); [lia|reflexivity].
Qed.
Lemma plu_upper_le (m : mat R) t c : (t <= c)%nat -> plu_upper m t c = m t c.
Proof. intro H. unfold plu_upper. destruct (Nat.leb_spec t c); [reflexivity|lia]. Qed.
Lemma plu_upper_gt (m : mat R) t c : (c < t)%nat -> plu_upper m t c = 0.
Proof. intro H. unfold plu_upper. destruct (Nat.leb_spec t c); [lia|reflexivity]. Qed.

(* ---------------------------------------------------------------------------
   Pivot search: the selected row maximises |m r i| over i <= r < n
   --------------------------------------------------------------------------- *)
Lemma pivot_search_spec n i (m : mat R) :
  (i < n)%nat ->
  let q := fst (plu_pivot_search n i m) in
  (i <= q < n)%nat /\ forall r, (i <= r < n)%nat -> Rabs (m r i) <= Rabs (m q i).
Proof.
  intro Hi. cbv zeta. unfold plu_pivot_search.
  match goal with |- context [for_range (S i) (n - S i) ?b ?s] => set (body := b); set (s0 := s) end.
  pose proof (for_range_inv (fun k (st : nat * R) =>
      (i <= fst st < k)%nat /\ snd st = Rabs (m (fst st) i) /\
      forall r, (i <= r < k)%nat -> Rabs (m r i) <= snd st) (S i) (n - S i) body s0) as H.
  replace (S i + (n - S i))%nat with n in H by lia.
  destruct H as [H1 [H2 H3]].
  - unfold s0. cbn [fst snd]. split; [lia|]. split; [reflexivity|].
    intros r Hr. assert (r = i) by lia. subst r. cbn [nabs RNum]. lra.
  - intros k st Hk [A1 [A2 A3]]. unfold body.
    cbn [nabs RNum]. unfold ngtb. cbn [nltb RNum].
    destruct (Rltb (snd st) (Rabs (m k i))) eqn:E.
    + apply Rltb_true in E. cbn [fst snd]. split; [lia|]. split; [reflexivity|].
      intros r Hr. destruct (Nat.eq_dec r k) as [->|Hne]; [lra|].
      specialize (A3 r). assert (Hr' : (i <= r < k)%nat) by lia. specialize (A3 Hr'). lra.
    + apply Rltb_false in E. split; [lia|]. split; [exact A2|].
      intros r Hr. destruct (Nat.eq_dec r k) as [->|Hne]; [exact E|].
      apply A3. lia.
  - split; [exact H1|]. intros r Hr. rewrite <- H2. apply H3. exact Hr.
Qed.

(* ---------------------------------------------------------------------------
   Elimination: closed forms of the two nested loops
   --------------------------------------------------------------------------- *)
Definition row_update_len (i k len : nat) (m : mat R) : mat R :=
  for_range (S i) len (fun j m => mset m k j (nsub (m k j) (nmul (m k i) (m i j)))) m.

Lemma plu_row_update_len n i k m : plu_row_update n i k m = row_update_len i k (n - S i) m.
Proof. reflexivity. Qed.

Lemma row_update_len_spec i k len (m : mat R) :
  k <> i ->
  (forall c, (S i <= c < S i + len)%nat -> row_update_len i k len m k c = m k c - m k i * m i c) /\
  (forall r c, ~ (r = k /\ (S i <= c < S i + len)%nat) -> row_update_len i k len m r c = m r c).
Proof.
  intro Hki. induction len as [|len [IH1 IH2]].
  - split; [intros c Hc; lia|intros; reflexivity].
  - unfold row_update_len in *. rewrite for_range_S.
    set (M := for_range (S i) len _ m) in *.
    cbn [nsub nmul RNum].
    split.
    + intros c Hc. destruct (Nat.eq_dec c (S i + len)) as [->|Hne].
      * rewrite mset_same. rewrite !IH2 by lia. reflexivity.
      * rewrite mset_other by (right; exact Hne). apply IH1. lia.
    + intros r c Hn. rewrite mset_other.
      * apply IH2. intros [H1 H2]. apply Hn. split; [exact H1|lia].
      * destruct (Nat.eq_dec r k) as [->|Hr]; [right|left; exact Hr].
        intro Hc. apply Hn. split; [reflexivity|lia].
Qed.

Definition eliminate_len (n i len : nat) (m : mat R) : mat R :=
  for_range (S i) len (fun k m => plu_row_update n i k (mset m k i (ndiv (m k i) (m i i)))) m.

Lemma plu_eliminate_len n i m : plu_eliminate n i m = eliminate_len n i (n - S i) m.
Proof. reflexivity. Qed.

Lemma eliminate_len_spec n i len (m : mat R) :
  (i < n)%nat ->
  (forall r, (S i <= r < S i + len)%nat -> eliminate_len n i len m r i = m r i / m i i) /\
  (forall r c, (S i <= r < S i + len)%nat -> (S i <= c < n)%nat ->
      eliminate_len n i len m r c = m r c - (m r i / m i i) * m i c) /\
  (forall r c, ~ ((S i <= r < S i + len)%nat /\ (i <= c < n)%nat) -> eliminate_len n i len m r c = m r c).
Proof.
  intro Hi. induction len as [|len [IH1 [IH2 IH3]]].
  - split; [intros r Hr; lia|]. split; [intros r c Hr; lia|intros; reflexivity].
  - unfold eliminate_len in *. rewrite for_range_S.
    set (M := for_range (S i) len _ m) in *.
    rewrite plu_row_update_len.
    set (k := (S i + len)%nat).
    set (M1 := mset M k i (ndiv (M k i) (M i i))).
    destruct (row_update_len_spec i k (n - S i) M1) as [R1 R2]; [unfold k; lia|].
    replace (S i + (n - S i))%nat with n in R1, R2 by lia.
    assert (EMk : forall c, M k c = m k c) by (intro c; apply IH3; unfold k; lia).
    assert (EMi : forall c, M i c = m i c) by (intro c; apply IH3; lia).
    assert (E1k : M1 k i = m k i / m i i).
    { unfold M1. rewrite mset_same. cbn [ndiv RNum]. rewrite EMk, EMi. reflexivity. }
    split; [|split].
    + intros r Hr. rewrite R2 by lia.
      destruct (Nat.eq_dec r k) as [->|Hne]; [exact E1k|].
      unfold M1. rewrite mset_other by (left; exact Hne). apply IH1. unfold k in Hne. lia.
    + intros r c Hr Hc. destruct (Nat.eq_dec r k) as [->|Hne].
      * rewrite R1 by lia. rewrite E1k. unfold M1.
        rewrite !mset_other by (right; lia). rewrite EMk, EMi. reflexivity.
      * rewrite R2 by (intros [H1 H2]; exact (Hne H1)).
        unfold M1. rewrite mset_other by (left; exact Hne). apply IH2; [unfold k in Hne; lia|exact Hc].
    + intros r c Hn.
      assert (Hrc : ~ (r = k /\ (S i <= c < n)%nat)).
      { intros [H1 H2]. apply Hn. unfold k in H1. lia. }
      rewrite R2 by exact Hrc.
      unfold M1. rewrite mset_other.
      * apply IH3. intros [H1 H2]. apply Hn. lia.
      * destruct (Nat.eq_dec r k) as [->|Hr]; [right|left; exact Hr].
        intro Hc. apply Hn. unfold k. lia.
Qed.

(* ---------------------------------------------------------------------------
   The loop invariant of right-looking LU with row interchanges:
   after i steps   A (s r) c = sum_{t<i} L r t * U t c + [r >= i /\ c >= i] m r c
   where L, U are the split of the packed matrix m and the lower-right block of m
   is the Schur complement still to be factored.
   --------------------------------------------------------------------------- *)
Definition rest (i : nat) (m : mat R) (r c : nat) : R :=
  if (i <=? r)%nat && (i <=? c)%nat then m r c else 0.

Lemma rest_in i (m : mat R) r c : (i <= r)%nat -> (i <= c)%nat -> rest i m r c = m r c.
Proof.
  intros H1 H2. unfold rest. destruct (Nat.leb_spec i r); [|lia]. destruct (Nat.leb_spec i c); [|lia]. reflexivity.
Qed.
Lemma rest_out i (m : mat R) r c : ((r < i)%nat \/ (c < i)%nat) -> rest i m r c = 0.
Proof.
  intros H. unfold rest. destruct (Nat.leb_spec i r); destruct (Nat.leb_spec i c); try reflexivity. lia.
Qed.

(* the transposition of i and q *)
Definition tau (i q r : nat) : nat := if (r =? q)%nat then i else if (r =? i)%nat then q else r.

Lemma tau_lt n i q r : (i < n)%nat -> (q < n)%nat -> (r < n)%nat -> (tau i q r < n)%nat.
Proof. intros. unfold tau. destruct (Nat.eqb_spec r q); [lia|]. destruct (Nat.eqb_spec r i); lia. Qed.
Lemma tau_invol i q r : tau i q (tau i q r) = r.
Proof.
  unfold tau. destruct (Nat.eqb_spec r q) as [->|H1].
  - destruct (Nat.eqb_spec i q) as [->|H2]; [reflexivity|]. rewrite Nat.eqb_refl. reflexivity.
  - destruct (Nat.eqb_spec r i) as [->|H2].
    + rewrite Nat.eqb_refl. reflexivity.
    + destruct (Nat.eqb_spec r q); [lia|]. destruct (Nat.eqb_spec r i); [lia|]. reflexivity.
Qed.
Lemma tau_low i q r : (i <= q)%nat -> (r < i)%nat -> tau i q r = r.
Proof. intros. unfold tau. destruct (Nat.eqb_spec r q); [lia|]. destruct (Nat.eqb_spec r i); [lia|]. reflexivity. Qed.
Lemma tau_high i q r : (i <= q)%nat -> (i <= r)%nat -> (i <= tau i q r)%nat.
Proof. intros. unfold tau. destruct (Nat.eqb_spec r q); [lia|]. destruct (Nat.eqb_spec r i); lia. Qed.
Lemma tau_i i q : tau i q i = q.
Proof. unfold tau. destruct (Nat.eqb_spec i q); [lia|]. rewrite Nat.eqb_refl. reflexivity. Qed.

(* what the conditional swap of the model does, pointwise *)
Lemma swap_tau (m : mat R) i q r c :
  (if (q =? i)%nat then m else mswap_rows m q i) r c = m (tau i q r) c.
Proof.
  unfold tau, mswap_rows. destruct (Nat.eqb_spec q i) as [->|Hqi].
  - destruct (Nat.eqb_spec r i) as [->|H]; reflexivity.
  - destruct (Nat.eqb_spec r q); [reflexivity|]. destruct (Nat.eqb_spec r i); reflexivity.
Qed.

Definition PCore (n : nat) (A : mat R) (i : nat) (m : mat R) (s : nat -> nat) : Prop :=
  forall r c, (r < n)%nat -> (c < n)%nat ->
    A (s r) c = msum 0 i (fun t => plu_lower m r t * plu_upper m t c) + rest i m r c.

Definition PInv (n : nat) (A : mat R) (thr : R) (i : nat) (m p : mat R) : Prop :=
  (exists s s', (forall r, (r < n)%nat -> (s r < n)%nat /\ (s' r < n)%nat /\ s' (s r) = r /\ s (s' r) = r) /\
                perm_mat n s p /\ PCore n A i m s) /\
  (forall r c, (r < n)%nat -> (c < i)%nat -> (c < r)%nat -> Rabs (m r c) <= 1) /\
  (forall t, (t < i)%nat -> (t < n)%nat -> thr < Rabs (m t t)).

Lemma PInv_init n (A : mat R) thr : PInv n A thr 0 A midentity.
Proof.
  split; [|split].
  - exists (fun r => r), (fun r => r). split; [intros r Hr; repeat split; exact Hr|]. split.
    + intros r c Hr Hc. unfold midentity. cbn [n0 n1 RNum].
      destruct (Nat.eqb_spec r c); destruct (Nat.eqb_spec c r); try lia; reflexivity.
    + intros r c Hr Hc. cbn [msum]. rewrite rest_in by lia. ring.
  - intros r c Hr Hc. lia.
  - intros t Ht. lia.
Qed.

(* row interchange *)
Lemma PCore_swap n A i m s q m1 :
  (i <= q < n)%nat -> (forall r c, m1 r c = m (tau i q r) c) ->
  PCore n A i m s -> PCore n A i m1 (fun r => s (tau i q r)).
Proof.
  intros Hq Hm1 Hc r c Hr Hcn.
  rewrite (Hc (tau i q r) c) by (try apply tau_lt; lia).
  f_equal.
  - apply msum_ext. intros t Ht. f_equal.
    + unfold plu_lower. rewrite Hm1. unfold tau.
      destruct (Nat.eqb_spec r q); destruct (Nat.eqb_spec r i);
        repeat match goal with |- context [(?a =? ?b)%nat] => destruct (Nat.eqb_spec a b) end;
        repeat match goal with |- context [(?a <? ?b)%nat] => destruct (Nat.ltb_spec a b) end;
        try lia; reflexivity.
    + unfold plu_upper. rewrite Hm1. rewrite (tau_low i q t) by lia. reflexivity.
  - unfold rest. rewrite Hm1.
    assert (E : (i <=? tau i q r)%nat = (i <=? r)%nat).
    { destruct (Nat.leb_spec i r) as [H|H].
      - apply Nat.leb_le. apply tau_high; lia.
      - rewrite tau_low by lia. apply Nat.leb_gt. exact H. }
    rewrite E. reflexivity.
Qed.

(* one elimination step *)
Lemma PCore_elim n A i m1 m2 s :
  (i < n)%nat -> m1 i i <> 0 ->
  (forall r, (S i <= r < n)%nat -> m2 r i = m1 r i / m1 i i) ->
  (forall r c, (S i <= r < n)%nat -> (S i <= c < n)%nat -> m2 r c = m1 r c - (m1 r i / m1 i i) * m1 i c) ->
  (forall r c, (r < n)%nat -> (c < n)%nat -> ~ ((S i <= r)%nat /\ (i <= c)%nat) -> m2 r c = m1 r c) ->
  PCore n A i m1 s -> PCore n A (S i) m2 s.
Proof.
  intros Hi Hp E1 E2 E3 Hc r c Hr Hcn.
  rewrite (Hc r c Hr Hcn). cbn [msum]. rewrite Nat.add_0_l.
  rewrite (msum_ext 0 i (fun t => plu_lower m2 r t * plu_upper m2 t c)
                        (fun t => plu_lower m1 r t * plu_upper m1 t c)).
  2:{ intros t Ht. f_equal.
      - unfold plu_lower. rewrite E3 by lia. reflexivity.
      - unfold plu_upper. rewrite E3 by lia. reflexivity. }
  rewrite Rplus_assoc. f_equal.
  assert (EU : plu_upper m2 i c = plu_upper m1 i c) by (unfold plu_upper; rewrite E3 by lia; reflexivity).
  rewrite EU.
  destruct (lt_eq_lt_dec r i) as [[Hri|Hri]|Hri].
  - rewrite plu_lower_gt by lia. rewrite !rest_out by lia. ring.
  - subst r. rewrite plu_lower_eq. rewrite (rest_out (S i)) by lia.
    destruct (le_lt_dec i c) as [Hic|Hic].
    + rewrite plu_upper_le, rest_in by lia. ring.
    + rewrite plu_upper_gt, rest_out by lia. ring.
  - rewrite plu_lower_lt by lia. rewrite E1 by lia.
    destruct (lt_eq_lt_dec c i) as [[Hci|Hci]|Hci].
    + rewrite plu_upper_gt by lia. rewrite !rest_out by lia. ring.
    + subst c. rewrite plu_upper_le by lia. rewrite (rest_out (S i)) by lia.
      rewrite rest_in by lia. field. exact Hp.
    + rewrite plu_upper_le by lia. rewrite !rest_in by lia. rewrite E2 by lia. ring.
Qed.

Lemma Rabs_div_le_1 x y : y <> 0 -> Rabs x <= Rabs y -> Rabs (x / y) <= 1.
Proof.
  intros Hy H. unfold Rdiv. rewrite Rabs_mult, Rabs_inv.
  assert (0 < Rabs y) by (apply Rabs_pos_lt; exact Hy).
  apply Rmult_le_reg_r with (Rabs y); [assumption|].
  rewrite Rmult_assoc, Rinv_l by lra. lra.
Qed.

Definition plu_post (n : nat) (A : mat R) (thr : R) (i : nat) (acc : res (mat R * mat R)) : Prop :=
  match acc with
  | Ok (m, p) => PInv n A thr i m p
  | Err e => e = ESingularMatrix
  | Panic _ => False
  end.

Lemma plu_step_post n A thr i acc :
  (i < n)%nat -> 0 <= thr -> plu_post n A thr i acc -> plu_post n A thr (S i) (plu_step n thr i acc).
Proof.
  intros Hi Hthr H. destruct acc as [[m p]|e|w]; cbn [plu_step plu_post] in *; [|exact H|exact H].
  destruct (pivot_search_spec n i m Hi) as [Hq Hmax]. cbv zeta in Hq, Hmax.
  set (q := fst (plu_pivot_search n i m)) in *.
  set (m1 := if (q =? i)%nat then m else mswap_rows m q i).
  set (p1 := if (q =? i)%nat then p else mswap_rows p q i).
  assert (Em1 : forall r c, m1 r c = m (tau i q r) c) by (intros; unfold m1; apply swap_tau).
  assert (Ep1 : forall r c, p1 r c = p (tau i q r) c) by (intros; unfold p1; apply swap_tau).
  cbn [nleb nabs RNum].
  destruct (Rleb (Rabs (m1 i i)) thr) eqn:Echk; [reflexivity|].
  apply Rleb_false in Echk. cbn [plu_post].
  assert (Hp : m1 i i <> 0).
  { intro E. rewrite E, Rabs_R0 in Echk. lra. }
  destruct H as [[s [s' [Hs [Hpm Hcore]]]] [Hmult Hpiv]].
  rewrite plu_eliminate_len.
  destruct (eliminate_len_spec n i (n - S i) m1 Hi) as [E1 [E2 E3]].
  replace (S i + (n - S i))%nat with n in E1, E2, E3 by lia.
  set (m2 := eliminate_len n i (n - S i) m1) in *.
  assert (F1 : forall r, (S i <= r < n)%nat -> retab n n m2 r i = m1 r i / m1 i i).
  { intros r Hr. rewrite retab_spec by lia. apply E1; exact Hr. }
  assert (F2 : forall r c, (S i <= r < n)%nat -> (S i <= c < n)%nat ->
                 retab n n m2 r c = m1 r c - (m1 r i / m1 i i) * m1 i c).
  { intros r c Hr Hc. rewrite retab_spec by lia. apply E2; assumption. }
  assert (F3 : forall r c, (r < n)%nat -> (c < n)%nat -> ~ ((S i <= r)%nat /\ (i <= c)%nat) ->
                 retab n n m2 r c = m1 r c).
  { intros r c Hr Hc Hn. rewrite retab_spec by lia. apply E3. intros [H1 H2]. apply Hn. lia. }
  split; [|split].
  - exists (fun r => s (tau i q r)), (fun r => tau i q (s' r)). split; [|split].
    + intros r Hr.
      assert (Ht : (tau i q r < n)%nat) by (apply tau_lt; lia).
      destruct (Hs (tau i q r) Ht) as [A1 [A2 [A3 A4]]].
      destruct (Hs r Hr) as [B1 [B2 [B3 B4]]].
      split; [exact A1|]. split; [apply tau_lt; lia|]. split.
      * rewrite A3. apply tau_invol.
      * rewrite tau_invol. exact B4.
    + intros r c Hr Hc. rewrite retab_spec by assumption. rewrite Ep1.
      apply Hpm; [apply tau_lt; lia|exact Hc].
    + apply (PCore_elim n A i m1 (retab n n m2)); try assumption.
      apply (PCore_swap n A i m s q m1); [lia|exact Em1|exact Hcore].
  - intros r c Hr Hc Hcr.
    destruct (Nat.eq_dec c i) as [->|Hne].
    + rewrite F1 by lia. apply Rabs_div_le_1; [exact Hp|].
      rewrite !Em1, tau_i. apply Hmax. split; [apply tau_high; lia|apply tau_lt; lia].
    + rewrite F3 by lia. rewrite Em1. apply Hmult; [apply tau_lt; lia|lia|].
      destruct (le_lt_dec i r) as [H|H]; [pose proof (tau_high i q r); lia|rewrite tau_low by lia; lia].
  - intros t Ht Htn. rewrite F3 by lia.
    destruct (Nat.eq_dec t i) as [->|Hne]; [exact Echk|].
    rewrite Em1, tau_low by lia. apply Hpiv; lia.
Qed.

Lemma plu_loop_post n (A : mat R) thr : 0 <= thr ->
  plu_post n A thr n (for_range 0 n (plu_step n thr) (Ok (A, midentity))).
Proof.
  intro Hthr.
  pose proof (for_range_inv (plu_post n A thr) 0 n (plu_step n thr) (Ok (A, midentity))) as H.
  cbn [Nat.add] in H. apply H.
  - cbn [plu_post]. apply PInv_init.
  - intros i acc Hi. apply plu_step_post; [lia|exact Hthr].
Qed.

(* what a successful run returns *)
Lemma plu_ok_inv n (A L U P : mat R) :
  plu n n A = Ok (L, U, P) ->
  exists m, PInv n A (plu_threshold n A) n m P /\ meq n L (plu_lower m) /\ meq n U (plu_upper m).
Proof.
  unfold plu. rewrite Nat.eqb_refl. cbn [negb].
  pose proof (plu_loop_post n A (plu_threshold n A) (plu_threshold_nonneg n A)) as Hpost.
  destruct (for_range 0 n (plu_step n (plu_threshold n A)) (Ok (A, midentity))) as [[m p]|e|w]; [|discriminate|discriminate].
  intro H. injection H as <- <- <-. exists m. split; [exact Hpost|].
  split; apply meq_retab.
Qed.

Lemma plu_outcome n (A : mat R) :
  plu n n A = Err ESingularMatrix \/ exists L U P, plu n n A = Ok (L, U, P).
Proof.
  unfold plu. rewrite Nat.eqb_refl. cbn [negb].
  pose proof (plu_loop_post n A (plu_threshold n A) (plu_threshold_nonneg n A)) as Hpost.
  destruct (for_range 0 n (plu_step n (plu_threshold n A)) (Ok (A, midentity))) as [[m p]|e|w]; cbn [plu_post] in Hpost.
  - right. eexists _, _, _. reflexivity.
  - left. subst e. reflexivity.
  - contradiction.
Qed.

(* ---- the C09 statements about plu ------------------------------------------- *)
Lemma c09_nonsquare_plu : forall (h w : nat) (A : mat R), h <> w -> plu h w A = Err ENonSquareMatrix.
Proof.
  intros h w A H. unfold plu. apply Nat.eqb_neq in H. rewrite H. reflexivity.
Qed.

Lemma c09_nonsquare : forall (h w : nat) (A : mat R), h <> w ->
  lu h w A = Err ENonSquareMatrix /\ plu h w A = Err ENonSquareMatrix.
Proof. intros h w A H. split; [apply c09_nonsquare_lu|apply c09_nonsquare_plu]; exact H. Qed.

Lemma c09_plu_shape : forall (n : nat) (A L U P : mat R), plu n n A = Ok (L, U, P) ->
  unit_lower n L /\ upper_tri n U /\ is_perm_mat n P /\
  (forall i j, (i < n)%nat -> (j < n)%nat -> Rabs (L i j) <= 1).
Proof.
  intros n A L U P H.
  destruct (plu_ok_inv n A L U P H) as [m [[[s [s' [Hs [Hpm _]]]] [Hmult _]] [EL EU]]].
  split; [|split; [|split]].
  - intros i j Hi Hj. rewrite EL by assumption. split.
    + intros <-. apply plu_lower_eq.
    + intro Hij. apply plu_lower_gt. exact Hij.
  - intros i j Hi Hj Hji. rewrite EU by assumption. apply plu_upper_gt. exact Hji.
  - exists s. split; [exists s'; exact Hs|exact Hpm].
  - intros i j Hi Hj. rewrite EL by assumption.
    destruct (lt_eq_lt_dec i j) as [[Hij|Hij]|Hij].
    + rewrite plu_lower_gt by exact Hij. rewrite Rabs_R0. lra.
    + subst j. rewrite plu_lower_eq, Rabs_R1. lra.
    + rewrite plu_lower_lt by exact Hij. apply Hmult; lia.
Qed.

(* the pivots of a returned U exceed the threshold EPSILON * n * max|a_ij| >= 0 in absolute value *)
Lemma c09_plu_pivots : forall (n : nat) (A L U P : mat R), plu n n A = Ok (L, U, P) ->
  forall i, (i < n)%nat ->
    0 <= plu_threshold n A /\ plu_threshold n A < Rabs (U i i) /\ U i i <> 0.
Proof.
  intros n A L U P H i Hi.
  destruct (plu_ok_inv n A L U P H) as [m [[_ [_ Hpiv]] [_ EU]]].
  rewrite EU by assumption. rewrite plu_upper_le by lia.
  pose proof (Hpiv i Hi Hi) as Hp. pose proof (plu_threshold_nonneg n A) as Ht.
  split; [exact Ht|]. split; [exact Hp|].
  intro E. rewrite E, Rabs_R0 in Hp. lra.
Qed.

Lemma perm_mat_row n s (P A : mat R) i j :
  (i < n)%nat -> (j < n)%nat -> (s i < n)%nat -> perm_mat n s P -> mprod n P A i j = A (s i) j.
Proof.
  intros Hi Hj Hsi Hpm. unfold mprod.
  rewrite (msum_delta 0 n _ (s i)); [|lia|].
  - rewrite Hpm by assumption. rewrite Nat.eqb_refl. ring.
  - intros t Ht Hne. rewrite Hpm by lia. apply Nat.eqb_neq in Hne. rewrite Hne. ring.
Qed.

(* L U = P A, and P A is A with its rows permuted by s *)
Lemma plu_reconstruct_perm n (A L U P : mat R) :
  plu n n A = Ok (L, U, P) ->
  exists s, perm_on n s /\ perm_mat n s P /\
    forall i j, (i < n)%nat -> (j < n)%nat -> mprod n L U i j = A (s i) j.
Proof.
  intro H.
  destruct (plu_ok_inv n A L U P H) as [m [[[s [s' [Hs [Hpm Hcore]]]] _] [EL EU]]].
  exists s. split; [exists s'; exact Hs|]. split; [exact Hpm|].
  intros i j Hi Hj. rewrite (Hcore i j Hi Hj). rewrite rest_out by lia. rewrite Rplus_0_r.
  unfold mprod. apply msum_ext. intros t Ht. rewrite EL, EU by lia. reflexivity.
Qed.

Lemma c09_plu_reconstruct : forall (n : nat) (A L U P : mat R), plu n n A = Ok (L, U, P) ->
  forall i j, (i < n)%nat -> (j < n)%nat -> mprod n L U i j = mprod n P A i j.
Proof.
  intros n A L U P H i j Hi Hj.
  destruct (plu_reconstruct_perm n A L U P H) as [s [[s' Hs] [Hpm Hrec]]].
  rewrite (Hrec i j Hi Hj). symmetry. apply (perm_mat_row n s); try assumption.
  apply (Hs i Hi).
Qed.

(* A x = b is solvable for every b once plu succeeds *)
Lemma plu_solvable n (A L U P : mat R) :
  plu n n A = Ok (L, U, P) ->
  forall b : vec R, exists x : vec R, forall r, (r < n)%nat -> msum 0 n (fun c => A r c * x c) = b r.
Proof.
  intros H b.
  destruct (c09_plu_shape n A L U P H) as [HL [HU _]].
  destruct (plu_reconstruct_perm n A L U P H) as [s [[s' Hs] [_ Hrec]]].
  assert (Hd : forall i, (i < n)%nat -> U i i <> 0) by (intros i Hi; apply (c09_plu_pivots n A L U P H i Hi)).
  destruct (tri_solvable n L U HL HU Hd (fun r => b (s r))) as [x Hx].
  exists x. intros r Hr.
  destruct (Hs r Hr) as [_ [Hs'r [_ Hss']]].
  specialize (Hx (s' r) Hs'r). rewrite Hss' in Hx. rewrite <- Hx.
  apply msum_ext. intros c Hc.
  change (msum 0 n (fun t => L (s' r) t * U t c)) with (mprod n L U (s' r) c).
  rewrite Hrec by lia. rewrite Hss'. reflexivity.
Qed.

(* a singular matrix (non-trivial left null vector) is refused *)
Lemma c09_plu_singular : forall (n : nat) (A : mat R) (w : nat -> R),
  left_null n A w -> plu n n A = Err ESingularMatrix.
Proof.
  intros n A w [[i0 [Hi0 Hw0]] Hnull].
  destruct (plu_outcome n A) as [E|[L [U [P E]]]]; [exact E|exfalso].
  apply Hw0. apply (no_left_null n A); [|exact Hnull|exact Hi0].
  apply (plu_solvable n A L U P E).
Qed.

(* ---- a concrete successful run with a row interchange (non-vacuity) ------------- *)
Lemma neps_le_1 : @neps R RNum <= 1.
Proof.
  rewrite neps_R. rewrite <- Rinv_1. apply Rinv_le_contravar; [lra|]. apply pow_R1_Rle. lra.
Qed.

Lemma plu_step_eval n thr i (m p : mat R) q :
  fst (plu_pivot_search n i m) = q -> thr < Rabs (m (tau i q i) i) ->
  plu_step n thr i (Ok (m, p)) =
  Ok (retab n n (plu_eliminate n i (if (q =? i)%nat then m else mswap_rows m q i)),
      retab n n (if (q =? i)%nat then p else mswap_rows p q i)).
Proof.
  intros Hq Hc. cbn [plu_step]. rewrite Hq. cbn [nleb nabs RNum]. rewrite swap_tau.
  replace (Rleb (Rabs (m (tau i q i) i)) thr) with false by (symmetry; apply Rleb_false; exact Hc).
  reflexivity.
Qed.

Lemma plu_step_refuse n thr i (m p : mat R) q :
  fst (plu_pivot_search n i m) = q -> Rabs (m (tau i q i) i) <= thr ->
  plu_step n thr i (Ok (m, p)) = Err ESingularMatrix.
Proof.
  intros Hq Hc. cbn [plu_step]. rewrite Hq. cbn [nleb nabs RNum]. rewrite swap_tau.
  replace (Rleb (Rabs (m (tau i q i) i)) thr) with true by (symmetry; apply Rleb_true; exact Hc).
  reflexivity.
Qed.

(* 2^-52 * 2 * s < 1 for s <= 2^30 *)
Lemma small_threshold s : 0 <= s -> s <= 2 ^ 30 -> neps * INR 2 * s < 1.
Proof.
  intros H0 H1. rewrite neps_R. cbn [INR].
  assert (Hp : 0 < / 2 ^ 52) by (apply Rinv_0_lt_compat; apply pow_lt; lra).
  apply Rle_lt_trans with (/ 2 ^ 52 * (1 + 1) * 2 ^ 30).
  - apply Rmult_le_compat_l; [nra|exact H1].
  - replace (2 ^ 52) with (2 ^ 30 * 2 ^ 22) by (rewrite <- pow_add; reflexivity).
    assert (H30 : 0 < 2 ^ 30) by (apply pow_lt; lra).
    assert (H22 : 4 <= 2 ^ 22) by (replace 4 with (2 ^ 2) by ring; apply Rle_pow; [lra|lia]).
    rewrite Rinv_mult.
    replace (/ 2 ^ 30 * / 2 ^ 22 * (1 + 1) * 2 ^ 30) with ((2 ^ 30 * / 2 ^ 30) * (2 * / 2 ^ 22)) by ring.
    rewrite Rinv_r by lra. rewrite Rmult_1_l.
    apply Rmult_lt_reg_r with (2 ^ 22); [lra|]. rewrite Rmult_assoc, Rinv_l by lra. lra.
Qed.

(* closed form of the entry (1,1) after the only elimination step of a 2x2 run *)
Lemma elim_2x2 (m1 : mat R) :
  retab 2 2 (plu_eliminate 2 0 m1) 1%nat 1%nat =
  m1 1%nat 1%nat - m1 1%nat 0%nat / m1 0%nat 0%nat * m1 0%nat 1%nat.
Proof.
  rewrite retab_spec by lia. rewrite plu_eliminate_len.
  destruct (eliminate_len_spec 2 0 (2 - 1) m1) as [_ [E2 _]]; [lia|].
  apply E2; cbn; lia.
Qed.

(* [[0,1],[1,d]]: row interchange, pivots 1 and 1 *)
Lemma plu_2x2_swap_ok (a : mat R) :
  a 0%nat 0%nat = 0 -> a 0%nat 1%nat = 1 -> a 1%nat 0%nat = 1 -> plu_threshold 2 a < 1 ->
  exists L U P, plu 2 2 a = Ok (L, U, P).
Proof.
  intros E00 E01 E10 Hthr.
  unfold plu. cbn [Nat.eqb negb for_range].
  rewrite (plu_step_eval 2 _ 0 a midentity 1).
  - cbn [Nat.eqb].
    set (m1 := mswap_rows a 1 0).
    rewrite (plu_step_eval 2 _ 1 (retab 2 2 (plu_eliminate 2 0 m1)) _ 1).
    + eexists _, _, _. reflexivity.
    + reflexivity.
    + rewrite tau_i, elim_2x2.
      replace (m1 1%nat 1%nat) with 1 by (unfold m1, mswap_rows; cbn [Nat.eqb]; rewrite E01; reflexivity).
      replace (m1 1%nat 0%nat) with 0 by (unfold m1, mswap_rows; cbn [Nat.eqb]; rewrite E00; reflexivity).
      replace (m1 0%nat 0%nat) with 1 by (unfold m1, mswap_rows; cbn [Nat.eqb]; rewrite E10; reflexivity).
      replace (1 - 0 / 1 * m1 0%nat 1%nat) with 1 by field. rewrite Rabs_R1. exact Hthr.
  - unfold plu_pivot_search. cbn [Nat.sub for_range snd]. rewrite E00, E10.
    unfold ngtb. cbn [nltb nabs RNum]. rewrite Rabs_R0, Rabs_R1.
    replace (Rltb 0 1) with true by (symmetry; apply Rltb_true; lra). reflexivity.
  - rewrite tau_i, E10, Rabs_R1. exact Hthr.
Qed.

Lemma ex_plu_ok : exists L U P, plu 2 2 ex_swap = Ok (L, U, P).
Proof.
  assert (E00 : ex_swap 0%nat 0%nat = 0) by reflexivity.
  assert (E01 : ex_swap 0%nat 1%nat = 1) by reflexivity.
  assert (E10 : ex_swap 1%nat 0%nat = 1) by reflexivity.
  assert (E11 : ex_swap 1%nat 1%nat = 0) by reflexivity.
  apply plu_2x2_swap_ok; try assumption.
  rewrite plu_threshold_R. apply small_threshold; [apply plu_scale_nonneg|].
  apply Rle_trans with 1; [|apply pow_R1_Rle; lra].
  apply plu_scale_le; [lra|]. intros i j Hi Hj.
  destruct i as [|[|i]]; destruct j as [|[|j]]; try lia;
    rewrite ?E00, ?E01, ?E10, ?E11, ?Rabs_R0, ?Rabs_R1; lra.
Qed.

(* a matrix that plu accepts has a trivial kernel; hence a right null vector (zero column,
   repeated column, ...) is refused as well *)
Lemma plu_kernel n (A L U P : mat R) (z : vec R) :
  plu n n A = Ok (L, U, P) ->
  (forall r, (r < n)%nat -> msum 0 n (fun k => A r k * z k) = 0) ->
  forall k, (k < n)%nat -> z k = 0.
Proof.
  intros H Hz.
  destruct (c09_plu_shape n A L U P H) as [HL [HU _]].
  destruct (plu_reconstruct_perm n A L U P H) as [s [[s' Hs] [_ Hrec]]].
  assert (Hd : forall i, (i < n)%nat -> U i i <> 0) by (intros i Hi; apply (c09_plu_pivots n A L U P H i Hi)).
  apply (tri_kernel n L U z HL HU Hd).
  intros i Hi. rewrite <- (Hz (s i)) by (apply (Hs i Hi)).
  apply msum_ext. intros c Hc.
  change (msum 0 n (fun t => L i t * U t c)) with (mprod n L U i c).
  rewrite Hrec by lia. reflexivity.
Qed.

Lemma c09_plu_singular_right : forall (n : nat) (A : mat R) (x : nat -> R),
  right_null n A x -> plu n n A = Err ESingularMatrix.
Proof.
  intros n A x [[j0 [Hj0 Hx0]] Hnull].
  destruct (plu_outcome n A) as [E|[L [U [P E]]]]; [exact E|exfalso].
  apply Hx0. exact (plu_kernel n A L U P x E Hnull j0 Hj0).
Qed.
