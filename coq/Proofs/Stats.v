From Coq Require Import ZArith List Reals Lra Lia.
From SV Require Import Base.Num Model.Stats.
Import ListNotations.
Local Open Scope R_scope.
Definition Rsum (l : list R) : R := fold_right Rplus 0 l.
Definition Rmean (l : list R) : R := Rsum l / INR (length l).

(* ---- helpers --------------------------------------------------------------- *)
Definition Rprod (l : list R) : R := fold_right Rmult 1 l.
Definition SS (l : list R) : R := Rsum (map (fun x => (x - Rmean l) ^ 2) l).

Lemma Rsum_cons x l : Rsum (x :: l) = x + Rsum l.
Proof. reflexivity. Qed.
Lemma Rprod_cons x l : Rprod (x :: l) = x * Rprod l.
Proof. reflexivity. Qed.

Lemma fold_left_Rplus l : forall a, fold_left Rplus l a = a + Rsum l.
Proof.
  induction l as [|x l IH]; intro a.
  - cbn. ring.
  - cbn [fold_left]. rewrite IH, Rsum_cons. ring.
Qed.

Lemma fold_left_Rmult l : forall a, fold_left Rmult l a = a * Rprod l.
Proof.
  induction l as [|x l IH]; intro a.
  - cbn. ring.
  - cbn [fold_left]. rewrite IH, Rprod_cons. ring.
Qed.

Lemma sum_list_R (l : list R) : sum_list l = Rsum l.
Proof.
  unfold sum_list. cbn [nadd nsum0 RNum]. rewrite fold_left_Rplus. ring.
Qed.

Lemma prod_list_R (l : list R) : prod_list l = Rprod l.
Proof.
  unfold prod_list. cbn [nmul n1 RNum]. rewrite fold_left_Rmult. ring.
Qed.

Lemma nofnat_R (n : nat) : @nofnat R RNum n = INR n.
Proof. unfold nofnat. cbn [nofZ RNum]. symmetry. apply INR_IZR_INZ. Qed.

Lemma npowi2 (a : R) : npowi a 2 = a ^ 2.
Proof. exact (npowi_R_nat a 2). Qed.

Lemma length_pos_INR (l : list R) : l <> [] -> 0 < INR (length l).
Proof.
  intro H. destruct l as [|x l]; [congruence|].
  apply lt_0_INR. cbn [length]. lia.
Qed.

Lemma arith_mean_R (l : list R) : l <> [] -> arith_mean l = Some (Rmean l).
Proof.
  intro H. destruct l as [|x l]; [congruence|].
  unfold arith_mean, Rmean. rewrite sum_list_R, nofnat_R. reflexivity.
Qed.

Lemma denom_pos_nonempty (l : list R) s :
  (0 < std_denominator (length l) s)%nat -> l <> [].
Proof.
  intros H E. subst l. destruct s; cbn in H; lia.
Qed.

Lemma std_dev_R (l : list R) s :
  std_dev l s =
  match std_denominator (length l) s with
  | O => None
  | S d => Some (sqrt (SS l / INR (S d)))
  end.
Proof.
  unfold std_dev.
  destruct (std_denominator (length l) s) as [|d] eqn:E; [reflexivity|].
  assert (Hne : l <> []) by (apply (denom_pos_nonempty l s); rewrite E; lia).
  rewrite (arith_mean_R l Hne).
  cbn [ndiv nsqrt nsub RNum].
  rewrite sum_list_R, nofnat_R. unfold SS.
  do 4 f_equal. apply map_ext. intro a. apply npowi2.
Qed.

Lemma Rsum_bounds (l : list R) lo hi :
  (forall x, In x l -> lo <= x <= hi) ->
  INR (length l) * lo <= Rsum l <= INR (length l) * hi.
Proof.
  induction l as [|a l IH]; intro H.
  - cbn. lra.
  - assert (Ha : lo <= a <= hi) by (apply H; left; reflexivity).
    assert (Hl : forall x, In x l -> lo <= x <= hi) by (intros x Hx; apply H; right; exact Hx).
    specialize (IH Hl).
    change (length (a :: l)) with (S (length l)). rewrite S_INR, Rsum_cons. lra.
Qed.

Lemma Rmean_between (l : list R) lo hi :
  l <> [] -> (forall x, In x l -> lo <= x <= hi) -> lo <= Rmean l <= hi.
Proof.
  intros Hne H. pose proof (length_pos_INR l Hne) as Hn.
  pose proof (Rsum_bounds l lo hi H) as [H1 H2].
  unfold Rmean. split.
  - apply Rmult_le_reg_r with (INR (length l)); [exact Hn|].
    unfold Rdiv. rewrite Rmult_assoc, Rinv_l by lra. lra.
  - apply Rmult_le_reg_r with (INR (length l)); [exact Hn|].
    unfold Rdiv. rewrite Rmult_assoc, Rinv_l by lra. lra.
Qed.

Lemma Rsum_map_add (l : list R) c :
  Rsum (map (fun x => x + c) l) = Rsum l + INR (length l) * c.
Proof.
  induction l as [|a l IH].
  - cbn. ring.
  - cbn [map]. change (length (a :: l)) with (S (length l)).
    rewrite S_INR, !Rsum_cons, IH. ring.
Qed.

Lemma Rsum_map_mul (l : list R) k :
  Rsum (map (fun x => k * x) l) = k * Rsum l.
Proof.
  induction l as [|a l IH].
  - cbn. ring.
  - cbn [map]. rewrite !Rsum_cons, IH. ring.
Qed.

Lemma Rsum_sq_nonneg (l : list R) m : 0 <= Rsum (map (fun x => (x - m) ^ 2) l).
Proof.
  induction l as [|a l IH].
  - cbn. lra.
  - cbn [map]. rewrite Rsum_cons. pose proof (pow2_ge_0 (a - m)). lra.
Qed.

Lemma SS_nonneg (l : list R) : 0 <= SS l.
Proof. apply Rsum_sq_nonneg. Qed.

Lemma Rmean_map_add (l : list R) c :
  l <> [] -> Rmean (map (fun x => x + c) l) = Rmean l + c.
Proof.
  intro Hne. pose proof (length_pos_INR l Hne).
  unfold Rmean. rewrite map_length, Rsum_map_add. field. lra.
Qed.

Lemma Rmean_map_mul (l : list R) k :
  Rmean (map (fun x => k * x) l) = k * Rmean l.
Proof.
  unfold Rmean. rewrite map_length, Rsum_map_mul. unfold Rdiv. ring.
Qed.

Lemma SS_map_add (l : list R) c : l <> [] -> SS (map (fun x => x + c) l) = SS l.
Proof.
  intro Hne. unfold SS. rewrite (Rmean_map_add l c Hne), map_map.
  f_equal. apply map_ext. intro a. ring.
Qed.

Lemma Rsum_map_ext_mul (l : list R) (f g : R -> R) k :
  (forall x, f x = k * g x) -> Rsum (map f l) = k * Rsum (map g l).
Proof.
  intro H. induction l as [|a l IH].
  - cbn. ring.
  - cbn [map]. rewrite !Rsum_cons, IH, H. ring.
Qed.

Lemma SS_map_mul (l : list R) k : SS (map (fun x => k * x) l) = k ^ 2 * SS l.
Proof.
  unfold SS. rewrite Rmean_map_mul, map_map.
  apply Rsum_map_ext_mul. intro a. ring.
Qed.

Lemma exp_le_mono x y : x <= y -> exp x <= exp y.
Proof.
  intros [H|H]; [left; apply exp_increasing; exact H|right; subst; reflexivity].
Qed.

Lemma ln_le_mono x y : 0 < x -> x <= y -> ln x <= ln y.
Proof.
  intros Hx [H|H]; [left; apply ln_increasing; assumption|right; subst; reflexivity].
Qed.

Lemma Rprod_pos (l : list R) : (forall x, In x l -> 0 < x) -> 0 < Rprod l.
Proof.
  induction l as [|a l IH]; intro H.
  - cbn. lra.
  - rewrite Rprod_cons. apply Rmult_lt_0_compat.
    + apply H; left; reflexivity.
    + apply IH. intros x Hx. apply H; right; exact Hx.
Qed.

Lemma ln_Rprod (l : list R) :
  (forall x, In x l -> 0 < x) -> ln (Rprod l) = Rsum (map ln l).
Proof.
  induction l as [|a l IH]; intro H.
  - cbn. apply ln_1.
  - assert (Hl : forall x, In x l -> 0 < x) by (intros x Hx; apply H; right; exact Hx).
    cbn [map]. rewrite Rprod_cons, Rsum_cons, ln_mult.
    + rewrite (IH Hl). reflexivity.
    + apply H; left; reflexivity.
    + apply Rprod_pos; exact Hl.
Qed.

Lemma Int_part_1 : Int_part 1 = 1%Z.
Proof.
  unfold Int_part. rewrite <- (tech_up 1 2); [reflexivity| |]; simpl; lra.
Qed.

Lemma Rpowf_one (x : R) : Rpowf x 1 = x.
Proof.
  unfold Rpowf. rewrite Int_part_1.
  destruct (Req_EM_T 1 (IZR 1)) as [_|N]; [|exfalso; apply N; reflexivity].
  simpl. ring.
Qed.

Lemma Rpowf_frac (x p : R) : 0 < x -> 0 < p < 1 -> Rpowf x p = exp (p * ln x).
Proof.
  intros Hx [Hp0 Hp1]. unfold Rpowf.
  destruct (Req_EM_T p (IZR (Int_part p))) as [E|_].
  - exfalso. rewrite E in Hp0, Hp1.
    apply lt_IZR in Hp0. apply lt_IZR in Hp1. lia.
  - destruct (Rlt_dec 0 x) as [_|N]; [reflexivity|contradiction].
Qed.

(* ---- C18 ------------------------------------------------------------------- *)
Lemma c18_mean_def : forall l : list R, l <> [] -> arith_mean l = Some (Rsum l / INR (length l)).
Proof. intros l H. exact (arith_mean_R l H). Qed.

Lemma c18_mean_between : forall (l : list R) m lo hi,
  arith_mean l = Some m -> (forall x, In x l -> lo <= x <= hi) -> lo <= m <= hi.
Proof.
  intros l m lo hi Hm H.
  assert (Hne : l <> []) by (intro E; subst l; discriminate Hm).
  rewrite (arith_mean_R l Hne) in Hm. injection Hm as <-.
  apply Rmean_between; assumption.
Qed.

Lemma c18_sd_def : forall (l : list R) s, (0 < std_denominator (length l) s)%nat ->
  std_dev l s = Some (sqrt (Rsum (map (fun x => (x - Rmean l) ^ 2) l) / INR (std_denominator (length l) s))).
Proof.
  intros l s H. rewrite std_dev_R.
  destruct (std_denominator (length l) s) as [|d]; [lia|reflexivity].
Qed.

Lemma c18_sd_nonneg : forall (l : list R) s v, std_dev l s = Some v -> 0 <= v.
Proof.
  intros l s v H. rewrite std_dev_R in H.
  destruct (std_denominator (length l) s) as [|d]; [discriminate|].
  injection H as <-. apply sqrt_pos.
Qed.

Lemma c18_sd_translate : forall (l : list R) s c, std_dev (map (fun x => x + c) l) s = std_dev l s.
Proof.
  intros l s c. rewrite !std_dev_R, map_length.
  destruct (std_denominator (length l) s) as [|d] eqn:E; [reflexivity|].
  assert (Hne : l <> []) by (apply (denom_pos_nonempty l s); rewrite E; lia).
  rewrite (SS_map_add l c Hne). reflexivity.
Qed.

Lemma c18_sd_scale : forall (l : list R) s k,
  std_dev (map (fun x => k * x) l) s = option_map (fun v => Rabs k * v) (std_dev l s).
Proof.
  intros l s k. rewrite !std_dev_R, map_length.
  destruct (std_denominator (length l) s) as [|d]; [reflexivity|].
  cbn [option_map]. f_equal. rewrite SS_map_mul.
  replace (k ^ 2 * SS l / INR (S d)) with (Rsqr k * (SS l / INR (S d)))
    by (unfold Rsqr, Rdiv; ring).
  rewrite sqrt_mult_alt by apply Rle_0_sqr.
  rewrite sqrt_Rsqr_abs. reflexivity.
Qed.

Lemma c18_sample_pop_ratio : forall (l : list R) vp, (2 <= length l)%nat ->
  std_dev l false = Some vp ->
  std_dev l true = Some (vp * sqrt (INR (length l) / INR (length l - 1))).
Proof.
  intros l vp Hn Hp. rewrite std_dev_R in *. cbn [std_denominator] in *.
  destruct (length l) as [|[|n]] eqn:E; [lia|lia|].
  cbn [Nat.pred].
  replace (S (S n) - 1)%nat with (S n) by lia.
  assert (H1 : 0 < INR (S n)) by (apply lt_0_INR; lia).
  assert (H2 : 0 < INR (S (S n))) by (apply lt_0_INR; lia).
  set (N1 := INR (S n)) in *. set (N2 := INR (S (S n))) in *.
  injection Hp as <-. f_equal.
  rewrite <- sqrt_mult_alt.
  - apply f_equal. field. split; lra.
  - apply Rmult_le_pos; [apply SS_nonneg|]. left. apply Rinv_0_lt_compat. exact H2.
Qed.

Lemma c18_geom_def : forall l : list R, l <> [] -> (forall x, In x l -> 0 < x) ->
  geom_mean l = Some (exp (Rsum (map ln l) / INR (length l))).
Proof.
  intros l Hne Hpos.
  destruct l as [|a l]; [congruence|].
  unfold geom_mean. rewrite sum_list_R, nofnat_R. reflexivity.
Qed.

(* ... which is the n-th root of the product: g > 0 and g^n = product *)
Lemma c18_geom_root : forall (l : list R) g, l <> [] -> (forall x, In x l -> 0 < x) ->
  geom_mean l = Some g -> 0 < g /\ g ^ length l = Rprod l.
Proof.
  intros l g Hne Hpos Hg.
  rewrite (c18_geom_def l Hne Hpos) in Hg. injection Hg as <-.
  split; [apply exp_pos|].
  rewrite <- Rpower_pow by apply exp_pos.
  unfold Rpower. rewrite ln_exp.
  assert (Hn : 0 < INR (length l)).
  { destruct l; [congruence|]. apply lt_0_INR. cbn; lia. }
  replace (INR (length l) * (Rsum (map ln l) / INR (length l))) with (Rsum (map ln l))
    by (field; lra).
  rewrite <- (ln_Rprod l Hpos). apply exp_ln. apply Rprod_pos; exact Hpos.
Qed.

Lemma c18_geom_between : forall (l : list R) g lo hi, 0 < lo ->
  (forall x, In x l -> lo <= x <= hi) -> geom_mean l = Some g -> lo <= g <= hi.
Proof.
  intros l g lo hi Hlo H Hg.
  assert (Hne : l <> []) by (intro E; subst l; discriminate Hg).
  assert (Hpos : forall x, In x l -> 0 < x).
  { intros x Hx. pose proof (H x Hx). lra. }
  assert (Hhi : 0 < hi).
  { destruct l as [|a l]; [congruence|].
    pose proof (H a (or_introl eq_refl)). lra. }
  rewrite (c18_geom_def l Hne Hpos) in Hg. injection Hg as <-.
  assert (Hb : ln lo <= Rmean (map ln l) <= ln hi).
  { apply Rmean_between.
    - destruct l; [congruence|discriminate].
    - intros y Hy. apply in_map_iff in Hy. destruct Hy as [x [<- Hx]].
      pose proof (H x Hx) as [Hx1 Hx2]. split; apply ln_le_mono; try assumption.
      apply Hpos; exact Hx. }
  unfold Rmean in Hb. rewrite map_length in Hb. destruct Hb as [Hb1 Hb2].
  split.
  - rewrite <- (exp_ln lo Hlo) at 1. apply exp_le_mono; exact Hb1.
  - rewrite <- (exp_ln hi Hhi) at 1. apply exp_le_mono; exact Hb2.
Qed.

Lemma c18_undefined : @arith_mean R RNum [] = None /\ @geom_mean R RNum [] = None /\
  (forall s, @std_dev R RNum [] s = None) /\ (forall x : R, std_dev [x] true = None).
Proof.
  repeat split.
  - intros []; reflexivity.
Qed.

Print Assumptions c18_geom_between.
Print Assumptions c18_sd_scale.
