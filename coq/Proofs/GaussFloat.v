(* Proofs/GaussFloat.v — C08 at the floating-point level: componentwise BACKWARD error of the elimination
   phase of [ge] (Model/Gauss.v: Gaussian elimination with scaled partial pivoting, in place, right-hand side
   carried along, then [back_substitution]) for the binary64 instance.  Bridge: Flocq's [B2R (Prim2B x)].

   The code does not store its multipliers (the entry a[i][k] is left stale).  [ge_ghost] is the model's own
   loop [for_range 0 (n-1) (fe_step n tol)] run on a state that carries two more components: the matrix of the
   multipliers actually used (its rows are interchanged whenever the rows of the working matrix are) and the
   row permutation followed so far.  Its projection IS the model's loop ([proj_loop]), for every Num instance.
   From the ghost run:  s = [ge_perm] (a permutation of 0..n-1),  L = [ge_L] (unit lower triangular: the
   multipliers),  W = [ge_W] (the final working matrix [fa st]),  U = [ge_U] (its upper triangle),
   y = [ge_y] (the final right-hand side [fb st]).

   If [ge n n A n b tol = Ok x] then s is a permutation, x is what back_substitution returns on (W, y)
   (which reads only U — so back_substitution_float_error of Proofs/SubstFloat.v bounds |U x - y|), and
     (1)  | sum_t L_it U_tk - A_(s i)k |  <=  ((1+eps)^n - 1) * sum_t |L_it| |U_tk|        (i, k < n)
     (2)  | sum_t L_it y_t  - b_(s i)  |  <=  ((1+eps)^n - 1) * sum_t |L_it| |y_t|         (i < n)
   (eps = 2^-53) under the per-entry hypotheses [plu_entry_ok] (Proofs/PLUFloat.v: every product L_it * U_tk,
   t < min i k, is [okmul]; every link of the chain r_0 = A_(s i)k, r_(t+1) = r_t - L_it * U_tk is finite; for
   k < i the division r_k / U_kk is [okdiv]) and [ge_rhs_ok] (the same for the chain from b_(s i) with y in
   place of a column of U; no division), all stated on the outputs of the ghost run, checkable by computation.
   Together: x solves a system close to (P A, P b) in the componentwise sense.

   Part A (any Num instance): ghost run, projection, invariant, final recurrences ([ge_ok_final]).
   Part B: binary64 bounds from the recurrences.   Part C: the theorem and a computed 3x3 example with
   two row interchanges.                                                                                *)
From Coq Require Import ZArith List Bool Arith Reals Floats Lia Lra.
From Flocq Require Import Core Plus_error Relative BinarySingleNaN PrimFloat.
From SV Require Import Base.Num Base.Outcome Base.Mat Model.Subst Model.Gauss Model.LU
                       Proofs.LU Proofs.PLU Proofs.Gauss
                       Proofs.Stats Proofs.StatsFloat Proofs.Arr2DFloat Proofs.PolyFloat Proofs.SubstFloat
                       Proofs.LUFloat Proofs.PLUFloat.
Import ListNotations.

(* ======================================================================================== *)
(* Part A — the ghost run and its invariant, for every Num instance                          *)
Section Generic.
  Context {T : Type} {NT : Num T}.

  (* the state of forward_elimination plus the multipliers used so far and the row permutation *)
  Record gstate := mkg { ga : mat T; gb : vec T; gsc : vec T; gflag : bool; gm : mat T; gp : nat -> nat }.

  Definition ghost_step (n : nat) (tol : T) (k : nat) (st : gstate) : gstate :=
    if gflag st then st else
    let p := pivot_row n (ga st) (gsc st) k in
    let '(a1, b1, s1) := partial_pivot n (ga st) (gb st) (gsc st) k in
    let m1 := if p =? k then gm st else mswap_rows (gm st) p k in
    let p1 := fun r => gp st (tau k p r) in
    if nltb (nabs (ndiv (a1 k k) (s1 k))) tol then mkg a1 b1 s1 true m1 p1
    else
      let ab := elim_below n k a1 b1 in
      mkg (retab n n (fst ab)) (vretab n (snd ab)) (vretab n s1) false
          (fun i j => if (j =? k) && (k <? i) then ndiv (a1 i k) (a1 k k) else m1 i j) p1.

  Definition ge_ghost (n : nat) (tol : T) (a : mat T) (b : vec T) : gstate :=
    for_range 0 (n - 1) (ghost_step n tol) (mkg a b (scale_vec n a) false (mconst n0) (fun r => r)).

  Definition ge_perm n tol a b : nat -> nat := gp (ge_ghost n tol a b).
  Definition ge_L n tol a b : mat T := plu_lower (gm (ge_ghost n tol a b)).
  Definition ge_W n tol a b : mat T := ga (ge_ghost n tol a b).
  Definition ge_U n tol a b : mat T := plu_upper (ga (ge_ghost n tol a b)).
  Definition ge_y n tol a b : vec T := gb (ge_ghost n tol a b).

  (* ---- the ghost run projects onto the model's run ---- *)
  Definition proj (st : gstate) : fstate := mkf (ga st) (gb st) (gsc st) (gflag st).

  Lemma proj_step n tol k st : proj (ghost_step n tol k st) = fe_step n tol k (proj st).
  Proof.
    unfold ghost_step, fe_step, proj. cbn [fflag fa fb fs].
    destruct (gflag st) eqn:Ef.
    - rewrite Ef. reflexivity.
    - cbv zeta. destruct (partial_pivot n (ga st) (gb st) (gsc st) k) as [[a1 b1] s1].
      destruct (nltb (nabs (ndiv (a1 k k) (s1 k))) tol); reflexivity.
  Qed.

  Lemma proj_loop n tol lo len st :
    proj (for_range lo len (ghost_step n tol) st) = for_range lo len (fe_step n tol) (proj st).
  Proof.
    revert lo st. induction len as [|len IH]; intros lo st; [reflexivity|].
    cbn [for_range]. rewrite IH, proj_step. reflexivity.
  Qed.

  (* ---- the inner loops in closed form ---- *)
  Lemma gelim_row_spec n k i (a : mat T) (b : vec T) : k < n -> i <> k ->
    (forall i' j', fst (elim_row n k i (a, b)) i' j' =
       if (i' =? i) && (S k <=? j') && (j' <? n)
       then nsub (a i j') (nmul (ndiv (a i k) (a k k)) (a k j')) else a i' j') /\
    (forall i', snd (elim_row n k i (a, b)) i' =
       if i' =? i then nsub (b i) (nmul (ndiv (a i k) (a k k)) (b k)) else b i').
  Proof.
    intros Hk Hik. unfold elim_row. cbv zeta. cbn [fst snd]. split.
    - set (f := ndiv (a i k) (a k k)).
      pose (P := fun (t : nat) (m : mat T) => forall i' j', m i' j' =
         if (i' =? i) && (S k <=? j') && (j' <? t) then nsub (a i j') (nmul f (a k j')) else a i' j').
      assert (HP : P (S k + (n - S k))
                (for_range (S k) (n - S k) (fun j m => mset m i j (nsub (m i j) (nmul f (m k j)))) a)).
      { apply (for_range_inv P).
        - intros i' j'. bdestr; try lia; reflexivity.
        - intros j m Hj HP i' j'. unfold mset. rewrite !HP.
          bdestr; try lia; subst; try reflexivity; try lia. }
      replace (S k + (n - S k)) with n in HP by lia. exact HP.
    - intros i'. unfold vset. reflexivity.
  Qed.

  Lemma gelim_below_spec n k (a : mat T) (b : vec T) : k < n ->
    (forall i j, fst (elim_below n k a b) i j =
       if (S k <=? i) && (i <? n) && (S k <=? j) && (j <? n)
       then nsub (a i j) (nmul (ndiv (a i k) (a k k)) (a k j)) else a i j) /\
    (forall i, snd (elim_below n k a b) i =
       if (S k <=? i) && (i <? n) then nsub (b i) (nmul (ndiv (a i k) (a k k)) (b k)) else b i).
  Proof.
    intros Hk. unfold elim_below.
    pose (P := fun (t : nat) (ab : mat T * vec T) =>
      (forall i j, fst ab i j =
         if (S k <=? i) && (i <? t) && (S k <=? j) && (j <? n)
         then nsub (a i j) (nmul (ndiv (a i k) (a k k)) (a k j)) else a i j) /\
      (forall i, snd ab i =
         if (S k <=? i) && (i <? t) then nsub (b i) (nmul (ndiv (a i k) (a k k)) (b k)) else b i)).
    assert (HP : P (S k + (n - S k)) (for_range (S k) (n - S k) (elim_row n k) (a, b))).
    { apply (for_range_inv P).
      - split; intros; cbn [fst snd]; bdestr; try lia; reflexivity.
      - intros i [m v] Hi [HA HB]. cbn [fst snd] in HA, HB.
        destruct (gelim_row_spec n k i m v Hk ltac:(lia)) as [EA EB].
        split.
        + intros i' j'. rewrite EA, !HA.
          bdestr; try lia; subst; try reflexivity; try lia.
        + intros i'. rewrite EB, !HB, !HA.
          bdestr; try lia; subst; try reflexivity; try lia. }
    replace (S k + (n - S k)) with n in HP by lia. exact HP.
  Qed.

  Lemma gpivot_row_range n (a : mat T) (s : vec T) k : k < n -> k <= pivot_row n a s k < n.
  Proof.
    intros Hk. unfold pivot_row, pivot_search.
    pose (P := fun (t : nat) (bp : T * nat) => k <= snd bp < t).
    assert (HP : P (S k + (n - S k))
      (for_range (S k) (n - S k)
         (fun ii bp => let temp := nabs (ndiv (a ii k) (s ii)) in
                       if ngtb temp (fst bp) then (temp, ii) else bp)
         (nabs (ndiv (a k k) (s k)), k))).
    { apply (for_range_inv P).
      - unfold P. cbn [snd]. lia.
      - intros ii bp Hii HP. unfold P in *. cbv zeta.
        destruct (ngtb _ _); cbn [snd]; lia. }
    unfold P in HP. lia.
  Qed.

  (* both branches of partial_pivot are the (possibly trivial) interchange of rows p and k *)
  Lemma gpartial_pivot_pt n (a : mat T) (b s : vec T) k a1 b1 s1 :
    partial_pivot n a b s k = (a1, b1, s1) ->
    (forall r c, a1 r c = a (tau k (pivot_row n a s k) r) c) /\
    (forall r, b1 r = b (tau k (pivot_row n a s k) r)).
  Proof.
    unfold partial_pivot. set (p := pivot_row n a s k).
    destruct (Nat.eqb_spec p k) as [E|E]; intro H; injection H as <- <- <-.
    - split; intros; unfold tau; rewrite E; bdestr; try reflexivity; try lia; congruence.
    - split; intros; unfold tau, mswap_rows, vswap; bdestr; reflexivity.
  Qed.

  (* ---- the invariant: after k steps, with G the multipliers and s the permutation so far ----
     live entries (c >= min r k) and right-hand side entries are chains from the permuted input,
     the multipliers are chains divided by the pivot; the stale entries c < min r k are not described *)
  Record GI (n : nat) (A : mat T) (B : vec T) (k : nat) (a : mat T) (b : vec T) (G : mat T) (s : nat -> nat) : Prop := {
    gi_a : forall r c, r < n -> c < n -> Nat.min r k <= c ->
             a r c = chain (A (s r) c) (fun t => G r t) (fun t => a t c) (Nat.min r k);
    gi_g : forall r c, r < n -> c < Nat.min r k ->
             G r c = ndiv (chain (A (s r) c) (fun t => G r t) (fun t => a t c) c) (a c c);
    gi_b : forall r, r < n -> b r = chain (B (s r)) (fun t => G r t) b (Nat.min r k);
    gi_p : perm_on n s
  }.

  Lemma GI_init n A B : GI n A B 0 A B (mconst n0) (fun r => r).
  Proof.
    constructor.
    - intros r c Hr Hc _. rewrite Nat.min_0_r. reflexivity.
    - intros r c Hr Hc. lia.
    - intros r Hr. rewrite Nat.min_0_r. reflexivity.
    - exists (fun r => r). intros r Hr. repeat split; exact Hr.
  Qed.

  Lemma GI_ext n A B k a b a' b' G s :
    (forall r c, r < n -> c < n -> a r c = a' r c) -> (forall r, r < n -> b r = b' r) ->
    GI n A B k a b G s -> GI n A B k a' b' G s.
  Proof.
    intros Ea Eb [H1 H2 H3 H4]. constructor.
    - intros r c Hr Hc Hm. rewrite <- Ea by assumption. rewrite (H1 r c Hr Hc Hm).
      apply chain_ext; intros t Ht; [reflexivity|apply Ea; lia].
    - intros r c Hr Hc. rewrite (H2 r c Hr Hc). rewrite (Ea c c) by lia. f_equal.
      apply chain_ext; intros t Ht; [reflexivity|apply Ea; lia].
    - intros r Hr. rewrite <- Eb by assumption. rewrite (H3 r Hr).
      apply chain_ext; intros t Ht; [reflexivity|apply Eb; lia].
    - exact H4.
  Qed.

  (* row interchange *)
  Lemma GI_swap n A B k p a b G s a1 b1 G1 :
    k < n -> k <= p < n ->
    (forall r c, a1 r c = a (tau k p r) c) -> (forall r, b1 r = b (tau k p r)) ->
    (forall r c, G1 r c = G (tau k p r) c) ->
    GI n A B k a b G s -> GI n A B k a1 b1 G1 (fun r => s (tau k p r)).
  Proof.
    intros Hk Hp Ea Eb EG [H1 H2 H3 [s' Hs]].
    assert (Tn : forall r, r < n -> tau k p r < n) by (intros; apply tau_lt; lia).
    assert (Tl : forall r, r < k -> tau k p r = r) by (intros; apply tau_low; lia).
    assert (Tm : forall r, Nat.min (tau k p r) k = Nat.min r k).
    { intro r. destruct (le_lt_dec k r) as [Hkr|Hkr]; [|rewrite Tl by lia; reflexivity].
      pose proof (tau_high k p r ltac:(lia) Hkr). lia. }
    constructor.
    - intros r c Hr Hc Hm. rewrite Ea. rewrite (H1 (tau k p r) c (Tn r Hr) Hc) by (rewrite Tm; exact Hm).
      rewrite Tm. apply chain_ext; intros t Ht.
      + rewrite EG. reflexivity.
      + rewrite Ea, Tl by lia. reflexivity.
    - intros r c Hr Hc. rewrite EG. rewrite (H2 (tau k p r) c (Tn r Hr)) by (rewrite Tm; exact Hc).
      rewrite (Ea c c), (Tl c) by lia. f_equal.
      apply chain_ext; intros t Ht.
      + rewrite EG. reflexivity.
      + rewrite Ea, Tl by lia. reflexivity.
    - intros r Hr. rewrite Eb. rewrite (H3 (tau k p r) (Tn r Hr)). rewrite Tm.
      apply chain_ext; intros t Ht.
      + rewrite EG. reflexivity.
      + rewrite Eb, Tl by lia. reflexivity.
    - exists (fun r => tau k p (s' r)). intros r Hr.
      destruct (Hs (tau k p r) (Tn r Hr)) as [A1 [A2 [A3 A4]]].
      destruct (Hs r Hr) as [B1 [B2 [B3 B4]]].
      split; [exact A1|]. split; [apply Tn; exact B2|]. split.
      + rewrite A3. apply tau_invol.
      + rewrite tau_invol. exact B4.
  Qed.

  (* elimination below the pivot *)
  Lemma GI_elim n A B k a1 b1 G1 s a2 b2 G2 :
    k < n ->
    (forall i j, a2 i j = if (S k <=? i) && (i <? n) && (S k <=? j) && (j <? n)
                          then nsub (a1 i j) (nmul (ndiv (a1 i k) (a1 k k)) (a1 k j)) else a1 i j) ->
    (forall i, b2 i = if (S k <=? i) && (i <? n)
                      then nsub (b1 i) (nmul (ndiv (a1 i k) (a1 k k)) (b1 k)) else b1 i) ->
    (forall i j, G2 i j = if (j =? k) && (k <? i) then ndiv (a1 i k) (a1 k k) else G1 i j) ->
    GI n A B k a1 b1 G1 s -> GI n A B (S k) a2 b2 G2 s.
  Proof.
    intros Hk Ea Eb EG [H1 H2 H3 H4].
    assert (Arow : forall r c, r <= k -> a2 r c = a1 r c).
    { intros r c Hr. rewrite Ea. bdestr; try lia; reflexivity. }
    assert (Acol : forall r c, c <= k -> a2 r c = a1 r c).
    { intros r c Hc. rewrite Ea. bdestr; try lia; reflexivity. }
    assert (Brow : forall r, r <= k -> b2 r = b1 r).
    { intros r Hr. rewrite Eb. bdestr; try lia; reflexivity. }
    assert (Gcol : forall r c, c <> k -> G2 r c = G1 r c).
    { intros r c Hc. rewrite EG. bdestr; try lia; reflexivity. }
    assert (Grow : forall r c, r <= k -> G2 r c = G1 r c).
    { intros r c Hr. rewrite EG. bdestr; try lia; reflexivity. }
    assert (Gk : forall r, k < r -> G2 r k = ndiv (a1 r k) (a1 k k)).
    { intros r Hr. rewrite EG. bdestr; try lia; reflexivity. }
    constructor.
    - intros r c Hr Hc Hm. destruct (le_lt_dec r k) as [Hrk|Hrk].
      + rewrite Arow by exact Hrk. replace (Nat.min r (S k)) with (Nat.min r k) in * by lia.
        rewrite (H1 r c Hr Hc Hm).
        apply chain_ext; intros t Ht; [rewrite Grow by lia|rewrite Arow by lia]; reflexivity.
      + replace (Nat.min r (S k)) with (S k) in * by lia. cbn [chain].
        rewrite Ea. replace ((S k <=? r) && (r <? n) && (S k <=? c) && (c <? n)) with true
          by (symmetry; bdestr; try lia; reflexivity).
        rewrite Gk by exact Hrk. rewrite (Arow k c) by lia. f_equal.
        rewrite (H1 r c Hr Hc) by lia. replace (Nat.min r k) with k by lia.
        apply chain_ext; intros t Ht; [rewrite Gcol by lia|rewrite Arow by lia]; reflexivity.
    - intros r c Hr Hc. destruct (Nat.eq_dec c k) as [->|Hne].
      + assert (Hrk : k < r) by lia. rewrite Gk by exact Hrk. rewrite (Arow k k) by lia. f_equal.
        rewrite (H1 r k Hr Hk) by lia. replace (Nat.min r k) with k by lia.
        apply chain_ext; intros t Ht; [rewrite Gcol by lia|rewrite Arow by lia]; reflexivity.
      + rewrite Gcol by exact Hne. rewrite (H2 r c Hr) by lia. rewrite (Arow c c) by lia. f_equal.
        apply chain_ext; intros t Ht; [rewrite Gcol by lia|rewrite Arow by lia]; reflexivity.
    - intros r Hr. destruct (le_lt_dec r k) as [Hrk|Hrk].
      + rewrite Brow by exact Hrk. replace (Nat.min r (S k)) with (Nat.min r k) by lia.
        rewrite (H3 r Hr).
        apply chain_ext; intros t Ht; [rewrite Grow by lia|rewrite Brow by lia]; reflexivity.
      + replace (Nat.min r (S k)) with (S k) by lia. cbn [chain].
        rewrite Eb. replace ((S k <=? r) && (r <? n)) with true by (symmetry; bdestr; try lia; reflexivity).
        rewrite Gk by exact Hrk. rewrite (Brow k) by lia. f_equal.
        rewrite (H3 r Hr). replace (Nat.min r k) with k by lia.
        apply chain_ext; intros t Ht; [rewrite Gcol by lia|rewrite Brow by lia]; reflexivity.
    - exact H4.
  Qed.

  (* the invariant is claimed for unflagged states only (a flagged state is returned as it is) *)
  Definition GS (n : nat) (A : mat T) (B : vec T) (k : nat) (st : gstate) : Prop :=
    gflag st = false -> GI n A B k (ga st) (gb st) (gm st) (gp st).

  Lemma ghost_step_GS n tol A B k st : k < n -> GS n A B k st -> GS n A B (S k) (ghost_step n tol k st).
  Proof.
    intros Hk H. unfold ghost_step.
    destruct (gflag st) eqn:Ef; [intro F; rewrite Ef in F; discriminate F|].
    specialize (H Ef). cbv zeta.
    pose proof (gpivot_row_range n (ga st) (gsc st) k Hk) as Hp.
    destruct (partial_pivot n (ga st) (gb st) (gsc st) k) as [[a1 b1] s1] eqn:EP.
    destruct (gpartial_pivot_pt n _ _ _ k a1 b1 s1 EP) as [Ea1 Eb1].
    set (p := pivot_row n (ga st) (gsc st) k) in *.
    destruct (nltb (nabs (ndiv (a1 k k) (s1 k))) tol); [intro F; discriminate F|].
    intros _. cbn [ga gb gm gp].
    destruct (gelim_below_spec n k a1 b1 Hk) as [E2a E2b].
    apply (GI_ext n A B (S k) (fst (elim_below n k a1 b1)) (snd (elim_below n k a1 b1))).
    - intros r c Hr Hc. symmetry. apply retab_spec; assumption.
    - intros r Hr. symmetry. apply vretab_spec; assumption.
    - apply (GI_elim n A B k a1 b1 (if p =? k then gm st else mswap_rows (gm st) p k)); try assumption.
      + intros i j. reflexivity.
      + apply (GI_swap n A B k p (ga st) (gb st) (gm st) (gp st)); try assumption.
        intros r c. apply gswap_tau.
  Qed.

  Lemma ge_ghost_GS n tol A B : 0 < n -> GS n A B (n - 1) (ge_ghost n tol A B).
  Proof.
    intro Hn. unfold ge_ghost.
    pose proof (for_range_inv (GS n A B) 0 (n - 1) (ghost_step n tol)
                  (mkg A B (scale_vec n A) false (mconst n0) (fun r => r))) as H.
    cbn [Nat.add] in H. apply H.
    - intros _. cbn [ga gb gm gp]. apply GI_init.
    - intros k st Hk. apply ghost_step_GS. lia.
  Qed.

  (* ---- what an accepted system says about the ghost run ---- *)
  Lemma ge_ok_ghost n (A : mat T) (b : vec T) tol x : ge n n A n b tol = Ok x ->
    0 < n /\ gflag (ge_ghost n tol A b) = false /\
    back_substitution (ge_W n tol A b) n (ge_y n tol A b) (vconst n0) = Ok x.
  Proof.
    unfold ge. rewrite Nat.eqb_refl. cbn [negb].
    destruct (Nat.eqb_spec n 0) as [E0|E0]; [discriminate|].
    destruct (has_zero n (scale_vec n A)); [discriminate|].
    cbv zeta. unfold forward_elimination.
    assert (EP : for_range 0 (n - 1) (fe_step n tol) (mkf A b (scale_vec n A) false)
                 = proj (ge_ghost n tol A b)).
    { unfold ge_ghost. rewrite proj_loop. reflexivity. }
    rewrite EP. unfold ge_W, ge_y. set (g := ge_ghost n tol A b).
    unfold proj. cbn [fflag fa fb fs].
    destruct (gflag g); [cbn [fflag]; discriminate|].
    destruct (nltb _ tol); cbn [fflag fa fb]; [discriminate|].
    intro H. split; [lia|]. split; [reflexivity|exact H].
  Qed.

  (* the recurrences satisfied by the outputs of the ghost run of an accepted system *)
  Lemma ge_ok_final n (A : mat T) (b : vec T) tol x : ge n n A n b tol = Ok x ->
    perm_on n (ge_perm n tol A b) /\
    back_substitution (ge_W n tol A b) n (ge_y n tol A b) (vconst n0) = Ok x /\
    PFinal n A (ge_perm n tol A b) (ge_L n tol A b) (ge_U n tol A b) /\
    forall r, r < n ->
      ge_y n tol A b r = chain (b (ge_perm n tol A b r)) (fun t => ge_L n tol A b r t) (ge_y n tol A b) r.
  Proof.
    intro E. destruct (ge_ok_ghost n A b tol x E) as [Hn [Hf Hb]].
    destruct (ge_ghost_GS n tol A b Hn Hf) as [H1 H2 H3 H4].
    unfold ge_perm, ge_L, ge_U, ge_y, ge_W in *. set (g := ge_ghost n tol A b) in *.
    split; [exact H4|]. split; [exact Hb|].
    assert (Llt : forall r t, t < r -> plu_lower (gm g) r t = gm g r t).
    { intros r t Ht. unfold plu_lower. bdestr; try lia; reflexivity. }
    assert (Ule : forall t c, t <= c -> plu_upper (ga g) t c = ga g t c).
    { intros t c Ht. unfold plu_upper. bdestr; try lia; reflexivity. }
    split; [constructor|].
    - intros r c Hr Hc Hrc. rewrite Ule by exact Hrc. rewrite (H1 r c Hr Hc) by lia.
      replace (Nat.min r (n - 1)) with r by lia.
      apply chain_ext; intros t Ht; [rewrite Llt by lia|rewrite Ule by lia]; reflexivity.
    - intros r c Hr Hc Hcr. unfold plu_upper. bdestr; try lia; reflexivity.
    - intros r c Hr Hc Hcr. rewrite Llt by exact Hcr. rewrite (H2 r c Hr) by lia.
      rewrite (Ule c c) by lia. f_equal.
      apply chain_ext; intros t Ht; [rewrite Llt by lia|rewrite Ule by lia]; reflexivity.
    - intros r Hr. unfold plu_lower. rewrite Nat.eqb_refl. reflexivity.
    - intros r c Hr Hc Hrc. unfold plu_lower. bdestr; try lia; reflexivity.
    - intros r Hr. rewrite (H3 r Hr) at 1. replace (Nat.min r (n - 1)) with r by lia.
      apply chain_ext; intros t Ht; [rewrite Llt by lia|]; reflexivity.
  Qed.
End Generic.

(* ======================================================================================== *)
(* Part B — binary64: the bounds that follow from the recurrences                            *)
Local Open Scope R_scope.
Local Notation pfloat := PrimFloat.float.

(* unit lower triangular L, upper triangular U satisfying the chain recurrences [PFinal] from the rows of A
   permuted by s: |L U - P A| <= ((1+eps)^n - 1) |L| |U| entry by entry (the argument of Proofs/PLUFloat.v,
   here for any pair of factors with these recurrences) *)
Lemma pfinal_float_backward_error (n : nat) (A L U : mat pfloat) (s : nat -> nat) :
  PFinal n A s L U ->
  (forall i k, (i < n)%nat -> (k < n)%nat -> plu_entry_ok (fun r c => A (s r) c) L U i k) ->
  forall i k, (i < n)%nat -> (k < n)%nat ->
    ffin (L i k) /\ ffin (U i k) /\
    Rabs (msum 0 n (fun t => FR (L i t) * FR (U t k)) - FR (A (s i) k))
    <= ((1 + feps) ^ n - 1) * msum 0 n (fun t => Rabs (FR (L i t)) * Rabs (FR (U t k))).
Proof.
  intros [I1 I2 I3 I4 I5] Hok i k Hi Hk.
  pose proof FR_zero as [Z0 ZF]. pose proof FR_one as [O1 OF].
  assert (L0 : forall t, (i < t < n)%nat -> L i t = PrimFloat.zero).
  { intros t Ht. apply (I5 i t); lia. }
  assert (U0 : forall t, (k < t < n)%nat -> U t k = PrimFloat.zero).
  { intros t Ht. apply (I2 t k); lia. }
  assert (L1 : L i i = PrimFloat.one) by (apply (I4 i); lia).
  pose (xs := fun j : nat => L i j). pose (ys := fun j : nat => U j k).
  specialize (Hok i k Hi Hk). unfold plu_entry_ok in Hok. cbv zeta in Hok. cbv beta in Hok.
  change (fun j : nat => L i j) with xs in Hok. change (fun j : nat => U j k) with ys in Hok.
  destruct (le_lt_dec i k) as [Hik|Hki].
  - rewrite (Nat.min_l i k Hik) in Hok.
    destruct Hok as [Hmul [Hf _]].
    assert (Ex : U i k = chain (A (s i) k) xs ys i) by exact (I1 i k Hi Hk Hik).
    pose proof (plu_upper_entry_float_error (A (s i) k) xs ys i n ltac:(lia) Hmul Hf) as R.
    cbv zeta in R. rewrite <- Ex in R.
    pose proof (Hf i (le_n i)) as Fu. fold (ffin (chain (A (s i) k) xs ys i)) in Fu. rewrite <- Ex in Fu.
    split; [|split; [exact Fu|]].
    + destruct (Nat.eq_dec i k) as [Eik|Hne]; [rewrite <- Eik, L1; exact OF|].
      rewrite (L0 k) by lia. exact ZF.
    + rewrite (msum_trunc (S i) n) by (try lia; intros t Ht; rewrite (L0 t) by lia; rewrite Z0; ring).
      rewrite (msum_trunc (S i) n (fun t => Rabs (FR (L i t)) * Rabs (FR (U t k))))
        by (try lia; intros t Ht; rewrite (L0 t) by lia; rewrite Z0, Rabs_R0; ring).
      cbn [msum]. rewrite Nat.add_0_l, L1, O1, Rabs_R1, !Rmult_1_l, !msum_RsumN.
      rewrite (RsumN_ext (fun t => Rabs (FR (L i t)) * Rabs (FR (U t k)))
                         (fun t => Rabs (FR (xs t) * FR (ys t))) i)
        by (intros t _; rewrite Rabs_mult; reflexivity).
      exact R.
  - rewrite (Nat.min_r i k ltac:(lia)) in Hok.
    destruct Hok as [Hmul [Hf Hdiv]]. specialize (Hdiv Hki).
    assert (Ex : L i k = PrimFloat.div (chain (A (s i) k) xs ys k) (U k k)) by exact (I3 i k Hi Hk Hki).
    destruct (plu_lower_entry_float_error (A (s i) k) xs ys k n (U k k) ltac:(lia) Hmul Hf Hdiv) as [Fl R].
    rewrite <- Ex in Fl, R.
    split; [exact Fl|]. split; [rewrite (I2 i k Hi Hk) by lia; exact ZF|].
    rewrite (msum_trunc (S k) n) by (try lia; intros t Ht; rewrite (U0 t) by lia; rewrite Z0; ring).
    rewrite (msum_trunc (S k) n (fun t => Rabs (FR (L i t)) * Rabs (FR (U t k))))
      by (try lia; intros t Ht; rewrite (U0 t) by lia; rewrite Z0, Rabs_R0; ring).
    cbn [msum]. rewrite Nat.add_0_l, !msum_RsumN.
    rewrite (RsumN_ext (fun t => Rabs (FR (L i t)) * Rabs (FR (U t k)))
                       (fun t => Rabs (FR (xs t) * FR (ys t))) k)
      by (intros t _; rewrite Rabs_mult; reflexivity).
    rewrite <- Rabs_mult. exact R.
Qed.

(* hypotheses on the computation of entry i of the right-hand side: the chain of i updates from
   Pb i = b (s i) with the multipliers of row i and the final right-hand side y; no division *)
Definition ge_rhs_ok (Pb : vec PrimFloat.float) (L : mat PrimFloat.float) (y : vec PrimFloat.float) (i : nat) : Prop :=
  let r := fun t => chain (Pb i) (fun j => L i j) y t in
  (forall j, (j < i)%nat -> okmul (L i j) (y j)) /\
  (forall t, (t <= i)%nat -> is_finite (Prim2B (r t)) = true).

(* the right-hand side is one more column: | L y - P b | <= ((1+eps)^n - 1) |L| |y| *)
Lemma rhs_float_backward_error (n : nat) (b y : vec pfloat) (L : mat pfloat) (s : nat -> nat) :
  (forall r, (r < n)%nat -> L r r = PrimFloat.one) ->
  (forall r c, (r < n)%nat -> (c < n)%nat -> (r < c)%nat -> L r c = PrimFloat.zero) ->
  (forall r, (r < n)%nat -> y r = chain (b (s r)) (fun t => L r t) y r) ->
  (forall i, (i < n)%nat -> ge_rhs_ok (fun r => b (s r)) L y i) ->
  forall i, (i < n)%nat ->
    ffin (y i) /\
    Rabs (msum 0 n (fun t => FR (L i t) * FR (y t)) - FR (b (s i)))
    <= ((1 + feps) ^ n - 1) * msum 0 n (fun t => Rabs (FR (L i t)) * Rabs (FR (y t))).
Proof.
  intros I4 I5 Iy Hok i Hi.
  pose proof FR_zero as [Z0 ZF]. pose proof FR_one as [O1 OF].
  assert (L0 : forall t, (i < t < n)%nat -> L i t = PrimFloat.zero).
  { intros t Ht. apply (I5 i t); lia. }
  pose proof (I4 i Hi) as L1.
  pose (xs := fun j : nat => L i j).
  specialize (Hok i Hi). unfold ge_rhs_ok in Hok. cbv zeta in Hok. cbv beta in Hok.
  change (fun j : nat => L i j) with xs in Hok.
  destruct Hok as [Hmul Hf].
  assert (Ex : y i = chain (b (s i)) xs y i) by exact (Iy i Hi).
  pose proof (plu_upper_entry_float_error (b (s i)) xs y i n ltac:(lia) Hmul Hf) as R.
  cbv zeta in R. rewrite <- Ex in R.
  pose proof (Hf i (le_n i)) as Fu. fold (ffin (chain (b (s i)) xs y i)) in Fu. rewrite <- Ex in Fu.
  split; [exact Fu|].
  rewrite (msum_trunc (S i) n) by (try lia; intros t Ht; rewrite (L0 t) by lia; rewrite Z0; ring).
  rewrite (msum_trunc (S i) n (fun t => Rabs (FR (L i t)) * Rabs (FR (y t))))
    by (try lia; intros t Ht; rewrite (L0 t) by lia; rewrite Z0, Rabs_R0; ring).
  cbn [msum]. rewrite Nat.add_0_l, L1, O1, Rabs_R1, !Rmult_1_l, !msum_RsumN.
  rewrite (RsumN_ext (fun t => Rabs (FR (L i t)) * Rabs (FR (y t)))
                     (fun t => Rabs (FR (xs t) * FR (y t))) i)
    by (intros t _; rewrite Rabs_mult; reflexivity).
  exact R.
Qed.

(* ======================================================================================== *)
(* Part C — Gaussian elimination                                                             *)
Theorem ge_float_backward_error : forall (n : nat) (A : mat PrimFloat.float) (b : vec PrimFloat.float)
                                         (tol : PrimFloat.float) (x : vec PrimFloat.float),
  ge n n A n b tol = Ok x ->
  let s := ge_perm n tol A b in
  let L := ge_L n tol A b in
  let U := ge_U n tol A b in
  let y := ge_y n tol A b in
  perm_on n s /\
  back_substitution (ge_W n tol A b) n y (vconst n0) = Ok x /\
  (forall i k, (i <= k)%nat -> U i k = ge_W n tol A b i k) /\
  ((forall i k, (i < n)%nat -> (k < n)%nat -> plu_entry_ok (fun r c => A (s r) c) L U i k) ->
   forall i k, (i < n)%nat -> (k < n)%nat ->
     is_finite (Prim2B (L i k)) = true /\ is_finite (Prim2B (U i k)) = true /\
     Rabs (mprod n (fun r c => B2R (Prim2B (L r c))) (fun r c => B2R (Prim2B (U r c))) i k
           - B2R (Prim2B (A (s i) k)))
     <= ((1 + bpow radix2 (-53)) ^ n - 1)
        * mprod n (fun r c => Rabs (B2R (Prim2B (L r c)))) (fun r c => Rabs (B2R (Prim2B (U r c)))) i k) /\
  ((forall i, (i < n)%nat -> ge_rhs_ok (fun r => b (s r)) L y i) ->
   forall i, (i < n)%nat ->
     is_finite (Prim2B (y i)) = true /\
     Rabs (msum 0 n (fun t => B2R (Prim2B (L i t)) * B2R (Prim2B (y t))) - B2R (Prim2B (b (s i))))
     <= ((1 + bpow radix2 (-53)) ^ n - 1)
        * msum 0 n (fun t => Rabs (B2R (Prim2B (L i t))) * Rabs (B2R (Prim2B (y t))))).
Proof.
  intros n A b tol x E. cbv zeta.
  destruct (ge_ok_final n A b tol x E) as [Hp [Hb [HF Hy]]].
  split; [exact Hp|]. split; [exact Hb|]. split; [|split].
  - intros i k Hik. unfold ge_U, ge_W, plu_upper. destruct (Nat.leb_spec i k); [reflexivity|lia].
  - intros Hok i k Hi Hk.
    exact (pfinal_float_backward_error n A _ _ _ HF Hok i k Hi Hk).
  - intros Hok i Hi.
    destruct HF as [_ _ _ I4 I5].
    exact (rhs_float_backward_error n b _ _ _ I4 I5 Hy Hok i Hi).
Qed.

(* ---- non-vacuity: A = [[1,2,3],[4,5,6],[7,8,10]], b = [1,2,3], tol = 1e-12: scaled pivoting interchanges
   rows twice (P A = rows 2, 0, 1 of A); the multipliers 1/7, 4/7, 1/2 are inexact ---- *)
Definition ex_ge_a : mat PrimFloat.float :=
  mat_of_lists [[0x1p+0; 0x1p+1; 0x1.8p+1]; [0x1p+2; 0x1.4p+2; 0x1.8p+2]; [0x1.cp+2; 0x1p+3; 0x1.4p+3]]%float.
Definition ex_ge_b : vec PrimFloat.float := vec_of_list [0x1p+0; 0x1p+1; 0x1.8p+1]%float.
Definition ex_ge_tol : PrimFloat.float := 0x1.19799812dea11p-40%float.

Example ex_ge_float_hyps :
  (exists x, ge 3 3 ex_ge_a 3 ex_ge_b ex_ge_tol = Ok x) /\
  (forall i, (i < 3)%nat -> ge_perm 3 ex_ge_tol ex_ge_a ex_ge_b i = match i with 0 => 2 | 1 => 0 | _ => 1 end%nat) /\
  (forall i k, (i < 3)%nat -> (k < 3)%nat ->
     plu_entry_ok (fun r c => ex_ge_a (ge_perm 3 ex_ge_tol ex_ge_a ex_ge_b r) c)
                  (ge_L 3 ex_ge_tol ex_ge_a ex_ge_b) (ge_U 3 ex_ge_tol ex_ge_a ex_ge_b) i k) /\
  (forall i, (i < 3)%nat ->
     ge_rhs_ok (fun r => ex_ge_b (ge_perm 3 ex_ge_tol ex_ge_a ex_ge_b r))
               (ge_L 3 ex_ge_tol ex_ge_a ex_ge_b) (ge_y 3 ex_ge_tol ex_ge_a ex_ge_b) i).
Proof.
  split; [eexists; vm_compute; reflexivity|]. split; [|split].
  - intros i Hi. destruct i as [|[|[|i]]]; try lia; vm_compute; reflexivity.
  - intros i k Hi Hk.
    destruct i as [|[|[|i]]]; try lia; destruct k as [|[|[|k]]]; try lia;
    unfold plu_entry_ok; cbn [Nat.min]; cbv zeta;
    (split; [intros j Hj; destruct j as [|[|j]]; try lia; okmul_compute|]; split;
     [intros t Ht; destruct t as [|[|[|t]]]; try lia; fin_compute|intros Hlt; try lia; okdiv_compute]).
  - intros i Hi.
    destruct i as [|[|[|i]]]; try lia; unfold ge_rhs_ok; cbv zeta;
    (split; [intros j Hj; destruct j as [|[|j]]; try lia; okmul_compute
            |intros t Ht; destruct t as [|[|[|t]]]; try lia; fin_compute]).
Qed.
