(* Proofs/InterParse.v — whole-string theorems about the multivariate parser
   [parse_inter] of Model/Parse.v against the documented language of
   Model/GrammarI.v (term-level lemmas and the evaluator: Proofs/InterTerm.v).

     accept_canonical        every rendering of a well-formed source is accepted
                             with its conventional value, in canonical form
     inter_total             (C16) no string makes the parser panic
     inter_accepts_only_grammar (C16) whatever is accepted IS a rendering of a
                             well-formed source and is read with its conventional
                             value: nothing is skipped, nothing is misread          *)
From Coq Require Import ZArith NArith List Bool Lia Sorting.Sorted.
From SV Require Import Base.Num Base.Outcome Base.Str Model.Poly Model.Parse Model.GrammarI
  Proofs.StrLemmasI Proofs.InterCanon Proofs.InterTerm.
Import ListNotations.

(* ============================================================================ *)
(*  the sign-protection rewrite                                                  *)
(* ============================================================================ *)
(* [clean prev s]: every '-' of s stands directly after a '^' (prev = the text
   before s ends in '^'), and s does not end in '^' *)
Fixpoint clean (prev : bool) (s : str) : bool :=
  match s with
  | [] => negb prev
  | c :: s' => (if N.eqb c c_minus then prev else true) && clean (N.eqb c c_caret) s'
  end.

Lemma protect_clean a : forall prev b, clean prev a = true ->
  protect_minus prev (a ++ b) = a ++ protect_minus false b.
Proof.
  induction a as [|c a IH]; intros prev b H.
  - cbn in H. destruct prev; [discriminate|reflexivity].
  - cbn [clean] in H. apply andb_prop in H as [H1 H2]. cbn [app protect_minus].
    destruct (N.eqb_spec c c_minus) as [->|Hn].
    + rewrite H1. change (N.eqb c_minus c_caret) with false in H2.
      rewrite (IH false b H2). reflexivity.
    + rewrite (IH _ b H2). reflexivity.
Qed.

Definition plain (c : N) : bool := negb (N.eqb c c_minus) && negb (N.eqb c c_caret).

Lemma clean_plain a : forall b, forallb plain a = true -> clean false (a ++ b) = clean false b.
Proof.
  induction a as [|c a IH]; intros b H; [reflexivity|].
  cbn in H. apply andb_prop in H as [Hc Ha]. unfold plain in Hc. apply andb_prop in Hc as [H1 H2].
  cbn [app clean]. destruct (N.eqb c c_minus); [discriminate|]. destruct (N.eqb c c_caret); [discriminate|].
  apply IH. exact Ha.
Qed.
Lemma clean_plain_true a b : forallb plain a = true -> a <> [] -> clean true (a ++ b) = clean false b.
Proof.
  destruct a as [|c a]; [congruence|]. intros H _.
  cbn in H. apply andb_prop in H as [Hc Ha]. unfold plain in Hc. apply andb_prop in Hc as [H1 H2].
  cbn [app clean]. destruct (N.eqb c c_minus); [discriminate|]. destruct (N.eqb c c_caret); [discriminate|].
  apply clean_plain. exact Ha.
Qed.

Lemma numch_plain s : forallb numch s = true -> forallb plain s = true.
Proof.
  apply forallb_impl. intros x H. unfold plain.
  destruct (N.eqb_spec x c_minus) as [->|_]; [discriminate H|].
  destruct (N.eqb_spec x c_caret) as [->|_]; [discriminate H|]. reflexivity.
Qed.
Lemma decch_numch s : forallb decch s = true -> forallb numch s = true.
Proof. apply forallb_impl. intros x H. unfold numch. rewrite H. reflexivity. Qed.
Lemma numch_tch s : forallb numch s = true -> forallb tch s = true.
Proof. apply forallb_impl. intros x H. unfold tch. rewrite H. reflexivity. Qed.
Lemma tch_lacks s c : forallb tch s = true -> tch c = false -> lacks c s = true.
Proof.
  intros H Hc. unfold lacks. revert H. apply forallb_impl. intros x Hx.
  destruct (N.eqb_spec x c) as [->|_]; [congruence|reflexivity].
Qed.

Section Whole.
  Context {T : Type} {NT : Num T}.

  Lemma frac_numch neg a b : @wf_frac T NT neg a b = true ->
    forallb numch (render_dec a ++ c_slash :: render_dec b) = true.
  Proof.
    intros H. apply wf_frac_parts in H as (Ha & Hb & _). rewrite forallb_app. cbn [forallb].
    rewrite (decch_numch _ (render_dec_decch a Ha)), (decch_numch _ (render_dec_decch b Hb)). reflexivity.
  Qed.
  Lemma render_coef_numch neg oc : @wf_ocoef T NT neg oc = true -> forallb numch (render_coef oc) = true.
  Proof.
    destruct oc as [[d|a b]|]; cbn [wf_ocoef wf_coef render_coef]; intros H.
    - apply andb_prop in H as [H _]. apply decch_numch, render_dec_decch, H.
    - apply (frac_numch neg), H.
    - reflexivity.
  Qed.
  Lemma render_emag_numch neg m : @wf_expo T NT (neg, m) = true ->
    forallb numch (render_emag m) = true /\ render_emag m <> [].
  Proof.
    unfold wf_expo. cbn [fst snd]. destruct m as [d|a b]; cbn [render_emag]; intros H.
    - apply andb_prop in H as [H _]. split; [apply decch_numch, render_dec_decch, H|].
      destruct (render_dec_head d H) as (c & r & E & _). rewrite E. discriminate.
    - split; [apply (frac_numch neg), H|]. destruct (render_dec a); discriminate.
  Qed.

  Lemma wf_var_parts l oe : @wf_var T NT (l, oe) = true ->
    is_ascii_letter l = true /\ match oe with None => True | Some e => @wf_expo T NT e = true end.
  Proof.
    unfold wf_var. cbn [fst snd]. intros H. apply andb_prop in H as [H1 H2]. split; [exact H1|].
    destruct oe; [exact H2|exact I].
  Qed.

  Lemma letter_plain l : is_ascii_letter l = true -> N.eqb l c_minus = false /\ N.eqb l c_caret = false.
  Proof. intros H. rewrite !(letter_not l _ H) by cclia. split; reflexivity. Qed.

  Lemma render_vars_clean vs : forall b, forallb (@wf_var T NT) vs = true ->
    clean false (render_vars vs ++ b) = clean false b.
  Proof.
    induction vs as [|[l oe] vs IH]; intros b H; [reflexivity|].
    cbn [forallb] in H. apply andb_prop in H as [Hv Hw]. apply wf_var_parts in Hv as [Hl He].
    rewrite render_vars_cons. cbn [app clean]. destruct (letter_plain l Hl) as [E1 E2]. rewrite E1, E2.
    cbn [andb]. rewrite <- app_assoc. destruct oe as [[neg m]|].
    - destruct (render_emag_numch neg m He) as [Hm Hne].
      cbn [app clean]. change (N.eqb c_caret c_minus) with false. change (N.eqb c_caret c_caret) with true.
      cbn [andb]. unfold render_expo. cbn [fst snd]. rewrite <- !app_assoc.
      destruct neg; cbn [sign_str app].
      + cbn [clean]. change (N.eqb c_minus c_minus) with true. change (N.eqb c_minus c_caret) with false.
        cbn [andb]. rewrite (clean_plain _ _ (numch_plain _ Hm)). apply IH. exact Hw.
      + rewrite (clean_plain_true _ _ (numch_plain _ Hm) Hne). apply IH. exact Hw.
    - cbn [app]. apply IH. exact Hw.
  Qed.

  Lemma render_term_clean x : @wf_term T NT x = true -> clean false (render_term (snd x)) = true.
  Proof.
    intros H. apply wf_term_parts in H as (Hc & Hv & _). unfold render_term.
    rewrite (clean_plain _ _ (numch_plain _ (render_coef_numch _ _ Hc))).
    rewrite <- (app_nil_r (render_vars (snd (snd x)))), (render_vars_clean _ [] Hv). reflexivity.
  Qed.

  Lemma render_vars_tch vs : forallb (@wf_var T NT) vs = true -> forallb tch (render_vars vs) = true.
  Proof.
    intros H. unfold render_vars. apply forallb_flat_map. intros [l oe] Hin.
    rewrite forallb_forall in H. apply H, wf_var_parts in Hin as [Hl He].
    unfold render_var. cbn [fst snd forallb]. unfold tch at 1. rewrite Hl, !orb_true_r. cbn [andb].
    destruct oe as [[neg m]|]; [|reflexivity].
    destruct (render_emag_numch neg m He) as [Hm _].
    cbn [forallb]. unfold render_expo. cbn [fst snd]. rewrite forallb_app, (numch_tch _ Hm).
    destruct neg; reflexivity.
  Qed.

  Lemma render_term_tch x : @wf_term T NT x = true -> forallb tch (render_term (snd x)) = true.
  Proof.
    intros H. apply wf_term_parts in H as (Hc & Hv & _). unfold render_term.
    rewrite forallb_app, (numch_tch _ (render_coef_numch _ _ Hc)), (render_vars_tch _ Hv). reflexivity.
  Qed.

  Lemma render_signed_tch x : @wf_term T NT x = true -> forallb tch (render_signed x) = true.
  Proof.
    intros H. unfold render_signed. rewrite forallb_app, (render_term_tch _ H).
    destruct (fst x); reflexivity.
  Qed.

  (* first character of a term: a digit, '.', or a letter — never '-' *)
  Lemma render_term_head x : @wf_term T NT x = true ->
    exists c r, render_term (snd x) = c :: r /\ N.eqb c c_minus = false.
  Proof.
    intros H. apply wf_term_parts in H as (Hc & Hv & Hne & _). unfold render_term.
    destruct x as [neg [oc vs]]. cbn [fst snd] in *.
    destruct oc as [[d|a b]|]; cbn [render_coef wf_ocoef wf_coef] in *.
    - apply andb_prop in Hc as [Hc _].
      destruct (render_dec_head d Hc) as (c & r & E & Hd). rewrite E. cbn [app].
      eexists _, _. split; [reflexivity|]. exact (decch_not c c_minus Hd eq_refl).
    - apply wf_frac_parts in Hc as (Ha & _).
      destruct (render_dec_head a Ha) as (c & r & E & Hd). rewrite E. cbn [app].
      eexists _, _. split; [reflexivity|]. exact (decch_not c c_minus Hd eq_refl).
    - destruct vs as [|[l oe] vs]; [destruct Hne; congruence|].
      cbn [forallb] in Hv. apply andb_prop in Hv as [Hv _]. apply wf_var_parts in Hv as [Hl _].
      rewrite render_vars_cons. cbn [app]. eexists _, _. split; [reflexivity|].
      exact (proj1 (letter_plain l Hl)).
  Qed.

  Lemma render_signed_good x : @wf_term T NT x = true -> bad_part (render_signed x) = false.
  Proof.
    intros H. destruct (render_term_head _ H) as (c & r & E & Hc). unfold render_signed. rewrite E.
    destruct (fst x); cbn [sign_str app bad_part].
    - reflexivity.
    - destruct r; [exact Hc|reflexivity].
  Qed.

  (* ---- normal form of a rendering after the rewrite --------------------------- *)
  Definition render_tail (rest : msrc) : str :=
    flat_map (fun x : bool * mterm => (if fst x then c_minus else c_plus) :: render_term (snd x)) rest.
  Lemma render_cons lead n t rest : render lead ((n, t) :: rest) =
    (if n then [c_minus] else if lead then [c_plus] else []) ++ render_term t ++ render_tail rest.
  Proof. reflexivity. Qed.

  Lemma protect_tail rest : @wf_src T NT rest = true ->
    protect_minus false (render_tail rest) = flat_map (fun q => c_plus :: q) (map render_signed rest).
  Proof.
    induction rest as [|[n t] rest IH]; intros H; [reflexivity|].
    cbn [wf_src forallb] in H. apply andb_prop in H as [Ht Hr].
    pose proof (render_term_clean (n, t) Ht) as Hcl. cbn [snd] in Hcl.
    cbn [render_tail flat_map map fst snd]. fold (render_tail rest).
    unfold render_signed at 1. cbn [fst snd].
    destruct n; cbn [sign_str app protect_minus].
    - change (N.eqb c_minus c_minus) with true. cbn iota. cbn [app].
      rewrite (protect_clean _ false _ Hcl), (IH Hr). reflexivity.
    - change (N.eqb c_plus c_minus) with false. cbn iota. change (N.eqb c_plus c_caret) with false.
      rewrite (protect_clean _ false _ Hcl), (IH Hr). reflexivity.
  Qed.

  Lemma join_flat c ps : forall p, join c (p :: ps) = p ++ flat_map (fun q => c :: q) ps.
  Proof.
    induction ps as [|q ps IH]; intros p.
    - cbn. rewrite app_nil_r. reflexivity.
    - rewrite join_cons2, IH. reflexivity.
  Qed.

  Definition lead_plus (lead : bool) (src : msrc) : bool :=
    match src with [] => false | (n, _) :: _ => n || lead end.

  Lemma protect_render lead src : @wf_src T NT src = true ->
    protect_minus false (render lead src)
    = (if lead_plus lead src then [c_plus] else []) ++ join c_plus (map render_signed src).
  Proof.
    destruct src as [|[n t] rest]; intros H; [reflexivity|].
    cbn [wf_src forallb] in H. apply andb_prop in H as [Ht Hr].
    pose proof (render_term_clean (n, t) Ht) as Hcl. cbn [snd] in Hcl.
    rewrite render_cons. cbn [map lead_plus]. rewrite join_flat.
    unfold render_signed at 1. cbn [fst snd].
    destruct n; [|destruct lead]; cbn [orb sign_str app protect_minus].
    - change (N.eqb c_minus c_minus) with true. cbn iota. cbn [app].
      rewrite (protect_clean _ false _ Hcl), (protect_tail rest Hr). reflexivity.
    - change (N.eqb c_plus c_minus) with false. cbn iota. change (N.eqb c_plus c_caret) with false.
      rewrite (protect_clean _ false _ Hcl), (protect_tail rest Hr). reflexivity.
    - rewrite (protect_clean _ false _ Hcl), (protect_tail rest Hr). reflexivity.
  Qed.

  Lemma wf_src_Forall src : @wf_src T NT src = true <-> Forall (fun x => @wf_term T NT x = true) src.
  Proof. unfold wf_src. rewrite forallb_forall, Forall_forall. reflexivity. Qed.

  Lemma parts_of_normal (b : bool) src : @wf_src T NT src = true -> (src = [] -> b = false) ->
    drop_leading_empty (split_on c_plus ((if b then [c_plus] else []) ++ join c_plus (map render_signed src)))
    = map render_signed src.
  Proof.
    intros H Hb. destruct src as [|x src].
    - rewrite (Hb eq_refl). reflexivity.
    - assert (HF : Forall (fun p => lacks c_plus p = true) (map render_signed (x :: src))).
      { apply wf_src_Forall in H. rewrite Forall_forall in H |- *. intros p Hp.
        apply in_map_iff in Hp as [y [<- Hy]]. apply tch_lacks; [|reflexivity].
        apply render_signed_tch, H, Hy. }
      assert (Hne : map render_signed (x :: src) <> []) by discriminate.
      destruct b.
      + change ([c_plus] ++ ?z) with ([] ++ c_plus :: z).
        rewrite split_on_app by reflexivity. rewrite (split_join _ _ Hne HF). reflexivity.
      + cbn [app]. rewrite (split_join _ _ Hne HF). cbn [map].
        cbn [wf_src forallb] in H. apply andb_prop in H as [Hx _].
        destruct (render_term_head _ Hx) as (c & r & E & _). unfold render_signed. rewrite E.
        destruct (fst x); reflexivity.
  Qed.

  Lemma mapM_map_ok {A B C} (f : B -> res C) (g : A -> B) (h : A -> C) l :
    (forall x, In x l -> f (g x) = Ok (h x)) -> mapM f (map g l) = Ok (map h l).
  Proof.
    induction l as [|x l IH]; intros H; [reflexivity|].
    cbn [map mapM]. rewrite (H x (or_introl eq_refl)). cbn [bind].
    rewrite IH by (intros y Hy; apply H; right; exact Hy). reflexivity.
  Qed.

  Lemma render_lacks_at lead src : @wf_src T NT src = true -> lacks c_at (render lead src) = true.
  Proof.
    destruct src as [|[n t] rest]; intros H; [reflexivity|].
    cbn [wf_src forallb] in H. apply andb_prop in H as [Ht Hr].
    pose proof (render_term_tch (n, t) Ht) as Htc. cbn [snd] in Htc.
    rewrite render_cons, !lacks_app. rewrite (tch_lacks _ c_at Htc eq_refl).
    replace (lacks c_at (render_tail rest)) with true.
    - destruct n; [|destruct lead]; reflexivity.
    - symmetry. unfold lacks, render_tail. apply forallb_flat_map. intros x Hx.
      apply wf_src_Forall in Hr. rewrite Forall_forall in Hr.
      cbn [forallb]. fold (lacks c_at (render_term (snd x))).
      rewrite (tch_lacks _ c_at (render_term_tch _ (Hr x Hx)) eq_refl). destruct (fst x); reflexivity.
  Qed.

  (* ============================== C02: acceptance ============================== *)
  Theorem inter_total : forall (U : UClass) (s : str), no_panic (@parse_inter T NT U s).
  Proof. exact parse_inter_no_panic. Qed.

  Theorem accept_canonical : forall (U : UClass) (src : msrc) (lead : bool) (s : str),
    uclass_num_ok U -> @wf_src T NT src = true -> strip_ws s = render lead src ->
    parse_inter U s = Ok {| i_terms := @terms_of T NT src; i_vars := vars_of src |}.
  Proof.
    intros U src lead s HU Hw Hs. unfold parse_inter.
    rewrite <- (contains_strip c_at s eq_refl), Hs, contains_lacks, (render_lacks_at lead src Hw).
    cbn [negb]. rewrite (protect_render lead src Hw).
    rewrite parts_of_normal; [|exact Hw|intros ->; reflexivity].
    assert (Eb : existsb bad_part (map render_signed src) = false).
    { apply wf_src_Forall in Hw. rewrite Forall_forall in Hw.
      destruct (existsb bad_part (map render_signed src)) eqn:E; [|reflexivity].
      apply existsb_exists in E as [p [Hp Hb]]. apply in_map_iff in Hp as [x [<- Hx]].
      rewrite (render_signed_good x (Hw x Hx)) in Hb. discriminate. }
    rewrite Eb.
    rewrite (mapM_map_ok (inter_term U) render_signed (@term_of T NT) src).
    - fold (@terms_of T NT src). rewrite var_set_terms_of. reflexivity.
    - intros x Hx. apply wf_src_Forall in Hw. rewrite Forall_forall in Hw.
      apply inter_term_render; [exact HU|exact (Hw x Hx)].
  Qed.

  (* ---- canonical form: what "sorted" and "the set of variables" mean ------------ *)
  Lemma single_sorted ls : ssN ls -> StronglySorted name_lt (map single ls).
  Proof.
    induction ls as [|a ls IH]; intros H; [constructor|].
    apply StronglySorted_inv in H as [Hs Hf]. cbn [map]. constructor; [exact (IH Hs)|].
    rewrite Forall_forall in Hf |- *. intros v Hv. apply in_map_iff in Hv as [b [<- Hb]].
    specialize (Hf b Hb). unfold name_lt, single. rewrite name_leb_single, name_eqb_single.
    split; [apply N.leb_le; lia|apply N.eqb_neq; lia].
  Qed.

  Theorem term_vars_sorted : forall x : bool * mterm,
    StronglySorted name_lt (map fst (t_vars (@term_of T NT x))) /\
    (forall v, In v (map fst (t_vars (@term_of T NT x))) <-> exists l, In l (map fst (snd (snd x))) /\ v = [l]).
  Proof.
    intros x. unfold term_of. cbn [t_vars]. rewrite canon_vars_keys, map_map. split.
    - apply single_sorted, letter_set_sorted.
    - intros v. rewrite in_map_iff. split.
      + intros [l [<- Hl]]. rewrite letter_set_In in Hl. exists l. split; [exact Hl|reflexivity].
      + intros [l [Hl ->]]. exists l. split; [reflexivity|]. rewrite letter_set_In. exact Hl.
  Qed.

  Theorem vars_sorted_set : forall src : msrc,
    StronglySorted name_lt (vars_of src) /\
    (forall v, In v (vars_of src) <-> exists l, In l (letters_of src) /\ v = [l]).
  Proof.
    intros src. unfold vars_of. split.
    - apply (single_sorted (letter_set (letters_of src))), letter_set_sorted.
    - intros v. rewrite in_map_iff. split.
      + intros [l [<- Hl]]. rewrite letter_set_In in Hl. exists l. split; [exact Hl|reflexivity].
      + intros [l [Hl ->]]. exists l. split; [reflexivity|]. rewrite letter_set_In. exact Hl.
  Qed.
End Whole.

(* ============================================================================ *)
(*  the converse: whatever is accepted is a rendering, read conventionally        *)
(* ============================================================================ *)
(* [minus_ok prev s]: every '-' of s is first (prev) or stands directly after '^' *)
Fixpoint minus_ok (prev : bool) (s : str) : bool :=
  match s with
  | [] => true
  | c :: s' => (if N.eqb c c_minus then prev else true) && minus_ok (N.eqb c c_caret) s'
  end.
(* the same before splitting at '+': a '-' stands after '^' or after '+' *)
Fixpoint pm_ok (prev : bool) (s : str) : bool :=
  match s with
  | [] => true
  | c :: s' => (if N.eqb c c_minus then prev else true) && pm_ok (N.eqb c c_caret || N.eqb c c_plus) s'
  end.

Lemma minus_ok_weaken b s : minus_ok b s = true -> minus_ok true s = true.
Proof.
  destruct s as [|c s]; cbn; [auto|].
  destruct (N.eqb c c_minus), b; cbn; intros H; try exact H; discriminate.
Qed.
Lemma pm_ok_weaken b s : pm_ok b s = true -> pm_ok true s = true.
Proof.
  destruct s as [|c s]; cbn; [auto|].
  destruct (N.eqb c c_minus), b; cbn; intros H; try exact H; discriminate.
Qed.

Lemma minus_ok_app_l a : forall b r, minus_ok b (a ++ r) = true -> minus_ok b a = true.
Proof.
  induction a as [|c a IH]; intros b r H; [reflexivity|].
  cbn [app minus_ok] in H |- *. apply andb_prop in H as [H1 H2]. rewrite H1, (IH _ _ H2). reflexivity.
Qed.
Lemma minus_ok_app_r a : forall b r, minus_ok b (a ++ r) = true -> minus_ok true r = true.
Proof.
  induction a as [|c a IH]; intros b r H; [exact (minus_ok_weaken b r H)|].
  cbn [app minus_ok] in H. apply andb_prop in H as [_ H2]. exact (IH _ _ H2).
Qed.
Lemma minus_ok_mid a : forall p c b, minus_ok p (a ++ c :: c_minus :: b) = true -> N.eqb c c_caret = true.
Proof.
  induction a as [|x a IH]; intros p c b H.
  - cbn [app minus_ok] in H. apply andb_prop in H as [_ H]. apply andb_prop in H as [H _].
    change (N.eqb c_minus c_minus) with true in H. exact H.
  - cbn [app minus_ok] in H. apply andb_prop in H as [_ H]. exact (IH _ _ _ H).
Qed.

Lemma protect_pm_ok s : forall prev, pm_ok prev (protect_minus prev s) = true.
Proof.
  induction s as [|c s IH]; intros prev; [reflexivity|].
  cbn [protect_minus]. destruct (N.eqb_spec c c_minus) as [->|Hn].
  - destruct prev; cbn [app pm_ok].
    + change (N.eqb c_minus c_minus) with true. change (N.eqb c_minus c_caret || N.eqb c_minus c_plus) with false.
      rewrite IH. reflexivity.
    + change (N.eqb c_plus c_minus) with false. change (N.eqb c_plus c_caret || N.eqb c_plus c_plus) with true.
      change (N.eqb c_minus c_minus) with true. change (N.eqb c_minus c_caret || N.eqb c_minus c_plus) with false.
      rewrite IH. reflexivity.
  - cbn [pm_ok]. destruct (N.eqb_spec c c_minus) as [E|_]; [contradiction|]. cbn [andb].
    specialize (IH (N.eqb c c_caret)). destruct (N.eqb c c_caret); cbn [orb].
    + exact IH.
    + destruct (N.eqb c c_plus); [exact (pm_ok_weaken _ _ IH)|exact IH].
Qed.

Lemma split_minus_ok s : forall b, pm_ok b s = true ->
  exists p ps, split_on c_plus s = p :: ps /\ minus_ok b p = true /\
               Forall (fun q => minus_ok true q = true) ps.
Proof.
  induction s as [|c s IH]; intros b H.
  - exists [], []. repeat split. constructor.
  - cbn [pm_ok] in H. apply andb_prop in H as [H1 H2].
    destruct (IH _ H2) as (p & ps & E & Hp & Hps). cbn [split_on]. rewrite E.
    destruct (N.eqb_spec c c_plus) as [->|Hn].
    + exists [], (p :: ps). split; [reflexivity|]. split; [reflexivity|].
      constructor; [|exact Hps]. change (N.eqb c_plus c_caret || N.eqb c_plus c_plus) with true in Hp. exact Hp.
    + exists (c :: p), ps. split; [reflexivity|]. split; [|exact Hps].
      cbn [minus_ok]. rewrite H1. rewrite orb_false_r in Hp. exact Hp.
Qed.

Lemma protect_false_head s c r : protect_minus false s = c :: r -> N.eqb c c_minus = false.
Proof.
  destruct s as [|x s]; cbn [protect_minus]; [discriminate|].
  destruct (N.eqb_spec x c_minus) as [->|Hn]; cbn [app]; intros H; injection H as <- _.
  - reflexivity.
  - apply N.eqb_neq. exact Hn.
Qed.
Lemma protect_nil b s : protect_minus b s = [] -> s = [].
Proof.
  destruct s as [|x s]; [reflexivity|]. cbn [protect_minus].
  destruct (N.eqb x c_minus); [destruct b|]; discriminate.
Qed.

Lemma protect_inj s1 : forall b s2, protect_minus b s1 = protect_minus b s2 -> s1 = s2.
Proof.
  induction s1 as [|c1 s1 IH]; intros b s2 H.
  - symmetry. apply (protect_nil b). symmetry. exact H.
  - destruct s2 as [|c2 s2]; [apply (protect_nil b) in H; discriminate|].
    cbn [protect_minus] in H.
    destruct (N.eqb_spec c1 c_minus) as [->|H1], (N.eqb_spec c2 c_minus) as [->|H2].
    + destruct b; cbn [app] in H; injection H as H; f_equal; exact (IH _ _ H).
    + exfalso. destruct b; cbn [app] in H.
      * injection H as E _. congruence.
      * injection H as E H. subst c2. change (N.eqb c_plus c_caret) with false in H.
        symmetry in H. apply protect_false_head in H. discriminate.
    + exfalso. destruct b; cbn [app] in H.
      * injection H as E _. congruence.
      * injection H as E H. subst c1. change (N.eqb c_plus c_caret) with false in H.
        apply protect_false_head in H. discriminate.
    + injection H as -> H. f_equal. exact (IH _ _ H).
Qed.

Lemma mapM_inv {A B} (f : A -> res B) l : forall ys, mapM f l = Ok ys -> Forall2 (fun x y => f x = Ok y) l ys.
Proof.
  induction l as [|x l IH]; intros ys H; cbn [mapM] in H.
  - injection H as <-. constructor.
  - destruct (f x) as [y|e|w] eqn:E; cbn [bind] in H; try discriminate.
    destruct (mapM f l) as [ys'|e|w]; cbn [bind] in H; try discriminate.
    injection H as <-. constructor; [exact E|]. apply IH. reflexivity.
Qed.

Section Converse.
  Context {T : Type} {NT : Num T}.
  Variable U : UClass.

  Lemma scan_coeff_split s : forall f a b, scan_coeff U f s = (a, b) -> s = a ++ b.
  Proof.
    induction s as [|c s IH]; intros f a b H; cbn [scan_coeff] in H.
    - injection H as <- <-. reflexivity.
    - destruct (u_numeric U c || N.eqb c c_dot || f && N.eqb c c_minus || N.eqb c c_slash).
      + destruct (scan_coeff U false s) as [a' b'] eqn:E. injection H as <- <-.
        cbn [app]. f_equal. exact (IH _ _ _ E).
      + injection H as <- <-. reflexivity.
  Qed.
  Lemma scan_pow_split s : forall a b, scan_pow s = (a, b) -> s = a ++ b.
  Proof.
    induction s as [|c s IH]; intros a b H; cbn [scan_pow] in H.
    - injection H as <- <-. reflexivity.
    - destruct (is_ascii_digit c || N.eqb c c_dot || N.eqb c c_slash || N.eqb c c_minus).
      + destruct (scan_pow s) as [a' b'] eqn:E. injection H as <- <-.
        cbn [app]. f_equal. exact (IH _ _ eq_refl).
      + injection H as <- <-. reflexivity.
  Qed.

  (* ---- numerals ------------------------------------------------------------------ *)
  Lemma parse_unsigned_inv s v : @parse_unsigned_dec T NT s = Some v ->
    exists d, wf_dec d = true /\ s = render_dec d /\ v = dec_val d.
  Proof.
    unfold parse_unsigned_dec. intros H. pose proof (join_split c_dot s) as J.
    destruct (split_on c_dot s) as [|ip [|fp [|? ?]]]; try discriminate.
    - cbn in J. subst ip.
      destruct (all_digits s && negb (Nat.eqb (length s) 0)) eqn:E; [|discriminate].
      injection H as <-. exists {| d_int := s; d_frac := None |}.
      unfold wf_dec, render_dec, dec_val. cbn [d_int d_frac]. apply andb_prop in E as [E1 E2].
      rewrite E1, E2, app_nil_r. auto.
    - cbn in J. subst s.
      destruct (all_digits ip && all_digits fp && negb (Nat.eqb (length ip + length fp) 0)) eqn:E; [|discriminate].
      injection H as <-. exists {| d_int := ip; d_frac := Some fp |}.
      unfold wf_dec, render_dec, dec_val. cbn [d_int d_frac].
      apply andb_prop in E as [E E3]. apply andb_prop in E as [E1 E2].
      rewrite E1, E2, E3. auto.
  Qed.

  Lemma parse_dec_inv s v : @parse_dec T NT s = Some v ->
    exists neg d, wf_dec d = true /\ s = sign_str neg ++ render_dec d /\ v = signed neg (dec_val d).
  Proof.
    destruct s as [|c s]; [discriminate|]. cbn [parse_dec].
    destruct (N.eqb_spec c c_minus) as [->|Hn]; intros H.
    - destruct (parse_unsigned_dec s) as [u|] eqn:E; [|discriminate]. injection H as <-.
      destruct (parse_unsigned_inv s u E) as (d & Hd & -> & ->).
      exists true, d. auto.
    - destruct (parse_unsigned_inv _ v H) as (d & Hd & E & ->).
      exists false, d. auto.
  Qed.

  Lemma parse_dec_finite_inv s v : @parse_dec_finite T NT s = Some v ->
    exists neg d, wf_dec d = true /\ s = sign_str neg ++ render_dec d /\ v = signed neg (dec_val d) /\
                  finite (@signed T NT neg (dec_val d)) = true.
  Proof.
    unfold parse_dec_finite. intros H. destruct (parse_dec s) as [u|] eqn:E; [|discriminate].
    destruct (is_finite u) eqn:Ef; [|discriminate]. injection H as <-.
    destruct (parse_dec_inv s u E) as (neg & d & Hd & Es & ->). exists neg, d. auto.
  Qed.

  Lemma parse_fraction_inv s v : minus_ok true s = true -> @parse_fraction T NT s = Some v ->
    exists neg a b, @wf_frac T NT neg a b = true /\
      s = sign_str neg ++ render_dec a ++ c_slash :: render_dec b /\
      v = ndiv (signed neg (dec_val a)) (dec_val b).
  Proof.
    unfold parse_fraction. intros Hm H. pose proof (join_split c_slash s) as J.
    destruct (split_on c_slash s) as [|x [|y [|? ?]]]; try discriminate.
    cbn in J. subst s.
    destruct (parse_dec x) as [vx|] eqn:Ex; [|discriminate].
    destruct (parse_dec y) as [vy|] eqn:Ey; [|discriminate].
    destruct (nneb vy n0 && is_finite vy && is_finite (ndiv vx vy)) eqn:En; [|discriminate]. injection H as <-.
    apply andb_prop in En as [En Ef2]. apply andb_prop in En as [En Ef1].
    destruct (parse_dec_inv x vx Ex) as (neg & a & Ha & -> & ->).
    destruct (parse_dec_inv y vy Ey) as (neg' & b & Hb & -> & ->).
    destruct neg'.
    - exfalso. cbn [sign_str app] in Hm. apply minus_ok_mid in Hm. discriminate.
    - cbn [sign_str app signed] in *. exists neg, a, b. unfold wf_frac, finite. unfold is_finite in Ef1, Ef2.
      rewrite Ha, Hb, En, Ef1, Ef2. rewrite <- app_assoc. auto.
  Qed.

  Lemma inter_coeff_inv cs c : minus_ok true cs = true -> @inter_coeff T NT cs = Ok c ->
    exists neg oc, @wf_ocoef T NT neg oc = true /\ cs = sign_str neg ++ render_coef oc /\ c = coef_val neg oc.
  Proof.
    intros Hm H. destruct cs as [|x r].
    - injection H as <-. exists false, None. auto.
    - rewrite inter_coeff_cons in H.
      destruct (str_eqb (x :: r) [c_minus]) eqn:E1.
      + apply str_eqb_eq in E1. rewrite E1. injection H as <-. exists true, None. auto.
      + destruct (contains_char c_slash (x :: r)).
        * destruct (parse_fraction (x :: r)) as [v|] eqn:E; [|discriminate]. injection H as <-.
          destruct (parse_fraction_inv _ v Hm E) as (neg & a & b & Hw & Es & ->).
          exists neg, (Some (CFrac a b)). auto.
        * destruct (parse_dec_finite (x :: r)) as [v|] eqn:E; [|discriminate]. injection H as <-.
          destruct (parse_dec_finite_inv _ v E) as (neg & d & Hd & Es & -> & Hf).
          exists neg, (Some (CDec d)). cbn [wf_ocoef wf_coef]. rewrite Hd, Hf. auto.
  Qed.

  Lemma inter_pow_inv ps p : minus_ok true ps = true -> @inter_pow T NT ps = Ok p ->
    exists e, @wf_expo T NT e = true /\ ps = render_expo e /\ p = expo_val e.
  Proof.
    unfold inter_pow. intros Hm H. destruct (contains_char c_slash ps).
    - destruct (parse_fraction ps) as [v|] eqn:E; [|discriminate]. injection H as <-.
      destruct (parse_fraction_inv _ v Hm E) as (neg & a & b & Hw & Es & ->).
      exists (neg, EFrac a b). auto.
    - destruct (parse_dec_finite ps) as [v|] eqn:E; [|discriminate]. injection H as <-.
      destruct (parse_dec_finite_inv _ v E) as (neg & d & Hd & Es & -> & Hf).
      exists (neg, EDec d). unfold wf_expo. cbn [fst snd]. rewrite Hd, Hf. auto.
  Qed.

  (* ---- variables -------------------------------------------------------------------- *)
  Lemma scan_vars_inv fuel : forall s acc r, (length s <= fuel)%nat -> minus_ok true s = true ->
    @scan_vars T NT fuel s acc = Ok r ->
    exists vs, forallb (@wf_var T NT) vs = true /\ s = render_vars vs /\
               r = rev acc ++ map named (map var_val vs).
  Proof.
    induction fuel as [|fuel IH]; intros s acc r Hl Hm H.
    - destruct s; [|cbn in Hl; lia]. cbn in H. injection H as <-.
      exists []. rewrite app_nil_r. auto.
    - destruct s as [|ch s'].
      + cbn in H. injection H as <-. exists []. rewrite app_nil_r. auto.
      + rewrite scan_vars_S in H. destruct (is_ascii_letter ch) eqn:Hch; [|discriminate].
        cbn [minus_ok] in Hm. apply andb_prop in Hm as [_ Hm].
        destruct s' as [|c2 s''].
        * injection H as <-. exists [(ch, None)]. unfold wf_var. cbn [forallb fst snd].
          rewrite Hch. auto.
        * destruct (N.eqb_spec c2 c_caret) as [->|Hn].
          -- cbn [minus_ok] in Hm. apply andb_prop in Hm as [_ Hm].
             change (N.eqb c_caret c_caret) with true in Hm.
             destruct (scan_pow s'') as [ps rest] eqn:Esp. apply scan_pow_split in Esp. subst s''.
             destruct (inter_pow ps) as [p|e|w] eqn:Ep; try discriminate.
             destruct (inter_pow_inv ps p (minus_ok_app_l _ _ _ Hm) Ep) as (e & He & -> & ->).
             apply IH in H; [|cbn in Hl; rewrite app_length in Hl; lia|exact (minus_ok_app_r _ _ _ Hm)].
             destruct H as (vs & Hvs & -> & ->).
             exists ((ch, Some e) :: vs). cbn [forallb]. unfold wf_var at 1. cbn [fst snd].
             rewrite Hch, He, Hvs, render_vars_cons. cbn [app map rev]. rewrite <- app_assoc.
             unfold var_val at 2, named at 2. cbn [fst snd]. auto.
          -- apply IH in H; [|cbn in Hl |- *; lia|exact (minus_ok_weaken _ _ Hm)].
             destruct H as (vs & Hvs & Es & ->).
             exists ((ch, None) :: vs). cbn [forallb]. unfold wf_var at 1. cbn [fst snd].
             rewrite Hch, Hvs, render_vars_cons, <- Es. cbn [app map rev]. rewrite <- app_assoc.
             unfold var_val at 2, named at 2. cbn [fst snd]. auto.
  Qed.

  (* ---- one part ------------------------------------------------------------------------ *)
  Lemma inter_term_inv part t : minus_ok true part = true -> bad_part part = false ->
    @inter_term T NT U part = Ok t ->
    exists x, @wf_term T NT x = true /\ part = render_signed x /\ t = term_of x.
  Proof.
    unfold inter_term. intros Hm Hb H.
    destruct (scan_coeff U true part) as [cs rest] eqn:Es. apply scan_coeff_split in Es. subst part.
    destruct (inter_coeff cs) as [c|e|w] eqn:Ec; try discriminate.
    destruct (scan_vars (length rest) rest []) as [vs|e|w] eqn:Ev; try discriminate.
    destruct (forallb (fun vp : name * T => is_finite (snd vp)) (merge_vars (sort_vars vs) [])) eqn:Ef;
      [|discriminate].
    injection H as <-.
    destruct (inter_coeff_inv cs c (minus_ok_app_l _ _ _ Hm) Ec) as (neg & oc & Hoc & -> & ->).
    destruct (scan_vars_inv _ rest [] vs (le_n _) (minus_ok_app_r _ _ _ Hm) Ev) as (vl & Hvl & -> & ->).
    cbn [rev app] in Ef |- *. rewrite merge_sort_canon in Ef |- *.
    exists (neg, (oc, vl)). split; [|split].
    - unfold wf_term, term_of. cbn [fst snd t_vars]. unfold wf_ocoef in Hoc. rewrite Hoc, Hvl. cbn [andb].
      replace (forallb (fun vp : name * T => finite (snd vp)) (canon_vars (map var_val vl))) with true
        by (symmetry; exact Ef).
      rewrite andb_true_r.
      destruct oc; [reflexivity|]. destruct vl; [|reflexivity].
      exfalso. destruct neg; discriminate.
    - unfold render_signed, render_term. cbn [fst snd]. rewrite app_assoc. reflexivity.
    - reflexivity.
  Qed.

  Lemma parts_inv parts : forall ts, Forall (fun q => minus_ok true q = true) parts ->
    existsb bad_part parts = false -> mapM (@inter_term T NT U) parts = Ok ts ->
    exists src, @wf_src T NT src = true /\ parts = map render_signed src /\ ts = terms_of src.
  Proof.
    induction parts as [|p parts IH]; intros ts Hm Hb H.
    - cbn in H. injection H as <-. exists []. auto.
    - apply mapM_inv in H. inversion H as [|? t ? ts' Ht Hts]; subst.
      inversion Hm as [|? ? Hp Hm']; subst.
      cbn [existsb] in Hb. apply orb_false_iff in Hb as [Hb1 Hb2].
      destruct (inter_term_inv p t Hp Hb1 Ht) as (x & Hx & -> & ->).
      assert (Hmm : mapM (@inter_term T NT U) parts = Ok ts').
      { clear -Hts. induction Hts as [|q y l l' Hq _ IHl]; [reflexivity|].
        cbn [mapM]. rewrite Hq. cbn [bind]. rewrite IHl. reflexivity. }
      destruct (IH ts' Hm' Hb2 Hmm) as (src & Hs & -> & ->).
      exists (x :: src). cbn [wf_src forallb]. fold (@wf_src T NT src). rewrite Hx, Hs. auto.
  Qed.

  Lemma join_head c p ps x r : p = x :: r -> exists r', join c (p :: ps) = x :: r'.
  Proof. intros ->. destruct ps; cbn; eauto. Qed.

  (* ======================= C16: acceptance implies fidelity ======================= *)
  Theorem inter_accepts_only_grammar : forall (s : str) (p : ipoly T),
    @parse_inter T NT U s = Ok p ->
    exists (lead : bool) (src : msrc),
      @wf_src T NT src = true /\ strip_ws s = render lead src /\
      p = {| i_terms := @terms_of T NT src; i_vars := vars_of src |}.
  Proof.
    intros s p H. unfold parse_inter in H.
    destruct (contains_char c_at s); [discriminate|].
    set (S := strip_ws s) in *. set (Nm := protect_minus false S) in *.
    destruct (existsb bad_part (drop_leading_empty (split_on c_plus Nm))) eqn:Eb; [discriminate|].
    destruct (mapM (inter_term U) (drop_leading_empty (split_on c_plus Nm))) as [ts|e|w] eqn:Em; try discriminate.
    injection H as <-.
    destruct (split_minus_ok Nm false (protect_pm_ok S false)) as (p0 & ps0 & Esp & Hp0 & Hps0).
    pose proof (join_split c_plus Nm) as J. rewrite Esp in J, Eb, Em.
    assert (Fin : forall lead src, @wf_src T NT src = true ->
              Nm = (if lead_plus lead src then [c_plus] else []) ++ join c_plus (map render_signed src) ->
              S = render lead src).
    { intros lead src Hw E. apply (protect_inj S false). fold Nm. rewrite E. symmetry.
      apply protect_render. exact Hw. }
    destruct p0 as [|x r].
    - (* a leading sign: the empty first part is dropped *)
      cbn [drop_leading_empty] in Eb, Em.
      destruct (parts_inv ps0 ts Hps0 Eb Em) as (src & Hw & -> & ->).
      destruct src as [|[n t] src'].
      + cbn in J. exists false, []. split; [reflexivity|]. split; [|reflexivity].
        apply (Fin false []); [reflexivity|]. symmetry. exact J.
      + exists true, ((n, t) :: src'). split; [exact Hw|]. split.
        * apply Fin; [exact Hw|]. cbn [lead_plus]. rewrite orb_true_r. rewrite <- J. reflexivity.
        * rewrite var_set_terms_of. reflexivity.
    - cbn [drop_leading_empty] in Eb, Em.
      assert (Hall : Forall (fun q => minus_ok true q = true) ((x :: r) :: ps0)).
      { constructor; [exact (minus_ok_weaken _ _ Hp0)|exact Hps0]. }
      destruct (parts_inv _ ts Hall Eb Em) as (src & Hw & Ep & ->).
      destruct src as [|[n t] src']; [discriminate|].
      assert (n = false) as ->.
      { destruct n; [|reflexivity]. exfalso.
        assert (J' : join c_plus (map render_signed ((true, t) :: src')) = Nm) by (rewrite <- Ep; exact J).
        clear J. rename J' into J. cbn [map] in J.
        destruct (join_head c_plus (render_signed (true, t)) (map render_signed src') c_minus (render_term t) eq_refl) as [r' Er'].
        assert (E2 : protect_minus false S = c_minus :: r') by (fold Nm; rewrite <- J; exact Er').
        apply protect_false_head in E2. discriminate. }
      exists false, ((false, t) :: src'). split; [exact Hw|]. split.
      + apply Fin; [exact Hw|]. cbn [lead_plus orb app]. rewrite <- Ep. symmetry. exact J.
      + rewrite var_set_terms_of. reflexivity.
  Qed.
End Converse.

(* every polynomial the parser returns lists all the variables its terms use *)
Lemma parse_inter_closed {T : Type} {NT : Num T} (U : UClass) (s : str) (p : ipoly T) :
  parse_inter U s = Ok p -> closed_poly p.
Proof.
  unfold parse_inter. intros H.
  destruct (contains_char c_at s); [discriminate|].
  destruct (existsb bad_part _); [discriminate|].
  destruct (mapM _ _) as [ts|e|w]; try discriminate. injection H as <-.
  intros t v q Ht Hv. cbn [i_terms i_vars] in *. apply var_set_In. exists t. split; [exact Ht|].
  apply in_map_iff. exists (v, q). split; [reflexivity|exact Hv].
Qed.

Theorem eval_univariate_parsed : forall (T : Type) (NT : Num T) (U : UClass) (s : str) (p : ipoly T) (x : T),
  parse_inter U s = Ok p ->
  match i_vars p with
  | _ :: _ :: _ => i_eval_univariate p x = Err ETooManyVariables
  | _ => exists r, i_eval_univariate p x = Ok r
  end.
Proof.
  intros T NT U s p x H. pose proof (parse_inter_closed U s p H) as Hc.
  destruct (eval_univariate_total p x) as (_ & H2 & H3).
  destruct (i_vars p) as [|v [|v' vs]] eqn:E.
  - apply H3; [exact Hc|cbn; lia].
  - apply H3; [exact Hc|cbn; lia].
  - apply H2. cbn. lia.
Qed.
