(* Proofs/DefiniteFloat.v — C04 at the floating-point level: the analytical definite integral of the
   univariate type, binary64 instance of Model/Definite.v ([@s_analytical_integral float FNum]):
       F = simple_integral p   (coefficient k divided by  (k as f64) + 1.0),   result = F(b) - F(a).
   With n = length of the coefficient vector of p, eps = 2^-53,
       Fx(x) = sum_k c_k x^(k+1)/(k+1)       (exact antiderivative of the REAL values of the float coefficients)
       Ax(x) = sum_k |c_k| |x|^(k+1)/(k+1)
   the computed result r satisfies
       | r - (Fx(b) - Fx(a)) |  <=  ((1+eps)^(2n+4) - 1) * (Ax(b) + Ax(a)).
   Count: one rounding per coefficient division, 2(n+1) for the evaluation of the integrated
   polynomial (eval_simple_float_error, its vector has n+1 entries), one for the final subtraction.
   Hypotheses: n < 2^53 (so the divisors k+1 are exact: [succ_float_exact], via nofnat_float_exact);
   every coefficient division is [okdiv] (finite, quotient zero or normal); the hypotheses of
   eval_simple_float_error for the integrated polynomial at a and at b; the final subtraction is finite. *)
From Coq Require Import ZArith List Bool Arith Reals Floats Lia Lra.
From Flocq Require Import Core Plus_error Relative BinarySingleNaN PrimFloat.
From SV Require Import Base.Num Base.Outcome Model.Stats Model.Poly Model.Definite
                       Proofs.Stats Proofs.StatsFloat Proofs.Arr2DFloat Proofs.PolyFloat Proofs.SubstFloat.
Import ListNotations.
Local Open Scope R_scope.

Local Notation pfloat := PrimFloat.float.
Local Notation B64 := (binary_float FloatOps.prec FloatOps.emax).
Local Notation fexp64 := (SpecFloat.fexp FloatOps.prec FloatOps.emax).
Local Notation rnd64 := (round radix2 fexp64 ZnearestE).

(* ---- the divisor (k as f64) + 1.0 is exact ------------------------------------------------ *)
Lemma int_format (z : Z) : (Z.abs z < 2 ^ 53)%Z -> generic_format radix2 fexp64 (IZR z).
Proof.
  intros Hz. apply (generic_format_FLT radix2 (-1074) 53).
  apply (FLT_spec radix2 (-1074) 53 _ (Float radix2 z 0)).
  - unfold F2R; cbn [Fnum Fexp bpow]. ring.
  - cbn [Fnum]. exact Hz.
  - cbn [Fexp]. lia.
Qed.

Lemma succ_float_exact (k : nat) : (Z.of_nat k + 1 < 2 ^ 53)%Z ->
  ffin (PrimFloat.add (nofnat k) PrimFloat.one) /\ FR (PrimFloat.add (nofnat k) PrimFloat.one) = INR (S k).
Proof.
  intros Hk. destruct (nofnat_float_exact_core k ltac:(lia)) as [Fk Ek]. destruct FR_one as [E1 F1].
  unfold ffin, FR in *. rewrite add_equiv.
  generalize (Bplus_correct FloatOps.prec FloatOps.emax Hprec Hmax mode_NE _ _ Fk F1).
  rewrite Ek, E1. replace (INR k + 1) with (IZR (Z.of_nat (S k))) by (rewrite <- INR_IZR_INZ, S_INR; ring).
  rewrite round_generic; [|apply valid_rnd_N|apply int_format; lia].
  rewrite Rlt_bool_true.
  - intros [H1 [H2 _]]. split; [exact H2|]. rewrite H1. symmetry. apply INR_IZR_INZ.
  - rewrite Rabs_pos_eq by (apply IZR_le; lia).
    apply Rlt_trans with (bpow radix2 53).
    + rewrite <- IZR_Zpower by lia. apply IZR_lt. change (radix_val radix2) with 2%Z. lia.
    + apply bpow_lt. reflexivity.
Qed.

(* ---- forward relative error of a division / a subtraction --------------------------------- *)
Lemma div_finite_rel (w d : pfloat) : okdiv w d ->
  exists e, Rabs e <= feps /\ FR (PrimFloat.div w d) = FR w / FR d * (1 + e).
Proof.
  intros [F [Hd N]]. fold (FR w) (FR d) in *. rewrite (div_finite_round w d Hd F).
  destruct N as [Z|N].
  - exists 0. rewrite Rabs_R0, Z. split; [apply Rlt_le, feps_pos|].
    rewrite round_0 by apply valid_rnd_N. ring.
  - destruct (relative_error_N_FLT_ex radix2 (-1074) 53 eq_refl (fun z => negb (Z.even z)) _ N) as [e [He Hr]].
    exists e. change (/ 2 * bpow radix2 (- (53) + 1)) with (u_ro radix2 53) in He.
    rewrite u_ro_feps in He. split; [exact He|exact Hr].
Qed.

Lemma sub_finite_rel (u v : pfloat) : ffin u -> ffin v -> ffin (PrimFloat.sub u v) ->
  exists d, Rabs d <= feps /\ FR (PrimFloat.sub u v) = (FR u - FR v) * (1 + d).
Proof.
  unfold ffin, FR. intros Fu Fv Fs. rewrite sub_equiv in *.
  generalize (Bminus_correct FloatOps.prec FloatOps.emax Hprec Hmax mode_NE (Prim2B u) (Prim2B v) Fu Fv).
  destruct (Rlt_bool _ _).
  - intros [H _]. rewrite H. unfold Rminus.
    destruct (@FLT_plus_error_N_ex radix2 (-1074) 53 (eq_refl : Prec_gt_0 53) (fun t => negb (Z.even t))
                (B2R (Prim2B u)) (- B2R (Prim2B v))
                (generic_format_B2R _ _ _) (generic_format_opp _ _ _ (generic_format_B2R _ _ _)))
      as [d [Hd Hr]].
    exists d. split; [|exact Hr].
    eapply Rle_trans; [exact Hd|]. rewrite <- u_ro_feps. apply u_rod1pu_ro_le_u_ro.
  - intros [H _]. rewrite <- is_finite_SF_B2SF, H in Fs. discriminate Fs.
Qed.

(* ---- the coefficient vector of the integrated polynomial ---------------------------------- *)
Definition divisor (k : nat) : pfloat := PrimFloat.add (nofnat k) PrimFloat.one.
Definition quot (cs : list pfloat) (k : nat) : pfloat := PrimFloat.div (nth k cs PrimFloat.zero) (divisor k).

Lemma integ_coefs_from_nth (cs : list pfloat) : forall i0,
  @integ_coefs_from pfloat FNum i0 cs
  = map (fun j => PrimFloat.div (nth j cs PrimFloat.zero) (divisor (i0 + j))) (seq 0 (length cs)).
Proof.
  induction cs as [|c cs IH]; intros i0; [reflexivity|].
  cbn [integ_coefs_from length seq map nth ndiv nadd n1 FNum]. rewrite Nat.add_0_r. f_equal.
  rewrite IH, <- seq_shift, map_map. apply map_ext. intros j.
  cbn [nth]. rewrite Nat.add_succ_r. reflexivity.
Qed.

Lemma integral_coefs (p : spoly pfloat) :
  s_coefs (simple_integral p) = PrimFloat.zero :: map (quot (s_coefs p)) (seq 0 (length (s_coefs p))).
Proof. unfold simple_integral. cbn [s_coefs n0 FNum]. rewrite integ_coefs_from_nth. reflexivity. Qed.

Lemma RsumN_head f n : RsumN f (S n) = f 0%nat + RsumN (fun k => f (S k)) n.
Proof.
  induction n as [|n IH].
  - rewrite RsumN_S, !RsumN_0. ring.
  - rewrite RsumN_S, IH, RsumN_S. ring.
Qed.

(* ---- evaluation of the integrated polynomial versus the exact antiderivative -------------- *)
Section OnePoint.
  Variable p : spoly pfloat.
  Variable x : pfloat.
  Let cs := s_coefs p.
  Let n := length cs.
  Let q := simple_integral p.
  Let Fx := RsumN (fun k => FR (nth k cs PrimFloat.zero) * FR x ^ S k / INR (S k)) n.
  Let Ax := RsumN (fun k => Rabs (FR (nth k cs PrimFloat.zero)) * Rabs (FR x) ^ S k / INR (S k)) n.

  Hypothesis Hlen : (Z.of_nat n < 2 ^ 53)%Z.
  Hypothesis Hdiv : forall k, (k < n)%nat -> okdiv (nth k cs PrimFloat.zero) (divisor k).
  Hypothesis Hev : eval_no_underflow (s_coefs q) x.
  Hypothesis Hpre : forall m, (m <= length (s_coefs q))%nat ->
     is_finite (Prim2B (sum_list (firstn m (eval_terms_from x 0 (s_coefs q))))) = true.

  Lemma integrated_eval_error :
    ffin (eval_simple q x) /\
    Rabs (FR (eval_simple q x) - Fx) <= ((1 + feps) ^ (2 * n + 3) - 1) * Ax /\ Rabs Fx <= Ax.
  Proof.
    destruct (eval_simple_float_error q x Hev Hpre) as [Ff E]. split; [exact Ff|].
    rewrite <- !Rsum_map_fold in E. fold feps in E. fold (FR (eval_simple q x)) in E.
    assert (Lq : length (s_coefs q) = S n).
    { unfold q. rewrite integral_coefs. cbn [length]. rewrite map_length, seq_length. reflexivity. }
    rewrite Lq in E.
    assert (Nq0 : nth 0 (s_coefs q) n0 = PrimFloat.zero).
    { unfold q. rewrite integral_coefs. reflexivity. }
    assert (Nq : forall k, (k < n)%nat -> nth (S k) (s_coefs q) n0 = quot cs k).
    { intros k Hk. unfold q. rewrite integral_coefs. fold cs. fold n. cbn [nth].
      rewrite (nth_indep _ n0 (quot cs 0)) by (rewrite map_length, seq_length; exact Hk).
      rewrite (map_nth (quot cs) (seq 0 n) 0%nat k). rewrite seq_nth by exact Hk. reflexivity. }
    change (Rsum (map (fun k => B2R (Prim2B (nth k (s_coefs q) n0)) * B2R (Prim2B x) ^ k) (seq 0 (S n))))
      with (RsumN (fun k => FR (nth k (s_coefs q) n0) * FR x ^ k) (S n)) in E.
    change (Rsum (map (fun k => Rabs (B2R (Prim2B (nth k (s_coefs q) n0))) * Rabs (B2R (Prim2B x)) ^ k) (seq 0 (S n))))
      with (RsumN (fun k => Rabs (FR (nth k (s_coefs q) n0)) * Rabs (FR x) ^ k) (S n)) in E.
    rewrite !RsumN_head, Nq0, (proj1 FR_zero), Rabs_R0, !Rmult_0_l, !Rplus_0_l in E.
    set (P := fun k => FR (quot cs k) * FR x ^ S k).
    set (t := fun k => FR (nth k cs PrimFloat.zero) * FR x ^ S k / INR (S k)).
    rewrite (RsumN_ext _ P n) in E by (intros k Hk; rewrite (Nq k Hk); reflexivity).
    rewrite (RsumN_ext (fun k => Rabs (FR (nth (S k) (s_coefs q) n0)) * Rabs (FR x) ^ S k)
                       (fun k => Rabs (P k)) n) in E.
    2:{ intros k Hk. rewrite (Nq k Hk). unfold P. rewrite Rabs_mult, RPow_abs. reflexivity. }
    assert (EA : Ax = RsumN (fun k => Rabs (t k)) n).
    { unfold Ax. apply RsumN_ext. intros k Hk. unfold t.
      assert (0 < INR (S k)) by (apply lt_0_INR; lia).
      unfold Rdiv. rewrite !Rabs_mult, RPow_abs, (Rabs_pos_eq (/ INR (S k))).
      - reflexivity.
      - apply Rlt_le, Rinv_0_lt_compat. assumption. }
    change Fx with (RsumN t n). rewrite EA.
    destruct (RsumN_perturb P t feps 0 n) as [P1 P2].
    { intros k Hk. rewrite Rplus_0_r.
      destruct (div_finite_rel _ _ (Hdiv k Hk)) as [e [He Eq]].
      destruct (succ_float_exact k ltac:(lia)) as [_ ED]. fold (divisor k) in ED.
      unfold P, t, quot. fold cs. rewrite Eq, ED.
      replace (FR (nth k cs PrimFloat.zero) / INR (S k) * (1 + e) * FR x ^ S k
               - FR (nth k cs PrimFloat.zero) * FR x ^ S k / INR (S k))
        with (e * (FR (nth k cs PrimFloat.zero) * FR x ^ S k / INR (S k))).
      2:{ assert (INR (S k) <> 0) by (apply not_0_INR; lia). field. assumption. }
      rewrite Rabs_mult. apply Rmult_le_compat_r; [apply Rabs_pos|exact He]. }
    rewrite Rmult_0_r, Rplus_0_r in P1, P2.
    pose proof (RsumN_abs_nonneg t n) as HA. pose proof (RsumN_abs_le t n) as HF.
    split; [|exact HF].
    set (A := RsumN (fun k => Rabs (t k)) n) in *. set (SP := RsumN (fun k => Rabs (P k)) n) in *.
    pose proof feps_pos as Hu. pose proof (gam_nonneg (2 * S n)) as HG.
    replace (2 * n + 3)%nat with (S (2 * S n)) by lia. rewrite <- tech_pow_Rmult.
    set (Q := (1 + feps) ^ (2 * S n)) in *.
    replace (FR (eval_simple q x) - RsumN t n)
      with ((FR (eval_simple q x) - RsumN P n) + (RsumN P n - RsumN t n)) by ring.
    eapply Rle_trans; [apply Rabs_triang|].
    assert (E4 : (Q - 1) * SP <= (Q - 1) * ((1 + feps) * A)) by (apply Rmult_le_compat_l; lra).
    nra.
  Qed.
End OnePoint.

(* ======================================================================================== *)
Theorem definite_float_error : forall (p : spoly PrimFloat.float) (a b : PrimFloat.float),
  (Z.of_nat (length (s_coefs p)) < 2 ^ 53)%Z ->
  (forall k, (k < length (s_coefs p))%nat ->
     okdiv (nth k (s_coefs p) n0) (nadd (nofnat k) n1)) ->
  (forall x, x = a \/ x = b ->
     eval_no_underflow (s_coefs (simple_integral p)) x /\
     forall m, (m <= length (s_coefs (simple_integral p)))%nat ->
       is_finite (Prim2B (sum_list (firstn m (eval_terms_from x 0 (s_coefs (simple_integral p)))))) = true) ->
  is_finite (Prim2B (nsub (eval_simple (simple_integral p) b) (eval_simple (simple_integral p) a))) = true ->
  let Fx := fun x : R => fold_right (fun k acc =>
              B2R (Prim2B (nth k (s_coefs p) n0)) * x ^ S k / INR (S k) + acc) 0 (seq 0 (length (s_coefs p))) in
  let Ax := fun x : R => fold_right (fun k acc =>
              Rabs (B2R (Prim2B (nth k (s_coefs p) n0))) * Rabs x ^ S k / INR (S k) + acc) 0 (seq 0 (length (s_coefs p))) in
  exists r, s_analytical_integral p a b = Ok r /\ is_finite (Prim2B r) = true /\
    Rabs (B2R (Prim2B r) - (Fx (B2R (Prim2B b)) - Fx (B2R (Prim2B a))))
    <= ((1 + bpow radix2 (-53)) ^ (2 * length (s_coefs p) + 4) - 1)
       * (Ax (B2R (Prim2B b)) + Ax (B2R (Prim2B a))).
Proof.
  intros p a b Hlen Hdiv Hev Fr Fx Ax.
  exists (PrimFloat.sub (eval_simple (simple_integral p) b) (eval_simple (simple_integral p) a)).
  split; [reflexivity|]. split; [exact Fr|].
  destruct (Hev a (or_introl eq_refl)) as [Ha1 Ha2]. destruct (Hev b (or_intror eq_refl)) as [Hb1 Hb2].
  destruct (integrated_eval_error p a Hlen Hdiv Ha1 Ha2) as [Ffa [Ea Ba]].
  destruct (integrated_eval_error p b Hlen Hdiv Hb1 Hb2) as [Ffb [Eb Bb]].
  destruct (sub_finite_rel _ _ Ffb Ffa Fr) as [d [Hd Er]].
  unfold Fx, Ax. rewrite <- !Rsum_map_fold. fold feps.
  set (n := length (s_coefs p)) in *.
  change (Rsum (map (fun k => B2R (Prim2B (nth k (s_coefs p) n0)) * B2R (Prim2B b) ^ S k / INR (S k)) (seq 0 n)))
    with (RsumN (fun k => FR (nth k (s_coefs p) PrimFloat.zero) * FR b ^ S k / INR (S k)) n).
  change (Rsum (map (fun k => B2R (Prim2B (nth k (s_coefs p) n0)) * B2R (Prim2B a) ^ S k / INR (S k)) (seq 0 n)))
    with (RsumN (fun k => FR (nth k (s_coefs p) PrimFloat.zero) * FR a ^ S k / INR (S k)) n).
  change (Rsum (map (fun k => Rabs (B2R (Prim2B (nth k (s_coefs p) n0))) * Rabs (B2R (Prim2B b)) ^ S k / INR (S k)) (seq 0 n)))
    with (RsumN (fun k => Rabs (FR (nth k (s_coefs p) PrimFloat.zero)) * Rabs (FR b) ^ S k / INR (S k)) n).
  change (Rsum (map (fun k => Rabs (B2R (Prim2B (nth k (s_coefs p) n0))) * Rabs (B2R (Prim2B a)) ^ S k / INR (S k)) (seq 0 n)))
    with (RsumN (fun k => Rabs (FR (nth k (s_coefs p) PrimFloat.zero)) * Rabs (FR a) ^ S k / INR (S k)) n).
  set (Fb := RsumN (fun k => FR (nth k (s_coefs p) PrimFloat.zero) * FR b ^ S k / INR (S k)) n) in *.
  set (Fa := RsumN (fun k => FR (nth k (s_coefs p) PrimFloat.zero) * FR a ^ S k / INR (S k)) n) in *.
  set (Ab := RsumN (fun k => Rabs (FR (nth k (s_coefs p) PrimFloat.zero)) * Rabs (FR b) ^ S k / INR (S k)) n) in *.
  set (Aa := RsumN (fun k => Rabs (FR (nth k (s_coefs p) PrimFloat.zero)) * Rabs (FR a) ^ S k / INR (S k)) n) in *.
  fold (FR (PrimFloat.sub (eval_simple (simple_integral p) b) (eval_simple (simple_integral p) a))).
  rewrite Er.
  set (vb := FR (eval_simple (simple_integral p) b)) in *. set (va := FR (eval_simple (simple_integral p) a)) in *.
  replace (2 * n + 4)%nat with (S (2 * n + 3)) by lia. rewrite <- tech_pow_Rmult.
  pose proof feps_pos as Hu. pose proof (gam_nonneg (2 * n + 3)) as HG.
  set (Q := (1 + feps) ^ (2 * n + 3)) in *.
  replace ((vb - va) * (1 + d) - (Fb - Fa)) with (((vb - Fb) - (va - Fa)) * (1 + d) + (Fb - Fa) * d) by ring.
  eapply Rle_trans; [apply Rabs_triang|]. rewrite !Rabs_mult.
  assert (H1 : Rabs (1 + d) <= 1 + feps).
  { eapply Rle_trans; [apply Rabs_triang|]. rewrite Rabs_R1. lra. }
  assert (H2 : Rabs (vb - Fb - (va - Fa)) <= (Q - 1) * (Ab + Aa)).
  { unfold Rminus at 1. eapply Rle_trans; [apply Rabs_triang|]. rewrite Rabs_Ropp. lra. }
  assert (H3 : Rabs (Fb - Fa) <= Ab + Aa).
  { unfold Rminus. eapply Rle_trans; [apply Rabs_triang|]. rewrite Rabs_Ropp. lra. }
  assert (HA : 0 <= Ab + Aa).
  { pose proof (Rabs_pos Fb). pose proof (Rabs_pos Fa). lra. }
  assert (M1 : Rabs (vb - Fb - (va - Fa)) * Rabs (1 + d) <= (Q - 1) * (Ab + Aa) * (1 + feps)).
  { apply Rmult_le_compat; try apply Rabs_pos; assumption. }
  assert (M2 : Rabs (Fb - Fa) * Rabs d <= (Ab + Aa) * feps).
  { apply Rmult_le_compat; try apply Rabs_pos; assumption. }
  nra.
Qed.

(* ---- discharging okmul when a factor is zero --------------------------------------------- *)
Lemma okmul_by_zero (u v : pfloat) :
  PrimFloat.is_finite (PrimFloat.mul u v) = true -> Prim2SF u = S754_zero false -> okmul u v.
Proof.
  intros F Z. rewrite is_finite_equiv in F. split; [exact F|]. left.
  fold (FR u). rewrite FR_SF2R, Z. cbn [SF2R]. ring.
Qed.

(* ---- non-vacuity: 3x^2 + 2x - 5 over [0.5, 1.5] -------------------------------------------- *)
Definition ex_lo : PrimFloat.float := 0x1p-1%float.
Definition ex_hi : PrimFloat.float := 0x1.8p+0%float.

Ltac fin_compute := rewrite <- is_finite_equiv; vm_compute; reflexivity.
Ltac okmul_any := first [ apply okmul_by_leb; vm_compute; reflexivity
                        | apply okmul_by_zero; vm_compute; reflexivity ].

Example ex_definite_hyps :
  (Z.of_nat (length (s_coefs ex_poly)) < 2 ^ 53)%Z /\
  (forall k, (k < length (s_coefs ex_poly))%nat ->
     okdiv (nth k (s_coefs ex_poly) n0) (nadd (nofnat k) n1)) /\
  (forall x, x = ex_lo \/ x = ex_hi ->
     eval_no_underflow (s_coefs (simple_integral ex_poly)) x /\
     forall m, (m <= length (s_coefs (simple_integral ex_poly)))%nat ->
       is_finite (Prim2B (sum_list (firstn m (eval_terms_from x 0 (s_coefs (simple_integral ex_poly)))))) = true) /\
  is_finite (Prim2B (nsub (eval_simple (simple_integral ex_poly) ex_hi) (eval_simple (simple_integral ex_poly) ex_lo))) = true.
Proof.
  split; [cbn; lia|]. split.
  { intros k Hk. cbn [length s_coefs ex_poly] in Hk.
    destruct k as [|[|[|k]]]; try lia; apply okdiv_by_leb; vm_compute; reflexivity. }
  split; [|fin_compute].
  intros x [-> | ->]; (split;
  [ intros i Hi; assert (Hi' : (i < 4)%nat) by exact Hi;
    destruct i as [|[|[|[|i]]]]; try lia;
    (split; [cbn [Z.of_nat Pos.of_succ_nat Pos.succ powi_no_underflow powi_ok]; repeat split; try okmul_any
            | okmul_any])
  | intros m Hm; assert (Hm' : (m <= 4)%nat) by exact Hm;
    destruct m as [|[|[|[|[|m]]]]]; try lia; fin_compute ]).
Qed.

Example ex_definite_error : exists r, s_analytical_integral ex_poly ex_lo ex_hi = Ok r /\
  is_finite (Prim2B r) = true.
Proof.
  destruct ex_definite_hyps as [H1 [H2 [H3 H4]]].
  destruct (definite_float_error ex_poly ex_lo ex_hi H1 H2 H3 H4) as [r [E [F _]]].
  exists r. split; assumption.
Qed.
