(* Proofs/DerivFloat.v — C03 at the floating-point level, univariate type: the binary64 instance of
   [simple_derivative] (Model/Poly.v; coefficient k of the result is  c_{k+1} * ((k+1) as f64))
   evaluated with [eval_simple].  With m = length (s_coefs p) - 1 (the length of the derived vector),
   eps = 2^-53,
       D = sum_{k<m} (k+1) * c_{k+1} * x^k       (exact derivative of the real polynomial with the
                                                  float coefficients' values, at the value of x)
       A = the same sum with absolute values,
       | fl(p'(x)) - D |  <=  ((1+eps)^(2m+1) - 1) * A        (2m+1 = 2n-1 for n = m+1 >= 1 coefficients):
   2m for the evaluation of the derived polynomial (eval_simple_float_error), one for the coefficient
   product.  Hypotheses: n < 2^53 (the factors k+1 are exact: nofnat_float_exact); every coefficient
   product is [okmul]; the hypotheses of eval_simple_float_error for the derived polynomial at x. *)
From Coq Require Import ZArith List Bool Arith Reals Floats Lia Lra.
From Flocq Require Import Core Relative BinarySingleNaN PrimFloat.
From SV Require Import Base.Num Base.Outcome Model.Stats Model.Poly
                       Proofs.Stats Proofs.StatsFloat Proofs.Arr2DFloat Proofs.PolyFloat Proofs.SubstFloat.
Import ListNotations.
Local Open Scope R_scope.

Local Notation pfloat := PrimFloat.float.

Lemma deriv_coefs_from_nth (cs : list pfloat) : forall i0,
  @deriv_coefs_from pfloat FNum i0 cs
  = map (fun j => PrimFloat.mul (nth j cs PrimFloat.zero) (nofnat (i0 + j))) (seq 0 (length cs)).
Proof.
  induction cs as [|c cs IH]; intros i0; [reflexivity|].
  cbn [deriv_coefs_from length seq map nth nmul FNum]. rewrite Nat.add_0_r. f_equal.
  rewrite IH, <- seq_shift, map_map. apply map_ext. intros j.
  cbn [nth]. rewrite Nat.add_succ_r. reflexivity.
Qed.

Definition dcoef (cs : list pfloat) (k : nat) : pfloat :=
  PrimFloat.mul (nth (S k) cs PrimFloat.zero) (nofnat (S k)).

Lemma derivative_coefs (p : spoly pfloat) :
  s_coefs (simple_derivative p) = map (dcoef (s_coefs p)) (seq 0 (length (s_coefs p) - 1)).
Proof.
  unfold simple_derivative. cbn [s_coefs]. destruct (s_coefs p) as [|c cs]; [reflexivity|].
  rewrite deriv_coefs_from_nth. cbn [length Nat.sub]. rewrite Nat.sub_0_r. reflexivity.
Qed.

Theorem simple_derivative_float_error : forall (p : spoly PrimFloat.float) (x : PrimFloat.float),
  (Z.of_nat (length (s_coefs p)) < 2 ^ 53)%Z ->
  (forall k, (k < length (s_coefs p) - 1)%nat -> okmul (nth (S k) (s_coefs p) n0) (nofnat (S k))) ->
  eval_no_underflow (s_coefs (simple_derivative p)) x ->
  (forall m, (m <= length (s_coefs (simple_derivative p)))%nat ->
     is_finite (Prim2B (sum_list (firstn m (eval_terms_from x 0 (s_coefs (simple_derivative p)))))) = true) ->
  is_finite (Prim2B (eval_simple (simple_derivative p) x)) = true /\
  Rabs (B2R (Prim2B (eval_simple (simple_derivative p) x))
        - fold_right (fun k acc => INR (S k) * B2R (Prim2B (nth (S k) (s_coefs p) n0)) * B2R (Prim2B x) ^ k + acc) 0
            (seq 0 (length (s_coefs p) - 1)))
    <= ((1 + bpow radix2 (-53)) ^ (2 * (length (s_coefs p) - 1) + 1) - 1)
       * fold_right (fun k acc => INR (S k) * Rabs (B2R (Prim2B (nth (S k) (s_coefs p) n0))) * Rabs (B2R (Prim2B x)) ^ k + acc) 0
           (seq 0 (length (s_coefs p) - 1)).
Proof.
  intros p x Hlen Hmul Hev Hpre.
  destruct (eval_simple_float_error (simple_derivative p) x Hev Hpre) as [Ff E]. split; [exact Ff|].
  set (q := simple_derivative p) in *. set (cs := s_coefs p) in *. set (m := (length cs - 1)%nat) in *.
  assert (Lq : length (s_coefs q) = m).
  { unfold q. rewrite derivative_coefs. rewrite map_length, seq_length. reflexivity. }
  assert (Nq : forall k, (k < m)%nat -> nth k (s_coefs q) n0 = dcoef cs k).
  { intros k Hk. unfold q. rewrite derivative_coefs. fold cs. fold m.
    rewrite (nth_indep _ n0 (dcoef cs 0)) by (rewrite map_length, seq_length; exact Hk).
    rewrite (map_nth (dcoef cs) (seq 0 m) 0%nat k). rewrite seq_nth by exact Hk. reflexivity. }
  rewrite Lq in E. rewrite <- !Rsum_map_fold in *. fold feps in *. fold (FR (eval_simple q x)) in *.
  set (P := fun k => FR (dcoef cs k) * FR x ^ k).
  set (t := fun k => INR (S k) * FR (nth (S k) cs PrimFloat.zero) * FR x ^ k).
  change (Rsum (map (fun k => B2R (Prim2B (nth k (s_coefs q) n0)) * B2R (Prim2B x) ^ k) (seq 0 m)))
    with (RsumN (fun k => FR (nth k (s_coefs q) n0) * FR x ^ k) m) in E.
  change (Rsum (map (fun k => Rabs (B2R (Prim2B (nth k (s_coefs q) n0))) * Rabs (B2R (Prim2B x)) ^ k) (seq 0 m)))
    with (RsumN (fun k => Rabs (FR (nth k (s_coefs q) n0)) * Rabs (FR x) ^ k) m) in E.
  rewrite (RsumN_ext _ P m) in E by (intros k Hk; rewrite (Nq k Hk); reflexivity).
  rewrite (RsumN_ext (fun k => Rabs (FR (nth k (s_coefs q) n0)) * Rabs (FR x) ^ k) (fun k => Rabs (P k)) m) in E.
  2:{ intros k Hk. rewrite (Nq k Hk). unfold P. rewrite Rabs_mult, RPow_abs. reflexivity. }
  change (Rsum (map (fun k => INR (S k) * B2R (Prim2B (nth (S k) cs n0)) * B2R (Prim2B x) ^ k) (seq 0 m)))
    with (RsumN t m).
  assert (EA : Rsum (map (fun k => INR (S k) * Rabs (B2R (Prim2B (nth (S k) cs n0))) * Rabs (B2R (Prim2B x)) ^ k) (seq 0 m))
               = RsumN (fun k => Rabs (t k)) m).
  { unfold RsumN. f_equal. apply map_ext. intros k. unfold t, FR.
    rewrite !Rabs_mult, RPow_abs, (Rabs_pos_eq (INR (S k))) by apply pos_INR. reflexivity. }
  rewrite EA. clear EA.
  destruct (RsumN_perturb P t feps 0 m) as [P1 P2].
  { intros k Hk. rewrite Rplus_0_r.
    destruct (okmul_rel _ _ (Hmul k Hk)) as [_ [e [He Eq]]].
    destruct (nofnat_float_exact_core (S k) ltac:(unfold m in Hk; lia)) as [_ EN].
    unfold P, t, dcoef. change (@n0 pfloat FNum) with PrimFloat.zero in Eq. fold cs in Eq. rewrite Eq, EN.
    replace (FR (nth (S k) cs PrimFloat.zero) * INR (S k) * (1 + e) * FR x ^ k
             - INR (S k) * FR (nth (S k) cs PrimFloat.zero) * FR x ^ k)
      with (e * (INR (S k) * FR (nth (S k) cs PrimFloat.zero) * FR x ^ k)) by ring.
    rewrite Rabs_mult. apply Rmult_le_compat_r; [apply Rabs_pos|exact He]. }
  rewrite Rmult_0_r, Rplus_0_r in P1, P2.
  pose proof (RsumN_abs_nonneg t m) as HA.
  set (A := RsumN (fun k => Rabs (t k)) m) in *. set (SP := RsumN (fun k => Rabs (P k)) m) in *.
  pose proof feps_pos as Hu. pose proof (gam_nonneg (2 * m)) as HG.
  replace (2 * m + 1)%nat with (S (2 * m)) by lia. rewrite <- tech_pow_Rmult.
  set (Q := (1 + feps) ^ (2 * m)) in *.
  replace (FR (eval_simple q x) - RsumN t m)
    with ((FR (eval_simple q x) - RsumN P m) + (RsumN P m - RsumN t m)) by ring.
  eapply Rle_trans; [apply Rabs_triang|].
  assert (E4 : (Q - 1) * SP <= (Q - 1) * ((1 + feps) * A)) by (apply Rmult_le_compat_l; lra).
  nra.
Qed.

(* ---- non-vacuity: 3x^2 + 2x - 5 at x = 1.5 (derivative 6x + 2) ------------------------------ *)
Ltac fin_compute := rewrite <- is_finite_equiv; vm_compute; reflexivity.
Ltac okmul_compute := apply okmul_by_leb; vm_compute; reflexivity.

Example ex_derivative_hyps :
  (Z.of_nat (length (s_coefs ex_poly)) < 2 ^ 53)%Z /\
  (forall k, (k < length (s_coefs ex_poly) - 1)%nat -> okmul (nth (S k) (s_coefs ex_poly) n0) (nofnat (S k))) /\
  eval_no_underflow (s_coefs (simple_derivative ex_poly)) ex_x1 /\
  (forall m, (m <= length (s_coefs (simple_derivative ex_poly)))%nat ->
     is_finite (Prim2B (sum_list (firstn m (eval_terms_from ex_x1 0 (s_coefs (simple_derivative ex_poly)))))) = true).
Proof.
  split; [cbn; lia|]. split.
  { intros k Hk. assert (Hk' : (k < 2)%nat) by exact Hk. destruct k as [|[|k]]; try lia; okmul_compute. }
  split.
  - intros i Hi. assert (Hi' : (i < 2)%nat) by exact Hi. destruct i as [|[|i]]; try lia;
    (split; [cbn [Z.of_nat Pos.of_succ_nat Pos.succ powi_no_underflow powi_ok]; repeat split; try okmul_compute
            | okmul_compute]).
  - intros m Hm. assert (Hm' : (m <= 2)%nat) by exact Hm. destruct m as [|[|[|m]]]; try lia; fin_compute.
Qed.

Example ex_derivative_error :
  is_finite (Prim2B (eval_simple (simple_derivative ex_poly) ex_x1)) = true.
Proof.
  destruct ex_derivative_hyps as [H1 [H2 [H3 H4]]].
  exact (proj1 (simple_derivative_float_error ex_poly ex_x1 H1 H2 H3 H4)).
Qed.
