(* Proofs/ExprRead.v — C19, clause 2, general lemmas: what parse_expr leaves behind, the fuel of
   the reference reader, assembling phrases of the reference reader.  The simulation itself is in
   Proofs/ExprReadJuxt.v. *)
From Coq Require Import ZArith NArith List Bool Lia.
From SV Require Import Base.Num Base.Outcome Base.Str Model.Expr Model.RefExpr Proofs.ExprTotal.
Import ListNotations.
Local Open Scope res_scope.

Section Read.
  Context {T : Type}.
  Notation tok := (token T).
  Notation tree := (expr T).

  (* ---- A. what parse_expr leaves behind (no fragment assumption) ------------------------ *)
  Definition ends_operand (t : tok) : bool :=
    match t with TNum _ | TVar _ | TConst _ | TRParen | TOp OFac => true | _ => false end.

  (* the token after a phrase parsed with minimum power bp is not a !, nor an operator of power >= bp *)
  Definition head_ok (bp : nat) (r : list tok) : Prop :=
    match r with TOp o :: _ => o <> OFac /\ binding_pow o < bp | _ => True end.
  Definition head_not_fac (r : list tok) : Prop :=
    match r with TOp OFac :: _ => False | _ => True end.

  Lemma head_ok_not_fac bp r : head_ok bp r -> head_not_fac r.
  Proof. destruct r as [|[| |o| | | |] r]; cbn; auto. destruct o; intuition congruence. Qed.

  Lemma strip_fac_head : forall (ts : list tok) l, head_not_fac (snd (strip_fac l ts)).
  Proof.
    induction ts as [|t ts IH]; intros l; cbn; [exact I|].
    destruct t as [| |o| | | |]; cbn; try exact I. destruct o; cbn; try exact I. apply IH.
  Qed.

  Definition leaves_ok (rec : list tok -> nat -> res (tree * list tok)) : Prop :=
    forall ts bp e r, rec ts bp = Ok (e, r) -> head_ok bp r.

  Lemma bin_loop_head rec : leaves_ok rec ->
    forall n l ts bp e r, head_not_fac ts -> bin_loop rec n l ts bp = Ok (e, r) -> head_ok bp r.
  Proof.
    intros Hrec. induction n as [|n IH]; intros l ts bp e r Hh H; cbn [bin_loop] in H; [discriminate|].
    destruct ts as [|t ts']; [injection H as <- <-; exact I|].
    destruct t as [| |op| | | |]; try (injection H as <- <-; exact I).
    destruct (binding_pow op <? bp)%nat eqn:Eb.
    - injection H as <- <-. cbn. apply Nat.ltb_lt in Eb. split; [|exact Eb].
      intros ->. exact Hh.
    - destruct (rec ts' (binding_pow op + 1)) as [[rg r']|e0|w] eqn:E; cbn [bind] in H; try discriminate.
      apply Hrec in E. apply (IH _ _ _ _ _ (head_ok_not_fac _ _ E) H).
  Qed.

  Lemma parse_expr_head : forall f, leaves_ok (@parse_expr T f).
  Proof.
    induction f as [|f IH]; intros ts bp e r H; [discriminate|].
    rewrite parse_expr_unfold in H.
    destruct (prefix_part f ts bp) as [[l r0]|e0|w] eqn:E; cbn [bind] in H; try discriminate.
    pose proof (strip_fac_head r0 l) as Hs.
    destruct (strip_fac l r0) as [l' r'] eqn:E2. cbn [snd] in Hs.
    apply (bin_loop_head _ IH _ _ _ _ _ _ Hs H).
  Qed.

  (* the last token consumed by a phrase ends an operand *)
  Definition after_operand (ts r : list tok) : Prop :=
    exists pre t, ts = pre ++ t :: r /\ ends_operand t = true.

  Lemma after_operand_cons a ts r : after_operand ts r -> after_operand (a :: ts) r.
  Proof. intros (pre & t & -> & H). exists (a :: pre), t. split; [reflexivity|exact H]. Qed.

  Lemma after_operand_trans ts r1 r2 :
    after_operand ts r1 -> (r2 = r1 \/ after_operand r1 r2) -> after_operand ts r2.
  Proof.
    intros H [->|(pre2 & t2 & -> & H2)]; [exact H|].
    destruct H as (pre & t & -> & _).
    exists (pre ++ t :: pre2), t2. split; [|exact H2].
    rewrite <- app_assoc. reflexivity.
  Qed.

  Lemma strip_fac_after : forall (ts : list tok) l,
    snd (strip_fac l ts) = ts \/ after_operand ts (snd (strip_fac l ts)).
  Proof.
    induction ts as [|t ts IH]; intros l; cbn; [left; reflexivity|].
    destruct t as [| |o| | | |]; cbn; try (left; reflexivity).
    destruct o; cbn; try (left; reflexivity).
    right. destruct (IH (EPost OFac l)) as [E|H].
    - rewrite E. exists [], (TOp OFac). split; reflexivity.
    - apply after_operand_cons. exact H.
  Qed.

  Definition ends_well (rec : list tok -> nat -> res (tree * list tok)) : Prop :=
    forall ts bp e r, rec ts bp = Ok (e, r) -> after_operand ts r.

  Lemma bin_loop_after rec : ends_well rec ->
    forall n l ts bp e r, bin_loop rec n l ts bp = Ok (e, r) -> r = ts \/ after_operand ts r.
  Proof.
    intros Hrec. induction n as [|n IH]; intros l ts bp e r H; cbn [bin_loop] in H; [discriminate|].
    destruct ts as [|t ts']; [injection H as <- <-; left; reflexivity|].
    destruct t as [| |op| | | |]; try (injection H as <- <-; left; reflexivity).
    destruct (binding_pow op <? bp)%nat; [injection H as <- <-; left; reflexivity|].
    destruct (rec ts' (binding_pow op + 1)) as [[rg r']|e0|w] eqn:E; cbn [bind] in H; try discriminate.
    apply Hrec in E. apply IH in H. right.
    apply after_operand_cons. apply (after_operand_trans _ _ _ E H).
  Qed.

  Lemma prefix_part_after f : ends_well (parse_expr f) ->
    forall ts bp e r, prefix_part f ts bp = Ok (e, r) -> after_operand ts r.
  Proof.
    intros Hrec ts bp e r H. unfold prefix_part in H.
    destruct ts as [|t ts']; [discriminate|].
    destruct t as [x|v|op|fn|c| |]; try discriminate;
      try (injection H as <- <-; eexists [], _; split; reflexivity).
    - destruct (oper_eqb op OSub); [|discriminate].
      destruct (parse_expr f ts' (Nat.max bp BP_PREFIX_MINUS)) as [[v r1]|e0|w] eqn:E; cbn [bind] in H; try discriminate.
      injection H as <- <-. apply after_operand_cons. apply (Hrec _ _ _ _ E).
    - destruct ts' as [|t2 ts2]; [discriminate|]. destruct t2; try discriminate.
      destruct (parse_expr f ts2 0) as [[v r1]|e0|w] eqn:E; cbn [bind] in H; try discriminate.
      destruct r1 as [|t1 r2]; [discriminate|]. destruct t1; try discriminate.
      injection H as <- <-. apply Hrec in E. destruct E as (pre & t & -> & _).
      exists (TFun fn :: TLParen :: pre ++ [t]), TRParen. split; [|reflexivity].
      cbn. rewrite <- app_assoc. reflexivity.
    - destruct (parse_expr f ts' 0) as [[v r1]|e0|w] eqn:E; cbn [bind] in H; try discriminate.
      destruct r1 as [|t1 r2]; [discriminate|]. destruct t1; try discriminate.
      injection H as <- <-. apply Hrec in E. destruct E as (pre & t & -> & _).
      exists (TLParen :: pre ++ [t]), TRParen. split; [|reflexivity].
      cbn. rewrite <- app_assoc. reflexivity.
  Qed.

  Lemma parse_expr_after : forall f, ends_well (@parse_expr T f).
  Proof.
    induction f as [|f IH]; intros ts bp e r H; [discriminate|].
    rewrite parse_expr_unfold in H.
    destruct (prefix_part f ts bp) as [[l r0]|e0|w] eqn:E; cbn [bind] in H; try discriminate.
    apply (prefix_part_after f IH) in E.
    pose proof (strip_fac_after r0 l) as Hs.
    destruct (strip_fac l r0) as [l' r'] eqn:E2. cbn [snd] in Hs.
    apply (bin_loop_after _ IH) in H.
    apply (after_operand_trans _ _ _ (after_operand_trans _ _ _ E Hs) H).
  Qed.

  (* ---- B. fuel of the reference reader: enough is enough ------------------------------------ *)
  Definition rank (l : level) : nat :=
    match l with
    | LSum => 6 | LProduct => 5 | LUnary => 4 | LJuxt => 3 | LPower => 2 | LExponent => 2
    | LPostfix => 1 | LAtom => 0
    end.
  Definition need (l : level) (ts r : list tok) : nat := 8 * (length ts - length r) + rank l.

  (* a reader that consumes at least one token and whose result does not depend on surplus fuel *)
  Definition stable (n : nat) (l : level) : Prop :=
    forall ts e r, @rd T n l ts = Some (e, r) ->
      length r < length ts /\ forall m, need l ts r < m -> rd m l ts = Some (e, r).

  Lemma chain_stable n lo opof : stable n lo ->
    forall k (acc : tree) (ts : list tok) e r, chain k (rd n lo) opof acc ts = Some (e, r) ->
      length r <= length ts /\
      forall k' m, length ts - length r < k' -> 8 * (length ts - length r) + rank lo < m + 8 ->
                   chain k' (rd m lo) opof acc ts = Some (e, r).
  Proof.
    intros Hst. induction k as [|k IH]; intros acc ts e r H; [discriminate|].
    cbn [chain] in H. destruct ts as [|t r0].
    { injection H as <- <-. split; [lia|]. intros [|k'] m Hk _; [lia|reflexivity]. }
    destruct (opof t) as [o|] eqn:Eo.
    2:{ injection H as <- <-. split; [lia|]. intros [|k'] m Hk _; [lia|]. cbn [chain]. rewrite Eo. reflexivity. }
    destruct (rd n lo r0) as [[x r']|] eqn:Er; [|discriminate].
    destruct (Hst _ _ _ Er) as (Hlen & Hlift).
    destruct (IH _ _ _ _ H) as (Hlen2 & Hlift2).
    cbn [length]. split; [lia|].
    intros [|k'] m Hk Hm; [lia|]. cbn [chain]. rewrite Eo.
    rewrite (Hlift m) by (unfold need; lia).
    apply Hlift2; lia.
  Qed.

  Lemma juxt_chain_stable n lo : stable n lo ->
    forall k (acc : tree) (ts : list tok) e r, juxt_chain k (rd n lo) acc ts = Some (e, r) ->
      length r <= length ts /\
      forall k' m, length ts - length r < k' -> 8 * (length ts - length r) + rank lo < m ->
                   juxt_chain k' (rd m lo) acc ts = Some (e, r).
  Proof.
    intros Hst. induction k as [|k IH]; intros acc ts e r H; [discriminate|].
    cbn [juxt_chain] in H. destruct ts as [|t r0].
    { injection H as <- <-. split; [lia|]. intros [|k'] m Hk _; [lia|reflexivity]. }
    destruct (starts_atom t) eqn:Ea.
    2:{ injection H as <- <-. split; [lia|]. intros [|k'] m Hk _; [lia|]. cbn [juxt_chain]. rewrite Ea. reflexivity. }
    destruct (rd n lo (t :: r0)) as [[x r']|] eqn:Er; [|discriminate].
    destruct (Hst _ _ _ Er) as (Hlen & Hlift).
    destruct (IH _ _ _ _ H) as (Hlen2 & Hlift2).
    split; [lia|].
    intros [|k'] m Hk Hm; [lia|]. cbn [juxt_chain]. rewrite Ea.
    rewrite (Hlift m) by (unfold need; lia).
    apply Hlift2; lia.
  Qed.

  Lemma bangs_length : forall (ts : list tok) acc, length (snd (bangs acc ts)) <= length ts.
  Proof.
    induction ts as [|t ts IH]; intros acc; cbn; [lia|].
    destruct t as [| |o| | | |]; cbn; try lia. destruct o; cbn; try lia. specialize (IH (EPost OFac acc)). lia.
  Qed.

  Lemma rd_stable : forall n l, stable n l.
  Proof.
    induction n as [|n IH]; intros l ts e r H; [discriminate|].
    destruct l; cbn [rd] in H.
    - (* sum *)
      destruct (rd n LProduct ts) as [[x r0]|] eqn:E1; [|discriminate].
      destruct (IH _ _ _ _ E1) as (L1 & F1).
      destruct (chain_stable n LProduct sum_op (IH LProduct) _ _ _ _ _ H) as (L2 & F2).
      split; [lia|]. intros [|m] Hm; [lia|]. unfold need in *. cbn [rank] in *. cbn [rd].
      rewrite F1 by lia. apply F2; cbn [rank]; lia.
    - (* product *)
      destruct (rd n LUnary ts) as [[x r0]|] eqn:E1; [|discriminate].
      destruct (IH _ _ _ _ E1) as (L1 & F1).
      destruct (chain_stable n LUnary product_op (IH LUnary) _ _ _ _ _ H) as (L2 & F2).
      split; [lia|]. intros [|m] Hm; [lia|]. unfold need in *. cbn [rank] in *. cbn [rd].
      rewrite F1 by lia. apply F2; cbn [rank]; lia.
    - (* unary *)
      assert (Hj : rd n LJuxt ts = Some (e, r) ->
                   length r < length ts /\ forall m, need LUnary ts r < S m -> rd m LJuxt ts = Some (e, r)).
      { intros Hx. destruct (IH _ _ _ _ Hx) as (L1 & F1). split; [lia|].
        intros m Hm. apply F1. unfold need in *. cbn [rank] in *. lia. }
      destruct ts as [|t r0].
      { destruct (Hj H) as (L & F). split; [exact L|]. intros [|m] Hm; [unfold need in Hm; lia|]. cbn [rd]. apply F. exact Hm. }
      destruct t as [| |o| | | |];
        try (destruct (Hj H) as (L & F); split; [exact L|]; intros [|m] Hm; [unfold need in Hm; lia|]; cbn [rd]; apply F; exact Hm).
      destruct o;
        try (destruct (Hj H) as (L & F); split; [exact L|]; intros [|m] Hm; [unfold need in Hm; lia|]; cbn [rd]; apply F; exact Hm).
      destruct (rd n LUnary r0) as [[x r']|] eqn:E1; [|discriminate]. injection H as <- <-.
      destruct (IH _ _ _ _ E1) as (L1 & F1). cbn [length]. split; [lia|].
      intros [|m] Hm; [lia|]. cbn [rd]. rewrite F1; [reflexivity|].
      unfold need in *. cbn [rank length] in *. lia.
    - (* juxt *)
      destruct (rd n LPower ts) as [[x r0]|] eqn:E1; [|discriminate].
      destruct (IH _ _ _ _ E1) as (L1 & F1).
      destruct (juxt_chain_stable n LPower (IH LPower) _ _ _ _ _ H) as (L2 & F2).
      split; [lia|]. intros [|m] Hm; [lia|]. unfold need in *. cbn [rank] in *. cbn [rd].
      rewrite F1 by lia. apply F2; cbn [rank]; lia.
    - (* power *)
      destruct (rd n LPostfix ts) as [[x r0]|] eqn:E1; [|discriminate].
      destruct (IH _ _ _ _ E1) as (L1 & F1).
      destruct (chain_stable n LExponent power_op (IH LExponent) _ _ _ _ _ H) as (L2 & F2).
      split; [lia|]. intros [|m] Hm; [lia|]. unfold need in *. cbn [rank] in *. cbn [rd].
      rewrite F1 by lia. apply F2; cbn [rank]; lia.
    - (* exponent *)
      assert (Hj : rd n LPostfix ts = Some (e, r) ->
                   length r < length ts /\ forall m, need LExponent ts r < S m -> rd m LPostfix ts = Some (e, r)).
      { intros Hx. destruct (IH _ _ _ _ Hx) as (L1 & F1). split; [lia|].
        intros m Hm. apply F1. unfold need in *. cbn [rank] in *. lia. }
      destruct ts as [|t r0].
      { destruct (Hj H) as (L & F). split; [exact L|]. intros [|m] Hm; [unfold need in Hm; lia|]. cbn [rd]. apply F. exact Hm. }
      destruct t as [| |o| | | |];
        try (destruct (Hj H) as (L & F); split; [exact L|]; intros [|m] Hm; [unfold need in Hm; lia|]; cbn [rd]; apply F; exact Hm).
      destruct o;
        try (destruct (Hj H) as (L & F); split; [exact L|]; intros [|m] Hm; [unfold need in Hm; lia|]; cbn [rd]; apply F; exact Hm).
      destruct (rd n LExponent r0) as [[x r']|] eqn:E1; [|discriminate]. injection H as <- <-.
      destruct (IH _ _ _ _ E1) as (L1 & F1). cbn [length]. split; [lia|].
      intros [|m] Hm; [lia|]. cbn [rd]. rewrite F1; [reflexivity|].
      unfold need in *. cbn [rank length] in *. lia.
    - (* postfix *)
      destruct (rd n LAtom ts) as [[x r0]|] eqn:E1; [|discriminate].
      destruct (IH _ _ _ _ E1) as (L1 & F1). injection H as H.
      pose proof (bangs_length r0 x) as Hb. rewrite H in Hb. cbn [snd] in Hb.
      split; [lia|]. intros [|m] Hm; [lia|]. cbn [rd]. rewrite F1; [rewrite H; reflexivity|].
      unfold need in *. cbn [rank] in *. lia.
    - (* atom *)
      destruct ts as [|t r0]; [discriminate|].
      destruct t as [x|v|o|f|c| |]; try discriminate;
        try (injection H as <- <-; cbn [length]; split; [lia|]; intros [|m] Hm; [lia|reflexivity]).
      + destruct r0 as [|t2 r1]; [discriminate|]. destruct t2; try discriminate.
        destruct (rd n LSum r1) as [[x r']|] eqn:E1; [|discriminate].
        destruct r' as [|t3 r'']; [discriminate|]. destruct t3; try discriminate.
        injection H as <- <-. destruct (IH _ _ _ _ E1) as (L1 & F1). cbn [length] in *. split; [lia|].
        intros [|m] Hm; [lia|]. cbn [rd]. rewrite F1; [reflexivity|].
        unfold need in *. cbn [rank length] in *. lia.
      + destruct (rd n LSum r0) as [[x r']|] eqn:E1; [|discriminate].
        destruct r' as [|t3 r'']; [discriminate|]. destruct t3; try discriminate.
        injection H as <- <-. destruct (IH _ _ _ _ E1) as (L1 & F1). cbn [length] in *. split; [lia|].
        intros [|m] Hm; [lia|]. cbn [rd]. rewrite F1; [reflexivity|].
        unfold need in *. cbn [rank length] in *. lia.
  Qed.

  (* consequence: any success is a success with the fuel ref_read uses *)
  Lemma rd_lift n l (ts : list tok) e r m :
    rd n l ts = Some (e, r) -> 8 * length ts + 7 <= m -> rd m l ts = Some (e, r).
  Proof.
    intros H Hm. destruct (rd_stable n l ts e r H) as (L & F). apply F.
    unfold need. destruct l; cbn [rank]; lia.
  Qed.

  Lemma ref_read_of_rd n (ts : list tok) e : rd n LSum ts = Some (e, []) -> ref_read ts = Some e.
  Proof.
    intros H. unfold ref_read, ref_fuel. rewrite (rd_lift n LSum ts e [] _ H) by lia. reflexivity.
  Qed.


  (* ---- C. assembling phrases of the reference reader ---------------------------------------------- *)
  Definition no_minus_head (ts : list tok) : Prop :=
    match ts with TOp OSub :: _ => False | _ => True end.
  Definition big (ts : list tok) : nat := 8 * length ts + 8.

  Lemma asm_chain lo opof n1 n2 k (ts : list tok) x r0 a r1 l :
    (forall m, rd (S m) l ts =
               match rd m lo ts with Some (y, r) => chain m (rd m (fst opof)) (snd opof) y r | None => None end) ->
    rd n1 lo ts = Some (x, r0) ->
    chain k (rd n2 (fst opof)) (snd opof) x r0 = Some (a, r1) ->
    exists n, rd n l ts = Some (a, r1).
  Proof.
    intros Hdef H1 H2.
    destruct (rd_stable _ _ _ _ _ H1) as (L1 & _).
    destruct (chain_stable n2 (fst opof) (snd opof) (rd_stable n2 (fst opof)) _ _ _ _ _ H2) as (L2 & F2).
    exists (S (big ts)). rewrite Hdef.
    rewrite (rd_lift _ _ _ _ _ (big ts) H1) by (unfold big; lia).
    apply F2; unfold big; destruct (fst opof); cbn [rank]; lia.
  Qed.

  Lemma asm_sum n1 n2 k (ts : list tok) x r0 a r1 :
    rd n1 LProduct ts = Some (x, r0) -> chain k (rd n2 LProduct) sum_op x r0 = Some (a, r1) ->
    exists n, rd n LSum ts = Some (a, r1).
  Proof. apply (asm_chain LProduct (LProduct, sum_op)). reflexivity. Qed.

  Lemma asm_product n1 n2 k (ts : list tok) x r0 a r1 :
    rd n1 LUnary ts = Some (x, r0) -> chain k (rd n2 LUnary) product_op x r0 = Some (a, r1) ->
    exists n, rd n LProduct ts = Some (a, r1).
  Proof. apply (asm_chain LUnary (LUnary, product_op)). reflexivity. Qed.

  Lemma asm_power n1 n2 k (ts : list tok) x r0 a r1 :
    rd n1 LPostfix ts = Some (x, r0) -> chain k (rd n2 LExponent) power_op x r0 = Some (a, r1) ->
    exists n, rd n LPower ts = Some (a, r1).
  Proof. apply (asm_chain LPostfix (LExponent, power_op)). reflexivity. Qed.

  Lemma asm_juxt n1 n2 k (ts : list tok) x r0 a r1 :
    rd n1 LPower ts = Some (x, r0) -> juxt_chain k (rd n2 LPower) x r0 = Some (a, r1) ->
    exists n, rd n LJuxt ts = Some (a, r1).
  Proof.
    intros H1 H2.
    destruct (rd_stable _ _ _ _ _ H1) as (L1 & _).
    destruct (juxt_chain_stable n2 LPower (rd_stable n2 LPower) _ _ _ _ _ H2) as (L2 & F2).
    exists (S (big ts)). cbn [rd].
    rewrite (rd_lift _ _ _ _ _ (big ts) H1) by (unfold big; lia).
    apply F2; unfold big; cbn [rank]; lia.
  Qed.

  Lemma asm_unary n (ts : list tok) x : no_minus_head ts -> rd n LJuxt ts = Some x -> rd (S n) LUnary ts = Some x.
  Proof.
    intros Hm H. cbn [rd]. destruct ts as [|[| |o| | | |] r]; try exact H. destruct o; try exact H. contradiction.
  Qed.

  Lemma asm_exponent n (ts : list tok) x : no_minus_head ts -> rd n LPostfix ts = Some x -> rd (S n) LExponent ts = Some x.
  Proof.
    intros Hm H. cbn [rd]. destruct ts as [|[| |o| | | |] r]; try exact H. destruct o; try exact H. contradiction.
  Qed.

  (* a phrase behind a minus sign *)
  Lemma asm_neg_unary n (r : list tok) x s : rd n LUnary r = Some (x, s) -> rd (S n) LUnary (TOp OSub :: r) = Some (EPre OSub x, s).
  Proof. intros H. cbn [rd]. rewrite H. reflexivity. Qed.
  Lemma asm_neg_exponent n (r : list tok) x s : rd n LExponent r = Some (x, s) -> rd (S n) LExponent (TOp OSub :: r) = Some (EPre OSub x, s).
  Proof. intros H. cbn [rd]. rewrite H. reflexivity. Qed.
End Read.
