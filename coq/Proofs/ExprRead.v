(* Proofs/ExprRead.v — C19, clause 2 (partial): on token lists written with numbers, variables,
   constants, parentheses, the binary operators + - * / ^ and the postfix !, WITHOUT prefix minus,
   functions, %, explicit · and juxtaposition, the Pratt parser returns exactly the tree of the
   stratified reference reader (up to the paren flags, which carry no meaning).
   The excluded constructs are where the current code deviates (Proofs/ExprRefute.v). *)
From Coq Require Import ZArith NArith List Bool Lia.
From SV Require Import Base.Num Base.Outcome Base.Str Model.Expr Model.RefExpr Proofs.ExprTotal.
Import ListNotations.
Local Open Scope res_scope.

Section Read.
  Context {T : Type}.
  Notation tok := (token T).
  Notation tree := (expr T).

  (* ---- A. what parse_expr leaves behind (no fragment assumption) ------------------------ *)
  Definition ends_operand (t : tok) : bool :=
    match t with TNum _ | TVar _ | TConst _ | TRParen | TOp OFac => true | _ => false end.

  (* the token after a phrase parsed with minimum power bp is not a !, nor an operator of power >= bp *)
  Definition head_ok (bp : nat) (r : list tok) : Prop :=
    match r with TOp o :: _ => o <> OFac /\ binding_pow o < bp | _ => True end.
  Definition head_not_fac (r : list tok) : Prop :=
    match r with TOp OFac :: _ => False | _ => True end.

  Lemma head_ok_not_fac bp r : head_ok bp r -> head_not_fac r.
  Proof. destruct r as [|[| |o| | | |] r]; cbn; auto. destruct o; intuition congruence. Qed.

  Lemma strip_fac_head : forall (ts : list tok) l, head_not_fac (snd (strip_fac l ts)).
  Proof.
    induction ts as [|t ts IH]; intros l; cbn; [exact I|].
    destruct t as [| |o| | | |]; cbn; try exact I. destruct o; cbn; try exact I. apply IH.
  Qed.

  Definition leaves_ok (rec : list tok -> nat -> res (tree * list tok)) : Prop :=
    forall ts bp e r, rec ts bp = Ok (e, r) -> head_ok bp r.

  Lemma bin_loop_head rec : leaves_ok rec ->
    forall n l ts bp e r, head_not_fac ts -> bin_loop rec n l ts bp = Ok (e, r) -> head_ok bp r.
  Proof.
    intros Hrec. induction n as [|n IH]; intros l ts bp e r Hh H; cbn [bin_loop] in H; [discriminate|].
    destruct ts as [|t ts']; [injection H as <- <-; exact I|].
    destruct t as [| |op| | | |]; try (injection H as <- <-; exact I).
    destruct (binding_pow op <? bp)%nat eqn:Eb.
    - injection H as <- <-. cbn. apply Nat.ltb_lt in Eb. split; [|exact Eb].
      intros ->. exact Hh.
    - destruct (rec ts' (binding_pow op + 1)) as [[rg r']|e0|w] eqn:E; cbn [bind] in H; try discriminate.
      apply Hrec in E. apply (IH _ _ _ _ _ (head_ok_not_fac _ _ E) H).
  Qed.

  Lemma parse_expr_head : forall f, leaves_ok (@parse_expr T f).
  Proof.
    induction f as [|f IH]; intros ts bp e r H; [discriminate|].
    rewrite parse_expr_unfold in H.
    destruct (prefix_part f ts) as [[l r0]|e0|w] eqn:E; cbn [bind] in H; try discriminate.
    pose proof (strip_fac_head r0 l) as Hs.
    destruct (strip_fac l r0) as [l' r'] eqn:E2. cbn [snd] in Hs.
    apply (bin_loop_head _ IH _ _ _ _ _ _ Hs H).
  Qed.

  (* the last token consumed by a phrase ends an operand *)
  Definition after_operand (ts r : list tok) : Prop :=
    exists pre t, ts = pre ++ t :: r /\ ends_operand t = true.

  Lemma after_operand_cons a ts r : after_operand ts r -> after_operand (a :: ts) r.
  Proof. intros (pre & t & -> & H). exists (a :: pre), t. split; [reflexivity|exact H]. Qed.

  Lemma after_operand_trans ts r1 r2 :
    after_operand ts r1 -> (r2 = r1 \/ after_operand r1 r2) -> after_operand ts r2.
  Proof.
    intros H [->|(pre2 & t2 & -> & H2)]; [exact H|].
    destruct H as (pre & t & -> & _).
    exists (pre ++ t :: pre2), t2. split; [|exact H2].
    rewrite <- app_assoc. reflexivity.
  Qed.

  Lemma strip_fac_after : forall (ts : list tok) l,
    snd (strip_fac l ts) = ts \/ after_operand ts (snd (strip_fac l ts)).
  Proof.
    induction ts as [|t ts IH]; intros l; cbn; [left; reflexivity|].
    destruct t as [| |o| | | |]; cbn; try (left; reflexivity).
    destruct o; cbn; try (left; reflexivity).
    right. destruct (IH (EPost OFac l)) as [E|H].
    - rewrite E. exists [], (TOp OFac). split; reflexivity.
    - apply after_operand_cons. exact H.
  Qed.

  Definition ends_well (rec : list tok -> nat -> res (tree * list tok)) : Prop :=
    forall ts bp e r, rec ts bp = Ok (e, r) -> after_operand ts r.

  Lemma bin_loop_after rec : ends_well rec ->
    forall n l ts bp e r, bin_loop rec n l ts bp = Ok (e, r) -> r = ts \/ after_operand ts r.
  Proof.
    intros Hrec. induction n as [|n IH]; intros l ts bp e r H; cbn [bin_loop] in H; [discriminate|].
    destruct ts as [|t ts']; [injection H as <- <-; left; reflexivity|].
    destruct t as [| |op| | | |]; try (injection H as <- <-; left; reflexivity).
    destruct (binding_pow op <? bp)%nat; [injection H as <- <-; left; reflexivity|].
    destruct (rec ts' (binding_pow op + 1)) as [[rg r']|e0|w] eqn:E; cbn [bind] in H; try discriminate.
    apply Hrec in E. apply IH in H. right.
    apply after_operand_cons. apply (after_operand_trans _ _ _ E H).
  Qed.

  Lemma prefix_part_after f : ends_well (parse_expr f) ->
    forall ts e r, prefix_part f ts = Ok (e, r) -> after_operand ts r.
  Proof.
    intros Hrec ts e r H. unfold prefix_part in H.
    destruct ts as [|t ts']; [discriminate|].
    destruct t as [x|v|op|fn|c| |]; try discriminate;
      try (injection H as <- <-; eexists [], _; split; reflexivity).
    - destruct (oper_eqb op OSub); [|discriminate].
      destruct (parse_expr f ts' BP_PREFIX_MINUS) as [[v r1]|e0|w] eqn:E; cbn [bind] in H; try discriminate.
      injection H as <- <-. apply after_operand_cons. apply (Hrec _ _ _ _ E).
    - destruct ts' as [|t2 ts2]; [discriminate|]. destruct t2; try discriminate.
      destruct (parse_expr f (TLParen :: ts2) BP_FUNCTION_ARG) as [[v r1]|e0|w] eqn:E; cbn [bind] in H; try discriminate.
      injection H as <- <-. apply after_operand_cons. apply (Hrec _ _ _ _ E).
    - destruct (parse_expr f ts' 0) as [[v r1]|e0|w] eqn:E; cbn [bind] in H; try discriminate.
      destruct r1 as [|t1 r2]; [discriminate|]. destruct t1; try discriminate.
      injection H as <- <-. apply Hrec in E. destruct E as (pre & t & -> & _).
      exists (TLParen :: pre ++ [t]), TRParen. split; [|reflexivity].
      cbn. rewrite <- app_assoc. reflexivity.
  Qed.

  Lemma parse_expr_after : forall f, ends_well (@parse_expr T f).
  Proof.
    induction f as [|f IH]; intros ts bp e r H; [discriminate|].
    rewrite parse_expr_unfold in H.
    destruct (prefix_part f ts) as [[l r0]|e0|w] eqn:E; cbn [bind] in H; try discriminate.
    apply (prefix_part_after f IH) in E.
    pose proof (strip_fac_after r0 l) as Hs.
    destruct (strip_fac l r0) as [l' r'] eqn:E2. cbn [snd] in Hs.
    apply (bin_loop_after _ IH) in H.
    apply (after_operand_trans _ _ _ (after_operand_trans _ _ _ E Hs) H).
  Qed.

  (* ---- B. fuel of the reference reader: enough is enough ------------------------------------ *)
  Definition rank (l : level) : nat :=
    match l with
    | LSum => 6 | LProduct => 5 | LUnary => 4 | LJuxt => 3 | LPower => 2 | LExponent => 2
    | LPostfix => 1 | LAtom => 0
    end.
  Definition need (l : level) (ts r : list tok) : nat := 8 * (length ts - length r) + rank l.

  (* a reader that consumes at least one token and whose result does not depend on surplus fuel *)
  Definition stable (n : nat) (l : level) : Prop :=
    forall ts e r, @rd T n l ts = Some (e, r) ->
      length r < length ts /\ forall m, need l ts r < m -> rd m l ts = Some (e, r).

  Lemma chain_stable n lo opof : stable n lo ->
    forall k (acc : tree) (ts : list tok) e r, chain k (rd n lo) opof acc ts = Some (e, r) ->
      length r <= length ts /\
      forall k' m, length ts - length r < k' -> 8 * (length ts - length r) + rank lo < m + 8 ->
                   chain k' (rd m lo) opof acc ts = Some (e, r).
  Proof.
    intros Hst. induction k as [|k IH]; intros acc ts e r H; [discriminate|].
    cbn [chain] in H. destruct ts as [|t r0].
    { injection H as <- <-. split; [lia|]. intros [|k'] m Hk _; [lia|reflexivity]. }
    destruct (opof t) as [o|] eqn:Eo.
    2:{ injection H as <- <-. split; [lia|]. intros [|k'] m Hk _; [lia|]. cbn [chain]. rewrite Eo. reflexivity. }
    destruct (rd n lo r0) as [[x r']|] eqn:Er; [|discriminate].
    destruct (Hst _ _ _ Er) as (Hlen & Hlift).
    destruct (IH _ _ _ _ H) as (Hlen2 & Hlift2).
    cbn [length]. split; [lia|].
    intros [|k'] m Hk Hm; [lia|]. cbn [chain]. rewrite Eo.
    rewrite (Hlift m) by (unfold need; lia).
    apply Hlift2; lia.
  Qed.

  Lemma juxt_chain_stable n lo : stable n lo ->
    forall k (acc : tree) (ts : list tok) e r, juxt_chain k (rd n lo) acc ts = Some (e, r) ->
      length r <= length ts /\
      forall k' m, length ts - length r < k' -> 8 * (length ts - length r) + rank lo < m ->
                   juxt_chain k' (rd m lo) acc ts = Some (e, r).
  Proof.
    intros Hst. induction k as [|k IH]; intros acc ts e r H; [discriminate|].
    cbn [juxt_chain] in H. destruct ts as [|t r0].
    { injection H as <- <-. split; [lia|]. intros [|k'] m Hk _; [lia|reflexivity]. }
    destruct (starts_atom t) eqn:Ea.
    2:{ injection H as <- <-. split; [lia|]. intros [|k'] m Hk _; [lia|]. cbn [juxt_chain]. rewrite Ea. reflexivity. }
    destruct (rd n lo (t :: r0)) as [[x r']|] eqn:Er; [|discriminate].
    destruct (Hst _ _ _ Er) as (Hlen & Hlift).
    destruct (IH _ _ _ _ H) as (Hlen2 & Hlift2).
    split; [lia|].
    intros [|k'] m Hk Hm; [lia|]. cbn [juxt_chain]. rewrite Ea.
    rewrite (Hlift m) by (unfold need; lia).
    apply Hlift2; lia.
  Qed.

  Lemma bangs_length : forall (ts : list tok) acc, length (snd (bangs acc ts)) <= length ts.
  Proof.
    induction ts as [|t ts IH]; intros acc; cbn; [lia|].
    destruct t as [| |o| | | |]; cbn; try lia. destruct o; cbn; try lia. specialize (IH (EPost OFac acc)). lia.
  Qed.

  Lemma rd_stable : forall n l, stable n l.
  Proof.
    induction n as [|n IH]; intros l ts e r H; [discriminate|].
    destruct l; cbn [rd] in H.
    - (* sum *)
      destruct (rd n LProduct ts) as [[x r0]|] eqn:E1; [|discriminate].
      destruct (IH _ _ _ _ E1) as (L1 & F1).
      destruct (chain_stable n LProduct sum_op (IH LProduct) _ _ _ _ _ H) as (L2 & F2).
      split; [lia|]. intros [|m] Hm; [lia|]. unfold need in *. cbn [rank] in *. cbn [rd].
      rewrite F1 by lia. apply F2; cbn [rank]; lia.
    - (* product *)
      destruct (rd n LUnary ts) as [[x r0]|] eqn:E1; [|discriminate].
      destruct (IH _ _ _ _ E1) as (L1 & F1).
      destruct (chain_stable n LUnary product_op (IH LUnary) _ _ _ _ _ H) as (L2 & F2).
      split; [lia|]. intros [|m] Hm; [lia|]. unfold need in *. cbn [rank] in *. cbn [rd].
      rewrite F1 by lia. apply F2; cbn [rank]; lia.
    - (* unary *)
      assert (Hj : rd n LJuxt ts = Some (e, r) ->
                   length r < length ts /\ forall m, need LUnary ts r < S m -> rd m LJuxt ts = Some (e, r)).
      { intros Hx. destruct (IH _ _ _ _ Hx) as (L1 & F1). split; [lia|].
        intros m Hm. apply F1. unfold need in *. cbn [rank] in *. lia. }
      destruct ts as [|t r0].
      { destruct (Hj H) as (L & F). split; [exact L|]. intros [|m] Hm; [unfold need in Hm; lia|]. cbn [rd]. apply F. exact Hm. }
      destruct t as [| |o| | | |];
        try (destruct (Hj H) as (L & F); split; [exact L|]; intros [|m] Hm; [unfold need in Hm; lia|]; cbn [rd]; apply F; exact Hm).
      destruct o;
        try (destruct (Hj H) as (L & F); split; [exact L|]; intros [|m] Hm; [unfold need in Hm; lia|]; cbn [rd]; apply F; exact Hm).
      destruct (rd n LUnary r0) as [[x r']|] eqn:E1; [|discriminate]. injection H as <- <-.
      destruct (IH _ _ _ _ E1) as (L1 & F1). cbn [length]. split; [lia|].
      intros [|m] Hm; [lia|]. cbn [rd]. rewrite F1; [reflexivity|].
      unfold need in *. cbn [rank length] in *. lia.
    - (* juxt *)
      destruct (rd n LPower ts) as [[x r0]|] eqn:E1; [|discriminate].
      destruct (IH _ _ _ _ E1) as (L1 & F1).
      destruct (juxt_chain_stable n LPower (IH LPower) _ _ _ _ _ H) as (L2 & F2).
      split; [lia|]. intros [|m] Hm; [lia|]. unfold need in *. cbn [rank] in *. cbn [rd].
      rewrite F1 by lia. apply F2; cbn [rank]; lia.
    - (* power *)
      destruct (rd n LPostfix ts) as [[x r0]|] eqn:E1; [|discriminate].
      destruct (IH _ _ _ _ E1) as (L1 & F1).
      destruct (chain_stable n LExponent power_op (IH LExponent) _ _ _ _ _ H) as (L2 & F2).
      split; [lia|]. intros [|m] Hm; [lia|]. unfold need in *. cbn [rank] in *. cbn [rd].
      rewrite F1 by lia. apply F2; cbn [rank]; lia.
    - (* exponent *)
      assert (Hj : rd n LPostfix ts = Some (e, r) ->
                   length r < length ts /\ forall m, need LExponent ts r < S m -> rd m LPostfix ts = Some (e, r)).
      { intros Hx. destruct (IH _ _ _ _ Hx) as (L1 & F1). split; [lia|].
        intros m Hm. apply F1. unfold need in *. cbn [rank] in *. lia. }
      destruct ts as [|t r0].
      { destruct (Hj H) as (L & F). split; [exact L|]. intros [|m] Hm; [unfold need in Hm; lia|]. cbn [rd]. apply F. exact Hm. }
      destruct t as [| |o| | | |];
        try (destruct (Hj H) as (L & F); split; [exact L|]; intros [|m] Hm; [unfold need in Hm; lia|]; cbn [rd]; apply F; exact Hm).
      destruct o;
        try (destruct (Hj H) as (L & F); split; [exact L|]; intros [|m] Hm; [unfold need in Hm; lia|]; cbn [rd]; apply F; exact Hm).
      destruct (rd n LUnary r0) as [[x r']|] eqn:E1; [|discriminate]. injection H as <- <-.
      destruct (IH _ _ _ _ E1) as (L1 & F1). cbn [length]. split; [lia|].
      intros [|m] Hm; [lia|]. cbn [rd]. rewrite F1; [reflexivity|].
      unfold need in *. cbn [rank length] in *. lia.
    - (* postfix *)
      destruct (rd n LAtom ts) as [[x r0]|] eqn:E1; [|discriminate].
      destruct (IH _ _ _ _ E1) as (L1 & F1). injection H as H.
      pose proof (bangs_length r0 x) as Hb. rewrite H in Hb. cbn [snd] in Hb.
      split; [lia|]. intros [|m] Hm; [lia|]. cbn [rd]. rewrite F1; [rewrite H; reflexivity|].
      unfold need in *. cbn [rank] in *. lia.
    - (* atom *)
      destruct ts as [|t r0]; [discriminate|].
      destruct t as [x|v|o|f|c| |]; try discriminate;
        try (injection H as <- <-; cbn [length]; split; [lia|]; intros [|m] Hm; [lia|reflexivity]).
      + destruct r0 as [|t2 r1]; [discriminate|]. destruct t2; try discriminate.
        destruct (rd n LSum r1) as [[x r']|] eqn:E1; [|discriminate].
        destruct r' as [|t3 r'']; [discriminate|]. destruct t3; try discriminate.
        injection H as <- <-. destruct (IH _ _ _ _ E1) as (L1 & F1). cbn [length] in *. split; [lia|].
        intros [|m] Hm; [lia|]. cbn [rd]. rewrite F1; [reflexivity|].
        unfold need in *. cbn [rank length] in *. lia.
      + destruct (rd n LSum r0) as [[x r']|] eqn:E1; [|discriminate].
        destruct r' as [|t3 r'']; [discriminate|]. destruct t3; try discriminate.
        injection H as <- <-. destruct (IH _ _ _ _ E1) as (L1 & F1). cbn [length] in *. split; [lia|].
        intros [|m] Hm; [lia|]. cbn [rd]. rewrite F1; [reflexivity|].
        unfold need in *. cbn [rank length] in *. lia.
  Qed.

  (* consequence: any success is a success with the fuel ref_read uses *)
  Lemma rd_lift n l (ts : list tok) e r m :
    rd n l ts = Some (e, r) -> 8 * length ts + 7 <= m -> rd m l ts = Some (e, r).
  Proof.
    intros H Hm. destruct (rd_stable n l ts e r H) as (L & F). apply F.
    unfold need. destruct l; cbn [rank]; lia.
  Qed.

  Lemma ref_read_of_rd n (ts : list tok) e : rd n LSum ts = Some (e, []) -> ref_read ts = Some e.
  Proof.
    intros H. unfold ref_read, ref_fuel. rewrite (rd_lift n LSum ts e [] _ H) by lia. reflexivity.
  Qed.

  (* ---- C. the fragment -------------------------------------------------------------------------- *)
  (* trees up to the paren flag *)
  Fixpoint erase (e : tree) : tree :=
    match e with
    | EFun f i => EFun f (erase i)
    | EPre o v => EPre o (erase v)
    | EPost o v => EPost o (erase v)
    | EBin o l r _ => EBin o (erase l) (erase r) false
    | _ => e
    end.

  Lemma erase_set_paren e : erase (set_paren e) = erase e.
  Proof. destruct e; reflexivity. Qed.

  Lemma strip_fac_bangs : forall (ts : list tok) l,
    bangs (erase l) ts = (erase (fst (strip_fac l ts)), snd (strip_fac l ts)).
  Proof.
    induction ts as [|t ts IH]; intros l; cbn; [reflexivity|].
    destruct t as [| |o| | | |]; cbn; try reflexivity. destruct o; cbn; try reflexivity.
    apply (IH (EPost OFac l)).
  Qed.

  (* tokens of the fragment: no function, no %, no explicit · *)
  Definition plain (t : tok) : bool :=
    match t with TFun _ => false | TOp ORem => false | TOp OCDot => false | _ => true end.
  (* neighbours: no juxtaposition (an operand end followed by an operand start), and a minus only
     after an operand end (so it is a binary minus) *)
  Definition pair_ok (a b : tok) : bool :=
    negb (ends_operand a && starts_atom b)
    && match b with TOp OSub => ends_operand a | _ => true end.
  Fixpoint frag_tail (ts : list tok) : bool :=
    match ts with
    | a :: r => plain a && match r with b :: _ => pair_ok a b | [] => true end && frag_tail r
    | [] => true
    end.
  Definition no_minus_head (ts : list tok) : Prop :=
    match ts with TOp OSub :: _ => False | _ => True end.
  Definition fragment (ts : list tok) : Prop := frag_tail ts = true /\ no_minus_head ts.

  Lemma frag_tail_cons a r : frag_tail (a :: r) = true -> plain a = true /\ frag_tail r = true.
  Proof. cbn [frag_tail]. intros H. apply andb_prop in H as [H H2]. apply andb_prop in H as [H1 _]. auto. Qed.

  Lemma frag_tail_app : forall pre r, frag_tail (pre ++ r) = true -> frag_tail r = true.
  Proof.
    induction pre as [|a pre IH]; intros r H; [exact H|].
    apply IH. apply (frag_tail_cons a). exact H.
  Qed.

  Lemma frag_tail_pair a b r : frag_tail (a :: b :: r) = true -> pair_ok a b = true.
  Proof. cbn [frag_tail]. intros H. apply andb_prop in H as [H _]. apply andb_prop in H as [_ H]. exact H. Qed.

  (* the next token does not start an operand *)
  Definition calm (r : list tok) : Prop :=
    match r with b :: _ => starts_atom b = false | [] => True end.

  Lemma after_calm ts r : frag_tail ts = true -> after_operand ts r -> calm r.
  Proof.
    intros Hf (pre & t & -> & Ht). apply frag_tail_app in Hf.
    destruct r as [|b r]; [exact I|]. apply frag_tail_pair in Hf.
    unfold pair_ok in Hf. rewrite Ht in Hf. cbn. destruct (starts_atom b); [discriminate|reflexivity].
  Qed.

  Lemma after_suffix ts r : frag_tail ts = true -> after_operand ts r -> frag_tail r = true.
  Proof.
    intros Hf (pre & t & -> & _). apply frag_tail_app in Hf. apply (frag_tail_cons t). exact Hf.
  Qed.

  Lemma no_minus_after a r :
    frag_tail (a :: r) = true -> ends_operand a = false -> no_minus_head r.
  Proof.
    intros Hf Ha. destruct r as [|b r]; [exact I|]. apply frag_tail_pair in Hf.
    unfold pair_ok in Hf. rewrite Ha in Hf. cbn in Hf.
    destruct b as [| |o| | | |]; try exact I. destruct o; try exact I. discriminate.
  Qed.

  (* ---- D. assembling phrases of the reference reader ---------------------------------------------- *)
  Definition big (ts : list tok) : nat := 8 * length ts + 8.

  Lemma asm_chain lo opof n1 n2 k (ts : list tok) x r0 a r1 l :
    (forall m, rd (S m) l ts =
               match rd m lo ts with Some (y, r) => chain m (rd m (fst opof)) (snd opof) y r | None => None end) ->
    rd n1 lo ts = Some (x, r0) ->
    chain k (rd n2 (fst opof)) (snd opof) x r0 = Some (a, r1) ->
    exists n, rd n l ts = Some (a, r1).
  Proof.
    intros Hdef H1 H2.
    destruct (rd_stable _ _ _ _ _ H1) as (L1 & _).
    destruct (chain_stable n2 (fst opof) (snd opof) (rd_stable n2 (fst opof)) _ _ _ _ _ H2) as (L2 & F2).
    exists (S (big ts)). rewrite Hdef.
    rewrite (rd_lift _ _ _ _ _ (big ts) H1) by (unfold big; lia).
    apply F2; unfold big; destruct (fst opof); cbn [rank]; lia.
  Qed.

  Lemma asm_sum n1 n2 k (ts : list tok) x r0 a r1 :
    rd n1 LProduct ts = Some (x, r0) -> chain k (rd n2 LProduct) sum_op x r0 = Some (a, r1) ->
    exists n, rd n LSum ts = Some (a, r1).
  Proof. apply (asm_chain LProduct (LProduct, sum_op)). reflexivity. Qed.

  Lemma asm_product n1 n2 k (ts : list tok) x r0 a r1 :
    rd n1 LUnary ts = Some (x, r0) -> chain k (rd n2 LUnary) product_op x r0 = Some (a, r1) ->
    exists n, rd n LProduct ts = Some (a, r1).
  Proof. apply (asm_chain LUnary (LUnary, product_op)). reflexivity. Qed.

  Lemma asm_power n1 n2 k (ts : list tok) x r0 a r1 :
    rd n1 LPostfix ts = Some (x, r0) -> chain k (rd n2 LExponent) power_op x r0 = Some (a, r1) ->
    exists n, rd n LPower ts = Some (a, r1).
  Proof. apply (asm_chain LPostfix (LExponent, power_op)). reflexivity. Qed.

  Lemma asm_juxt n1 n2 k (ts : list tok) x r0 a r1 :
    rd n1 LPower ts = Some (x, r0) -> juxt_chain k (rd n2 LPower) x r0 = Some (a, r1) ->
    exists n, rd n LJuxt ts = Some (a, r1).
  Proof.
    intros H1 H2.
    destruct (rd_stable _ _ _ _ _ H1) as (L1 & _).
    destruct (juxt_chain_stable n2 LPower (rd_stable n2 LPower) _ _ _ _ _ H2) as (L2 & F2).
    exists (S (big ts)). cbn [rd].
    rewrite (rd_lift _ _ _ _ _ (big ts) H1) by (unfold big; lia).
    apply F2; unfold big; cbn [rank]; lia.
  Qed.

  Lemma asm_unary n (ts : list tok) x : no_minus_head ts -> rd n LJuxt ts = Some x -> rd (S n) LUnary ts = Some x.
  Proof.
    intros Hm H. cbn [rd]. destruct ts as [|[| |o| | | |] r]; try exact H. destruct o; try exact H. contradiction.
  Qed.

  Lemma asm_exponent n (ts : list tok) x : no_minus_head ts -> rd n LPostfix ts = Some x -> rd (S n) LExponent ts = Some x.
  Proof.
    intros Hm H. cbn [rd]. destruct ts as [|[| |o| | | |] r]; try exact H. destruct o; try exact H. contradiction.
  Qed.

  (* ---- E. the simulation ------------------------------------------------------------------------------ *)
  (* what the reference reader does after a postfix phrase, down to the level that corresponds to bp *)
  Definition tails (K1 K2 K3 K4 N bp : nat) (acc : tree) (ts : list tok) : phrase :=
    if 6 <=? bp then Some (acc, ts) else
    match chain K1 (rd N LExponent) power_op acc ts with
    | None => None
    | Some (a, r1) =>
      match juxt_chain K2 (rd N LPower) a r1 with
      | None => None
      | Some (a2, r2) =>
        if 3 <=? bp then Some (a2, r2) else
        match chain K3 (rd N LUnary) product_op a2 r2 with
        | None => None
        | Some (b, r3) => if 2 <=? bp then Some (b, r3) else chain K4 (rd N LProduct) sum_op b r3
        end
      end
    end.

  Definition level_of (bp : nat) : level :=
    if 6 <=? bp then LExponent else if 3 <=? bp then LUnary else if 2 <=? bp then LProduct else LSum.

  Definition Sim (f : nat) : Prop :=
    forall ts bp e r, frag_tail ts = true -> no_minus_head ts ->
      @parse_expr T f ts bp = Ok (e, r) -> exists n, rd n (level_of bp) ts = Some (erase e, r).

  Lemma power_skip bp (r : list tok) : head_ok bp r -> bp <= 5 ->
    forall K operand acc, chain (S K) operand power_op acc r = Some (acc, r).
  Proof.
    intros H Hb K operand acc. destruct r as [|[| |o| | | |] r]; cbn; try reflexivity.
    destruct o; cbn in *; try reflexivity. lia.
  Qed.

  Lemma product_skip bp (r : list tok) : head_ok bp r -> bp <= 2 ->
    forall K operand acc, chain (S K) operand product_op acc r = Some (acc, r).
  Proof.
    intros H Hb K operand acc. destruct r as [|[| |o| | | |] r]; cbn; try reflexivity.
    destruct o; cbn in *; try reflexivity; lia.
  Qed.

  Lemma juxt_skip (r : list tok) : calm r ->
    forall K operand acc, juxt_chain (S K) operand acc r = Some (acc, r).
  Proof.
    intros H K operand acc. destruct r as [|t r]; cbn; [reflexivity|]. cbn in H. rewrite H. reflexivity.
  Qed.

  Lemma tails_stop K1 K2 K3 K4 N bp acc (ts : list tok) :
    calm ts ->
    match ts with TOp o :: _ => plain (TOp o) = true /\ o <> OFac /\ binding_pow o < bp | _ => True end ->
    tails (S K1) (S K2) (S K3) (S K4) N bp acc ts = Some (acc, ts).
  Proof.
    intros Hc Ho. unfold tails.
    destruct (Nat.leb_spec 6 bp) as [H6|H6]; [reflexivity|].
    destruct ts as [|t r].
    { cbn [chain juxt_chain]. destruct (3 <=? bp); [reflexivity|]. destruct (2 <=? bp); reflexivity. }
    destruct t as [x|v|o|fn|c| |]; try (cbn in Hc; discriminate);
      try (cbn [chain juxt_chain starts_atom power_op product_op sum_op];
           destruct (3 <=? bp); [reflexivity|]; destruct (2 <=? bp); reflexivity).
    destruct Ho as (Hp & Hf & Hb).
    destruct o; cbn in Hp, Hb; try discriminate; try contradiction;
      cbn [chain juxt_chain starts_atom power_op product_op sum_op].
    - (* Add *) destruct (Nat.leb_spec 3 bp); [reflexivity|]. destruct (Nat.leb_spec 2 bp); [reflexivity|lia].
    - (* Sub *) destruct (Nat.leb_spec 3 bp); [reflexivity|]. destruct (Nat.leb_spec 2 bp); [reflexivity|lia].
    - (* Div *) destruct (Nat.leb_spec 3 bp); [reflexivity|lia].
    - (* Mul *) destruct (Nat.leb_spec 3 bp); [reflexivity|lia].
    - (* Caret *) lia.
  Qed.

  Lemma bin_loop_sim f : Sim f ->
    forall n l ts bp e r, frag_tail ts = true -> head_not_fac ts -> calm ts ->
      bin_loop (parse_expr f) n l ts bp = Ok (e, r) ->
      exists K0 N0, forall K1 K2 K3 K4 N, K0 <= K1 -> K0 <= K2 -> K0 <= K3 -> K0 <= K4 -> N0 <= N ->
        tails K1 K2 K3 K4 N bp (erase l) ts = Some (erase e, r).
  Proof.
    intros HSim. induction n as [|n IH]; intros l ts bp e r Hf Hnf Hc H; [discriminate|].
    cbn [bin_loop] in H.
    assert (Hstop : forall (x : tree) (rr : list tok), Ok (l, ts) = Ok (x, rr) ->
              match ts with TOp o :: _ => plain (TOp o) = true /\ o <> OFac /\ binding_pow o < bp | _ => True end ->
              exists K0 N0, forall K1 K2 K3 K4 N, K0 <= K1 -> K0 <= K2 -> K0 <= K3 -> K0 <= K4 -> N0 <= N ->
                tails K1 K2 K3 K4 N bp (erase l) ts = Some (erase x, rr)).
    { intros x rr Hx Ho. injection Hx as <- <-. exists 1, 0.
      intros [|K1] [|K2] [|K3] [|K4] N; try lia. intros _ _ _ _ _. apply tails_stop; assumption. }
    destruct ts as [|t ts']; [apply (Hstop _ _ H I)|].
    destruct t as [x|v|op|fn|c| |]; try (apply (Hstop _ _ H I)).
    destruct (frag_tail_cons _ _ Hf) as (Hplain & Hf').
    assert (Hnfac : op <> OFac) by (intros ->; exact Hnf).
    destruct (binding_pow op <? bp)%nat eqn:Eb.
    { apply (Hstop _ _ H). apply Nat.ltb_lt in Eb. auto. }
    apply Nat.ltb_ge in Eb.
    destruct (parse_expr f ts' (binding_pow op + 1)) as [[rg r']|e0|w] eqn:E; cbn [bind] in H; try discriminate.
    pose proof (parse_expr_head f _ _ _ _ E) as Hhead.
    pose proof (parse_expr_after f _ _ _ _ E) as Haft.
    pose proof (after_suffix _ _ Hf' Haft) as Hfr'.
    pose proof (after_calm _ _ Hf' Haft) as Hcalm'.
    assert (Hnm : no_minus_head ts').
    { apply (no_minus_after (TOp op)); [exact Hf|]. destruct op; try reflexivity. contradiction. }
    destruct (HSim _ _ _ _ Hf' Hnm E) as (n1 & Hoperand).
    destruct (IH _ _ _ _ _ Hfr' (head_ok_not_fac _ _ Hhead) Hcalm' H) as (K0 & N0 & HIH).
    exists (S (S K0)), (Nat.max N0 (8 * length ts' + 7)).
    intros K1 K2 K3 K4 N HK1 HK2 HK3 HK4 HN.
    pose proof (rd_lift _ _ _ _ _ N Hoperand ltac:(lia)) as Hop. clear Hoperand.
    destruct K1 as [|K1]; [lia|]. destruct K2 as [|K2]; [lia|].
    destruct K3 as [|K3]; [lia|]. destruct K4 as [|K4]; [lia|].
    destruct op; cbn in Hplain, Eb, Hhead, Hop; try discriminate; try contradiction;
      cbn [oper_eqb] in HIH; cbn [erase] in HIH.
    - (* Add *)
      specialize (HIH (S K1) (S K2) (S K3) K4 N ltac:(lia) ltac:(lia) ltac:(lia) ltac:(lia) ltac:(lia)).
      unfold tails in HIH |- *.
      destruct (Nat.leb_spec 6 bp); [lia|]. destruct (Nat.leb_spec 3 bp); [lia|]. destruct (Nat.leb_spec 2 bp); [lia|].
      rewrite (power_skip 2 _ Hhead ltac:(lia)), (juxt_skip _ Hcalm'), (product_skip 2 _ Hhead ltac:(lia)) in HIH.
      cbn [chain juxt_chain power_op product_op sum_op starts_atom]. unfold level_of in Hop. cbn in Hop.
      rewrite Hop. exact HIH.
    - (* Sub *)
      specialize (HIH (S K1) (S K2) (S K3) K4 N ltac:(lia) ltac:(lia) ltac:(lia) ltac:(lia) ltac:(lia)).
      unfold tails in HIH |- *.
      destruct (Nat.leb_spec 6 bp); [lia|]. destruct (Nat.leb_spec 3 bp); [lia|]. destruct (Nat.leb_spec 2 bp); [lia|].
      rewrite (power_skip 2 _ Hhead ltac:(lia)), (juxt_skip _ Hcalm'), (product_skip 2 _ Hhead ltac:(lia)) in HIH.
      cbn [chain juxt_chain power_op product_op sum_op starts_atom]. unfold level_of in Hop. cbn in Hop.
      rewrite Hop. exact HIH.
    - (* Div *)
      specialize (HIH (S K1) (S K2) K3 (S K4) N ltac:(lia) ltac:(lia) ltac:(lia) ltac:(lia) ltac:(lia)).
      unfold tails in HIH |- *.
      destruct (Nat.leb_spec 6 bp); [lia|]. destruct (Nat.leb_spec 3 bp); [lia|].
      rewrite (power_skip 3 _ Hhead ltac:(lia)), (juxt_skip _ Hcalm') in HIH.
      cbn [chain juxt_chain power_op product_op sum_op starts_atom]. unfold level_of in Hop. cbn in Hop.
      rewrite Hop. exact HIH.
    - (* Mul *)
      specialize (HIH (S K1) (S K2) K3 (S K4) N ltac:(lia) ltac:(lia) ltac:(lia) ltac:(lia) ltac:(lia)).
      unfold tails in HIH |- *.
      destruct (Nat.leb_spec 6 bp); [lia|]. destruct (Nat.leb_spec 3 bp); [lia|].
      rewrite (power_skip 3 _ Hhead ltac:(lia)), (juxt_skip _ Hcalm') in HIH.
      cbn [chain juxt_chain power_op product_op sum_op starts_atom]. unfold level_of in Hop. cbn in Hop.
      rewrite Hop. exact HIH.
    - (* Caret *)
      specialize (HIH K1 (S K2) (S K3) (S K4) N ltac:(lia) ltac:(lia) ltac:(lia) ltac:(lia) ltac:(lia)).
      unfold tails in HIH |- *.
      destruct (Nat.leb_spec 6 bp); [lia|].
      cbn [chain power_op]. unfold level_of in Hop. cbn in Hop.
      rewrite Hop. exact HIH.
  Qed.

  Lemma sim : forall f, Sim f.
  Proof.
    induction f as [|f IHf]; intros ts bp e r Hf Hnm H; [discriminate|].
    rewrite parse_expr_unfold in H.
    destruct (prefix_part f ts) as [[l r0]|e0|w] eqn:E; cbn [bind] in H; try discriminate.
    pose proof (prefix_part_after f (parse_expr_after f) _ _ _ E) as Haft0.
    (* the atom *)
    assert (Hatom : exists n, rd n LAtom ts = Some (erase l, r0)).
    { unfold prefix_part in E. destruct ts as [|t ts']; [discriminate|].
      destruct (frag_tail_cons _ _ Hf) as (Hplain & Hf').
      destruct t as [x|v|op|fn|c| |]; try discriminate;
        try (injection E as <- <-; exists 1; reflexivity).
      - destruct (oper_eqb op OSub) eqn:Eo; [|discriminate]. destruct op; try discriminate. contradiction.
      - destruct (parse_expr f ts' 0) as [[e1 r1]|e1|w1] eqn:E1; cbn [bind] in E; try discriminate.
        destruct r1 as [|t1 r2]; [discriminate|]. destruct t1; try discriminate.
        injection E as <- <-.
        assert (Hnm' : no_minus_head ts') by (apply (no_minus_after TLParen); [exact Hf|reflexivity]).
        destruct (IHf _ _ _ _ Hf' Hnm' E1) as (n & Hn). unfold level_of in Hn. cbn in Hn.
        exists (S n). cbn [rd]. rewrite Hn. rewrite erase_set_paren. reflexivity. }
    destruct Hatom as (na & Hatom).
    pose proof (strip_fac_bangs r0 l) as Hb.
    pose proof (strip_fac_head r0 l) as Hsf.
    pose proof (strip_fac_after r0 l) as Hsa.
    destruct (strip_fac l r0) as [l' r'] eqn:E2. cbn [fst snd] in Hb, Hsf, Hsa.
    assert (Hpost : rd (S na) LPostfix ts = Some (erase l', r')).
    { cbn [rd]. rewrite Hatom, Hb. reflexivity. }
    pose proof (after_operand_trans _ _ _ Haft0 Hsa) as Haft.
    pose proof (after_suffix _ _ Hf Haft) as Hfr'.
    pose proof (after_calm _ _ Hf Haft) as Hcalm'.
    destruct (bin_loop_sim f IHf _ _ _ _ _ _ Hfr' Hsf Hcalm' H) as (K0 & N0 & Ht).
    specialize (Ht K0 K0 K0 K0 N0 (le_n _) (le_n _) (le_n _) (le_n _) (le_n _)).
    unfold tails in Ht. unfold level_of.
    destruct (6 <=? bp).
    { injection Ht as <- <-. exists (S (S na)). apply asm_exponent; assumption. }
    destruct (chain K0 (rd N0 LExponent) power_op (erase l') r') as [[a r1]|] eqn:C1; [|discriminate].
    destruct (juxt_chain K0 (rd N0 LPower) a r1) as [[a2 r2]|] eqn:C2; [|discriminate].
    destruct (asm_power _ _ _ _ _ _ _ _ Hpost C1) as (np & Hp).
    destruct (asm_juxt _ _ _ _ _ _ _ _ Hp C2) as (nj & Hj).
    pose proof (asm_unary _ _ _ Hnm Hj) as Hu.
    destruct (3 <=? bp).
    { injection Ht as <- <-. exists (S nj). exact Hu. }
    destruct (chain K0 (rd N0 LUnary) product_op a2 r2) as [[b r3]|] eqn:C3; [|discriminate].
    destruct (asm_product _ _ _ _ _ _ _ _ Hu C3) as (npr & Hpr).
    destruct (2 <=? bp).
    { injection Ht as <- <-. exists npr. exact Hpr. }
    apply (asm_sum _ _ _ _ _ _ _ _ Hpr Ht).
  Qed.

  (* implied_mul inserts nothing into a text of the fragment *)
  Lemma needs_cdot_pair a b : @needs_cdot T a b = true -> ends_operand a && starts_atom b = true.
  Proof. destruct a, b; cbn; try discriminate; reflexivity. Qed.

  Lemma implied_mul_fragment : forall ts : list tok, frag_tail ts = true -> implied_mul ts = ts.
  Proof.
    induction ts as [|a r IH]; intros Hf; [reflexivity|].
    destruct (frag_tail_cons _ _ Hf) as (_ & Hf').
    cbn [implied_mul]. destruct r as [|b r']; [reflexivity|].
    pose proof (frag_tail_pair _ _ _ Hf) as Hp. unfold pair_ok in Hp.
    destruct (needs_cdot a b) eqn:En.
    - apply needs_cdot_pair in En. rewrite En in Hp. discriminate.
    - rewrite (IH Hf'). reflexivity.
  Qed.

  Lemma parse_unfolded_reads : forall (ts : list tok) e,
    fragment ts -> parse_unfolded ts = Ok e -> ref_read ts = Some (erase e).
  Proof.
    intros ts e (Hf & Hnm) H. unfold parse_unfolded in H.
    rewrite (implied_mul_fragment ts Hf) in H.
    destruct (parse_expr (S (length ts)) ts 0) as [[e1 r]|e1|w] eqn:E; cbn [bind] in H; try discriminate.
    destruct r; [|discriminate]. injection H as <-.
    destruct (sim _ _ _ _ _ Hf Hnm E) as (n & Hn).
    apply (ref_read_of_rd n). exact Hn.
  Qed.
End Read.

(* ---- F. values (R instance) --------------------------------------------------------------------------- *)
From Coq Require Import Reals.
From SV Require Import Proofs.ExprFold.

Lemma denote_erase : forall (e : expr R) rho, denote (erase e) rho = denote e rho.
Proof.
  induction e as [x|s|c|f i IH|o s IH|o s IH|op l IHl r IHr p]; intros rho; cbn [erase denote]; try reflexivity.
  - rewrite IH. reflexivity.
  - rewrite IH. reflexivity.
  - rewrite IH. reflexivity.
  - rewrite IHl, IHr. reflexivity.
Qed.

(* on the fragment the unfolded tree of the parser IS the conventional reading *)
Lemma c19_parser_reads_partial_lemma : forall (ts : list (token R)) (e : expr R),
  fragment ts -> parse_unfolded ts = Ok e ->
  exists e', ref_read ts = Some e' /\ e' = erase e /\ forall rho, denote e rho = denote e' rho.
Proof.
  intros ts e Hf H. exists (erase e). split; [apply parse_unfolded_reads; assumption|].
  split; [reflexivity|]. intros rho. symmetry. apply denote_erase.
Qed.

(* ... and the folded tree returned by parser has the value of the reading wherever that value is
   defined and the fold is sound (Proofs/ExprFold.v) *)
Lemma c19_parser_reads_folded_partial_lemma : forall (ts : list (token R)) (e : expr R),
  fragment ts -> parser ts = Ok e ->
  exists u e', parse_unfolded ts = Ok u /\ ref_read ts = Some e' /\
    forall rho v, denote e' rho = Some v -> pow_safe u rho -> denote e rho = Some v.
Proof.
  intros ts e Hf H. unfold parser in H.
  destruct (parse_unfolded ts) as [u|e0|w] eqn:E; cbn [bind] in H; try discriminate.
  exists u, (erase u). split; [reflexivity|]. split; [apply parse_unfolded_reads; assumption|].
  intros rho v Hv Hs. rewrite denote_erase in Hv.
  rewrite fold_operations_foldS in H. injection H as <-.
  apply foldS_sound; assumption.
Qed.
