(* Proofs/RegressFloat.v — the binary64 polynomial regressor nearly solves the normal equations IT BUILT.

   [poly_fit] (Model/Regress.v, PolynomialRegression::fit) forms M = moment_matrix order x and
   r = moment_rhs order x y in floating point and hands them to [ge] (Gaussian elimination, Model/Gauss.v)
   with the tolerance constant [poly_tol]; the returned coefficients are the solution vector converted to a
   list.  [poly_regression_float_normal_residual] transports [ge_float_residual] (Proofs/SolveFloat.v)
   through that wrapper: componentwise residual of the returned coefficients in the system (M, r) AS COMPUTED
   IN FLOATS.  Not covered here: the rounding of the moment sums themselves relative to the exact moments,
   and the conditioning of the normal equations (how far a small residual is from a small error).
   The line fit [ls_fit] uses closed formulas (no call of [ge]) and gradient descent does not solve a system:
   nothing to transport for them.                                                                          *)
From Coq Require Import ZArith List Bool Arith Reals Floats Lia Lra.
From Flocq Require Import Core BinarySingleNaN PrimFloat.
From SV Require Import Base.Num Base.Outcome Base.Mat Model.Subst Model.Gauss Model.Regress
                       Proofs.LU Proofs.SubstFloat Proofs.PLUFloat Proofs.GaussFloat Proofs.SolveFloat.
Import ListNotations.
Local Open Scope R_scope.
Local Notation pfloat := PrimFloat.float.

(* [back_row_ok] reads the solution vector only below the dimension *)
Lemma back_row_ok_ext (a : mat pfloat) (n : nat) (b x x' : vec pfloat) (i : nat) :
  (i < n)%nat -> (forall j, (j < n)%nat -> x j = x' j) ->
  back_row_ok a n b x i -> back_row_ok a n b x' i.
Proof.
  intros Hi Hx. unfold back_row_ok. destruct (S i =? n)%nat; [exact (fun H => H)|].
  assert (Es : forall k, (k <= n - S i)%nat ->
            sum_range n0 (S i) k (fun j => PrimFloat.mul (a i j) (x j))
            = sum_range n0 (S i) k (fun j => PrimFloat.mul (a i j) (x' j))).
  { intros k Hk. apply sum_range_ext. intros j Hj. rewrite (Hx j) by lia. reflexivity. }
  intros [F [Hm [Hs [F2 D]]]].
  split; [exact F|]. split.
  - intros j Hj. rewrite <- (Hx j) by lia. apply Hm. exact Hj.
  - split.
    + intros k Hk. rewrite <- (Es k Hk). apply Hs. exact Hk.
    + rewrite <- (Es (n - S i)%nat (le_n _)). split; [exact F2|exact D].
Qed.

(* the wrapper around the solve: a returned model carries exactly the vector returned by [ge] *)
Lemma poly_fit_tol_ok_sol (tol : pfloat) (order : nat) (x y : list pfloat) (m : lmodel pfloat) :
  poly_fit_tol tol order x y = Ok m ->
  exists sol, ge (S order) (S order) (moment_matrix order x) (S order) (moment_rhs order x y) tol = Ok sol /\
              coefs m = list_of_vec (S order) sol.
Proof.
  unfold poly_fit_tol. cbv zeta.
  destruct (ge (S order) (S order) (moment_matrix order x) (S order) (moment_rhs order x y) tol)
    as [sol|e|w]; try discriminate.
  intro E. injection E as <-. exists sol. split; reflexivity.
Qed.

Theorem poly_regression_tol_float_normal_residual :
  forall (tol : PrimFloat.float) (order : nat) (x y : list PrimFloat.float) (m : lmodel PrimFloat.float),
  poly_fit_tol tol order x y = Ok m ->
  let n := S order in
  let M := moment_matrix order x in
  let r := moment_rhs order x y in
  let c := vec_of_list (coefs m) in
  let s := ge_perm n tol M r in
  let L := ge_L n tol M r in
  let U := ge_U n tol M r in
  let w := ge_y n tol M r in
  (forall i k, (i < n)%nat -> (k < n)%nat -> plu_entry_ok (fun p q => M (s p) q) L U i k) ->
  (forall i, (i < n)%nat -> ge_rhs_ok (fun p => r (s p)) L w i) ->
  (forall i, (i < n)%nat -> back_row_ok (ge_W n tol M r) n w c i) ->
  length (coefs m) = n /\
  forall i, (i < n)%nat ->
    is_finite (Prim2B (c i)) = true /\
    Rabs (msum 0 n (fun k => B2R (Prim2B (M (s i) k)) * B2R (Prim2B (c k))) - B2R (Prim2B (r (s i))))
    <= (((1 + bpow radix2 (-53)) ^ n - 1)
        + ((1 + bpow radix2 (-53)) ^ n - 1) * (1 + ((1 + bpow radix2 (-53)) ^ (n + 1) - 1))
        + ((1 + bpow radix2 (-53)) ^ (n + 1) - 1))
       * msum 0 n (fun j => msum 0 n (fun k =>
           Rabs (B2R (Prim2B (L i j))) * Rabs (B2R (Prim2B (U j k))) * Rabs (B2R (Prim2B (c k))))).
Proof.
  intros tol order x y m E.
  destruct (poly_fit_tol_ok_sol tol order x y m E) as [sol [G Ec]].
  intros n M r c s L U w H1 H2 H3.
  assert (Hc : forall k, (k < n)%nat -> c k = sol k).
  { intros k Hk. unfold c. rewrite Ec. exact (vretab_spec n sol k Hk). }
  pose proof (ge_float_residual n M r tol sol G) as R. cbv zeta in R.
  specialize (R H1 H2).
  assert (H3' : forall i, (i < n)%nat -> back_row_ok (ge_W n tol M r) n w sol i).
  { intros i Hi. apply (back_row_ok_ext _ n w c sol i Hi Hc). apply H3. exact Hi. }
  specialize (R H3').
  split.
  { rewrite Ec. unfold list_of_vec. rewrite map_length, seq_length. reflexivity. }
  intros i Hi. destruct (R i Hi) as [F B].
  split; [rewrite (Hc i Hi); exact F|].
  assert (E1 : msum 0 n (fun k => B2R (Prim2B (M (s i) k)) * B2R (Prim2B (c k)))
             = msum 0 n (fun k => B2R (Prim2B (M (s i) k)) * B2R (Prim2B (sol k)))).
  { apply msum_ext. intros k Hk. rewrite (Hc k) by lia. reflexivity. }
  assert (E2 : msum 0 n (fun j => msum 0 n (fun k =>
                 Rabs (B2R (Prim2B (L i j))) * Rabs (B2R (Prim2B (U j k))) * Rabs (B2R (Prim2B (c k)))))
             = msum 0 n (fun j => msum 0 n (fun k =>
                 Rabs (B2R (Prim2B (L i j))) * Rabs (B2R (Prim2B (U j k))) * Rabs (B2R (Prim2B (sol k)))))).
  { apply msum_ext. intros j _. apply msum_ext. intros k Hk. rewrite (Hc k) by lia. reflexivity. }
  rewrite E1, E2. exact B.
Qed.

(* the fit that is extracted and run: tolerance = the crate's literal [poly_tol] *)
Theorem poly_regression_float_normal_residual :
  forall (order : nat) (x y : list PrimFloat.float) (m : lmodel PrimFloat.float),
  poly_fit order x y = Ok m ->
  let n := S order in
  let M := moment_matrix order x in
  let r := moment_rhs order x y in
  let c := vec_of_list (coefs m) in
  let s := ge_perm n poly_tol M r in
  let L := ge_L n poly_tol M r in
  let U := ge_U n poly_tol M r in
  let w := ge_y n poly_tol M r in
  (forall i k, (i < n)%nat -> (k < n)%nat -> plu_entry_ok (fun p q => M (s p) q) L U i k) ->
  (forall i, (i < n)%nat -> ge_rhs_ok (fun p => r (s p)) L w i) ->
  (forall i, (i < n)%nat -> back_row_ok (ge_W n poly_tol M r) n w c i) ->
  length (coefs m) = n /\
  forall i, (i < n)%nat ->
    is_finite (Prim2B (c i)) = true /\
    Rabs (msum 0 n (fun k => B2R (Prim2B (M (s i) k)) * B2R (Prim2B (c k))) - B2R (Prim2B (r (s i))))
    <= (((1 + bpow radix2 (-53)) ^ n - 1)
        + ((1 + bpow radix2 (-53)) ^ n - 1) * (1 + ((1 + bpow radix2 (-53)) ^ (n + 1) - 1))
        + ((1 + bpow radix2 (-53)) ^ (n + 1) - 1))
       * msum 0 n (fun j => msum 0 n (fun k =>
           Rabs (B2R (Prim2B (L i j))) * Rabs (B2R (Prim2B (U j k))) * Rabs (B2R (Prim2B (c k))))).
Proof.
  intros order x y m E. exact (poly_regression_tol_float_normal_residual poly_tol order x y m E).
Qed.

(* non-vacuity: x = [0,1,2,3], y = [1,3,7,13] (y = x^2 + x + 1), order 2: the fit returns and every
   hypothesis of the theorem holds, by computation *)
Definition ex_poly_x : list PrimFloat.float := [0x0p+0; 0x1p+0; 0x1p+1; 0x1.8p+1]%float.
Definition ex_poly_y : list PrimFloat.float := [0x1p+0; 0x1.8p+1; 0x1.cp+2; 0x1.ap+3]%float.

Example ex_poly_float_residual_hyps : exists m, poly_fit 2 ex_poly_x ex_poly_y = Ok m /\
  let M := moment_matrix 2 ex_poly_x in
  let r := moment_rhs 2 ex_poly_x ex_poly_y in
  let c := vec_of_list (coefs m) in
  let s := ge_perm 3 poly_tol M r in
  let L := ge_L 3 poly_tol M r in
  let U := ge_U 3 poly_tol M r in
  let w := ge_y 3 poly_tol M r in
  (forall i k, (i < 3)%nat -> (k < 3)%nat -> plu_entry_ok (fun p q => M (s p) q) L U i k) /\
  (forall i, (i < 3)%nat -> ge_rhs_ok (fun p => r (s p)) L w i) /\
  (forall i, (i < 3)%nat -> back_row_ok (ge_W 3 poly_tol M r) 3 w c i).
Proof.
  eexists. split; [vm_compute; reflexivity|]. cbv zeta. split; [|split].
  - intros i k Hi Hk.
    destruct i as [|[|[|i]]]; try lia; destruct k as [|[|[|k]]]; try lia;
    unfold plu_entry_ok; cbn [Nat.min]; cbv zeta;
    (split; [intros j Hj; destruct j as [|[|j]]; try lia; okmul_any|]; split;
     [intros t Ht; destruct t as [|[|[|t]]]; try lia; fin_compute|intros Hlt; try lia; okdiv_any]).
  - intros i Hi.
    destruct i as [|[|[|i]]]; try lia; unfold ge_rhs_ok; cbv zeta;
    (split; [intros j Hj; destruct j as [|[|j]]; try lia; okmul_any
            |intros t Ht; destruct t as [|[|[|t]]]; try lia; fin_compute]).
  - intros i Hi. destruct i as [|[|[|i]]]; try lia; unfold back_row_ok; cbn [Nat.eqb].
    + split; [fin_compute|]. split.
      { intros j Hj; destruct j as [|[|[|j]]]; try lia; okmul_any. }
      split.
      { intros k Hk; cbn [Nat.sub] in Hk; destruct k as [|[|[|k]]]; try lia; fin_compute. }
      split; [fin_compute|okdiv_any].
    + split; [fin_compute|]. split.
      { intros j Hj; destruct j as [|[|[|j]]]; try lia; okmul_any. }
      split.
      { intros k Hk; cbn [Nat.sub] in Hk; destruct k as [|[|[|k]]]; try lia; fin_compute. }
      split; [fin_compute|okdiv_any].
    + okdiv_any.
Qed.
