(* Proofs/QuadRInt.v — the closed forms F(b) - F(a) used in Proofs/QuadSimpson.v and
   Proofs/QuadRomberg.v are the Riemann integral (Coquelicot's RInt); restatement of
   the C05 lemmas with RInt. *)
From Coq Require Import ZArith NArith Reals Lra.
From Coquelicot Require Import Coquelicot.
From SV Require Import Base.Num Base.Outcome Model.Poly Model.Quad Proofs.QuadSimpson Proofs.QuadRomberg.
Local Open Scope R_scope.

(* RInt lives in Coquelicot's R_CompleteNormedModule: present equations to ring/field at type R *)
Ltac eqR := match goal with |- ?x = ?y => change (@eq R x y) end.

Lemma quartic_is_RInt a0 a1 a2 a3 a4 a b :
  is_RInt (quartic a0 a1 a2 a3 a4) a b (quartic_prim a0 a1 a2 a3 a4 b - quartic_prim a0 a1 a2 a3 a4 a).
Proof.
  apply (is_RInt_derive (quartic_prim a0 a1 a2 a3 a4) (quartic a0 a1 a2 a3 a4)).
  - intros x _. unfold quartic_prim, quartic. auto_derive; [exact Logic.I|]. field.
  - intros x _. apply (ex_derive_continuous (quartic a0 a1 a2 a3 a4)). unfold quartic. auto_derive. exact Logic.I.
Qed.

Lemma quartic_RInt a0 a1 a2 a3 a4 a b :
  RInt (fun x => a0 + a1 * x + a2 * x ^ 2 + a3 * x ^ 3 + a4 * x ^ 4) a b =
  quartic_prim a0 a1 a2 a3 a4 b - quartic_prim a0 a1 a2 a3 a4 a.
Proof. apply is_RInt_unique. apply quartic_is_RInt. Qed.

Lemma cubic_RInt a0 a1 a2 a3 a b :
  RInt (fun x => a0 + a1 * x + a2 * x ^ 2 + a3 * x ^ 3) a b =
  cubic_prim a0 a1 a2 a3 b - cubic_prim a0 a1 a2 a3 a.
Proof.
  transitivity (RInt (fun x => a0 + a1 * x + a2 * x ^ 2 + a3 * x ^ 3 + 0 * x ^ 4) a b).
  - apply RInt_ext. intros x _. eqR. ring.
  - rewrite quartic_RInt. eqR. unfold quartic_prim, cubic_prim. field.
Qed.

Lemma linear_RInt a0 a1 a b :
  RInt (fun x => a0 + a1 * x) a b = cubic_prim a0 a1 0 0 b - cubic_prim a0 a1 0 0 a.
Proof.
  transitivity (RInt (fun x => a0 + a1 * x + 0 * x ^ 2 + 0 * x ^ 3) a b).
  - apply RInt_ext. intros x _. eqR. ring.
  - apply cubic_RInt.
Qed.

Lemma c05_simpson_exact_RInt : forall (f : R -> res R) (a0 a1 a2 a3 : R),
  (forall x, f x = Ok (a0 + a1 * x + a2 * x ^ 2 + a3 * x ^ 3)) ->
  forall (a b : R) (n : N), (2 <= n)%N ->
  definite_integral f a b n = Ok (RInt (fun x => a0 + a1 * x + a2 * x ^ 2 + a3 * x ^ 3) a b).
Proof.
  intros f a0 a1 a2 a3 Hf a b n Hn. rewrite cubic_RInt.
  apply c05_simpson_exact_cubic; assumption.
Qed.

Lemma c05_trapezoid_exact_RInt : forall (f : R -> res R) (a0 a1 : R),
  (forall x, f x = Ok (a0 + a1 * x)) ->
  forall a b : R, definite_integral f a b 1 = Ok (RInt (fun x => a0 + a1 * x) a b).
Proof.
  intros f a0 a1 Hf a b. rewrite linear_RInt.
  apply c05_trapezoid_exact_linear; assumption.
Qed.

Lemma c05_romberg_exact_RInt : forall (f : R -> res R) (a0 a1 a2 a3 : R),
  (forall x, f x = Ok (a0 + a1 * x + a2 * x ^ 2 + a3 * x ^ 3)) ->
  forall (a b : R) (cap : N) (tol v : R),
  romberg f a b cap tol = Ok v ->
  v = RInt (fun x => a0 + a1 * x + a2 * x ^ 2 + a3 * x ^ 3) a b.
Proof.
  intros f a0 a1 a2 a3 Hf a b cap tol v Hr. rewrite cubic_RInt.
  eapply c05_romberg_exact_cubic; eassumption.
Qed.

Lemma c05_romberg_converges_RInt : forall (f : R -> res R) (a0 a1 a2 a3 : R),
  (forall x, f x = Ok (a0 + a1 * x + a2 * x ^ 2 + a3 * x ^ 3)) ->
  forall (a b : R) (cap : N) (tol : R), (3 <= cap)%N -> 0 <= tol ->
  romberg f a b cap tol = Ok (RInt (fun x => a0 + a1 * x + a2 * x ^ 2 + a3 * x ^ 3) a b).
Proof.
  intros f a0 a1 a2 a3 Hf a b cap tol Hc Ht. rewrite cubic_RInt.
  apply c05_romberg_converges_cubic; assumption.
Qed.

Lemma c05_simpson_error_quartic_RInt : forall (f : R -> res R) (a0 a1 a2 a3 a4 : R),
  (forall x, f x = Ok (a0 + a1 * x + a2 * x ^ 2 + a3 * x ^ 3 + a4 * x ^ 4)) ->
  forall (a b : R) (n : N), (2 <= n)%N ->
  exists v, definite_integral f a b n = Ok v /\
    Rabs (v - RInt (fun x => a0 + a1 * x + a2 * x ^ 2 + a3 * x ^ 3 + a4 * x ^ 4) a b) <=
    Rabs (b - a) * ((b - a) / IZR (Z.of_N n)) ^ 4 * Rabs (24 * a4) / 80.
Proof.
  intros f a0 a1 a2 a3 a4 Hf a b n Hn. rewrite quartic_RInt.
  apply c05_simpson_error_quartic; assumption.
Qed.

Lemma c05_simpson_error_tight_n3_RInt : forall (f : R -> res R) (a0 a1 a2 a3 a4 : R),
  (forall x, f x = Ok (a0 + a1 * x + a2 * x ^ 2 + a3 * x ^ 3 + a4 * x ^ 4)) ->
  forall (a b : R),
  exists v, definite_integral f a b 3 = Ok v /\
    Rabs (v - RInt (fun x => a0 + a1 * x + a2 * x ^ 2 + a3 * x ^ 3 + a4 * x ^ 4) a b) =
    Rabs (b - a) * ((b - a) / 3) ^ 4 * Rabs (24 * a4) / 80.
Proof.
  intros f a0 a1 a2 a3 a4 Hf a b. rewrite quartic_RInt.
  apply c05_simpson_error_tight_n3; assumption.
Qed.

(* both polynomial types: the IntermediatePolynomial c3 v^3 + c2 v^2 + c1 v + c0 *)
Lemma c05_exact_inter : forall (v : name) (c0 c1 c2 c3 a b : R),
  (forall n : N, (2 <= n)%N ->
     definite_integral (i_eval_univariate (icubic v c0 c1 c2 c3)) a b n =
     Ok (RInt (fun x => c0 + c1 * x + c2 * x ^ 2 + c3 * x ^ 3) a b)) /\
  (forall (cap : N) (tol w : R),
     romberg (i_eval_univariate (icubic v c0 c1 c2 c3)) a b cap tol = Ok w ->
     w = RInt (fun x => c0 + c1 * x + c2 * x ^ 2 + c3 * x ^ 3) a b).
Proof.
  intros v c0 c1 c2 c3 a b. split.
  - intros n Hn. apply c05_simpson_exact_RInt; [|exact Hn]. intro x. apply i_eval_cubic.
  - intros cap tol w Hr. eapply c05_romberg_exact_RInt; [|exact Hr]. intro x. apply i_eval_cubic.
Qed.
