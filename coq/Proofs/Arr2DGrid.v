(* Proofs/Arr2DGrid.v — C12: the flat-buffer array refines the plain grid under every
   operation sequence (Z entries). *)
From Coq Require Import ZArith NArith List Bool Arith Lia.
From SV Require Import Base.Num Base.Outcome Model.Arr2D Proofs.Arr2D Proofs.Arr2DDot.
Import ListNotations.
Local Open Scope res_scope.

Notation gz := (get 0%Z).

(* ---- tabulated grids --------------------------------------------------------------- *)
Lemma gtab_ttab h w f : gtab h w f = ttab h w f.
Proof. reflexivity. Qed.

Lemma gtab_length h w f : length (gtab h w f) = h.
Proof. apply ttab_length. Qed.

Lemma gtab_rect h w f : Forall (fun rw => length rw = w) (gtab h w f).
Proof. apply ttab_rect. Qed.

Lemma gtab_nth h w f r c : r < h -> c < w -> nth c (nth r (gtab h w f) []) 0%Z = f r c.
Proof. apply (ttab_nth 0%Z). Qed.

Lemma gtab_ext h w f f' :
  (forall r c, r < h -> c < w -> f r c = f' r c) -> gtab h w f = gtab h w f'.
Proof.
  intro H. unfold gtab. apply map_ext_in. intros r Hr. apply in_seq in Hr.
  apply map_ext_in. intros c Hc. apply in_seq in Hc. apply H; lia.
Qed.

Lemma gtab_S h w f :
  gtab (S h) w f = map (fun c => f 0 c) (seq 0 w) :: gtab h w (fun r c => f (S r) c).
Proof.
  unfold gtab. cbn [seq map]. f_equal. rewrite <- seq_shift, map_map. reflexivity.
Qed.

Lemma gtab_map h w f (k : Z -> Z) :
  map (map k) (gtab h w f) = gtab h w (fun r c => k (f r c)).
Proof.
  unfold gtab. rewrite map_map. apply map_ext. intro r. rewrite map_map. reflexivity.
Qed.

Lemma gget_tab h w f r c : r < h -> c < w -> gget (mkGrid h w (gtab h w f)) r c = f r c.
Proof. intros. unfold gget. cbn [cells]. apply gtab_nth; auto. Qed.

Lemma abs_get a r c : r < height a -> c < width a -> gget (abs a) r c = gz a r c.
Proof. intros Hr Hc. unfold abs. rewrite gget_tab by auto. reflexivity. Qed.

Lemma map_nth_seq {A : Type} (l : list A) d w : length l = w ->
  map (fun c => nth c l d) (seq 0 w) = l.
Proof.
  intro H. apply (nth_ext _ _ d d); [rewrite map_length, seq_length; auto|].
  intros i Hi. rewrite map_length, seq_length in Hi.
  rewrite (nth_indep _ d (nth 0 l d)) by (rewrite map_length, seq_length; exact Hi).
  rewrite (map_nth (fun c => nth c l d) (seq 0 w) 0 i), seq_nth by exact Hi. reflexivity.
Qed.

Lemma gtab_rows (rows : list (list Z)) w :
  Forall (fun rw => length rw = w) rows ->
  gtab (length rows) w (fun r c => nth c (nth r rows []) 0%Z) = rows.
Proof.
  induction 1 as [|x rows Hx _ IH]; [reflexivity|].
  cbn [length]. rewrite gtab_S. cbn [nth]. rewrite (map_nth_seq x 0%Z w Hx). f_equal. exact IH.
Qed.

(* the rows of a rectangular buffer, re-concatenated, are the buffer *)
Lemma concat_gtab (l : list Z) h w : length l = h * w ->
  concat (gtab h w (fun r c => nth (r * w + c) l 0%Z)) = l.
Proof.
  intro Hl. pose proof (gtab_rect h w (fun r c => nth (r * w + c) l 0%Z)) as R.
  apply (flat_ext _ _ h w 0%Z).
  - rewrite (concat_rect_length _ w R), gtab_length. reflexivity.
  - exact Hl.
  - intros r c Hr Hc. rewrite (concat_rect_nth _ w 0%Z R r c Hc). apply gtab_nth; auto.
Qed.

Lemma abs_intro a h w f :
  height a = h -> width a = w ->
  (forall r c, r < h -> c < w -> gz a r c = f r c) ->
  abs a = mkGrid h w (gtab h w f).
Proof.
  intros Hh Hw H. unfold abs. rewrite Hh, Hw. f_equal. apply gtab_ext.
  intros r c Hr Hc. rewrite <- (H r c Hr Hc). unfold get. rewrite Hw. reflexivity.
Qed.

Lemma arr_eta (a : arr Z) : mkArr (inner a) (height a) (width a) = a.
Proof. destruct a. reflexivity. Qed.

(* ---- constructors -------------------------------------------------------------------- *)
Lemma from_nested_fold (w : nat) (values : list (list Z)) : forall acc,
  foldM values (fun rw acc => if negb (length rw =? w) then Err EInconsistentRowLengths
                              else Ok (acc ++ rw)) acc
  = if forallb (fun rw => length rw =? w) values then Ok (acc ++ concat values)
    else Err EInconsistentRowLengths.
Proof.
  induction values as [|x values IH]; intro acc.
  - cbn [foldM forallb concat]. rewrite app_nil_r. reflexivity.
  - cbn [foldM forallb concat]. destruct (length x =? w); cbn [negb andb bind]; [|reflexivity].
    rewrite IH, app_assoc. reflexivity.
Qed.

Lemma forallb_Forall_len (rows : list (list Z)) w :
  forallb (fun rw => length rw =? w) rows = true -> Forall (fun rw => length rw = w) rows.
Proof.
  intro H. apply Forall_forall. intros x Hx.
  rewrite forallb_forall in H. apply Nat.eqb_eq. apply H. exact Hx.
Qed.

Lemma from_nested_spec (rows : list (list Z)) :
  match rows with
  | [] => from_nested rows = Ok (mkArr [] 0 0)
  | r0 :: _ =>
    if forallb (fun rw => length rw =? length r0) rows
    then from_nested rows = Ok (mkArr (concat rows) (length rows) (length r0)) /\
         Inv (mkArr (concat rows) (length rows) (length r0)) /\
         abs (mkArr (concat rows) (length rows) (length r0)) = mkGrid (length rows) (length r0) rows
    else from_nested rows = Err EInconsistentRowLengths
  end.
Proof.
  destruct rows as [|r0 rest]; [reflexivity|].
  unfold from_nested. rewrite from_nested_fold.
  set (rows := r0 :: rest).
  destruct (forallb (fun rw => length rw =? length r0) rows) eqn:E; [|reflexivity].
  cbn [app bind]. apply forallb_Forall_len in E.
  split; [reflexivity|]. split.
  - unfold Inv. cbn [inner height width]. apply concat_rect_length. exact E.
  - rewrite (abs_intro _ (length rows) (length r0) (fun r c => nth c (nth r rows []) 0%Z));
      [rewrite (gtab_rows rows (length r0) E); reflexivity|reflexivity|reflexivity|].
    intros r c Hr Hc. unfold get. cbn [inner width].
    apply concat_rect_nth; auto.
Qed.

Lemma from_array_spec m n (f : nat -> nat -> Z) :
  Inv (from_array m n f) /\ abs (from_array m n f) = mkGrid m n (gtab m n f).
Proof.
  pose proof (gtab_rect m n f) as R. unfold from_array. fold (gtab m n f). split.
  - unfold Inv. cbn [inner height width]. rewrite (concat_rect_length _ n R), gtab_length. reflexivity.
  - apply abs_intro; [reflexivity|reflexivity|].
    intros r c Hr Hc. unfold get. cbn [inner width].
    rewrite (concat_rect_nth _ n 0%Z R r c Hc). apply gtab_nth; auto.
Qed.

Lemma from_flat_spec (data : list Z) d h w :
  if (h * w <? length data) || (h * w =? 0)
  then from_flat data d h w = Err EInvalidShape
  else exists a', from_flat data d h w = Ok a' /\ Inv a' /\
         abs a' = mkGrid h w (gtab h w (fun r c => nth (r * w + c) data d)).
Proof.
  unfold from_flat.
  destruct ((h * w <? length data) || (h * w =? 0)) eqn:E; [reflexivity|].
  apply orb_false_iff in E. destruct E as [E1 E2]. apply Nat.ltb_ge in E1.
  destruct (length data <? h * w) eqn:E3.
  - apply Nat.ltb_lt in E3. eexists. split; [reflexivity|]. split.
    + unfold Inv. cbn [inner height width]. rewrite app_length, repeat_length. lia.
    + apply abs_intro; [reflexivity|reflexivity|].
      intros r c Hr Hc. unfold get. cbn [inner width].
      destruct (Nat.lt_ge_cases (r * w + c) (length data)) as [Hlt|Hge].
      * rewrite app_nth1 by exact Hlt. apply nth_indep. exact Hlt.
      * rewrite app_nth2 by exact Hge. rewrite nth_repeat' by nia.
        symmetry. apply nth_overflow. exact Hge.
  - apply Nat.ltb_ge in E3. eexists. split; [reflexivity|]. split.
    + unfold Inv. cbn [inner height width]. lia.
    + apply abs_intro; [reflexivity|reflexivity|].
      intros r c Hr Hc. unfold get. cbn [inner width]. apply nth_indep. nia.
Qed.

Lemma full_abs v h w : abs (full v h w) = mkGrid h w (gtab h w (fun _ _ => v)).
Proof.
  apply abs_intro; [reflexivity|reflexivity|].
  intros r c Hr Hc. apply full_get; auto.
Qed.

Lemma identity_abs n : exists m, @identity Z ZNum n = Ok m /\ Inv m /\
  abs m = mkGrid n n (gtab n n (fun r c => if r =? c then 1%Z else 0%Z)).
Proof.
  destruct (@identity_spec Z ZNum n) as [m [E [Im [Hh [Hw G]]]]].
  exists m. split; [exact E|]. split; [exact Im|].
  apply abs_intro; auto.
Qed.

(* ---- reshape ---------------------------------------------------------------------------- *)
Lemma reshape_spec a h' : Inv a ->
  if (h' =? 0) || negb ((height a * width a) mod h' =? 0)
  then reshape a h' = Err EInvalidReshape
  else exists a', reshape a h' = Ok a' /\ Inv a' /\
         abs a' = mkGrid h' (height a * width a / h')
                    (gtab h' (height a * width a / h')
                       (fun r c => let k := r * (height a * width a / h') + c in
                                   gget (abs a) (k / width a) (k mod width a))).
Proof.
  intro I. unfold reshape, is_multiple_of.
  destruct (h' =? 0) eqn:E0; [reflexivity|]. cbn [orb].
  destruct ((height a * width a) mod h' =? 0) eqn:E1; cbn [negb]; [|reflexivity].
  apply Nat.eqb_neq in E0. apply Nat.eqb_eq in E1.
  unfold div_chk. replace (h' =? 0) with false by (symmetry; apply Nat.eqb_neq; exact E0).
  cbn [bind]. set (sz := height a * width a) in *. set (w' := sz / h').
  assert (Hsz : sz = h' * w') by (apply Nat.div_exact; auto).
  eexists. split; [reflexivity|]. split.
  - unfold Inv in *. cbn [inner height width]. lia.
  - apply abs_intro; [reflexivity|reflexivity|].
    intros r c Hr Hc. unfold get at 1. cbn [inner width].
    set (k := r * w' + c). cbv zeta.
    assert (Hk : k < height a * width a) by (fold sz; unfold k; nia).
    assert (Hw : width a <> 0) by (intro Z0; rewrite Z0 in Hk; lia).
    rewrite abs_get.
    + unfold get. f_equal. pose proof (Nat.div_mod k (width a) Hw). lia.
    + apply Nat.div_lt_upper_bound; [exact Hw|lia].
    + apply Nat.mod_upper_bound. exact Hw.
Qed.

(* ---- transpose ---------------------------------------------------------------------------- *)
Lemma transpose_abs a : Inv a -> exists t, transpose a = Ok t /\ Inv t /\
  abs t = mkGrid (width a) (height a) (gtab (width a) (height a) (fun r c => gget (abs a) c r)).
Proof.
  intro I. destruct (transpose_spec 0%Z a I) as [t [E [It [Hh [Hw G]]]]].
  exists t. split; [exact E|]. split; [exact It|].
  apply abs_intro; auto.
  intros r c Hr Hc. rewrite G by auto. symmetry. apply abs_get; auto.
Qed.

(* ---- element and row writes ----------------------------------------------------------------- *)
Lemma in_grid_abs a r c : in_grid (abs a) r c = (r <? height a) && (c <? width a).
Proof. reflexivity. Qed.

Lemma set2_spec a r c v : Inv a ->
  if (r <? height a) && (c <? width a)
  then exists a', set2 a r c v = Ok a' /\ Inv a' /\
         abs a' = mkGrid (height a) (width a)
                    (gtab (height a) (width a)
                       (fun r' c' => if (r' =? r) && (c' =? c) then v else gget (abs a) r' c'))
  else set2 a r c v = Panic WIndex.
Proof.
  intro I. unfold set2.
  destruct (Nat.ltb_spec r (height a)) as [Hr|Hr]; cbn [andb].
  - destruct (Nat.ltb_spec c (width a)) as [Hc|Hc].
    + replace (height a <=? r) with false by (symmetry; apply Nat.leb_gt; exact Hr).
      replace (width a <=? c) with false by (symmetry; apply Nat.leb_gt; exact Hc).
      cbn [orb]. unfold Inv in I.
      rewrite lset_ok by nia. cbn [bind].
      eexists. split; [reflexivity|]. split.
      * unfold Inv. cbn [inner height width]. rewrite replace_length. exact I.
      * apply abs_intro; [reflexivity|reflexivity|].
        intros r' c' Hr' Hc'. unfold get at 1. cbn [inner width].
        rewrite nth_replace by nia. rewrite abs_get by auto.
        destruct (Nat.eqb_spec r' r) as [->|Hne]; cbn [andb].
        -- destruct (Nat.eqb_spec c' c) as [->|Hne'].
           ++ rewrite Nat.eqb_refl. reflexivity.
           ++ replace (r * width a + c' =? r * width a + c) with false
                by (symmetry; apply Nat.eqb_neq; lia). reflexivity.
        -- replace (r' * width a + c' =? r * width a + c) with false
             by (symmetry; apply Nat.eqb_neq; nia). reflexivity.
    + replace (width a <=? c) with true by (symmetry; apply Nat.leb_le; exact Hc).
      rewrite orb_true_r. reflexivity.
  - replace (height a <=? r) with true by (symmetry; apply Nat.leb_le; exact Hr). reflexivity.
Qed.

Lemma set_rc_abs a r c v : Inv a ->
  if (r <? height a) && (c <? width a)
  then exists a', set_rc a r c v = Ok a' /\ Inv a' /\
         abs a' = mkGrid (height a) (width a)
                    (gtab (height a) (width a)
                       (fun r' c' => if (r' =? r) && (c' =? c) then v else gget (abs a) r' c'))
  else set_rc a r c v = Panic WIndex.
Proof.
  intro I.
  destruct (Nat.ltb_spec r (height a)) as [Hr|Hr]; cbn [andb].
  - destruct (Nat.ltb_spec c (width a)) as [Hc|Hc].
    + destruct (set_rc_spec 0%Z a r c v I Hr Hc) as [a' [E [I' [Hh [Hw G]]]]].
      exists a'. split; [exact E|]. split; [exact I'|].
      apply abs_intro; auto.
      intros r' c' Hr' Hc'. rewrite G by auto. rewrite abs_get by auto. reflexivity.
    + apply set_rc_panic; auto.
  - apply set_rc_panic; auto.
Qed.

Lemma set_row_spec a r vs : Inv a ->
  if height a <=? r then set_row a r vs = Panic WIndex
  else if negb (length vs =? width a) then set_row a r vs = Panic WSliceRange
  else exists a', set_row a r vs = Ok a' /\ Inv a' /\
         abs a' = mkGrid (height a) (width a)
                    (gtab (height a) (width a)
                       (fun r' c' => if r' =? r then nth c' vs 0%Z else gget (abs a) r' c')).
Proof.
  intro I. unfold set_row.
  destruct (Nat.leb_spec (height a) r) as [Hr|Hr].
  - rewrite row_panic by exact Hr. reflexivity.
  - rewrite (row_ok a r I Hr). cbn [bind].
    rewrite (row_slice_length _ (height a)) by auto.
    destruct (Nat.eqb_spec (length vs) (width a)) as [Hl|Hl]; cbn [negb]; [|reflexivity].
    destruct (put_row_spec 0%Z a r vs I Hr Hl) as [I' G].
    eexists. split; [reflexivity|]. split; [exact I'|].
    apply abs_intro; [reflexivity|reflexivity|].
    intros r' c' Hr' Hc'. rewrite G by auto. rewrite abs_get by auto. reflexivity.
Qed.

(* ---- swap_rows ------------------------------------------------------------------------------ *)
Lemma swap_idx_sym x y r : swap_idx x y r = swap_idx y x r.
Proof.
  unfold swap_idx. destruct (Nat.eqb_spec r x), (Nat.eqb_spec r y); subst; auto.
Qed.

Lemma swap_flat (l : list Z) h w lo hi :
  length l = h * w -> lo < hi -> hi < h ->
  let lft := firstn (hi * w) l in
  let rgt := skipn (hi * w) l in
  let l' := (firstn (lo * w) lft ++ firstn w rgt ++ skipn ((lo + 1) * w) lft)
            ++ (firstn w (skipn (lo * w) lft) ++ skipn w rgt) in
  length l' = h * w /\
  forall r c, r < h -> c < w ->
    nth (r * w + c) l' 0%Z = nth (swap_idx lo hi r * w + c) l 0%Z.
Proof.
  intros Hl Hlo Hhi lft rgt l'.
  assert (Llft : length lft = hi * w) by (unfold lft; rewrite firstn_length; nia).
  assert (Lrgt : length rgt = (h - hi) * w) by (unfold rgt; rewrite skipn_length; nia).
  assert (L1 : length (firstn (lo * w) lft) = lo * w) by (rewrite firstn_length; nia).
  assert (L2 : length (firstn w rgt) = w) by (rewrite firstn_length; nia).
  assert (L3 : length (skipn ((lo + 1) * w) lft) = (hi - lo - 1) * w) by (rewrite skipn_length; nia).
  assert (L4 : length (firstn w (skipn (lo * w) lft)) = w) by (rewrite firstn_length, skipn_length; nia).
  assert (L5 : length (skipn w rgt) = (h - hi - 1) * w) by (rewrite skipn_length; nia).
  assert (LA : length (firstn (lo * w) lft ++ firstn w rgt ++ skipn ((lo + 1) * w) lft) = hi * w)
    by (rewrite !app_length, L1, L2, L3; nia).
  split.
  - unfold l'. rewrite app_length, LA, app_length, L4, L5. nia.
  - intros r c Hr Hc. unfold l', swap_idx.
    destruct (Nat.lt_ge_cases r hi) as [Hrhi|Hrhi].
    + (* first part *)
      rewrite app_nth1 by (rewrite LA; nia).
      replace (r =? hi) with false by (symmetry; apply Nat.eqb_neq; lia).
      destruct (Nat.eqb_spec r lo) as [->|Hne].
      * (* row lo receives row hi *)
        rewrite app_nth2 by (rewrite L1; lia). rewrite L1.
        replace (lo * w + c - lo * w) with c by lia.
        rewrite app_nth1 by (rewrite L2; lia).
        rewrite nth_firstn' by exact Hc. unfold rgt. rewrite nth_skipn'. reflexivity.
      * destruct (Nat.lt_ge_cases r lo) as [Hrlo|Hrlo].
        -- rewrite app_nth1 by (rewrite L1; nia).
           rewrite nth_firstn' by nia. unfold lft. rewrite nth_firstn' by nia. reflexivity.
        -- assert (lo < r) by lia.
           rewrite app_nth2 by (rewrite L1; nia). rewrite L1.
           rewrite app_nth2 by (rewrite L2; nia). rewrite L2.
           rewrite nth_skipn'. unfold lft. rewrite nth_firstn' by nia. f_equal. nia.
    + (* second part *)
      rewrite app_nth2 by (rewrite LA; nia). rewrite LA.
      replace (r =? lo) with false by (symmetry; apply Nat.eqb_neq; lia).
      destruct (Nat.eqb_spec r hi) as [->|Hne].
      * replace (hi * w + c - hi * w) with c by lia.
        rewrite app_nth1 by (rewrite L4; lia).
        rewrite nth_firstn' by exact Hc. rewrite nth_skipn'.
        unfold lft. rewrite nth_firstn' by nia. reflexivity.
      * assert (hi < r) by lia.
        rewrite app_nth2 by (rewrite L4; nia). rewrite L4.
        rewrite nth_skipn'. unfold rgt. rewrite nth_skipn'. f_equal. nia.
Qed.

Lemma swap_rows_spec a x y : Inv a ->
  if x =? y then swap_rows a x y = Ok a
  else if width a =? 0 then swap_rows a x y = Ok a
  else if height a <=? Nat.max x y then swap_rows a x y = Panic WSliceRange
  else exists a', swap_rows a x y = Ok a' /\ Inv a' /\
         abs a' = mkGrid (height a) (width a)
                    (gtab (height a) (width a) (fun r c => gget (abs a) (swap_idx x y r) c)).
Proof.
  intro I. unfold swap_rows.
  destruct (Nat.eqb_spec x y) as [Hxy|Hxy]; [reflexivity|].
  set (lo := Nat.min x y). set (hi := Nat.max x y).
  assert (Epair : (if y <? x then (y, x) else (x, y)) = (lo, hi)).
  { unfold lo, hi. destruct (Nat.ltb_spec y x); f_equal; lia. }
  rewrite Epair.
  assert (Hlohi : lo < hi) by (unfold lo, hi; lia).
  assert (Hsw : forall r, swap_idx x y r = swap_idx lo hi r).
  { intro r. unfold lo, hi. destruct (Nat.le_ge_cases x y).
    - rewrite Nat.min_l, Nat.max_r by lia. reflexivity.
    - rewrite Nat.min_r, Nat.max_l by lia. apply swap_idx_sym. }
  unfold Inv in I.
  destruct (Nat.eqb_spec (width a) 0) as [Hw0|Hw0].
  - (* width 0: nothing is addressed *)
    rewrite Hw0, !Nat.mul_0_r. rewrite Hw0, Nat.mul_0_r in I.
    apply length_zero_iff_nil in I.
    rewrite <- (arr_eta a) at 2. rewrite I, Hw0. reflexivity.
  - destruct (Nat.leb_spec (height a) hi) as [Hhi|Hhi].
    + (* out of range *)
      destruct (Nat.eq_dec hi (height a)) as [E|E].
      * rewrite split_at_ok by (rewrite I, E; lia). cbn [bind].
        unfold lslice at 1. rewrite skipn_length, I, E, Nat.sub_diag.
        replace (width a <=? 0) with false by (symmetry; apply Nat.leb_gt; lia).
        rewrite andb_false_r. reflexivity.
      * unfold split_at. replace (hi * width a <=? length (inner a)) with false
          by (symmetry; apply Nat.leb_gt; rewrite I; nia). reflexivity.
    + (* the swap *)
      destruct (swap_flat (inner a) (height a) (width a) lo hi I Hlohi Hhi) as [Ll G].
      rewrite split_at_ok by (rewrite I; nia). cbn [bind].
      rewrite lslice_ok; [|lia|rewrite skipn_length, I; nia]. cbn [bind].
      rewrite lslice_ok; [|nia|rewrite firstn_length, I; nia]. cbn [bind].
      rewrite Nat.sub_0_r. cbn [skipn].
      replace ((lo + 1) * width a - lo * width a) with (width a) by nia.
      eexists. split; [reflexivity|]. split.
      * unfold Inv. cbn [inner height width]. exact Ll.
      * apply abs_intro; [reflexivity|reflexivity|].
        intros r c Hr Hc. unfold get at 1. cbn [inner width].
        rewrite (G r c Hr Hc), Hsw. rewrite abs_get; [reflexivity| |exact Hc].
        unfold swap_idx. destruct (r =? lo); [lia|]. destruct (r =? hi); lia.
Qed.

(* ---- rows_mut, map, conversions ----------------------------------------------------------------- *)
Lemma mapi_length (f : nat -> Z -> Z) l : length (mapi f l) = length l.
Proof.
  unfold mapi. rewrite map_length, combine_length, seq_length. lia.
Qed.

Lemma mapi_nth (f : nat -> Z -> Z) l c : c < length l ->
  nth c (mapi f l) 0%Z = f c (nth c l 0%Z).
Proof.
  intro Hc. unfold mapi.
  rewrite (nth_indep _ 0%Z ((fun p => f (fst p) (snd p)) (0, 0%Z)))
    by (rewrite map_length, combine_length, seq_length; lia).
  rewrite (map_nth (fun p => f (fst p) (snd p))).
  rewrite combine_nth by (rewrite seq_length; reflexivity).
  cbn [fst snd]. rewrite seq_nth by exact Hc. reflexivity.
Qed.

Lemma rows_mut_go_spec f w : forall remaining data i,
  length data = remaining * w ->
  exists l', rows_mut_go f data w remaining i = Ok l' /\ length l' = remaining * w /\
    forall r c, r < remaining -> c < w ->
      nth (r * w + c) l' 0%Z = f (i + r) c (nth (r * w + c) data 0%Z).
Proof.
  induction remaining as [|rem IH]; intros data i Hl.
  - exists data. cbn [rows_mut_go]. split; [reflexivity|]. split; [exact Hl|]. intros; lia.
  - cbn [rows_mut_go]. rewrite split_at_ok by lia. cbn [bind].
    destruct (IH (skipn w data) (S i)) as [l' [E [Ll G]]]; [rewrite skipn_length; lia|].
    rewrite E. cbn [bind]. eexists. split; [reflexivity|].
    assert (Lr : length (firstn w data) = w) by (rewrite firstn_length; lia).
    split.
    + rewrite app_length, mapi_length, Lr, Ll. lia.
    + intros r c Hr Hc. destruct r as [|r].
      * cbn [Nat.mul plus]. rewrite app_nth1 by (rewrite mapi_length, Lr; exact Hc).
        rewrite mapi_nth by (rewrite Lr; exact Hc).
        rewrite nth_firstn' by exact Hc. rewrite Nat.add_0_r. reflexivity.
      * rewrite app_nth2 by (rewrite mapi_length, Lr; cbn [Nat.mul]; lia).
        rewrite mapi_length, Lr.
        replace (S r * w + c - w) with (r * w + c) by (cbn [Nat.mul]; lia).
        rewrite G by lia. rewrite nth_skipn'.
        replace (S i + r) with (i + S r) by lia.
        replace (w + (r * w + c)) with (S r * w + c) by (cbn [Nat.mul]; lia). reflexivity.
Qed.

Lemma rows_mut_map_spec f a : Inv a ->
  exists a', rows_mut_map f a = Ok a' /\ Inv a' /\
    abs a' = mkGrid (height a) (width a)
               (gtab (height a) (width a) (fun r c => f r c (gget (abs a) r c))).
Proof.
  intro I. unfold rows_mut_map.
  destruct (rows_mut_go_spec f (width a) (height a) (inner a) 0 I) as [l' [E [Ll G]]].
  rewrite E. cbn [bind]. eexists. split; [reflexivity|]. split.
  - unfold Inv. cbn [inner height width]. exact Ll.
  - apply abs_intro; [reflexivity|reflexivity|].
    intros r c Hr Hc. unfold get at 1. cbn [inner width].
    rewrite (G r c Hr Hc). rewrite abs_get by auto. reflexivity.
Qed.

Lemma amap_spec (f : Z -> Z) a : Inv a ->
  Inv (amap f a) /\ abs (amap f a) = mkGrid (height a) (width a) (map (map f) (cells (abs a))).
Proof.
  intro I. split.
  - unfold Inv, amap in *. cbn [inner height width]. rewrite map_length. exact I.
  - unfold abs at 2. cbn [cells]. rewrite gtab_map.
    apply abs_intro; [reflexivity|reflexivity|].
    intros r c Hr Hc. unfold get, amap. cbn [inner width].
    unfold Inv in I.
    rewrite (nth_indep _ 0%Z (f 0%Z)) by (rewrite map_length; nia).
    apply map_nth.
Qed.

Lemma try_from_ref_id (a : arr Z) : try_from_ref Some a = Ok a.
Proof.
  unfold try_from_ref.
  rewrite (mapM_ok _ (fun x => x)) by reflexivity.
  cbn [bind]. rewrite map_id, arr_eta. reflexivity.
Qed.

(* ---- one step: invariant, refinement, failure leaves the state alone ------------------------- *)
Definition sim (a : arr Z) (o : op) : Prop :=
  Inv (fst (step_c a o)) /\
  snd (step_c a o) = snd (step_s (abs a) o) /\
  abs (fst (step_c a o)) = fst (step_s (abs a) o) /\
  (snd (step_c a o) <> Ok tt -> fst (step_c a o) = a).

Lemma sim_ok a (a' : arr Z) (g' : grid) rc rs :
  rc = Ok a' -> rs = Ok g' -> Inv a' -> abs a' = g' ->
  Inv (fst (commit a rc)) /\ snd (commit a rc) = snd (commit (abs a) rs) /\
  abs (fst (commit a rc)) = fst (commit (abs a) rs) /\
  (snd (commit a rc) <> Ok tt -> fst (commit a rc) = a).
Proof.
  intros -> -> I' E. cbn [commit fst snd]. repeat split; auto. intro H. congruence.
Qed.

Lemma sim_err a rc (rs : res grid) e :
  rc = Err e -> rs = Err e -> Inv a ->
  Inv (fst (commit a rc)) /\ snd (commit a rc) = snd (commit (abs a) rs) /\
  abs (fst (commit a rc)) = fst (commit (abs a) rs) /\
  (snd (commit a rc) <> Ok tt -> fst (commit a rc) = a).
Proof. intros -> -> I. cbn [commit fst snd]. repeat split; auto. Qed.

Lemma sim_panic a rc (rs : res grid) w :
  rc = Panic w -> rs = Panic w -> Inv a ->
  Inv (fst (commit a rc)) /\ snd (commit a rc) = snd (commit (abs a) rs) /\
  abs (fst (commit a rc)) = fst (commit (abs a) rs) /\
  (snd (commit a rc) <> Ok tt -> fst (commit a rc) = a).
Proof. intros -> -> I. cbn [commit fst snd]. repeat split; auto. Qed.

Lemma sim_all a o : Inv a -> sim a o.
Proof.
  intro I. unfold sim, step_c, step_s.
  destruct o as [rows|m n f|data d h w|v h w|n|h| | |x y|r c v|r c v|r vs|f|f| | ].
  - (* from nested *)
    pose proof (from_nested_spec rows) as H. destruct rows as [|r0 rest].
    + eapply sim_ok; [exact H|reflexivity|unfold Inv; reflexivity|reflexivity].
    + destruct (forallb (fun rw => length rw =? length r0) (r0 :: rest)).
      * destruct H as [E [I' A]]. eapply sim_ok; [exact E|reflexivity|exact I'|exact A].
      * eapply sim_err; [exact H|reflexivity|exact I].
  - destruct (from_array_spec m n f) as [I' A].
    eapply sim_ok; [reflexivity|reflexivity|exact I'|exact A].
  - (* from flat *)
    pose proof (from_flat_spec data d h w) as H.
    destruct ((h * w <? length data) || (h * w =? 0)).
    + eapply sim_err; [exact H|reflexivity|exact I].
    + destruct H as [a' [E [I' A]]]. eapply sim_ok; [exact E|reflexivity|exact I'|exact A].
  - eapply sim_ok; [reflexivity|reflexivity|apply full_inv|apply full_abs].
  - destruct (identity_abs n) as [m [E [I' A]]].
    eapply sim_ok; [exact E|reflexivity|exact I'|exact A].
  - (* reshape *)
    pose proof (reshape_spec a h I) as H. cbn [gh gw abs].
    destruct ((h =? 0) || negb ((height a * width a) mod h =? 0)).
    + eapply sim_err; [exact H|reflexivity|exact I].
    + destruct H as [a' [E [I' A]]]. eapply sim_ok; [exact E|reflexivity|exact I'|exact A].
  - destruct (transpose_abs a I) as [t [E [I' A]]].
    eapply sim_ok; [exact E|reflexivity|exact I'|exact A].
  - destruct (transpose_abs a I) as [t [E [I' A]]].
    eapply sim_ok; [exact E|reflexivity|exact I'|exact A].
  - (* swap rows *)
    pose proof (swap_rows_spec a x y I) as H. cbn [gh gw abs].
    destruct (x =? y); [eapply sim_ok; [exact H|reflexivity|exact I|reflexivity]|].
    destruct (width a =? 0); [eapply sim_ok; [exact H|reflexivity|exact I|reflexivity]|].
    destruct (height a <=? Nat.max x y).
    + eapply sim_panic; [exact H|reflexivity|exact I].
    + destruct H as [a' [E [I' A]]]. eapply sim_ok; [exact E|reflexivity|exact I'|exact A].
  - pose proof (set2_spec a r c v I) as H. rewrite in_grid_abs. cbn [gh gw abs].
    destruct ((r <? height a) && (c <? width a)).
    + destruct H as [a' [E [I' A]]]. eapply sim_ok; [exact E|reflexivity|exact I'|exact A].
    + eapply sim_panic; [exact H|reflexivity|exact I].
  - pose proof (set_rc_abs a r c v I) as H. rewrite in_grid_abs. cbn [gh gw abs].
    destruct ((r <? height a) && (c <? width a)).
    + destruct H as [a' [E [I' A]]]. eapply sim_ok; [exact E|reflexivity|exact I'|exact A].
    + eapply sim_panic; [exact H|reflexivity|exact I].
  - pose proof (set_row_spec a r vs I) as H. cbn [gh gw abs].
    destruct (height a <=? r); [eapply sim_panic; [exact H|reflexivity|exact I]|].
    destruct (negb (length vs =? width a)); [eapply sim_panic; [exact H|reflexivity|exact I]|].
    destruct H as [a' [E [I' A]]]. eapply sim_ok; [exact E|reflexivity|exact I'|exact A].
  - destruct (rows_mut_map_spec f a I) as [a' [E [I' A]]]. cbn [gh gw abs].
    eapply sim_ok; [exact E|reflexivity|exact I'|exact A].
  - destruct (amap_spec f a I) as [I' A]. cbn [gh gw].
    eapply sim_ok; [reflexivity|reflexivity|exact I'|exact A].
  - eapply sim_ok; [reflexivity|reflexivity|exact I|reflexivity].
  - eapply sim_ok; [apply try_from_ref_id|reflexivity|exact I|reflexivity].
Qed.

Lemma c12_inv :
  Inv (@arr_new Z) /\ forall a o, Inv a -> Inv (fst (step_c a o)).
Proof.
  split; [reflexivity|]. intros a o I. apply (sim_all a o I).
Qed.

Lemma c12_refine : forall a o, Inv a ->
  snd (step_c a o) = snd (step_s (abs a) o) /\
  abs (fst (step_c a o)) = fst (step_s (abs a) o) /\
  (snd (step_c a o) <> Ok tt -> fst (step_c a o) = a /\ fst (step_s (abs a) o) = abs a).
Proof.
  intros a o I. destruct (sim_all a o I) as [_ [H1 [H2 H3]]].
  split; [exact H1|]. split; [exact H2|].
  intro H. specialize (H3 H). split; [exact H3|]. rewrite <- H2, H3. reflexivity.
Qed.

(* the failing outputs, as a table over the shape only *)
Definition documented_out (h w : nat) (o : op) : res unit :=
  match o with
  | OFromNested rows =>
    match rows with
    | [] => Ok tt
    | r0 :: _ => if forallb (fun rw => length rw =? length r0) rows then Ok tt
                 else Err EInconsistentRowLengths
    end
  | OFromFlat data _ h' w' => if (h' * w' <? length data) || (h' * w' =? 0) then Err EInvalidShape else Ok tt
  | OReshape h' => if (h' =? 0) || negb ((h * w) mod h' =? 0) then Err EInvalidReshape else Ok tt
  | OSwapRows x y => if (x =? y) || (w =? 0) then Ok tt
                     else if h <=? Nat.max x y then Panic WSliceRange else Ok tt
  | OSet1 r c _ | OSet2 r c _ => if (r <? h) && (c <? w) then Ok tt else Panic WIndex
  | OSetRow r vs => if h <=? r then Panic WIndex
                    else if negb (length vs =? w) then Panic WSliceRange else Ok tt
  | _ => Ok tt
  end.

Lemma step_s_documented g o : snd (step_s g o) = documented_out (gh g) (gw g) o.
Proof.
  unfold step_s, documented_out, in_grid.
  destruct o as [rows|m n f|data d h w|v h w|n|h| | |x y|r c v|r c v|r vs|f|f| | ]; try reflexivity.
  - destruct rows as [|r0 rest]; [reflexivity|].
    destruct (forallb (fun rw => length rw =? length r0) (r0 :: rest)); reflexivity.
  - destruct ((h * w <? length data) || (h * w =? 0)); reflexivity.
  - destruct ((h =? 0) || negb ((gh g * gw g) mod h =? 0)); reflexivity.
  - destruct (x =? y); [reflexivity|]. destruct (gw g =? 0); [reflexivity|]. cbn [orb].
    destruct (gh g <=? Nat.max x y); reflexivity.
  - destruct ((r <? gh g) && (c <? gw g)); reflexivity.
  - destruct ((r <? gh g) && (c <? gw g)); reflexivity.
  - destruct (gh g <=? r); [reflexivity|]. destruct (negb (length vs =? gw g)); reflexivity.
Qed.

Lemma step_c_documented a o : Inv a -> snd (step_c a o) = documented_out (height a) (width a) o.
Proof.
  intro I. destruct (sim_all a o I) as [_ [H _]]. rewrite H. apply step_s_documented.
Qed.

Lemma c12_invalid_documented : forall a, Inv a ->
  (forall rows, snd (step_c a (OFromNested rows)) =
     match rows with
     | [] => Ok tt
     | r0 :: _ => if forallb (fun rw => length rw =? length r0) rows then Ok tt
                  else Err EInconsistentRowLengths
     end) /\
  (forall data d h w, snd (step_c a (OFromFlat data d h w)) =
     if (h * w <? length data) || (h * w =? 0) then Err EInvalidShape else Ok tt) /\
  (forall h, snd (step_c a (OReshape h)) =
     if (h =? 0) || negb ((height a * width a) mod h =? 0) then Err EInvalidReshape else Ok tt) /\
  (forall x y, snd (step_c a (OSwapRows x y)) =
     if (x =? y) || (width a =? 0) then Ok tt
     else if height a <=? Nat.max x y then Panic WSliceRange else Ok tt) /\
  (forall r c v, snd (step_c a (OSet1 r c v)) =
     if (r <? height a) && (c <? width a) then Ok tt else Panic WIndex) /\
  (forall r c v, snd (step_c a (OSet2 r c v)) =
     if (r <? height a) && (c <? width a) then Ok tt else Panic WIndex) /\
  (forall r vs, snd (step_c a (OSetRow r vs)) =
     if height a <=? r then Panic WIndex
     else if negb (length vs =? width a) then Panic WSliceRange else Ok tt) /\
  (forall v h w n f k t,
     snd (step_c a (OFromArray h w t)) = Ok tt /\
     snd (step_c a (OFull v h w)) = Ok tt /\ snd (step_c a (OIdentity n)) = Ok tt /\
     snd (step_c a OTranspose) = Ok tt /\ snd (step_c a OTransposeMut) = Ok tt /\
     snd (step_c a (ORowsMutMap f)) = Ok tt /\ snd (step_c a (OMap k)) = Ok tt /\
     snd (step_c a OClone) = Ok tt /\ snd (step_c a OTryFromRef) = Ok tt).
Proof.
  intros a I.
  repeat split; intros; rewrite (step_c_documented a _ I); reflexivity.
Qed.

(* ---- observations ------------------------------------------------------------------------------ *)
Lemma nth_map_seq {A : Type} (f : nat -> A) n i d : i < n -> nth i (map f (seq 0 n)) d = f i.
Proof.
  intro H. rewrite (nth_indep _ d (f 0)) by (rewrite map_length, seq_length; exact H).
  rewrite (map_nth f (seq 0 n) 0 i), seq_nth by exact H. reflexivity.
Qed.

Lemma firstn_as_map (l : list Z) w : w <= length l ->
  firstn w l = map (fun c => nth c l 0%Z) (seq 0 w).
Proof.
  intro H. apply (nth_ext _ _ 0%Z 0%Z).
  - rewrite firstn_length, map_length, seq_length. lia.
  - intros i Hi. rewrite firstn_length in Hi.
    rewrite nth_firstn' by lia. rewrite nth_map_seq by lia. reflexivity.
Qed.

Lemma rows_go_spec w : forall remaining data, length data = remaining * w ->
  rows_go data w remaining = Ok (gtab remaining w (fun r c => nth (r * w + c) data 0%Z)).
Proof.
  induction remaining as [|rem IH]; intros data Hl; [reflexivity|].
  cbn [rows_go]. rewrite gtab_S.
  destruct (Nat.eqb_spec w 0) as [->|Hw].
  - rewrite lslice_ok by lia. cbn [bind firstn seq map].
    rewrite IH by lia. cbn [bind]. reflexivity.
  - rewrite split_at_ok by lia. cbn [bind].
    rewrite IH by (rewrite skipn_length; lia). cbn [bind]. do 2 f_equal.
    + apply firstn_as_map. lia.
    + apply gtab_ext. intros r c Hr Hc. rewrite nth_skipn'. f_equal. cbn [Nat.mul]. lia.
Qed.

Lemma rows_spec a : Inv a -> rows a = Ok (cells (abs a)).
Proof. intro I. unfold rows. rewrite (rows_go_spec (width a) (height a) (inner a) I). reflexivity. Qed.

Lemma concat_abs a : Inv a -> concat (cells (abs a)) = inner a.
Proof. intro I. apply concat_gtab. exact I. Qed.

Lemma fold_left_ext_fn {A : Type} (f f' : A -> A -> A) l : forall x,
  (forall u v, f u v = f' u v) -> fold_left f l x = fold_left f' l x.
Proof.
  induction l as [|y l IH]; intros x H; [reflexivity|].
  cbn [fold_left]. rewrite H. apply IH. exact H.
Qed.

Lemma reduce_ext {A : Type} (f f' : A -> A -> A) l :
  (forall u v, f u v = f' u v) -> reduce f l = reduce f' l.
Proof.
  intro H. destruct l as [|x l]; [reflexivity|]. cbn [reduce]. f_equal. apply fold_left_ext_fn. exact H.
Qed.

Lemma nonempty_inner (a : arr Z) : Inv a -> is_empty a = false -> inner a <> [].
Proof.
  intros I E Hn. unfold Inv in I. rewrite Hn in I. cbn [length] in I.
  unfold is_empty in E. apply orb_false_iff in E. destruct E as [E1 E2].
  apply Nat.eqb_neq in E1. apply Nat.eqb_neq in E2. nia.
Qed.

Lemma amax_spec a : Inv a ->
  amax a = Ok (if is_empty a then None else reduce Z.max (concat (cells (abs a)))).
Proof.
  intro I. unfold amax. destruct (is_empty a) eqn:E; [reflexivity|].
  rewrite (concat_abs a I).
  rewrite (reduce_ext _ Z.max).
  - pose proof (nonempty_inner a I E) as Hne. destruct (inner a) as [|z l]; [congruence|reflexivity].
  - intros u v. unfold ngtb. cbn [nltb ZNum]. destruct (Z.ltb_spec v u); lia.
Qed.

Lemma amin_spec a : Inv a ->
  amin a = Ok (if is_empty a then None else reduce Z.min (concat (cells (abs a)))).
Proof.
  intro I. unfold amin. destruct (is_empty a) eqn:E; [reflexivity|].
  rewrite (concat_abs a I).
  rewrite (reduce_ext _ Z.min).
  - pose proof (nonempty_inner a I E) as Hne. destruct (inner a) as [|z l]; [congruence|reflexivity].
  - intros u v. cbn [nltb ZNum]. destruct (Z.ltb_spec u v); lia.
Qed.

(* equality against a nested vector *)
Lemma list_eqb_eq {A : Type} (eqb : A -> A -> bool) :
  (forall x y, eqb x y = true <-> x = y) ->
  forall l1 l2, list_eqb eqb l1 l2 = true <-> l1 = l2.
Proof.
  intro H. induction l1 as [|x l1 IH]; intros [|y l2]; cbn [list_eqb]; try (split; congruence).
  rewrite andb_true_iff, H, IH. split.
  - intros [E1 E2]. subst. reflexivity.
  - intro E. injection E as E1 E2. auto.
Qed.

Lemma rows_eqb_eq (l1 l2 : list (list Z)) : list_eqb (list_eqb Z.eqb) l1 l2 = true <-> l1 = l2.
Proof. apply list_eqb_eq. apply list_eqb_eq. apply Z.eqb_eq. Qed.

Lemma bool_ext (b1 b2 : bool) : (b1 = true <-> b2 = true) -> b1 = b2.
Proof.
  destruct b1, b2; intros [H1 H2]; try reflexivity.
  - symmetry. apply H1. reflexivity.
  - apply H2. reflexivity.
Qed.

Lemma eq_nested_spec a other : Inv a ->
  eq_nested a other = Ok (list_eqb (list_eqb Z.eqb) (cells (abs a)) other).
Proof.
  intro I. unfold eq_nested. f_equal.
  pose proof (gtab_length (height a) (width a) (fun r c => nth (r * width a + c) (inner a) 0%Z)) as Lc.
  pose proof (gtab_rect (height a) (width a) (fun r c => nth (r * width a + c) (inner a) 0%Z)) as Rc.
  change (gtab (height a) (width a) (fun r c => nth (r * width a + c) (inner a) 0%Z))
    with (cells (abs a)) in Lc, Rc.
  destruct (Nat.eqb_spec (height a) (length other)) as [Hlen|Hlen]; cbn [negb].
  2:{ f_equal. symmetry. apply not_true_is_false. rewrite rows_eqb_eq. intro E. rewrite E in Lc. lia. }
  destruct (Nat.eqb_spec (height a) 0) as [H0|H0].
  { f_equal. symmetry. apply rows_eqb_eq.
    assert (length other = 0) by lia. destruct other; [|cbn in *; lia].
    destruct (cells (abs a)); [reflexivity|cbn in *; lia]. }
  destruct (existsb (fun rw => negb (length rw =? width a)) other) eqn:Eex.
  { f_equal. symmetry. apply not_true_is_false. rewrite rows_eqb_eq. intro E.
    apply existsb_exists in Eex. destruct Eex as [rw [Hin Hrw]].
    rewrite <- E in Hin. rewrite Forall_forall in Rc. rewrite (Rc rw Hin), Nat.eqb_refl in Hrw. discriminate. }
  assert (Ro : Forall (fun rw => length rw = width a) other).
  { apply Forall_forall. intros rw Hin.
    destruct (Nat.eqb_spec (length rw) (width a)) as [E|E]; [exact E|].
    assert (existsb (fun rw => negb (length rw =? width a)) other = true).
    { apply existsb_exists. exists rw. split; [exact Hin|].
      apply Nat.eqb_neq in E. rewrite E. reflexivity. }
    congruence. }
  rewrite (allM_ok _ (fun r => forallb (fun c => Z.eqb (gz a r c) (nth c (nth r other []) 0%Z))
                                        (seq 0 (width a)))).
  2:{ intros r Hr. apply in_seq in Hr.
      apply allM_ok. intros c Hc. apply in_seq in Hc.
      rewrite (get_rc_ok 0%Z a r c I) by lia. cbn [bind].
      rewrite (lget_ok other r []) by lia. cbn [bind].
      assert (Lr : length (nth r other []) = width a).
      { rewrite Forall_forall in Ro. apply Ro. apply nth_In. lia. }
      rewrite (lget_ok _ c 0%Z) by lia. cbn [bind].
      unfold nneb. cbn [neqb ZNum]. rewrite negb_involutive. reflexivity. }
  f_equal. apply bool_ext. rewrite rows_eqb_eq. split.
  - intro H. rewrite forallb_forall in H.
    rewrite <- (gtab_rows other (width a) Ro), <- Hlen.
    unfold abs. cbn [cells]. apply gtab_ext. intros r c Hr Hc.
    specialize (H r ltac:(apply in_seq; lia)). rewrite forallb_forall in H.
    specialize (H c ltac:(apply in_seq; lia)). apply Z.eqb_eq in H. exact H.
  - intro E. apply forallb_forall. intros r Hr. apply in_seq in Hr.
    apply forallb_forall. intros c Hc. apply in_seq in Hc. apply Z.eqb_eq.
    rewrite <- E. rewrite <- (abs_get a r c) by lia. reflexivity.
Qed.

(* Display *)
Lemma display_spec a : Inv a -> display dec_Z a = Ok (display_s (abs a)).
Proof.
  intro I. unfold display, display_s. cbn [gh gw abs].
  destruct ((height a =? 0) || (width a =? 0)); [reflexivity|].
  set (colw := fun c => fold_left Nat.max
                 (map (fun r => length (dec_Z (gz a r c))) (seq 0 (height a))) 0).
  rewrite (mapM_ok _ colw).
  2:{ intros c Hc. apply in_seq in Hc.
      rewrite (mapM_ok _ (fun r => length (dec_Z (gz a r c)))).
      - reflexivity.
      - intros r Hr. apply in_seq in Hr. rewrite (get2_ok 0%Z a r c I) by lia. reflexivity. }
  cbn [bind].
  rewrite (mapM_ok _ (fun r =>
      (if r =? 0 then cp_open0 else cp_open)
      ++ concat (map (fun c => pad_left (colw c) (dec_Z (gz a r c))
                               ++ (if negb (c + 1 =? width a) then cp_sep else [])) (seq 0 (width a)))
      ++ (if r + 1 =? height a then cp_close_last else cp_close))).
  2:{ intros r Hr. apply in_seq in Hr.
      rewrite (mapM_ok _ (fun c => pad_left (colw c) (dec_Z (gz a r c))
                               ++ (if negb (c + 1 =? width a) then cp_sep else []))).
      - reflexivity.
      - intros c Hc. apply in_seq in Hc. rewrite (get2_ok 0%Z a r c I) by lia. cbn [bind].
        rewrite (lget_ok _ c 0) by (rewrite map_length, seq_length; lia). cbn [bind].
        rewrite nth_map_seq by lia. reflexivity. }
  cbn [bind]. f_equal. f_equal.
  apply map_ext_in. intros r Hr. apply in_seq in Hr. f_equal. f_equal. f_equal.
  apply map_ext_in. intros c Hc. apply in_seq in Hc. f_equal.
  - f_equal.
    + unfold colw. f_equal. apply map_ext_in. intros r' Hr'. apply in_seq in Hr'.
      fold (abs a). rewrite abs_get by lia. reflexivity.
    + fold (abs a). rewrite abs_get by lia. reflexivity.
Qed.

Lemma c12_observe : forall a q, Inv a -> observe_c a q = observe_s (abs a) q.
Proof.
  intros a q I. destruct q as [ | | |r c|r c| | | | |other| ]; cbn [observe_c observe_s].
  - reflexivity.
  - f_equal. exact I.
  - reflexivity.
  - f_equal. rewrite in_grid_abs.
    destruct (Nat.ltb_spec r (height a)) as [Hr|Hr]; cbn [andb].
    + destruct (Nat.ltb_spec c (width a)) as [Hc|Hc].
      * rewrite (get2_ok 0%Z a r c I Hr Hc), abs_get by auto. reflexivity.
      * apply get2_panic. right. exact Hc.
    + apply get2_panic. left. exact Hr.
  - f_equal. rewrite in_grid_abs.
    destruct (Nat.ltb_spec r (height a)) as [Hr|Hr]; cbn [andb].
    + destruct (Nat.ltb_spec c (width a)) as [Hc|Hc].
      * rewrite (get_rc_ok 0%Z a r c I Hr Hc), abs_get by auto. reflexivity.
      * apply get_rc_panic; auto.
    + apply get_rc_panic; auto.
  - f_equal. apply rows_spec. exact I.
  - f_equal. apply rows_spec. exact I.
  - f_equal. apply amax_spec. exact I.
  - f_equal. apply amin_spec. exact I.
  - f_equal. apply eq_nested_spec. exact I.
  - f_equal. apply display_spec. exact I.
Qed.

(* ---- histories -------------------------------------------------------------------------------------- *)
Lemma run_sim : forall ops a, Inv a ->
  Inv (run_c a ops) /\ abs (run_c a ops) = run_s (abs a) ops /\ trace_c a ops = trace_s (abs a) ops.
Proof.
  induction ops as [|o ops IH]; intros a I.
  - cbn. auto.
  - destruct (sim_all a o I) as [I' [H1 [H2 _]]].
    destruct (IH (fst (step_c a o)) I') as [J1 [J2 J3]].
    unfold run_c, run_s in *. cbn [fold_left trace_c trace_s].
    rewrite <- H2, <- H1. split; [exact J1|]. split; [exact J2|]. f_equal. exact J3.
Qed.

Lemma c12_histories : forall a0 ops, Inv a0 ->
  trace_c a0 ops = trace_s (abs a0) ops /\
  forall q, observe_c (run_c a0 ops) q = observe_s (run_s (abs a0) ops) q.
Proof.
  intros a0 ops I. destruct (run_sim ops a0 I) as [J1 [J2 J3]].
  split; [exact J3|]. intro q. rewrite <- J2. apply c12_observe. exact J1.
Qed.
