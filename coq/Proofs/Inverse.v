(* Proofs/Inverse.v — the matrix inverse of Model/Inverse.v (R instance). *)
From Coq Require Import ZArith List Arith Bool Reals Lra Lia.
From SV Require Import Base.Num Base.Outcome Base.Mat Model.Subst Model.LU Model.Inverse Proofs.LU Proofs.PLU.
Import ListNotations.
Local Open Scope R_scope.

(* entries of the identity matrix *)
Definition delta (i j : nat) : R := if (i =? j)%nat then 1 else 0.

Lemma delta_sym i j : delta i j = delta j i.
Proof. unfold delta. destruct (Nat.eqb_spec i j); destruct (Nat.eqb_spec j i); try lia; reflexivity. Qed.

(* ---------------------------------------------------------------------------
   Matrix products
   --------------------------------------------------------------------------- *)
Lemma mprod_assoc n (X Y Z : mat R) i j :
  mprod n X (mprod n Y Z) i j = mprod n (mprod n X Y) Z i j.
Proof.
  unfold mprod.
  rewrite (msum_ext 0 n _ (fun k => msum 0 n (fun m => X i k * Y k m * Z m j))).
  2:{ intros k _. rewrite <- msum_scal_l. apply msum_ext. intros m _. ring. }
  rewrite msum_exchange. apply msum_ext. intros m _.
  rewrite <- msum_scal_r. reflexivity.
Qed.

Lemma mprod_ext n (X X' Y Y' : mat R) i j :
  (forall k, (k < n)%nat -> X i k = X' i k) -> (forall k, (k < n)%nat -> Y k j = Y' k j) ->
  mprod n X Y i j = mprod n X' Y' i j.
Proof. intros H1 H2. unfold mprod. apply msum_ext. intros t Ht. rewrite H1, H2 by lia. reflexivity. Qed.

Lemma mprod_id_l n (X Y : mat R) i j :
  (i < n)%nat -> (forall k, (k < n)%nat -> X i k = delta i k) -> mprod n X Y i j = Y i j.
Proof.
  intros Hi H. unfold mprod. rewrite (msum_delta 0 n _ i); [|lia|].
  - rewrite H by exact Hi. unfold delta. rewrite Nat.eqb_refl. ring.
  - intros t Ht Hne. rewrite H by lia. unfold delta.
    destruct (Nat.eqb_spec i t); [lia|ring].
Qed.

Lemma mprod_id_r n (X Y : mat R) i j :
  (j < n)%nat -> (forall k, (k < n)%nat -> Y k j = delta k j) -> mprod n X Y i j = X i j.
Proof.
  intros Hj H. unfold mprod. rewrite (msum_delta 0 n _ j); [|lia|].
  - rewrite H by exact Hj. unfold delta. rewrite Nat.eqb_refl. ring.
  - intros t Ht Hne. rewrite H by lia. unfold delta.
    destruct (Nat.eqb_spec t j); [lia|ring].
Qed.

(* ---------------------------------------------------------------------------
   One column of the inverse
   --------------------------------------------------------------------------- *)
Lemma fill_vec_spec n (f : nat -> R) (b0 : vec R) i :
  (i < n)%nat -> for_range 0 n (fun i b => vset b i (f i)) b0 i = f i.
Proof.
  revert i. induction n as [|n IH]; intros i Hi; [lia|].
  rewrite for_range_S. cbn [Nat.add].
  destruct (Nat.eq_dec i n) as [->|Hne]; [apply vset_same|].
  rewrite vset_other by exact Hne. apply IH. lia.
Qed.

Lemma forward_ext (a : mat R) n (rhs rhs' sol0 : vec R) :
  (forall i, (i < n)%nat -> rhs i = rhs' i) ->
  forall i, (i < n)%nat -> forward_substitution a n rhs sol0 i = forward_substitution a n rhs' sol0 i.
Proof.
  intros Hr.
  pose proof (forward_recurrence a n rhs sol0) as H1. pose proof (forward_recurrence a n rhs' sol0) as H2.
  cbv zeta in H1, H2.
  intro i. induction i as [i IH] using lt_wf_ind. intro Hi.
  rewrite H1, H2 by exact Hi. rewrite Hr by exact Hi. f_equal. f_equal.
  apply msum_ext. intros t Ht. rewrite IH by lia. reflexivity.
Qed.

Lemma inverse_col_spec n (L U P : mat R) s j :
  (0 < n)%nat -> unit_lower n L -> upper_tri n U -> (forall i, (i < n)%nat -> U i i <> 0) ->
  perm_mat n s P -> (j < n)%nat ->
  exists x, inverse_col n L U P j = Ok x /\
    forall i, (i < n)%nat -> msum 0 n (fun c => mprod n L U i c * x c) = delta (s i) j.
Proof.
  intros Hn HL HU Hd Hpm Hj. unfold inverse_col.
  set (b' := vretab n (for_range 0 n (fun i b => vset b i (P i j)) (vconst n0))).
  set (y := vretab n (forward_substitution L n b' (vconst n0))).
  destruct (back_ok U n y (vconst n0) Hn) as [x Hx].
  exists x. split; [exact Hx|].
  intros i Hi. unfold mprod. rewrite mprod_assoc_vec.
  assert (Eb : forall k, (k < n)%nat -> b' k = P k j).
  { intros k Hk. unfold b'. rewrite vretab_spec by exact Hk.
    apply (fill_vec_spec n (fun k => P k j)). exact Hk. }
  rewrite (msum_ext 0 n _ (fun t => L i t * forward_substitution L n b' (vconst n0) t)).
  - rewrite forward_solves; try exact Hi.
    + rewrite Eb by exact Hi. rewrite Hpm by assumption. apply delta_sym.
    + intros a b Ha Hb Hab. apply (HL a b Ha Hb); exact Hab.
    + intros a Ha. destruct (HL a a Ha Ha) as [H1 _]. rewrite H1 by reflexivity. lra.
  - intros t Ht. f_equal.
    rewrite (back_solves U n y (vconst n0) x Hx HU Hd) by lia.
    unfold y. apply vretab_spec. lia.
Qed.

(* ---------------------------------------------------------------------------
   The column loop
   --------------------------------------------------------------------------- *)
Lemma set_col_spec n j (x : vec R) (m : mat R) :
  (forall r, (r < n)%nat -> set_col n j x m r j = x r) /\
  (forall r c, (c <> j \/ (n <= r)%nat) -> set_col n j x m r c = m r c).
Proof.
  unfold set_col. induction n as [|n [IH1 IH2]].
  - split; [intros r Hr; lia|intros; reflexivity].
  - rewrite for_range_S. cbn [Nat.add]. split.
    + intros r Hr. destruct (Nat.eq_dec r n) as [->|Hne]; [apply mset_same|].
      rewrite mset_other by (left; exact Hne). apply IH1. lia.
    + intros r c H. rewrite mset_other by (destruct H; [right; assumption|left; lia]).
      apply IH2. destruct H; [left; assumption|right; lia].
Qed.

Definition inv_post (n : nat) (L U P : mat R) (j : nat) (acc : res (mat R)) : Prop :=
  exists inv, acc = Ok inv /\
    forall c, (c < j)%nat -> exists x, inverse_col n L U P c = Ok x /\ forall i, (i < n)%nat -> inv i c = x i.

Lemma inverse_loop n (L U P : mat R) s :
  unit_lower n L -> upper_tri n U -> (forall i, (i < n)%nat -> U i i <> 0) -> perm_mat n s P ->
  inv_post n L U P n (for_range 0 n (inverse_step n L U P) (Ok (mconst n0))).
Proof.
  intros HL HU Hd Hpm.
  pose proof (for_range_inv (inv_post n L U P) 0 n (inverse_step n L U P) (Ok (mconst n0))) as H.
  cbn [Nat.add] in H. apply H; clear H.
  - exists (mconst n0). split; [reflexivity|]. intros c Hc. lia.
  - intros j acc Hj [inv [-> Hinv]].
    destruct (inverse_col_spec n L U P s j) as [x [Hx _]]; try assumption; try lia.
    cbn [inverse_step]. rewrite Hx.
    destruct (set_col_spec n j x inv) as [S1 S2].
    eexists. split; [reflexivity|].
    intros c Hc. destruct (Nat.eq_dec c j) as [->|Hne].
    + exists x. split; [exact Hx|]. intros i Hi. rewrite retab_spec by lia. apply S1. exact Hi.
    + destruct (Hinv c) as [x' [Hx' Hv]]; [lia|].
      exists x'. split; [exact Hx'|]. intros i Hi. rewrite retab_spec by lia.
      rewrite S2 by (left; exact Hne). apply Hv. exact Hi.
Qed.

Lemma inverse_square n (A : mat R) :
  inverse n n A =
  match plu n n A with
  | Ok (l, u, p) => for_range 0 n (inverse_step n l u p) (Ok (mconst n0))
  | Err _ => Err ESingularMatrix
  | Panic x => Panic x
  end.
Proof. unfold inverse. rewrite Nat.eqb_refl. reflexivity. Qed.

(* what a successful run returns: B solves (L U) B = P column by column *)
Lemma inverse_ok_spec n (A B : mat R) :
  inverse n n A = Ok B ->
  exists L U P s, plu n n A = Ok (L, U, P) /\ perm_mat n s P /\
    forall i j, (i < n)%nat -> (j < n)%nat -> mprod n (mprod n L U) B i j = delta (s i) j.
Proof.
  rewrite inverse_square.
  destruct (plu n n A) as [[[L U] P]|e|w] eqn:Hplu; [|discriminate|discriminate].
  intro Hloop.
  destruct (c09_plu_shape n A L U P Hplu) as [HL [HU [[s [_ Hpm]] _]]].
  assert (Hd : forall i, (i < n)%nat -> U i i <> 0) by (intros i Hi; apply (c09_plu_pivots n A L U P Hplu i Hi)).
  exists L, U, P, s. split; [reflexivity|]. split; [exact Hpm|].
  intros i j Hi Hj.
  destruct (inverse_loop n L U P s HL HU Hd Hpm) as [inv [E Hcols]].
  rewrite Hloop in E. injection E as <-.
  destruct (Hcols j Hj) as [x [Hx Hv]].
  destruct (inverse_col_spec n L U P s j) as [x' [Hx' Hsol]]; try assumption; try lia.
  rewrite Hx in Hx'. injection Hx' as <-.
  rewrite <- (Hsol i Hi). unfold mprod at 1. apply msum_ext. intros c Hc. rewrite Hv by lia. reflexivity.
Qed.

Lemma inverse_outcome n (A : mat R) :
  inverse n n A = Err ESingularMatrix \/ exists B, inverse n n A = Ok B.
Proof.
  rewrite inverse_square.
  destruct (plu_outcome n A) as [E|[L [U [P E]]]]; rewrite E; [left; reflexivity|right].
  destruct (c09_plu_shape n A L U P E) as [HL [HU [[s [_ Hpm]] _]]].
  assert (Hd : forall i, (i < n)%nat -> U i i <> 0) by (intros i Hi; apply (c09_plu_pivots n A L U P E i Hi)).
  destruct (inverse_loop n L U P s HL HU Hd Hpm) as [inv [Einv _]].
  exists inv. exact Einv.
Qed.

(* ---------------------------------------------------------------------------
   C10
   --------------------------------------------------------------------------- *)
Lemma inverse_right n (A B : mat R) : inverse n n A = Ok B ->
  forall i j, (i < n)%nat -> (j < n)%nat -> mprod n A B i j = delta i j.
Proof.
  intros H i j Hi Hj.
  destruct (inverse_ok_spec n A B H) as [L [U [P [s [Hplu [Hpm Hsol]]]]]].
  destruct (plu_reconstruct_perm n A L U P Hplu) as [s2 [[s2' Hs2] [Hpm2 Hrec]]].
  (* the two descriptions of P agree: s = s2 below n *)
  assert (Es : forall r, (r < n)%nat -> s r = s2 r).
  { intros r Hr. destruct (Hs2 r Hr) as [Hb _].
    pose proof (Hpm r (s2 r) Hr Hb) as E1. pose proof (Hpm2 r (s2 r) Hr Hb) as E2.
    rewrite Nat.eqb_refl in E2. rewrite E2 in E1.
    destruct (Nat.eqb_spec (s2 r) (s r)) as [E|E]; [symmetry; exact E|lra]. }
  destruct (Hs2 i Hi) as [_ [Hs'i [_ Hss']]].
  specialize (Hsol (s2' i) j Hs'i Hj).
  rewrite Es, Hss' in Hsol by exact Hs'i. rewrite <- Hsol.
  unfold mprod at 1 2. apply msum_ext. intros k Hk.
  rewrite Hrec by lia. rewrite Hss'. reflexivity.
Qed.

Lemma inverse_left n (A B : mat R) : inverse n n A = Ok B ->
  forall i j, (i < n)%nat -> (j < n)%nat -> mprod n B A i j = delta i j.
Proof.
  intros H i j Hi Hj.
  pose proof (inverse_right n A B H) as HR.
  destruct (inverse_ok_spec n A B H) as [L [U [P [s [Hplu _]]]]].
  assert (Hz : forall k, (k < n)%nat -> mprod n B A k j - delta k j = 0).
  { apply (plu_kernel n A L U P (fun k => mprod n B A k j - delta k j) Hplu).
    intros r Hr.
    rewrite (msum_ext 0 n _ (fun k => A r k * mprod n B A k j + - (A r k * delta k j))) by (intros; ring).
    rewrite msum_plus.
    change (msum 0 n (fun k => A r k * mprod n B A k j)) with (mprod n A (mprod n B A) r j).
    rewrite mprod_assoc.
    rewrite (mprod_id_l n (mprod n A B) A r j Hr) by (intros k Hk; apply HR; assumption).
    rewrite (msum_ext 0 n (fun k => - (A r k * delta k j)) (fun k => -1 * (A r k * delta k j))) by (intros; ring).
    rewrite msum_scal_l.
    change (msum 0 n (fun k => A r k * delta k j)) with (mprod n A delta r j).
    rewrite (mprod_id_r n A delta r j Hj) by reflexivity. ring. }
  specialize (Hz i Hi). lra.
Qed.

Lemma c10_right_left : forall (n : nat) (A B : mat R), inverse n n A = Ok B ->
  forall i j, (i < n)%nat -> (j < n)%nat ->
    mprod n A B i j = (if (i =? j)%nat then 1 else 0) /\ mprod n B A i j = (if (i =? j)%nat then 1 else 0).
Proof.
  intros n A B H i j Hi Hj. split.
  - apply (inverse_right n A B H i j Hi Hj).
  - apply (inverse_left n A B H i j Hi Hj).
Qed.

Lemma inverse_empty (A : mat R) : exists B, inverse 0 0 A = Ok B.
Proof. eexists. reflexivity. Qed.

Lemma c10_errors :
  (forall (h w : nat) (A : mat R), h <> w -> inverse h w A = Err ENonSquareMatrix) /\
  (forall (n : nat) (A : mat R) (w : nat -> R), left_null n A w -> inverse n n A = Err ESingularMatrix) /\
  (forall (n : nat) (A : mat R) (x : nat -> R), right_null n A x -> inverse n n A = Err ESingularMatrix) /\
  (forall (n : nat) (A : mat R), inverse n n A = Err ESingularMatrix \/ exists B, inverse n n A = Ok B) /\
  (forall A : mat R, exists B, inverse 0 0 A = Ok B).
Proof.
  split; [|split; [|split; [|split]]].
  - intros h w A H. unfold inverse. apply Nat.eqb_neq in H. rewrite H. reflexivity.
  - intros n A w H. rewrite inverse_square. rewrite (c09_plu_singular n A w H). reflexivity.
  - intros n A x H. rewrite inverse_square. rewrite (c09_plu_singular_right n A x H). reflexivity.
  - apply inverse_outcome.
  - apply inverse_empty.
Qed.

(* inverting twice returns to A whenever the second inversion succeeds.  (In exact arithmetic the
   second inversion can still be refused: the pivot test is |pivot| < EPSILON, an absolute
   threshold, and the inverse of a matrix with large entries has small ones.) *)
Lemma c10_involutive_partial : forall (n : nat) (A B A' : mat R),
  inverse n n A = Ok B -> inverse n n B = Ok A' ->
  forall i j, (i < n)%nat -> (j < n)%nat -> A' i j = A i j.
Proof.
  intros n A B A' H1 H2 i j Hi Hj.
  pose proof (inverse_left n A B H1) as HBA.      (* B A = I *)
  pose proof (inverse_left n B A' H2) as HA'B.    (* A' B = I *)
  rewrite <- (mprod_id_r n A' (mprod n B A) i j Hj) by (intros k Hk; apply HBA; assumption).
  rewrite mprod_assoc.
  apply (mprod_id_l n (mprod n A' B) A i j Hi). intros k Hk. apply HA'B; assumption.
Qed.

(* inverse succeeds exactly when plu does *)
Lemma inverse_ok_of_plu n (A L U P : mat R) : plu n n A = Ok (L, U, P) -> exists B, inverse n n A = Ok B.
Proof.
  intro E. destruct (inverse_outcome n A) as [H|H]; [|exact H].
  rewrite inverse_square, E in H.
  destruct (c09_plu_shape n A L U P E) as [HL [HU [[s [_ Hpm]] _]]].
  assert (Hd : forall i, (i < n)%nat -> U i i <> 0) by (intros i Hi; apply (c09_plu_pivots n A L U P E i Hi)).
  destruct (inverse_loop n L U P s HL HU Hd Hpm) as [inv [Einv _]].
  rewrite Einv in H. discriminate.
Qed.

(* non-vacuity: [[0,1],[1,0]] (forces a row interchange) is inverted *)
Lemma ex_inverse_ok : exists B, inverse 2 2 ex_swap = Ok B.
Proof. destruct ex_plu_ok as [L [U [P E]]]. exact (inverse_ok_of_plu 2 ex_swap L U P E). Qed.

(* ---------------------------------------------------------------------------
   Why c10_involutive is only partial (code after d0c7441, threshold EPSILON * n * max|a_ij|):
   A = [[0,1],[1,2^30]] is inverted (pivots 1, 1 against a threshold 2^-21), its inverse
   B = [[-2^30,1],[1,0]] has the pivots 2^30 and 2^-30, and 2^-30 <= 2^-21 is refused.
   --------------------------------------------------------------------------- *)
Definition ex_ill : mat R := mat_of_lists [[0; 1]; [1; 2 ^ 30]].

Lemma pow30_ge_1 : 1 <= 2 ^ 30.
Proof. apply pow_R1_Rle. lra. Qed.

Lemma c10_involutive_counterexample :
  exists A B : mat R, inverse 2 2 A = Ok B /\ inverse 2 2 B = Err ESingularMatrix.
Proof.
  pose proof pow30_ge_1 as HM. set (M := 2 ^ 30) in *.
  assert (A00 : ex_ill 0%nat 0%nat = 0) by reflexivity.
  assert (A01 : ex_ill 0%nat 1%nat = 1) by reflexivity.
  assert (A10 : ex_ill 1%nat 0%nat = 1) by reflexivity.
  assert (A11 : ex_ill 1%nat 1%nat = M) by reflexivity.
  destruct (plu_2x2_swap_ok ex_ill A00 A01 A10) as [L [U [P E]]].
  { rewrite plu_threshold_R. apply small_threshold; [apply plu_scale_nonneg|].
    apply plu_scale_le; [fold M; lra|]. intros i j Hi Hj. fold M.
    destruct i as [|[|i]]; destruct j as [|[|j]]; try lia;
      rewrite ?A00, ?A01, ?A10, ?A11, ?Rabs_R0, ?Rabs_R1; try lra.
    rewrite Rabs_right by lra. lra. }
  destruct (inverse_ok_of_plu 2 ex_ill L U P E) as [B HB].
  exists ex_ill, B. split; [exact HB|].
  (* the entries of B, from B A = I *)
  assert (HBA : forall r c, (r < 2)%nat -> (c < 2)%nat ->
            B r 0%nat * ex_ill 0%nat c + B r 1%nat * ex_ill 1%nat c = delta r c).
  { intros r c Hr Hc. rewrite <- (inverse_left 2 ex_ill B HB r c Hr Hc).
    unfold mprod. cbn [msum Nat.add]. ring. }
  pose proof (HBA 0%nat 0%nat ltac:(lia) ltac:(lia)) as H00.
  pose proof (HBA 0%nat 1%nat ltac:(lia) ltac:(lia)) as H01.
  pose proof (HBA 1%nat 0%nat ltac:(lia) ltac:(lia)) as H10.
  pose proof (HBA 1%nat 1%nat ltac:(lia) ltac:(lia)) as H11.
  rewrite A00, A10 in H00, H10. rewrite A01, A11 in H01, H11.
  unfold delta in *. cbn [Nat.eqb] in *.
  assert (B01 : B 0%nat 1%nat = 1) by lra.
  assert (B11 : B 1%nat 1%nat = 0) by lra.
  assert (B00 : B 0%nat 0%nat = - M) by (rewrite B01 in H01; lra).
  assert (B10 : B 1%nat 0%nat = 1) by (rewrite B11 in H11; lra).
  (* the threshold of B *)
  assert (HsB : plu_scale 2 B = M).
  { apply Rle_antisym.
    - apply plu_scale_le; [lra|]. intros i j Hi Hj.
      destruct i as [|[|i]]; destruct j as [|[|j]]; try lia;
        rewrite ?B00, ?B01, ?B10, ?B11, ?Rabs_Ropp, ?Rabs_R0, ?Rabs_R1; try lra.
      rewrite Rabs_right by lra. lra.
    - rewrite <- (Rabs_right M) by lra. rewrite <- (Rabs_Ropp M), <- B00. apply plu_scale_ge; lia. }
  assert (HtB : plu_threshold 2 B = neps * INR 2 * M) by (rewrite plu_threshold_R, HsB; reflexivity).
  assert (Hlt1 : plu_threshold 2 B < 1) by (rewrite HtB; apply small_threshold; [lra|unfold M; lra]).
  assert (Hge : / M <= plu_threshold 2 B).
  { rewrite HtB, neps_R. cbn [INR]. unfold M.
    replace (2 ^ 52) with (2 ^ 30 * 2 ^ 22) by (rewrite <- pow_add; reflexivity).
    assert (H30 : 0 < 2 ^ 30) by (apply pow_lt; lra).
    assert (H22 : 0 < 2 ^ 22) by (apply pow_lt; lra).
    rewrite Rinv_mult.
    replace (/ 2 ^ 30 * / 2 ^ 22 * (1 + 1) * 2 ^ 30) with ((2 ^ 30 * / 2 ^ 30) * (2 * / 2 ^ 22)) by ring.
    rewrite Rinv_r by lra. rewrite Rmult_1_l.
    assert (Hinv : / 2 ^ 30 <= / 2 ^ 22) by (apply Rinv_le_contravar; [lra|apply Rle_pow; [lra|lia]]).
    assert (0 < / 2 ^ 22) by (apply Rinv_0_lt_compat; lra). lra. }
  rewrite inverse_square. unfold plu. cbn [Nat.eqb negb for_range].
  rewrite (plu_step_eval 2 _ 0 B midentity 0).
  - cbn [Nat.eqb].
    rewrite (plu_step_refuse 2 _ 1 (retab 2 2 (plu_eliminate 2 0 B)) _ 1).
    + reflexivity.
    + reflexivity.
    + rewrite tau_i, elim_2x2. rewrite B00, B01, B10, B11.
      replace (0 - 1 / - M * 1) with (/ M) by (field; lra).
      rewrite Rabs_right by (apply Rle_ge; left; apply Rinv_0_lt_compat; lra). exact Hge.
  - unfold plu_pivot_search. cbn [Nat.sub for_range snd]. rewrite B00, B10.
    unfold ngtb. cbn [nltb nabs RNum]. rewrite Rabs_Ropp, Rabs_R1, (Rabs_right M) by lra.
    replace (Rltb M 1) with false by (symmetry; apply Rltb_false; lra). reflexivity.
  - rewrite tau_i, B00, Rabs_Ropp, Rabs_right by lra. lra.
Qed.
