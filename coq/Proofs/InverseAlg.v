(* Proofs/InverseAlg.v — algebraic consequences of C10 (R instance): what a caller may do with
   a returned inverse.  Everything follows from Proofs/Inverse.v (A B = I and B A = I). *)
From Coq Require Import ZArith List Arith Bool Reals Lra Lia.
From SV Require Import Base.Num Base.Outcome Base.Mat Model.LU Model.Inverse Proofs.LU Proofs.PLU Proofs.Inverse.
Import ListNotations.
Local Open Scope R_scope.

(* the returned matrix is THE inverse: every right inverse and every left inverse of A equals it *)
Lemma inverse_unique_right n (A B C : mat R) : inverse n n A = Ok B ->
  (forall i j, (i < n)%nat -> (j < n)%nat -> mprod n A C i j = delta i j) ->
  forall i j, (i < n)%nat -> (j < n)%nat -> C i j = B i j.
Proof.
  intros H HC i j Hi Hj.
  pose proof (inverse_left n A B H) as HBA.
  rewrite <- (mprod_id_l n (mprod n B A) C i j Hi) by (intros k Hk; apply HBA; assumption).
  rewrite <- mprod_assoc.
  apply (mprod_id_r n B (mprod n A C) i j Hj). intros k Hk. apply HC; assumption.
Qed.

Lemma inverse_unique_left n (A B C : mat R) : inverse n n A = Ok B ->
  (forall i j, (i < n)%nat -> (j < n)%nat -> mprod n C A i j = delta i j) ->
  forall i j, (i < n)%nat -> (j < n)%nat -> C i j = B i j.
Proof.
  intros H HC i j Hi Hj.
  pose proof (inverse_right n A B H) as HAB.
  rewrite <- (mprod_id_r n C (mprod n A B) i j Hj) by (intros k Hk; apply HAB; assumption).
  rewrite mprod_assoc.
  apply (mprod_id_l n (mprod n C A) B i j Hi). intros k Hk. apply HC; assumption.
Qed.

(* matrix-vector product, and solving a linear system with the returned inverse *)
Definition mvec (n : nat) (A : mat R) (x : nat -> R) (i : nat) : R := msum 0 n (fun t => A i t * x t).

Lemma mvec_mprod n (X Y : mat R) (x : nat -> R) i :
  mvec n X (mvec n Y x) i = mvec n (mprod n X Y) x i.
Proof.
  unfold mvec, mprod.
  rewrite (msum_ext 0 n _ (fun k => msum 0 n (fun m => X i k * Y k m * x m))).
  2:{ intros k _. rewrite <- msum_scal_l. apply msum_ext. intros m _. ring. }
  rewrite msum_exchange. apply msum_ext. intros m _.
  rewrite <- msum_scal_r. reflexivity.
Qed.

Lemma mvec_id n (X : mat R) (x : nat -> R) i :
  (i < n)%nat -> (forall k, (k < n)%nat -> X i k = delta i k) -> mvec n X x i = x i.
Proof.
  intros Hi H. unfold mvec. rewrite (msum_delta 0 n _ i); [|lia|].
  - rewrite H by exact Hi. unfold delta. rewrite Nat.eqb_refl. ring.
  - intros t Ht Hne. rewrite H by lia. unfold delta.
    destruct (Nat.eqb_spec i t); [lia|ring].
Qed.

Lemma mvec_ext n (X : mat R) (x y : nat -> R) i :
  (forall k, (k < n)%nat -> x k = y k) -> mvec n X x i = mvec n X y i.
Proof. intros H. unfold mvec. apply msum_ext. intros t Ht. rewrite H by lia. reflexivity. Qed.

(* A x = b has exactly one solution, namely B b *)
Lemma inverse_solves n (A B : mat R) (b : nat -> R) : inverse n n A = Ok B ->
  (forall i, (i < n)%nat -> mvec n A (mvec n B b) i = b i) /\
  (forall x, (forall i, (i < n)%nat -> mvec n A x i = b i) ->
             forall i, (i < n)%nat -> x i = mvec n B b i).
Proof.
  intros H. split.
  - intros i Hi. rewrite mvec_mprod. apply mvec_id; [exact Hi|].
    intros k Hk. apply (inverse_right n A B H); assumption.
  - intros x Hx i Hi.
    rewrite (mvec_ext n B b (mvec n A x) i) by (intros k Hk; symmetry; apply Hx; exact Hk).
    rewrite mvec_mprod. symmetry. apply mvec_id; [exact Hi|].
    intros k Hk. apply (inverse_left n A B H); assumption.
Qed.

(* an inverted matrix has no kernel: it is non-singular in the usual sense *)
Lemma inverse_no_kernel n (A B : mat R) (x : nat -> R) : inverse n n A = Ok B ->
  (forall i, (i < n)%nat -> mvec n A x i = 0) -> forall i, (i < n)%nat -> x i = 0.
Proof.
  intros H Hx i Hi.
  destruct (inverse_solves n A B (fun _ => 0) H) as [_ Hu].
  rewrite (Hu x Hx i Hi). unfold mvec.
  rewrite (msum_ext 0 n _ (fun t => 0 * B i t)) by (intros; ring).
  rewrite msum_scal_l. ring.
Qed.

(* the inverse of a product, when all three inversions succeed, is the reversed product *)
Lemma inverse_product n (A1 A2 B1 B2 C : mat R) :
  inverse n n A1 = Ok B1 -> inverse n n A2 = Ok B2 -> inverse n n (mprod n A1 A2) = Ok C ->
  forall i j, (i < n)%nat -> (j < n)%nat -> C i j = mprod n B2 B1 i j.
Proof.
  intros H1 H2 H12 i j Hi Hj. symmetry.
  apply (inverse_unique_right n (mprod n A1 A2) C (mprod n B2 B1) H12); [|exact Hi|exact Hj].
  intros r c Hr Hc.
  (* (A1 A2)(B2 B1) = A1 ((A2 B2) B1) = A1 B1 = I *)
  rewrite <- mprod_assoc.
  rewrite (mprod_ext n A1 A1 (mprod n A2 (mprod n B2 B1)) B1 r c); [apply (inverse_right n A1 B1 H1); assumption|reflexivity|].
  intros k Hk. rewrite mprod_assoc.
  apply (mprod_id_l n (mprod n A2 B2) B1 k c Hk). intros t Ht. apply (inverse_right n A2 B2 H2); assumption.
Qed.

(* the identity is its own inverse whenever it is accepted (it is: see ex below for n = 2) *)
Lemma inverse_of_identity n (B : mat R) : inverse n n delta = Ok B ->
  forall i j, (i < n)%nat -> (j < n)%nat -> B i j = delta i j.
Proof.
  intros H i j Hi Hj. symmetry.
  apply (inverse_unique_right n delta B delta H); [|exact Hi|exact Hj].
  intros r c Hr Hc. apply (mprod_id_l n delta delta r c Hr). reflexivity.
Qed.

Lemma c10_unique : forall (n : nat) (A B C : mat R), inverse n n A = Ok B ->
  ((forall i j, (i < n)%nat -> (j < n)%nat -> mprod n A C i j = (if (i =? j)%nat then 1 else 0)) \/
   (forall i j, (i < n)%nat -> (j < n)%nat -> mprod n C A i j = (if (i =? j)%nat then 1 else 0))) ->
  forall i j, (i < n)%nat -> (j < n)%nat -> C i j = B i j.
Proof.
  intros n A B C H [HC|HC].
  - apply (inverse_unique_right n A B C H). exact HC.
  - apply (inverse_unique_left n A B C H). exact HC.
Qed.

Lemma c10_solves : forall (n : nat) (A B : mat R) (b : nat -> R), inverse n n A = Ok B ->
  (forall i, (i < n)%nat -> mvec n A (mvec n B b) i = b i) /\
  (forall x, (forall i, (i < n)%nat -> mvec n A x i = b i) ->
             forall i, (i < n)%nat -> x i = mvec n B b i) /\
  (forall x, (forall i, (i < n)%nat -> mvec n A x i = 0) -> forall i, (i < n)%nat -> x i = 0).
Proof.
  intros n A B b H. destruct (inverse_solves n A B b H) as [H1 H2].
  split; [exact H1|split; [exact H2|]].
  intros x Hx. apply (inverse_no_kernel n A B x H Hx).
Qed.

Lemma c10_product : forall (n : nat) (A1 A2 B1 B2 C : mat R),
  inverse n n A1 = Ok B1 -> inverse n n A2 = Ok B2 -> inverse n n (mprod n A1 A2) = Ok C ->
  forall i j, (i < n)%nat -> (j < n)%nat -> C i j = mprod n B2 B1 i j.
Proof. exact inverse_product. Qed.
