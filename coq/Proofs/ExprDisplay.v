(* Proofs/ExprDisplay.v — C19, clause 4 (partial): Display reads back.
   Fragment [dfrag]: trees over one-letter variables other than e / E, the constant e, the binary
   operators + - * / % ^ and the postfix !, in which every operand of an operator is an atom, a
   factorial of an operand, or a binary operation carrying its paren flag (so the text is fully
   parenthesised below the top operator).  No number occurs (hence none of the juxtaposition
   shortcuts of Display applies and the result holds for every rendering [fmt] of numbers).
   For such a tree e:   reread fmt e = Ok e   — lexer, parser and fold give back the very same tree. *)
From Coq Require Import ZArith NArith List Bool Lia.
From SV Require Import Base.Num Base.Outcome Base.Str Model.Expr Proofs.ExprTotal Proofs.ExprFold.
Import ListNotations.
Local Open Scope res_scope.

Section Display.
  Context {T : Type} {NT : Num T}.
  Variable fmt : T -> str.
  Notation tok := (token T).
  Notation tree := (expr T).

  (* ---- the fragment ------------------------------------------------------------------------ *)
  Definition var_ok (v : str) : bool :=
    match v with
    | [c] => is_ascii_letter c && negb (c =? 101)%N && negb (c =? 69)%N
    | _ => false
    end.
  Definition binop_ok (o : oper) : bool :=
    match o with OAdd | OSub | ODiv | OMul | ORem | OCaret => true | _ => false end.

  Fixpoint operand (e : tree) : bool :=
    match e with
    | EVar v => var_ok v
    | EConst KE => true
    | EBin o l r true => binop_ok o && operand l && operand r
    | EPost OFac v => operand v
    | _ => false
    end.
  Definition dfrag (e : tree) : bool :=
    operand e || match e with EBin o l r false => binop_ok o && operand l && operand r | _ => false end.

  (* ---- text without spaces, and tokens ------------------------------------------------------- *)
  Definition wrapc (p : bool) (s : str) : str := if p then [40%N] ++ s ++ [41%N] else s.
  Fixpoint chars (e : tree) : str :=
    match e with
    | EVar v => v
    | EConst c => cnst_str c
    | EBin o l r p => wrapc p (chars l ++ oper_str o ++ chars r)
    | EPost o v => chars v ++ oper_str o
    | _ => []
    end.
  Definition wrapt (p : bool) (s : list tok) : list tok := if p then [TLParen] ++ s ++ [TRParen] else s.
  Fixpoint toks (e : tree) : list tok :=
    match e with
    | EVar v => [TVar v]
    | EConst c => [TConst c]
    | EBin o l r p => wrapt p (toks l ++ [TOp o] ++ toks r)
    | EPost o v => toks v ++ [TOp o]
    | _ => []
    end.

  Definition nsp (c : N) : bool := negb (c =? c_space)%N.

  Lemma filter_var v : var_ok v = true -> filter nsp v = v.
  Proof.
    destruct v as [|c [|d v]]; cbn; try discriminate. intros H.
    apply andb_prop in H as [H _]. apply andb_prop in H as [H _].
    unfold nsp, c_space. destruct (c =? 32)%N eqn:E; [|reflexivity].
    apply N.eqb_eq in E. subst. discriminate.
  Qed.

  Lemma filter_oper o : filter nsp (oper_str o) = oper_str o.
  Proof. destruct o; reflexivity. Qed.

  Lemma operand_not_num e : operand e = true -> match e with ENum _ => False | _ => True end.
  Proof. destruct e; cbn; try discriminate; auto. Qed.

  Lemma display_bin o l r p : operand l = true -> operand r = true ->
    display fmt (EBin o l r p) = wrap p (display fmt l ++ [32%N] ++ oper_str o ++ [32%N] ++ display fmt r).
  Proof.
    intros Hl Hr. cbn [display].
    destruct o; try reflexivity.
    - destruct l as [x|v|c|f i|o' s|o' s|o' l1 l2 p']; try reflexivity; try discriminate;
        destruct r as [y|w|d|g j|o2 t|o2 t|o2 r1 r2 p2]; try reflexivity; discriminate.
    - destruct l as [x|v|c|f i|o' s|o' s|o' l1 l2 p']; try reflexivity; try discriminate;
        destruct r as [y|w|d|g j|o2 t|o2 t|o2 r1 r2 p2]; try reflexivity; discriminate.
  Qed.

  Lemma filter_display : forall e, operand e = true -> filter nsp (display fmt e) = chars e.
  Proof.
    induction e as [x|v|c|f i IH|o s IH|o s IH|o l IHl r IHr p]; intros H; try discriminate.
    - apply filter_var. exact H.
    - destruct c; try discriminate. reflexivity.
    - cbn [operand] in H. destruct o; try discriminate. cbn [display chars].
      rewrite filter_app, (IH H). reflexivity.
    - cbn [operand] in H. destruct p; [|discriminate].
      apply andb_prop in H as [H Hr]. apply andb_prop in H as [Ho Hl].
      rewrite (display_bin _ _ _ _ Hl Hr). cbn [wrap chars wrapc].
      rewrite !filter_app, (IHl Hl), (IHr Hr), filter_oper. reflexivity.
  Qed.

  Lemma filter_display_top o l r : operand l = true -> operand r = true ->
    filter nsp (display fmt (EBin o l r false)) = chars (EBin o l r false).
  Proof.
    intros Hl Hr. rewrite (display_bin _ _ _ _ Hl Hr). cbn [wrap chars wrapc].
    rewrite !filter_app, (filter_display _ Hl), (filter_display _ Hr), filter_oper. reflexivity.
  Qed.

  (* ---- the lexer on such a text ------------------------------------------------------------------ *)
  Definition Lexes (s : str) (ts : list tok) : Prop :=
    forall f, length s < f -> @lex_loop T NT f s = Ok ts.
  (* the rest of the text does not continue a word *)
  Definition boundary (s : str) : Prop := match s with c :: _ => is_ascii_letter c = false | [] => True end.

  Lemma lexes_nil : Lexes [] [].
  Proof. intros [|f] H; [cbn in H; lia|reflexivity]. Qed.

  Lemma letter_not_num c : is_ascii_letter c = true -> is_num_char c = false.
  Proof.
    unfold is_ascii_letter, is_num_char, is_ascii_digit, c_dot. intros H.
    destruct (N.leb_spec 48 c), (N.leb_spec c 57), (N.eqb_spec c 46); cbn; try reflexivity; exfalso;
      destruct (N.leb_spec 65 c), (N.leb_spec c 90), (N.leb_spec 97 c), (N.leb_spec c 122); cbn in H;
      try discriminate; lia.
  Qed.

  Lemma span_boundary (p : N -> bool) s : (match s with c :: _ => p c = false | [] => True end) -> span p s = ([], s).
  Proof. destruct s as [|c s]; cbn; [reflexivity|]. intros ->. reflexivity. Qed.

  Lemma to_lower_101 c : is_ascii_letter c = true -> (c =? 101)%N = false -> (c =? 69)%N = false ->
    (to_lower c =? 101)%N = false.
  Proof.
    unfold to_lower, is_ascii_letter. intros H H1 H2.
    apply N.eqb_neq in H1. apply N.eqb_neq in H2. apply N.eqb_neq.
    destruct (N.leb_spec 65 c), (N.leb_spec c 90); cbn; lia.
  Qed.

  Lemma lexes_var v rest r : var_ok v = true -> boundary rest -> Lexes rest r -> Lexes (v ++ rest) (TVar v :: r).
  Proof.
    intros Hv Hb Hr [|f] Hf; [cbn in Hf; lia|].
    destruct v as [|c [|d v]]; try discriminate. cbn [var_ok] in Hv.
    apply andb_prop in Hv as [Hv H69]. apply andb_prop in Hv as [Hl H101].
    apply negb_true_iff in H69. apply negb_true_iff in H101.
    cbn [app lex_loop]. rewrite (letter_not_num _ Hl), Hl.
    cbn [span]. rewrite Hl. rewrite (span_boundary is_ascii_letter rest Hb).
    cbn [length app] in Hf. rewrite (Hr f) by lia. cbn [bind word_tokens].
    unfold cnst_of_str. cbn [map str_eqb]. rewrite (to_lower_101 _ Hl H101 H69).
    rewrite !andb_false_r. cbn.
    destruct (to_lower c =? 112)%N; destruct (to_lower c =? 116)%N; reflexivity.
  Qed.

  Lemma lexes_e rest r : boundary rest -> Lexes rest r -> Lexes ([101%N] ++ rest) (TConst KE :: r).
  Proof.
    intros Hb Hr [|f] Hf; [cbn in Hf; lia|].
    cbn [app lex_loop]. change (is_num_char 101) with false. change (is_ascii_letter 101) with true.
    cbn [span]. change (is_ascii_letter 101) with true. cbv iota.
    rewrite (span_boundary is_ascii_letter rest Hb).
    cbn [length app] in Hf. rewrite (Hr f) by lia. reflexivity.
  Qed.

  Lemma lexes_char ch t rest r :
    is_num_char ch = false -> is_ascii_letter ch = false ->
    (if (ch =? 40)%N then t = TLParen else if (ch =? 41)%N then t = TRParen
     else exists o, oper_of_char ch = Some o /\ t = TOp o) ->
    Lexes rest r -> Lexes (ch :: rest) (t :: r).
  Proof.
    intros H1 H2 Ht Hr [|f] Hf; [cbn in Hf; lia|].
    cbn [lex_loop]. rewrite H1, H2. cbn [length] in Hf.
    destruct (ch =? 40)%N; [subst t; rewrite (Hr f) by lia; reflexivity|].
    destruct (ch =? 41)%N; [subst t; rewrite (Hr f) by lia; reflexivity|].
    destruct Ht as (o & -> & ->). rewrite (Hr f) by lia. reflexivity.
  Qed.

  Lemma lexes_oper o rest r : Lexes rest r -> Lexes (oper_str o ++ rest) (TOp o :: r).
  Proof.
    intros Hr. destruct o; cbn [oper_str app]; apply lexes_char; try reflexivity; try exact Hr;
      cbn; eexists; split; reflexivity.
  Qed.

  Lemma boundary_oper o rest : boundary (oper_str o ++ rest).
  Proof. destruct o; reflexivity. Qed.

  Lemma lexes_operand : forall e, operand e = true ->
    forall rest r, boundary rest -> Lexes rest r -> Lexes (chars e ++ rest) (toks e ++ r).
  Proof.
    induction e as [x|v|c|f i IH|o s IH|o s IH|o l IHl r0 IHr p]; intros H rest r Hb Hr; try discriminate.
    - apply lexes_var; assumption.
    - destruct c; try discriminate. apply lexes_e; assumption.
    - cbn [operand] in H. destruct o; try discriminate. cbn [chars toks].
      repeat rewrite <- app_assoc. apply (IH H).
      + reflexivity.
      + apply (lexes_oper OFac). exact Hr.
    - cbn [operand] in H. destruct p; [|discriminate].
      apply andb_prop in H as [H Hr0]. apply andb_prop in H as [Ho Hl].
      cbn [chars toks wrapc wrapt]. repeat rewrite <- app_assoc. cbn [app].
      apply lexes_char; try reflexivity.
      apply (IHl Hl); [apply boundary_oper|].
      apply lexes_oper.
      apply (IHr Hr0); [reflexivity|].
      apply lexes_char; try reflexivity. exact Hr.
  Qed.

  Lemma lexes_top o l r : operand l = true -> operand r = true ->
    Lexes (chars (EBin o l r false)) (toks (EBin o l r false)).
  Proof.
    intros Hl Hr. cbn [chars toks wrapc wrapt].
    rewrite <- (app_nil_r (chars r)), <- (app_nil_r (toks r)).
    repeat rewrite <- app_assoc.
    apply (lexes_operand l Hl); [apply boundary_oper|].
    apply lexes_oper. rewrite !app_nil_r.
    rewrite <- (app_nil_r (chars r)), <- (app_nil_r (toks r)).
    apply (lexes_operand r Hr); [exact I|apply lexes_nil].
  Qed.

  (* ---- implied_mul inserts nothing ------------------------------------------------------------------ *)
  Definition quiet (rest : list tok) : Prop :=
    match rest with t :: _ => starts_operand t true = false | [] => True end.

  Lemma im_inert (a : tok) r : (forall b, needs_cdot a b = false) -> implied_mul (a :: r) = a :: implied_mul r.
  Proof. intros H. cbn [implied_mul]. destruct r as [|b r]; [reflexivity|]. rewrite H. reflexivity. Qed.

  Lemma im_atom (a : tok) rest : quiet rest -> (forall b, starts_operand b true = false -> needs_cdot a b = false) ->
    implied_mul (a :: rest) = a :: implied_mul rest.
  Proof.
    intros Hq H. cbn [implied_mul]. destruct rest as [|b r]; [reflexivity|]. rewrite (H b Hq). reflexivity.
  Qed.

  Lemma im_operand : forall e, operand e = true ->
    forall rest, quiet rest -> implied_mul (toks e ++ rest) = toks e ++ implied_mul rest.
  Proof.
    induction e as [x|v|c|f i IH|o s IH|o s IH|o l IHl r0 IHr p]; intros H rest Hq; try discriminate.
    - cbn [toks app]. apply im_atom; [exact Hq|]. intros b Hb. cbn. exact Hb.
    - cbn [toks app]. apply im_atom; [exact Hq|]. intros b Hb. cbn. exact Hb.
    - cbn [operand] in H. destruct o; try discriminate. cbn [toks]. repeat rewrite <- app_assoc.
      rewrite (IH H); [|reflexivity]. cbn [app]. rewrite im_inert by reflexivity. reflexivity.
    - cbn [operand] in H. destruct p; [|discriminate].
      apply andb_prop in H as [H Hr0]. apply andb_prop in H as [Ho Hl].
      cbn [toks wrapt]. repeat rewrite <- app_assoc. cbn [app].
      rewrite im_inert by reflexivity.
      rewrite (IHl Hl); [|reflexivity]. rewrite im_inert by reflexivity.
      rewrite (IHr Hr0); [|reflexivity]. rewrite im_inert by reflexivity. reflexivity.
  Qed.

  (* ---- the parser on the tokens ------------------------------------------------------------------------ *)
  Definition prefix_then_fac (f : nat) (ts : list tok) : res (tree * list tok) :=
    let* (l, r) := prefix_part f ts in Ok (strip_fac l r).

  Lemma parse_expr_unfold2 f ts bp :
    parse_expr (S f) ts bp =
    (let* (l, r) := prefix_then_fac f ts in bin_loop (parse_expr f) f l r bp).
  Proof.
    rewrite parse_expr_unfold. unfold prefix_then_fac.
    destruct (prefix_part f ts) as [[l r]|e|w]; cbn [bind]; [|reflexivity|reflexivity].
    destruct (strip_fac l r). reflexivity.
  Qed.

  (* the rest of the tokens ends the phrase: nothing, or a closing parenthesis *)
  Definition closed (rest : list tok) : Prop := match rest with [] => True | TRParen :: _ => True | _ => False end.

  Lemma strip_fac_closed (e : tree) rest : closed rest -> strip_fac e rest = (e, rest).
  Proof. destruct rest as [|[| |o| | | |] r]; cbn; try contradiction; reflexivity. Qed.

  Lemma bin_loop_closed rec n (e : tree) rest bp : closed rest -> bin_loop rec (S n) e rest bp = Ok (e, rest).
  Proof. destruct rest as [|[| |o| | | |] r]; cbn; try contradiction; reflexivity. Qed.

  Lemma length_app_lt {A} (a b : list A) n : length (a ++ b) <= n -> length b <= n.
  Proof. rewrite app_length. lia. Qed.

  (* a binary operation between two operands, given that operands parse *)
  Lemma parse_top f o l r rest bp :
    (forall f' rest', length (toks l ++ rest') <= f' -> prefix_then_fac f' (toks l ++ rest') = Ok (strip_fac l rest')) ->
    (forall f' rest', length (toks r ++ rest') <= f' -> prefix_then_fac f' (toks r ++ rest') = Ok (strip_fac r rest')) ->
    binop_ok o = true -> closed rest -> bp <= binding_pow o ->
    length (toks l ++ TOp o :: toks r ++ rest) < f -> toks r <> [] ->
    parse_expr f (toks l ++ TOp o :: toks r ++ rest) bp = Ok (EBin o l r false, rest).
  Proof.
    intros Pl Pr Ho Hc Hbp Hf Hne.
    destruct f as [|f]; [lia|]. rewrite parse_expr_unfold2.
    rewrite Pl by lia. cbn [bind].
    assert (Es : strip_fac l (TOp o :: toks r ++ rest) = (l, TOp o :: toks r ++ rest)).
    { destruct o; try discriminate; reflexivity. }
    rewrite Es.
    rewrite app_length in Hf. cbn [length] in Hf.
    destruct f as [|f]; [lia|]. cbn [bin_loop].
    replace (binding_pow o <? bp)%nat with false by (symmetry; apply Nat.ltb_ge; exact Hbp).
    assert (Eo : (if oper_eqb o OCDot then OMul else o) = o) by (destruct o; try discriminate; reflexivity).
    rewrite Eo.
    assert (Er : parse_expr (S f) (toks r ++ rest) (binding_pow o + 1) = Ok (r, rest)).
    { rewrite parse_expr_unfold2. rewrite Pr by lia. cbn [bind]. rewrite (strip_fac_closed _ _ Hc).
      destruct f as [|f].
      { exfalso. destruct (toks r) as [|t tr]; [contradiction|]. cbn [length app] in Hf. lia. }
      apply bin_loop_closed. exact Hc. }
    rewrite Er. cbn [bind].
    destruct f as [|f].
    { exfalso. destruct (toks r) as [|t tr]; [contradiction|]. cbn [length app] in Hf. lia. }
    apply bin_loop_closed. exact Hc.
  Qed.

  Lemma toks_nonempty e : operand e = true -> toks e <> [].
  Proof.
    destruct e as [x|v|c|f i|o s|o s|o l r p]; cbn; try discriminate.
    - intros _ H. destruct (toks s); discriminate.
    - destruct p; [|discriminate]. discriminate.
  Qed.

  Lemma parse_operand : forall e, operand e = true ->
    forall f rest, length (toks e ++ rest) <= f ->
      prefix_then_fac f (toks e ++ rest) = Ok (strip_fac e rest).
  Proof.
    induction e as [x|v|c|f0 i IH|o s IH|o s IH|o l IHl r IHr p]; intros H f rest Hf; try discriminate.
    - reflexivity.
    - reflexivity.
    - cbn [operand] in H. destruct o; try discriminate. cbn [toks] in *. rewrite <- app_assoc in *.
      rewrite (IH H) by exact Hf. reflexivity.
    - cbn [operand] in H. destruct p; [|discriminate].
      apply andb_prop in H as [H Hr0]. apply andb_prop in H as [Ho Hl].
      cbn [toks wrapt] in *. repeat rewrite <- app_assoc in *. cbn [app] in *.
      unfold prefix_then_fac. cbn [prefix_part].
      cbn [length] in Hf.
      rewrite (parse_top f o l r (TRParen :: rest) 0 (IHl Hl) (IHr Hr0) Ho I ltac:(lia)).
      + reflexivity.
      + lia.
      + apply toks_nonempty. exact Hr0.
  Qed.

  (* ---- no number: fold changes nothing -------------------------------------------------------------------- *)
  Lemma operand_is_num c e : operand e = true -> is_num c e = false.
  Proof. destruct e; cbn; try discriminate; reflexivity. Qed.

  Lemma foldS_operand : forall e, operand e = true -> foldS e = e.
  Proof.
    induction e as [x|v|c|f0 i IH|o s IH|o s IH|o l IHl r IHr p]; intros H; try reflexivity.
    cbn [operand] in H. destruct p; [|discriminate].
    apply andb_prop in H as [H Hr0]. apply andb_prop in H as [Ho Hl].
    cbn [foldS]. rewrite (IHl Hl), (IHr Hr0).
    rewrite !(operand_is_num _ _ Hl), !(operand_is_num _ _ Hr0).
    destruct o; reflexivity.
  Qed.

  Lemma foldS_top o l r : operand l = true -> operand r = true -> foldS (EBin o l r false) = EBin o l r false.
  Proof.
    intros Hl Hr0. cbn [foldS]. rewrite (foldS_operand _ Hl), (foldS_operand _ Hr0).
    rewrite !(operand_is_num _ _ Hl), !(operand_is_num _ _ Hr0).
    destruct o; reflexivity.
  Qed.

  (* ---- round trip --------------------------------------------------------------------------------------------- *)
  Lemma lexer_of_Lexes s ts : Lexes (filter nsp s) ts -> @lexer T NT s = Ok ts.
  Proof. intros H. unfold lexer. unfold Lexes, nsp in H. apply H. lia. Qed.

  Lemma c19_display_roundtrip_partial_lemma : forall e : tree, dfrag e = true -> reread fmt e = Ok e.
  Proof.
    intros e H. unfold dfrag in H. unfold reread.
    destruct (operand e) eqn:Hop.
    - (* an operand *)
      assert (Hlex : lexer (display fmt e) = Ok (toks e)).
      { apply lexer_of_Lexes. change (fun c : N => negb (c =? c_space)%N) with nsp.
        rewrite (filter_display _ Hop).
        rewrite <- (app_nil_r (chars e)), <- (app_nil_r (toks e)).
        apply (lexes_operand _ Hop); [exact I|apply lexes_nil]. }
      rewrite Hlex. cbn [bind]. unfold parser, parse_unfolded.
      pose proof (im_operand e Hop [] I) as Him. rewrite !app_nil_r in Him. cbn [implied_mul] in Him.
      rewrite Him. rewrite parse_expr_unfold2.
      pose proof (parse_operand e Hop (length (toks e)) [] ltac:(rewrite app_nil_r; lia)) as Hp.
      rewrite app_nil_r in Hp. rewrite Hp. cbn [bind strip_fac].
      destruct (length (toks e)) eqn:El.
      { exfalso. apply (toks_nonempty e Hop). destruct (toks e); [reflexivity|discriminate]. }
      cbn [bin_loop bind]. rewrite fold_operations_foldS, (foldS_operand _ Hop). reflexivity.
    - (* a binary operation at the top *)
      cbn [orb] in H. destruct e as [x|v|c|f0 i|o s|o s|o l r p]; try discriminate.
      destruct p; [discriminate|].
      apply andb_prop in H as [H Hr0]. apply andb_prop in H as [Ho Hl].
      assert (Hlex : lexer (display fmt (EBin o l r false)) = Ok (toks (EBin o l r false))).
      { apply lexer_of_Lexes. change (fun c : N => negb (c =? c_space)%N) with nsp.
        rewrite (filter_display_top _ _ _ Hl Hr0). apply lexes_top; assumption. }
      rewrite Hlex. cbn [bind]. unfold parser, parse_unfolded.
      cbn [toks wrapt].
      assert (Him : implied_mul (toks l ++ [TOp o] ++ toks r) = toks l ++ [TOp o] ++ toks r).
      { rewrite (im_operand l Hl); [|reflexivity]. cbn [app]. rewrite im_inert by reflexivity.
        pose proof (im_operand r Hr0 [] I) as Hi. rewrite !app_nil_r in Hi. cbn [implied_mul] in Hi.
        rewrite Hi. reflexivity. }
      rewrite Him.
      pose proof (parse_top (S (length (toks l ++ [TOp o] ++ toks r))) o l r [] 0
                    (parse_operand l Hl) (parse_operand r Hr0) Ho I ltac:(lia)) as Hp.
      rewrite !app_nil_r in Hp. cbn [app] in Hp |- *.
      rewrite Hp; [|lia|apply toks_nonempty; exact Hr0].
      cbn [bind]. rewrite fold_operations_foldS, (foldS_top _ _ _ Hl Hr0). reflexivity.
  Qed.
End Display.
