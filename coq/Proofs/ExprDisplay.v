(* Proofs/ExprDisplay.v — C19, clause 4 (partial): Display reads back.
   Fragment [dfrag]: trees over one-letter variables other than e / E, the four constants, the binary
   operators + - * / % ^, the postfix ! and the prefix minus, in which
     - the right operand of an operator is an atom, a factorial, a binary operation carrying its paren flag,
       or a prefix minus of such a thing;
     - the left operand is an atom, a factorial or a paren-flagged binary operation — and, for ^, also a
       prefix minus (Display prints it in parentheses); the same for the operand of ! ;
     - the tree itself may be any of these or one binary operation without paren flag.
   So the text is fully parenthesised below the top operator.  No number occurs (hence none of the
   juxtaposition shortcuts of Display applies and the result holds for every rendering [fmt] of numbers).
   For such a tree e:   reread fmt e = Ok e   — lexer, parser and fold give back the very same tree. *)
From Coq Require Import ZArith NArith List Bool Lia.
From SV Require Import Base.Num Base.Outcome Base.Str Model.Expr Proofs.ExprTotal Proofs.ExprFold.
Import ListNotations.
Local Open Scope res_scope.

Section Display.
  Context {T : Type} {NT : Num T}.
  Variable fmt : T -> str.
  Notation tok := (token T).
  Notation tree := (expr T).

  (* ---- the fragment ------------------------------------------------------------------------ *)
  Definition var_ok (v : str) : bool :=
    match v with
    | [c] => is_ascii_letter c && negb (c =? 101)%N && negb (c =? 69)%N
    | _ => false
    end.
  Definition binop_ok (o : oper) : bool :=
    match o with OAdd | OSub | ODiv | OMul | ORem | OCaret => true | _ => false end.
  Definition is_caret (o : oper) : bool := match o with OCaret => true | _ => false end.
  Definition is_pre (e : tree) : bool := match e with EPre _ _ => true | _ => false end.

  (* the position of a sub-tree: plain operand (no leading minus), right operand (a leading minus is
     fine), or a position where Display puts a leading minus in parentheses (base of ^, operand of !) *)
  Inductive mode := MOperand | MSigned | MParen.

  Fixpoint ok (m : mode) (e : tree) : bool :=
    match e with
    | EVar v => var_ok v
    | EConst _ => true
    | EBin o l r true => binop_ok o && ok (if is_caret o then MParen else MOperand) l && ok MSigned r
    | EPost OFac v => ok MParen v
    | EPre OSub v => match m with MOperand => false | _ => ok MSigned v end
    | _ => false
    end.
  Definition dfrag (e : tree) : bool :=
    ok MSigned e
    || match e with
       | EBin o l r false => binop_ok o && ok (if is_caret o then MParen else MOperand) l && ok MSigned r
       | _ => false
       end.

  Lemma ok_weaken m e : ok MOperand e = true -> ok m e = true.
  Proof. destruct e as [x|v|c|f i|o s|o s|o l r p]; cbn; try discriminate; auto. destruct o; discriminate. Qed.
  Lemma ok_not_pre m e : ok m e = true -> is_pre e = false -> ok MOperand e = true.
  Proof. destruct e as [x|v|c|f i|o s|o s|o l r p]; cbn; try discriminate; auto. Qed.

  (* ---- text without spaces, and tokens ------------------------------------------------------- *)
  Definition wrapc (p : bool) (s : str) : str := if p then [40%N] ++ s ++ [41%N] else s.
  Definition wrapt (p : bool) (s : list tok) : list tok := if p then [TLParen] ++ s ++ [TRParen] else s.
  Fixpoint chars (e : tree) : str :=
    match e with
    | EVar v => v
    | EConst c => cnst_str c
    | EPre o v => oper_str o ++ chars v
    | EPost o v => wrapc (is_pre v) (chars v) ++ oper_str o
    | EBin o l r p => wrapc p (wrapc (is_caret o && is_pre l) (chars l) ++ oper_str o ++ chars r)
    | _ => []
    end.
  Fixpoint toks (e : tree) : list tok :=
    match e with
    | EVar v => [TVar v]
    | EConst c => [TConst c]
    | EPre o v => TOp o :: toks v
    | EPost o v => wrapt (is_pre v) (toks v) ++ [TOp o]
    | EBin o l r p => wrapt p (wrapt (is_caret o && is_pre l) (toks l) ++ [TOp o] ++ toks r)
    | _ => []
    end.

  Definition nsp (c : N) : bool := negb (c =? c_space)%N.

  Lemma filter_var v : var_ok v = true -> filter nsp v = v.
  Proof.
    destruct v as [|c [|d v]]; cbn; try discriminate. intros H.
    apply andb_prop in H as [H _]. apply andb_prop in H as [H _].
    unfold nsp, c_space. destruct (c =? 32)%N eqn:E; [|reflexivity].
    apply N.eqb_eq in E. subst. discriminate.
  Qed.
  Lemma filter_oper o : filter nsp (oper_str o) = oper_str o.
  Proof. destruct o; reflexivity. Qed.
  Lemma filter_cnst c : filter nsp (cnst_str c) = cnst_str c.
  Proof. destruct c; reflexivity. Qed.
  Lemma filter_wrapc p s : filter nsp (wrapc p s) = wrapc p (filter nsp s).
  Proof. destruct p; cbn [wrapc]; [|reflexivity]. rewrite !filter_app. reflexivity. Qed.

  Definition not_num (e : tree) : Prop := match e with ENum _ => False | _ => True end.
  Lemma ok_not_num m e : ok m e = true -> not_num e.
  Proof. destruct e; cbn; try discriminate; auto. Qed.

  Definition lhs_text (o : oper) (l : tree) : str :=
    match l with
    | EPre _ _ => if (2 <? binding_pow o)%nat then [40%N] ++ render fmt l 0 ++ [41%N] else render fmt l (binding_pow o)
    | _ => render fmt l (binding_pow o)
    end.

  Definition bin_text (o : oper) (l r : tree) : str :=
    lhs_text o l ++ [32%N] ++ oper_str o ++ [32%N] ++ render fmt r (binding_pow o + 1).

  Lemma render_bin o l r p k : not_num l -> not_num r ->
    render fmt (EBin o l r p) k =
    if p || (binding_pow o <? k)%nat then [40%N] ++ bin_text o l r ++ [41%N] else bin_text o l r.
  Proof.
    intros Hl Hr. cbn [render]. unfold bin_text, lhs_text.
    destruct o; destruct l as [x|v|c|f i|o' s|o' s|o' l1 l2 p']; try contradiction;
      destruct r as [y|w|d|g j|o2 t|o2 t|o2 r1 r2 p2]; try contradiction; reflexivity.
  Qed.

  Lemma render_post o v k :
    render fmt (EPost o v) k =
    match v with
    | EPre _ _ | EBin _ _ _ false => [40%N] ++ render fmt v 0 ++ [41%N] ++ oper_str o
    | _ => render fmt v 0 ++ oper_str o
    end.
  Proof. reflexivity. Qed.

  (* in the fragment the text does not depend on the context: every operand is self-delimiting *)
  Lemma filter_render : forall e m k, ok m e = true -> filter nsp (render fmt e k) = chars e.
  Proof.
    induction e as [x|v|c|f i IH|o s IH|o s IH|o l IHl r IHr p]; intros m k H; try discriminate.
    - apply filter_var. exact H.
    - apply filter_cnst.
    - cbn [ok] in H. destruct o; try discriminate.
      assert (Hs : ok MSigned s = true) by (destruct m; try discriminate; exact H).
      cbn [render chars]. rewrite filter_app, (IH _ _ Hs). reflexivity.
    - cbn [ok] in H. destruct o; try discriminate.
      rewrite render_post. cbn [chars].
      destruct s as [y|w|d|g j|o2 t|o2 t|o2 r1 r2 p2]; try discriminate; cbn [is_pre wrapc];
        try (rewrite filter_app, (IH _ _ H); reflexivity).
      + rewrite !filter_app, (IH _ _ H). cbn. rewrite <- !app_assoc. reflexivity.
      + destruct p2; [|discriminate]. rewrite filter_app, (IH _ _ H). reflexivity.
    - cbn [ok] in H. destruct p; [|discriminate].
      apply andb_prop in H as [H Hr]. apply andb_prop in H as [Ho Hl].
      rewrite (render_bin _ _ _ _ _ (ok_not_num _ _ Hl) (ok_not_num _ _ Hr)). cbn [orb chars wrapc]. cbv iota.
      unfold bin_text.
      rewrite !filter_app, (IHr _ _ Hr), filter_oper. cbn [filter nsp c_space N.eqb Pos.eqb negb app].
      f_equal. f_equal. unfold lhs_text.
      destruct l as [y|w|d|g j|o2 t|o2 t|o2 r1 r2 p2]; try discriminate;
        try (rewrite andb_false_r; cbn [wrapc]; rewrite (IHl _ _ Hl); reflexivity).
      destruct o; cbn in Hl, Ho; try discriminate; try (destruct o2; discriminate).
      cbn [binding_pow]. change (2 <? 5)%nat with true. cbv iota. cbn [is_caret is_pre andb wrapc].
      rewrite !filter_app, (IHl MParen 0 Hl). reflexivity.
  Qed.

  Lemma filter_display : forall e m, ok m e = true -> filter nsp (display fmt e) = chars e.
  Proof. intros e m H. apply (filter_render e m 0 H). Qed.

  Lemma filter_display_top o l r :
    ok (if is_caret o then MParen else MOperand) l = true -> ok MSigned r = true ->
    filter nsp (display fmt (EBin o l r false)) = chars (EBin o l r false).
  Proof.
    intros Hl Hr. unfold display.
    rewrite (render_bin _ _ _ _ _ (ok_not_num _ _ Hl) (ok_not_num _ _ Hr)).
    replace (false || (binding_pow o <? 0)%nat) with false by (destruct (binding_pow o); reflexivity).
    cbn [chars wrapc]. unfold bin_text.
    rewrite !filter_app, (filter_render _ _ _ Hr), filter_oper. cbn [filter nsp c_space N.eqb Pos.eqb negb app].
    f_equal. unfold lhs_text.
    destruct l as [y|w|d|g j|o2 t|o2 t|o2 r1 r2 p2]; try discriminate;
      try (rewrite andb_false_r; cbn [wrapc]; rewrite (filter_render _ _ _ Hl); reflexivity).
    destruct o; cbn in Hl; try discriminate; try (destruct o2; discriminate).
    cbn [binding_pow]. change (2 <? 5)%nat with true. cbv iota. cbn [is_caret is_pre andb wrapc].
    rewrite !filter_app, (filter_render (EPre o2 t) MParen 0 Hl). reflexivity.
  Qed.

  (* ---- the lexer on such a text ------------------------------------------------------------------ *)
  Definition Lexes (s : str) (ts : list tok) : Prop :=
    forall f, length s < f -> @lex_loop T NT f s = Ok ts.
  (* the rest of the text does not continue a word *)
  Definition boundary (s : str) : Prop := match s with c :: _ => is_ascii_letter c = false | [] => True end.

  Lemma lexes_nil : Lexes [] [].
  Proof. intros [|f] H; [cbn in H; lia|reflexivity]. Qed.

  Lemma letter_not_num c : is_ascii_letter c = true -> is_num_char c = false.
  Proof.
    unfold is_ascii_letter, is_num_char, is_ascii_digit, c_dot. intros H.
    destruct (N.leb_spec 48 c), (N.leb_spec c 57), (N.eqb_spec c 46); cbn; try reflexivity; exfalso;
      destruct (N.leb_spec 65 c), (N.leb_spec c 90), (N.leb_spec 97 c), (N.leb_spec c 122); cbn in H;
      try discriminate; lia.
  Qed.

  Lemma span_boundary (p : N -> bool) s : (match s with c :: _ => p c = false | [] => True end) -> span p s = ([], s).
  Proof. destruct s as [|c s]; cbn; [reflexivity|]. intros ->. reflexivity. Qed.

  Lemma to_lower_101 c : is_ascii_letter c = true -> (c =? 101)%N = false -> (c =? 69)%N = false ->
    (to_lower c =? 101)%N = false.
  Proof.
    unfold to_lower, is_ascii_letter. intros H H1 H2.
    apply N.eqb_neq in H1. apply N.eqb_neq in H2. apply N.eqb_neq.
    destruct (N.leb_spec 65 c), (N.leb_spec c 90); cbn; lia.
  Qed.

  Lemma lexes_var v rest r : var_ok v = true -> boundary rest -> Lexes rest r -> Lexes (v ++ rest) (TVar v :: r).
  Proof.
    intros Hv Hb Hr [|f] Hf; [cbn in Hf; lia|].
    destruct v as [|c [|d v]]; try discriminate. cbn [var_ok] in Hv.
    apply andb_prop in Hv as [Hv H69]. apply andb_prop in Hv as [Hl H101].
    apply negb_true_iff in H69. apply negb_true_iff in H101.
    cbn [app lex_loop]. rewrite (letter_not_num _ Hl), Hl.
    cbn [span]. rewrite Hl. rewrite (span_boundary is_ascii_letter rest Hb).
    cbn [length app] in Hf. rewrite (Hr f) by lia. cbn [bind word_tokens].
    unfold cnst_of_str. cbn [map str_eqb]. rewrite (to_lower_101 _ Hl H101 H69).
    rewrite !andb_false_r. cbn.
    destruct (to_lower c =? 112)%N; destruct (to_lower c =? 116)%N; reflexivity.
  Qed.

  Lemma lexes_e rest r : boundary rest -> Lexes rest r -> Lexes ([101%N] ++ rest) (TConst KE :: r).
  Proof.
    intros Hb Hr [|f] Hf; [cbn in Hf; lia|].
    cbn [app lex_loop]. change (is_num_char 101) with false. change (is_ascii_letter 101) with true.
    cbn [span]. change (is_ascii_letter 101) with true. cbv iota.
    rewrite (span_boundary is_ascii_letter rest Hb).
    cbn [length app] in Hf. rewrite (Hr f) by lia. reflexivity.
  Qed.

  (* one character that is a token by itself *)
  Definition char_token (ch : N) : option tok :=
    if (ch =? 960)%N then Some (TConst KPi) else if (ch =? 964)%N then Some (TConst KTau)
    else if (ch =? 981)%N then Some (TConst KPhi)
    else if (ch =? 40)%N then Some TLParen else if (ch =? 41)%N then Some TRParen
    else match oper_of_char ch with Some o => Some (TOp o) | None => None end.

  Lemma lexes_char ch t rest r :
    is_num_char ch = false -> is_ascii_letter ch = false -> char_token ch = Some t ->
    Lexes rest r -> Lexes (ch :: rest) (t :: r).
  Proof.
    intros H1 H2 Ht Hr [|f] Hf; [cbn in Hf; lia|].
    cbn [lex_loop]. rewrite H1, H2. cbn [length] in Hf. unfold char_token in Ht.
    destruct (ch =? 960)%N; [injection Ht as <-; rewrite (Hr f) by lia; reflexivity|].
    destruct (ch =? 964)%N; [injection Ht as <-; rewrite (Hr f) by lia; reflexivity|].
    destruct (ch =? 981)%N; [injection Ht as <-; rewrite (Hr f) by lia; reflexivity|].
    destruct (ch =? 40)%N; [injection Ht as <-; rewrite (Hr f) by lia; reflexivity|].
    destruct (ch =? 41)%N; [injection Ht as <-; rewrite (Hr f) by lia; reflexivity|].
    destruct (oper_of_char ch); [|discriminate]. injection Ht as <-. rewrite (Hr f) by lia. reflexivity.
  Qed.

  Lemma lexes_oper o rest r : Lexes rest r -> Lexes (oper_str o ++ rest) (TOp o :: r).
  Proof. intros Hr. destruct o; cbn [oper_str app]; apply lexes_char; try reflexivity; exact Hr. Qed.

  Lemma lexes_cnst c rest r : boundary rest -> Lexes rest r -> Lexes (cnst_str c ++ rest) (TConst c :: r).
  Proof.
    intros Hb Hr. destruct c; cbn [cnst_str app]; try (apply lexes_char; try reflexivity; exact Hr).
    apply (lexes_e rest r Hb Hr).
  Qed.

  Lemma boundary_oper o rest : boundary (oper_str o ++ rest).
  Proof. destruct o; reflexivity. Qed.

  Lemma lexes_wrap p s ts rest r :
    (forall rest' r', boundary rest' -> Lexes rest' r' -> Lexes (s ++ rest') (ts ++ r')) ->
    boundary rest -> Lexes rest r -> Lexes (wrapc p s ++ rest) (wrapt p ts ++ r).
  Proof.
    intros H Hb Hr. destruct p; cbn [wrapc wrapt]; [|apply H; assumption].
    repeat rewrite <- app_assoc. cbn [app].
    apply lexes_char; try reflexivity.
    apply H; [reflexivity|]. apply lexes_char; try reflexivity. exact Hr.
  Qed.

  Lemma lexes_tree : forall e m, ok m e = true ->
    forall rest r, boundary rest -> Lexes rest r -> Lexes (chars e ++ rest) (toks e ++ r).
  Proof.
    induction e as [x|v|c|f i IH|o s IH|o s IH|o l IHl r0 IHr p]; intros m H rest r Hb Hr; try discriminate.
    - apply lexes_var; assumption.
    - apply lexes_cnst; assumption.
    - cbn [ok] in H. destruct o; try discriminate.
      assert (Hs : ok MSigned s = true) by (destruct m; try discriminate; exact H).
      cbn [chars toks]. rewrite <- app_assoc. cbn [app]. apply (lexes_oper OSub). apply (IH _ Hs); assumption.
    - cbn [ok] in H. destruct o; try discriminate. cbn [chars toks].
      repeat rewrite <- app_assoc.
      apply lexes_wrap; [intros; apply (IH _ H); assumption|reflexivity|].
      apply (lexes_oper OFac). exact Hr.
    - cbn [ok] in H. destruct p; [|discriminate].
      apply andb_prop in H as [H Hr0]. apply andb_prop in H as [Ho Hl].
      cbn [chars toks]. apply lexes_wrap; [|assumption|assumption].
      intros rest' r' Hb' Hr'. repeat rewrite <- app_assoc.
      apply lexes_wrap; [intros; apply (IHl _ Hl); assumption|apply boundary_oper|].
      apply lexes_oper. apply (IHr _ Hr0); assumption.
  Qed.

  Lemma lexes_top o l r :
    ok (if is_caret o then MParen else MOperand) l = true -> ok MSigned r = true ->
    Lexes (chars (EBin o l r false)) (toks (EBin o l r false)).
  Proof.
    intros Hl Hr. cbn [chars toks wrapc wrapt].
    rewrite <- (app_nil_r (chars r)), <- (app_nil_r (toks r)).
    repeat rewrite <- app_assoc.
    apply lexes_wrap; [intros; apply (lexes_tree _ _ Hl); assumption|apply boundary_oper|].
    apply lexes_oper.
    apply (lexes_tree r _ Hr); [exact I|apply lexes_nil].
  Qed.

  (* ---- implied_mul inserts nothing ------------------------------------------------------------------ *)
  Definition quiet (rest : list tok) : Prop :=
    match rest with t :: _ => starts_operand t true = false | [] => True end.

  Lemma im_inert (a : tok) r : (forall b, needs_cdot a b = false) -> implied_mul (a :: r) = a :: implied_mul r.
  Proof. intros H. cbn [implied_mul]. destruct r as [|b r]; [reflexivity|]. rewrite H. reflexivity. Qed.

  Lemma im_atom (a : tok) rest : quiet rest -> (forall b, starts_operand b true = false -> needs_cdot a b = false) ->
    implied_mul (a :: rest) = a :: implied_mul rest.
  Proof.
    intros Hq H. cbn [implied_mul]. destruct rest as [|b r]; [reflexivity|]. rewrite (H b Hq). reflexivity.
  Qed.

  Lemma im_wrap p (ts rest : list tok) :
    (forall rest', quiet rest' -> implied_mul (ts ++ rest') = ts ++ implied_mul rest') ->
    quiet rest -> implied_mul (wrapt p ts ++ rest) = wrapt p ts ++ implied_mul rest.
  Proof.
    intros H Hq. destruct p; cbn [wrapt]; [|apply H; exact Hq].
    repeat rewrite <- app_assoc. cbn [app]. rewrite im_inert by reflexivity.
    rewrite H by reflexivity. rewrite im_inert by reflexivity. reflexivity.
  Qed.

  Lemma im_tree : forall e m, ok m e = true ->
    forall rest, quiet rest -> implied_mul (toks e ++ rest) = toks e ++ implied_mul rest.
  Proof.
    induction e as [x|v|c|f i IH|o s IH|o s IH|o l IHl r0 IHr p]; intros m H rest Hq; try discriminate.
    - cbn [toks app]. apply im_atom; [exact Hq|]. intros b Hb. cbn. exact Hb.
    - cbn [toks app]. apply im_atom; [exact Hq|]. intros b Hb. cbn. exact Hb.
    - cbn [ok] in H. destruct o; try discriminate.
      assert (Hs : ok MSigned s = true) by (destruct m; try discriminate; exact H).
      cbn [toks app]. rewrite im_inert by reflexivity. rewrite (IH _ Hs _ Hq). reflexivity.
    - cbn [ok] in H. destruct o; try discriminate. cbn [toks]. repeat rewrite <- app_assoc.
      rewrite im_wrap; [|intros; apply (IH _ H); assumption|reflexivity].
      cbn [app]. rewrite im_inert by reflexivity. reflexivity.
    - cbn [ok] in H. destruct p; [|discriminate].
      apply andb_prop in H as [H Hr0]. apply andb_prop in H as [Ho Hl].
      cbn [toks]. apply im_wrap; [|exact Hq].
      intros rest' Hq'. repeat rewrite <- app_assoc.
      rewrite im_wrap; [|intros; apply (IHl _ Hl); assumption|reflexivity].
      cbn [app]. rewrite im_inert by reflexivity. rewrite (IHr _ Hr0 _ Hq'). reflexivity.
  Qed.

  (* ---- the parser on the tokens ------------------------------------------------------------------------ *)
  Definition prefix_then_fac (f : nat) (ts : list tok) (bp : nat) : res (tree * list tok) :=
    let* (l, r) := prefix_part f ts bp in Ok (strip_fac l r).

  Lemma parse_expr_unfold2 f ts bp :
    parse_expr (S f) ts bp =
    (let* (l, r) := prefix_then_fac f ts bp in bin_loop (parse_expr f) f l r bp).
  Proof.
    rewrite parse_expr_unfold. unfold prefix_then_fac.
    destruct (prefix_part f ts bp) as [[l r]|e|w]; cbn [bind]; [|reflexivity|reflexivity].
    destruct (strip_fac l r). reflexivity.
  Qed.

  (* the rest of the tokens ends the phrase: nothing, or a closing parenthesis *)
  Definition closed (rest : list tok) : Prop := match rest with [] => True | TRParen :: _ => True | _ => False end.

  Lemma strip_fac_closed (e : tree) rest : closed rest -> strip_fac e rest = (e, rest).
  Proof. destruct rest as [|[| |o| | | |] r]; cbn; try contradiction; reflexivity. Qed.

  Lemma bin_loop_closed rec n (e : tree) rest bp : closed rest -> bin_loop rec (S n) e rest bp = Ok (e, rest).
  Proof. destruct rest as [|[| |o| | | |] r]; cbn; try contradiction; reflexivity. Qed.

  (* a self-delimiting phrase: atom, factorial, parenthesised group *)
  Definition Phrase (ts : list tok) (e : tree) : Prop :=
    forall f rest bp, length (ts ++ rest) <= f -> prefix_then_fac f (ts ++ rest) bp = Ok (strip_fac e rest).
  (* a complete operand, followed by the end of its group *)
  Definition Whole (e : tree) : Prop :=
    forall f rest bp, closed rest -> length (toks e ++ rest) < f -> parse_expr f (toks e ++ rest) bp = Ok (e, rest).

  Lemma whole_of_phrase e : toks e <> [] -> Phrase (toks e) e -> Whole e.
  Proof.
    intros Hne HP f rest bp Hc Hf. destruct f as [|f]; [lia|]. rewrite parse_expr_unfold2.
    rewrite HP by lia. cbn [bind]. rewrite (strip_fac_closed _ _ Hc).
    destruct f as [|f]; [exfalso; destruct (toks e); [contradiction|cbn in Hf; lia]|].
    apply bin_loop_closed. exact Hc.
  Qed.

  Lemma phrase_of_whole e : Whole e -> Phrase ([TLParen] ++ toks e ++ [TRParen]) e -> True.
  Proof. trivial. Qed.

  (* a parenthesised complete operand without paren flag of its own is a phrase *)
  Lemma phrase_paren e : Whole e -> set_paren e = e -> Phrase ([TLParen] ++ toks e ++ [TRParen]) e.
  Proof.
    intros HW Hsp f rest bp Hf. repeat rewrite <- app_assoc in *. cbn [app] in *.
    unfold prefix_then_fac. cbn [prefix_part]. cbn [length] in Hf.
    rewrite (HW f (TRParen :: rest) 0 I) by lia. cbn [bind]. rewrite Hsp. reflexivity.
  Qed.

  (* a binary operation between a phrase and a complete operand *)
  Lemma parse_top f o l r lts rest bp :
    Phrase lts l -> Whole r ->
    binop_ok o = true -> closed rest -> bp <= binding_pow o ->
    length (lts ++ TOp o :: toks r ++ rest) < f -> toks r <> [] ->
    parse_expr f (lts ++ TOp o :: toks r ++ rest) bp = Ok (EBin o l r false, rest).
  Proof.
    intros Pl Pr Ho Hc Hbp Hf Hne.
    destruct f as [|f]; [lia|]. rewrite parse_expr_unfold2.
    rewrite Pl by lia. cbn [bind].
    assert (Es : strip_fac l (TOp o :: toks r ++ rest) = (l, TOp o :: toks r ++ rest)).
    { destruct o; try discriminate; reflexivity. }
    rewrite Es.
    rewrite app_length in Hf. cbn [length] in Hf.
    destruct f as [|f]; [lia|]. cbn [bin_loop].
    replace (binding_pow o <? bp)%nat with false by (symmetry; apply Nat.ltb_ge; exact Hbp).
    assert (Eo : (if oper_eqb o OCDot then OMul else o) = o) by (destruct o; try discriminate; reflexivity).
    rewrite Eo.
    rewrite (Pr (S f) rest (binding_pow o + 1) Hc) by lia. cbn [bind].
    destruct f as [|f].
    { exfalso. destruct (toks r) as [|t tr]; [contradiction|]. cbn [length app] in Hf. lia. }
    apply bin_loop_closed. exact Hc.
  Qed.

  Lemma toks_nonempty m e : ok m e = true -> toks e <> [].
  Proof.
    destruct e as [x|v|c|f i|o s|o s|o l r p]; cbn; try discriminate.
    - intros _ H. destruct (wrapt (is_pre s) (toks s)); discriminate.
    - destruct p; [|discriminate]. discriminate.
  Qed.

  Lemma set_paren_pre o (v : tree) : set_paren (EPre o v) = EPre o v.
  Proof. reflexivity. Qed.

  (* what each position gives *)
  Lemma parse_tree : forall e,
    (ok MOperand e = true -> Phrase (toks e) e) /\
    (ok MSigned e = true -> Whole e) /\
    (ok MParen e = true -> Phrase (wrapt (is_pre e) (toks e)) e).
  Proof.
    induction e as [x|v|c|f0 i IH|o s IH|o s IH|o l IHl r IHr p].
    - split; [discriminate|split; discriminate].
    - assert (HP : Phrase (toks (EVar v)) (EVar v)) by (intros f rest bp _; reflexivity).
      split; [intros _; exact HP|split; [intros _; apply whole_of_phrase; [discriminate|exact HP]|intros _; exact HP]].
    - assert (HP : Phrase (toks (EConst c)) (EConst c)) by (intros f rest bp _; reflexivity).
      split; [intros _; exact HP|split; [intros _; apply whole_of_phrase; [discriminate|exact HP]|intros _; exact HP]].
    - split; [discriminate|split; discriminate].
    - (* prefix minus *)
      destruct IH as (_ & IHs & _).
      assert (HW : ok MSigned s = true -> o = OSub -> Whole (EPre o s)).
      { intros Hs -> f rest bp Hc Hf. cbn [toks app] in *. destruct f as [|f]; [cbn in Hf; lia|].
        rewrite parse_expr_unfold2. unfold prefix_then_fac. cbn [prefix_part oper_eqb]. cbn [length] in Hf.
        rewrite (IHs Hs f rest _ Hc) by lia. cbn [bind]. rewrite (strip_fac_closed _ _ Hc).
        destruct f as [|f]; [pose proof (toks_nonempty _ _ Hs); destruct (toks s); [contradiction|cbn in Hf; lia]|].
        apply bin_loop_closed. exact Hc. }
      split; [cbn [ok]; destruct o; discriminate|]. split.
      + cbn [ok]. destruct o; try discriminate. intros Hs. apply HW; [exact Hs|reflexivity].
      + cbn [ok]. destruct o; try discriminate. intros Hs. cbn [is_pre wrapt].
        apply phrase_paren; [apply HW; [exact Hs|reflexivity]|reflexivity].
    - (* factorial *)
      destruct IH as (_ & _ & IHp).
      assert (HP : ok MParen s = true -> o = OFac -> Phrase (toks (EPost o s)) (EPost o s)).
      { intros Hs -> f rest bp Hf. cbn [toks] in *. rewrite <- app_assoc in *.
        rewrite (IHp Hs) by exact Hf. reflexivity. }
      cbn [ok is_pre wrapt]. destruct o; try (split; [discriminate|split; discriminate]).
      split; [|split]; intros Hs.
      + apply HP; [exact Hs|reflexivity].
      + apply whole_of_phrase; [apply (toks_nonempty MSigned); exact Hs|apply HP; [exact Hs|reflexivity]].
      + apply HP; [exact Hs|reflexivity].
    - (* parenthesised binary operation *)
      destruct IHl as (IHl1 & _ & IHl3). destruct IHr as (_ & IHr2 & _).
      assert (HP : ok MOperand (EBin o l r p) = true -> Phrase (toks (EBin o l r p)) (EBin o l r p)).
      { cbn [ok]. destruct p; [|discriminate]. intros H.
        apply andb_prop in H as [H Hr0]. apply andb_prop in H as [Ho Hl].
        intros f rest bp Hf. cbn [toks wrapt] in *. repeat rewrite <- app_assoc in *. cbn [app] in *.
        unfold prefix_then_fac. cbn [prefix_part]. cbn [length] in Hf.
        assert (HL : Phrase (wrapt (is_caret o && is_pre l) (toks l)) l).
        { destruct (is_caret o); cbn [andb]; [apply IHl3; exact Hl|apply IHl1; exact Hl]. }
        rewrite (parse_top f o l r _ (TRParen :: rest) 0 HL (IHr2 Hr0) Ho I ltac:(lia)).
        - reflexivity.
        - lia.
        - apply (toks_nonempty _ _ Hr0). }
      split; [exact HP|]. split.
      + intros H. apply whole_of_phrase; [apply (toks_nonempty _ _ H)|apply HP; exact H].
      + cbn [is_pre wrapt]. exact HP.
  Qed.

  (* ---- no number: fold changes nothing -------------------------------------------------------------------- *)
  Lemma ok_is_num m c e : ok m e = true -> is_num c e = false.
  Proof. destruct e; cbn; try discriminate; reflexivity. Qed.
  Lemma ok_is_number m e : ok m e = true -> is_number e = false.
  Proof. destruct e; cbn; try discriminate; reflexivity. Qed.

  Lemma foldS_bin o l r p m1 m2 : ok m1 l = true -> ok m2 r = true -> foldS l = l -> foldS r = r ->
    foldS (EBin o l r p) = EBin o l r p.
  Proof.
    intros Hl Hr El Er. cbn [foldS]. rewrite El, Er.
    rewrite !(ok_is_num _ _ _ Hl), !(ok_is_num _ _ _ Hr).
    destruct o; reflexivity.
  Qed.

  Lemma foldS_ok : forall e m, ok m e = true -> foldS e = e.
  Proof.
    induction e as [x|v|c|f0 i IH|o s IH|o s IH|o l IHl r IHr p]; intros m H; try reflexivity.
    cbn [ok] in H. destruct p; [|discriminate].
    apply andb_prop in H as [H Hr0]. apply andb_prop in H as [Ho Hl].
    apply (foldS_bin _ _ _ _ _ _ Hl Hr0 (IHl _ Hl) (IHr _ Hr0)).
  Qed.

  (* ---- round trip --------------------------------------------------------------------------------------------- *)
  Lemma lexer_of_Lexes s ts : Lexes (filter nsp s) ts -> @lexer T NT s = Ok ts.
  Proof. intros H. unfold lexer. unfold Lexes, nsp in H. apply H. lia. Qed.

  Lemma c19_display_roundtrip_partial_lemma : forall e : tree, dfrag e = true -> reread fmt e = Ok e.
  Proof.
    intros e H. unfold dfrag in H. unfold reread.
    destruct (ok MSigned e) eqn:Hop.
    - (* a complete operand *)
      assert (Hlex : lexer (display fmt e) = Ok (toks e)).
      { apply lexer_of_Lexes. change (fun c : N => negb (c =? c_space)%N) with nsp.
        rewrite (filter_display _ _ Hop).
        rewrite <- (app_nil_r (chars e)), <- (app_nil_r (toks e)).
        apply (lexes_tree _ _ Hop); [exact I|apply lexes_nil]. }
      rewrite Hlex. cbn [bind]. unfold parser, parse_unfolded.
      pose proof (im_tree e _ Hop [] I) as Him. rewrite !app_nil_r in Him. cbn [implied_mul] in Him.
      rewrite Him.
      destruct (parse_tree e) as (_ & HW & _).
      pose proof (HW Hop (S (length (toks e))) [] 0 I ltac:(rewrite app_nil_r; lia)) as Hp.
      rewrite app_nil_r in Hp. rewrite Hp. cbn [bind].
      rewrite fold_operations_foldS, (foldS_ok _ _ Hop). reflexivity.
    - (* a binary operation at the top *)
      cbn [orb] in H. destruct e as [x|v|c|f0 i|o s|o s|o l r p]; try discriminate.
      destruct p; [discriminate|].
      apply andb_prop in H as [H Hr0]. apply andb_prop in H as [Ho Hl].
      assert (Hlex : lexer (display fmt (EBin o l r false)) = Ok (toks (EBin o l r false))).
      { apply lexer_of_Lexes. change (fun c : N => negb (c =? c_space)%N) with nsp.
        rewrite (filter_display_top _ _ _ Hl Hr0). apply lexes_top; assumption. }
      rewrite Hlex. cbn [bind]. unfold parser, parse_unfolded.
      cbn [toks wrapt].
      set (lts := wrapt (is_caret o && is_pre l) (toks l)).
      assert (Him : implied_mul (lts ++ [TOp o] ++ toks r) = lts ++ [TOp o] ++ toks r).
      { unfold lts. rewrite im_wrap; [|intros; apply (im_tree _ _ Hl); assumption|reflexivity].
        cbn [app]. rewrite im_inert by reflexivity.
        pose proof (im_tree r _ Hr0 [] I) as Hi. rewrite !app_nil_r in Hi. cbn [implied_mul] in Hi.
        rewrite Hi. reflexivity. }
      rewrite Him.
      assert (HL : Phrase lts l).
      { unfold lts. destruct (parse_tree l) as (P1 & _ & P3).
        destruct (is_caret o); cbn [andb]; [apply P3; exact Hl|apply P1; exact Hl]. }
      destruct (parse_tree r) as (_ & HWr & _).
      pose proof (parse_top (S (length (lts ++ [TOp o] ++ toks r))) o l r lts [] 0
                    HL (HWr Hr0) Ho I ltac:(lia)) as Hp.
      rewrite !app_nil_r in Hp. cbn [app] in Hp |- *.
      rewrite Hp; [|lia|apply (toks_nonempty _ _ Hr0)].
      cbn [bind]. rewrite fold_operations_foldS.
      rewrite (foldS_bin _ _ _ _ _ _ Hl Hr0 (foldS_ok _ _ Hl) (foldS_ok _ _ Hr0)). reflexivity.
  Qed.
End Display.
